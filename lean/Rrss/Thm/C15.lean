/-
  Rrss.Thm.C15 — names and keywords are case-blind.

  1. `VarName.key` (the key under which sym_table.rs stores a name) identifies exactly the names
     of the same kind whose words have the same lower-case image; kinds never mix; distinct
     lower-case spellings stay distinct.
  2. Every symbol-table entry point of Rrss/Env.lean and `Interp.resolve` depends on a name only
     through its key, except for the spelling recorded in error values, in the returned name and
     in `last` (the pronoun).
  3. Keyword recognition is case-blind, and the keyword table GENERATED from the running Rust
     code (Rrss/Generated/Keywords.lean) is exactly the table of promised aliases
     (Rrss/Spec/Aliases.lean, generated from Spec/aliases.txt and vlib/rock.py `ALIASES`).
  4. Renaming simulation: consistently replacing every variable, parameter and function name
     of a program by `ρ n`, for any `ρ` that keeps distinct variables distinct (injective on
     keys; the new names may be of any kind), leaves output and outcome unchanged — the error,
     if any, is the same error mentioning the renamed name.  Helper definitions and lemmas
     (`Rename.program`, `Rename.EnvRel`, the induction over the interpreter):
     Rrss/Lemmas/Rename.lean.

  Vocabulary (`VarName.CaseEq`, `VarName.kind`, `VarName.chars`, `VarName.keyShortcut`,
  `RtErr.mapName`, `Outcome.mapErr`, `asciiLowerChar`, `isKeywordChar`, `asciiCaseOps`) and all helper
  lemmas: Rrss/Lemmas/Keys.lean.

  `CharLaws`-style hypotheses (facts about Rust's `char`, stated as explicit hypotheses where
  used; true of Rust std, checked exhaustively outside Lean by `harness charlaws`):
    hlow  : ∀ c, isLowercase c = true → toLower c = [c]
    hidem : ∀ c, ∀ d ∈ toLower c, toLower d = [d]
    hfix  : ∀ c, ('a' ≤ c ∧ c ≤ 'z') ∨ c = '\'' → toLower c = [c]
    hup   : ∀ c, 'A' ≤ c ∧ c ≤ 'Z' → toLower c = [Char.ofNat (c.toNat + 32)]
  Non-vacuity: the ASCII-only `asciiCaseOps` meets all four (`asciiCaseOps_low/idem/fix/up`); the
  executable instance `charOpsImpl` built from the generated Rust std tables meets `hfix` and
  `hup` (`charOpsImpl_fix/up`, by kernel evaluation of the 128 ASCII code points).
-/
import Rrss.Lemmas.Keys
import Rrss.Lemmas.Rename
import Rrss.NumInt
set_option linter.unusedSectionVars false
namespace Rrss
open CharOps Env Interp Lexer Keys
open Rrss.Generated (keywords)
open Rrss.Spec (promised)

/-! ## 1. the key of a name -/

section
variable [CharOps]

/-- Two names have the same key exactly when they are the same name up to letter case
    (`VarName.CaseEq`): they are of the same kind (simple / common / proper), have the same
    number of words, and word by word (prefix and word for a common name) the same lower-case
    image. In particular re-casing a name within its kind never changes its key. -/
theorem C15_key_eq_iff (n n' : VarName) : n.key = n'.key ↔ n.CaseEq n' :=
  VarName.key_eq_iff n n'

/-- concrete instances (ASCII `CharOps`): a re-cased common name and a re-cased proper name have
    the key of the lower-case spelling; "the night" and "my night" are different variables; so
    are the proper names "Big Daddy" and "Bigdaddy". -/
example :
    @VarName.key asciiCaseOps (.common (str% "ThE") (str% "NIGHT")) = .common (str% "the") (str% "night")
    ∧ @VarName.key asciiCaseOps (.proper [str% "Doctor", str% "FEELGOOD"])
        = @VarName.key asciiCaseOps (.proper [str% "DOCTOR", str% "Feelgood"])
    ∧ @VarName.CaseEq asciiCaseOps (.proper [str% "Doctor", str% "FEELGOOD"])
        (.proper [str% "DOCTOR", str% "Feelgood"])
    ∧ @VarName.key asciiCaseOps (.common (str% "the") (str% "night"))
        ≠ @VarName.key asciiCaseOps (.common (str% "my") (str% "night"))
    ∧ @VarName.key asciiCaseOps (.proper [str% "Big", str% "Daddy"])
        ≠ @VarName.key asciiCaseOps (.proper [str% "Bigdaddy"]) := by
  refine ⟨by decide, by decide, ?_, by decide, by decide⟩
  rw [← @VarName.key_eq_iff asciiCaseOps]; decide

/-- The key of a name is a name of the same kind. -/
theorem C15_key_kind (n : VarName) : n.key.kind = n.kind :=
  VarName.kind_key n

/-- Names of different kinds never have the same key: a simple, a common and a proper name are
    always three different variables, whatever their spelling. -/
theorem C15_key_ne_of_kind_ne (n n' : VarName) (h : n.kind ≠ n'.kind) : n.key ≠ n'.key :=
  VarName.key_ne_of_kind_ne h

/-- non-vacuity: the simple name "tommy", the common name "a"+"tommy" and the one-word proper
    name "tommy" are of three kinds. -/
example :
    (VarName.simple (str% "tommy")).kind ≠ (VarName.common (str% "a") (str% "tommy")).kind
    ∧ (VarName.simple (str% "tommy")).kind ≠ (VarName.proper [str% "tommy"]).kind
    ∧ (VarName.common (str% "a") (str% "tommy")).kind ≠ (VarName.proper [str% "a", str% "tommy"]).kind := by
  decide

/-- A name all of whose characters are fixed by lower-casing is its own key. -/
theorem C15_key_fixed (n : VarName) (h : ∀ c ∈ n.chars, toLower c = [c]) : n.key = n :=
  VarName.key_eq_self h

/-- non-vacuity (ASCII `CharOps`): every character of "the night" is fixed. -/
example : ∀ c ∈ (VarName.common (str% "the") (str% "night")).chars, asciiCaseOps.toLower c = [c] := by
  decide

/-- Distinct lower-case spellings are distinct variables: on names all of whose characters are
    fixed by lower-casing, `key` is injective (together with `C15_key_eq_iff`: the key classes
    are exactly the classes of "same lower-case spelling, same kind"). -/
theorem C15_key_inj_on_lower (n n' : VarName)
    (h : ∀ c ∈ n.chars, toLower c = [c]) (h' : ∀ c ∈ n'.chars, toLower c = [c]) :
    n.key = n'.key ↔ n = n' := by
  rw [VarName.key_eq_self h, VarName.key_eq_self h']

/-- non-vacuity (ASCII `CharOps`): "tommy" and "tomy" are fixed by lower-casing and differ. -/
example :
    (∀ c ∈ (VarName.simple (str% "tommy")).chars, asciiCaseOps.toLower c = [c])
    ∧ (∀ c ∈ (VarName.simple (str% "tomy")).chars, asciiCaseOps.toLower c = [c])
    ∧ VarName.simple (str% "tommy") ≠ VarName.simple (str% "tomy") := by
  decide

/-- The model's `key` always lower-cases; sym_table.rs first tests whether every character
    `is_lowercase` and then reuses the name unchanged (`VarName.keyShortcut`). The two agree,
    given that lower-case characters are fixed by `to_lowercase`. -/
theorem C15_key_shortcut (hlow : ∀ c, isLowercase c = true → toLower c = [c]) (n : VarName) :
    n.keyShortcut = n.key :=
  VarName.keyShortcut_eq hlow n

/-- non-vacuity: the ASCII `CharOps` meets the hypothesis, and the shortcut is taken for
    "tommy" and not taken for "Tommy". -/
example :
    (∀ c, asciiCaseOps.isLowercase c = true → asciiCaseOps.toLower c = [c])
    ∧ (VarName.simple (str% "tommy")).chars.all asciiCaseOps.isLowercase = true
    ∧ (VarName.simple (str% "Tommy")).chars.all asciiCaseOps.isLowercase = false :=
  ⟨asciiCaseOps_low, by decide, by decide⟩

/-- Keys are already lower-cased: taking the key of a key changes nothing, given that every
    character produced by `to_lowercase` is itself fixed by `to_lowercase`. -/
theorem C15_key_idem (hidem : ∀ c, ∀ d ∈ toLower c, toLower d = [d]) (n : VarName) :
    n.key.key = n.key :=
  VarName.key_idem hidem n

/-- non-vacuity: the ASCII `CharOps` meets `hidem`; the key of "ToMMy" is "tommy", twice. -/
example :
    (∀ c, ∀ d ∈ asciiCaseOps.toLower c, asciiCaseOps.toLower d = [d])
    ∧ @VarName.key asciiCaseOps (@VarName.key asciiCaseOps (.simple (str% "ToMMy")))
        = .simple (str% "tommy") :=
  ⟨asciiCaseOps_idem, by decide⟩

/-- On keys (names that are the key of some name) `key` is injective: two stored names are
    looked up by the same key only if they are the same stored name. -/
theorem C15_key_inj_on_keys (hidem : ∀ c, ∀ d ∈ toLower c, toLower d = [d]) (m m' : VarName) :
    m.key.key = m'.key.key ↔ m.key = m'.key := by
  rw [VarName.key_idem hidem, VarName.key_idem hidem]

/-- non-vacuity: `hidem` holds for the ASCII `CharOps`; the keys of "Tommy" and "Gina" differ. -/
example :
    (∀ c, ∀ d ∈ asciiCaseOps.toLower c, asciiCaseOps.toLower d = [d])
    ∧ @VarName.key asciiCaseOps (.simple (str% "Tommy")) ≠ @VarName.key asciiCaseOps (.simple (str% "Gina")) :=
  ⟨asciiCaseOps_idem, by decide⟩

/-- For names that are their own key (already lower-cased), equal keys mean equal names. -/
theorem C15_key_inj_of_self (n n' : VarName) (h : n.key = n) (h' : n'.key = n') :
    n.key = n'.key ↔ n = n' := by
  rw [h, h']

/-- non-vacuity (ASCII `CharOps`): "tommy" and "the"+"night" are their own keys. -/
example :
    @VarName.key asciiCaseOps (.simple (str% "tommy")) = .simple (str% "tommy")
    ∧ @VarName.key asciiCaseOps (.common (str% "the") (str% "night"))
        = .common (str% "the") (str% "night") := by
  decide

end

/-! ## 2. the symbol table sees a name only through its key

  Throughout, `name'` is any other spelling of `name` (`name'.key = name.key`, see
  `C15_key_eq_iff`). `RtErr.mapName f` replaces the name mentioned by an error and nothing
  else; `Outcome.mapErr` / `Except.mapError` apply it to the error of a result. -/

section
variable [CharOps] {N : Type} [NumOps N]

/-- Looking up a variable under another spelling of the same name finds the same value; if it
    fails, it fails with the same error, which mentions the spelling used. -/
theorem C15_lookupVarIn (name name' : VarName) (h : name'.key = name.key) (scopes : List (Scope N)) :
    lookupVarIn name' scopes = (lookupVarIn name scopes).mapError (RtErr.mapName fun _ => name') :=
  lookupVarIn_recase h scopes

/-- concrete instance (ASCII `CharOps`, `N = Int`): "TOMMY" and "Tommy" have one key; stored
    under "tommy", the value is found under "TOMMY"; "Gina" is not found and the error carries
    that spelling. -/
example :
    @VarName.key asciiCaseOps (.simple (str% "TOMMY")) = @VarName.key asciiCaseOps (.simple (str% "Tommy"))
    ∧ (match @lookupVarIn asciiCaseOps Int (.simple (str% "TOMMY"))
          [[], [(.simple (str% "tommy"), .var (.num 5))]] with
        | .ok (.num 5) => true | _ => false) = true
    ∧ (match @lookupVarIn asciiCaseOps Int (.simple (str% "Gina"))
          [[], [(.simple (str% "tommy"), .var (.num 5))]] with
        | .error (.nameNotFound n) => decide (n = .simple (str% "Gina")) | _ => false) = true := by
  decide

/-- The same for functions. -/
theorem C15_lookupFuncIn (name name' : VarName) (h : name'.key = name.key) (scopes : List (Scope N)) :
    lookupFuncIn name' scopes = (lookupFuncIn name scopes).mapError (RtErr.mapName fun _ => name') :=
  lookupFuncIn_recase h scopes

/-- concrete instance: a variable stored under "tommy" answers `ExpectedFuncFoundVar` with the
    spelling used in the call. -/
example :
    (match @lookupFuncIn asciiCaseOps Int (.simple (str% "ToMMy"))
          [[(.simple (str% "tommy"), .var (.num 5))]] with
        | .error (.expectedFuncFoundVar n) => decide (n = .simple (str% "ToMMy")) | _ => false) = true := by
  decide

/-- Storing into a variable under another spelling of its name produces exactly the same
    scope stack. -/
theorem C15_setVarIn (name name' : VarName) (h : name'.key = name.key) (v : Val N)
    (scopes : List (Scope N)) : setVarIn name' v scopes = setVarIn name v scopes :=
  setVarIn_recase h v scopes

/-- concrete instance: storing under "TOMMY" overwrites the cell stored under "tommy" (the
    stored key stays "tommy", no second cell appears). -/
example :
    (match @setVarIn asciiCaseOps Int (.simple (str% "TOMMY")) (.num 7)
          [[], [(.simple (str% "tommy"), .var (.num 5))]] with
        | [[], [(k, .var (.num 7))]] => decide (k = .simple (str% "tommy")) | _ => false) = true := by
  decide

/-- `lookup_var` under another spelling: same value or same error up to the spelling in it; the
    environment afterwards differs only in the spelling remembered for the pronoun. -/
theorem C15_lookupVar (name name' : VarName) (h : name'.key = name.key) (env : Env N) :
    lookupVar name' env =
      ((lookupVar name env).1.mapErr (RtErr.mapName fun _ => name'),
       { (lookupVar name env).2 with last := some name' }) :=
  lookupVar_recase h env

/-- concrete instance: "TOMMY" reads the 5 stored under "tommy"; the pronoun now refers to the
    spelling "TOMMY". -/
example :
    @VarName.key asciiCaseOps (.simple (str% "TOMMY")) = @VarName.key asciiCaseOps (.simple (str% "tommy"))
    ∧ (match @lookupVar asciiCaseOps Int (.simple (str% "TOMMY"))
          { scopes := [[(.simple (str% "tommy"), .var (.num 5))]] } with
        | (.ok (.num 5), env) => decide (env.last = some (.simple (str% "TOMMY")))
        | _ => false) = true := by
  decide

/-- Reading through the pronoun: two environments that differ only in the spelling remembered
    for the pronoun give the same value, or the same error up to that spelling. -/
theorem C15_lastAccess (name name' : VarName) (h : name'.key = name.key) (env : Env N) :
    lastAccess { env with last := some name' } =
      ((lastAccess { env with last := some name }).1.mapErr (RtErr.mapName fun _ => name'),
       { env with last := some name' }) :=
  lastAccess_recase h env

/-- concrete instance: with the pronoun referring to the spelling "TOMMY", the 5 stored under
    "tommy" is read. -/
example :
    (match @lastAccess asciiCaseOps Int
          { scopes := [[(.simple (str% "tommy"), .var (.num 5))]], last := some (.simple (str% "TOMMY")) } with
        | (.ok (.num 5), _) => true | _ => false) = true := by
  decide

/-- Resolving the target of a write (`lookup_or_create!`) under another spelling of the name:
    the outcome is the same up to the spelling — in the returned name, in the error (duplicate
    symbol) and in the name remembered for the pronoun; the cell found or created, its value,
    the scope stack and everything else in the environment are identical. -/
theorem C15_resolve_var (name name' : VarName) (h : name'.key = name.key) (env : Env N) :
    resolve (.var name') env =
      ((((resolve (.var name) env).1.map fun p => (name', p.2)).mapErr (RtErr.mapName fun _ => name')),
       { (resolve (.var name) env).2 with last := some name' }) :=
  resolve_var_recase h env

/-- non-vacuity (ASCII `CharOps`): a simple, a common and a proper name each have re-cased
    spellings with the same key (evaluations of `resolve` follow `C15_resolve_var_name`). -/
example :
    @VarName.key asciiCaseOps (.simple (str% "TOMMY")) = @VarName.key asciiCaseOps (.simple (str% "tommy"))
    ∧ @VarName.key asciiCaseOps (.common (str% "My") (str% "HEART"))
        = @VarName.key asciiCaseOps (.common (str% "my") (str% "heart"))
    ∧ @VarName.key asciiCaseOps (.proper [str% "Johnny", str% "B", str% "GOODE"])
        = @VarName.key asciiCaseOps (.proper [str% "JOHNNY", str% "b", str% "Goode"]) := by
  decide

/-- In particular the scope stacks after the two resolutions are the same. -/
theorem C15_resolve_var_scopes (name name' : VarName) (h : name'.key = name.key) (env : Env N) :
    (resolve (.var name') env).2.scopes = (resolve (.var name) env).2.scopes := by
  rw [resolve_var_recase h env]

/-- concrete instance: resolving "GINA" or "gina" in an environment without it creates the same
    cell, keyed "gina". -/
example :
    (@resolve asciiCaseOps Int (.var (.simple (str% "GINA"))) {}).2.scopes.map (·.map (·.1))
      = [[.simple (str% "gina")]]
    ∧ (@resolve asciiCaseOps Int (.var (.simple (str% "gina"))) {}).2.scopes.map (·.map (·.1))
      = [[.simple (str% "gina")]] := by
  decide

/-- The name a successful resolution returns (under which the result is stored back with
    `setVarIn`, see `C15_setVarIn`) is the spelling it was given, and that spelling is what the
    pronoun now refers to. -/
theorem C15_resolve_var_name (name : VarName) (env env' : Env N) (n : VarName) (v : Val N)
    (h : resolve (.var name) env = (.ok (n, v), env')) : n = name ∧ env'.last = some name :=
  resolve_var_fst env h

/-- concrete instance: resolving "TOMMY" where "tommy" holds 5 finds 5 and creates nothing;
    resolving "Gina" creates the cell under the key "gina" in the innermost scope. -/
example :
    (match @resolve asciiCaseOps Int (.var (.simple (str% "TOMMY")))
          { scopes := [[], [(.simple (str% "tommy"), .var (.num 5))]] } with
        | (.ok (n, .num 5), env) =>
            decide (n = .simple (str% "TOMMY")) && decide (env.last = some (.simple (str% "TOMMY")))
              && decide (env.scopes.map (·.map (·.1)) = [[], [.simple (str% "tommy")]])
        | _ => false) = true
    ∧ (match @resolve asciiCaseOps Int (.var (.simple (str% "Gina")))
          { scopes := [[], [(.simple (str% "tommy"), .var (.num 5))]] } with
        | (.ok (_, .undef), env) =>
            decide (env.scopes.map (·.map (·.1)) = [[.simple (str% "gina")], [.simple (str% "tommy")]])
        | _ => false) = true := by
  decide

/-- Resolving the pronoun as a write target when the remembered spelling differs in case. -/
theorem C15_resolve_pronoun (name name' : VarName) (h : name'.key = name.key) (env : Env N) :
    resolve .pronoun { env with last := some name' } =
      ((((resolve .pronoun { env with last := some name }).1.map fun p => (name', p.2)).mapErr
          (RtErr.mapName fun _ => name')),
       { env with last := some name' }) :=
  resolve_pronoun_recase h env

/-- concrete instance: writing through the pronoun that refers to the spelling "TOMMY" reaches
    the cell stored under "tommy" and hands back the remembered spelling. -/
example :
    (match @resolve asciiCaseOps Int .pronoun
          { scopes := [[(.simple (str% "tommy"), .var (.num 5))]], last := some (.simple (str% "TOMMY")) } with
        | (.ok (n, .num 5), _) => decide (n = .simple (str% "TOMMY")) | _ => false) = true := by
  decide

/-- Declaring a function under another spelling of its name: same environment afterwards; a
    duplicate is reported with the spelling used. -/
theorem C15_createFunc (name name' : VarName) (h : name'.key = name.key)
    (params : List VarName) (body : Block N) (env : Env N) :
    createFunc name' params body env =
      ((createFunc name params body env).1.mapErr (RtErr.mapName fun _ => name'),
       (createFunc name params body env).2) :=
  createFunc_recase h params body env

/-- concrete instance: declaring "TOMMY" where the variable "tommy" lives is a duplicate. -/
example :
    (match @createFunc asciiCaseOps Int (.simple (str% "TOMMY")) [] (.mk ⟨1, 0⟩ [])
          { scopes := [[(.simple (str% "tommy"), .var (.num 5))]] } with
        | (.err (.duplicateSymbol n), _) => decide (n = .simple (str% "TOMMY")) | _ => false) = true := by
  decide

/-- Building the scope of a call (`SymTable::for_function_call`) from two argument lists that
    agree position by position in the key of the parameter name and in the value: either both
    succeed with the same scope, or both fail on the same position, each reporting the
    duplicate parameter in its own spelling. -/
theorem C15_functionScope (args args' : List (VarName × Val N))
    (hk : args'.map (·.1.key) = args.map (·.1.key)) (hv : args'.map (·.2) = args.map (·.2))
    (acc : Scope N) :
    match functionScope args acc, functionScope args' acc with
    | .ok s, .ok s' => s' = s
    | .error e, .error e' =>
        ∃ (i : Nat) (h : i < args.length) (h' : i < args'.length),
          e = .duplicateArgName args[i].1 ∧ e' = .duplicateArgName args'[i].1
    | _, _ => False :=
  functionScope_recase args args' hk hv acc

/-- concrete instance: parameters "X", "y" and "x", "Y" build the same scope (keys "x", "y");
    parameters "x", "X" are duplicates. -/
example :
    (match @functionScope asciiCaseOps Int
          [(.simple (str% "X"), .num 1), (.simple (str% "y"), .num 2)] [] with
        | .ok [(k1, .var (.num 1)), (k2, .var (.num 2))] =>
            decide (k1 = .simple (str% "x")) && decide (k2 = .simple (str% "y"))
        | _ => false) = true
    ∧ (match @functionScope asciiCaseOps Int
          [(.simple (str% "x"), .num 1), (.simple (str% "X"), .num 2)] [] with
        | .error (.duplicateArgName n) => decide (n = .simple (str% "X")) | _ => false) = true := by
  decide

/-- The same for a re-spelling given as a function on names that preserves keys: the scope is
    the same, the error is the same with the name re-spelled. -/
theorem C15_functionScope_map (ρ : VarName → VarName) (hρ : ∀ n, (ρ n).key = n.key)
    (args : List (VarName × Val N)) (acc : Scope N) :
    functionScope (args.map fun a => (ρ a.1, a.2)) acc
      = (functionScope args acc).mapError (RtErr.mapName ρ) :=
  functionScope_map ρ hρ args acc

/-- non-vacuity: given `hidem` (which the ASCII `CharOps` meets, see `C15_key_idem`),
    `VarName.key` itself is a key-preserving re-spelling. -/
example (hidem : ∀ c, ∀ d ∈ toLower c, toLower d = [d]) : ∀ n : VarName, (n.key).key = n.key :=
  VarName.key_idem hidem

/-- `push_function_scope` under a key-preserving re-spelling of the parameter names. -/
theorem C15_pushFunctionScope_map (ρ : VarName → VarName) (hρ : ∀ n, (ρ n).key = n.key)
    (args : List (VarName × Val N)) (env : Env N) :
    pushFunctionScope (args.map fun a => (ρ a.1, a.2)) env
      = ((pushFunctionScope args env).1.mapErr (RtErr.mapName ρ), (pushFunctionScope args env).2) :=
  pushFunctionScope_map ρ hρ args env

/-- concrete instance (ASCII `CharOps`): upper-casing the first letter of a simple name is a
    key-preserving re-spelling of "x", "y". -/
example :
    @VarName.key asciiCaseOps (.simple (str% "X")) = @VarName.key asciiCaseOps (.simple (str% "x"))
    ∧ @VarName.key asciiCaseOps (.simple (str% "Y")) = @VarName.key asciiCaseOps (.simple (str% "y")) := by
  decide

end

/-! ## 3. keywords -/

section
variable [CharOps]

/-- Keyword recognition looks at a word only through its lower-case image, for any table. -/
theorem C15_matchKeyword_case_blind (kw : List (Str × TK)) (w w' : Str) (h : lower w = lower w') :
    matchKeyword kw w = matchKeyword kw w' :=
  matchKeyword_congr kw h

/-- concrete instance (ASCII `CharOps`, generated table): "AiN'T" and "ain't" have the same
    lower-case image and are the keyword `isnt`; "Aint'" is not a keyword. -/
example :
    @lower asciiCaseOps (str% "AiN'T") = @lower asciiCaseOps (str% "ain't")
    ∧ @matchKeyword asciiCaseOps keywords (str% "AiN'T") = some .isnt
    ∧ @matchKeyword asciiCaseOps keywords (str% "Aint'") = none := by
  decide

end

/-- (a) The keys of the generated keyword table are pairwise distinct (it is a finite map; the
    order of the association list is immaterial). -/
theorem C15_keywords_nodup : (keywords.map (·.1)).Nodup := by
  decide +kernel

/-- (b) Every key of the generated table consists of ASCII lower-case letters and apostrophes. -/
theorem C15_keywords_chars :
    ∀ p ∈ keywords, ∀ c ∈ p.1, ('a' ≤ c ∧ c ≤ 'z') ∨ c = '\'' := by
  have h : keywords.all (fun p => p.1.all isKeywordChar) = true := by decide +kernel
  intro p hp c hc
  have := List.all_eq_true.mp (List.all_eq_true.mp h p hp) c hc
  simpa only [isKeywordChar, Bool.or_eq_true, Bool.and_eq_true, decide_eq_true_eq, beq_iff_eq]
    using this

/-- (c) Every alias the grammar promises (the 128 words of Spec/aliases.txt with the token kinds
    of vlib/rock.py `ALIASES`) is in the generated table with the promised kind. Re-checked
    against the running code on every build: a dropped or retargeted alias breaks this proof. -/
theorem C15_promised_present : ∀ p ∈ promised, List.lookup p.1 keywords = some p.2 := by
  have h : promised.all (fun p => List.lookup p.1 keywords == some p.2) = true := by decide +kernel
  intro p hp
  exact eq_of_beq (List.all_eq_true.mp h p hp)

/-- (d) Conversely, every entry of the generated table is a promised alias with that kind: the
    lexer knows no undocumented keyword. -/
theorem C15_keywords_promised : ∀ p ∈ keywords, List.lookup p.1 promised = some p.2 := by
  have h : keywords.all (fun p => List.lookup p.1 promised == some p.2) = true := by decide +kernel
  intro p hp
  exact eq_of_beq (List.all_eq_true.mp h p hp)

/-- (c) and (d) together: the generated table and the promised table are the same finite map —
    every word whatsoever is looked up to the same answer in both; both have 128 entries. -/
theorem C15_keywords_eq_promised :
    (∀ w : Str, List.lookup w keywords = List.lookup w promised)
    ∧ keywords.length = 128 ∧ promised.length = 128 :=
  ⟨lookup_eq_of_mutual C15_keywords_promised C15_promised_present, by decide +kernel, by decide +kernel⟩

/-- The hand-transcribed table `Lexer.defaultKeywords` of the model (not used by the driver,
    which runs on the generated table) is the same finite map as the generated one. -/
theorem C15_defaultKeywords_eq_generated :
    ∀ w : Str, List.lookup w defaultKeywords = List.lookup w keywords := by
  have h₁ : defaultKeywords.all (fun p => List.lookup p.1 keywords == some p.2) = true := by
    decide +kernel
  have h₂ : keywords.all (fun p => List.lookup p.1 defaultKeywords == some p.2) = true := by
    decide +kernel
  exact lookup_eq_of_mutual (fun p hp => eq_of_beq (List.all_eq_true.mp h₁ p hp))
    (fun p hp => eq_of_beq (List.all_eq_true.mp h₂ p hp))

section
variable [CharOps]

/-- Every re-casing of a promised alias is recognised as that alias: if the lower-case image of
    the word `w'` is the promised word, the lexer's keyword match on the generated table
    answers the promised kind. (Any `CharOps`; includes non-ASCII re-casings such as the
    Kelvin sign for `k` if `toLower` maps it there.) -/
theorem C15_keyword_recased (p : Str × TK) (hp : p ∈ promised) (w' : Str) (h : lower w' = p.1) :
    matchKeyword keywords w' = some p.2 :=
  matchKeyword_of_lower h (C15_promised_present p hp)

/-- concrete instance with the executable `CharOps` generated from the Rust std tables: "KNOCK"
    written with the Kelvin sign (U+212A) for both K's is the keyword `knock`. -/
example :
    ((['k','n','o','c','k'], TK.knock) ∈ promised)
    ∧ @lower charOpsImpl ['\u212A','N','o','C','\u212A'] = ['k','n','o','c','k']
    ∧ @matchKeyword charOpsImpl keywords ['\u212A','N','o','C','\u212A'] = some .knock := by
  decide +kernel

/-- Conversely a word is recognised as a keyword only if its lower-case image is a promised
    alias of that kind. -/
theorem C15_keyword_only_promised (w' : Str) (k : TK) (h : matchKeyword keywords w' = some k) :
    (lower w', k) ∈ promised := by
  have h₁ : List.lookup (lower w') keywords = some k := h
  have h₂ := mem_of_lookup_eq_some h₁
  exact mem_of_lookup_eq_some (C15_keywords_promised _ h₂)

/-- concrete instance (executable `CharOps` from the Rust std tables): "SHATTER" is matched as
    `cut`. -/
example : @matchKeyword charOpsImpl keywords (str% "SHATTER") = some .cut := by decide +kernel

/-- ASCII re-casing, stated without reference to `CharOps.lower`: given only that `to_lowercase`
    fixes ASCII lower-case letters and the apostrophe and sends ASCII upper-case letters to the
    letter 32 code points up, every word `w'` obtained from a promised alias by upper-casing any
    of its letters (`w'.map asciiLowerChar` is the alias) is recognised as that alias. -/
theorem C15_keyword_ascii_recased
    (hfix : ∀ c : Char, (('a' ≤ c ∧ c ≤ 'z') ∨ c = '\'') → toLower c = [c])
    (hup : ∀ c : Char, ('A' ≤ c ∧ c ≤ 'Z') → toLower c = [Char.ofNat (c.toNat + 32)])
    (p : Str × TK) (hp : p ∈ promised) (w' : Str) (h : w'.map asciiLowerChar = p.1) :
    matchKeyword keywords w' = some p.2 := by
  have hlk := C15_promised_present p hp
  have hchars : ∀ c ∈ p.1, isKeywordChar c = true := by
    intro c hc
    have := C15_keywords_chars _ (mem_of_lookup_eq_some hlk) c hc
    simpa only [isKeywordChar, Bool.or_eq_true, Bool.and_eq_true, decide_eq_true_eq, beq_iff_eq]
      using this
  exact matchKeyword_of_lower (lower_eq_of_asciiLowerChar hfix hup hchars h) hlk

end

/-- non-vacuity: both the ASCII `CharOps` and the executable instance generated from the Rust std
    tables meet `hfix` and `hup`; "WeReN'T" is an ASCII re-casing of the promised alias
    "weren't" (kind `isnt`), and is recognised by evaluation as well. -/
example :
    (∀ c : Char, (('a' ≤ c ∧ c ≤ 'z') ∨ c = '\'') → charOpsImpl.toLower c = [c])
    ∧ (∀ c : Char, ('A' ≤ c ∧ c ≤ 'Z') → charOpsImpl.toLower c = [Char.ofNat (c.toNat + 32)])
    ∧ (∀ c : Char, (('a' ≤ c ∧ c ≤ 'z') ∨ c = '\'') → asciiCaseOps.toLower c = [c])
    ∧ (∀ c : Char, ('A' ≤ c ∧ c ≤ 'Z') → asciiCaseOps.toLower c = [Char.ofNat (c.toNat + 32)])
    ∧ ((str% "weren't", TK.isnt) ∈ promised)
    ∧ (str% "WeReN'T").map asciiLowerChar = str% "weren't"
    ∧ @matchKeyword charOpsImpl keywords (str% "WeReN'T") = some .isnt :=
  ⟨charOpsImpl_fix, charOpsImpl_up, asciiCaseOps_fix, asciiCaseOps_up, by decide +kernel, by decide +kernel,
   by decide +kernel⟩

/-! ## 4. renaming simulation -/

section
variable [CharOps] {N : Type} [NumOps N]

/-- `Rename.program ρ p` is `p` with every name replaced by `ρ` of it, in every name position:
    identifiers read and written (also as array operands and subscripts), the callee of a call
    (as expression and as statement), the name and the parameters of a function definition,
    recursively through blocks; the pronoun, literals, operators and source ranges stay.  (The
    defining equations of `Rename.ident/primary/expr/lhs/stmt/block`, representative cases.) -/
theorem C15_rename_syntax (ρ : VarName → VarName) :
    (∀ v, Rename.ident ρ (.var v) = .var (ρ v)) ∧ Rename.ident ρ .pronoun = .pronoun
    ∧ (∀ (i : Ident) r, Rename.primary (N := N) ρ (.ident i r) = .ident (Rename.ident ρ i) r)
    ∧ (∀ (a i : Primary N), Rename.primary ρ (.sub a i) = .sub (Rename.primary ρ a) (Rename.primary ρ i))
    ∧ (∀ name r (args : List (Expr N)),
        Rename.primary ρ (.call name r args) = .call (ρ name) r (args.map (Rename.expr ρ)))
    ∧ (∀ (d : Lhs N) op v, Rename.stmt ρ (.assign d op v)
        = .assign (Rename.lhs ρ d) op ⟨Rename.expr ρ v.first, v.rest.map (Rename.expr ρ)⟩)
    ∧ (∀ name r params (body : Block N), Rename.stmt ρ (.func name r params body)
        = .func (ρ name) r (params.map fun p => (ρ p.1, p.2)) (Rename.block ρ body))
    ∧ (∀ name r (args : List (Expr N)),
        Rename.stmt ρ (.call name r args) = .call (ρ name) r (args.map (Rename.expr ρ)))
    ∧ (∀ loc (ss : List (Stmt N)), Rename.block ρ (.mk loc ss) = .mk loc (ss.map (Rename.stmt ρ)))
    ∧ (∀ p : Program N, (Rename.program ρ p).code = p.code.map (Rename.block ρ)) := by
  refine ⟨fun _ => rfl, rfl, fun _ _ => ?_, fun _ _ => ?_, fun _ _ _ => ?_, fun _ _ _ => ?_,
    fun _ _ _ _ => ?_, fun _ _ _ => ?_, fun _ _ => ?_, fun _ => ?_⟩
  · simp [Rename.primary]
  · simp [Rename.primary]
  · simp [Rename.primary, Rename.exprs_eq_map]
  · simp [Rename.stmt, Rename.exprList, Rename.exprs_eq_map]
  · simp [Rename.stmt]
  · simp [Rename.stmt, Rename.exprs_eq_map]
  · simp [Rename.block, Rename.stmts_eq_map]
  · simp [Rename.program, Rename.blocks_eq_map]

/-- **Renaming never changes behaviour.**  Let `ρ` rename names so that two names denote the
    same variable after renaming exactly when they did before (`(ρ n).key = (ρ m).key ↔ n.key =
    m.key`: injective on variables, and consistent across re-cased mentions; the new names may be
    of any of the three kinds).  Run a program and its renamed version, with the same fuel, from
    the same initial environment (no bindings, no pronoun referent; any input, fault settings and
    budgets): the two runs write exactly the same bytes and end the same way — success, the same
    crash site, the same exhausted budget, or the same error, in which the name mentioned (if
    any) is the renamed name. -/
theorem C15_rename (ρ : VarName → VarName) (hρ : ∀ n m, (ρ n).key = (ρ m).key ↔ n.key = m.key)
    (fuel : Nat) (p : Program N) (env : Env N) (hs : env.scopes = [[]]) (hl : env.last = none) :
    (execProgram fuel (Rename.program ρ p) env).2.out = (execProgram fuel p env).2.out
    ∧ (execProgram fuel (Rename.program ρ p) env).1
        = (execProgram fuel p env).1.mapErr (RtErr.mapName ρ) :=
  have h := Rename.exec_rename hρ fuel p (Rename.envRel_initial env hs hl)
  ⟨h.1, h.2.1⟩

/-- Consequently the outcome class is the same: the renamed run fails iff the original one does,
    with an error of the same class (the message differs only in the spelling of the name). -/
theorem C15_rename_class (ρ : VarName → VarName) (hρ : ∀ n m, (ρ n).key = (ρ m).key ↔ n.key = m.key)
    (fuel : Nat) (p : Program N) (env : Env N) (hs : env.scopes = [[]]) (hl : env.last = none) :
    (execProgram fuel (Rename.program ρ p) env).1.mapErr RtErr.className
      = (execProgram fuel p env).1.mapErr RtErr.className := by
  rw [(C15_rename ρ hρ fuel p env hs hl).2]
  cases (execProgram fuel p env).1 <;> simp [Outcome.mapErr, Rename.className_mapName]

/-- **Re-casing any mention never changes behaviour.**  Two programs that become identical when
    every name is replaced by its key (`Rename.program VarName.key`) — i.e. that differ only in
    the letter case of individual mentions of names, each mention independently — write the same
    bytes and end the same way, the error (if any) mentioning the same name up to letter case.
    (Replacing every name by its key is itself a renaming that keeps distinct variables
    distinct, given that lower-casing is idempotent; so this is `C15_rename` used twice.) -/
theorem C15_recase (hidem : ∀ c, ∀ d ∈ toLower c, toLower d = [d]) (fuel : Nat)
    (p p' : Program N) (h : Rename.program VarName.key p' = Rename.program VarName.key p)
    (env : Env N) (hs : env.scopes = [[]]) (hl : env.last = none) :
    (execProgram fuel p' env).2.out = (execProgram fuel p env).2.out
    ∧ (execProgram fuel p' env).1.mapErr (RtErr.mapName VarName.key)
        = (execProgram fuel p env).1.mapErr (RtErr.mapName VarName.key) := by
  have hk : ∀ n m : VarName, n.key.key = m.key.key ↔ n.key = m.key :=
    fun n m => C15_key_inj_on_keys hidem n m
  have h1 := C15_rename VarName.key hk fuel p env hs hl
  have h2 := C15_rename VarName.key hk fuel p' env hs hl
  rw [h] at h2
  exact ⟨h2.1.symm.trans h1.1, h2.2.symm.trans h1.2⟩

/-- non-vacuity (ASCII `CharOps`, which meets `hidem`): `put 7 into x; say X; say y` and
    `put 7 into X; say x; say Y` become the same program when names are replaced by keys. -/
example :
    (∀ c, ∀ d ∈ asciiCaseOps.toLower c, asciiCaseOps.toLower d = [d])
    ∧ Rename.program (@VarName.key asciiCaseOps) Rename.exProgRecased
        = Rename.program (@VarName.key asciiCaseOps) Rename.exProg :=
  ⟨asciiCaseOps_idem, by rfl⟩

/-- `Rename.EnvRel ρ e e'`, spelled out: scope stacks of the same height; scope by scope the same
    number of bindings, in the same order; where the original run has a binding under the key of
    some name `n`, the renamed run has one under the key of `ρ n`, holding the same value, or the
    function with parameters and body renamed; the pronoun refers to the renamed name; input,
    output, fault settings and budgets are equal. -/
theorem C15_rename_envRel_def (ρ : VarName → VarName) (e e' : Env N) :
    Rename.EnvRel ρ e e' ↔
      All₂ (fun s s' : Scope N =>
          All₂ (fun a b : VarName × Entry N =>
            (∃ n : VarName, a.1 = n.key ∧ b.1 = (ρ n).key) ∧
            match a.2, b.2 with
            | .var v, .var v' => v = v'
            | .func ps body, .func ps' body' => ps' = ps.map ρ ∧ body' = Rename.block ρ body
            | _, _ => False) s s')
        e.scopes e'.scopes
      ∧ e'.last = e.last.map ρ ∧ e.input = e'.input ∧ e.handed = e'.handed
      ∧ e.readFault = e'.readFault ∧ e.out = e'.out ∧ e.wbudget = e'.wbudget
      ∧ e.steps = e'.steps ∧ e.cap = e'.cap :=
  Iff.rfl

/-- The simulation behind it, from any pair of related environments (`Rename.EnvRel ρ`: scope by
    scope and binding by binding, the renamed run stores under the key of `ρ n` what the original
    run stores under the key of `n` — the same value, or the function with renamed parameters and
    body; the pronoun refers to the renamed name; input, output and budgets are equal): same
    output, same outcome up to the name in the error, related final environments. -/
theorem C15_rename_sim (ρ : VarName → VarName) (hρ : ∀ n m, (ρ n).key = (ρ m).key ↔ n.key = m.key)
    (fuel : Nat) (p : Program N) (env env' : Env N) (h : Rename.EnvRel ρ env env') :
    (execProgram fuel (Rename.program ρ p) env').2.out = (execProgram fuel p env).2.out
    ∧ (execProgram fuel (Rename.program ρ p) env').1
        = (execProgram fuel p env).1.mapErr (RtErr.mapName ρ)
    ∧ Rename.EnvRel ρ (execProgram fuel p env).2 (execProgram fuel (Rename.program ρ p) env').2 :=
  Rename.exec_rename hρ fuel p h

end

/-- non-vacuity: `Rename.exRho` sends simple names to common names, common names to two-word
    proper names and proper names to longer proper names; it meets the hypothesis for every
    `CharOps`.  With `N := Int` and the Unicode tables generated from Rust's std, the program
    `put 7 into x; say X; say y` and its renamed version (`the x`, `the X`, `the y`) both print
    `7` and then fail with `NameNotFound`, mentioning `y` resp. `the y` — evaluated by the kernel. -/
example :
    (∀ [CharOps] (n m : VarName),
        (Rename.exRho n).key = (Rename.exRho m).key ↔ n.key = m.key)
    ∧ Rename.exRho (.simple str% "x") = .common str% "the" str% "x"
    ∧ (execProgram 10 Rename.exProg {}).2.out = [55, 10]
    ∧ (execProgram 10 (Rename.program Rename.exRho Rename.exProg) {}).2.out = [55, 10]
    ∧ Rename.errText? (execProgram 10 Rename.exProg {}).1
        = some str% "the name 'y' could not be found"
    ∧ Rename.errText? (execProgram 10 (Rename.program Rename.exRho Rename.exProg) {}).1
        = some str% "the name 'the y' could not be found" := by
  refine ⟨fun n m => Rename.exRho_keyInj n m, rfl, ?_, ?_, ?_, ?_⟩ <;> decide +kernel

end Rrss
