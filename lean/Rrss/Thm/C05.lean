/-
  Rrss.Thm.C05 — functions, scopes and pronouns: calls are by value and locals do not leak.

  The scope stack `Env.scopes` is innermost FIRST (Rust's `symbols` is innermost last); a scope is
  an association list keyed by the case-folded name `VarName.key`. Vocabulary (Rrss/Spec/Scopes.lean,
  Rrss/Spec/Call.lean, written with library functions only): `keys`, `doms` (key lists of all
  scopes), `sig`/`sigs` (keys + which of them are functions, and which), `binding`,
  `firstBinding` (the entry of the innermost scope binding a key), `Grow`, `Discipline`,
  `BlockLeft`, `EvalSeq` (left-to-right evaluation), `ifBranch`, `afterRound`.
  `Step` (Rrss/Lemmas/Scopes.lean) is the inductive relation "a finite sequence of writes to
  visible variables (`setVarIn`) and creations of fresh keys in the innermost scope".

  All theorems hold for every fuel, every syntax tree and every environment — also one with an
  empty scope stack, where a successful run is still disciplined (there are just very few).
  Proofs: Rrss/Lemmas/Scopes.lean (the stack as data), C05Interp.lean (invariant `RecSc` on the
  interpreter record, induction on fuel), C05Call.lean (inversion lemmas).
-/
import Rrss.Interp
import Rrss.NumInt
import Rrss.Spec.Scopes
import Rrss.Spec.Call
import Rrss.Lemmas.Scopes
import Rrss.Lemmas.C05Interp
import Rrss.Lemmas.C05Call
namespace Rrss
namespace C05
open Env Interp Spec

/-! ### objects for the non-vacuity examples (numbers = `Int`, identity case folding) -/

/-- for the examples only (every theorem below takes its own `[CharOps]`) -/
local instance exampleCharOps : CharOps where
  isAlphabetic _ := true
  isNumeric _ := false
  isWhitespace _ := false
  isUppercase _ := false
  isLowercase _ := true
  toLower c := [c]

private def r0 : Range := default
private def l0 : Loc := default
private def nF : VarName := .simple (str% "f")
private def nG : VarName := .simple (str% "g")
private def nX : VarName := .simple (str% "x")
private def nY : VarName := .simple (str% "y")
private def nL : VarName := .simple (str% "loc")
private def nN : VarName := .simple (str% "n")
private def nFact : VarName := .simple (str% "fact")
private def var (n : VarName) : Primary Int := .ident (.var n) r0
private def num (n : Int) : Primary Int := .lit (.num n) r0
private def lhs (n : VarName) : Lhs Int := .ident (.var n) r0
private def put (e : Expr Int) (n : VarName) : Stmt Int := .assign (lhs n) none ⟨e, []⟩
private def tt : Expr Int := .prim (.lit (.bool true) r0)

/-- ```
    put 0 into g ⏎ ⏎
    f takes x ⏎ put x into loc ⏎ put g plus x into g ⏎ give back loc ⏎ ⏎
    say f taking 5 ⏎ say f taking 7 ⏎ say g
    ``` -/
private def progLocals : Program Int := ⟨[
  .mk l0 [ put (.prim (num 0)) nG ],
  .mk l0 [ .func nF r0 [(nX, r0)] (.mk l0 [
      put (.prim (var nX)) nL,
      put (.bin .plus (.prim (var nG)) (.prim (var nX)) []) nG,
      .ret (.prim (var nL)) ]) ],
  .mk l0 [ .output (.prim (.call nF r0 [.prim (num 5)])),
           .output (.prim (.call nF r0 [.prim (num 7)])),
           .output (.prim (var nG)) ]]⟩

/-- ```
    fact takes n ⏎ if n is 0 ⏎ give back 1 ⏎ ⏎ give back n times fact taking n minus 1 ⏎ ⏎
    say fact taking 4
    ``` -/
private def progFact : Program Int := ⟨[
  .mk l0 [ .func nFact r0 [(nN, r0)] (.mk l0 [
      .ifS (.bin .eq (.prim (var nN)) (.prim (num 0)) []) (.mk l0 [.ret (.prim (num 1))]) none,
      .ret (.bin .multiply (.prim (var nN))
              (.prim (.call nFact r0 [.bin .minus (.prim (var nN)) (.prim (num 1)) []])) []) ]) ],
  .mk l0 [ .output (.prim (.call nFact r0 [.prim (num 4)])) ]]⟩

/-- `if true ⏎ put 1 into x` -/
private def stmtIf : Stmt Int := .ifS tt (.mk l0 [put (.prim (num 1)) nX]) none

/-- `while x is less than 2 ⏎ build x up ⏎ put x into y` -/
private def stmtWhile : Stmt Int :=
  .whileS (.bin .less (.prim (var nX)) (.prim (num 2)) [])
    (.mk l0 [ .inc (.var nX) r0 1, put (.prim (var nX)) nY ])

/-- an environment with two scopes: the inner one binds `y`, the outer one `x`, `g` and function `f` -/
private def env2 : Env Int :=
  { scopes := [ [(nY, .var (.num 1))],
                [(nX, .var (.num 2)), (nG, .var (.num 3)), (nF, .func [nX] (.mk l0 []))] ] }

/-! ## 1. Stack discipline: locals do not leak -/

/-- **C05.1, stack discipline of every entry point of the interpreter record.** At every fuel
    `n`, from every environment: if evaluating an expression or a primary, executing a statement
    (from any executor state), or writing through an expression / primary (with any closure, when
    the write reports success) answers `ok`, then what happened to the scope stack is a `Step`
    — a finite sequence of writes to visible variables through `setVarIn` and creations of
    fresh keys in the innermost scope, nothing else — and hence the `Discipline` holds: same
    number of scopes, every scope below the innermost one has exactly the keys it had (and the
    same ones are functions, with the same parameters and body), the innermost scope kept its old
    keys and may have gained new ones at its end. -/
theorem scope_discipline [CharOps] {N : Type} [NumOps N] (n : Nat) (env env' : Env N) :
    (∀ e v, (interp n).evalExpr e env = (.ok v, env') →
        Step env.scopes env'.scopes ∧ Discipline env env')
    ∧ (∀ p v, (interp n).evalPrimary p env = (.ok v, env') →
        Step env.scopes env'.scopes ∧ Discipline env env')
    ∧ (∀ s st st', (interp n).execStmt s st env = (.ok st', env') →
        Step env.scopes env'.scopes ∧ Discipline env env')
    ∧ (∀ w e out, (interp n).writeExpr w e env = (.ok out, env') → out.res = .ok () →
        Step env.scopes env'.scopes ∧ Discipline env env')
    ∧ (∀ w p out, (interp n).writePrimary w p env = (.ok out, env') → out.res = .ok () →
        Step env.scopes env'.scopes ∧ Discipline env env') :=
  have h := recSc_interp (N := N) n
  ⟨fun e _ hm => (h.evalExpr e).disc hm, fun p _ hm => (h.evalPrimary p).disc hm,
   fun s st _ hm => (h.execStmt s st).disc hm, fun w e _ hm hr => (h.writeExpr w e).disc hm hr,
   fun w p _ hm hr => (h.writePrimary w p).disc hm hr⟩

/-- **C05.1, stack discipline of blocks, calls, argument lists, assignment targets, programs.**
    The same for the functions built on the interpreter record: a block (`visit_block`), a
    function call, an argument list, a write through an assignment target, a whole program. -/
theorem scope_discipline_fns [CharOps] {N : Type} [NumOps N] (n : Nat) (env env' : Env N) :
    (∀ ss st st', execStmts (interp n) ss st env = (.ok st', env') →
        Step env.scopes env'.scopes ∧ Discipline env env')
    ∧ (∀ name args v, callFunction (interp n) name args env = (.ok v, env') →
        Step env.scopes env'.scopes ∧ Discipline env env')
    ∧ (∀ es vs, evalArgs (interp n) es env = (.ok vs, env') →
        Step env.scopes env'.scopes ∧ Discipline env env')
    ∧ (∀ w l out, writeLhs (interp n) w l env = (.ok out, env') → out.res = .ok () →
        Step env.scopes env'.scopes ∧ Discipline env env')
    ∧ (∀ p u, execProgram n p env = (.ok u, env') →
        Step env.scopes env'.scopes ∧ Discipline env env') :=
  have h := recSc_interp (N := N) n
  ⟨fun ss st _ hm => (pres_execStmts h ss st).disc hm,
   fun name args _ hm => (pres_callFunction h name args).disc hm,
   fun es _ hm => (pres_evalArgs h es).disc hm,
   fun w l _ hm hr => (presW_writeLhs h w l).disc hm hr,
   fun p _ hm => (pres_execProgram n p).disc hm⟩

/-- **C05.1, the write primitive.** Whatever its outcome (also on a captured or fatal error),
    `writeCell` — the only place where the interpreter modifies an existing scope entry, used by
    every assignment, `build up`, `rock`, `roll`, `cut`, `turn up`, … — makes a `Step`: at most
    one creation in the innermost scope followed by one `setVarIn` on a visible variable. -/
theorem writeCell_discipline [CharOps] {N : Type} [NumOps N] (w : Writer N) (t : Target)
    (ks : List (Val N)) (env : Env N) :
    Step env.scopes (writeCell w t ks env).2.scopes
    ∧ Discipline env (writeCell w t ks env).2 :=
  ⟨writeCell_step w t ks env, (writeCell_step w t ks env).discipline⟩

/-- non-vacuity, and the property's own example: a function that assigns a local (`loc`) and a
    global (`g`), called twice: the run succeeds and prints `5⏎7⏎12⏎` (the global was updated by
    both calls); afterwards there is one scope, it binds exactly `g` and `f` — `loc` and the
    parameter `x` are gone — and `g` was visible to the callee although it is not a parameter
    (dynamic scoping) -/
example :
    let r := execProgram 30 progLocals {}
    r.1.isOk = true ∧ r.2.out = [53, 10, 55, 10, 49, 50, 10] ∧ doms r.2 = [[nG, nF]] := by
  decide +kernel

/-- `Discipline`, unfolded: what the two theorems above give, in terms of `scopes.length` and the
    key lists `doms` only. -/
theorem discipline_doms {N : Type} {env env' : Env N} (h : Discipline env env') :
    env'.scopes.length = env.scopes.length
    ∧ (doms env').tail = (doms env).tail
    ∧ (doms env).headD [] <+: (doms env').headD [] :=
  ⟨h.1, h.2.1.2.1, h.2.1.2.2⟩

/-- `Discipline` is met with a strict extension of the innermost scope: `put 1 into x` at top
    level binds `x` -/
example :
    let r := (interp 5).execStmt (put (.prim (num 1)) nX) {} (env2 : Env Int)
    r.1.isOk = true ∧ doms env2 = [[nY], [nX, nG, nF]] ∧ doms r.2 = [[nY], [nX, nG, nF]] := by
  decide +kernel

example :
    let r := (interp 5).execStmt (put (.prim (num 1)) nL) {} (env2 : Env Int)
    r.1.isOk = true ∧ doms r.2 = [[nY, nL], [nX, nG, nF]] := by
  decide +kernel

/-- **C05.1, `if`: the scope of the branch is popped.** A successful `if` statement is: tick,
    the condition (in `env0`, leaving `env1`), the chosen branch run as a block in a fresh empty
    scope pushed on `env1`, pop. The final executor state is the branch's (flags propagate
    out of the `if`), and the final environment is `BlockLeft env1 env'`: every scope has exactly
    the signature and domain it had after the condition was evaluated — a variable first
    assigned in the branch is not bound afterwards (if it was not bound before) — and the pronoun
    refers to nothing. (Stated relative to `env1` because evaluating the condition can itself
    create variables in the innermost scope: `roll x` on an unbound `x`.) -/
theorem if_scope_is_popped [CharOps] {N : Type} [NumOps N] (n : Nat) {c : Expr N} {t : Block N}
    {e : Option (Block N)} {st st' : ExecSt N} {env env' : Env N}
    (h : (interp (n + 1)).execStmt (.ifS c t e) st env = (.ok st', env')) :
    ∃ env0 cv env1 env2, tick env = (.ok (), env0) ∧ (interp n).evalExpr c env0 = (.ok cv, env1)
      ∧ execStmts (interp n) (ifBranch cv t e) st { env1 with scopes := [] :: env1.scopes }
          = (.ok st', env2)
      ∧ popScope env2 = (.ok (), env')
      ∧ BlockLeft env1 env' := by
  obtain ⟨env0, cv, env1, env2, h0, hc, hb, hp, h1, h2⟩ := if_exact (recSc_interp n) h
  exact ⟨env0, cv, env1, env2, h0, hc, hb, hp, blockLeft_of h1 h2⟩

/-- non-vacuity: `if true ⏎ put 1 into x` from the initial environment succeeds, and `x` is not
    bound afterwards -/
example :
    let r := (interp 6).execStmt stmtIf {} ({} : Env Int)
    r.1.isOk = true ∧ doms r.2 = [[]] ∧ r.2.last = none := by
  decide +kernel

/-- **C05.1, loops: the scope of every round is popped.** A successful run of the loop function
    with `k + 1` rounds left evaluates the condition (leaving `env1`); if it says stop, that is
    the result; otherwise: tick, the body run as a block in a fresh empty scope, pop — leaving
    `env4` with `BlockLeft env1 env4` (the round's variables are gone, the pronoun refers to
    nothing) — and then, by the flag the body left (`afterRound`): the next round, or out. -/
theorem loop_round_scope_is_popped [CharOps] {N : Type} [NumOps N] (n k : Nat) {invert : Bool}
    {cond : Expr N} {body : List (Stmt N)} {st st' : ExecSt N} {env env' : Env N}
    (h : loopGo (interp n) invert cond body (k + 1) st env = (.ok st', env')) :
    ∃ cv env1, (interp n).evalExpr cond env = (.ok cv, env1) ∧
      (((invert != cv.isTruthy) = false ∧ st' = st ∧ env' = env1) ∨
       ((invert != cv.isTruthy) = true ∧ ∃ env2 st1 env3 env4,
          tick env1 = (.ok (), env2)
          ∧ execStmts (interp n) body st { env2 with scopes := [] :: env2.scopes } = (.ok st1, env3)
          ∧ popScope env3 = (.ok (), env4)
          ∧ BlockLeft env1 env4
          ∧ afterRound (interp n) invert cond body k st1 env4 = (.ok st', env'))) := by
  obtain ⟨cv, env1, hc, hrest⟩ := loopGo_succ_ok.mp h
  refine ⟨cv, env1, hc, ?_⟩
  rcases hrest with h | ⟨hgo, env2, st1, env3, env4, ht, hb, hp, ha⟩
  · exact .inl h
  · obtain ⟨h1, h2⟩ := round_exact (recSc_interp n) ht hb hp
    exact .inr ⟨hgo, env2, st1, env3, env4, ht, hb, hp, blockLeft_of h1 h2, ha⟩

/-- `while` and `until` statements are the loop function, started after a tick with as many
    rounds as the step budget allows (`invert = false` for `while`, `true` for `until`). -/
theorem while_until_are_loops [CharOps] {N : Type} [NumOps N] (n : Nat) (cond : Expr N)
    (body : Block N) (st st' : ExecSt N) (env env' : Env N) :
    ((interp (n + 1)).execStmt (.whileS cond body) st env = (.ok st', env') ↔
      ∃ env0, tick env = (.ok (), env0)
        ∧ loopGo (interp n) false cond body.stmts (env0.steps + 1) st env0 = (.ok st', env'))
    ∧ ((interp (n + 1)).execStmt (.untilS cond body) st env = (.ok st', env') ↔
      ∃ env0, tick env = (.ok (), env0)
        ∧ loopGo (interp n) true cond body.stmts (env0.steps + 1) st env0 = (.ok st', env')) :=
  ⟨execStmt_while_ok, execStmt_until_ok⟩

/-- non-vacuity: `while x is less than 2 ⏎ build x up ⏎ put x into y` with `x` bound to 0 in the
    global scope runs two rounds; `x` (outer variable) was updated and still exists, `y` (first
    assigned in the body) is not bound afterwards -/
example :
    let env : Env Int := { scopes := [[(nX, .var (.num 0))]] }
    let r := (interp 8).execStmt stmtWhile {} env
    r.1.isOk = true ∧ doms r.2 = [[nX]]
    ∧ (match lookupVarIn nX r.2.scopes with | .ok (.num 2) => true | _ => false) = true := by
  decide +kernel

/-! ## 2. Resolution: the innermost scope binding the key decides -/

/-- **C05.2, the specification `firstBinding`.** `firstBinding k scopes` is `some e` exactly when
    the stack splits as `pre ++ s :: post` where no scope of `pre` (the scopes inside `s`) binds
    `k`, `s` binds `k`, and `e` is `s`'s entry for `k`; it is `none` exactly when no scope binds
    `k`. -/
theorem firstBinding_is_innermost [CharOps] {N : Type} [NumOps N] (k : VarName)
    (scopes : List (Scope N)) :
    (∀ e, firstBinding k scopes = some e ↔
      ∃ pre s post, scopes = pre ++ s :: post ∧ (∀ t ∈ pre, k ∉ keys t) ∧ k ∈ keys s
        ∧ binding k s = some e)
    ∧ (firstBinding k scopes = none ↔ ∀ s ∈ scopes, k ∉ keys s) :=
  ⟨firstBinding_eq_some_iff k scopes, firstBinding_eq_none_iff k scopes⟩

/-- **C05.2, reads.** `lookup_var_impl` / `lookup_func` answer by the first binding of the
    name's key: a variable lookup yields the variable's value, stops with `ExpectedVarFoundFunc`
    at a function, and is `NameNotFound` if no scope binds the key; dually for functions. The
    scopes (model: `slookup`) agree with the specification `binding`. -/
theorem lookup_reads_first_binding [CharOps] {N : Type} [NumOps N] (name : VarName)
    (scopes : List (Scope N)) :
    lookupVarIn name scopes =
      (match firstBinding name.key scopes with
       | some (.var v) => .ok v
       | some (.func _ _) => .error (.expectedVarFoundFunc name)
       | none => .error (.nameNotFound name))
    ∧ lookupFuncIn name scopes =
      (match firstBinding name.key scopes with
       | some (.func ps b) => .ok (ps, b)
       | some (.var _) => .error (.expectedFuncFoundVar name)
       | none => .error (.nameNotFound name))
    ∧ ∀ k s, slookup k (s : Scope N) = binding k s :=
  ⟨lookupVarIn_eq name scopes, lookupFuncIn_eq name scopes, slookup_eq_binding⟩

/-- **C05.2, reading an unknown name is a runtime error.** If no scope binds the key of `name`,
    evaluating the identifier — at any fuel ≥ 1, as a primary — is `NameNotFound name`; the only
    change to the environment is that `name` is now the pronoun's referent. -/
theorem read_unknown_name [CharOps] {N : Type} [NumOps N] (n : Nat) (name : VarName) (r : Range)
    (env : Env N) (h : firstBinding name.key env.scopes = none) :
    (interp (n + 1)).evalPrimary (.ident (.var name) r) env
      = (.err (.nameNotFound name), { env with last := some name }) := by
  show lookupVar name env = _
  rw [lookupVar_eq, lookupVarIn_eq, h]

/-- the hypothesis is met, e.g. by `loc` in `env2` -/
example : firstBinding nL.key (env2 : Env Int).scopes = none := by decide +kernel

/-- **C05.2, assignment to a name that exists in an enclosing scope updates that variable.**
    If the stack is `pre ++ s :: post`, no scope of `pre` binds `x`'s key and `s` binds it to a
    variable, then the assigning write `writeCell (assignW v) (.var x) []` succeeds and changes
    the environment in exactly two places: `x` becomes the pronoun's referent, and `s` is
    replaced by `sset x.key (.var v) s` — which has the same key list as `s`, binds `x.key` to
    `v` and every other key as before. No scope's domain changes. -/
theorem assign_updates_innermost_binding [CharOps] {N : Type} [NumOps N] (x : VarName)
    (v old : Val N) (env : Env N) (pre post : List (Scope N)) (s : Scope N)
    (henv : env.scopes = pre ++ s :: post) (hpre : ∀ t ∈ pre, x.key ∉ keys t)
    (hs : binding x.key s = some (.var old)) :
    writeCell (assignW v) (.var x) [] env =
      (.ok { res := .ok (), back := none },
       { env with last := some x, scopes := pre ++ sset x.key (.var v) s :: post })
    ∧ keys (sset x.key (.var v) s) = keys s
    ∧ (∀ k, binding k (sset x.key (Entry.var v) s) = if k = x.key then some (.var v) else binding k s)
    ∧ doms { env with last := some x, scopes := pre ++ sset x.key (.var v) s :: post } = doms env := by
  have hl : lookupVarIn x env.scopes = .ok old := by rw [henv]; exact lookupVarIn_of_decomp hpre hs
  have hk := keys_sset_of_mem (Entry.var v) (mem_keys_of_binding hs)
  refine ⟨?_, hk, fun k => binding_sset k _ _ _, ?_⟩
  · rw [writeCell_assign_of_bound v hl, henv, setVarIn_eq _ _ _ _ _ hpre (mem_keys_of_binding hs)]
  · simp [doms, henv, hk]

/-- the hypotheses are met: in `env2`, `g` is bound (to a variable) in the outer scope only -/
example : (env2 : Env Int).scopes = [[(nY, .var (.num 1))]] ++
      [(nX, .var (.num 2)), (nG, .var (.num 3)), (nF, .func [nX] (.mk l0 []))] :: []
    ∧ (∀ t ∈ [[(nY, Entry.var (Val.num (1 : Int)))]], nG.key ∉ keys t)
    ∧ binding nG.key [(nX, .var (.num 2)), (nG, .var (.num 3)), (nF, .func [nX] (.mk l0 []))]
        = some (Entry.var (Val.num (3 : Int))) := by
  refine ⟨rfl, ?_, rfl⟩
  decide +kernel

/-- **C05.2, assignment to an unbound name creates it in the innermost scope only.** If no scope
    binds `x`'s key, the assigning write succeeds, `x` becomes the pronoun's referent, and the
    innermost scope gets the new entry `(x.key, v)` at its end; all other scopes are untouched. -/
theorem assign_creates_in_innermost [CharOps] {N : Type} [NumOps N] (x : VarName) (v : Val N)
    (env : Env N) (s : Scope N) (rest : List (Scope N)) (henv : env.scopes = s :: rest)
    (h : firstBinding x.key env.scopes = none) :
    writeCell (assignW v) (.var x) [] env =
      (.ok { res := .ok (), back := none },
       { env with last := some x, scopes := (s ++ [(x.key, .var v)]) :: rest }) := by
  have hl : lookupVarIn x env.scopes = .error (.nameNotFound x) := by rw [lookupVarIn_eq, h]
  have hn : slookup x.key s = none := by
    rw [henv, firstBinding_cons] at h
    cases hs : slookup x.key s <;> simp_all
  exact writeCell_assign_create v hl henv hn

/-- the hypotheses are met by `env2` and `loc` -/
example : (env2 : Env Int).scopes = [(nY, .var (.num 1))] ::
      [[(nX, .var (.num 2)), (nG, .var (.num 3)), (nF, .func [nX] (.mk l0 []))]]
    ∧ firstBinding nL.key (env2 : Env Int).scopes = none := ⟨rfl, by decide +kernel⟩

/-- **C05.2, assignment to a name whose first binding is a function.** (Rust: `lookup_or_create!`
    falls back to `create_var` on *any* lookup error.) If the innermost scope itself holds the
    function, the write reports `DuplicateSymbol` and nothing but the pronoun changes; if the
    function lives in an outer scope, a variable of that name is created in the innermost scope
    and from then on shadows the function. -/
theorem assign_to_function_name [CharOps] {N : Type} [NumOps N] (x : VarName) (v : Val N)
    (env : Env N) (s : Scope N) (rest : List (Scope N)) (ps : List VarName) (b : Block N)
    (henv : env.scopes = s :: rest) (h : firstBinding x.key env.scopes = some (.func ps b)) :
    (binding x.key s = some (.func ps b) ∧
      writeCell (assignW v) (.var x) [] env =
        (.ok { res := .error (.duplicateSymbol x) }, { env with last := some x }))
    ∨ (binding x.key s = none ∧
      writeCell (assignW v) (.var x) [] env =
        (.ok { res := .ok (), back := none },
         { env with last := some x, scopes := (s ++ [(x.key, .var v)]) :: rest })) := by
  have hl : lookupVarIn x env.scopes = .error (.expectedVarFoundFunc x) := by rw [lookupVarIn_eq, h]
  rw [henv, firstBinding_cons] at h
  cases hs : slookup x.key s with
  | some e =>
    rw [hs] at h; simp only [Option.some.injEq] at h; subst h
    exact .inl ⟨by rw [← slookup_eq_binding, hs], writeCell_var_dup _ _ henv hs⟩
  | none =>
    exact .inr ⟨by rw [← slookup_eq_binding, hs], writeCell_assign_create v hl henv hs⟩

/-- the hypotheses are met by `env2` and `f` (second alternative: `f` lives in the outer scope) -/
example : firstBinding nF.key (env2 : Env Int).scopes = some (.func [nX] (.mk l0 [])) := by
  rfl

/-- **C05.2, the statement `put e into x`.** With the tick and the value of `e` given, the
    statement's outcome is that of the assigning write through `x` in the environment the
    evaluation of `e` left: success leaves the executor state as it was; a captured write error
    is the statement's error. Combined with the three theorems above this is "assignment updates
    the visible variable or creates one in the innermost scope". -/
theorem put_into_variable [CharOps] {N : Type} [NumOps N] (n : Nat) (x : VarName) (r : Range)
    (e : Expr N) (st : ExecSt N) (env env0 env1 env2 : Env N) (v : Val N) (out : WOut N)
    (h0 : tick env = (.ok (), env0)) (hv : (interp n).evalExpr e env0 = (.ok v, env1))
    (hw : writeCell (assignW v) (.var x) [] env1 = (.ok out, env2)) :
    (interp (n + 1)).execStmt (.assign (.ident (.var x) r) none ⟨e, []⟩) st env =
      match out.res with
      | .ok () => (.ok st, env2)
      | .error err => (.err err, env2) :=
  execStmt_assign_var h0 hv hw

/-- the hypotheses are met: `put 1 into g` in `env2` (the result: the outer `g` holds 1, no
    scope's domain changed) -/
example :
    (tick (env2 : Env Int)).1.isOk = true
    ∧ ((interp 3).evalExpr (.prim (num 1)) (tick (env2 : Env Int)).2).1.isOk = true
    ∧ (writeCell (assignW (.num 1)) (.var nG) [] (tick (env2 : Env Int)).2).1.isOk = true
    ∧ (let r := (interp 4).execStmt (put (.prim (num 1)) nG) {} (env2 : Env Int)
       r.1.isOk = true ∧ doms r.2 = doms env2
       ∧ (match lookupVarIn nG r.2.scopes with | .ok (.num 1) => true | _ => false) = true) := by
  decide +kernel

/-! ## 4. The pronoun -/

/-- **C05.4, naming a variable makes it the pronoun's referent.** After `lookup_var name` (a
    read), after `lookup_or_create!` on `name` and after any write through `name` — whatever
    their outcome — `last_access` is `name`. -/
theorem naming_sets_pronoun [CharOps] {N : Type} [NumOps N] (name : VarName) (env : Env N)
    (w : Writer N) (ks : List (Val N)) :
    (lookupVar name env).2.last = some name
    ∧ (resolve (.var name) env).2.last = some name
    ∧ (writeCell w (.var name) ks env).2.last = some name :=
  ⟨by rw [lookupVar_eq], resolve_var_last name env, writeCell_var_last w name ks env⟩

/-- **C05.4, using the pronoun does not change it.** Reading through the pronoun and resolving
    it for a write leave the whole environment unchanged; a write through it changes at most
    `scopes`, not `last_access`. -/
theorem pronoun_use_keeps_pronoun [CharOps] {N : Type} [NumOps N] (env : Env N) (w : Writer N)
    (ks : List (Val N)) :
    (lastAccess env).2 = env ∧ (resolve .pronoun env).2 = env
    ∧ (writeCell w .pronoun ks env).2.last = env.last :=
  ⟨lastAccess_snd env, resolve_pronoun_env env, writeCell_pronoun_last w ks env⟩

/-- **C05.4, the pronoun denotes the variable most recently named.** With referent `name`,
    reading the pronoun is `lookupVarIn name` (the first binding of `name`'s key, as for a read
    of `name` itself), and so is resolving it for a write; without referent both are
    `MissingPronounReferent`. -/
theorem pronoun_reads_referent [CharOps] {N : Type} [NumOps N] (env : Env N) :
    (∀ name, env.last = some name →
      evalIdent .pronoun env =
        (match lookupVarIn name env.scopes with
         | .ok v => .ok v
         | .error e => .err e, env)
      ∧ resolve .pronoun env =
        (match lookupVarIn name env.scopes with
         | .ok v => .ok (name, v)
         | .error e => .err e, env))
    ∧ (env.last = none →
      evalIdent .pronoun env = (.err .missingPronoun, env)
      ∧ resolve .pronoun env = (.err .missingPronoun, env)) :=
  ⟨fun _ h => ⟨lastAccess_of_some h, resolve_pronoun_of_some h⟩,
   fun h => ⟨lastAccess_of_none h, resolve_pronoun_of_none h⟩⟩

/-- both cases occur: the initial environment has no referent; after reading `x` it is `x` -/
example : ({} : Env Int).last = none ∧ (lookupVar nX ({} : Env Int)).2.last = some nX :=
  ⟨rfl, rfl⟩

/-- **C05.4, leaving a scope clears the pronoun.** After a successful `pop_scope` there is no
    referent, and reading the pronoun is `MissingPronounReferent`. (`if`, every loop round and
    every call end with `pop_scope`: see `if_scope_is_popped`, `loop_round_scope_is_popped`,
    `call_protocol`, whose `BlockLeft` contains this.) -/
theorem popScope_clears_pronoun [CharOps] {N : Type} [NumOps N] (env env' : Env N)
    (h : popScope env = (.ok (), env')) :
    env'.last = none ∧ evalIdent .pronoun env' = (.err .missingPronoun, env') := by
  have hl : env'.last = none := by
    obtain ⟨s, s2, rest, _, rfl⟩ := popScope_ok.mp h; rfl
  exact ⟨hl, lastAccess_of_none hl⟩

/-- the hypothesis is met by any environment with two scopes, e.g. `env2` with referent `x` -/
example : (popScope { (env2 : Env Int) with last := some nX }).1.isOk = true := by decide +kernel

/-! ## 3. The call protocol -/

/-- **C05.3a, calling something that is not a function.** If no scope binds the name's key the
    call is `NameNotFound`; if the first binding is a variable it is `ExpectedFuncFoundVar`;
    if it is a function with a different number of parameters it is `WrongArgCount` — in all
    three cases before any argument is evaluated: the environment is unchanged. For every
    interpreter record `rec`, i.e. whatever evaluating the arguments would do. -/
theorem call_errors [CharOps] {N : Type} [NumOps N] (rec : Rec N) (name : VarName)
    (args : List (Expr N)) (env : Env N) :
    (firstBinding name.key env.scopes = none →
      callFunction rec name args env = (.err (.nameNotFound name), env))
    ∧ (∀ v, firstBinding name.key env.scopes = some (.var v) →
      callFunction rec name args env = (.err (.expectedFuncFoundVar name), env))
    ∧ (∀ params body, firstBinding name.key env.scopes = some (.func params body) →
      params.length ≠ args.length →
      callFunction rec name args env = (.err (.wrongArgCount params.length args.length), env)) := by
  refine ⟨fun h => ?_, fun v h => ?_, fun params body h hlen => ?_⟩
  · exact callFunction_lookup_error (by rw [lookupFuncIn_eq, h])
  · exact callFunction_lookup_error (by rw [lookupFuncIn_eq, h])
  · exact callFunction_wrong_arity (by rw [lookupFuncIn_eq, h]) hlen

/-- each hypothesis is met in `env2`: `loc` is unbound, `g` is a variable, `f` takes one
    parameter (so calling it with no argument is the third case) -/
example :
    firstBinding nL.key (env2 : Env Int).scopes = none
    ∧ (∃ v, firstBinding nG.key (env2 : Env Int).scopes = some (.var v))
    ∧ (∃ params body, firstBinding nF.key (env2 : Env Int).scopes = some (.func params body)
        ∧ params.length ≠ ([] : List (Expr Int)).length) :=
  ⟨by decide +kernel, ⟨_, rfl⟩, ⟨_, _, rfl, by decide⟩⟩

/-- **C05.3, where calls happen.** A call expression and a call statement both run
    `callFunction` with the interpreter one fuel level down (the statement after its tick, and
    it discards the value). -/
theorem call_sites [CharOps] {N : Type} [NumOps N] (n : Nat) (name : VarName) (r : Range)
    (args : List (Expr N)) (st : ExecSt N) (env : Env N) :
    (interp (n + 1)).evalPrimary (.call name r args) env = callFunction (interp n) name args env
    ∧ (interp (n + 1)).execStmt (.call name r args) st env
        = (tick >>= fun _ => callFunction (interp n) name args >>= fun _ => pure st) env :=
  ⟨rfl, rfl⟩

/-- **C05.3b, arguments are evaluated left to right, each in the environment the previous one
    left; the first failure stops the evaluation.** `evalArgs` answers `ok vs` in `env'` exactly
    when `EvalSeq` relates them; and if the arguments `pre` evaluate (to `env1`) and the next one,
    `e`, does not answer `ok`, then the whole list answers `e`'s failure in the environment `e`
    left, whatever follows. -/
theorem args_left_to_right [CharOps] {N : Type} [NumOps N] (rec : Rec N) :
    (∀ es env vs env', evalArgs rec es env = (.ok vs, env') ↔ EvalSeq rec es env vs env')
    ∧ (∀ pre e post env vs env1 env2 o, EvalSeq rec pre env vs env1 →
        rec.evalExpr e env1 = (o, env2) → (∀ v, o ≠ .ok v) →
        evalArgs rec (pre ++ e :: post) env = (o.bind fun _ => .ok [], env2)) :=
  ⟨fun _ _ _ _ => evalArgs_ok_iff, fun _ _ post _ _ _ _ _ hpre he hf => evalArgs_fail hpre he hf post⟩

/-- non-vacuity: `[x, nope, x]` in `env2` — `x` evaluates, `nope` fails (`NameNotFound`), the
    third is never looked at; and `[x, g]` evaluates -/
example :
    (∃ vs env1, EvalSeq (interp 3) [.prim (var nX)] (env2 : Env Int) vs env1
      ∧ ∃ o e2, (interp 3).evalExpr (.prim (var nL)) env1 = (o, e2) ∧ ∀ v, o ≠ .ok v)
    ∧ (evalArgs (interp 3) [.prim (var nX), .prim (var nG)] (env2 : Env Int)).1.isOk = true := by
  refine ⟨⟨_, _, .cons rfl (.nil _), _, _, rfl, ?_⟩, by decide +kernel⟩
  intro v h; cases h

/-- **C05.3b, a failing argument is the call's outcome**, in the environment the failed
    evaluation left: nothing was pushed, the body did not run. -/
theorem call_argument_failure [CharOps] {N : Type} [NumOps N] (rec : Rec N) (name : VarName)
    (args : List (Expr N)) (env env1 : Env N) (params : List VarName) (body : Block N)
    (o : Outcome (RtErr N) (List (Val N)))
    (h : firstBinding name.key env.scopes = some (.func params body))
    (hlen : params.length = args.length) (hargs : evalArgs rec args env = (o, env1))
    (hfail : ∀ vs, o ≠ .ok vs) :
    callFunction rec name args env = (o.bind fun _ => .ok .undef, env1) :=
  callFunction_args_fail (by rw [lookupFuncIn_eq, h]) hlen hargs hfail

/-- the hypotheses are met: `f taking nope` in `env2` -/
example :
    firstBinding nF.key (env2 : Env Int).scopes = some (.func [nX] (.mk l0 []))
    ∧ [nX].length = [(.prim (var nL) : Expr Int)].length
    ∧ (evalArgs (interp 3) [.prim (var nL)] (env2 : Env Int)).1.isOk = false :=
  ⟨rfl, rfl, by decide +kernel⟩

/-- **C05.3c, the function scope binds exactly the parameters to the argument values.** With
    pairwise different parameter keys, `SymTable::for_function_call` yields the scope that
    binds, in order, each parameter's key to the corresponding value and nothing else; if two
    parameters have the same key it fails with `DuplicateArgName` of one of the parameters. -/
theorem function_scope [CharOps] {N : Type} [NumOps N] (args : List (VarName × Val N)) :
    ((args.map (·.1.key)).Nodup →
      functionScope args [] = .ok (args.map fun a => (a.1.key, Entry.var a.2)))
    ∧ (¬ (args.map (·.1.key)).Nodup →
      ∃ n ∈ args.map (·.1), functionScope args [] = .error (.duplicateArgName n)) :=
  ⟨functionScope_ok args, functionScope_dup args⟩

/-- both cases occur -/
example : ([(nX, (.num 1 : Val Int)), (nY, .num 2)].map (·.1.key)).Nodup
    ∧ ¬ ([(nX, (.num 1 : Val Int)), (nX, .num 2)].map (·.1.key)).Nodup := by
  decide +kernel

/-- **C05.3c, duplicate parameter names** make the call fail with `DuplicateArgName` after the
    arguments were evaluated and the step was counted, before anything is pushed. -/
theorem call_duplicate_parameters [CharOps] {N : Type} [NumOps N] (rec : Rec N) (name : VarName)
    (args : List (Expr N)) (env env1 env2 : Env N) (params : List VarName) (body : Block N)
    (vals : List (Val N)) (h : firstBinding name.key env.scopes = some (.func params body))
    (hlen : params.length = args.length) (hargs : evalArgs rec args env = (.ok vals, env1))
    (ht : tick env1 = (.ok (), env2)) (hdup : ¬ (params.map VarName.key).Nodup) :
    ∃ p ∈ params, callFunction rec name args env = (.err (.duplicateArgName p), env2) := by
  have hvl : vals.length = params.length := by
    rw [evalSeq_length (evalArgs_ok_iff.mp hargs), hlen]
  have hzip : (params.zip vals).map (·.1.key) = params.map VarName.key := by
    rw [show (fun x : VarName × Val N => x.1.key) = VarName.key ∘ Prod.fst from rfl,
      ← List.map_map, List.map_fst_zip (by omega)]
  obtain ⟨p, hp, hfs⟩ := functionScope_dup (params.zip vals) (by rw [hzip]; exact hdup)
  rw [List.map_fst_zip (by omega)] at hp
  exact ⟨p, hp, callFunction_dup_params (by rw [lookupFuncIn_eq, h]) hlen hargs ht hfs⟩

/-- the hypotheses are met: a function `f` with parameters `x, x` called with two arguments -/
example :
    let env : Env Int := { scopes := [[(nF, .func [nX, nX] (.mk l0 []))]] }
    firstBinding nF.key env.scopes = some (.func [nX, nX] (.mk l0 []))
    ∧ [nX, nX].length = [(.prim (num 1) : Expr Int), .prim (num 2)].length
    ∧ (evalArgs (interp 3) [.prim (num 1), .prim (num 2)] env).1.isOk = true
    ∧ (tick (evalArgs (interp 3) [.prim (num 1), .prim (num 2)] env).2).1.isOk = true
    ∧ ¬ ([nX, nX].map VarName.key).Nodup :=
  ⟨rfl, rfl, by decide +kernel, by decide +kernel, by decide +kernel⟩

/-- **C05.3, the call protocol (successful call).** If `callFunction` answers `ok v` then:
    the first binding of the name is a function `(params, body)` with as many parameters as
    there are arguments and pairwise different parameter keys; the arguments were evaluated left
    to right starting in the caller's environment (`EvalSeq`, leaving `env1`) *before* the scope
    was pushed; one step was counted; the body ran as a block, from a *fresh* executor state
    (`{}`: flag `Normal`, no return value — a pending flag of the caller's is not seen, one of
    the callee's does not escape), in a new scope that binds exactly the parameters to the
    argument values; that scope was popped; the result `v` is the return value the body's final
    state carries if its flag is `Returning`, and mysterious otherwise. Afterwards
    `BlockLeft env1 env'`: the caller's scopes have the signatures they had after the arguments
    were evaluated (locals and parameters of the callee are gone) and the pronoun refers to
    nothing. And **by value (C05.3e)**: for every parameter `p`, no scope of the caller changed
    its binding of `p`'s key — the callee's writes to `p` (from any depth, also from functions
    it calls) hit the parameter, never a caller's variable of the same name. -/
theorem call_protocol [CharOps] {N : Type} [NumOps N] (n : Nat) {name : VarName}
    {args : List (Expr N)} {v : Val N} {env env' : Env N}
    (h : callFunction (interp n) name args env = (.ok v, env')) :
    ∃ params body vals env1 env2 st env3,
      firstBinding name.key env.scopes = some (.func params body)
      ∧ params.length = args.length
      ∧ (params.map VarName.key).Nodup
      ∧ EvalSeq (interp n) args env vals env1
      ∧ tick env1 = (.ok (), env2)
      ∧ execStmts (interp n) body.stmts {}
          { env2 with scopes := ((params.zip vals).map fun a => (a.1.key, Entry.var a.2))
                                  :: env2.scopes } = (.ok st, env3)
      ∧ popScope env3 = (.ok (), env')
      ∧ ((st.flag = .returning ∧ st.ret = some v) ∨ (st.flag ≠ .returning ∧ v = .undef))
      ∧ BlockLeft env1 env'
      ∧ (∀ p ∈ params, env'.scopes.map (binding p.key) = env1.scopes.map (binding p.key)) := by
  obtain ⟨params, body, vals, env1, env2, st, env3, hl, hlen, hseq, ht, hnd, hb, hp, hret, h1, h2,
    hsh⟩ := call_exact (recSc_interp n) h
  refine ⟨params, body, vals, env1, env2, st, env3, ?_, hlen, hnd, hseq, ht, hb, hp, hret,
    blockLeft_of h1 h2, ?_⟩
  · rw [lookupFuncIn_eq] at hl
    cases hf : firstBinding name.key env.scopes with
    | none => simp [hf] at hl
    | some e =>
      cases e with
      | var _ => simp [hf] at hl
      | func ps b => simp only [hf, Except.ok.injEq, Prod.mk.injEq] at hl; rw [hl.1, hl.2]
  · intro p hp'
    have := hsh p hp'
    simpa only [show (slookup p.key : Scope N → _) = binding p.key from
      funext (slookup_eq_binding p.key)] using this

/-- non-vacuity: recursion, a `return` inside an `if`, a `return` after it: `fact taking 4`
    prints `24⏎`; every call of the run is a successful `callFunction` -/
example :
    let r := execProgram 60 progFact {}
    r.1.isOk = true ∧ r.2.out = [50, 52, 10] ∧ doms r.2 = [[nFact]] := by
  decide +kernel

/-- non-vacuity of `call_protocol` as stated, and of the by-value clause: in an environment
    where the caller has its own `x` (bound to 2) and `g` (3), calling `f taking 5` from
    `progLocals` (which assigns `loc`, updates `g`) succeeds with 5; afterwards the caller's `x`
    is still 2 — the parameter `x` shadowed it — while `g` was updated to 8, and `loc` is unbound -/
example :
    let fbody : Block Int := .mk l0 [
      put (.prim (var nX)) nL,
      put (.bin .plus (.prim (var nG)) (.prim (var nX)) []) nG,
      put (.prim (num 99)) nX,
      .ret (.prim (var nL)) ]
    let env : Env Int :=
      { scopes := [[(nX, .var (.num 2)), (nG, .var (.num 3)), (nF, .func [nX] fbody)]] }
    let r := callFunction (interp 8) nF [.prim (num 5)] env
    (match r.1 with | .ok (.num 5) => true | _ => false) = true
    ∧ doms r.2 = [[nX, nG, nF]]
    ∧ (match lookupVarIn nX r.2.scopes with | .ok (.num 2) => true | _ => false) = true
    ∧ (match lookupVarIn nG r.2.scopes with | .ok (.num 8) => true | _ => false) = true := by
  decide +kernel

/-- **C05.3d, a block stops at the first statement that leaves a pending flag.** If the
    statements `pre` run to completion with flag `Normal` and the next statement `s` answers with
    a flag other than `Normal` (`Returning`, `Breaking`, `Continuing`), then the block
    `pre ++ s :: post` answers exactly what `s` answered — state, hence return value, and
    environment: no statement of `post` runs. Conversely, a block started with flag `Normal`
    that ends with a pending flag splits this way: the flag, the return value and the final
    environment are those of the first statement that set a flag. -/
theorem block_stops_at_first_flag [CharOps] {N : Type} [NumOps N] (rec : Rec N) :
    (∀ pre s post st env st1 env1 st2 env2,
      execStmts rec pre st env = (.ok st1, env1) → st1.flag = .normal →
      rec.execStmt s st1 env1 = (.ok st2, env2) → st2.flag ≠ .normal →
      execStmts rec (pre ++ s :: post) st env = (.ok st2, env2))
    ∧ (∀ ss st env st' env',
      execStmts rec ss st env = (.ok st', env') → st.flag = .normal → st'.flag ≠ .normal →
      ∃ pre s post st1 env1, ss = pre ++ s :: post ∧ execStmts rec pre st env = (.ok st1, env1)
        ∧ st1.flag = .normal ∧ rec.execStmt s st1 env1 = (.ok st', env')) :=
  ⟨fun _ _ post _ _ _ _ _ _ hpre hn hs hf => execStmts_stop hpre hn hs hf post,
   fun _ _ _ _ _ h hst hf => execStmts_flag_inv h hst hf⟩

/-- non-vacuity: in `put 1 into x ⏎ give back x ⏎ put 2 into x`, the first statement completes
    with flag `Normal`, the second sets `Returning`, and the block's result carries the value 1,
    not 2 -/
example :
    let ss : List (Stmt Int) := [put (.prim (num 1)) nX, .ret (.prim (var nX)), put (.prim (num 2)) nX]
    let r1 := execStmts (interp 5) [put (.prim (num 1)) nX] {} ({} : Env Int)
    r1.1.isOk = true
    ∧ (match r1.1 with | .ok st1 => decide (st1.flag = .normal) | _ => false) = true
    ∧ (match r1.1 with
       | .ok st1 => (match ((interp 5).execStmt (.ret (.prim (var nX))) st1 r1.2).1 with
                     | .ok st2 => decide (st2.flag ≠ .normal) | _ => false)
       | _ => false) = true
    ∧ (match (execStmts (interp 5) ss {} ({} : Env Int)).1 with
       | .ok ⟨.returning, some (.num 1)⟩ => true | _ => false) = true := by
  decide +kernel

/-- **C05.3d, `give back e`** — started, as every statement is, with flag `Normal` and no return
    value — ticks, evaluates `e` and answers flag `Returning` with exactly that value. -/
theorem return_sets_flag_and_value [CharOps] {N : Type} [NumOps N] (n : Nat) (e : Expr N)
    (st st' : ExecSt N) (env env' : Env N) :
    (interp (n + 1)).execStmt (.ret e) st env = (.ok st', env') ↔
      ∃ env0 v, tick env = (.ok (), env0) ∧ st.ret = none ∧ st.flag = .normal
        ∧ (interp n).evalExpr e env0 = (.ok v, env') ∧ st' = { flag := .returning, ret := some v } :=
  execStmt_ret_ok

/-- **C05.3d, a loop is left when its body returns**, with the body's state — flag `Returning`
    and return value — unchanged; together with `if_scope_is_popped` (an `if` answers its
    branch's state) and `block_stops_at_first_flag` this carries a `return` out of any nesting
    depth of blocks. A `break` leaves the loop with the flag reset. -/
theorem loop_exits_on_return [CharOps] {N : Type} [NumOps N] (rec : Rec N) (invert : Bool)
    (cond : Expr N) (body : List (Stmt N)) (k : Nat) (st1 : ExecSt N) (env : Env N) :
    (st1.flag = .returning → afterRound rec invert cond body k st1 env = (.ok st1, env))
    ∧ (st1.flag = .breaking →
        afterRound rec invert cond body k st1 env = (.ok { st1 with flag := .normal }, env)) :=
  ⟨fun h => afterRound_returning h env, fun h => afterRound_breaking h env⟩

/-- **C05.3d, the return value is set exactly together with the flag `Returning`**, by every
    statement and every block at every fuel, started with flag `Normal` and no return value.
    Hence the `st.ret.getD mysterious` of a call is the value of the `return` reached if the
    body's final flag is `Returning`, and mysterious otherwise (`call_protocol`). -/
theorem return_value_iff_returning [CharOps] {N : Type} [NumOps N] (n : Nat) (st st' : ExecSt N)
    (env env' : Env N) (hflag : st.flag = .normal) (hret : st.ret = none) :
    (∀ s, (interp n).execStmt s st env = (.ok st', env') →
      (st'.flag = .returning → st'.ret.isSome = true) ∧ (st'.flag ≠ .returning → st'.ret = none))
    ∧ (∀ ss, execStmts (interp n) ss st env = (.ok st', env') →
      (st'.flag = .returning → st'.ret.isSome = true) ∧ (st'.flag ≠ .returning → st'.ret = none)) :=
  have h := recSc_interp (N := N) n
  ⟨fun s hm => (h.execStmt s st env st' env' hm).2 ⟨hflag, hret⟩,
   fun ss hm => (pres_execStmts h ss st env st' env' hm).2 ⟨hflag, hret⟩⟩

/-- non-vacuity: a `return` from inside a `while` inside an `if`, reached in the second round:
    ```
    put 0 into x ⏎ if true ⏎ while true ⏎ build x up ⏎ if x is 2 ⏎ give back x ⏎ ⏎ ⏎ ⏎ put 7 into x
    ```
    ends with flag `Returning` and value 2, all three scopes popped, the trailing statement not run -/
example :
    let ss : List (Stmt Int) := [
      put (.prim (num 0)) nX,
      .ifS tt (.mk l0 [
        .whileS tt (.mk l0 [
          .inc (.var nX) r0 1,
          .ifS (.bin .eq (.prim (var nX)) (.prim (num 2)) []) (.mk l0 [.ret (.prim (var nX))]) none ])])
        none,
      put (.prim (num 7)) nX ]
    let r := execStmts (interp 12) ss {} ({} : Env Int)
    (match r.1 with | .ok ⟨.returning, some (.num 2)⟩ => true | _ => false) = true
    ∧ doms r.2 = [[nX]] := by
  decide +kernel

/-- **C05.3e, a write to a name resolves to the innermost binding and touches nothing else**
    (frame lemma; any closure — assignment, `build up`, `rock`, `roll`, … — and any subscripts).
    If the stack is `pre ++ s :: post`, no scope of `pre` binds `p`'s key and `s` binds it to a
    variable — e.g. `s` is the function scope and `p` a parameter, `pre` the block scopes pushed
    inside the body, `post` the caller's scopes — then, whatever the outcome of the write, the
    final environment differs from the initial one only in the pronoun and in `s`'s entry for
    `p`: `pre` and `post` are unchanged, so no caller binding of a variable with the same key
    changes. -/
theorem write_hits_innermost_binding [CharOps] {N : Type} [NumOps N] (w : Writer N)
    (ks : List (Val N)) (p : VarName) (old : Val N) (env : Env N) (pre post : List (Scope N))
    (s : Scope N) (henv : env.scopes = pre ++ s :: post) (hpre : ∀ t ∈ pre, p.key ∉ keys t)
    (hs : binding p.key s = some (.var old)) :
    ∃ new, (writeCell w (.var p) ks env).2 =
      { env with last := some p, scopes := pre ++ sset p.key (.var new) s :: post } :=
  ⟨_, writeCell_var_decomp w ks henv hpre hs⟩

/-- the hypotheses are met: a callee scope binding parameter `x` on top of a caller scope that
    also binds `x` -/
example :
    let env : Env Int := { scopes := [[], [(nX, .var (.num 5))], [(nX, .var (.num 2))]] }
    env.scopes = [[]] ++ [(nX, .var (.num 5))] :: [[(nX, .var (.num 2))]]
    ∧ (∀ t ∈ [([] : Scope Int)], nX.key ∉ keys t)
    ∧ binding nX.key [(nX, Entry.var (Val.num (5 : Int)))] = some (.var (.num 5)) :=
  ⟨rfl, by decide +kernel, rfl⟩

end C05
end Rrss
