/-
  Rrss.Thm.C15Lex — C15 at TEXT level: re-casing the ASCII letters of a source text re-cases the
  token list, hence the syntax tree, hence changes nothing in the behaviour of the program.
  (Rrss/Thm/C15.lean proves the tree-level statements; this file closes the recorded gap
  "parser-level recasing".)

  A re-casing `s'` of a text `s` is given by
    hcase : s.map asciiLowerChar = s'.map asciiLowerChar
  (same length; position by position the same character, or the same ASCII letter in the other
  case).  The LEXER does not see such a re-casing at all (`C15_lex_recase`, no further
  hypothesis: since the repair D18 the literal sequences `'n'`, `'s`, `'re` are matched up to
  ASCII case everywhere, see the examples at the end of the file).  Three kinds of re-casing are
  NOT harmless by design of the language; the parser-level theorems exclude them by hypotheses:
    hstr  : the span of every string literal of `s` holds the same characters in `s'`;
    hsay  : the text taken by a poetic string literal (after a `says`/`say` token up to the next
            `Newline` token) is the same in `s'` (it is a string value; for a `say` that starts a
            statement this asks more than needed);
    hcap  : every `Word` token starts with an upper-case letter in `s'` iff it does in `s`
            (`parse_capitalized_identifier`: consecutive capitalised words form ONE proper name).

  Facts about Rust's `char` and `f64::from_str`, taken as hypotheses (true of Rust std):
    laws   : AsciiLaws — on the 52 ASCII letters `c`: `is_alphabetic`, not `is_numeric`, not
             `is_whitespace`, `to_lowercase c = [ASCII lower case of c]` (= `hfix` on letters and
             `hup` of Thm/C15.lean);
    hparse : `parse` of a number literal does not depend on ASCII letter case (`1e5`/`1E5`,
             `inf`, `nan`: `f64::from_str` is ASCII-case-insensitive);
    hidem  : as in `C15_recase`;
    hkw    : the keyword table has no entry of kind Newline / Number / StringLiteral / Comment.
  Non-vacuity: `Recase.asciiLaws_asciiOps`, `asciiLaws_asciiCaseOps`, `asciiLaws_charOpsImpl` (the
  tables generated from the Rust std, by kernel evaluation of the 128 ASCII code points),
  `Recase.numOpsInt_parse_rc`, `Recase.asciiOps_idem`; `Rrss/F64.lean`'s `parse` lower-cases
  `e/E`, `inf`, `nan`.

  Vocabulary and helper lemmas: Rrss/Lemmas/LexRecase.lean (lexer simulation),
  Rrss/Lemmas/ParseRecase.lean (parser simulation; `eProgram`, `ErrRel`),
  Rrss/Lemmas/RenamePoetic.lean (the renaming simulation of C15 extended to poetic number
  literals), Rrss/Lemmas/TextRecase.lean (glue), Rrss/Lemmas/TextRecaseExamples.lean.
-/
import Rrss.Lemmas.TextRecase
import Rrss.Lemmas.TextRecaseExamples
set_option linter.unusedSectionVars false
set_option linter.unusedVariables false
namespace Rrss
open Lexer Parser Recase CharOps Keys Interp

section
variable [CharOps] {N : Type} [NumOps N]

/-- **Lexing commutes with re-casing.**  Let `s'` be ANY re-casing of `s` (shorter than 4 GiB).
    Both texts lex; the token lists have the same length, and corresponding tokens have the
    same kind (in particular the same keyword, the same `'s` / `'re` / `'n'` token),
    the same byte offset, the same line/column range, the same number payload, the same error
    message, the same lexer snapshot, and spellings — and text payloads of strings and comments —
    that are re-casings of each other (so their `to_lowercase` images are equal). -/
theorem C15_lex_recase (laws : AsciiLaws)
    (hparse : ∀ t t' : Str, t.map asciiLowerChar = t'.map asciiLowerChar →
      (NumOps.parse t' : Option N) = NumOps.parse t)
    (kw : List (Str × TK)) (s s' : Str) (hlen : ulen s < 2 ^ 32)
    (hcase : s.map asciiLowerChar = s'.map asciiLowerChar) :
    ∃ ts ts' : List (Tok N), lexAll kw s = .ok ts ∧ lexAll kw s' = .ok ts' ∧
      ts'.length = ts.length ∧
      ∀ p ∈ ts.zip ts',
        p.2.kind = p.1.kind ∧ p.2.start = p.1.start ∧ p.2.range = p.1.range ∧
        p.2.num = p.1.num ∧ p.2.lexErr = p.1.lexErr ∧ p.2.after = p.1.after ∧
        p.1.spelling.map asciiLowerChar = p.2.spelling.map asciiLowerChar ∧
        lower p.2.spelling = lower p.1.spelling ∧
        p.1.text.map asciiLowerChar = p.2.text.map asciiLowerChar := by
  have hrca : RC s s' := rc_iff_map.mpr hcase
  have hl : ulen s' = ulen s := hrca.ulen
  obtain ⟨ts, hts⟩ := c12_total (N := N) kw s hlen
  obtain ⟨ts', hts'⟩ := c12_total (N := N) kw s' (by rw [hl]; exact hlen)
  have hrel := lexAll_rel (N := N) laws (fun t t' h => hparse t t' (rc_iff_map.mp h)) kw hrca
  rw [hts, hts'] at hrel
  refine ⟨ts, ts', hts, hts', F2.length_eq hrel, fun p hp => ?_⟩
  obtain ⟨i, hi, rfl⟩ := List.getElem_of_mem hp
  simp only [List.length_zip] at hi
  have hr := F2.getElem hrel i (by omega) (by omega)
  simp only [List.getElem_zip]
  exact ⟨hr.kind, hr.start, hr.range, hr.num, hr.lexErr, hr.after, rc_iff_map.mp hr.spelling,
    hr.spelling.lower laws, rc_iff_map.mp hr.text⟩

/-- non-vacuity: the ASCII tables and the integer numbers meet `laws` and `hparse`; the example
    text (keywords, the common variable `my heart`, the proper variable `Tommy Lee`, a string
    literal, `'s` re-cased to `'S`) and its re-casing meet the hypotheses; the token kinds are those of the
    original (kernel evaluation of both lexer runs). -/
example :
    @AsciiLaws asciiOps
    ∧ (∀ t t' : Str, t.map asciiLowerChar = t'.map asciiLowerChar →
        numOpsInt.parse t' = numOpsInt.parse t)
    ∧ ulen exText < 2 ^ 32
    ∧ exText.map asciiLowerChar = exTextRecased.map asciiLowerChar
    ∧ (toksOf exText).map (·.kind) =
        [.put, .number, .into, .commonPrefix, .word, .newline,
         .word, .word, .apostropheS, .stringLit, .newline,
         .sayAlias, .commonPrefix, .word, .newline, .sayAlias, .word, .word, .newline]
    ∧ (toksOf exTextRecased).map (·.kind) = (toksOf exText).map (·.kind)
    ∧ (toksOf exTextRecased).map (·.spelling) ≠ (toksOf exText).map (·.spelling) :=
  ⟨asciiLaws_asciiOps, fun t t' h => numOpsInt_parse_rc t t' (rc_iff_map.mpr h), by decide,
   by decide +kernel, by decide +kernel, by decide +kernel, by decide +kernel⟩

/-- **String literals keep their contents.**  If moreover the span of every string literal of
    `s` holds the same characters in `s'`, corresponding string-literal tokens have the same
    spelling and the same payload (the text between the quotes). -/
theorem C15_lex_recase_strings (laws : AsciiLaws)
    (hparse : ∀ t t' : Str, t.map asciiLowerChar = t'.map asciiLowerChar →
      (NumOps.parse t' : Option N) = NumOps.parse t)
    (kw : List (Str × TK))
    (hkw : ∀ e ∈ kw, e.2 ≠ .newline ∧ e.2 ≠ .number ∧ e.2 ≠ .stringLit ∧ e.2 ≠ .comment)
    (s s' : Str) (hlen : ulen s < 2 ^ 32)
    (hcase : s.map asciiLowerChar = s'.map asciiLowerChar)
    (ts ts' : List (Tok N)) (hlex : lexAll kw s = .ok ts) (hlex' : lexAll kw s' = .ok ts')
    (hstr : ∀ t ∈ ts, t.kind = .stringLit →
      substr s' t.start (t.start + ulen t.spelling) = some t.spelling) :
    ∀ p ∈ ts.zip ts', p.1.kind = .stringLit → p.2.text = p.1.text := by
  have hrca : RC s s' := rc_iff_map.mpr hcase
  have hl : ulen s' = ulen s := hrca.ulen
  have hrel := lexAll_rel (N := N) laws (fun t t' h => hparse t t' (rc_iff_map.mp h)) kw hrca
  rw [hlex, hlex'] at hrel
  intro p hp hk
  obtain ⟨i, hi, rfl⟩ := List.getElem_of_mem hp
  simp only [List.length_zip] at hi
  have hr := F2.getElem hrel i (by omega) (by omega)
  simp only [List.getElem_zip] at hk ⊢
  exact stringLit_text_eq hlen (by rw [hl]; exact hlen) hkw hlex hlex' (List.getElem_mem _)
    (List.getElem_mem _) hr hk (hstr _ (List.getElem_mem _) hk)

/-- non-vacuity: the transcribed keyword table meets `hkw`; in the example the one string literal
    (`"ok"`, bytes 32–35) is unchanged, and its payload is `ok` in both token lists. -/
example :
    (∀ e ∈ defaultKeywords, e.2 ≠ .newline ∧ e.2 ≠ .number ∧ e.2 ≠ .stringLit ∧ e.2 ≠ .comment)
    ∧ (∀ t ∈ toksOf exText, t.kind = .stringLit →
        substr exTextRecased t.start (t.start + ulen t.spelling) = some t.spelling)
    ∧ ((toksOf exText).filter (·.kind == .stringLit)).map (·.text) = [str% "ok"]
    ∧ ((toksOf exTextRecased).filter (·.kind == .stringLit)).map (·.text) = [str% "ok"] :=
  ⟨by decide +kernel, by decide +kernel, by decide +kernel, by decide +kernel⟩

/-- **Parsing commutes with re-casing.**  Let `s'` be a re-casing of `s` as in `C15_lex_recase`,
    with token lists `ts`, `ts'`, such that string literals are unchanged (`hstr`), the text
    after every `says`/`say` token up to the next `Newline` token is unchanged (`hsay`; comments
    are not tokens for the parser) and every `Word` token keeps whether its first character is
    upper-case (`hcap`).  Then `parseProgram` ends the same way on both texts:
    * both succeed, and the trees are equal once letter case is erased (`eProgram`: every name
      replaced by its key, every word of a poetic number literal ASCII-lower-cased; literals,
      poetic strings, operators and source positions are equal as they stand), or
    * both fail with the same error (`ErrRel`: same code, same location — the same line, or
      tokens that agree up to the case of the spelling — and the token, prefix or operand the
      error mentions agrees up to case), or
    * both crash at the same site / run out of fuel (which `C01` excludes). -/
theorem C15_parse_recase (laws : AsciiLaws)
    (hparse : ∀ t t' : Str, t.map asciiLowerChar = t'.map asciiLowerChar →
      (NumOps.parse t' : Option N) = NumOps.parse t)
    (kw : List (Str × TK))
    (hkw : ∀ e ∈ kw, e.2 ≠ .newline ∧ e.2 ≠ .number ∧ e.2 ≠ .stringLit ∧ e.2 ≠ .comment)
    (s s' : Str) (hlen : ulen s < 2 ^ 32)
    (hcase : s.map asciiLowerChar = s'.map asciiLowerChar)
    (ts ts' : List (Tok N)) (hlex : lexAll kw s = .ok ts) (hlex' : lexAll kw s' = .ok ts')
    (hstr : ∀ t ∈ ts, t.kind = .stringLit →
      substr s' t.start (t.start + ulen t.spelling) = some t.spelling)
    (hsay : ∀ pre t post, skipComments ts = pre ++ t :: post → (t.kind = .says ∨ t.kind = .say) →
      substr s' (t.start + ulen t.spelling) (sayEnd s post) =
        substr s (t.start + ulen t.spelling) (sayEnd s post))
    (hcap : ∀ p ∈ ts.zip ts', p.1.kind = .word →
      p.2.spelling.head?.map isUppercase = p.1.spelling.head?.map isUppercase) :
    match (parseProgram kw s : Outcome (ParseErr N) (Program N)),
          (parseProgram kw s' : Outcome (ParseErr N) (Program N)) with
    | .ok p, .ok p' => eProgram p' = eProgram p
    | .err e, .err e' => ErrRel e e'
    | .crash a, .crash b => a = b
    | .fuel, .fuel => True
    | .resource, .resource => True
    | _, _ => False := by
  have hrca : RC s s' := rc_iff_map.mpr hcase
  obtain ⟨hraw, htoks⟩ := toksRel_of_text (N := N) laws
    (fun t t' h => hparse t t' (rc_iff_map.mp h)) hkw hlen hrca hlex hlex' hstr hsay
    (fun i h h' hk => hcap (ts[i], ts'[i]) (by
      rw [← List.getElem_zip (i := i) (h := by simp only [List.length_zip]; omega)]
      exact List.getElem_mem _) hk)
  have h := parseProgram_rel (N := N) laws kw hlex hlex' hrca.ulen hraw htoks
  revert h
  cases (parseProgram kw s : Outcome (ParseErr N) (Program N)) <;>
    cases (parseProgram kw s' : Outcome (ParseErr N) (Program N)) <;> exact id

/-- non-vacuity: the example meets `hsay` (it has no `says`/`say` token; the decidable form
    `SayFixed` of the condition is evaluated) and `hcap`; both texts parse (kernel evaluation),
    to trees that differ. -/
example :
    (∀ pre t post, skipComments (toksOf exText) = pre ++ t :: post →
        (t.kind = .says ∨ t.kind = .say) →
        substr exTextRecased (t.start + ulen t.spelling) (sayEnd exText post) =
          substr exText (t.start + ulen t.spelling) (sayEnd exText post))
    ∧ (∀ p ∈ (toksOf exText).zip (toksOf exTextRecased), p.1.kind = .word →
        p.2.spelling.head?.map asciiOps.isUppercase = p.1.spelling.head?.map asciiOps.isUppercase)
    ∧ @parseProgram Int asciiOps numOpsInt defaultKeywords exText = .ok (progOf exText)
    ∧ @parseProgram Int asciiOps numOpsInt defaultKeywords exTextRecased = .ok (progOf exTextRecased) :=
  ⟨sayFixed_decomp (by decide +kernel), by decide +kernel, exText_parses, exTextRecased_parses⟩

/-- non-vacuity of `hsay` with a poetic string literal: in `Tommy says Hello World` / `TOMMY SAYS
    Hello World` the text after the `says` token is unchanged; the condition holds and does not
    hold for the re-casing `Tommy says HELLO World` (kernel evaluation of its decidable form). -/
example :
    (toksOf exSay).map (·.kind)
      = [.word, .says, .word, .word, .newline, .sayAlias, .word, .newline]
    ∧ exSay.map asciiLowerChar = exSayRecased.map asciiLowerChar
    ∧ SayFixed exSay exSayRecased (skipComments (toksOf exSay))
    ∧ ¬ SayFixed exSay (str% "Tommy says HELLO World\nShout Tommy\n") (skipComments (toksOf exSay)) := by
  decide +kernel

/-- What "equal once letter case is erased" means (`eProgram`, representative defining
    equations): blocks and statements are erased recursively; in a statement every name `n`
    becomes `n.key` (expressions, targets and parameters through `Rename.expr/lhs/… VarName.key`,
    see `C15_rename_syntax`), the elements of a poetic number literal are lower-cased, the text
    of a poetic string literal stays. -/
theorem C15_eProgram_def :
    (∀ bs : List (Block N), eProgram ⟨bs⟩ = ⟨bs.map eBlock⟩)
    ∧ (∀ loc (ss : List (Stmt N)), eBlock (.mk loc ss) = .mk loc (ss.map eStmt))
    ∧ (∀ (d : Lhs N) (l : List PoeticElem), eStmt (.poeticNum d (.lit l))
        = .poeticNum (Rename.lhs VarName.key d) (.lit (l.map lowerElem)))
    ∧ (∀ w : Str, lowerElem (.word w) = .word (w.map asciiLowerChar))
    ∧ (∀ (d : Lhs N) (t : Str), eStmt (.poeticStr d t) = .poeticStr (Rename.lhs VarName.key d) t)
    ∧ (∀ (e : Expr N), eStmt (.output e) = .output (Rename.expr VarName.key e))
    ∧ (∀ name r params (body : Block N), eStmt (.func name r params body)
        = .func name.key r (params.map fun p => (p.1.key, p.2)) (eBlock body)) := by
  refine ⟨fun bs => ?_, fun loc ss => ?_, fun d l => ?_, fun w => rfl, fun d t => ?_, fun e => ?_,
    fun name r params body => ?_⟩
  · simp [eProgram, eBlock, RenameP.program, RenameP.blocks_eq_map]
  · simp [eBlock, eStmt, RenameP.block, RenameP.stmts_eq_map]
  · simp [eStmt, RenameP.stmt, RenameP.poeticRhs]
  · simp [eStmt, RenameP.stmt]
  · simp [eStmt, RenameP.stmt]
  · simp [eStmt, eBlock, RenameP.stmt]

/-- … and what "the same error" means (`ErrRel`, spelled out for the codes that carry data). -/
theorem C15_errRel_def (e e' : ParseErr N) :
    ErrRel e e' ↔
      (match e.code, e'.code with
       | .generic m, .generic m' => m' = m
       | .missingIDAfterCommonPrefix p, .missingIDAfterCommonPrefix p' =>
           RC p p'
       | .mutationOperandMustBeIdentifier p, .mutationOperandMustBeIdentifier p' =>
           Rename.primary VarName.key p' = Rename.primary VarName.key p
       | .expectedPrimaryExpression, .expectedPrimaryExpression => True
       | .expectedIdentifier, .expectedIdentifier => True
       | .expectedText t, .expectedText t' => t' = t
       | .expectedToken k, .expectedToken k' => k' = k
       | .expectedOneOfTokens ks, .expectedOneOfTokens ks' => ks' = ks
       | .expectedPoeticNumberLiteral, .expectedPoeticNumberLiteral => True
       | .expectedSpaceAfterSays t, .expectedSpaceAfterSays t' => PTokRel t t'
       | .unexpectedToken, .unexpectedToken => True
       | .unexpectedEndOfTokens, .unexpectedEndOfTokens => True
       | .poeticLiteralEndingWithHyphen, .poeticLiteralEndingWithHyphen => True
       | .poeticLiteralStartingWithHyphen, .poeticLiteralStartingWithHyphen => True
       | _, _ => False) ∧
      (match e.loc, e'.loc with
       | .token t, .token t' => PTokRel t t'
       | .line n, .line n' => n' = n
       | _, _ => False) := by
  unfold ErrRel
  cases e.code <;> cases e'.code <;> cases e.loc <;> cases e'.loc <;> exact Iff.rfl

/-- **Running the re-cased text behaves exactly like running the original.**  Under the
    hypotheses of `C15_parse_recase` (and `hidem` of `C15_recase`): either both texts parse, and
    then — with the same fuel, from the same initial environment (no bindings, no pronoun
    referent; any input, fault settings and budgets) — the two programs write exactly the same
    bytes and end the same way: success, the same crash site, the same exhausted budget, or the
    same runtime error mentioning the same name up to letter case; or both texts are rejected
    with the same parse error (`ErrRel`); or both parser runs crash at the same site / run out of
    fuel. -/
theorem C15_text_recase_behaviour (laws : AsciiLaws)
    (hidem : ∀ c, ∀ d ∈ toLower c, toLower d = [d])
    (hparse : ∀ t t' : Str, t.map asciiLowerChar = t'.map asciiLowerChar →
      (NumOps.parse t' : Option N) = NumOps.parse t)
    (kw : List (Str × TK))
    (hkw : ∀ e ∈ kw, e.2 ≠ .newline ∧ e.2 ≠ .number ∧ e.2 ≠ .stringLit ∧ e.2 ≠ .comment)
    (s s' : Str) (hlen : ulen s < 2 ^ 32)
    (hcase : s.map asciiLowerChar = s'.map asciiLowerChar)
    (ts ts' : List (Tok N)) (hlex : lexAll kw s = .ok ts) (hlex' : lexAll kw s' = .ok ts')
    (hstr : ∀ t ∈ ts, t.kind = .stringLit →
      substr s' t.start (t.start + ulen t.spelling) = some t.spelling)
    (hsay : ∀ pre t post, skipComments ts = pre ++ t :: post → (t.kind = .says ∨ t.kind = .say) →
      substr s' (t.start + ulen t.spelling) (sayEnd s post) =
        substr s (t.start + ulen t.spelling) (sayEnd s post))
    (hcap : ∀ p ∈ ts.zip ts', p.1.kind = .word →
      p.2.spelling.head?.map isUppercase = p.1.spelling.head?.map isUppercase) :
    match (parseProgram kw s : Outcome (ParseErr N) (Program N)),
          (parseProgram kw s' : Outcome (ParseErr N) (Program N)) with
    | .ok p, .ok p' =>
        ∀ (fuel : Nat) (env : Env N), env.scopes = [[]] → env.last = none →
          (execProgram fuel p' env).2.out = (execProgram fuel p env).2.out
          ∧ (execProgram fuel p' env).1.mapErr (RtErr.mapName VarName.key)
              = (execProgram fuel p env).1.mapErr (RtErr.mapName VarName.key)
    | .err e, .err e' => ErrRel e e'
    | .crash a, .crash b => a = b
    | .fuel, .fuel => True
    | .resource, .resource => True
    | _, _ => False := by
  have h := C15_parse_recase laws hparse kw hkw s s' hlen hcase ts ts' hlex hlex' hstr hsay hcap
  revert h
  cases (parseProgram kw s : Outcome (ParseErr N) (Program N)) <;>
    cases (parseProgram kw s' : Outcome (ParseErr N) (Program N)) <;> try exact id
  intro h fuel env hs hl
  exact exec_of_eProgram hidem fuel _ _ h env hs hl

/-- non-vacuity: the ASCII tables meet `hidem`; every hypothesis of the theorem is met by the
    example text and its re-casing (kernel evaluation of both lexer runs and of the side
    conditions), both parse, and the theorem yields: for every fuel the two programs write the
    same bytes. -/
example : ∀ fuel : Nat,
    (@execProgram asciiOps Int numOpsInt fuel (progOf exTextRecased) {}).2.out
      = (@execProgram asciiOps Int numOpsInt fuel (progOf exText) {}).2.out := by
  intro fuel
  have h := @C15_text_recase_behaviour asciiOps Int numOpsInt asciiLaws_asciiOps asciiOps_idem
    (fun t t' h => numOpsInt_parse_rc t t' (rc_iff_map.mpr h)) defaultKeywords (by decide +kernel)
    exText exTextRecased (by decide) (by decide +kernel)
    (toksOf exText) (toksOf exTextRecased) exText_lexes exTextRecased_lexes (by decide +kernel)
    (sayFixed_decomp (by decide +kernel)) (by decide +kernel)
  rw [exText_parses, exTextRecased_parses] at h
  exact (h fuel {} rfl rfl).1

/-- a complete run evaluated by the kernel (lexer, parser, interpreter; ASCII tables, integers):
    `Shout Tommy Lee` fails with `NameNotFound` mentioning the proper name `Tommy Lee`, its
    re-casing `sHOUT TOMMY LeE` fails with `NameNotFound` mentioning `TOMMY LeE` — the same name
    up to letter case (same key). -/
example :
    (match (@execProgram asciiOps Int numOpsInt 6 (progOf (str% "Shout Tommy Lee")) {}).1 with
     | .err (.nameNotFound n) => decide (n = .proper [str% "Tommy", str% "Lee"])
     | _ => false) = true
    ∧ (match (@execProgram asciiOps Int numOpsInt 6 (progOf (str% "sHOUT TOMMY LeE")) {}).1 with
     | .err (.nameNotFound n) => decide (n = .proper [str% "TOMMY", str% "LeE"])
     | _ => false) = true
    ∧ @VarName.key asciiOps (.proper [str% "TOMMY", str% "LeE"])
        = @VarName.key asciiOps (.proper [str% "Tommy", str% "Lee"]) := by
  decide +kernel

end

/-! ## The repaired lexer sites (D18), and what stays case-sensitive by design

  Before the repair `scan_for_text` used `strip_prefix` and `find_word_start` used
  `starts_with("'n'")`, so `"a"'S` and `x 'N' y` lexed differently from `"a"'s` and `x 'n' y`
  (findings F-a, F-b of the first version of this file; `tokenize_word` always tested
  `'s`/`'S`/`'re`/`'RE`/`'Re`/`'rE`).  Now both sites compare up to ASCII case
  (`Lexer.startsWithIgnoreAsciiCase`); the token keeps the spelling of the source. -/

/-- **F-a repaired**: `'s` after a string literal (likewise after a number or a comment, likewise
    `'re`) in either case is the `'s` token, spelled as in the source — as it always was after a
    word. -/
example :
    kindsOf (str% "\"a\"'s") = [(.stringLit, str% "\"a\""), (.apostropheS, str% "'s")]
    ∧ kindsOf (str% "\"a\"'S") = [(.stringLit, str% "\"a\""), (.apostropheS, str% "'S")]
    ∧ kindsOf (str% "7'rE") = [(.number, str% "7"), (.apostropheRE, str% "'rE")]
    ∧ kindsOf (str% "it's") = [(.pronoun, str% "it"), (.apostropheS, str% "'s")]
    ∧ kindsOf (str% "it'S") = [(.pronoun, str% "it"), (.apostropheS, str% "'S")] := by
  decide +kernel

/-- **F-b repaired**: `'N'` is the separator token `'n'`, spelled as in the source. -/
example :
    kindsOf (str% "x 'n' y")
      = [(.word, str% "x"), (.apostropheNApostrophe, str% "'n'"), (.word, str% "y")]
    ∧ kindsOf (str% "x 'N' y")
      = [(.word, str% "x"), (.apostropheNApostrophe, str% "'N'"), (.word, str% "y")] := by
  decide +kernel

/-- … and the parser sees them as such: `'N'` separates the arguments of a call, `'S` after a
    string literal is the comparison `is` (both texts parse; by `C15_parse_recase` to the same
    tree as their lower-case forms). -/
example :
    (@parseProgram Int asciiOps numOpsInt defaultKeywords (str% "Shout F taking 1 'N' 2")).isOk = true
    ∧ (@parseProgram Int asciiOps numOpsInt defaultKeywords (str% "Shout \"a\"'S 7")).isOk = true := by
  have h1 := lexes_of_isOk (src := str% "Shout F taking 1 'N' 2") (by decide +kernel)
  have h2 := lexes_of_isOk (src := str% "Shout \"a\"'S 7") (by decide +kernel)
  unfold parseProgram
  rw [@runOn_of_lex Int asciiOps numOpsInt (Program Int) (fun r => r.program) _ _ _ h1,
    @runOn_of_lex Int asciiOps numOpsInt (Program Int) (fun r => r.program) _ _ _ h2]
  decide +kernel

/-- **F-c** (by design of the language, hence `hcap`) capitalisation decides how words group into
    names: `Tommy Lee` is ONE proper variable, `tommy Lee` is the simple variable `tommy` followed
    by a second identifier (a parse error in `say tommy Lee`). -/
example :
    (@parseProgram Int asciiOps numOpsInt defaultKeywords (str% "shout Tommy Lee")).isOk = true
    ∧ (@parseProgram Int asciiOps numOpsInt defaultKeywords (str% "shout tommy Lee")).isErr = true := by
  have h1 := lexes_of_isOk (src := str% "shout Tommy Lee") (by decide +kernel)
  have h2 := lexes_of_isOk (src := str% "shout tommy Lee") (by decide +kernel)
  unfold parseProgram
  rw [@runOn_of_lex Int asciiOps numOpsInt (Program Int) (fun r => r.program) _ _ _ h1,
    @runOn_of_lex Int asciiOps numOpsInt (Program Int) (fun r => r.program) _ _ _ h2]
  decide +kernel

end Rrss
