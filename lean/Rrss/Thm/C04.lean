/-
  C04 — control flow follows the program text: branches, loops, break/continue.
-/
import Rrss.Lemmas.IOTrace
import Rrss.Lemmas.Signals
import Rrss.Lemmas.FlowExamples
namespace Rrss
namespace C04
open Env Interp

variable {N : Type} [NumOps N]

/- the examples run over exact integers and a trivial character classification
   (`Rrss.Lemmas.FlowExamples`) -/
open FlowExamples
attribute [local instance] exChars

/-! ## The refinement: the flag machine of the code is the textbook signal semantics -/

omit [NumOps N] in
/-- How flags and signals correspond (`Signal.toSt`): `normal` ↔ flag `normal` and no return
    value; `break_` ↔ `breaking`; `continue_` ↔ `continuing`; `return_ v` ↔ `returning` with
    return value `v`. In particular the translation loses nothing (it is injective). -/
theorem signal_flag_correspondence (sig : Signal N) :
    (sig.toSt.flag = .normal ↔ sig = .normal) ∧
    (sig.toSt.flag = .breaking ↔ sig = .break_) ∧
    (sig.toSt.flag = .continuing ↔ sig = .continue_) ∧
    (∀ v, (sig.toSt.flag = .returning ∧ sig.toSt.ret = some v) ↔ sig = .return_ v) ∧
    (sig.toSt.ret.isSome ↔ sig.toSt.flag = .returning) := by
  cases sig <;> simp [Signal.toSt]

/-- **Refinement, statement lists.** At every fuel `n`, for every statement list, every start
    environment, and the control state a statement list is always started in (no pending flag, no
    return value): running the model's flag machine gives the same outcome class — ok / the same
    error / the same crash site / out of fuel / out of step budget — and the same final
    environment (output bytes, unread input, variables, budgets: everything) as the signal
    semantics `Spec.execStmts`, and when both are `ok` the final flag-machine state is the
    translation of the spec's signal. -/
theorem flag_machine_refines_signals [CharOps] (n : Nat) (ss : List (Stmt N)) (st : ExecSt N)
    (hflag : st.flag = .normal) (hret : st.ret = none) (env : Env N) :
    execStmts (interp n) ss st env =
      ((Spec.execStmts (Spec.sinterp n) ss env).1.map Signal.toSt,
       (Spec.execStmts (Spec.sinterp n) ss env).2) := by
  have hst : st = {} := by cases st; simp only at hflag hret; subst hflag hret; rfl
  rw [hst, execStmts_ref (interp_rel n), asSt, M.bind_run]
  rcases Spec.execStmts (Spec.sinterp n) ss env with ⟨r, e'⟩
  cases r <;> rfl

/- The hypotheses hold for the neutral state, and the specification is not trivial: on
   `x = 0; while x < 5 { x++; say x; if x = 2 { if true { break } } }; say "done"` it prints
   `1`, `2`, `done` and ends `normal`. -/
example : execStmts (interp 10) loopBreakStmts {} e0 =
    ((Spec.execStmts (Spec.sinterp 10) loopBreakStmts e0).1.map Signal.toSt,
     (Spec.execStmts (Spec.sinterp 10) loopBreakStmts e0).2) :=
  flag_machine_refines_signals 10 loopBreakStmts {} rfl rfl e0
example : (Spec.execStmts (Spec.sinterp 10) loopBreakStmts e0).2.out =
    [49, 10, 50, 10, 100, 111, 110, 101, 10] ∧
    (match (Spec.execStmts (Spec.sinterp 10) loopBreakStmts e0).1 with
     | .ok .normal => true | _ => false) = true := by decide +kernel

/-- **Refinement, single statements** (same reading). -/
theorem flag_machine_refines_signals_stmt [CharOps] (n : Nat) (s : Stmt N) (env : Env N) :
    (interp n).execStmt s {} env =
      (((Spec.sinterp n).execStmt s env).1.map Signal.toSt, ((Spec.sinterp n).execStmt s env).2) := by
  rw [(interp_rel n).execStmt s, asSt, M.bind_run]
  rcases (Spec.sinterp n).execStmt s env with ⟨r, e'⟩
  cases r <;> rfl

/-- **Refinement, expressions.** Expression evaluation (which runs function bodies) and the write
    traversals of the model and of the signal semantics are the same functions: in particular a
    call yields the value of the first `return` its body reaches, else mysterious, and a `break`
    or `continue` escaping a function body is dropped there. -/
theorem expressions_agree [CharOps] (n : Nat) :
    (interp n : Rec N).evalExpr = (Spec.sinterp n).evalExpr ∧
    (interp n : Rec N).evalPrimary = (Spec.sinterp n).evalPrimary ∧
    (interp n : Rec N).writeExpr = (Spec.sinterp n).writeExpr ∧
    (interp n : Rec N).writePrimary = (Spec.sinterp n).writePrimary :=
  have h := interp_rel (N := N) n
  ⟨h.evalExpr, h.evalPrimary, h.writeExpr, h.writePrimary⟩

/-- **Refinement, top-level blocks** (same reading; a signal that is not `normal` after a top-level
    block ends the program in both). -/
theorem blocks_refine_signals [CharOps] (n : Nat) (bs : List (Block N)) (env : Env N) :
    execBlocks (interp n) bs {} env =
      ((Spec.execBlocks (Spec.sinterp n) bs env).1.map Signal.toSt,
       (Spec.execBlocks (Spec.sinterp n) bs env).2) := by
  rw [execBlocks_ref (interp_rel n), asSt, M.bind_run]
  rcases Spec.execBlocks (Spec.sinterp n) bs env with ⟨r, e'⟩
  cases r <;> rfl

/-- **Refinement, whole programs.** `exec` of the model and of the signal semantics are the same
    function of the start environment (outcome and final environment), at every fuel. A stray
    top-level `break`/`continue`/`return` ends the program in both. -/
theorem program_refines_signals [CharOps] (n : Nat) (p : Program N) :
    execProgram n p = Spec.execProgram n p :=
  execProgram_ref n p

/-! ## Corollary (i) — what was printed before an error stays printed -/

/-- If a statement list stops with an error, the output at that point extends the output at the
    start: nothing that was written is lost. -/
theorem output_preserved_on_error [CharOps] (n : Nat) (ss : List (Stmt N)) (st : ExecSt N) (env env' : Env N)
    (e : RtErr N) (h : execStmts (interp n) ss st env = (.err e, env')) : env.out <+: env'.out := by
  have := ((execStmts_steps (interp_steps n) ss st).le env).out
  rw [h] at this; exact this

/- `say 1; say it; say 9` stops with an error at its second statement; the `1` stays printed. -/
example : (execStmts (interp 10) sayThenError {} e0).1.isErr = true ∧
    (execStmts (interp 10) sayThenError {} e0).2.out = [49, 10] := by decide +kernel

/-- The general fact behind it: output only ever grows, for every statement list, at every fuel,
    with every outcome (also for crashes and exhausted budgets). -/
theorem output_only_grows [CharOps] (n : Nat) (ss : List (Stmt N)) (st : ExecSt N) (env : Env N) :
    env.out <+: (execStmts (interp n) ss st env).2.out :=
  ((execStmts_steps (interp_steps n) ss st).le env).out

/-! ## Corollary (ii) — a loop whose condition does not hold runs its body zero times -/

/-- `while c` with `c` falsy (resp. `until c` with `c` truthy; `invert` tells which): the loop
    ends in the environment left by the single evaluation of `c`, control state unchanged; the
    body is not run. -/
theorem loop_zero_iterations (rec : Rec N) (invert : Bool) (c : Expr N) (body : Block N)
    (st : ExecSt N) (env env1 : Env N) (v : Val N)
    (hev : rec.evalExpr c env = (.ok v, env1)) (hv : v.isTruthy = invert) :
    execLoop rec invert c body st env = (.ok st, env1) := by
  unfold execLoop
  simp only [bind, M.bind, M.get, loopGo, hev, hv]
  simp [pure, M.pure]

example : execLoop (interp 3) false ff (blk [.output (num 1)]) {} e0 = (.ok {}, e0) :=
  loop_zero_iterations (interp 3) false ff _ {} e0 e0 (.bool false) rfl rfl
example : execLoop (interp 3) true tt (blk [.output (num 1)]) {} e0 = (.ok {}, e0) :=
  loop_zero_iterations (interp 3) true tt _ {} e0 e0 (.bool true) rfl rfl

/-! ## Corollary (iii) — `break` / `continue` from under any stack of `if`s -/

/-- An `if` statement runs exactly one statement list — the `then` block if the condition's value
    is truthy, else the `else` block (nothing if there is none) — in a fresh scope, and hands the
    control state of that branch to its surroundings unchanged (after popping the branch scope):
    whatever flag (`breaking`, `continuing`, `returning`, `normal`) the chosen branch ends with is
    the flag of the `if`. -/
theorem if_propagates_flag [CharOps] (rec : Rec N) (c : Expr N) (thenB : Block N) (elseB : Option (Block N))
    (st st' : ExecSt N) (env env1 env2 env3 : Env N) (s : Nat) (v : Val N)
    (hsteps : env.steps = s + 1)
    (hev : rec.evalExpr c { env with steps := s } = (.ok v, env1))
    (hbranch : execStmts rec (if v.isTruthy then thenB.stmts else
                  match elseB with
                  | some b => b.stmts
                  | none => []) st { env1 with scopes := [] :: env1.scopes } = (.ok st', env2))
    (hpop : popScope env2 = (.ok (), env3)) :
    execStmt rec (.ifS c thenB elseB) st env = (.ok st', env3) := by
  unfold execStmt
  simp only [bind, M.bind, tick, hsteps, hev, pushScope, M.modify]
  cases hv : v.isTruthy
  · cases elseB with
    | none =>
      simp only [hv, Bool.false_eq_true, if_false, execStmts, pure, M.pure] at hbranch ⊢
      simp only [Prod.mk.injEq, Outcome.ok.injEq] at hbranch
      rw [hbranch.1, hbranch.2, hpop]
    | some b =>
      simp only [hv, Bool.false_eq_true, if_false] at hbranch ⊢
      rw [hbranch]; simp only [hpop]; rfl
  · simp only [hv, if_true] at hbranch ⊢
    rw [hbranch]; simp only [hpop]; rfl

/- `if true { break }`: the `if` ends with the flag `breaking` of its branch -/
example : execStmt (interp 3) (.ifS tt (blk [.break_ r0]) none) {} e0 =
    (.ok { flag := .breaking }, { e0 with steps := 99998 }) :=
  if_propagates_flag (interp 3) tt (blk [.break_ r0]) none {} { flag := .breaking } e0
    { e0 with steps := 99999 } { e0 with steps := 99998, scopes := [[], []] }
    { e0 with steps := 99998 } 99999 (.bool true) rfl rfl rfl rfl

/-- One round of a loop whose body ends with a pending `break`: the loop is left at once, with
    the flag back to `normal`, in the environment right after the body's scope was popped — the
    condition is not evaluated again and no enclosing loop sees the flag. -/
theorem break_leaves_loop (rec : Rec N) (invert : Bool) (c : Expr N) (body : List (Stmt N))
    (n : Nat) (st st' : ExecSt N) (env env1 env2 env3 env4 : Env N) (v : Val N)
    (hev : rec.evalExpr c env = (.ok v, env1)) (hv : (invert != v.isTruthy) = true)
    (htick : tick env1 = (.ok (), env2))
    (hbody : execStmts rec body st { env2 with scopes := [] :: env2.scopes } = (.ok st', env3))
    (hflag : st'.flag = .breaking)
    (hpop : popScope env3 = (.ok (), env4)) :
    loopGo rec invert c body (n + 1) st env = (.ok { st' with flag := .normal }, env4) := by
  unfold loopGo
  simp only [bind, M.bind, hev, hv, if_true, htick, pushScope, M.modify, hbody, hpop, hflag]
  rfl

/- `while true { if true { break } }`: left after one round, flag `normal` again -/
example : loopGo (interp 3) false tt [.ifS tt (blk [.break_ r0]) none] 6 {} e0 =
    (.ok {}, { e0 with steps := 99997 }) :=
  break_leaves_loop (interp 3) false tt [.ifS tt (blk [.break_ r0]) none] 5 {} { flag := .breaking }
    e0 e0 { e0 with steps := 99999 } { e0 with steps := 99997, scopes := [[], []] }
    { e0 with steps := 99997 } (.bool true) rfl rfl rfl rfl rfl rfl

/-- One round of a loop whose body ends with a pending `continue`: the flag is reset and the
    loop goes on with the next test of the condition. -/
theorem continue_restarts_loop (rec : Rec N) (invert : Bool) (c : Expr N) (body : List (Stmt N))
    (n : Nat) (st st' : ExecSt N) (env env1 env2 env3 env4 : Env N) (v : Val N)
    (hev : rec.evalExpr c env = (.ok v, env1)) (hv : (invert != v.isTruthy) = true)
    (htick : tick env1 = (.ok (), env2))
    (hbody : execStmts rec body st { env2 with scopes := [] :: env2.scopes } = (.ok st', env3))
    (hflag : st'.flag = .continuing)
    (hpop : popScope env3 = (.ok (), env4)) :
    loopGo rec invert c body (n + 1) st env =
      loopGo rec invert c body n { st' with flag := .normal } env4 := by
  conv => lhs; unfold loopGo
  simp only [bind, M.bind, hev, hv, if_true, htick, pushScope, M.modify, hbody, hpop, hflag]

/- `while true { if true { continue }; say 1 }`: the `say` is skipped, the next round starts -/
example : loopGo (interp 3) false tt [.ifS tt (blk [.continue_ r0]) none, .output (num 1)] 6 {} e0 =
    loopGo (interp 3) false tt [.ifS tt (blk [.continue_ r0]) none, .output (num 1)] 5 {}
      { e0 with steps := 99997 } :=
  continue_restarts_loop (interp 3) false tt _ 5 {} { flag := .continuing }
    e0 e0 { e0 with steps := 99999 } { e0 with steps := 99997, scopes := [[], []] }
    { e0 with steps := 99997 } (.bool true) rfl rfl rfl rfl rfl rfl

/-- One round of a loop whose body ends with no pending flag: the loop goes on with the next test
    of the condition (the condition is tested before every round, there is no other way on). -/
theorem loop_next_round (rec : Rec N) (invert : Bool) (c : Expr N) (body : List (Stmt N))
    (n : Nat) (st st' : ExecSt N) (env env1 env2 env3 env4 : Env N) (v : Val N)
    (hev : rec.evalExpr c env = (.ok v, env1)) (hv : (invert != v.isTruthy) = true)
    (htick : tick env1 = (.ok (), env2))
    (hbody : execStmts rec body st { env2 with scopes := [] :: env2.scopes } = (.ok st', env3))
    (hflag : st'.flag = .normal)
    (hpop : popScope env3 = (.ok (), env4)) :
    loopGo rec invert c body (n + 1) st env = loopGo rec invert c body n st' env4 := by
  conv => lhs; unfold loopGo
  simp only [bind, M.bind, hev, hv, if_true, htick, pushScope, M.modify, hbody, hpop, hflag]

example : loopGo (interp 3) true ff [.output (num 1)] 6 {} e0 =
    loopGo (interp 3) true ff [.output (num 1)] 5 {} { e0 with steps := 99998, out := [49, 10] } :=
  loop_next_round (interp 3) true ff _ 5 {} {} e0 e0 { e0 with steps := 99999 }
    { e0 with steps := 99998, scopes := [[], []], out := [49, 10] }
    { e0 with steps := 99998, out := [49, 10] } (.bool false) rfl rfl rfl rfl rfl rfl

omit [NumOps N] in
/-- A block stops right after the statement that left a pending flag: the remaining statements
    are not run. -/
theorem block_stops_at_pending_flag (rec : Rec N) (s : Stmt N) (ss : List (Stmt N))
    (st st' : ExecSt N) (env env' : Env N)
    (hs : rec.execStmt s st env = (.ok st', env')) (hflag : st'.flag ≠ .normal) :
    execStmts rec (s :: ss) st env = (.ok st', env') := by
  unfold execStmts
  simp only [bind, M.bind, hs]
  cases hf : st'.flag <;> simp_all [Flag.skipRest, pure, M.pure]

example : execStmts (interp 1) [.break_ r0, .output (num 1)] {} e0 =
    (.ok { flag := .breaking }, { e0 with steps := 99999 }) :=
  block_stops_at_pending_flag (interp 1) (.break_ r0) _ {} { flag := .breaking } e0
    { e0 with steps := 99999 } rfl (by decide)

omit [NumOps N] in
/-- An error stops execution at that statement: the rest of the block is not run, the error and
    the environment at that point are the result of the block. -/
theorem error_stops_block (rec : Rec N) (s : Stmt N) (ss : List (Stmt N)) (st : ExecSt N)
    (env env' : Env N) (e : RtErr N) (hs : rec.execStmt s st env = (.err e, env')) :
    execStmts rec (s :: ss) st env = (.err e, env') := by
  unfold execStmts
  simp only [bind, M.bind, hs]

example : execStmts (interp 3) [.output (.prim (.ident .pronoun r0)), .output (num 1)] {} e0 =
    (.err .missingPronoun, { e0 with steps := 99999 }) :=
  error_stops_block (interp 3) _ _ {} e0 _ _ rfl

end C04
end Rrss
