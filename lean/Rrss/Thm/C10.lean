/-
  Rrss.Thm.C10 — determinism: nothing observable depends on hash-table iteration order.

  A Lean function is deterministic by construction, so the theorems are about the one source of
  nondeterminism of the Rust code: the iteration order of `HashMap`.  In the model the
  dictionary part of an array is an association list in insertion order; a Rust `HashMap` may
  yield the entries in any order.  `a ≈ b` (`Val.Equiv`) says that `a` and `b` are the same
  value up to the order in which every dictionary, at every depth, lists its entries.  The
  theorems say: every observable is EQUAL on `≈`-related arguments, every value-producing
  operation maps `≈` to `≈`.  Well-formedness `Val.WF` (distinct keys in every dictionary —
  what a `HashMap` has by construction) is required exactly where a dictionary is searched or
  iterated by key.

  Helper lemmas: Rrss/Lemmas/DictPerm.lean (values), Rrss/Lemmas/DictPermExec.lean (lifting to
  the interpreter), and ValWF.lean, ValLaws.lean.
-/
import Rrss.Lemmas.DictPermExec
import Rrss.NumInt
import Rrss.CharsImpl
set_option linter.unusedSectionVars false
namespace Rrss
open NumOps DictPerm

section
variable {N : Type}

/-! ## 0. The relation -/

/-- `≈` on arrays, spelled out: the sequence parts are related position by position, and the
    left dictionary can be permuted (`List.Perm`) into a list that matches the right dictionary
    entry by entry (same key, related values).  On scalars `≈` is equality. -/
theorem C10_equiv_def :
    (∀ (s s' : List (Val N)) (d d' : List (Key × Val N)),
      Val.arr s d ≈ Val.arr s' d' ↔
        All₂ (· ≈ ·) s s' ∧
        ∃ d'', List.Perm d d'' ∧ All₂ (fun a b => a.1 = b.1 ∧ a.2 ≈ b.2) d'' d')
    ∧ (∀ a b : Val N, a.isArr = false → (a ≈ b ↔ a = b))
    ∧ (∀ a b : Val N, b.isArr = false → (a ≈ b ↔ a = b)) :=
  ⟨fun _ _ _ _ => Val.equiv_arr_iff.trans (and_congr_right fun _ => Val.dictEquiv_iff),
   fun _ _ h => Val.equiv_scalar_left h, fun _ _ h => Val.equiv_scalar_right h⟩

/-- `≈` is an equivalence relation. -/
theorem C10_equiv_equivalence :
    (∀ a : Val N, a ≈ a) ∧ (∀ a b : Val N, a ≈ b → b ≈ a) ∧
    (∀ a b c : Val N, a ≈ b → b ≈ c → a ≈ c) :=
  ⟨Val.Equiv.refl, fun _ _ => Val.Equiv.symm, fun _ _ _ => Val.Equiv.trans⟩

/-- Whatever order the hash table yields its entries in, the array is `≈` to the model's. -/
theorem C10_perm_equiv (s : List (Val N)) (d d' : List (Key × Val N)) (h : List.Perm d d') :
    Val.arr s d ≈ Val.arr s d' :=
  Val.equiv_of_perm h

/-- non-vacuity: two differently ordered two-entry dictionaries are related (and distinct),
    also when the reordering happens one level down; both are well-formed. -/
example :
    (Val.arr [] [(.str str% "a", .num 1), (.str str% "b", .num 2)] : Val Int)
      ≈ Val.arr [] [(.str str% "b", .num 2), (.str str% "a", .num 1)]
    ∧ (Val.arr [.arr [] [(.null, .num 1), (.undef, .num 2)]] [] : Val Int)
      ≈ Val.arr [.arr [] [(.undef, .num 2), (.null, .num 1)]] []
    ∧ (Val.arr [] [(.str str% "a", .num 1), (.str str% "b", .num 2)] : Val Int).WF
    ∧ (Val.arr [] [(.str str% "b", .num 2), (.str str% "a", .num 1)] : Val Int).WF := by
  refine ⟨C10_perm_equiv _ _ _ (List.Perm.swap _ _ _), ?_, ?_, ?_⟩
  · exact (C10_equiv_def.1 _ _ _ _).mpr
      ⟨.cons (C10_perm_equiv _ _ _ (List.Perm.swap _ _ _)) .nil, [], .refl _, .nil⟩
  · simp [Val.WF, Val.WFList, Val.WFDict]
  · simp [Val.WF, Val.WFList, Val.WFDict]

end

section
variable {N : Type} [NumOps N]

/-- Having distinct keys at every depth is a property of the `≈`-class. -/
theorem C10_wf_invariant (a b : Val N) (h : a ≈ b) : a.WF ↔ b.WF :=
  ⟨Val.WF_congr h, Val.WF_congr (Val.Equiv.symm h)⟩

/-! ## 1. Every observable is equal on `≈`-related arguments -/

/-- `Display` of a value (the text used in every error message) does not depend on the order of
    any dictionary: the rendered entries are sorted, and sorting a permutation gives the same
    list.  (No well-formedness needed.) -/
theorem C10_display (a b : Val N) (h : a ≈ b) : a.display = b.display :=
  Val.display_congr h

/-- The sorting fact behind it: `sorted()` of a permutation of a list of strings is the same
    list (bytewise string order is total, transitive and antisymmetric). -/
theorem C10_sort_perm (l l' : List Str) (h : List.Perm l l') : sortStrs l = sortStrs l' :=
  sortStrs_perm h

/-- What `say` prints, truthiness, and the number an array decays to are the same. -/
theorem C10_output_truthy (a b : Val N) (h : a ≈ b) :
    a.toOutput = b.toOutput ∧ a.outputText = b.outputText ∧ a.isTruthy = b.isTruthy
    ∧ a.decay = b.decay :=
  ⟨Val.toOutput_congr h, Val.outputText_congr h, Val.isTruthy_congr h, Val.decay_congr h⟩

/-- `is` / `==` give the same answer when either operand (or both) is reordered; the right
    operand, whose dictionaries are searched by key, must have distinct keys. -/
theorem C10_equals (a a' b b' : Val N) (ha : a ≈ a') (hb : b ≈ b') (wb : b.WF) :
    Val.equals a b = Val.equals a' b' ∧ Val.eqv a b = Val.eqv a' b' :=
  ⟨Val.equals_congr ha hb wb (Val.WF_congr hb wb), Val.eqv_congr ha hb wb (Val.WF_congr hb wb)⟩

/-- Ordering comparison: the same ordering, or the same error (`InvalidComparison`) with
    `≈`-related operands inside — which prints the same text, see `C10_error_text`. -/
theorem C10_compare (a a' b b' : Val N) (ha : a ≈ a') (hb : b ≈ b') :
    VRel Eq (Val.compare a b) (Val.compare a' b') :=
  Val.compare_congr ha hb

/-- Errors that embed values: `≈`-related errors (same constructor, `≈`-related value payloads,
    equal other payloads) have the same class and print exactly the same message — for
    `ValError` and for `RuntimeError`. -/
theorem C10_error_text :
    (∀ e e' : ValErr N, e ≈ e' → e.render = e'.render ∧ e.className = e'.className)
    ∧ (∀ e e' : RtErr N, e ≈ e' → e.render = e'.render ∧ e.className = e'.className) :=
  ⟨fun _ _ h => ⟨ValErr.render_congr h, ValErr.className_congr h⟩,
   fun _ _ h => ⟨RtErr.render_congr h, RtErr.className_congr h⟩⟩

/-- `VRel R r r'`, spelled out: the two outcomes have the same constructor; results are related
    by `R`, errors by `≈`, crash sites are equal. -/
theorem C10_vrel_def {α β : Type} (R : α → β → Prop) (r : VRes N α) (r' : VRes N β) :
    VRel R r r' ↔
      (∃ a b, r = .ok a ∧ r' = .ok b ∧ R a b) ∨ (∃ e e', r = .err e ∧ r' = .err e' ∧ e ≈ e')
      ∨ (∃ s, r = .crash s ∧ r' = .crash s) ∨ (r = .fuel ∧ r' = .fuel)
      ∨ (r = .resource ∧ r' = .resource) := by
  cases r <;> cases r' <;> simp [VRel, eq_comm]

/-- `join` iterates the dictionary part in the order of the rendered keys (`val_iter`, repaired:
    D9); that order is a strict total order on distinct keys (`keyDisplay` is injective), so on
    `≈`-related arrays with distinct keys and `≈`-related delimiters `join` yields the SAME
    string, or the same error with `≈`-related values inside. -/
theorem C10_join (v v' : Val N) (dl dl' : Option (Val N)) (h : v ≈ v')
    (hdl : OptRel (· ≈ ·) dl dl') (w : v.WF) :
    VRel Eq (Val.join v dl) (Val.join v' dl') :=
  Val.join_congr_eq h hdl w

/-- The facts behind `C10_join`: the rendered key determines the key, and the elements `join`
    visits are the same, in the same order, up to `≈`. -/
theorem C10_valIter (s s' : List (Val N)) (d d' : List (Key × Val N))
    (h : Val.arr s d ≈ Val.arr s' d') (w : (Val.arr s d).WF) :
    (∀ k k' : Key, Val.keyDisplay k = Val.keyDisplay k' → k = k')
    ∧ All₂ (· ≈ ·) (Val.valIter s d) (Val.valIter s' d') :=
  ⟨fun _ _ => Val.keyDisplay_injective,
   Val.valIter_congr (Val.equiv_arr_iff.mp h).1 (Val.equiv_arr_iff.mp h).2
     ((Val.WF_arr_iff _ _).mp w).2.2⟩

/-- non-vacuity, with `N := Int`: the dictionaries `[a=1, b=2]` and `[b=2, a=1]` behind a one
    element sequence part are related and well-formed, so the theorems apply … -/
example :
    let x : Val Int := .arr [.num 7] [(.str str% "a", .num 1), (.str str% "b", .num 2)]
    let y : Val Int := .arr [.num 7] [(.str str% "b", .num 2), (.str str% "a", .num 1)]
    x ≈ y ∧ x.WF ∧ y.display = x.display ∧ Val.equals x y = Val.equals y y
    ∧ VRel Eq (Val.join x none) (Val.join y none) := by
  intro x y
  have h : x ≈ y := C10_perm_equiv _ _ _ (List.Perm.swap _ _ _)
  have w : x.WF := by simp [x, Val.WF, Val.WFList, Val.WFDict]
  exact ⟨h, w, (C10_display x y h).symm, (C10_equals x y y y h (Val.Equiv.refl y) (Val.WF_congr h w)).1,
    C10_join x y none none h trivial w⟩

/-- … and evaluated independently (kernel; `List.mergeSort` is replaced by the sorted permutation
    first): both orders display and print the same, are equal both ways (arrays are not ordered:
    `compare` is the `InvalidComparison` error). -/
example :
    let x : Val Int := .arr [.num 7] [(.str str% "a", .num 1), (.str str% "b", .num 2)]
    let y : Val Int := .arr [.num 7] [(.str str% "b", .num 2), (.str str% "a", .num 1)]
    x.display = str% "[7, \"a\": 1, \"b\": 2]" ∧ y.display = str% "[7, \"a\": 1, \"b\": 2]"
    ∧ Val.equals x y = true ∧ Val.equals y x = true
    ∧ (Val.compare x y).isErr = true ∧ x.outputText = str% "1" ∧ y.outputText = str% "1" := by
  intro x y
  have e1 : sortStrs (Val.displayDict [(.str str% "a", (.num 1 : Val Int)), (.str str% "b", .num 2)])
      = [str% "\"a\": 1", str% "\"b\": 2"] :=
    sortStrs_eq_of_sorted (by decide +kernel) (by decide +kernel)
  have e2 : sortStrs (Val.displayDict [(.str str% "b", (.num 2 : Val Int)), (.str str% "a", .num 1)])
      = [str% "\"a\": 1", str% "\"b\": 2"] :=
    sortStrs_eq_of_sorted (by decide +kernel) (by decide +kernel)
  refine ⟨?_, ?_, by decide +kernel, by decide +kernel, by decide +kernel, by decide +kernel,
    by decide +kernel⟩
  · simp only [x, Val.display, e1]; decide +kernel
  · simp only [y, Val.display, e2]; decide +kernel

/-- `join` of two orders of a string-valued dictionary with keys `"a"` and `null`: the rendered
    keys are `"a"` and `null`, the quote sorts first, so both give `x-y`. -/
example :
    let p : Val Int := .arr [] [(.str str% "a", .str str% "x"), (.null, .str str% "y")]
    let q : Val Int := .arr [] [(.null, .str str% "y"), (.str str% "a", .str str% "x")]
    Val.okStr? (Val.join p (some (.str str% "-"))) = some str% "x-y"
    ∧ Val.okStr? (Val.join q (some (.str str% "-"))) = some str% "x-y" := by
  intro p q
  have e1 : Val.dictValuesSorted [(.str str% "a", (.str str% "x" : Val Int)), (.null, .str str% "y")]
      = [.str str% "x", .str str% "y"] :=
    Val.dictValuesSorted_eq_of_sorted (d' := [(.str str% "a", .str str% "x"), (.null, .str str% "y")])
      (by decide +kernel) (.refl _) (by decide)
  have e2 : Val.dictValuesSorted [(.null, (.str str% "y" : Val Int)), (.str str% "a", .str str% "x")]
      = [.str str% "x", .str str% "y"] :=
    Val.dictValuesSorted_eq_of_sorted (d' := [(.str str% "a", .str str% "x"), (.null, .str str% "y")])
      (by decide +kernel) (.swap _ _ _) (by decide)
  constructor
  · simp only [p, Val.join, Val.valIter, e1]; decide +kernel
  · simp only [q, Val.join, Val.valIter, e2]; decide +kernel

/-- Distinct keys are necessary: with a repeated key, lookup by key sees the order. -/
example :
    let x : Val Int := .arr [] [(.null, .num 1), (.null, .num 2)]
    let y : Val Int := .arr [] [(.null, .num 2), (.null, .num 1)]
    x ≈ y ∧ Val.index x .null = .ok (.num 1) ∧ Val.index y .null = .ok (.num 2) :=
  ⟨C10_perm_equiv _ _ _ (List.Perm.swap _ _ _), rfl, rfl⟩

/-! ## 2. Every value-producing operation maps `≈` to `≈` -/

/-- Reading an element (by position, or by key in a dictionary with distinct keys). -/
theorem C10_index (v v' k k' : Val N) (h : v ≈ v') (hk : k ≈ k') (w : v.WF) :
    VRel (· ≈ ·) (Val.index v k) (Val.index v' k') :=
  Val.index_congr h hk w

/-- Lookup and insertion by key in `≈`-related dictionaries with distinct keys. -/
theorem C10_dict (s s' : List (Val N)) (d d' : List (Key × Val N))
    (h : Val.arr s d ≈ Val.arr s' d') (w : (Val.arr s d).WF) (k : Key) :
    OptRel (· ≈ ·) (Val.dlookup k d) (Val.dlookup k d')
    ∧ ∀ c c' : Val N, c ≈ c' → Val.arr s (Val.dset k c d) ≈ Val.arr s' (Val.dset k c' d') := by
  have hn := ((Val.WF_arr_iff _ _).mp w).2.2
  obtain ⟨hs, hd⟩ := Val.equiv_arr_iff.mp h
  exact ⟨Val.dlookup_dictEquiv hd hn k,
    fun c c' hc => Val.equiv_arr_iff.mpr ⟨hs, Val.dset_congr hd hn k hc⟩⟩

/-- The write path (`index_or_insert` along a list of subscripts, then a closure on the cell):
    `≈`-related values, subscripts and closures give `≈`-related updated values and related
    results — also when the update fails half-way (what stays is related). -/
theorem C10_updateAt {β β' : Type} (Rb : β → β' → Prop) (cap : Nat)
    (f : Val N → VRes N (Val N × β)) (f' : Val N → VRes N (Val N × β'))
    (hf : ∀ c c', c ≈ c' → c.WF → VRel (fun p p' => p.1 ≈ p'.1 ∧ Rb p.2 p'.2) (f c) (f' c'))
    (ks ks' : List (Val N)) (hks : All₂ (· ≈ ·) ks ks') (v v' : Val N) (h : v ≈ v') (w : v.WF) :
    (Val.updateAt cap f ks v).1 ≈ (Val.updateAt cap f' ks' v').1
    ∧ VRel Rb (Val.updateAt cap f ks v).2 (Val.updateAt cap f' ks' v').2 :=
  Val.updateAt_congr cap hf hks v v' h w

/-- non-vacuity of `C10_updateAt`: the closure of a plain assignment satisfies the hypothesis,
    and a concrete update through a key of two differently ordered dictionaries. -/
example (x : Val N) :
    ∀ c c' : Val N, c ≈ c' → c.WF →
      VRel (fun p p' => p.1 ≈ p'.1 ∧ p.2 = p'.2)
        ((fun _ => .ok (x, ())) c : VRes N (Val N × Unit)) ((fun _ => .ok (x, ())) c') :=
  fun _ _ _ _ => ⟨Val.Equiv.refl x, rfl⟩

example :
    (Val.updateAt 100 (fun _ => .ok (.num 9, ())) [.str str% "a"]
      (.arr [] [(.str str% "a", .num 1), (.str str% "b", .num 2)] : Val Int)).1
      = .arr [] [(.str str% "a", .num 9), (.str str% "b", .num 2)]
    ∧ (Val.updateAt 100 (fun _ => .ok (.num 9, ())) [.str str% "a"]
      (.arr [] [(.str str% "b", .num 2), (.str str% "a", .num 1)] : Val Int)).1
      = .arr [] [(.str str% "b", .num 2), (.str str% "a", .num 9)] :=
  ⟨rfl, rfl⟩

/-- `push` (rock) and `pop` (roll). -/
theorem C10_push_pop (a b : Val N) (vs vs' : List (Val N)) (h : a ≈ b) (hv : All₂ (· ≈ ·) vs vs') :
    VRel (· ≈ ·) (Val.push a vs) (Val.push b vs')
    ∧ VRel (fun p q => p.1 ≈ q.1 ∧ p.2 ≈ q.2) (Val.pop a) (Val.pop b) :=
  ⟨Val.push_congr h hv, Val.pop_congr h⟩

/-- Arithmetic lets arrays decay to the length of their sequence part and never looks at a
    dictionary: `+ − × ÷` give EQUAL results. -/
theorem C10_arith (cap : Nat) (a a' b b' : Val N) (ha : a ≈ a') (hb : b ≈ b') :
    Val.plus cap a b = Val.plus cap a' b' ∧ Val.subtract a b = Val.subtract a' b'
    ∧ Val.multiply cap a b = Val.multiply cap a' b' ∧ Val.divide a b = Val.divide a' b' :=
  ⟨Val.plus_congr cap ha hb, Val.subtract_congr ha hb, Val.multiply_congr cap ha hb,
   Val.divide_congr ha hb⟩

/-- `split`, `cast`, `join` (as a value-producing operation), increment/decrement, negation,
    rounding, `decay`, `array_coerce`: related arguments (and related optional parameters) give
    related results or related errors. -/
theorem C10_unary (a b : Val N) (p p' : Option (Val N)) (h : a ≈ b) (hp : OptRel (· ≈ ·) p p') :
    VRel (· ≈ ·) (Val.split a p) (Val.split b p')
    ∧ VRel (· ≈ ·) (Val.cast a p) (Val.cast b p')
    ∧ (a.WF → VRel (· ≈ ·) (Val.join a p) (Val.join b p'))
    ∧ (∀ x : Int, VRel (· ≈ ·) (Val.inc a x) (Val.inc b x))
    ∧ VRel (· ≈ ·) (Val.negate a) (Val.negate b)
    ∧ VRel (· ≈ ·) (Val.roundUp a) (Val.roundUp b)
    ∧ VRel (· ≈ ·) (Val.roundDown a) (Val.roundDown b)
    ∧ VRel (· ≈ ·) (Val.roundNearest a) (Val.roundNearest b)
    ∧ a.decay ≈ b.decay ∧ Val.arrayCoerce a ≈ Val.arrayCoerce b :=
  ⟨Val.split_congr h hp, Val.cast_congr h hp, Val.join_congr h hp, fun x => Val.inc_congr x h,
   Val.negate_congr h, Val.roundUp_congr h, Val.roundDown_congr h, Val.roundNearest_congr h,
   Val.equiv_decay h, Val.arrayCoerce_congr h⟩

/-- non-vacuity of the hypotheses used above: related optional parameters exist (absent, or
    two differently ordered arrays). -/
example :
    OptRel (· ≈ ·) (none : Option (Val Int)) none
    ∧ OptRel (· ≈ ·) (some (.arr [] [(.null, .num 1), (.undef, .num 2)] : Val Int))
        (some (.arr [] [(.undef, .num 2), (.null, .num 1)])) :=
  ⟨trivial, C10_perm_equiv _ _ _ (List.Perm.swap _ _ _)⟩

end

/-! ## 3. Lifting to environments and whole runs -/

section
variable [CharOps] {N : Type} [NumOps N]
open Interp

/-- `C10.EnvRel env env'`, spelled out: the two environments have scope stacks of the same
    height; scope by scope, the left scope has distinct keys and the right scope is a
    *permutation* of a scope that binds the same keys, in the same order, to related entries —
    variables to `≈`-related values (the left one with distinct keys at every depth), functions
    to the same parameters and body; pronoun, input, output, fault settings and budgets are
    equal.  This is "the same environment up to the iteration order of every hash table in it":
    the symbol tables and every dictionary at every depth. -/
theorem C10_envRel_def (e e' : Env N) :
    C10.EnvRel e e' ↔
      All₂ (fun s s' : Scope N =>
          (s.map Prod.fst).Nodup ∧
          ∃ s'', List.Perm s'' s' ∧
            All₂ (fun a b : VarName × Entry N => a.1 = b.1 ∧
              match a.2, b.2 with
              | .var v, .var v' => v ≈ v' ∧ v.WF
              | .func ps body, .func ps' body' => ps = ps' ∧ body = body'
              | _, _ => False) s s'')
        e.scopes e'.scopes
      ∧ e.last = e'.last ∧ e.input = e'.input ∧ e.handed = e'.handed ∧ e.readFault = e'.readFault
      ∧ e.out = e'.out ∧ e.wbudget = e'.wbudget ∧ e.steps = e'.steps ∧ e.cap = e'.cap :=
  Iff.rfl

/-- `C10.observe`: what a run shows to the outside — the bytes written and how it ended
    (success; class name and message of the error; crash site; model budget exhausted). -/
theorem C10_observe_def (r : Outcome (RtErr N) Unit × Env N) :
    C10.observe r =
      (r.2.out,
       match r.1 with
       | .ok _ => .ok ()
       | .err x => .err (x.className, x.render)
       | .crash s => .crash s
       | .fuel => .fuel
       | .resource => .resource) :=
  rfl

/-- **Determinism of whole runs.**  Run the same program with the same fuel from two
    environments that are the same up to the iteration order of every hash table (symbol tables
    and dictionaries, at every depth): the two runs write exactly the same bytes, end the same
    way — success, or the same error class with the same message, or the same crash site, or
    the same exhausted budget — and leave environments that are again the same up to hash-table
    order.  Hence whatever order a `HashMap` yields at any point of a run, output, outcome and
    messages are the same. -/
theorem C10_exec (fuel : Nat) (p : Program N) (env env' : Env N) (h : C10.EnvRel env env') :
    C10.observe (execProgram fuel p env) = C10.observe (execProgram fuel p env')
    ∧ C10.EnvRel (execProgram fuel p env).2 (execProgram fuel p env').2 :=
  ⟨C10.observe_eq_of_orel (C10.mrel_execProgram fuel p env env' h),
   (C10.mrel_execProgram fuel p env env' h).2⟩

/-- The relational vocabulary used below, spelled out.  `C10.VR v v'`: `v ≈ v'` and `v` has
    distinct keys at every depth.  `C10.StRel`: same control-flow flag, related pending return
    values.  `C10.MRel R m m'`: started in related environments, the two computations end with
    the same kind of outcome — results related by `R`, errors by `≈`, equal crash sites — and
    leave related environments. -/
theorem C10_mrel_def {α α' : Type} (R : α → α' → Prop) (m : M N α) (m' : M N α') :
    (∀ v v' : Val N, C10.VR v v' ↔ v ≈ v' ∧ v.WF)
    ∧ (∀ st st' : ExecSt N, C10.StRel st st' ↔ st.flag = st'.flag ∧ OptRel C10.VR st.ret st'.ret)
    ∧ (C10.MRel R m m' ↔ ∀ e e', C10.EnvRel e e' →
        (match (m e).1, (m' e').1 with
          | .ok a, .ok a' => R a a'
          | .err x, .err x' => x ≈ x'
          | .crash s, .crash s' => s = s'
          | .fuel, .fuel => True
          | .resource, .resource => True
          | _, _ => False)
        ∧ C10.EnvRel (m e).2 (m' e').2) :=
  ⟨fun _ _ => Iff.rfl, fun _ _ => Iff.rfl, Iff.rfl⟩

/-- The same for every entry point of the interpreter at every fuel: expressions evaluate to
    `≈`-related values (or fail / crash / run out the same way) and leave related environments;
    statements likewise. -/
theorem C10_interp (n : Nat) :
    (∀ e : Expr N, C10.MRel C10.VR ((interp n).evalExpr e) ((interp n).evalExpr e))
    ∧ (∀ (s : Stmt N) (st st' : ExecSt N), C10.StRel st st' →
        C10.MRel C10.StRel ((interp n).execStmt s st) ((interp n).execStmt s st')) :=
  ⟨(C10.recOK_interp n).evalExpr, (C10.recOK_interp n).execStmt⟩

/-- `EnvRel` relates an environment to itself exactly when it is well-formed (distinct keys in
    every scope and in every dictionary of every variable); in particular every initial
    environment (one empty scope, any input and fault settings) is related to itself, and
    well-formedness is preserved by running a program. -/
theorem C10_envRel_refl (e : Env N) :
    (C10.EnvRel e e ↔ C10.EnvWF e)
    ∧ (e.scopes = [[]] → C10.EnvRel e e)
    ∧ (C10.EnvWF e → ∀ fuel (p : Program N), C10.EnvWF (execProgram fuel p e).2) := by
  refine ⟨C10.envRel_refl_iff e, fun h => (C10.envRel_refl_iff e).mpr ?_, fun h fuel p => ?_⟩
  · intro s hs
    rw [h] at hs
    simp only [List.mem_singleton] at hs
    subst hs
    exact ⟨by simp, by simp⟩
  · have := (C10_exec fuel p e e ((C10.envRel_refl_iff e).mpr h)).2
    exact (C10.envRel_refl_iff _).mp this

end

/-- non-vacuity (`N := Int`, the Unicode tables generated from Rust's std as `CharOps`): the
    environment `x = [|"a"=1, "b"=2]`, `y = 5` and the one that lists both the symbol table and
    the dictionary the other way round are related, and the program `say X at "a"; say y;
    say X is x` prints `1`, `5`, `true` from both — evaluated by the kernel. -/
example :
    C10.EnvRel C10.exEnvA C10.exEnvB
    ∧ (Interp.execProgram 10 C10.exProg C10.exEnvA).2.out = [49, 10, 53, 10, 116, 114, 117, 101, 10]
    ∧ (Interp.execProgram 10 C10.exProg C10.exEnvB).2.out = [49, 10, 53, 10, 116, 114, 117, 101, 10] := by
  refine ⟨C10.exEnv_rel, ?_, ?_⟩ <;> decide +kernel

/-! ## 4. Symbol tables are only ever accessed by key -/

section
variable {N : Type}

/-- A scope (`SymTable`, three `HashMap`s in the code, one association list keyed by the
    lower-cased name in the model) is read with `slookup` and written with `sset` and nothing
    else — `Rrss/Env.lean` and `Rrss/Interp.lean` contain no other function that takes a
    `Scope` apart.  Both are insensitive to the order in which a scope with distinct keys
    lists its entries: lookup gives the same entry, insertion gives a permutation of the same
    scope, again with distinct keys.  (`C10_exec` above is the consequence for whole runs: its
    environment relation lets every scope be listed in any order.) -/
theorem C10_scope_by_key (s s' : Scope N) (hp : List.Perm s s') (hn : (s.map Prod.fst).Nodup)
    (k : VarName) (e : Entry N) :
    Env.slookup k s = Env.slookup k s'
    ∧ List.Perm (Env.sset k e s) (Env.sset k e s')
    ∧ ((Env.sset k e s).map Prod.fst).Nodup :=
  ⟨slookup_perm hp hn k, sset_perm hp hn k e, sset_nodup k e hn⟩

/-- non-vacuity: two orders of a two-variable scope. -/
example :
    let s : Scope Int := [(.simple str% "x", .var (.num 1)), (.simple str% "y", .var (.num 2))]
    let s' : Scope Int := [(.simple str% "y", .var (.num 2)), (.simple str% "x", .var (.num 1))]
    List.Perm s s' ∧ (s.map Prod.fst).Nodup := by
  refine ⟨List.Perm.swap _ _ _, ?_⟩
  decide

/-! ## 5. The lint report is a function of the program -/

/-- `Lint.run` involves no dictionary at all (its type mentions no `Val`; diagnostics are built
    by two traversals of the syntax tree and concatenated), so the only ordering question is
    `postprocess`: it returns the diagnostics sorted by line (`List.mergeSort`, a stable sort, as
    `sort_by_key` in the code), i.e. a permutation of its input, ascending in the line, in which
    the diagnostics of any one line keep their relative order — that determines the result
    uniquely from the list. -/
theorem C10_lint_order (ds : List Diag) :
    (Lint.postprocess ds).Perm ds
    ∧ (Lint.postprocess ds).Pairwise (fun a b => a.line ≤ b.line)
    ∧ ∀ n, (Lint.postprocess ds).filter (fun d => d.line == n) = ds.filter (fun d => d.line == n) :=
  ⟨postprocess_perm ds, postprocess_sorted ds, postprocess_stable ds⟩

/-- concrete evaluation: two diagnostics on line 3 stay in order behind the one on line 1. -/
example :
    Lint.postprocess [⟨str% "a", [], 3⟩, ⟨str% "b", [], 1⟩, ⟨str% "c", [], 3⟩]
      = [⟨str% "b", [], 1⟩, ⟨str% "a", [], 3⟩, ⟨str% "c", [], 3⟩] := by
  simp [Lint.postprocess, List.mergeSort, List.MergeSort.Internal.splitInTwo]

end
end Rrss
