/-
  C08 — input and output happen once each, in program order, and I/O faults are errors.
-/
import Rrss.Lemmas.IOTrace
import Rrss.Lemmas.IOFault
import Rrss.Lemmas.FlowExamples
namespace Rrss
namespace C08
open Env Interp

variable {N : Type} [NumOps N]

/- the examples run over exact integers and a trivial character classification
   (`Rrss.Lemmas.FlowExamples`) -/
open FlowExamples
attribute [local instance] exChars

/-! ## C08.1 — one `say`, one line; one `listen`, one line -/

/-- `say e` (with a step left in the budget): once `e` has evaluated to `v`, the statement appends
    exactly the canonical text of `v` and one `\n` to the output when the writer accepts that many
    bytes (any budget is reduced by exactly that many bytes); nothing else changes after the
    evaluation of `e`, and the control state is untouched. -/
theorem say_writes_one_line [CharOps] (rec : Rec N) (e : Expr N) (st : ExecSt N) (env env1 : Env N) (s : Nat)
    (v : Val N) (hsteps : env.steps = s + 1)
    (hev : rec.evalExpr e { env with steps := s } = (.ok v, env1))
    (hfit : ∀ k, env1.wbudget = some k → (utf8 v.outputText ++ [10]).length ≤ k) :
    execStmt rec (.output e) st env =
      (.ok st, { env1 with out := env1.out ++ utf8 v.outputText ++ [10],
                           wbudget := env1.wbudget.map (· - (utf8 v.outputText ++ [10]).length) }) := by
  unfold execStmt
  simp only [bind, M.bind, tick, hsteps, hev, M.liftV, Val.toOutput_eq, output]
  cases hw : env1.wbudget with
  | none => simp [pure, M.pure]
  | some k =>
    have h := hfit k hw
    simp only [List.length_append, List.length_singleton] at h
    simp [pure, M.pure, h]

/- `say 5` with room for exactly the two bytes `5\n` -/
example : execStmt (interp 2) (.output (num 5)) {} { e0 with wbudget := some 2 } =
    (.ok {}, { e0 with steps := 99999, out := [53, 10], wbudget := some 0 }) :=
  say_writes_one_line (interp 2) (num 5) {} { e0 with wbudget := some 2 }
    { e0 with wbudget := some 2, steps := 99999 } 99999 (.num 5) rfl rfl
    (by intro k h; cases h; decide +kernel)

/-- `say e` against a writer that accepts only `k` more bytes, `k` less than the line: the
    statement ends with the I/O error, exactly the first `k` bytes of the line have been written,
    and the writer is dead (budget 0). -/
theorem say_write_fault [CharOps] (rec : Rec N) (e : Expr N) (st : ExecSt N) (env env1 : Env N) (s k : Nat)
    (v : Val N) (hsteps : env.steps = s + 1)
    (hev : rec.evalExpr e { env with steps := s } = (.ok v, env1))
    (hw : env1.wbudget = some k) (hk : k < (utf8 v.outputText ++ [10]).length) :
    execStmt rec (.output e) st env =
      (.err writeFaultErr,
       { env1 with out := env1.out ++ (utf8 v.outputText ++ [10]).take k, wbudget := some 0 }) := by
  unfold execStmt
  simp only [bind, M.bind, tick, hsteps, hev, M.liftV, Val.toOutput_eq, output, hw]
  simp only [List.length_append, List.length_singleton] at hk
  simp [Nat.not_le.mpr hk]

/- `say 5` with room for one byte only: `5` is written, then the error -/
example : execStmt (interp 2) (.output (num 5)) {} { e0 with wbudget := some 1 } =
    (.err writeFaultErr, { e0 with steps := 99999, out := [53], wbudget := some 0 }) :=
  say_write_fault (interp 2) (num 5) {} { e0 with wbudget := some 1 }
    { e0 with wbudget := some 1, steps := 99999 } 99999 1 (.num 5) rfl rfl rfl (by decide +kernel)

/-- `listen` without destination, input not exhausted, reader not failing at this line: exactly
    the first line and its terminator are removed from the input, the line counter goes up by
    one, nothing else happens (beyond the step tick). -/
theorem listen_consumes_one_line [CharOps] (rec : Rec N) (loc : Loc) (st : ExecSt N) (env : Env N) (s : Nat)
    (hsteps : env.steps = s + 1) (hne : env.input ≠ [])
    (hnf : env.readFault ≠ some env.handed) :
    execStmt rec (.input none loc) st env =
      (.ok st, { env with steps := s, input := (takeLine env.input).2, handed := env.handed + 1 }) := by
  unfold execStmt
  simp only [bind, M.bind, tick, hsteps, inputLine]
  split <;> simp_all [pure, M.pure]

example : execStmt (interp 2) (.input none ⟨0, 0⟩) {} { e0 with input := str% "ab\ncd" } =
    (.ok {}, { e0 with steps := 99999, input := str% "cd", handed := 1 }) :=
  listen_consumes_one_line (interp 2) ⟨0, 0⟩ {} { e0 with input := str% "ab\ncd" } 99999 rfl
    (by decide) (by decide)

/-- `listen to d`, same situation: the statement behaves exactly like the assignment
    `d says <line>` (a string value, the line without its terminator) executed in the
    environment from which exactly that line has been consumed. -/
theorem listen_stores_line [CharOps] (rec : Rec N) (d : Lhs N) (loc : Loc) (st : ExecSt N) (env : Env N)
    (s : Nat) (hsteps : env.steps = s + 1) (hne : env.input ≠ [])
    (hnf : env.readFault ≠ some env.handed) :
    execStmt rec (.input (some d) loc) st env =
      execStmt rec (.poeticStr d (takeLine env.input).1) st
        { env with input := (takeLine env.input).2, handed := env.handed + 1 } := by
  unfold execStmt
  simp only [bind, M.bind, tick, hsteps, inputLine]
  split <;> simp_all

/- `listen to x` on input `ab\ncd` is `x says ab` with `cd` left; afterwards `x` holds the
   string `ab` -/
example : execStmt (interp 2) (.input (some (.ident (.var x) r0)) ⟨0, 0⟩) {}
      { e0 with input := str% "ab\ncd" } =
    execStmt (interp 2) (.poeticStr (.ident (.var x) r0) (str% "ab")) {}
      { e0 with input := str% "cd", handed := 1 } :=
  listen_stores_line (interp 2) _ ⟨0, 0⟩ {} { e0 with input := str% "ab\ncd" } 99999 rfl
    (by decide) (by decide)
example : (match lookupVarIn x (execStmt (interp 2) (.input (some (.ident (.var x) r0)) ⟨0, 0⟩) {}
      { e0 with input := str% "ab\ncd" }).2.scopes with
    | .ok (.str s) => s == str% "ab" | _ => false) = true := by decide +kernel

/-- `listen to x` for a variable `x`: whenever the statement completes, `x` holds the STRING that is
    the first line of the input without its terminator (the empty string at end of input, where
    `takeLine [] = ([], [])`), whatever `x` held before and whatever the line looks like (digits
    are not converted). -/
theorem listen_to_variable_stores_string [CharOps] (rec : Rec N) (x : VarName) (r : Range)
    (loc : Loc) (st st' : ExecSt N) (env env' : Env N)
    (h : execStmt rec (.input (some (.ident (.var x) r)) loc) st env = (.ok st', env')) :
    lookupVarIn x env'.scopes = .ok (.str (takeLine env.input).1) := by
  unfold execStmt at h
  simp only [bind, M.bind, tick] at h
  cases hs : env.steps with
  | zero => simp [hs] at h
  | succ s =>
    simp only [hs, inputLine] at h
    cases hi : env.input with
    | nil =>
      simp only [hi] at h
      show lookupVarIn x env'.scopes = .ok (.str [])
      split at h
      · rename_i a e2 heq
        simp only [pure, M.pure, Prod.mk.injEq] at h
        rw [← h.2]; exact fatal_assign_var_ok _ x r _ e2 a heq
      all_goals simp at h
    | cons c cs =>
      simp only [hi] at h
      by_cases hrf : env.readFault = some env.handed
      · simp [hrf] at h
      · simp only [hrf, if_false] at h
        split at h
        · rename_i a e2 heq
          simp only [pure, M.pure, Prod.mk.injEq] at h
          rw [← h.2]; exact fatal_assign_var_ok _ x r _ e2 a heq
        all_goals simp at h

example : lookupVarIn x (execStmt (interp 2) (.input (some (.ident (.var x) r0)) ⟨0, 0⟩) {}
      { e0 with input := str% "12\ncd" }).2.scopes = .ok (.str (str% "12")) :=
  listen_to_variable_stores_string (interp 2) x r0 ⟨0, 0⟩ {} {} { e0 with input := str% "12\ncd" } _ rfl

/-- `listen` at end of input: nothing is consumed, the line is the empty string (with a
    destination: exactly the assignment of `""`). -/
theorem listen_at_eof [CharOps] (rec : Rec N) (loc : Loc) (st : ExecSt N) (env : Env N) (s : Nat)
    (hsteps : env.steps = s + 1) (heof : env.input = []) :
    execStmt rec (.input none loc) st env = (.ok st, { env with steps := s }) ∧
    ∀ d, execStmt rec (.input (some d) loc) st env = execStmt rec (.poeticStr d []) st env := by
  constructor
  · unfold execStmt
    simp [bind, M.bind, tick, hsteps, inputLine, heof, pure, M.pure]
  · intro d
    unfold execStmt
    simp [bind, M.bind, tick, hsteps, inputLine, heof]

example : execStmt (interp 2) (.input none ⟨0, 0⟩) {} e0 = (.ok {}, { e0 with steps := 99999 }) :=
  (listen_at_eof (interp 2) ⟨0, 0⟩ {} e0 99999 rfl rfl).1

/-- `listen` (with or without destination) when the reader fails at this line: the I/O error,
    and nothing is consumed or stored. -/
theorem listen_read_fault [CharOps] (rec : Rec N) (d : Option (Lhs N)) (loc : Loc) (st : ExecSt N)
    (env : Env N) (s : Nat) (hsteps : env.steps = s + 1) (hne : env.input ≠ [])
    (hf : env.readFault = some env.handed) :
    execStmt rec (.input d loc) st env = (.err readFaultErr, { env with steps := s }) := by
  unfold execStmt
  simp only [bind, M.bind, tick, hsteps, inputLine]
  split <;> simp_all

example : execStmt (interp 2) (.input none ⟨0, 0⟩) {}
      { e0 with input := str% "ab", readFault := some 0 } =
    (.err readFaultErr, { e0 with input := str% "ab", readFault := some 0, steps := 99999 }) :=
  listen_read_fault (interp 2) none ⟨0, 0⟩ {} { e0 with input := str% "ab", readFault := some 0 }
    99999 rfl (by decide) rfl

omit [NumOps N] in
/-- what "one line" is: everything up to the first `\n`, which is dropped; -/
theorem takeLine_terminated (l r : Str) (hl : '\n' ∉ l) : takeLine (l ++ '\n' :: r) = (l, r) := by
  induction l with
  | nil => simp [takeLine]
  | cons c cs ih =>
    have hc : c ≠ '\n' := fun h => hl (by simp [h])
    have hcs : '\n' ∉ cs := fun h => hl (by simp [h])
    simp [takeLine, hc, ih hcs]

example : takeLine (str% "ab\n\ncd") = (str% "ab", str% "\ncd") :=
  takeLine_terminated (str% "ab") (str% "\ncd") (by decide)

omit [NumOps N] in
/-- … or the whole rest when the last line has no terminator. -/
theorem takeLine_unterminated (l : Str) (hl : '\n' ∉ l) : takeLine l = (l, []) := by
  induction l with
  | nil => simp [takeLine]
  | cons c cs ih =>
    have hc : c ≠ '\n' := fun h => hl (by simp [h])
    have hcs : '\n' ∉ cs := fun h => hl (by simp [h])
    simp [takeLine, hc, ih hcs]

example : takeLine (str% "cd") = (str% "cd", []) := takeLine_unterminated (str% "cd") (by decide)

/-! ## C08.2 — monotonicity of the channels -/

/-- For every entry point of the interpreter at every fuel, every start environment and every
    outcome (ok, error, crash, out of budget): the output before is a prefix of the output
    after, the number of lines handed out does not decrease, and the unread input after is a
    suffix of the unread input before. (`Env.Le` adds: the reader fault position is unchanged and
    `out.length + wbudget` is constant.) -/
theorem io_monotone [CharOps] (n : Nat) (env : Env N) :
    (∀ e, Env.Le env ((interp n).evalExpr e env).2) ∧
    (∀ p, Env.Le env ((interp n).evalPrimary p env).2) ∧
    (∀ w e, Env.Le env ((interp n).writeExpr w e env).2) ∧
    (∀ w p, Env.Le env ((interp n).writePrimary w p env).2) ∧
    (∀ s st, Env.Le env ((interp n).execStmt s st env).2) ∧
    (∀ ss st, Env.Le env (execStmts (interp n) ss st env).2) ∧
    (∀ bs st, Env.Le env (execBlocks (interp n) bs st env).2) ∧
    (∀ p, Env.Le env (execProgram n p env).2) :=
  have h := interp_steps (N := N) n
  ⟨fun e => (h.evalExpr e).le env, fun p => (h.evalPrimary p).le env,
   fun w e => (h.writeExpr w e).le env, fun w p => (h.writePrimary w p).le env,
   fun s st => (h.execStmt s st).le env, fun ss st => (execStmts_steps h ss st).le env,
   fun bs st => (execBlocks_steps h bs st).le env, fun p => (execProgram_steps n p).le env⟩

/-- C08.2 for a whole program run, spelled out. -/
theorem io_monotone_program [CharOps] (n : Nat) (p : Program N) (env : Env N) :
    env.out <+: (execProgram n p env).2.out ∧
    env.handed ≤ (execProgram n p env).2.handed ∧
    (execProgram n p env).2.input <:+ env.input :=
  have h := (execProgram_steps n p).le env
  ⟨h.out, h.handed, h.input⟩

/-- Exact accounting for a whole run (any outcome). The input left at the end is the input at the
    start minus exactly as many lines (with their terminators) as the line counter went up — one
    per `listen` that found input —, and against a writer that never fails what was appended to
    the output is a sequence of whole lines `text ++ "\n"` — one per `say`. -/
theorem io_exact_accounting [CharOps] (n : Nat) (p : Program N) (env : Env N) :
    (execProgram n p env).2.input =
      dropLines ((execProgram n p env).2.handed - env.handed) env.input ∧
    (env.wbudget = none →
      ∃ texts : List Str, (execProgram n p env).2.out = env.out ++ linesBytes texts) :=
  have h := (execProgram_steps n p).le env
  ⟨h.consumed, h.lines⟩

/- `echo` on `ab\n\ncd`: three lines consumed, two whole lines written -/
example : (execProgram 10 echo { e0 with input := str% "ab\n\ncd" }).2.handed = 3 ∧
    dropLines 3 (str% "ab\n\ncd") = [] ∧
    (execProgram 10 echo { e0 with input := str% "ab\n\ncd" }).2.out =
      linesBytes [str% "ab", str% "cd"] := by decide +kernel

/-! ## C08.3 — a failing writer: the fault prefix theorem -/

/-- Run a program from `env0` once with a writer that never fails and once with a writer that
    accepts `k` more bytes and then fails; let `T = env0.out.length + k` be the total the failing
    writer can hold and `e∞` the final environment of the fault-free run.

    (a) If the fault-free run writes no more than fits (`e∞.out.length ≤ T`), the budgeted run is
        the same run: same outcome, same final environment (output, input, line count, variables,
        step budget), with the unused budget `T - e∞.out.length` left.
    (b) Otherwise the budgeted run ends with the runtime error `io "verif write fault"` — an
        ordinary error, never a crash —, what it has written is exactly the first `T` bytes of the
        fault-free output (so everything written before the fault is intact and nothing is written
        after it), its writer is dead, and it has consumed a prefix of the input the fault-free run
        consumed (its unread input contains the other's as a suffix; no more lines handed out). -/
theorem write_fault_prefix [CharOps] (n : Nat) (p : Program N) (env0 : Env N) (k : Nat) :
    let run := fun w => execProgram n p { env0 with wbudget := w }
    let e := (run none).2
    let T := env0.out.length + k
    (e.out.length ≤ T →
      run (some k) = ((run none).1, { e with wbudget := some (T - e.out.length) })) ∧
    (T < e.out.length →
      (run (some k)).1 = .err writeFaultErr ∧
      (run (some k)).2.out = e.out.take T ∧
      (run (some k)).2.wbudget = some 0 ∧
      e.input <:+ (run (some k)).2.input ∧
      (run (some k)).2.handed ≤ e.handed) := by
  intro run e T
  have hS : (writeScenario T : Fault N).S { env0 with wbudget := some k } { env0 with wbudget := none } := by
    refine ⟨rfl, Nat.le_add_right _ _, ?_⟩
    show _ = { env0 with wbudget := some (env0.out.length + k - env0.out.length) }
    rw [Nat.add_sub_cancel_left]
  have hsim := (execProgram_sim (writeScenario_laws T) n p).sim _ _ hS
  constructor
  · intro hfit
    rcases hsim with ⟨hr, _, _, henv⟩ | ⟨⟨_, _, _, hlt, _⟩, _⟩
    · exact Prod.ext hr henv
    · exact absurd hlt (Nat.not_lt.mpr hfit)
  · intro hover
    rcases hsim with ⟨_, _, hle, _⟩ | ⟨⟨_, hw, hout, _, hin, hh⟩, hc⟩
    · exact absurd hover (Nat.not_lt.mpr hle)
    · refine ⟨?_, hout, hw, hin, hh⟩
      revert hc
      show Carry _ _ (run (some k)).1 → _
      cases (run (some k)).1 <;> simp [Carry, writeScenario]

/- `x = 0; while x < 5 { x++; say x; if x = 2 { if true { break } } }; say "done"` prints the nine
   bytes `1\n2\ndone\n`. With room for 3 bytes the run ends with the write fault having written
   `1\n2`; with room for 9 or more nothing changes. -/
example : (execProgram 10 loopBreak { e0 with wbudget := none }).2.out =
      [49, 10, 50, 10, 100, 111, 110, 101, 10] ∧
    (execProgram 10 loopBreak { e0 with wbudget := some 3 }).2.out = [49, 10, 50] ∧
    (execProgram 10 loopBreak { e0 with wbudget := some 3 }).1.isErr = true ∧
    (execProgram 10 loopBreak { e0 with wbudget := some 9 }).2.out =
      [49, 10, 50, 10, 100, 111, 110, 101, 10] ∧
    (execProgram 10 loopBreak { e0 with wbudget := some 9 }).1.isOk = true := by decide +kernel
example := (write_fault_prefix 10 loopBreak e0 3).2 (by decide +kernel)
example := (write_fault_prefix 10 loopBreak e0 9).1 (by decide +kernel)

/-- A writer fault never turns into a crash: if the budgeted run crashes, so does the fault-free
    run (at the same site). -/
theorem write_fault_no_new_crash [CharOps] (n : Nat) (p : Program N) (env0 : Env N) (k : Nat) (s : Site)
    (h : (execProgram n p { env0 with wbudget := some k }).1 = .crash s) :
    (execProgram n p { env0 with wbudget := none }).1 = .crash s := by
  have := write_fault_prefix n p env0 k
  simp only at this
  by_cases hfit : (execProgram n p { env0 with wbudget := none }).2.out.length ≤ env0.out.length + k
  · rw [this.1 hfit] at h; exact h
  · rw [(this.2 (Nat.lt_of_not_le hfit)).1] at h; cases h

/- (a run that crashes at all needs a start environment outside the interpreter's invariants,
   here an empty scope stack) -/
example : (match (execProgram 10 callThenError { e0 with scopes := [], wbudget := some 1 }).1 with
    | .crash .envNoScope => true | _ => false) = true := by decide +kernel

/-! ## C08.4 — a failing reader -/

/-- Run a program from `env0` (with at most `j` lines handed out so far) once with a reader that
    never fails and once with a reader that fails when asked for line number `j`; `e∞` is the
    final environment of the fault-free run.

    (a) If the fault-free run hands out at most `j` lines (line `j` is never requested while input
        is left), the two runs are the same: same outcome, same final environment.
    (b) Otherwise the faulty run ends with the runtime error `io "verif read fault"` — never a
        crash —, with exactly `j` lines handed out and the rest of the input still unread
        (non-empty; the fault-free run's unread input is a suffix of it minus the line in
        question), and what it has written is a prefix of the fault-free output. -/
theorem read_fault_prefix [CharOps] (n : Nat) (p : Program N) (env0 : Env N) (j : Nat)
    (h0 : env0.handed ≤ j) :
    let run := fun r => execProgram n p { env0 with readFault := r }
    let e := (run none).2
    (e.handed ≤ j → run (some j) = ((run none).1, { e with readFault := some j })) ∧
    (j < e.handed →
      (run (some j)).1 = .err readFaultErr ∧
      (run (some j)).2.out <+: e.out ∧
      (run (some j)).2.handed = j ∧
      (run (some j)).2.input ≠ [] ∧
      e.input <:+ (takeLine (run (some j)).2.input).2) := by
  intro run e
  have hS : (readScenario j : Fault N).S { env0 with readFault := some j } { env0 with readFault := none } :=
    ⟨rfl, h0, rfl⟩
  have hsim := (execProgram_sim (readScenario_laws j) n p).sim _ _ hS
  constructor
  · intro hfit
    rcases hsim with ⟨hr, _, _, henv⟩ | ⟨⟨_, _, _, hlt, _⟩, _⟩
    · exact Prod.ext hr henv
    · exact absurd hlt (Nat.not_lt.mpr hfit)
  · intro hover
    rcases hsim with ⟨_, _, hle, _⟩ | ⟨⟨_, hout, hh, _, hne, hin⟩, hc⟩
    · exact absurd hover (Nat.not_lt.mpr hle)
    · refine ⟨?_, hout, hh, hne, hin⟩
      revert hc
      show Carry _ _ (run (some j)).1 → _
      cases (run (some j)).1 <;> simp [Carry, readScenario]

/- `listen to x; say x; listen; listen to x; say x` on input `ab\n\ncd` prints `ab\ncd\n` and reads
   three lines. With a reader failing at line 1 the run ends with the read fault after `ab\n`, one
   line handed out, `\ncd` unread; with a reader failing at line 3 nothing changes. -/
example : (execProgram 10 echo { e0 with input := str% "ab\n\ncd", readFault := none }).2.out =
      [97, 98, 10, 99, 100, 10] ∧
    (execProgram 10 echo { e0 with input := str% "ab\n\ncd", readFault := none }).2.handed = 3 ∧
    (execProgram 10 echo { e0 with input := str% "ab\n\ncd", readFault := some 1 }).2.out =
      [97, 98, 10] ∧
    (execProgram 10 echo { e0 with input := str% "ab\n\ncd", readFault := some 1 }).2.input =
      str% "\ncd" ∧
    (execProgram 10 echo { e0 with input := str% "ab\n\ncd", readFault := some 1 }).1.isErr = true ∧
    (execProgram 10 echo { e0 with input := str% "ab\n\ncd", readFault := some 3 }).1.isOk = true := by
  decide +kernel
example := (read_fault_prefix 10 echo { e0 with input := str% "ab\n\ncd" } 1 (by decide)).2
  (by decide +kernel)
example := (read_fault_prefix 10 echo { e0 with input := str% "ab\n\ncd" } 3 (by decide)).1
  (by decide +kernel)

end C08
end Rrss
