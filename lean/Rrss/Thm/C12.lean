/-
  Rrss.Thm.C12 — property C12: tokens carry their exact spelling and true source position.
  All statements are about `toks`, the result of `lexAll kw src` (ALL raw tokens, comments
  included), for an arbitrary source text `src` shorter than 4 GiB, an arbitrary keyword table
  `kw`, arbitrary Unicode tables `[CharOps]` and number type `[NumOps N]`.
  `Spec.trueLoc src off` (Rrss/Spec/SourcePos.lean) is the independent definition of the true
  position of a byte offset: (1 + line feeds before it, bytes since the last line feed).
  The position statements (c), (d) need one fact about the Unicode tables, taken as hypothesis
  `hnl : CharOps.isWhitespace '\n' = true` (true of Rust's `char::is_whitespace`; checked below
  for the generated tables); without it a line feed could hide inside an error token.
  (Helper lemmas: Rrss/Lemmas/Lexer{Bytes,Scan,Delim,Dispatch,Inv,Tiling,C12,Eval}.lean.)
-/
import Rrss.Lemmas.LexerC12
import Rrss.Lemmas.LexerEval
import Rrss.CharsImpl
namespace Rrss
namespace Thm
namespace C12
open Lexer Spec

section
variable {N : Type} [CharOps] [NumOps N]

/-- **C12 (a) exact spelling.** Every token's spelling is exactly the slice of the source that
    starts at the token's byte offset and is as long as the spelling (in particular the span is in
    bounds and on character boundaries), and it is not empty. -/
theorem spelling_exact {kw : List (Str × TK)} {src : Str} {toks : List (Tok N)}
    (hlen : ulen src < 2 ^ 32) (h : lexAll kw src = .ok toks) :
    ∀ t ∈ toks, substr src t.start (t.start + ulen t.spelling) = some t.spelling ∧
      t.spelling ≠ [] :=
  c12_spelling hlen h

example : ∃ toks : List (Tok Int), toks.map view = exViews ∧
    ∀ t ∈ toks, substr exSrc t.start (t.start + ulen t.spelling) = some t.spelling ∧
      t.spelling ≠ [] := by
  obtain ⟨toks, h, hv⟩ := exSrc_lexes
  exact ⟨toks, hv, @spelling_exact Int asciiOps numOpsInt _ _ _ (by decide) h⟩

/-- **C12 (a') order, no overlap.** Any token ends (start + byte length of its spelling) at or
    before the start of every later token — in particular for consecutive tokens, a staged
    `'s`/`'re` suffix and its host included. -/
theorem ordered {kw : List (Str × TK)} {src : Str} {toks : List (Tok N)}
    (hlen : ulen src < 2 ^ 32) (h : lexAll kw src = .ok toks) :
    toks.Pairwise (fun t u => t.start + ulen t.spelling ≤ u.start) :=
  c12_order hlen h

example : ∃ toks : List (Tok Int), toks.map view = exViews ∧
    toks.Pairwise (fun t u => t.start + ulen t.spelling ≤ u.start) := by
  obtain ⟨toks, h, hv⟩ := exSrc_lexes
  exact ⟨toks, hv, @ordered Int asciiOps numOpsInt _ _ _ (by decide) h⟩

/-- **C12 (b) gaps are ignorable.** Every character `c` of the source (at byte offset `ulen p`,
    `src = p ++ c :: q`) that lies outside all token spans is ignorable white space (white space
    other than a line feed), ignorable punctuation, or an apostrophe. -/
theorem gaps_ignorable {kw : List (Str × TK)} {src : Str} {toks : List (Tok N)}
    (hlen : ulen src < 2 ^ 32) (h : lexAll kw src = .ok toks) :
    ∀ (p q : Str) (c : Char), src = p ++ c :: q →
      (∀ t ∈ toks, ¬ (t.start ≤ ulen p ∧ ulen p < t.start + ulen t.spelling)) →
      isIgnorableWhitespace c = true ∨ isIgnorablePunctuation c = true ∨ c = '\'' :=
  c12_gaps hlen h

example : ∃ toks : List (Tok Int), toks.map view = exViews ∧
    ∀ (p q : Str) (c : Char), exSrc = p ++ c :: q →
      (∀ t ∈ toks, ¬ (t.start ≤ ulen p ∧ ulen p < t.start + ulen t.spelling)) →
      @isIgnorableWhitespace asciiOps c = true ∨ isIgnorablePunctuation c = true ∨ c = '\'' := by
  obtain ⟨toks, h, hv⟩ := exSrc_lexes
  exact ⟨toks, hv, @gaps_ignorable Int asciiOps numOpsInt _ _ _ (by decide) h⟩

/-- **C12 (b), consequence.** Every line feed of the source lies inside the span of a token (a
    `Newline` token, a string literal, a comment, or an error token running to the end). -/
theorem newlines_in_tokens {kw : List (Str × TK)} {src : Str} {toks : List (Tok N)}
    (hlen : ulen src < 2 ^ 32) (h : lexAll kw src = .ok toks) :
    ∀ (p q : Str), src = p ++ '\n' :: q →
      ∃ t ∈ toks, t.start ≤ ulen p ∧ ulen p < t.start + ulen t.spelling :=
  c12_newlines_covered hlen h

/-- non-vacuity of (b): in the example text the line feed at offset 6 is inside the string literal
    (token at offset 4, 5 bytes) — the hypotheses are met with `p` = the first 6 bytes. -/
example : ∃ toks : List (Tok Int), toks.map view = exViews ∧
    ∃ t ∈ toks, t.start ≤ 6 ∧ 6 < t.start + ulen t.spelling := by
  obtain ⟨toks, h, hv⟩ := exSrc_lexes
  exact ⟨toks, hv, @newlines_in_tokens Int asciiOps numOpsInt _ _ _ (by decide) h
    (str% "say \"a") (str% "b\"'s 3\nfoo1 it's we''") (by decide)⟩

/-- **C12 (c) true start position.** Every token's reported start (line, byte column) is the true
    position of its byte offset: 1 + the number of line feeds before it, and the number of bytes
    since the last of them — also for a `'s`/`'re` suffix staged after a multi-line string. -/
theorem start_pos_true {kw : List (Str × TK)} {src : Str} {toks : List (Tok N)}
    (hlen : ulen src < 2 ^ 32) (hnl : CharOps.isWhitespace '\n' = true)
    (h : lexAll kw src = .ok toks) :
    ∀ t ∈ toks, t.range.start = trueLoc src t.start :=
  c12_start_pos hlen hnl h

example : ∃ toks : List (Tok Int), toks.map view = exViews ∧
    ∀ t ∈ toks, t.range.start = trueLoc exSrc t.start := by
  obtain ⟨toks, h, hv⟩ := exSrc_lexes
  exact ⟨toks, hv, @start_pos_true Int asciiOps numOpsInt _ _ _ (by decide) (by decide) h⟩

/-- the hypothesis `hnl` holds for the Unicode tables generated from the Rust std -/
example : @CharOps.isWhitespace charOpsImpl '\n' = true := by decide +kernel

/-- **C12 (d) true end position.** The reported end of every token other than a line break is the
    true position of the byte offset right after the token (this includes unterminated
    strings/comments that end in a line feed, for which that position is the start of the next
    line); a line-break token `(l,c)` ends at `(l,c+1)`. -/
theorem stop_pos_true {kw : List (Str × TK)} {src : Str} {toks : List (Tok N)}
    (hlen : ulen src < 2 ^ 32) (hnl : CharOps.isWhitespace '\n' = true)
    (h : lexAll kw src = .ok toks) :
    ∀ t ∈ toks,
      (t.spelling ≠ ['\n'] → t.range.stop = trueLoc src (t.start + ulen t.spelling)) ∧
      (t.spelling = ['\n'] →
        t.range.stop = ⟨(trueLoc src t.start).line, (trueLoc src t.start).col + 1⟩) :=
  c12_stop_pos hlen hnl h

example : ∃ toks : List (Tok Int), toks.map view = exViews ∧
    ∀ t ∈ toks,
      (t.spelling ≠ ['\n'] → t.range.stop = trueLoc exSrc (t.start + ulen t.spelling)) ∧
      (t.spelling = ['\n'] →
        t.range.stop = ⟨(trueLoc exSrc t.start).line, (trueLoc exSrc t.start).col + 1⟩) := by
  obtain ⟨toks, h, hv⟩ := exSrc_lexes
  exact ⟨toks, hv, @stop_pos_true Int asciiOps numOpsInt _ _ _ (by decide) (by decide) h⟩

/-- **C12 (d), in the words of the property.** For every token whose last character is not a line
    feed, the reported end is on the true line of that last character, one character width past
    its true column (= stop offset − start offset of that line). -/
theorem stop_pos_last_char {kw : List (Str × TK)} {src : Str} {toks : List (Tok N)}
    (hlen : ulen src < 2 ^ 32) (hnl : CharOps.isWhitespace '\n' = true)
    (h : lexAll kw src = .ok toks) :
    ∀ t ∈ toks, ∀ (init : Str) (last : Char), t.spelling = init ++ [last] → last ≠ '\n' →
      t.range.stop = ⟨(trueLoc src (t.start + ulen init)).line,
                      (trueLoc src (t.start + ulen init)).col + last.utf8Size⟩ :=
  c12_stop_pos_last_char hlen hnl h

example : ∃ toks : List (Tok Int), toks.map view = exViews ∧
    ∀ t ∈ toks, ∀ (init : Str) (last : Char), t.spelling = init ++ [last] → last ≠ '\n' →
      t.range.stop = ⟨(trueLoc exSrc (t.start + ulen init)).line,
                      (trueLoc exSrc (t.start + ulen init)).col + last.utf8Size⟩ := by
  obtain ⟨toks, h, hv⟩ := exSrc_lexes
  exact ⟨toks, hv, @stop_pos_last_char Int asciiOps numOpsInt _ _ _ (by decide) (by decide) h⟩

/-- **C12, position of the lexer after a token.** The line and column that `current_loc` reports
    right after a token was returned (from the snapshot `Tok.after`) are the true position of the
    snapshot's byte index (the start of a pending staged suffix, else the next unconsumed
    character, else the end of input) — also after multi-line strings and comments. -/
theorem snapshot_pos_true {kw : List (Str × TK)} {src : Str} {toks : List (Tok N)}
    (hlen : ulen src < 2 ^ 32) (hnl : CharOps.isWhitespace '\n' = true)
    (h : lexAll kw src = .ok toks) :
    ∀ t ∈ toks, (⟨t.after.line, t.after.idx - t.after.lineStart⟩ : Loc) =
      trueLoc src t.after.idx :=
  c12_snapshot_pos hlen hnl h

example : ∃ toks : List (Tok Int), toks.map view = exViews ∧
    ∀ t ∈ toks, (⟨t.after.line, t.after.idx - t.after.lineStart⟩ : Loc) =
      trueLoc exSrc t.after.idx := by
  obtain ⟨toks, h, hv⟩ := exSrc_lexes
  exact ⟨toks, hv, @snapshot_pos_true Int asciiOps numOpsInt _ _ _ (by decide) (by decide) h⟩

/-- a token spelled as a single line feed is a `Newline` token (for any keyword table) -/
theorem newline_spelling_kind {kw : List (Str × TK)} {src : Str} {toks : List (Tok N)}
    (hlen : ulen src < 2 ^ 32) (h : lexAll kw src = .ok toks) :
    ∀ t ∈ toks, t.spelling = ['\n'] → t.kind = .newline :=
  c12_newline_spelling_kind hlen h

example : ∃ toks : List (Tok Int), toks.map view = exViews ∧
    ∀ t ∈ toks, t.spelling = ['\n'] → t.kind = .newline := by
  obtain ⟨toks, h, hv⟩ := exSrc_lexes
  exact ⟨toks, hv, @newline_spelling_kind Int asciiOps numOpsInt _ _ _ (by decide) h⟩

/-- **C12 payloads.** If the keyword table does not map words to the kinds `Newline`, `Number`,
    `StringLiteral`, `Comment` (the real table does not): string literals and comments carry as
    `text` their spelling minus the delimiters, numbers carry `parse spelling` (which succeeded),
    and the `Newline` tokens are exactly the tokens spelled as a single line feed. -/
theorem payloads {kw : List (Str × TK)} {src : Str} {toks : List (Tok N)}
    (hlen : ulen src < 2 ^ 32) (h : lexAll kw src = .ok toks)
    (hkw : ∀ e ∈ kw, e.2 ≠ .newline ∧ e.2 ≠ .number ∧ e.2 ≠ .stringLit ∧ e.2 ≠ .comment) :
    ∀ t ∈ toks,
      (t.kind = .stringLit → t.spelling = '"' :: (t.text ++ ['"'])) ∧
      (t.kind = .comment → t.spelling = '(' :: (t.text ++ [')'])) ∧
      (t.kind = .number → t.num = NumOps.parse t.spelling ∧ t.num.isSome = true) ∧
      (t.kind = .newline ↔ t.spelling = ['\n']) :=
  c12_payloads hlen h hkw

/-- non-vacuity: the transcribed `KEYWORDS` table meets `hkw` -/
example : ∀ e ∈ defaultKeywords,
    e.2 ≠ .newline ∧ e.2 ≠ .number ∧ e.2 ≠ .stringLit ∧ e.2 ≠ .comment := by decide +kernel

example : ∃ toks : List (Tok Int), toks.map view = exViews ∧
    ∀ t ∈ toks,
      (t.kind = .stringLit → t.spelling = '"' :: (t.text ++ ['"'])) ∧
      (t.kind = .comment → t.spelling = '(' :: (t.text ++ [')'])) ∧
      (t.kind = .number → t.num = parseIntStr t.spelling ∧ t.num.isSome = true) ∧
      (t.kind = .newline ↔ t.spelling = ['\n']) := by
  obtain ⟨toks, h, hv⟩ := exSrc_lexes
  exact ⟨toks, hv, @payloads Int asciiOps numOpsInt _ _ _ (by decide) h (by decide +kernel)⟩

end

/-- **C12 (e1).** `SourceRange::new` is normalised: start ≤ end. -/
theorem range_new_normalized (s e : Loc) :
    (Range.new s e).start.le (Range.new s e).stop = true :=
  Lexer.Range.new_normalized s e

/-- **C12 (e2).** `concat` of two normalised ranges is normalised and starts at the smaller of the
    two starts (which is ≤ both). -/
theorem range_concat_normalized (a b : Range) (ha : a.start.le a.stop = true)
    (hb : b.start.le b.stop = true) :
    (a.concat b).start.le (a.concat b).stop = true ∧
    (a.concat b).start = (if a.start.le b.start then a.start else b.start) ∧
    (a.concat b).start.le a.start = true ∧ (a.concat b).start.le b.start = true :=
  Lexer.Range.concat_normalized a b ha hb

/-- non-vacuity: the string literal and its suffix of the example text -/
example : (⟨⟨1, 4⟩, ⟨2, 2⟩⟩ : Range).start.le (⟨⟨1, 4⟩, ⟨2, 2⟩⟩ : Range).stop = true ∧
    (⟨⟨2, 2⟩, ⟨2, 4⟩⟩ : Range).start.le (⟨⟨2, 2⟩, ⟨2, 4⟩⟩ : Range).stop = true ∧
    (⟨⟨1, 4⟩, ⟨2, 2⟩⟩ : Range).concat ⟨⟨2, 2⟩, ⟨2, 4⟩⟩ = ⟨⟨1, 4⟩, ⟨2, 4⟩⟩ := by decide

/-- **C12 (e3).** `range.to(loc)` of a normalised range is normalised and starts at or before
    both the range's start and `loc`. -/
theorem range_to_normalized (a : Range) (l : Loc) (ha : a.start.le a.stop = true) :
    (a.to l).start.le (a.to l).stop = true ∧
    (a.to l).start.le a.start = true ∧ (a.to l).start.le l = true := by
  have h := Lexer.Range.concat_normalized a (Range.new l l) ha (Lexer.Range.new_normalized l l)
  have hl : (Range.new l l).start = l := by simp [Range.new]
  exact ⟨h.1, h.2.2.1, by simpa [Range.to, hl] using h.2.2.2⟩

example : (⟨⟨1, 4⟩, ⟨2, 2⟩⟩ : Range).start.le (⟨⟨1, 4⟩, ⟨2, 2⟩⟩ : Range).stop = true ∧
    (⟨⟨1, 4⟩, ⟨2, 2⟩⟩ : Range).to ⟨3, 1⟩ = ⟨⟨1, 4⟩, ⟨3, 1⟩⟩ := by decide

end C12
end Thm
end Rrss
