/-
  Rrss.Fold — the two constant folders (mirrors src/analysis/tools.rs).
-/
import Rrss.Num
import Rrss.Ast
import Rrss.Poetic
namespace Rrss

/-- `ConstantFoldingError` -/
inductive FoldErr | noType | unknownValue | wrongType | needMoreInfo | possibleValueIgnored
  deriving DecidableEq, Repr, Inhabited

namespace Fold
variable {N : Type} [NumOps N]
open NumOps

def arith? (op : BinOp) : Option (N → N → N)
  := match op with
  | .plus => some add
  | .minus => some sub
  | .multiply => some mul
  | .divide => some div
  | _ => none

mutual
/-- `NumericConstantFolder::visit_primary_expression` -/
def numPrimary : Primary N → Except FoldErr N
  | .lit (.num x) _ => .ok x
  | .lit _ _ => .error .wrongType
  | .ident _ _ => .error .unknownValue
  | .sub _ _ => .error .unknownValue
  -- default `visit_function_call`: the name is visited first and fails
  | .call _ _ _ => .error .unknownValue
  | .pop _ => .error .unknownValue
/-- `NumericConstantFolder::visit_expression` -/
def numExpr : Expr N → Except FoldErr N
  | .prim p => numPrimary p
  | .bin op lhs first rest =>
    match numExpr lhs with
    | .error e => .error e
    | .ok l =>
      match arith? op with
      | none => .error .wrongType
      | some f =>
        -- `numFold f l (first :: rest)`, first step unfolded (structural recursion)
        match numExpr first with
        | .error err => .error err
        | .ok b => numFold f (f l b) rest
  | .un op e =>
    match numExpr e with
    | .error err => .error err
    | .ok x =>
      match op with
      | .minus => .ok (neg x)
      | .not => .error .wrongType
/-- `rhs.try_fold(lhs, op)` -/
def numFold (f : N → N → N) : N → List (Expr N) → Except FoldErr N
  | a, [] => .ok a
  | a, e :: es =>
    match numExpr e with
    | .error err => .error err
    | .ok b => numFold f (f a b) es
end

/-- `NumericConstantFolder::visit_expression_list` (top-level list) -/
def numList (l : ExprList N) : Except FoldErr N :=
  if l.rest.isEmpty then numExpr l.first else .error .needMoreInfo

/-- `SimpleStringConstantFolder::visit_expression` -/
def strExpr : Expr N → Except FoldErr Str
  | .prim (.lit (.str s) _) => .ok s
  | .prim (.lit _ _) => .error .wrongType
  | .prim (.ident _ _) => .error .unknownValue
  | .prim (.sub _ _) => .error .unknownValue
  | .prim (.call _ _ _) => .error .unknownValue
  | .prim (.pop _) => .error .unknownValue
  | .bin _ _ _ _ => .error .possibleValueIgnored
  | .un _ _ => .error .wrongType

def strList (l : ExprList N) : Except FoldErr Str :=
  if l.rest.isEmpty then strExpr l.first else .error .needMoreInfo

end Fold
end Rrss
