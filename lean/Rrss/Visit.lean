/-
  Rrss.Visit — the expression-visiting runner (mirrors src/analysis/visit.rs:
  the default methods of `VisitExpr`, and `ExprVisitorRunner`'s `VisitProgram`).

  A visitor written against the public traits is modelled by its callbacks:
  * `leaf`  — the leaf callbacks (operators, literals, pronoun, the three identifier kinds,
              poetic elements); the trait default returns `Ok(Default::default())`;
  * `pre`   — the pure-dispatch methods, overridden as "record, then re-dispatch";
  * `varName` — optional override of `visit_variable_name` that does not re-dispatch
              (used by the repeated-identifier lint); its flag says whether the name is the
              callee of a function call.
  The composite methods are the traversal below; they are what C16 is about.
-/
import Rrss.Ast
namespace Rrss

/-- leaf callbacks -/
inductive Leaf (N : Type)
  | binOp (o : BinOp)
  | unOp (o : UnOp)
  | lit (l : Lit N)
  | pronoun
  | simple (s : Str)
  | common (p w : Str)
  | proper (ws : List Str)
  | pelem (e : PoeticElem)

/-- pure-dispatch methods -/
inductive Disp
  | expr        -- visit_expression
  | primary     -- visit_primary_expression
  | ident       -- visit_identifier
  | varName     -- visit_variable_name
  | lhs         -- visit_assignment_lhs
  | rhs         -- visit_assignment_rhs
  | poeticRhs   -- visit_poetic_number_assignment_rhs
  | pushRhs     -- visit_array_push_rhs
  | popExpr     -- visit_array_pop_expr
  deriving DecidableEq, Repr

/-- visitor monad: state survives an error (so that what was visited can be inspected) -/
def VM (σ E α : Type) := σ → Except E α × σ

namespace VM
variable {σ E α β : Type}
@[inline] def pure (a : α) : VM σ E α := fun s => (.ok a, s)
@[inline] def bind (x : VM σ E α) (f : α → VM σ E β) : VM σ E β := fun s =>
  match x s with
  | (.ok a, s') => f a s'
  | (.error e, s') => (.error e, s')
instance : Monad (VM σ E) where
  pure := VM.pure
  bind := VM.bind
end VM

structure Visitor (N σ Out E : Type) where
  dflt : Out
  combine : Out → Out → Out
  leaf : Leaf N → Range → VM σ E Out
  pre : Disp → VM σ E Unit
  varName : Option (Bool → VarName → Range → VM σ E Out) := none

namespace Walk
variable {N σ Out E : Type} (v : Visitor N σ Out E)

/-- `visit_variable_name` (dispatch to the three identifier kinds) -/
def varName (inCall : Bool) (n : VarName) (r : Range) : VM σ E Out :=
  match v.varName with
  | some f => f inCall n r
  | none => do
    v.pre .varName
    match n with
    | .simple s => v.leaf (.simple s) r
    | .common p w => v.leaf (.common p w) r
    | .proper ws => v.leaf (.proper ws) r

/-- `visit_identifier` -/
def ident (i : Ident) (r : Range) : VM σ E Out := do
  v.pre .ident
  match i with
  | .var n => varName v false n r
  | .pronoun => v.leaf .pronoun r

/-- `combine_all` over poetic literal elements -/
def poeticElems : List PoeticElem → Out → VM σ E Out
  | [], acc => pure acc
  | e :: es, acc => do
    let o ← v.leaf (.pelem e) default
    poeticElems es (v.combine acc o)

mutual
/-- `visit_primary_expression` -/
def primary : Primary N → VM σ E Out
  | .lit l r => do v.pre .primary; v.leaf (.lit l) r
  | .ident i r => do v.pre .primary; ident v i r
  | .sub arr idx => do
    v.pre .primary
    let a ← primary arr
    let i ← primary idx
    pure (v.combine a i)
  | .call name r args => do
    v.pre .primary
    let n ← varName v true name r
    exprs args (v.combine v.dflt n)
  | .pop arr => do
    v.pre .primary
    v.pre .popExpr
    primary arr
/-- `visit_expression` -/
def expr : Expr N → VM σ E Out
  | .prim p => do v.pre .expr; primary p
  | .bin op lhs first rest => do
    v.pre .expr
    let l ← expr lhs
    let o ← v.leaf (.binOp op) default
    let f ← expr first
    let list ← exprs rest (v.combine v.dflt f)
    pure (v.combine (v.combine l o) list)
  | .un op e => do
    v.pre .expr
    let o ← v.leaf (.unOp op) default
    let x ← expr e
    pure (v.combine o x)
/-- `combine_all` over expressions, continuing from `acc` -/
def exprs : List (Expr N) → Out → VM σ E Out
  | [], acc => pure acc
  | e :: es, acc => do
    let o ← expr e
    exprs es (v.combine acc o)
end

/-- `visit_expression_list` -/
def exprList (l : ExprList N) : VM σ E Out := do
  let f ← expr v l.first
  exprs v l.rest (v.combine v.dflt f)

/-- `visit_function_call` (statement form and expression form share it) -/
def call (name : VarName) (r : Range) (args : List (Expr N)) : VM σ E Out := do
  let n ← varName v true name r
  exprs v args (v.combine v.dflt n)

/-- `visit_assignment_lhs` -/
def lhs : Lhs N → VM σ E Out
  | .ident i r => do v.pre .lhs; ident v i r
  | .sub arr idx => do
    v.pre .lhs
    let a ← primary v arr
    let i ← primary v idx
    pure (v.combine a i)

def optLhs : Option (Lhs N) → VM σ E Out
  | none => pure v.dflt
  | some l => lhs v l

def poeticLit (elems : List PoeticElem) : VM σ E Out := poeticElems v elems v.dflt

def params : List (VarName × Range) → Out → VM σ E Out
  | [], acc => pure acc
  | (n, r) :: ps, acc => do
    let o ← varName v false n r
    params ps (v.combine acc o)

mutual
/-- `ExprVisitorRunner`'s `visit_statement` and the methods it dispatches to -/
def stmt : Stmt N → VM σ E Out
  | .assign dest op value => do
    let d ← lhs v dest
    let o ← (match op with
      | none => pure v.dflt
      | some o => v.leaf (.binOp o) default)
    v.pre .rhs
    let r ← exprList v value
    pure (v.combine (v.combine d o) r)
  | .poeticNum dest rhs => do
    let d ← lhs v dest
    v.pre .poeticRhs
    let r ← (match rhs with
      | .expr e => expr v e
      | .lit elems => poeticLit v elems)
    pure (v.combine d r)
  | .poeticStr dest _ => lhs v dest
  | .ifS cond thenB elseB => do
    let c ← expr v cond
    let t ← block thenB
    let e ← (match elseB with
      | none => pure v.dflt
      | some b => block b)
    pure (v.combine (v.combine c t) e)
  | .whileS cond body => do
    let c ← expr v cond
    let b ← block body
    pure (v.combine c b)
  | .untilS cond body => do
    let c ← expr v cond
    let b ← block body
    pure (v.combine c b)
  | .inc dest r _ => ident v dest r
  | .dec dest r _ => ident v dest r
  | .input dest _ => optLhs v dest
  | .output value => expr v value
  | .mutation _ operand dest param => do
    -- `visit_mutation_operator` is the runner's own leaf: Default
    let p ← primary v operand
    let d ← optLhs v dest
    let q ← (match param with
      | none => pure v.dflt
      | some e => expr v e)
    pure (v.combine (v.combine (v.combine v.dflt p) d) q)
  | .rounding _ operand => do
    let e ← expr v operand
    pure (v.combine v.dflt e)
  | .continue_ _ => pure v.dflt
  | .break_ _ => pure v.dflt
  | .push arr value => do
    let a ← primary v arr
    let r ← (match value with
      | none => pure v.dflt
      | some (.list l) => do v.pre .pushRhs; exprList v l
      | some (.lit elems) => do v.pre .pushRhs; poeticLit v elems)
    pure (v.combine a r)
  | .pop arr dest => do
    v.pre .popExpr
    let a ← primary v arr
    let d ← optLhs v dest
    pure (v.combine a d)
  | .ret value => expr v value
  | .func name r ps body => do
    let n ← varName v false name r
    let p ← params v ps v.dflt
    let b ← block body
    pure (v.combine n (v.combine p b))
  | .call name r args => call v name r args
/-- `visit_block` -/
def block : Block N → VM σ E Out
  | .mk _ ss => stmts ss v.dflt
/-- `combine_all` over statements -/
def stmts : List (Stmt N) → Out → VM σ E Out
  | [], acc => pure acc
  | s :: ss, acc => do
    let o ← stmt s
    stmts ss (v.combine acc o)
end

def blocks : List (Block N) → Out → VM σ E Out
  | [], acc => pure acc
  | b :: bs, acc => do
    let o ← block v b
    blocks bs (v.combine acc o)

/-- `visit_program` -/
def program (p : Program N) : VM σ E Out := blocks v p.code v.dflt

end Walk

/-! ### the recording visitor of the correspondence check (and of theorem C16) -/

inductive Event (N : Type)
  | leaf (l : Leaf N)
  | disp (d : Disp)

structure RecState (N : Type) where
  log : List (Event N) := []     -- reversed
  count : Nat := 0
  failAt : Option Nat := none

/-- record the event; invocation number `failAt` returns `Err(failAt)` -/
def recordEvent {N α} (ev : Event N) (a : Nat → α) : VM (RecState N) Nat α := fun s =>
  let i := s.count
  let s' := { s with log := ev :: s.log, count := i + 1 }
  if s.failAt = some i then (.error i, s') else (.ok (a i), s')

def recorder (N : Type) : Visitor N (RecState N) (List Nat) Nat where
  dflt := []
  combine := (· ++ ·)
  leaf l _ := recordEvent (.leaf l) fun i => [i]
  pre d := recordEvent (.disp d) fun _ => ()

end Rrss
