/-
  Rrss.TreeParse — reader of the syntax-tree s-expression of PROTOCOL.md (inverse of
  `Rrss.Dump.program`). Line protocol only; never used in theorems.

  Accepted: exactly what the printers print (single spaces, lowercase hex), every position
  `@L:C` / `@L1:C1-L2:C2` optional (a missing one is 0:0 / 0:0-0:0), and every tree the `Ast`
  types can hold whether or not the parser builds it (`(proper)`, `(proper x41)`, `(args)`,
  `(plit -)`, any bit pattern in `(num …)`, `(block)` as an else branch, …). Not representable,
  hence rejected: an empty `(list)` (`ExprList` / `Expr.bin` have a `first`), a block that is both
  positioned and non-empty. As in the library (`SourceRange::new`), a reversed range is swapped;
  line/column must be below 2^32 and inc/dec amounts within `isize`. The value field of
  `(plit V elem*)` is redundant (the printer recomputes it): it must be BITS, `crash` or `-`.
-/
import Rrss.Basic
import Rrss.Num
import Rrss.Ast
namespace Rrss
namespace TreeParse

/-! ### generic s-expressions -/

inductive Sx
  | atom (s : Str)
  | list (xs : List Sx)
  deriving Inhabited

def atomChar (c : Char) : Bool := c != ' ' && c != '(' && c != ')'

mutual
/-- `item := atom | '(' ')' | '(' item (' ' item)* ')'` -/
partial def item : Str → Option (Sx × Str)
  | '(' :: ')' :: r => some (.list [], r)
  | '(' :: r => items r []
  | s =>
    let a := s.takeWhile atomChar
    if a.isEmpty then none else some (.atom a, s.drop a.length)
partial def items (s : Str) (acc : List Sx) : Option (Sx × Str) :=
  match item s with
  | some (x, ')' :: r) => some (.list (x :: acc).reverse, r)
  | some (x, ' ' :: r) => items r (x :: acc)
  | _ => none
end

def sexpr (s : Str) : Option Sx :=
  match item s with
  | some (x, []) => some x
  | _ => none

/-! ### atoms -/

def atom : Sx → Option String
  | .atom a => some (String.ofList a)
  | .list _ => none

/-- `(head part…)` → (head, parts) -/
def node : Sx → Option (String × List Sx)
  | .list (.atom h :: parts) => some (String.ofList h, parts)
  | _ => none

def digitsNat (s : Str) : Nat := s.foldl (fun n c => 10 * n + (c.toNat - 48)) 0

def allDigits (s : Str) : Bool := !s.isEmpty && s.all fun c => '0' ≤ c && c ≤ '9'

/-- decimal digits only, value below 2^32 -/
def number (s : Str) : Option Nat :=
  if allDigits s && digitsNat s < 4294967296 then some (digitsNat s) else none

/-- split at the first `c` -/
def splitOnce (c : Char) : Str → Option (Str × Str)
  | [] => none
  | d :: r =>
    if d == c then some ([], r)
    else match splitOnce c r with
      | some (a, b) => some (d :: a, b)
      | none => none

/-- `L:C` -/
def location (s : Str) : Option Loc := do
  let (l, c) ← splitOnce ':' s
  pure ⟨← number l, ← number c⟩

/-- `@L:C` -/
def loc : Sx → Option Loc
  | .atom ('@' :: s) => location s
  | _ => none

/-- `@L1:C1-L2:C2` -/
def range : Sx → Option Range
  | .atom ('@' :: s) => do
    let (a, b) ← splitOnce '-' s
    pure (Range.new (← location a) (← location b))
  | _ => none

/-- an optional leading range of `parts` -/
def optRange : List Sx → Option (Range × List Sx)
  | .atom ('@' :: s) :: rest => do pure (← range (.atom ('@' :: s)), rest)
  | parts => some (⟨⟨0, 0⟩, ⟨0, 0⟩⟩, parts)

def hexVal (c : Char) : Option Nat :=
  if '0' ≤ c && c ≤ '9' then some (c.toNat - 48)
  else if 'a' ≤ c && c ≤ 'f' then some (c.toNat - 87)
  else none

def bytesOfHex : Str → Option (List UInt8)
  | [] => some []
  | a :: b :: rest => do
    let x ← hexVal a
    let y ← hexVal b
    let r ← bytesOfHex rest
    pure (UInt8.ofNat (x * 16 + y) :: r)
  | _ => none

/-- `xHEX` (lowercase, valid UTF-8) -/
def text : Sx → Option Str
  | .atom ('x' :: h) => do
    let bs ← bytesOfHex h
    let s ← String.fromUTF8? (ByteArray.mk bs.toArray)
    pure s.toList
  | _ => none

/-- optional minus sign, decimal digits; must fit `isize` (64 bits) -/
def amount : Sx → Option Int
  | .atom ('-' :: d) =>
    if allDigits d && digitsNat d ≤ 9223372036854775808 then some (-(Int.ofNat (digitsNat d))) else none
  | .atom d =>
    if allDigits d && digitsNat d < 9223372036854775808 then some (Int.ofNat (digitsNat d)) else none
  | _ => none

def binOp (x : Sx) : Option BinOp :=
  match atom x with
  | some "plus" => some .plus | some "minus" => some .minus | some "multiply" => some .multiply
  | some "divide" => some .divide | some "and" => some .and | some "or" => some .or
  | some "nor" => some .nor | some "eq" => some .eq | some "noteq" => some .notEq
  | some "greater" => some .greater | some "greatereq" => some .greaterEq
  | some "less" => some .less | some "lesseq" => some .lessEq
  | _ => none

/-- `-` is `none` -/
def optional {α : Type} (x : Sx) (f : Sx → Option α) : Option (Option α) :=
  match x with
  | .atom ['-'] => some none
  | _ => (f x).map some

/-! ### names, expressions -/

def varName (x : Sx) : Option VarName :=
  match node x with
  | some ("simple", [w]) => do pure (.simple (← text w))
  | some ("common", [p, w]) => do pure (.common (← text p) (← text w))
  | some ("proper", ws) => do pure (.proper (← ws.mapM text))
  | _ => none

def ident : Sx → Option Ident
  | .atom a => if String.ofList a == "pronoun" then some .pronoun else none
  | x => (varName x).map .var

/-- `name [@range] rest…` -/
def rangedName : List Sx → Option (VarName × Range × List Sx)
  | n :: rest => do
    let v ← varName n
    let (r, rest') ← optRange rest
    pure (v, r, rest')
  | [] => none

/-- `ident [@range] rest…` -/
def rangedIdent : List Sx → Option (Ident × Range × List Sx)
  | i :: rest => do
    let v ← ident i
    let (r, rest') ← optRange rest
    pure (v, r, rest')
  | [] => none

def isBits (s : Str) : Bool := s.length == 16 && s.all fun c => (hexVal c).isSome

section
variable {N : Type} [NumBits N]

def lit (x : Sx) : Option (Lit N) :=
  match x with
  | .atom a =>
    match String.ofList a with
    | "mysterious" => some .mysterious
    | "null" => some .null
    | "true" => some (.bool true)
    | "false" => some (.bool false)
    | _ => none
  | _ =>
    match node x with
    | some ("num", [.atom b]) => if isBits b then (NumBits.ofBitsHex? b).map .num else none
    | some ("str", [s]) => (text s).map .str
    | _ => none

mutual
partial def primary (x : Sx) : Option (Primary N) :=
  match node x with
  | some ("lit", l :: rest) =>
    match optRange rest with
    | some (r, []) => (lit l).map fun v => .lit v r
    | _ => none
  | some ("id", parts) =>
    match rangedIdent parts with
    | some (i, r, []) => some (.ident i r)
    | _ => none
  | some ("sub", [a, i]) => do pure (.sub (← primary a) (← primary i))
  | some ("call", parts) =>
    match rangedName parts with
    | some (n, r, [args]) =>
      match node args with
      | some ("args", es) => do pure (.call n r (← exprs es))
      | _ => none
    | _ => none
  | some ("popx", [a]) => do pure (.pop (← primary a))
  | _ => none
partial def expr (x : Sx) : Option (Expr N) :=
  match node x with
  | some ("bin", [o, l, r]) =>
    match node r with
    | some ("list", f :: rest) => do pure (.bin (← binOp o) (← expr l) (← expr f) (← exprs rest))
    | _ => none
  | some ("un", [o, e]) =>
    match atom o with
    | some "minus" => do pure (.un .minus (← expr e))
    | some "not" => do pure (.un .not (← expr e))
    | _ => none
  | _ => (primary x).map .prim
partial def exprs (xs : List Sx) : Option (List (Expr N)) :=
  match xs with
  | [] => some []
  | x :: r => do pure ((← expr x) :: (← exprs r))
end

/-- `(list expr+)` -/
def exprList (x : Sx) : Option (ExprList N) :=
  match node x with
  | some ("list", f :: rest) => do pure ⟨← expr f, ← exprs rest⟩
  | _ => none

def lhs (x : Sx) : Option (Lhs N) :=
  match node x with
  | some ("lid", parts) =>
    match rangedIdent parts with
    | some (i, r, []) => some (.ident i r)
    | _ => none
  | some ("lsub", [a, i]) => do pure (.sub (← primary a) (← primary i))
  | _ => none

def poeticElem (x : Sx) : Option PoeticElem :=
  match x with
  | .atom a => if String.ofList a == "dot" then some .dot else none
  | _ =>
    match node x with
    | some ("w", [w]) => (text w).map .word
    | some ("s", [s]) => (text s).map .suffix
    | _ => none

/-- `(plit V elem*)`; V is checked for its shape only -/
def plit (x : Sx) : Option (List PoeticElem) :=
  match node x with
  | some ("plit", .atom v :: elems) =>
    if String.ofList v == "crash" || String.ofList v == "-" || isBits v then elems.mapM poeticElem else none
  | _ => none

def isNode (x : Sx) (head : String) : Bool :=
  match node x with
  | some (h, _) => h == head
  | none => false

def param : Sx → Option (VarName × Range)
  | .list parts =>
    match rangedName parts with
    | some (n, r, []) => some (n, r)
    | _ => none
  | .atom _ => none

/-! ### statements -/

mutual
partial def stmt (x : Sx) : Option (Stmt N) :=
  match node x with
  | some ("assign", [d, o, v]) => do pure (.assign (← lhs d) (← optional o binOp) (← exprList v))
  | some ("pnum", [d, r]) =>
    match node r with
    | some ("pexpr", [e]) => do pure (.poeticNum (← lhs d) (.expr (← expr e)))
    | _ => do pure (.poeticNum (← lhs d) (.lit (← plit r)))
  | some ("pstr", [d, s]) => do pure (.poeticStr (← lhs d) (← text s))
  | some ("if", [c, t, e]) => do pure (.ifS (← expr c) (← block t) (← optional e block))
  | some ("while", [c, b]) => do pure (.whileS (← expr c) (← block b))
  | some ("until", [c, b]) => do pure (.untilS (← expr c) (← block b))
  | some ("inc", parts) =>
    match rangedIdent parts with
    | some (i, r, [n]) => (amount n).map fun k => .inc i r k
    | _ => none
  | some ("dec", parts) =>
    match rangedIdent parts with
    | some (i, r, [n]) => (amount n).map fun k => .dec i r k
    | _ => none
  | some ("input", []) => some (.input none ⟨0, 0⟩)
  | some ("input", [.atom a]) => (loc (.atom a)).map fun l => .input none l
  | some ("input", [d]) => (lhs d).map fun l => .input (some l) default
  | some ("output", [e]) => (expr e).map .output
  | some ("mut", [o, operand, d, p]) => do
    let op ← match atom o with
      | some "cut" => some MutOp.cut
      | some "join" => some MutOp.join
      | some "cast" => some MutOp.cast
      | _ => none
    pure (.mutation op (← primary operand) (← optional d lhs) (← optional p expr))
  | some ("round", [d, e]) => do
    let dir ← match atom d with
      | some "up" => some RoundDir.up
      | some "down" => some RoundDir.down
      | some "nearest" => some RoundDir.nearest
      | _ => none
    pure (.rounding dir (← expr e))
  | some ("continue", parts) =>
    match optRange parts with
    | some (r, []) => some (.continue_ r)
    | _ => none
  | some ("break", parts) =>
    match optRange parts with
    | some (r, []) => some (.break_ r)
    | _ => none
  | some ("push", [a, v]) => do
    let rhs ← optional v fun v =>
      if isNode v "list" then (exprList v).map PushRhs.list else (plit v).map PushRhs.lit
    pure (.push (← primary a) rhs)
  | some ("pop", [a, d]) => do pure (.pop (← primary a) (← optional d lhs))
  | some ("return", [e]) => (expr e).map .ret
  | some ("func", parts) =>
    match rangedName parts with
    | some (n, r, [ps, body]) =>
      match node ps with
      | some ("params", ps) => do pure (.func n r (← ps.mapM param) (← block body))
      | _ => none
    | _ => none
  | some ("callstmt", parts) =>
    match rangedName parts with
    | some (n, r, [args]) =>
      match node args with
      | some ("args", es) => do pure (.call n r (← exprs es))
      | _ => none
    | _ => none
  | _ => none
/-- `(block)` | `(block @L:C)` | `(block stmt+)` -/
partial def block (x : Sx) : Option (Block N) :=
  match node x with
  | some ("block", []) => some (.mk ⟨0, 0⟩ [])
  | some ("block", [.atom a]) => (loc (.atom a)).map fun l => .mk l []
  | some ("block", ss) => (stmts ss).map fun l => .mk ⟨0, 0⟩ l
  | _ => none
partial def stmts (xs : List Sx) : Option (List (Stmt N)) :=
  match xs with
  | [] => some []
  | x :: r => do pure ((← stmt x) :: (← stmts r))
end

/-- the program of an s-expression; `none` if the text is not one -/
def program (s : Str) : Option (Program N) :=
  match (sexpr s).bind node with
  | some ("prog", bs) => (bs.mapM block).map fun l => ⟨l⟩
  | _ => none

end

end TreeParse
end Rrss
