/-
  Rrss.Basic — shared vocabulary of the model: texts, outcomes (crashes are values),
  source locations and ranges (mirrors src/frontend/source_range.rs).
  Core Lean only; no Mathlib (the driver links natively).
-/
namespace Rrss

/-- Texts are lists of Unicode scalar values (Rust `char` = Lean `Char`). -/
abbrev Str := List Char

open Lean in
/-- `str% "abc"` elaborates to the explicit list `['a', 'b', 'c']` (string literals and
    `String.toList` do not reduce in the kernel, explicit lists do). -/
macro:max "str%" s:str : term => do
  let elems := s.getString.toList.toArray.map fun c => (Syntax.mkCharLit c : TSyntax `term)
  `(([$elems,*] : List Char))

/-- UTF-8 length in bytes (how `CharIndices` numbers offsets). -/
def ulen : Str → Nat
  | [] => 0
  | c :: cs => c.utf8Size + ulen cs

/-- Every place where the Rust code can panic, trip a `debug_assert!`, overflow, or reach
    `unsafe` code with a violated precondition. Both build profiles: a site is a crash if it
    panics in debug *or* is UB / wrap-around in release. -/
inductive Site
  -- lexer.rs
  | lexSubstr            -- `substr` / `&buf[a..b]` / `get_unchecked` out of range or off a boundary
  | lexMakeLoc           -- `make_loc_from`: offset ≥ 2^32 or offset < line_start (`unwrap`)
  | lexCurrentLoc        -- `current_loc`: `idx as u32 - line_start` underflow
  | lexStagedIndex       -- `current_idx`: `get_start_index_of(staged).unwrap()`
  | lexWordEmpty         -- `find_word_type`: debug_assert!(!word.is_empty())
  | lexAdvance           -- `advance_to`: debug_assert!(is_char_boundary)
  | lexSubUnderflow      -- `end - len` (tokenize_word), `end - start` (scan_word, make_error_token): usize underflow
  -- parser.rs
  | parseConsume         -- `consume`: debug_assert / unwrap on a token we "know" is there
  | parseOpUnwrap        -- `get_binary_operator(..).unwrap()` etc.
  | parseTakeFirst       -- `take_first` on an empty vec
  | parseExtractRange    -- `AccumulatedRange::extract_unchecked` on None
  | parseCapFirstChar    -- `spelling.chars().next().unwrap()` on a Word
  | parseNegNumber       -- `is_current_negative_number`: unchecked_unwrap on empty
  | parsePoeticText      -- `parse_poetic_string_assignment_rhs`: `.unwrap()` of the text / strip_prefix
  | parseIspelled        -- `is_ispelled`: assert!(text all lowercase)
  | parsePushRhs         -- `parse_array_push_rhs`: unreachable_unchecked
  | blockLineEmpty       -- `Block::line` on NonEmpty(vec![])
  -- parser/display.rs
  | dispWriteList        -- `write_list`: assert!(len != 0)
  | dispUnexpectedToken  -- `UnexpectedToken` with a Line location: `tok.unwrap()`
  | dispExpectedId       -- `expected_id_description` on Identifier: unreachable!
  -- ast.rs
  | poeticLeadingSuffix  -- PoeticNumberLiteralIterator: `unreachable!()` on a leading WordSuffix
  | poeticSuffixUnwrap   -- greedily_match_suffixes unwraps
  -- exec
  | writeCreateVar       -- write_val.rs lookup_or_create!: unchecked_unwrap on DuplicateSymbol
  | emplaceAsVar         -- sym_table.rs emplace_var_impl: as_var_mut().unchecked_unwrap()
  | envNoScope           -- environment.rs `symbols.last_mut().unwrap()`
  | envPopScope          -- pop_scope: debug_assert!(symbols.len() > 1)
  | valIndexOverflow     -- val.rs index_arr_or_insert: `i + 1` overflow / unchecked_unwrap
  | valRadix             -- val.rs cast: from_str_radix with radix ∉ [2,36]
  | valOutputArray       -- to_string_for_output: unreachable!() (array after decay)
  | valCoerceUnreachable -- array_coerce / push / inc: unreachable_unchecked
  | producePopUnwrap     -- produce_val.rs visit_array_pop_expr: back.unchecked_unwrap()
  | produceDefault       -- ProduceValOutput::default / combine: unimplemented!()
  | producePushRhs       -- ProduceVal::visit_array_push_rhs: unimplemented!()
  | execFlagAssert       -- exec_stmt.rs debug_assert!(control_flow_state.is_normal())
  | execReturnAssert     -- exec_stmt.rs debug_assert!(return_val.is_none())
  -- analysis / linter
  | foldCombine          -- NumericConstant / StringConstant ::combine: unimplemented!()
  | lintDigitUnderflow   -- boring_assignment.rs `c as usize - '0' as usize`
  | lintPronounAssert    -- missed_pronoun.rs debug_assert!(!in_function_call)
  deriving DecidableEq, Repr, Inhabited

/-- Result of running a piece of the model. `ok`/`err` are what the Rust code returns;
    `crash` is a panic / UB / debug assertion; `fuel` and `resource` mean the model's own
    budget ran out (neither success nor error). -/
inductive Outcome (ε α : Type) where
  | ok (a : α)
  | err (e : ε)
  | crash (s : Site)
  | fuel
  | resource
  deriving Repr, Inhabited

namespace Outcome
variable {ε α β : Type}

@[inline] def bind (x : Outcome ε α) (f : α → Outcome ε β) : Outcome ε β :=
  match x with
  | .ok a => f a
  | .err e => .err e
  | .crash s => .crash s
  | .fuel => .fuel
  | .resource => .resource

@[inline] def map (f : α → β) (x : Outcome ε α) : Outcome ε β := x.bind (fun a => .ok (f a))

instance : Monad (Outcome ε) where
  pure := .ok
  bind := Outcome.bind

def isOk : Outcome ε α → Bool | .ok _ => true | _ => false
def isErr : Outcome ε α → Bool | .err _ => true | _ => false
def isCrash : Outcome ε α → Bool | .crash _ => true | _ => false

/-- The "Rust-visible" outcomes. -/
def returns : Outcome ε α → Bool | .ok _ => true | .err _ => true | _ => false

@[simp] theorem bind_ok (a : α) (f : α → Outcome ε β) : (Outcome.ok a).bind f = f a := rfl
@[simp] theorem bind_err (e : ε) (f : α → Outcome ε β) : (Outcome.err e : Outcome ε α).bind f = .err e := rfl
@[simp] theorem bind_crash (s : Site) (f : α → Outcome ε β) : (Outcome.crash s : Outcome ε α).bind f = .crash s := rfl
@[simp] theorem bind_fuel (f : α → Outcome ε β) : (Outcome.fuel : Outcome ε α).bind f = .fuel := rfl
@[simp] theorem bind_resource (f : α → Outcome ε β) : (Outcome.resource : Outcome ε α).bind f = .resource := rfl
@[simp] theorem pure_eq (a : α) : (pure a : Outcome ε α) = .ok a := rfl
@[simp] theorem bind_eq (x : Outcome ε α) (f : α → Outcome ε β) : (x >>= f) = x.bind f := rfl

/-- Option → Outcome with a crash site for `None` (models `unwrap`). -/
def ofOption (s : Site) : Option α → Outcome ε α
  | some a => .ok a
  | none => .crash s

/-- Models `debug_assert!` / `assert!`. -/
def assert (s : Site) (b : Bool) : Outcome ε Unit := if b then .ok () else .crash s

end Outcome

/-! ### Source locations and ranges (source_range.rs) -/

structure Loc where
  line : Nat
  col : Nat
  deriving DecidableEq, Repr, Inhabited

/-- derived `Ord` on `SourceLocation`: line, then column. -/
def Loc.le (a b : Loc) : Bool := a.line < b.line || (a.line == b.line && a.col ≤ b.col)
def Loc.lt (a b : Loc) : Bool := a.line < b.line || (a.line == b.line && a.col < b.col)

structure Range where
  start : Loc
  stop : Loc
  deriving DecidableEq, Repr, Inhabited

namespace Range

/-- derived `Ord` on `SourceRange`: start, then end. -/
def le (a b : Range) : Bool := a.start.lt b.start || (a.start == b.start && a.stop.le b.stop)

/-- `SourceRange::new` = construct + `normalized` (swap if end < start). -/
def new (s e : Loc) : Range := if e.lt s then ⟨e, s⟩ else ⟨s, e⟩

/-- `SourceRange::concat`: `minmax` by derived order, then `low.start .. high.end`.
    (Not a hull: if `other` lies inside `self`, the result ends at `other.end`.) -/
def concat (a b : Range) : Range :=
  if a.le b then ⟨a.start, b.stop⟩ else ⟨b.start, a.stop⟩

/-- `SourceRange::to(loc)`. -/
def to (a : Range) (l : Loc) : Range := a.concat (new l l)

def line (a : Range) : Nat := a.start.line

end Range

/-- `SourceLocation::to`. -/
def Loc.to (a b : Loc) : Range := Range.new a b

end Rrss
