/-
  Rrss.Val — the value algebra (mirrors src/exec/val.rs and src/exec/val/display.rs).

  Values are immutable: `Rc` copy-on-write has no counterpart here; that the Rust code
  realises the same value semantics is carried by the correspondence check (C06).
  The dictionary part of an array is an association list with distinct keys in insertion
  order; `HashMap` iteration order is *not* modelled by this order — every observable is
  shown invariant under permutation of the dictionary (C10).
-/
import Rrss.Num
import Rrss.Text
namespace Rrss

/-- `DictKey` -/
inductive Key
  | undef
  | null
  | bool (b : Bool)
  | str (s : Str)
  deriving DecidableEq, Repr, Inhabited

inductive Val (N : Type)
  | undef
  | null
  | bool (b : Bool)
  | num (n : N)
  | str (s : Str)
  | arr (seq : List (Val N)) (dict : List (Key × Val N))
  deriving Repr, Inhabited

/-- `ValError` -/
inductive ValErr (N : Type)
  | notIndexable (v : Val N)
  | invalidKey (v : Val N)
  | indexNotAssignable (k v : Val N)
  | invalidOp (op : Str) (v : Val N)
  | invalidComparison (a b : Val N)
  | invalidSplitDelim (v : Val N)
  | invalidJoinDelim (v : Val N)
  | invalidJoinElem (v : Val N)
  | parseNumFailed (s : Str)
  | invalidRadix (v : Val N)
  | numToCharFailed (n : N)
  | unexpectedCastParam (v : Val N)
  deriving Inhabited

/-- Result of a `Val` operation: Rust's `Result<_, ValError>` plus the model's own outcomes. -/
abbrev VRes (N α : Type) := Outcome (ValErr N) α

namespace Val
variable {N : Type} [NumOps N]
open NumOps

/-- discriminant index -/
def kind : Val N → Nat
  | undef => 0 | null => 1 | bool _ => 2 | num _ => 3 | str _ => 4 | arr _ _ => 5

def isArr : Val N → Bool | arr _ _ => true | _ => false
def isStr : Val N → Bool | str _ => true | _ => false
def isUndef : Val N → Bool | undef => true | _ => false

def emptyArr : Val N := arr [] []

/-! ### dictionary helpers -/

def dlookup (k : Key) : List (Key × Val N) → Option (Val N)
  | [] => none
  | (k', v) :: rest => if k = k' then some v else dlookup k rest

/-- replace the value at `k`, or append a new entry (insertion order kept) -/
def dset (k : Key) (v : Val N) : List (Key × Val N) → List (Key × Val N)
  | [] => [(k, v)]
  | (k', v') :: rest => if k = k' then (k', v) :: rest else (k', v') :: dset k v rest

/-! ### derived `PartialEq` (`==` on `Val`: numbers by IEEE `==`, arrays deeply,
    `HashMap` equality = same size and every entry of the left found equal in the right) -/

mutual
def eqv : Val N → Val N → Bool
  | undef, undef => true
  | null, null => true
  | bool a, bool b => a == b
  | num a, num b => beq a b
  | str a, str b => a == b
  | arr s1 d1, arr s2 d2 => eqvList s1 s2 && d1.length == d2.length && eqvDict d1 d2
  | _, _ => false
def eqvList : List (Val N) → List (Val N) → Bool
  | [], [] => true
  | a :: as, b :: bs => eqv a b && eqvList as bs
  | _, _ => false
/-- every entry of the left dictionary is present and equal in the right one -/
def eqvDict : List (Key × Val N) → List (Key × Val N) → Bool
  | [], _ => true
  | (k, v) :: rest, d2 =>
    (match dlookup k d2 with
     | some v' => eqv v v'
     | none => false) && eqvDict rest d2
end

/-! ### decay, truthiness, text -/

/-- `Val::decay`: an array counts as its sequence length (the dictionary part is ignored). -/
def decay : Val N → Val N
  | arr seq _ => num (ofNat seq.length)
  | v => v

def boolText (b : Bool) : Str := if b then str% "true" else str% "false"

/-- `to_string_for_output` (the `unreachable!()` arm for an array after decay is kept). -/
def toOutput (v : Val N) : VRes N Str :=
  match v.decay with
  | undef => .ok str% "mysterious"
  | null => .ok str% "null"
  | bool b => .ok (boolText b)
  | num n => .ok (fmt n)
  | str s => .ok s
  | arr _ _ => .crash .valOutputArray

/-- The same text as a plain function (what `toOutput` returns; see `toOutput_eq`). -/
def outputText (v : Val N) : Str :=
  match v with
  | undef => str% "mysterious"
  | null => str% "null"
  | bool b => boolText b
  | num n => fmt n
  | str s => s
  | arr seq _ => fmt (ofNat seq.length : N)

theorem toOutput_eq (v : Val N) : v.toOutput = .ok v.outputText := by
  cases v <;> simp [toOutput, outputText, decay]

def isTruthy : Val N → Bool
  | undef => false
  | null => false
  | bool b => b
  | num n => isNonZero n
  | str _ => true
  | arr _ _ => true

def keyDisplay : Key → Str
  | .undef => str% "mysterious"
  | .null => str% "null"
  | .bool b => boolText b
  | .str s => '"' :: s ++ ['"']

/- `Display for Val` (used in error messages): strings quoted, arrays as
   `[seq…, sorted "key: value"…]`. -/
mutual
def display : Val N → Str
  | undef => str% "mysterious"
  | null => str% "null"
  | bool b => boolText b
  | num n => fmt n
  | str s => '"' :: s ++ ['"']
  | arr seq dict =>
    '[' :: intercalate str% ", " (displayList seq ++ sortStrs (displayDict dict)) ++ [']']
def displayList : List (Val N) → List Str
  | [] => []
  | v :: vs => display v :: displayList vs
def displayDict : List (Key × Val N) → List Str
  | [] => []
  | (k, v) :: rest => (keyDisplay k ++ str% ": " ++ display v) :: displayDict rest
end

/-! ### comparison -/

/-- `cmp_coerced`, with the recursive swaps of the Rust code unfolded. -/
def cmpCoerced (a b : Val N) : Option (Val N × Val N) :=
  if a.kind = b.kind then some (a, b) else
  match a, b with
  -- self = Undefined
  | undef, null => some (null, b)
  | undef, _ => some (a, b)
  -- self = Array
  | arr _ _, null => some (a.decay, num zero)
  | arr _ _, _ => some (a.decay, b)
  -- self = Null: other.cmp_coerced(self), swapped
  | null, undef => some (null, null)
  | null, arr _ _ => some (num zero, b.decay)
  | null, bool _ => some (bool false, b)
  | null, num _ => some (num zero, b)
  | null, str _ => some (str [], b)
  | null, null => some (a, b)
  -- self = Boolean
  | bool _, null => some (a, bool false)
  | bool _, undef => some (a, b)
  | bool _, arr _ _ => some (a, b.decay)
  | bool _, num _ => some (a, bool b.isTruthy)
  | bool _, str s => some (a, bool (!s.isEmpty))
  | bool _, bool _ => some (a, b)
  -- self = Number
  | num _, bool _ => some (bool a.isTruthy, b)
  | num _, null => some (a, num zero)
  | num _, undef => some (a, b)
  | num _, arr _ _ => some (a, b.decay)
  | num _, str s => (parse s : Option N).map fun n => (a, num n)
  | num _, num _ => some (a, b)
  -- self = String
  | str s, num _ => (parse s : Option N).map fun n => (num n, b)
  | str s, bool _ => some (bool (!s.isEmpty), b)
  | str _, null => some (a, str [])
  | str _, _ => some (a, b)

def equals (a b : Val N) : Bool :=
  match cmpCoerced a b with
  | some (x, y) => eqv x y
  | none => false

/-- `Val::compare`: `Ok(Some ordering)`, `Ok(None)` (unordered), or `InvalidComparison`. -/
def compare (a b : Val N) : VRes N (Option Ordering) :=
  match cmpCoerced a b with
  | none => .ok none
  | some (x, y) =>
    match x, y with
    | undef, undef => .ok (some .eq)
    | null, null => .ok (some .eq)
    | num n, num m => .ok (cmp n m)
    | str s, str t => .ok (some (strCmp s t))
    | _, _ => .err (.invalidComparison a b)

/-! ### arithmetic -/

/-- `inc(x)`: null counts as 0; booleans toggle on odd `x`. -/
def inc (v : Val N) (x : Int) : VRes N (Val N) :=
  match (match v with | null => num zero | v => v) with
  | bool b => .ok (bool (b != (x % 2 != 0)))
  | num n => .ok (num (add n (ofInt x)))
  | v' => .err (.invalidOp (if x ≥ 0 then str% "increment" else str% "decrement") v')

def scalarText : Val N → Option Str
  | undef => some str% "mysterious"
  | null => some str% "null"
  | bool b => some (boolText b)
  | num n => some (fmt n)
  | _ => none

/-- `plus_coerced` -/
def plusCoerced (a b : Val N) : Val N × Val N :=
  match a, b with
  | str _, undef => (a, str str% "mysterious")
  | str _, null => (a, str str% "null")
  | str _, bool x => (a, str (boolText x))
  | str _, num n => (a, str (fmt n))
  | str _, str _ => (a, b)
  -- (_, String): other.plus_coerced(self), swapped
  | undef, str _ => (str str% "mysterious", b)
  | null, str _ => (str str% "null", b)
  | bool x, str _ => (str (boolText x), b)
  | num n, str _ => (str (fmt n), b)
  | arr _ _, str _ => (a.decay, b)          -- (String, Array) hits the `(_, Array)` arm
  | null, num _ => (num zero, b)
  | num _, null => (a, num zero)
  | arr _ _, _ => (a.decay, b.decay)
  | _, arr _ _ => (a.decay, b.decay)
  | _, _ => (a, b)

/-- `cap`: size budget of the model (longest string / sequence it will build). -/
def plus (cap : Nat) (a b : Val N) : VRes N (Val N) :=
  match plusCoerced a b with
  | (str x, str y) => if x.length + y.length > cap then .resource else .ok (str (x ++ y))
  | (num x, num y) => .ok (num (add x y))
  | _ => .ok undef

/-- `arith_coerced` -/
def arithCoerced (a b : Val N) : Val N × Val N :=
  match a, b with
  | null, num _ => (num zero, b)
  | num _, null => (a, num zero)
  | arr _ _, _ => (a.decay, b.decay)
  | _, arr _ _ => (a.decay, b.decay)
  | _, _ => (a, b)

def repeatStr (s : Str) : Nat → Str
  | 0 => []
  | n + 1 => s ++ repeatStr s n

def multiply (cap : Nat) (a b : Val N) : VRes N (Val N) :=
  match arithCoerced a b with
  | (num x, num y) => .ok (num (mul x y))
  | (str s, num y) =>
    if geZero y then
      -- repaired code: nothing to repeat in an empty string, however large the count
      let n := if s.isEmpty then 0 else toUSize y
      if s.length * n > cap then .resource else .ok (str (repeatStr s n))
    else .ok undef
  | _ => .ok undef

def subtract (a b : Val N) : Val N :=
  match arithCoerced a b with
  | (num x, num y) => num (sub x y)
  | _ => undef

def divide (a b : Val N) : Val N :=
  match arithCoerced a b with
  | (num x, num y) => num (div x y)
  | _ => undef

def negate (v : Val N) : VRes N (Val N) :=
  match v with
  | num n => .ok (num (neg n))
  | _ => .err (.invalidOp str% "negate" v)

def roundUp (v : Val N) : VRes N (Val N) :=
  match v with
  | num n => .ok (num (NumOps.ceil n))
  | _ => .err (.invalidOp str% "round up" v)
def roundDown (v : Val N) : VRes N (Val N) :=
  match v with
  | num n => .ok (num (NumOps.floor n))
  | _ => .err (.invalidOp str% "round down" v)
def roundNearest (v : Val N) : VRes N (Val N) :=
  match v with
  | num n => .ok (num (NumOps.round n))
  | _ => .err (.invalidOp str% "round nearest" v)

/-! ### indexing -/

/-- key of a scalar used as dictionary key; `none` for numbers (sequence index) and arrays -/
def toKey : Val N → Option Key
  | undef => some .undef
  | null => some .null
  | bool b => some (.bool b)
  | str s => some (.str s)
  | _ => none

/-- `Val::index` (read) -/
def index (v k : Val N) : VRes N (Val N) :=
  match v with
  | str s =>
    match k with
    | num n => .ok (match s[toUSize n]? with | some c => str [c] | none => undef)
    | _ => .err (.invalidKey k)
  | arr seq dict =>
    match k with
    | num n => .ok ((seq[toUSize n]?).getD undef)
    | arr _ _ => .err (.invalidKey k)
    | _ => match toKey k with
           | some key => .ok ((dlookup key dict).getD undef)
           | none => .err (.invalidKey k)   -- unreachable: numbers and arrays handled above
  | _ => .err (.notIndexable v)

def usizeMax : Nat := 2^64 - 1

/-- extend a sequence with mysterious up to length `n` -/
def extendTo (seq : List (Val N)) (n : Nat) : List (Val N) :=
  seq ++ List.replicate (n - seq.length) undef

/-- Write path: `index_or_insert` along `keys` (outermost array first), then run the closure
    `f` on the cell reached (it returns the new cell and an extra result, e.g. the value
    popped), and rebuild. Mysterious becomes a fresh array on the way; the sequence is
    extended with mysterious; a missing dictionary entry starts as mysterious.
    Returns the updated value *also on failure*: as with `&mut`, whatever `index_or_insert`
    did before the error stays. `cap` bounds auto-extension (model budget). -/
def updateAt {β : Type} (cap : Nat) (f : Val N → VRes N (Val N × β)) :
    List (Val N) → Val N → Val N × VRes N β
  | [], v =>
    match f v with
    | .ok (v', b) => (v', .ok b)
    | .err e => (v, .err e)
    | .crash s => (v, .crash s)
    | .fuel => (v, .fuel)
    | .resource => (v, .resource)
  | k :: ks, v =>
    let v0 : Val N := match v with | undef => emptyArr | v => v
    match v0 with
    | arr seq dict =>
      match k with
      | num n =>
        let i := toUSize n
        -- repaired code: `(n as usize).checked_add(1)` or InvalidKey
        if i ≥ usizeMax then (v0, .err (.invalidKey k))
        else if i ≥ cap then (v0, .resource)
        else
          let seq' := if i ≥ seq.length then extendTo seq (i + 1) else seq
          match seq'[i]? with
          | none => (v0, .crash .valIndexOverflow)      -- `get_mut(i).unchecked_unwrap()`
          | some cell =>
            let (cell', r) := updateAt cap f ks cell
            (arr (seq'.set i cell') dict, r)
      | arr _ _ => (v0, .err (.invalidKey k))
      | _ =>
        match toKey k with
        | some key =>
          let cell := (dlookup key dict).getD undef
          let (cell', r) := updateAt cap f ks cell
          (arr seq (dset key cell' dict), r)
        | none => (v0, .err (.invalidKey k))
    | str s => (v0, .err (.indexNotAssignable k (str s)))
    | v' => (v0, .err (.notIndexable v'))

/-- `array_coerce` -/
def arrayCoerce : Val N → Val N
  | arr s d => arr s d
  | undef => emptyArr
  | v => arr [v] []

/-- `Val::push` -/
def push (v : Val N) (vals : List (Val N)) : VRes N (Val N) :=
  match arrayCoerce v with
  | arr s d => .ok (arr (s ++ vals) d)
  | _ => .crash .valCoerceUnreachable

/-- `Val::pop`: the popped value and the remaining array -/
def pop (v : Val N) : VRes N (Val N × Val N) :=
  match v with
  | arr (x :: xs) d => .ok (x, arr xs d)
  | arr [] d => .ok (undef, arr [] d)
  | _ => .err (.invalidOp str% "pop" v)

/-! ### split / join / cast -/

def split (v : Val N) (delim : Option (Val N)) : VRes N (Val N) :=
  match v with
  | str s =>
    if s.isEmpty then
      match delim with
      | some (str _) => .ok emptyArr
      | some d => .err (.invalidSplitDelim d)
      | none => .ok emptyArr
    else
      match delim with
      | some (str d) => .ok (arr ((splitOn s d).map str) [])
      | some d => .err (.invalidSplitDelim d)
      | none => .ok (arr ((splitOn s []).map str) [])
  | _ => .err (.invalidOp str% "split" v)

/-- dictionary values in key order (repaired `val_iter`: sorted by the key's `Display`) -/
def dictValuesSorted (dict : List (Key × Val N)) : List (Val N) :=
  (dict.mergeSort fun a b => strLe (keyDisplay a.1) (keyDisplay b.1)).map (·.2)

def valIter (seq : List (Val N)) (dict : List (Key × Val N)) : List (Val N) :=
  seq ++ dictValuesSorted dict

/-- all strings, or the first element that is not -/
def allStrs : List (Val N) → Except (Val N) (List Str)
  | [] => .ok []
  | str s :: rest => (allStrs rest).map (s :: ·)
  | v :: _ => .error v

def join (v : Val N) (delim : Option (Val N)) : VRes N (Val N) :=
  match v with
  | arr seq dict =>
    if seq.isEmpty && dict.isEmpty then
      match delim with
      | some (str _) => .ok (str [])
      | some d => .err (.invalidJoinDelim d)
      | none => .ok (str [])
    else
      let go (d : Str) : VRes N (Val N) :=
        match allStrs (valIter seq dict) with
        | .ok ss => .ok (str (intercalate d ss))
        | .error bad => .err (.invalidJoinElem bad)
      match delim with
      | some (str d) => go d
      | some d => .err (.invalidJoinDelim d)
      | none => go []
  | _ => .err (.invalidOp str% "join" v)

/-- `try_to_integer`: `f.trunc() == f` then `as i64` -/
def tryToInteger (f : N) : Option Int :=
  let i := NumOps.trunc f
  if beq i f then some (toI64 i) else none

def cast (v : Val N) (param : Option (Val N)) : VRes N (Val N) :=
  match v with
  | num n =>
    match param with
    | some p => .err (.unexpectedCastParam p)
    | none =>
      match tryToInteger n with
      | none => .err (.numToCharFailed n)
      | some i =>
        if i < 0 ∨ i ≥ 2^32 then .err (.numToCharFailed n)
        else match charOfNat? i.toNat with
             | some c => .ok (str [c])
             | none => .err (.numToCharFailed n)
  | str s =>
    match param with
    | some (num p) =>
      match tryToInteger p with
      | none => .err (.invalidRadix (num p))
      | some r =>
        if r < 0 ∨ r ≥ 2^32 then .err (.invalidRadix (num p))
        else if r < 2 ∨ r > 36 then .err (.invalidRadix (num p))   -- repaired: checked before from_str_radix
        else match i64FromStrRadix s r.toNat with
             | some n => .ok (num (ofInt n))
             | none => .err (.invalidRadix (num p))
    | some p => .err (.invalidRadix p)
    | none =>
      match (parse s : Option N) with
      | some n => .ok (num n)
      | none => .err (.parseNumFailed s)
  | _ => .err (.invalidOp str% "cast" v)

end Val
end Rrss
