/-
  Rrss.Num — the operations of `f64` the code uses, as a type class, so that theorems are
  generic in the number type (Lean's `Float` is opaque to the kernel). The executable
  instance on `Float` lives in Rrss.F64; a fully proved instance on `Int` in Rrss.NumInt.
-/
import Rrss.Basic
namespace Rrss

class NumOps (N : Type) where
  add : N → N → N
  sub : N → N → N
  mul : N → N → N
  div : N → N → N
  neg : N → N
  floor : N → N
  ceil : N → N
  round : N → N          -- `f64::round`: half away from zero
  trunc : N → N
  /-- `partial_cmp` -/
  cmp : N → N → Option Ordering
  /-- `==` (IEEE: NaN ≠ NaN, 0 == -0) -/
  beq : N → N → Bool
  /-- `n as f64` for `usize`/`isize`/`i64` (round to nearest even) -/
  ofInt : Int → N
  /-- `x as usize`: truncating, saturating to [0, 2^64-1], NaN ↦ 0 -/
  toUSize : N → Nat
  /-- `x as i64`: truncating, saturating, NaN ↦ 0 -/
  toI64 : N → Int
  /-- `Display` (shortest round-trip digits, no exponent, `NaN`, `inf`, `-0`) -/
  fmt : N → Str
  /-- `str::parse::<f64>` -/
  parse : Str → Option N

/-- Bit-pattern text of a number, for the line protocol only (never used in theorems). -/
class NumBits (N : Type) where
  bitsHex : N → Str
  ofBitsHex? : Str → Option N

namespace NumOps
variable {N : Type} [NumOps N]

def zero : N := ofInt 0
def ofNat (n : Nat) : N := ofInt (Int.ofNat n)

/-- `x != 0.0` -/
def isNonZero (x : N) : Bool := !(beq x (zero : N))

/-- `x >= 0.0` -/
def geZero (x : N) : Bool :=
  match cmp x (zero : N) with
  | some .gt => true
  | some .eq => true
  | _ => false

/-- compiler-builtins `__powidf2` (what `f64::powi` lowers to): square-and-multiply on |n|,
    reciprocal at the end for negative n. -/
def powiLoop : Nat → Nat → N → N → N
  | 0, _, _, r => r
  | fuel + 1, n, a, r =>
    let r := if n % 2 = 1 then mul r a else r
    let n := n / 2
    if n = 0 then r else powiLoop fuel n (mul a a) r

def powi (a : N) (n : Int) : N :=
  let r := powiLoop (n.natAbs + 1) n.natAbs a (ofInt 1 : N)
  if n < 0 then div (ofInt 1 : N) r else r

end NumOps

/-- The IEEE-754 facts about `f64` that some theorem needs, as hypotheses (trusted for
    Rust's `f64`, sampled by the harness; proved for the `Int` instance). -/
structure NumLaws (N : Type) [NumOps N] : Prop where
  cmp_swap : ∀ a b : N, NumOps.cmp b a = (NumOps.cmp a b).map Ordering.swap
  beq_cmp : ∀ a b : N, NumOps.beq a b = (NumOps.cmp a b == some .eq)

end Rrss
