/-
  Rrss.Token — token kinds and tokens (mirrors `TokenType` / `Token` of src/frontend/lexer.rs).
-/
import Rrss.Basic
namespace Rrss

/-- Payload-free token kinds, in the declaration order of `TokenType`. -/
inductive TK
  | word | stringLit | number | mysterious | null | true_ | false_ | empty
  | commonPrefix | pronoun | at | like
  | plus | minus | multiply | divide
  | is | isnt | says | put | into | let_ | be | with_ | not
  | apostropheS | apostropheRE
  | and | or | nor | as | big | bigger | small | smaller | than
  | greater | greaterEq | less | lessEq
  | if_ | else_ | while_ | until_ | continue_ | break_ | take | top
  | say | sayAlias | listen | to
  | build | knock | up | down
  | cut | join | cast | turn | round
  | rock | roll
  | takes | taking | return_ | back | ampersand | apostropheNApostrophe
  | comma | dot | newline | comment | error
  deriving DecidableEq, Repr, Inhabited

/-- The three `ErrorMessage`s plus the two "unterminated" ones. -/
inductive LexErr
  | identNonAlpha      -- "Identifier may not contain non-alphabetic characters"
  | underscore         -- "'_' is not a valid character because it can't be sung"
  | invalidToken       -- "Invalid token"
  | unterminatedComment
  | unterminatedString
  deriving DecidableEq, Repr, Inhabited

/-- Lexer snapshot right after a token was produced (what `current_line`/`current_loc` read):
    `idx` is the start of a staged token if one is pending, else the index of the next char. -/
structure Snap where
  line : Nat
  lineStart : Nat
  idx : Nat
  deriving DecidableEq, Repr, Inhabited

/-- A token. `N` is the number type. `text` is the payload of string literals and comments
    (the text between the delimiters); `num` the payload of `Number`. -/
structure Tok (N : Type) where
  kind : TK
  spelling : Str
  /-- byte offset of `spelling` in the source -/
  start : Nat
  range : Range
  num : Option N := none
  text : Str := []
  lexErr : Option LexErr := none
  /-- lexer state after this token was returned -/
  after : Snap := ⟨1, 0, 0⟩
  deriving Repr, Inhabited

def Tok.stop {N} (t : Tok N) : Nat := t.start + ulen t.spelling

end Rrss
