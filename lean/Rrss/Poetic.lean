/-
  Rrss.Poetic — value of a poetic number literal
  (mirrors `PoeticNumberLiteral::compute_value` and its iterator in src/frontend/ast.rs).
-/
import Rrss.Num
import Rrss.Ast
namespace Rrss
namespace Poetic
variable {N : Type} [NumOps N]
open NumOps

/-- `word_len`: characters other than the apostrophe -/
def wordLen (s : Str) : Nat := (s.filter (· != '\'')).length

/-- `PoeticNumberLiteralIteratorItem`, reduced to what `compute_value` reads -/
inductive Item
  | word (len : Nat)
  | dot
  deriving DecidableEq, Repr

def flush : Option Nat → List Item
  | none => []
  | some n => [.word n]

/-- The iterator: a `Word` absorbs the suffixes that directly follow it; a suffix with no word
    before it (first element, or right after a dot) counts as a word of its own (repaired
    code; it does not absorb further suffixes). `cur` = length of the word being built. -/
def itemsGo : List PoeticElem → Option Nat → List Item
  | [], cur => flush cur
  | .dot :: rest, cur => flush cur ++ .dot :: itemsGo rest none
  | .word s :: rest, cur => flush cur ++ itemsGo rest (some (wordLen s))
  | .suffix s :: rest, some n => itemsGo rest (some (n + wordLen s))
  | .suffix s :: rest, none => .word (wordLen s) :: itemsGo rest none

def items (elems : List PoeticElem) : List Item := itemsGo elems none

/-- `position_or_end(iter, is Dot)` -/
def dotPos : List Item → Nat
  | [] => 0
  | .dot :: _ => 0
  | .word _ :: rest => dotPos rest + 1

def lengths : List Item → List Nat
  | [] => []
  | .dot :: rest => lengths rest
  | .word n :: rest => n :: lengths rest

/-- one term of the sum: `(len % 10) as f64 * 10f64.powi(exponent - idx)`; repaired code: a zero
    digit contributes `0.0` whatever its weight (`0 * inf` would be NaN) -/
def digitTerm (exponent : Int) (idx len : Nat) : N :=
  if len % 10 = 0 then ofNat 0
  else mul (ofNat (len % 10)) (powi (ofInt 10 : N) (exponent - Int.ofNat idx))

/-- `Σ (len % 10) as f64 * 10f64.powi(exponent - idx)`, summed left to right from `-0.0`
    (`impl Sum for f64`). -/
def sumDigits (exponent : Int) : List Nat → Nat → N → N
  | [], _, acc => acc
  | len :: rest, idx, acc =>
    sumDigits exponent rest (idx + 1)
      (add acc (digitTerm exponent idx len))

def computeValue (elems : List PoeticElem) : Outcome Unit N :=
  let its := items elems
  let exponent : Int := Int.ofNat (dotPos its) - 1
  .ok (sumDigits exponent (lengths its) 0 (neg (ofInt 0 : N)))

end Poetic
end Rrss
