/-
  Rrss.F64 — the executable instance of `NumOps` on Lean's `Float` (= IEEE binary64 = Rust
  `f64`). Arithmetic is the hardware's; everything textual or integral is computed *exactly*
  from the bit pattern with big `Nat`s, so that it agrees with Rust's `Display for f64`
  (shortest round-trip digits, never an exponent) and `str::parse::<f64>` (core::num::dec2flt,
  correctly rounded) on every input. The pure parts (`F64.fmtBits`, `F64.parseBits`, …) work
  on `Nat` bit patterns and do not mention `Float` at all.

  Only `def`s, recursion is structural (on lists or on fuel). Core Lean only.
-/
import Rrss.Num
namespace Rrss
namespace F64

/-! ### Bit patterns (`Nat` below `2^64`) -/

def signMask : Nat := 0x8000000000000000
def infBits : Nat := 0x7ff0000000000000
def nanBits : Nat := 0x7ff8000000000000
def two52 : Nat := 0x10000000000000
def two63 : Nat := 0x8000000000000000
def two64 : Nat := 0x10000000000000000

def isNeg (b : Nat) : Bool := b ≥ signMask
/-- the bit pattern without its sign bit -/
def magnitude (b : Nat) : Nat := b % signMask
def expField (b : Nat) : Nat := (b >>> 52) % 2048
def fracField (b : Nat) : Nat := b % two52
def isNaNBits (b : Nat) : Bool := magnitude b > infBits
def isInfBits (b : Nat) : Bool := magnitude b == infBits

/-- finite `b`: `|value| = m * 2^e` with `(m, e) = decode b`. -/
def decode (b : Nat) : Nat × Int :=
  if expField b == 0 then (fracField b, -1074)
  else (fracField b + two52, (expField b : Int) - 1075)

/-! ### Correct rounding of a positive rational to binary64 (nearest, ties to even) -/

/-- Bit pattern (sign bit clear) of the binary64 nearest to `num / den`, ties to even;
    overflow gives `infBits`, underflow gives `0`. Requires `num > 0`, `den > 0`.

    `e` is the binary exponent of the quotient (`2^e ≤ num/den < 2^(e+1)`), `sh` the exponent
    of the unit in the last place that is kept (53 bits, fewer in the subnormal range). The
    rounded significand `q ≤ 2^53` is *added* to the exponent field, which handles at once
    subnormals (`sh = -1074`, field 0), the carry into the next binade (`q = 2^53`) and the
    carry to infinity. -/
def roundRatio (num den : Nat) : Nat :=
  let lb : Int := (num.log2 : Int) - (den.log2 : Int)
  let ge : Bool := if lb ≥ 0 then den <<< lb.toNat ≤ num else den ≤ num <<< (-lb).toNat
  let e : Int := if ge then lb else lb - 1
  if e > 1023 then infBits else
  let sh : Int := if e - 52 < -1074 then -1074 else e - 52
  let n : Nat := if sh ≥ 0 then num else num <<< (-sh).toNat
  let d : Nat := if sh ≥ 0 then den <<< sh.toNat else den
  let q := n / d
  let r := n % d
  let q := if 2 * r > d || (2 * r == d && q % 2 == 1) then q + 1 else q
  (sh + 1074).toNat * two52 + q

/-- `n as f64` for an arbitrary integer. -/
def ofIntBits (n : Int) : Nat :=
  if n == 0 then 0
  else (if n < 0 then signMask else 0) + roundRatio n.natAbs 1

/-- `|x|` truncated toward zero, for finite `b`. -/
def truncMagnitude (b : Nat) : Nat :=
  let (m, e) := decode b
  if e ≥ 0 then m <<< e.toNat else m >>> (-e).toNat

/-- `x as usize` (64-bit target). -/
def toUSizeBits (b : Nat) : Nat :=
  if isNaNBits b then 0
  else if isNeg b then 0
  else if isInfBits b then two64 - 1
  else min (truncMagnitude b) (two64 - 1)

/-- `x as i64`. -/
def toI64Bits (b : Nat) : Int :=
  if isNaNBits b then 0
  else if isNeg b then
    (if isInfBits b then -(two63 : Int) else -(Int.ofNat (min (truncMagnitude b) two63)))
  else
    (if isInfBits b then (two63 : Int) - 1 else Int.ofNat (min (truncMagnitude b) (two63 - 1)))

/-! ### Display: shortest digits that round-trip (Steele–White / Burger–Dybvig free format,
    the algorithm of `core::num::flt2dec::strategy::dragon::format_shortest`) -/

/-- Digit generation. Invariant: the remaining value is `r / s` (in units of the current
    digit position), `mp / s` and `mm / s` are the distances to the upper / lower rounding
    boundary; the boundaries belong to the rounding interval iff `even`. Digits are
    accumulated in reverse. At most 17 digits are ever produced; `fuel` is never exhausted. -/
def genDigits : Nat → Nat → Nat → Nat → Nat → Bool → List Nat → List Nat
  | 0, _, _, _, _, _, acc => acc
  | fuel + 1, r, s, mp, mm, even, acc =>
    let d := (r * 10) / s
    let r := (r * 10) % s
    let mp := mp * 10
    let mm := mm * 10
    let down := if even then r ≤ mm else r < mm           -- may stop and keep `d`
    let up := if even then r + mp ≥ s else r + mp > s     -- may stop and take `d + 1`
    if !down && !up then genDigits fuel r s mp mm even (d :: acc)
    else if down && !up then d :: acc
    else if !down && up then (d + 1) :: acc
    else if r * 2 < s then d :: acc else (d + 1) :: acc

/-- Adjusts the decimal exponent `k` until `(r + mp) / s` lies in `[1/10, 1)` (boundary cases
    according to `even`); afterwards the first generated digit is the leading, non-zero one. -/
def fixup : Nat → Bool → Int → Nat → Nat → Nat → Nat → Int × Nat × Nat × Nat × Nat
  | 0, _, k, r, s, mp, mm => (k, r, s, mp, mm)
  | fuel + 1, even, k, r, s, mp, mm =>
    let high := if even then r + mp ≥ s else r + mp > s
    if high then fixup fuel even (k + 1) r (s * 10) mp mm
    else
      let low := if even then (r + mp) * 10 < s else (r + mp) * 10 ≤ s
      if low then fixup fuel even (k - 1) (r * 10) s (mp * 10) (mm * 10)
      else (k, r, s, mp, mm)

/-- Shortest digits `d₁ d₂ … dₙ` (`d₁ ≠ 0`) and exponent `k` with `0.d₁d₂…dₙ × 10^k` inside the
    rounding interval of `m * 2^e` (`m > 0`, and `(m, e)` as produced by `decode`), closest
    to the true value among the candidates of that length. -/
def shortest (m : Nat) (e : Int) : List Nat × Int :=
  let even := m % 2 == 0
  -- the lower neighbour is closer when `m` is the smallest significand of a normal binade
  let uneven := m == two52 && e != -1074
  let c : Nat := if uneven then 4 else 2
  let r0 : Nat := if e ≥ 0 then (m * c) <<< e.toNat else m * c
  let s0 : Nat := if e ≥ 0 then c else c <<< (-e).toNat
  let mm0 : Nat := if e ≥ 0 then 1 <<< e.toNat else 1
  let mp0 : Nat := if uneven then 2 * mm0 else mm0
  -- estimate of k = ⌈log10 v⌉: 78913 / 2^18 ≈ log10 2; `fixup` makes it exact
  let k0 : Int := (((e + (m.log2 : Int)) * 78913) / 262144) + 1
  let p : Nat := 10 ^ k0.natAbs
  let (r1, s1, mp1, mm1) :=
    if k0 ≥ 0 then (r0, s0 * p, mp0, mm0) else (r0 * p, s0, mp0 * p, mm0 * p)
  let (k, r, s, mp, mm) := fixup 700 even k0 r1 s1 mp1 mm1
  ((genDigits 800 r s mp mm even []).reverse, k)

def digitChar (d : Nat) : Char := Char.ofNat (48 + d)

/-- `format!("{}", x)` from the bit pattern. -/
def fmtBits (b : Nat) : Str :=
  if isNaNBits b then "NaN".toList else
  let pre : Str := if isNeg b then ['-'] else []
  if isInfBits b then pre ++ "inf".toList else
  let (m, e) := decode b
  if m == 0 then pre ++ ['0'] else
  let (ds, k) := shortest m e
  let cs := ds.map digitChar
  let n := cs.length
  if k ≤ 0 then pre ++ '0' :: '.' :: (List.replicate (-k).toNat '0' ++ cs)
  else if k.toNat ≥ n then pre ++ cs ++ List.replicate (k.toNat - n) '0'
  else pre ++ cs.take k.toNat ++ '.' :: cs.drop k.toNat

/-! ### FromStr (core::num::dec2flt) -/

def isDigit (c : Char) : Bool := '0' ≤ c && c ≤ '9'
def digitVal (c : Char) : Nat := c.toNat - 48

/-- Only the first `maxSig` significant digits of a mantissa are accumulated; the others are
    counted and summarised by a sticky flag. This does not change the rounded result: every
    binary64 and every midpoint between two adjacent ones has at most 768 significant decimal
    digits (`m × 2^e = m × 5^(-e) × 10^e` with `m < 2^54`, `e ≥ -1075`), so none lies strictly
    between the truncated value and the truncated value plus one unit of its last digit. It
    keeps `parse` linear in the length of the input (dec2flt does the same with 768 digits). -/
def maxSig : Nat := 800

/-- A run of ASCII digits read into an accumulator. -/
structure Digits where
  /-- the first `maxSig` significant digits read so far, as a number -/
  mant : Nat := 0
  /-- how many digits were read -/
  count : Nat := 0
  /-- how many digits were read since (and including) the first non-zero one -/
  sig : Nat := 0
  /-- some significant digit after the first `maxSig` ones is non-zero -/
  sticky : Bool := false

def Digits.push (a : Digits) (c : Char) : Digits :=
  let d := digitVal c
  if a.sig < maxSig then
    { a with
      mant := a.mant * 10 + d
      count := a.count + 1
      sig := if a.sig == 0 && d == 0 then 0 else a.sig + 1 }
  else
    { a with count := a.count + 1, sig := a.sig + 1, sticky := a.sticky || d != 0 }

/-- reads the longest prefix of digits; returns the accumulator and the rest -/
def takeDigits : Digits → Str → Digits × Str
  | a, [] => (a, [])
  | a, c :: cs => if isDigit c then takeDigits (a.push c) cs else (a, c :: cs)

/-- The exponent accumulator of `parse_scientific`: it stops growing once it has reached
    `0x10000` (so it stays below 655360). Only distinguishable from the exact value on
    inputs with more than 65536 mantissa digits. -/
def takeExpDigits : Nat → Str → Nat × Str
  | a, [] => (a, [])
  | a, c :: cs =>
    if isDigit c then takeExpDigits (if a < 0x10000 then 10 * a + digitVal c else a) cs
    else (a, c :: cs)

/-- `[eE] [+-]? digit+` at the end of the text → the (saturated) exponent. -/
def parseExpPart : Str → Option Int
  | [] => none
  | c :: cs =>
    let neg := c == '-'
    let ds := if c == '-' || c == '+' then cs else c :: cs
    match ds with
    | [] => none
    | d :: _ =>
      if !isDigit d then none else
      match takeExpDigits 0 ds with
      | (x, []) => some (if neg then -(x : Int) else (x : Int))
      | (_, _ :: _) => none

/-- Magnitude bits of the decimal whose mantissa digits were read into `a` and whose last
    mantissa digit has weight `10^exp`. -/
def decimalToBits (a : Digits) (exp : Int) : Nat :=
  if a.mant == 0 then 0 else
  let lead : Int := exp + (a.sig : Int) - 1     -- 10^lead ≤ value < 10^(lead+1)
  if lead > 400 then infBits
  else if lead < -400 then 0
  else
    -- digits that were not accumulated; a non-zero tail is replaced by a single digit 1
    let dropped : Int := ((a.sig - maxSig : Nat) : Int)
    let m : Nat := if a.sticky then a.mant * 10 + 1 else a.mant
    let x : Int := if a.sticky then exp + dropped - 1 else exp + dropped
    if x ≥ 0 then roundRatio (m * 10 ^ x.toNat) 1
    else roundRatio m (10 ^ (-x).toNat)

/-- `digit* ('.' digit*)? ([eE] [+-]? digit+)?` with at least one mantissa digit, the whole
    text; result = magnitude bits. -/
def parseNumber (s : Str) : Option Nat :=
  let (a, rest) := takeDigits {} s
  let (b, rest, nfrac) : Digits × Str × Nat :=
    match rest with
    | '.' :: rest' =>
      let (b, rest'') := takeDigits a rest'
      (b, rest'', b.count - a.count)
    | _ => (a, rest, 0)
  if b.count == 0 then none else
  match rest with
  | [] => some (decimalToBits b (-(nfrac : Int)))
  | c :: rest' =>
    if c == 'e' || c == 'E' then
      match parseExpPart rest' with
      | some x => some (decimalToBits b (x - (nfrac : Int)))
      | none => none
    else none

def asciiLower (c : Char) : Char :=
  if 'A' ≤ c && c ≤ 'Z' then Char.ofNat (c.toNat + 32) else c

/-- `inf`, `infinity`, `nan`, ASCII case-insensitive; result = magnitude bits. -/
def parseInfNan (s : Str) : Option Nat :=
  let l := s.map asciiLower
  if l == "inf".toList || l == "infinity".toList then some infBits
  else if l == "nan".toList then some nanBits
  else none

/-- `s.parse::<f64>()` as a bit pattern (`-nan` keeps its sign bit, as in Rust). -/
def parseBits (s : Str) : Option Nat :=
  match s with
  | [] => none
  | c :: cs =>
    let neg := c == '-'
    let body := if c == '-' || c == '+' then cs else s
    if body.isEmpty then none else
    let mag := match parseNumber body with
      | some m => some m
      | none => parseInfNan body
    mag.map fun m => if neg then signMask + m else m

/-! ### Hexadecimal bit patterns (line protocol) -/

def hexDigit (d : Nat) : Char := if d < 10 then Char.ofNat (48 + d) else Char.ofNat (87 + d)

def hexDigits : Nat → Nat → Str → Str
  | 0, _, acc => acc
  | n + 1, v, acc => hexDigits n (v / 16) (hexDigit (v % 16) :: acc)

/-- 16 lowercase hex digits; every NaN is written `7ff8000000000000`. -/
def bitsHexOf (b : Nat) : Str := hexDigits 16 (if isNaNBits b then nanBits else b) []

def hexVal? (c : Char) : Option Nat :=
  if '0' ≤ c && c ≤ '9' then some (c.toNat - 48)
  else if 'a' ≤ c && c ≤ 'f' then some (c.toNat - 87)
  else if 'A' ≤ c && c ≤ 'F' then some (c.toNat - 55)
  else none

def hexNat? : Nat → Str → Option Nat
  | acc, [] => some acc
  | acc, c :: cs => match hexVal? c with
    | some d => hexNat? (acc * 16 + d) cs
    | none => none

/-- exactly 16 hex digits (either case) -/
def ofHex? (s : Str) : Option Nat := if s.length == 16 then hexNat? 0 s else none

/-! ### `Float` wrappers -/

def bits (x : Float) : Nat := x.toBits.toNat
def ofBits (b : Nat) : Float := Float.ofBits (UInt64.ofNat b)

/-- `f64::trunc` (keeps the sign of zero: `trunc(-0.5) = -0.0`). -/
def trunc (x : Float) : Float := if x < 0 then x.ceil else x.floor

/-- `partial_cmp` -/
def cmp (a b : Float) : Option Ordering :=
  if a < b then some .lt
  else if a > b then some .gt
  else if a == b then some .eq
  else none

def ofInt (n : Int) : Float := ofBits (ofIntBits n)
def toUSize (x : Float) : Nat := toUSizeBits (bits x)
def toI64 (x : Float) : Int := toI64Bits (bits x)
def fmt (x : Float) : Str := fmtBits (bits x)
def parse (s : Str) : Option Float := (parseBits s).map ofBits

end F64

/-- 16 lowercase hex digits of the bit pattern; every NaN is `7ff8000000000000`. -/
def _root_.Float.bitsHex (x : Float) : Str := F64.bitsHexOf (F64.bits x)

/-- inverse of `Float.bitsHex`: exactly 16 hex digits -/
def _root_.Float.ofBitsHex? (s : Str) : Option Float := (F64.ofHex? s).map F64.ofBits

instance : NumOps Float where
  add := (· + ·)
  sub := (· - ·)
  mul := (· * ·)
  div := (· / ·)
  neg := fun x => -x
  floor := Float.floor
  ceil := Float.ceil
  round := Float.round        -- C `round`: half away from zero, like `f64::round`
  trunc := F64.trunc
  cmp := F64.cmp
  beq := fun a b => a == b    -- IEEE: NaN ≠ NaN, 0 == -0
  ofInt := F64.ofInt
  toUSize := F64.toUSize
  toI64 := F64.toI64
  fmt := F64.fmt
  parse := F64.parse

instance : NumBits Float where
  bitsHex := Float.bitsHex
  ofBitsHex? := Float.ofBitsHex?

end Rrss
