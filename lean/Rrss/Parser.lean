/-
  Rrss.Parser — executable model of src/frontend/parser.rs, function for function.

  The Rust parser pulls tokens lazily from a `CommentSkippingLexer`; lexing does not depend on
  parsing, so the model parses the *token list* (comments filtered out). What the parser reads
  from the underlying lexer (`current_line`, `current_loc`, `get_literal_text_*`) is recovered
  from `Tok.after` (lexer state right after a token was returned) and `Tok.start`.

  RECURSION DISCIPLINE. No `mutual`, no well-founded recursion. Every parser function is an
  ordinary non-recursive `def f (rec : Rec N) …`; a call goes through `rec` iff it closes a cycle
  of the grammar or continues a loop, and every call through `rec` happens only after at least
  one token has been consumed since the entry of the enclosing function. The knot is tied with
  fuel: `parser (n+1) = mkRec (parser n)`, `parser 0` answers `.fuel` everywhere.

  INTENDED INVARIANT (fuel sufficiency). Every field of `parser (k+1)` is *good* on states with
  at most `k` remaining tokens: it does not return `.fuel`, and an `.ok` result leaves at most as
  many tokens as it found. Induction on `k`: `parser (k+2) = mkRec (parser (k+1))`; started on
  ≤ k+1 tokens, a function body only calls `rec` after consuming ≥ 1 token, i.e. on ≤ k tokens,
  where `parser (k+1)` is good by the induction hypothesis. Hence `parser (#tokens + 1)` never
  runs out of fuel; `parseProgram` uses `#tokens + 2`.
-/
import Rrss.Basic
import Rrss.Num
import Rrss.Chars
import Rrss.Token
import Rrss.Ast
import Rrss.Text
import Rrss.Lexer
namespace Rrss
namespace Parser

open Lexer (isWord substr)

/-! ### errors -/

/-- `ParseErrorCode` -/
inductive PCode (N : Type) where
  | generic (s : Str)
  | missingIDAfterCommonPrefix (pre : Str)
  | mutationOperandMustBeIdentifier (p : Primary N)
  | expectedPrimaryExpression
  | expectedIdentifier
  | expectedText (s : Str)
  | expectedToken (tk : TK)
  | expectedOneOfTokens (tks : List TK)
  | expectedPoeticNumberLiteral
  | expectedSpaceAfterSays (tok : Tok N)
  | unexpectedToken
  | unexpectedEndOfTokens
  | poeticLiteralEndingWithHyphen
  | poeticLiteralStartingWithHyphen

/-- `ParseErrorLocation` -/
inductive ErrLoc (N : Type) where
  | token (t : Tok N)
  | line (n : Nat)

/-- `ParseError` -/
structure ParseErr (N : Type) where
  code : PCode N
  loc : ErrLoc N

/-! ### parser state and monad -/

/-- `struct Parser` over the token list. `last` is the state of the underlying lexer (after the
    last token the parser pulled with `self.lexer.next()`); `eof` is the state of the exhausted
    lexer, which `last` becomes when `self.lexer.next()` returns `None`. -/
structure PState (N : Type) where
  src : Str
  toks : List (Tok N)
  last : Snap
  eof : Snap
  parsingList : Bool

/-- The parser monad: state + `Outcome`. A parse error is fatal everywhere (no backtracking). -/
def P (N : Type) (α : Type) : Type := PState N → Outcome (ParseErr N) (α × PState N)

namespace P
variable {N : Type} {α β : Type}

@[inline] def pure (a : α) : P N α := fun st => .ok (a, st)

@[inline] def bind (x : P N α) (f : α → P N β) : P N β := fun st =>
  match x st with
  | .ok (a, st') => f a st'
  | .err e => .err e
  | .crash s => .crash s
  | .fuel => .fuel
  | .resource => .resource

instance : Monad (P N) where
  pure := P.pure
  bind := P.bind

/-- a panic -/
def crash (s : Site) : P N α := fun _ => .crash s
/-- `Err(e)` -/
def fail (e : ParseErr N) : P N α := fun _ => .err e
/-- out of fuel (model only) -/
def fuel : P N α := fun _ => .fuel
/-- `unwrap` -/
def ofOption (s : Site) : Option α → P N α
  | some a => pure a
  | none => crash s

end P

section
variable {N : Type}

/-! ### token matchers (`MatchesToken`) -/

def isKind (k : TK) (t : Tok N) : Bool := t.kind == k
def isAnyKind (ks : List TK) (t : Tok N) : Bool := ks.contains t.kind

/-- `(tok.id, tok.spelling) == (TokenType::Minus, "-")` -/
def isHyphen (t : Tok N) : Bool := t.kind == .minus && t.spelling == ['-']

/-! ### primitives -/

/-- `current` -/
def current : P N (Option (Tok N)) := fun st => .ok (st.toks.head?, st)

/-- `current_matches` -/
def currentMatches (m : Tok N → Bool) : P N Bool := fun st =>
  match st.toks with
  | t :: _ => .ok (m t, st)
  | [] => .ok (false, st)

/-- `current_line` -/
def currentLine : P N Nat := fun st => .ok (st.last.line, st)

/-- `current_loc` of the underlying lexer. `current_idx` unwraps the start index of a staged
    token (`lexStagedIndex`; `Snap.idx` is that start, or the index of the next char, which is
    ≤ len anyway); then `idx as u32 - line_start` may underflow. -/
def currentLoc : P N Loc := fun st =>
  if st.last.idx ≤ ulen st.src then
    if st.last.lineStart ≤ st.last.idx then .ok (⟨st.last.line, st.last.idx - st.last.lineStart⟩, st)
    else .crash .lexCurrentLoc
  else .crash .lexStagedIndex

/-- the location part of `new_parse_error`: the current token if any, else the current line -/
def errLocOf (st : PState N) : ErrLoc N :=
  match st.toks with
  | t :: _ => .token t
  | [] => .line st.last.line

/-- `new_parse_error` -/
def newParseError (code : PCode N) : P N (ParseErr N) := fun st => .ok (⟨code, errLocOf st⟩, st)

/-- `Err(self.new_parse_error(code))` -/
def failWith {α : Type} (code : PCode N) : P N α := fun st => .err ⟨code, errLocOf st⟩

/-- `current_or_error` -/
def currentOrError : P N (Tok N) := fun st =>
  match st.toks with
  | t :: _ => .ok (t, st)
  | [] => .err ⟨.unexpectedEndOfTokens, errLocOf st⟩

/-- `self.lexer.next()`: the next non-comment token; an exhausted lexer stays exhausted. -/
def advance : P N (Option (Tok N)) := fun st =>
  match st.toks with
  | t :: ts => .ok (some t, { st with toks := ts, last := t.after })
  | [] => .ok (none, { st with last := st.eof })

/-- `match_and_consume` -/
def matchAndConsume (m : Tok N → Bool) : P N (Option (Tok N)) := fun st =>
  match st.toks with
  | t :: ts => if m t then .ok (some t, { st with toks := ts, last := t.after }) else .ok (none, st)
  | [] => .ok (none, st)

/-- `match_and_consume` with a predicate that may panic -/
def matchAndConsumeP (m : Tok N → Outcome Unit Bool) : P N (Option (Tok N)) := fun st =>
  match st.toks with
  | t :: ts =>
    match m t with
    | .ok true => .ok (some t, { st with toks := ts, last := t.after })
    | .ok false => .ok (none, st)
    | .crash s => .crash s
    | _ => .resource                      -- predicates only answer `ok` or `crash`
  | [] => .ok (none, st)

/-- `consume`: step past a token we *know* satisfies the predicate -/
def consume (m : Tok N → Bool) : P N (Tok N) := fun st =>
  match st.toks with
  | t :: ts => if m t then .ok (t, { st with toks := ts, last := t.after }) else .crash .parseConsume
  | [] => .crash .parseConsume

/-- the `take_while_ref(|tok| tok.id != token).for_each(drop)` of `match_until_next` -/
def dropUntil (k : TK) (eof : Snap) : List (Tok N) → Snap → List (Tok N) × Snap
  | [], _ => ([], eof)
  | t :: ts, last => if t.kind == k then (t :: ts, last) else dropUntil k eof ts t.after

/-- `match_until_next` -/
def matchUntilNext (k : TK) : P N (Option (Tok N)) := fun st =>
  let p := dropUntil k st.eof st.toks st.last
  .ok (p.1.head?, { st with toks := p.1, last := p.2 })

/-- `expect_token` -/
def expectToken (k : TK) : P N (Tok N) := do
  let t ← matchAndConsume (isKind k)
  match t with
  | some t => pure t
  | none => failWith (.expectedToken k)

/-- `expect_token_or_end` -/
def expectTokenOrEnd (k : TK) : P N (Option (Tok N)) := do
  let cur ← current
  match cur with
  | some t => if t.kind == k then advance else failWith (.expectedToken k)
  | none => pure none

/-- `expect_any` -/
def expectAny (ks : List TK) : P N (Tok N) := do
  let t ← matchAndConsume (isAnyKind ks)
  match t with
  | some t => pure t
  | none => failWith (.expectedOneOfTokens ks)

/-- `expect_eol` -/
def expectEol : P N Unit := do
  let _ ← matchAndConsume (isAnyKind [.comma, .dot])
  let _ ← expectTokenOrEnd .newline
  pure ()

/-! ### operator tables -/

def getUnaryOperator : TK → Option UnOp
  | .minus => some .minus
  | .not => some .not
  | _ => none

def getBinaryOperator : TK → Option BinOp
  | .plus => some .plus
  | .with_ => some .plus
  | .minus => some .minus
  | .multiply => some .multiply
  | .divide => some .divide
  | .and => some .and
  | .or => some .or
  | .nor => some .nor
  | .greater => some .greater
  | .bigger => some .greater
  | .greaterEq => some .greaterEq
  | .big => some .greaterEq
  | .less => some .less
  | .smaller => some .less
  | .lessEq => some .lessEq
  | .small => some .lessEq
  | .isnt => some .notEq
  | _ => none

def getMutationOperator : TK → Option MutOp
  | .cut => some .cut
  | .join => some .join
  | .cast => some .cast
  | _ => none

def getRoundingDirection : TK → Option RoundDir
  | .up => some .up
  | .down => some .down
  | .round => some .nearest
  | _ => none

/-- `is_literal_word` -/
def isLiteralWord : TK → Bool
  | .mysterious | .null | .number | .stringLit | .empty | .true_ | .false_ => true
  | _ => false

/-- `is_function_terminator` -/
def isFunctionTerminator : Stmt N → Bool
  | .ifS _ _ (some _) => true
  | _ => false

/-! ### levels of the expression ladder (first-order stand-ins for the `next` closures) -/

/-- which `parse_binary_expression(_loop)` / `parse_expression_list` instance we are in -/
inductive Level
  | logical      -- operators `and or nor`, operand = comparison expression
  | comparison   -- operators `< <= > >= isnt`, operand = term
  | term         -- operators `+ with -`, operand = factor
  | factor       -- operators `* /`, operand = unary expression
  | toplevel     -- no operators (`parse_toplevel_expression_list`), operand = expression
  deriving DecidableEq, Repr, Inhabited

def opsOf : Level → List TK
  | .logical => [.and, .or, .nor]
  | .comparison => [.less, .lessEq, .greater, .greaterEq, .isnt]
  | .term => [.plus, .with_, .minus]
  | .factor => [.multiply, .divide]
  | .toplevel => []

/-- The functions that are called "upwards or around a loop". -/
structure Rec (N : Type) where
  unary : P N (Expr N)
  primary : P N (Primary N)
  /-- `parse_array_subscript_after` applied to an `ArraySubscript { array, subscript }` -/
  subscriptChain : Primary N → Primary N → P N (Primary N × Primary N)
  binLoop : Level → Expr N → P N (Expr N)
  listLoop : Level → P N (List (Expr N))
  fancyLoop : Expr N → P N (Expr N)
  argsLoop : P N (List (Expr N))
  paramsLoop : P N (List (VarName × Range))
  poeticLoop : P N (List PoeticElem)
  buildKnockLoop : TK → P N Nat
  capitalizedLoop : P N (List (Str × Range))
  block : P N (Block N)
  functionBlock : P N (Block N)
  stmtLoop : P N (List (Stmt N))
  fnStmtLoop : P N (List (Stmt N))
  topLoop : P N (List (Block N))
  /-- entry points -/
  expression : P N (Expr N)
  program : P N (Program N)

variable [CharOps]

/-- `Token::is_ispelled`. Its `assert!(text.chars().all(|c| c.is_lowercase()))` concerns the
    *literal* argument, which is one of "it", "the", "give": trivially true, not modelled. -/
def isIspelled (text : Str) (t : Tok N) : Bool := CharOps.lower t.spelling == text

/-- `expect_token_ispelled` -/
def expectTokenIspelled (text : Str) : P N (Tok N) := do
  let t ← matchAndConsume (isIspelled text)
  match t with
  | some t => pure t
  | none => failWith (.expectedText text)

/-! ### identifiers and literals -/

/-- `parse_pronoun` -/
def parsePronoun : P N (Option (Ident × Range)) := do
  let t ← matchAndConsume (isKind .pronoun)
  match t with
  | some tok => pure (some (.pronoun, tok.range))
  | none => pure none

/-- the literal denoted by a token (`None` for other kinds). A `Number` token always carries
    its value (lexer); a malformed one is not a literal. -/
def literalOf (t : Tok N) : Option (Lit N) :=
  match t.kind with
  | .mysterious => some .mysterious
  | .null => some .null
  | .number => t.num.map Lit.num
  | .stringLit => some (.str t.text)
  | .empty => some (.str [])
  | .true_ => some (.bool true)
  | .false_ => some (.bool false)
  | _ => none

/-- `parse_literal_expression` -/
def parseLiteralExpression : P N (Option (Lit N × Range)) := do
  let cur ← current
  match cur with
  | none => pure none
  | some token =>
    match literalOf token with
    | none => pure none
    | some l => do
      let _ ← advance
      pure (some (l, token.range))

/-- `parse_common_identifier` -/
def parseCommonIdentifier : P N (Option (VarName × Range)) := do
  let pre ← matchAndConsume (isKind .commonPrefix)
  match pre with
  | none => pure none
  | some pre => do
    let next ← matchAndConsume (fun tok => isWord tok.spelling)
    match next with
    | none => failWith (.missingIDAfterCommonPrefix pre.spelling)
    | some next => pure (some (.common pre.spelling next.spelling, pre.range.concat next.range))

/-- `parse_simple_identifier` -/
def parseSimpleIdentifier : P N (Option (VarName × Range)) := do
  let t ← matchAndConsume (isKind .word)
  match t with
  | some tok => pure (some (.simple tok.spelling, tok.range))
  | none => pure none

/-- the predicate of `parse_capitalized_identifier`:
    `tok.id.is_word() && tok.spelling.chars().next().unwrap().is_uppercase()` -/
def isCapitalizedWord (tok : Tok N) : Outcome Unit Bool :=
  if tok.kind == .word then
    match tok.spelling with
    | [] => .crash .parseCapFirstChar          -- `tok.spelling.chars().next().unwrap()`
    | c :: _ => .ok (CharOps.isUppercase c)
  else .ok false

/-- one round of the `match_and_consume_while` in `parse_capitalized_identifier` -/
def capitalizedLoopBody (rec : Rec N) : P N (List (Str × Range)) := do
  let t ← matchAndConsumeP isCapitalizedWord
  match t with
  | none => pure []
  | some tok => do
    let rest ← rec.capitalizedLoop
    pure ((tok.spelling, tok.range) :: rest)

/-- `AccumulatedRange::acc` folded over the ranges -/
def accRanges (rs : List Range) : Option Range :=
  rs.foldl (fun acc r => some (match acc with | some sr => sr.concat r | none => r)) none

/-- `parse_capitalized_identifier` -/
def parseCapitalizedIdentifier (rec : Rec N) : P N (Option (VarName × Range)) := do
  let names ← capitalizedLoopBody rec
  match names with
  | [] => pure none
  | [_] => do
    let first ← P.ofOption .parseTakeFirst (names.map Prod.fst).head?     -- `take_first(names)`
    let range ← P.ofOption .parseExtractRange (accRanges (names.map Prod.snd))
    pure (some (.simple first, range))
  | _ :: _ :: _ => do
    let range ← P.ofOption .parseExtractRange (accRanges (names.map Prod.snd))
    pure (some (.proper (names.map Prod.fst), range))

/-- `parse_variable_name` -/
def parseVariableName (rec : Rec N) : P N (Option (VarName × Range)) := do
  let c ← parseCommonIdentifier
  match c with
  | some v => pure (some v)
  | none => do
    let c ← parseCapitalizedIdentifier rec
    match c with
    | some v => pure (some v)
    | none => parseSimpleIdentifier

/-- `parse_identifier` -/
def parseIdentifier (rec : Rec N) : P N (Option (Ident × Range)) := do
  let v ← parseVariableName rec
  match v with
  | some (v, r) => pure (some (.var v, r))
  | none => parsePronoun

/-- `expect_identifier` -/
def expectIdentifier (rec : Rec N) : P N (Ident × Range) := do
  let i ← parseIdentifier rec
  match i with
  | some i => pure i
  | none => failWith .expectedIdentifier

/-- `expect_variable_name` -/
def expectVariableName (rec : Rec N) : P N (VarName × Range) := do
  let v ← parseVariableName rec
  match v with
  | some v => pure v
  | none => failWith .expectedIdentifier

/-! ### parameter lists, calls, primary expressions -/

/-- `parameter_seps` -/
def parameterSeps (requireComma : Bool) : List TK :=
  if requireComma then [.ampersand, .comma, .apostropheNApostrophe]
  else [.ampersand, .comma, .apostropheNApostrophe, .and]

/-- one round of the `while let Some(sep)` loop of `parse_parameter_list` -/
def paramLoopBody {α : Type} (p : P N α) (again : P N (List α)) (requireComma : Bool) :
    P N (List α) := do
  let sep ← matchAndConsume (isAnyKind (parameterSeps requireComma))
  match sep with
  | none => pure []
  | some sep => do
    let _ ← if sep.kind == .comma then matchAndConsume (isKind .and) else pure none
    let x ← p
    let xs ← again
    pure (x :: xs)

/-- `parse_parameter_list` -/
def parseParameterList {α : Type} (p : P N α) (again : P N (List α)) (requireComma : Bool) :
    P N (List α) := do
  let x ← p
  let xs ← paramLoopBody p again requireComma
  pure (x :: xs)

/-- loop round of `parse_rest_of_function_call` -/
def argsLoopBody (rec : Rec N) : P N (List (Expr N)) :=
  paramLoopBody rec.unary rec.argsLoop false

/-- `parse_function_call` (+ `parse_rest_of_function_call`) -/
def parseFunctionCall (rec : Rec N) : P N (List (Expr N)) := do
  let _ ← consume (isKind .taking)
  parseParameterList rec.unary rec.argsLoop false

/-- `parse_identifier_or_function_call` -/
def parseIdentifierOrFunctionCall (rec : Rec N) : P N (Option (Primary N)) := do
  let p ← parsePronoun
  match p with
  | some (i, r) => pure (some (.ident i r))
  | none => do
    let v ← parseVariableName rec
    match v with
    | none => pure none
    | some (name, r) => do
      let taking ← currentMatches (isKind .taking)
      if taking then do
        let args ← parseFunctionCall rec
        pure (some (.call name r args))
      else pure (some (.ident (.var name) r))

/-- `parse_array_pop_expr` -/
def parseArrayPopExpr (rec : Rec N) : P N (Option (Primary N)) := do
  let t ← matchAndConsume (isKind .roll)
  match t with
  | none => pure none
  | some _ => do
    let e ← rec.primary
    pure (some e)

/-- `parse_non_subscript_primary_expression` -/
def parseNonSubscriptPrimary (rec : Rec N) : P N (Primary N) := do
  let e ← parseIdentifierOrFunctionCall rec
  match e with
  | some e => pure e
  | none => do
    let l ← parseLiteralExpression
    match l with
    | some (l, r) => pure (.lit l r)
    | none => do
      let a ← parseArrayPopExpr rec
      match a with
      | some a => pure (.pop a)
      | none => failWith .expectedPrimaryExpression

/-- `parse_array_subscript_after` applied to `ArraySubscript { array, subscript }` -/
def subscriptChain (rec : Rec N) (arr idx : Primary N) : P N (Primary N × Primary N) := do
  let t ← matchAndConsume (isKind .at)
  match t with
  | none => pure (arr, idx)
  | some _ => do
    let s ← parseNonSubscriptPrimary rec
    rec.subscriptChain (.sub arr idx) s

/-- `parse_array_subscript_after::<PrimaryExpression>` -/
def parseArraySubscriptAfter (rec : Rec N) (expr : Primary N) : P N (Primary N) := do
  let t ← matchAndConsume (isKind .at)
  match t with
  | none => pure expr
  | some _ => do
    let s ← parseNonSubscriptPrimary rec
    let (a, i) ← subscriptChain rec expr s
    pure (.sub a i)

/-- `parse_assignment_lhs_with` = `parse_array_subscript_after::<AssignmentLHS>` on an identifier -/
def parseAssignmentLhsWith (rec : Rec N) (i : Ident) (r : Range) : P N (Lhs N) := do
  let t ← matchAndConsume (isKind .at)
  match t with
  | none => pure (.ident i r)
  | some _ => do
    let s ← parseNonSubscriptPrimary rec
    let (a, i) ← subscriptChain rec (.ident i r) s
    pure (.sub a i)

/-- `parse_assignment_lhs` -/
def parseAssignmentLhs (rec : Rec N) : P N (Lhs N) := do
  let (i, r) ← expectIdentifier rec
  parseAssignmentLhsWith rec i r

/-- `parse_primary_expression` -/
def parsePrimary (rec : Rec N) : P N (Primary N) := do
  let e ← parseNonSubscriptPrimary rec
  parseArraySubscriptAfter rec e

/-! ### the expression ladder -/

/-- `parse_unary_expression` -/
def parseUnary (rec : Rec N) : P N (Expr N) := do
  let t ← matchAndConsume (isAnyKind [.minus, .not])
  match t with
  | some tok => do
    let op ← P.ofOption .parseOpUnwrap (getUnaryOperator tok.kind)
    let e ← rec.unary
    pure (.un op e)
  | none => do
    let p ← parsePrimary rec
    pure (.prim p)

/-- one round of the `while let Some(e)` loop of `parse_expression_list` -/
def listLoopBody (rec : Rec N) (lvl : Level) (next : P N (Expr N)) : P N (List (Expr N)) := do
  let c ← matchAndConsume (isKind .comma)
  match c with
  | none => pure []
  | some _ => do
    let _ ← matchAndConsume (isKind .and)
    let e ← next
    let es ← rec.listLoop lvl
    pure (e :: es)

def getParsingList : P N Bool := fun st => .ok (st.parsingList, st)
def setParsingList (b : Bool) : P N Unit := fun st => .ok ((), { st with parsingList := b })

/-- `parse_expression_list` -/
def parseExpressionList (rec : Rec N) (lvl : Level) (next : P N (Expr N)) : P N (ExprList N) := do
  let first ← next
  let wasParsingList ← getParsingList
  let rest ←
    if wasParsingList then pure []
    else do
      setParsingList true           -- nested lists are not allowed
      listLoopBody rec lvl next
  setParsingList wasParsingList
  pure ⟨first, rest⟩

/-- one round of `parse_binary_expression_loop` -/
def binLoopBody (rec : Rec N) (lvl : Level) (next : P N (Expr N)) (expr : Expr N) : P N (Expr N) := do
  let t ← matchAndConsume (isAnyKind (opsOf lvl))
  match t with
  | none => pure expr
  | some tok => do
    let op ← P.ofOption .parseOpUnwrap (getBinaryOperator tok.kind)
    let rhs ← parseExpressionList rec lvl next
    rec.binLoop lvl (.bin op expr rhs.first rhs.rest)

/-- `parse_binary_expression` -/
def parseBinaryExpression (rec : Rec N) (lvl : Level) (next : P N (Expr N)) : P N (Expr N) := do
  let e ← next
  binLoopBody rec lvl next e

/-- `parse_factor` -/
def parseFactor (rec : Rec N) : P N (Expr N) := parseBinaryExpression rec .factor (parseUnary rec)

/-- `parse_term` -/
def parseTerm (rec : Rec N) : P N (Expr N) := parseBinaryExpression rec .term (parseFactor rec)

def isOperators : List TK := [.is, .apostropheS, .apostropheRE]

/-- `parse_fancy_comparison_expression` -/
def parseFancyComparison (rec : Rec N) (lhs : Expr N) : P N (Expr N) := do
  let a ← matchAndConsume (isKind .as)
  let op ←
    match a with
    | some _ => do
      let t ← expectAny [.big, .small]
      let op ← P.ofOption .parseOpUnwrap (getBinaryOperator t.kind)
      let _ ← expectToken .as
      pure op
    | none => do
      let b ← matchAndConsume (isAnyKind [.bigger, .smaller])
      match b with
      | some tok => do
        let op ← P.ofOption .parseOpUnwrap (getBinaryOperator tok.kind)
        let _ ← expectToken .than
        pure op
      | none => do
        let n ← matchAndConsume (isKind .not)
        match n with
        | some _ => pure BinOp.notEq
        | none => pure BinOp.eq
  let rhs ← parseTerm rec
  pure (.bin op lhs rhs [])

/-- one round of the `while` loop of `parse_comparison_expression` -/
def fancyLoopBody (rec : Rec N) (expr : Expr N) : P N (Expr N) := do
  let t ← matchAndConsume (isAnyKind isOperators)
  match t with
  | none => pure expr
  | some _ => do
    let e ← parseFancyComparison rec expr
    rec.fancyLoop e

/-- `parse_comparison_expression` -/
def parseComparison (rec : Rec N) : P N (Expr N) := do
  let expr ← parseTerm rec
  let t ← matchAndConsume (isAnyKind isOperators)
  match t with
  | some _ => do
    let e ← parseFancyComparison rec expr
    fancyLoopBody rec e
  | none => binLoopBody rec .comparison (parseTerm rec) expr

/-- `parse_logical_expression` -/
def parseLogical (rec : Rec N) : P N (Expr N) :=
  parseBinaryExpression rec .logical (parseComparison rec)

/-- `parse_expression` -/
def parseExpression (rec : Rec N) : P N (Expr N) := parseLogical rec

/-- `parse_toplevel_expression_list` -/
def parseToplevelExpressionList (rec : Rec N) : P N (ExprList N) :=
  parseExpressionList rec .toplevel (parseExpression rec)

/-- the `next` closure of each level -/
def operandOf (rec : Rec N) : Level → P N (Expr N)
  | .factor => parseUnary rec
  | .term => parseFactor rec
  | .comparison => parseTerm rec
  | .logical => parseComparison rec
  | .toplevel => parseExpression rec

/-! ### statements -/

/-- `parse_put_assignment` -/
def parsePutAssignment (rec : Rec N) : P N (Stmt N) := do
  let _ ← consume (isKind .put)
  let value ← parseExpression rec
  let _ ← expectToken .into
  let dest ← parseAssignmentLhs rec
  pure (.assign dest none ⟨value, []⟩)

/-- `parse_let_assignment` -/
def parseLetAssignment (rec : Rec N) : P N (Stmt N) := do
  let _ ← consume (isKind .let_)
  let dest ← parseAssignmentLhs rec
  let _ ← expectToken .be
  let t ← matchAndConsume (isAnyKind [.plus, .with_, .minus, .multiply, .divide])
  let op ←
    match t with
    | some tok => do
      let op ← P.ofOption .parseOpUnwrap (getBinaryOperator tok.kind)
      pure (some op)
    | none => pure none
  let value ← parseToplevelExpressionList rec
  pure (.assign dest op value)

/-- `is_poetic_number_literal_token` -/
def isPoeticNumberLiteralToken (tok : Tok N) : Bool :=
  match tok.kind with
  | .dot | .comma | .apostropheS | .apostropheRE => true
  | _ => if isHyphen tok then true else isWord tok.spelling

/-- one round of the `match_and_consume_while` of `parse_poetic_number_literal` (the `tx`
    closure inlined) -/
def poeticLoopBody (rec : Rec N) : P N (List PoeticElem) := do
  let t ← matchAndConsume isPoeticNumberLiteralToken
  match t with
  | none => pure []
  | some tok => do
    let elem : Option PoeticElem ←
      match tok.kind with
      | .comma => pure none
      | .dot => pure (some .dot)
      | .apostropheS => pure (some (.suffix tok.spelling))
      | .apostropheRE => pure (some (.suffix tok.spelling))
      | _ =>
        if isHyphen tok then do
          let next ← advance                         -- `myself.lexer.next()`
          match next with
          | none => failWith .poeticLiteralEndingWithHyphen
          | some nextToken =>
            if isWord nextToken.spelling then pure (some (.suffix ('-' :: nextToken.spelling)))
            else P.fail ⟨.unexpectedToken, .token nextToken⟩
        else pure (some (.word tok.spelling))
    let rest ← rec.poeticLoop
    match elem with
    | some e => pure (e :: rest)
    | none => pure rest

/-- `parse_poetic_number_literal` -/
def parsePoeticNumberLiteral (rec : Rec N) : P N (List PoeticElem) := do
  let cur ← current
  let startsWithHyphen := match cur with
    | some tok => isHyphen tok
    | none => false
  if startsWithHyphen then failWith .poeticLiteralStartingWithHyphen
  else do
    let elems ← poeticLoopBody rec
    if elems.isEmpty then failWith .expectedPoeticNumberLiteral else pure elems

/-- `is_current_negative_number` -/
def isCurrentNegativeNumber : P N Bool := fun st =>
  match st.toks with
  | [] => .crash .parseNegNumber
  | first :: rest =>
    .ok (isHyphen first && (match rest with | t :: _ => t.kind == .number | [] => false), st)

/-- `parse_poetic_number_assignment_rhs` -/
def parsePoeticNumberAssignmentRhs (rec : Rec N) : P N (PoeticRhs N) := do
  let cur ← currentOrError
  let asExpression ← if isLiteralWord cur.kind then pure true else isCurrentNegativeNumber
  if asExpression then do
    let e ← parseExpression rec
    pure (.expr e)
  else do
    let l ← parsePoeticNumberLiteral rec
    pure (.lit l)

/-- `get_literal_text_between(says, end)` / `get_literal_text_after(says)` -/
def literalTextOf (src : Str) (saysToken : Tok N) (stop : Option (Tok N)) : Option Str :=
  match stop with
  | some stopTok => substr src saysToken.start stopTok.start   -- `get_literal_text_between`
  | none => substr src saysToken.start (ulen src)              -- `get_literal_text_after`

/-- … and the `unwrap` of that text -/
def getLiteralText (saysToken : Tok N) (stop : Option (Tok N)) : P N Str := fun st =>
  match literalTextOf st.src saysToken stop with
  | some t => .ok (t, st)
  | none => .crash .parsePoeticText

/-- `parse_poetic_string_assignment_rhs` -/
def parsePoeticStringAssignmentRhs (saysToken : Tok N) : P N Str := do
  let stop ← matchUntilNext .newline
  let text ← getLiteralText saysToken stop
  let afterSays ← P.ofOption .parsePoeticText (stripPrefix? saysToken.spelling text)
  match stripPrefix? [' '] afterSays with
  | some rhs => pure rhs
  | none => failWith (.expectedSpaceAfterSays saysToken)

/-- `parse_poetic_assignment` -/
def parsePoeticAssignment (rec : Rec N) (i : Ident) (r : Range) : P N (Stmt N) := do
  let dest ← parseAssignmentLhsWith rec i r
  let token ← expectAny [.is, .apostropheS, .apostropheRE, .says, .say]
  if token.kind == .says || token.kind == .say then do
    let rhs ← parsePoeticStringAssignmentRhs token
    pure (.poeticStr dest rhs)
  else do
    let rhs ← parsePoeticNumberAssignmentRhs rec
    pure (.poeticNum dest rhs)

/-- `parse_function` -/
def parseFunction (rec : Rec N) (name : VarName) (r : Range) : P N (Stmt N) := do
  let _ ← consume (isKind .takes)
  let params ← parseParameterList (expectVariableName rec) rec.paramsLoop false
  expectEol
  let body ← rec.functionBlock
  pure (.func name r params body)

/-- loop round of the parameter list of `parse_function` -/
def paramsLoopBody (rec : Rec N) : P N (List (VarName × Range)) :=
  paramLoopBody (expectVariableName rec) rec.paramsLoop false

/-- `as_variable_name` -/
def asVariableName (i : Ident) (r : Range) : P N (VarName × Range) :=
  match i with
  | .var v => pure (v, r)
  | .pronoun => failWith .expectedIdentifier

/-- `parse_statement_starting_with_word` -/
def parseStatementStartingWithWord (rec : Rec N) : P N (Stmt N) := do
  let (i, r) ← expectIdentifier rec
  let cur ← current
  let kind : Option TK := cur.map (fun t => t.kind)
  match kind with
  | some .takes => do
    let (name, r) ← asVariableName i r
    parseFunction rec name r
  | some .taking => do
    let (name, r) ← asVariableName i r
    let args ← parseFunctionCall rec
    pure (.call name r args)
  | _ => parsePoeticAssignment rec i r

/-- `parse_if_statement` -/
def parseIfStatement (rec : Rec N) : P N (Stmt N) := do
  let _ ← consume (isKind .if_)
  let condition ← parseExpression rec
  expectEol
  let thenBlock ← rec.block
  let e ← matchAndConsume (isKind .else_)
  let elseBlock ←
    match e with
    | some _ => do
      let _ ← expectTokenOrEnd .newline
      let b ← rec.block
      pure (some b)
    | none => pure none
  pure (.ifS condition thenBlock elseBlock)

/-- `parse_loop` -/
def parseLoop (rec : Rec N) (startKind : TK) : P N (Stmt N) := do
  let _ ← consume (isAnyKind [.while_, .until_])
  let condition ← parseExpression rec
  expectEol
  let block ← rec.block
  if startKind == .while_ then pure (.whileS condition block) else pure (.untilS condition block)

/-- one round of the counting loop of `parse_build_knock_helper` -/
def buildKnockLoopBody (rec : Rec N) (suffix : TK) : P N Nat := do
  let t ← matchAndConsume (isKind suffix)
  match t with
  | none => pure 0
  | some _ => do
    let _ ← matchAndConsume (isKind .comma)
    let n ← rec.buildKnockLoop suffix
    pure (n + 1)

/-- `parse_build_knock_helper` -/
def parseBuildKnockHelper (rec : Rec N) (begin suffix : TK) : P N (Ident × Range × Int) := do
  let _ ← consume (isKind begin)
  let (dest, r) ← expectIdentifier rec
  let _ ← expectToken suffix
  let _ ← matchAndConsume (isKind .comma)
  let extraCount ← buildKnockLoopBody rec suffix
  pure (dest, r, 1 + Int.ofNat extraCount)

/-- `parse_build` -/
def parseBuild (rec : Rec N) : P N (Stmt N) := do
  let (dest, r, amount) ← parseBuildKnockHelper rec .build .up
  pure (.inc dest r amount)

/-- `parse_knock` -/
def parseKnock (rec : Rec N) : P N (Stmt N) := do
  let (dest, r, amount) ← parseBuildKnockHelper rec .knock .down
  pure (.dec dest r amount)

/-- `parse_say` -/
def parseSay (rec : Rec N) : P N (Stmt N) := do
  let _ ← consume (isAnyKind [.say, .sayAlias])
  let value ← parseExpression rec
  pure (.output value)

/-- `parse_listen` -/
def parseListen (rec : Rec N) : P N (Stmt N) := do
  let _ ← consume (isKind .listen)
  let t ← matchAndConsume (isKind .to)
  match t with
  | some _ => do
    let dest ← parseAssignmentLhs rec
    pure (.input (some dest) default)
  | none => do
    let loc ← currentLoc
    pure (.input none loc)

/-- `check_mutation_args` -/
def checkMutationArgs (operand : Primary N) (dest : Option (Lhs N)) : P N Unit :=
  match dest with
  | some _ => pure ()
  | none =>
    match operand with
    | .ident _ _ => pure ()
    | _ => failWith (.mutationOperandMustBeIdentifier operand)

/-- `parse_mutation` -/
def parseMutation (rec : Rec N) : P N (Stmt N) := do
  let tok ← consume (isAnyKind [.cut, .join, .cast])
  let operator ← P.ofOption .parseOpUnwrap (getMutationOperator tok.kind)
  let operand ← parsePrimary rec
  let i ← matchAndConsume (isKind .into)
  let dest ←
    match i with
    | some _ => do
      let d ← parseAssignmentLhs rec
      pure (some d)
    | none => pure none
  checkMutationArgs operand dest
  let w ← matchAndConsume (isKind .with_)
  let param ←
    match w with
    | some _ => do
      let e ← parseExpression rec
      pure (some e)
    | none => pure none
  pure (.mutation operator operand dest param)

/-- `parse_rounding_direction` -/
def parseRoundingDirection : P N (Option RoundDir) := do
  let t ← matchAndConsume (isAnyKind [.up, .down, .round])
  match t with
  | some tok => pure (getRoundingDirection tok.kind)
  | none => pure none

/-- `parse_rounding` -/
def parseRounding (rec : Rec N) : P N (Stmt N) := do
  let _ ← consume (isKind .turn)
  let direction ← parseRoundingDirection
  let operand ← parseExpression rec
  let direction ←
    match direction with
    | some d => pure (some d)
    | none => parseRoundingDirection
  match direction with
  | some d => pure (.rounding d operand)
  | none => failWith (.expectedOneOfTokens [.up, .down, .round])

/-- `parse_break` -/
def parseBreak : P N (Stmt N) := do
  let start ← consume (isKind .break_)
  let it ← matchAndConsume (isIspelled (str% "it"))
  match it with
  | some _ => do
    let stop ← expectToken .down
    pure (.break_ (start.range.concat stop.range))
  | none => pure (.break_ start.range)

/-- `parse_simple_continue` -/
def parseSimpleContinue : P N (Stmt N) := do
  let t ← consume (isKind .continue_)
  pure (.continue_ t.range)

/-- `parse_take_it_to_the_top` -/
def parseTakeItToTheTop : P N (Stmt N) := do
  let start ← consume (isKind .take)
  let _ ← expectTokenIspelled (str% "it")
  let _ ← expectToken .to
  let _ ← expectTokenIspelled (str% "the")
  let stop ← expectToken .top
  pure (.continue_ (start.range.concat stop.range))

/-- `parse_array_push_rhs` -/
def parseArrayPushRhs (rec : Rec N) : P N (Option (PushRhs N)) := do
  let t ← matchAndConsume (isAnyKind [.with_, .like])
  match t with
  | none => pure none
  | some tok =>
    match tok.kind with
    | .with_ => do
      let l ← parseToplevelExpressionList rec
      pure (some (.list l))
    | .like => do
      let l ← parsePoeticNumberLiteral rec
      pure (some (.lit l))
    | _ => P.crash .parsePushRhs

/-- `parse_array_push` -/
def parseArrayPush (rec : Rec N) : P N (Stmt N) := do
  let _ ← consume (isKind .rock)
  let array ← parsePrimary rec
  let value ← parseArrayPushRhs rec
  pure (.push array value)

/-- `parse_array_pop` -/
def parseArrayPop (rec : Rec N) : P N (Stmt N) := do
  let _ ← consume (isKind .roll)
  let expr ← parsePrimary rec
  let i ← matchAndConsume (isKind .into)
  let dest ←
    match i with
    | some _ => do
      let d ← parseAssignmentLhs rec
      pure (some d)
    | none => pure none
  pure (.pop expr dest)

/-- `parse_return` -/
def parseReturn (rec : Rec N) : P N (Stmt N) := do
  let returnToken ← consume (isKind .return_)
  let _ ← if isIspelled (str% "give") returnToken then matchAndConsume (isKind .back) else pure none
  let value ← parseExpression rec
  let _ ← matchAndConsume (isKind .back)
  pure (.ret value)

/-- `parse_statement`: `None` on `Else`/`Newline`/end WITHOUT consuming -/
def parseStatement (rec : Rec N) : P N (Option (Stmt N)) := do
  let cur ← current
  match cur with
  | none => pure none
  | some tok =>
    match tok.kind with
    | .put => some <$> parsePutAssignment rec
    | .let_ => some <$> parseLetAssignment rec
    | .word => some <$> parseStatementStartingWithWord rec
    | .commonPrefix => some <$> parseStatementStartingWithWord rec
    | .pronoun => some <$> parseStatementStartingWithWord rec
    | .if_ => some <$> parseIfStatement rec
    | .while_ => some <$> parseLoop rec tok.kind
    | .until_ => some <$> parseLoop rec tok.kind
    | .else_ => pure none
    | .newline => pure none
    | .build => some <$> parseBuild rec
    | .knock => some <$> parseKnock rec
    | .say => some <$> parseSay rec
    | .sayAlias => some <$> parseSay rec
    | .listen => some <$> parseListen rec
    | .cut => some <$> parseMutation rec
    | .join => some <$> parseMutation rec
    | .cast => some <$> parseMutation rec
    | .turn => some <$> parseRounding rec
    | .break_ => some <$> parseBreak
    | .continue_ => some <$> parseSimpleContinue
    | .take => some <$> parseTakeItToTheTop
    | .rock => some <$> parseArrayPush rec
    | .roll => some <$> parseArrayPop rec
    | .return_ => some <$> parseReturn rec
    | _ =>
      -- the error is built before the offending token is consumed
      failWith .unexpectedToken

/-- one round of the statement loop of `parse_block` -/
def stmtLoopBody (rec : Rec N) : P N (List (Stmt N)) := do
  let s ← parseStatement rec
  match s with
  | none => pure []
  | some s => do
    expectEol
    let rest ← rec.stmtLoop
    pure (s :: rest)

/-- `parse_block` -/
def parseBlock (rec : Rec N) : P N (Block N) := do
  let loc ← currentLoc
  let nl ← matchAndConsume (isKind .newline)
  match nl with
  | some _ => pure (.mk loc [])
  | none => do
    let statements ← stmtLoopBody rec
    pure (.mk loc statements)

/-- one round of the statement loop of `parse_function_block` -/
def fnStmtLoopBody (rec : Rec N) : P N (List (Stmt N)) := do
  let s ← parseStatement rec
  match s with
  | none => pure []
  | some s =>
    if isFunctionTerminator s then pure [s]
    else do
      expectEol
      let rest ← rec.fnStmtLoop
      pure (s :: rest)

/-- `parse_function_block` -/
def parseFunctionBlock (rec : Rec N) : P N (Block N) := do
  let loc ← currentLoc
  let nl ← matchAndConsume (isKind .newline)
  match nl with
  | some _ => pure (.mk loc [])
  | none => do
    let statements ← fnStmtLoopBody rec
    pure (.mk loc statements)

/-- the rest of a round of the loop of `Parser::parse`, after `parse_block` -/
def topLoopAfterBlock (rec : Rec N) (block : Block N) : P N (List (Block N)) := do
  -- an `else` that no `if` claimed would otherwise never be consumed
  let strayElse ← currentMatches (isKind .else_)
  if strayElse then failWith .unexpectedToken
  else do
    let rest ← rec.topLoop
    if block.isEmpty then pure rest else pure (block :: rest)

/-- one round of the `while self.current().is_some()` loop of `Parser::parse` -/
def topLoopBody (rec : Rec N) : P N (List (Block N)) := do
  let cur ← current
  match cur with
  | none => pure []
  | some _ => do
    let block ← parseBlock rec
    topLoopAfterBlock rec block

/-- `Parser::parse` -/
def parseProgramBody (rec : Rec N) : P N (Program N) := do
  let blocks ← topLoopBody rec
  pure ⟨blocks⟩

/-! ### tying the knot -/

/-- the record built from the non-recursive functions instantiated with `r` -/
def mkRec (r : Rec N) : Rec N where
  unary := parseUnary r
  primary := parsePrimary r
  subscriptChain := subscriptChain r
  binLoop := fun lvl e => binLoopBody r lvl (operandOf r lvl) e
  listLoop := fun lvl => listLoopBody r lvl (operandOf r lvl)
  fancyLoop := fancyLoopBody r
  argsLoop := argsLoopBody r
  paramsLoop := paramsLoopBody r
  poeticLoop := poeticLoopBody r
  buildKnockLoop := buildKnockLoopBody r
  capitalizedLoop := capitalizedLoopBody r
  block := parseBlock r
  functionBlock := parseFunctionBlock r
  stmtLoop := stmtLoopBody r
  fnStmtLoop := fnStmtLoopBody r
  topLoop := topLoopBody r
  expression := parseExpression r
  program := parseProgramBody r

/-- out of fuel everywhere -/
def fuelRec : Rec N where
  unary := P.fuel
  primary := P.fuel
  subscriptChain := fun _ _ => P.fuel
  binLoop := fun _ _ => P.fuel
  listLoop := fun _ => P.fuel
  fancyLoop := fun _ => P.fuel
  argsLoop := P.fuel
  paramsLoop := P.fuel
  poeticLoop := P.fuel
  buildKnockLoop := fun _ => P.fuel
  capitalizedLoop := P.fuel
  block := P.fuel
  functionBlock := P.fuel
  stmtLoop := P.fuel
  fnStmtLoop := P.fuel
  topLoop := P.fuel
  expression := P.fuel
  program := P.fuel

/-- the parser with recursion depth `n` -/
def parser : Nat → Rec N
  | 0 => fuelRec
  | n + 1 => mkRec (parser n)

/-- the tokens the `CommentSkippingLexer` lets through -/
def skipComments (raw : List (Tok N)) : List (Tok N) := raw.filter (fun t => t.kind != .comment)

/-- initial parser state for a lexed source -/
def initState (src : Str) (raw : List (Tok N)) : PState N :=
  { src := src, toks := skipComments raw, last := ⟨1, 0, 0⟩, eof := Lexer.eofSnap src raw,
    parsingList := false }

/-- run a parser entry point on a source text: lex, filter comments, run with
    fuel `#tokens + 2` (see the invariant in the header) -/
def runOn {α : Type} [NumOps N] (entry : Rec N → P N α) (kw : List (Str × TK)) (src : Str) :
    Outcome (ParseErr N) α :=
  match Lexer.lexAll kw src with
  | .ok raw =>
    let st := initState src raw
    match entry (parser (st.toks.length + 2)) st with
    | .ok (a, _) => .ok a
    | .err e => .err e
    | .crash s => .crash s
    | .fuel => .fuel
    | .resource => .resource
  | .err _ => .resource          -- the lexer has no errors
  | .crash s => .crash s         -- a lexer crash propagates
  | .fuel => .fuel
  | .resource => .resource

/-- `parser::parse` -/
def parseProgram [NumOps N] (kw : List (Str × TK)) (src : Str) : Outcome (ParseErr N) (Program N) :=
  runOn (fun r => r.program) kw src

/-- `Parser::for_source_code(text).parse_expression()` -/
def parseExpressionSrc [NumOps N] (kw : List (Str × TK)) (src : Str) : Outcome (ParseErr N) (Expr N) :=
  runOn (fun r => r.expression) kw src

end

end Parser
end Rrss
