/-
  Rrss.Spec.Poetic — what property C11 means by "the decimal numeral whose digits are the word
  lengths modulo 10 (apostrophes not counted, hyphenated and apostrophe-suffixed parts counted
  with their word), with the first period as the decimal point and later periods and commas
  ignored", written from the property text, independently of how the model computes it
  (`Poetic.itemsGo`, a left-to-right scan with a running length; here: look-ahead grouping).

  Input: the element list of a `PoeticNumberLiteral` (commas are already gone): a `word`, a
  `suffix` (an `'s`/`'re` token, or a hyphenated continuation `-abc` whose text includes the
  hyphen), or a `dot`.

  * GROUPS. A `word` starts a group; the `suffix`es that directly follow it belong to that group.
    A `suffix` with no word before it (at the very start, or right after a `dot`, or after
    another such orphan) is a group of its own. A `dot` separates (and is kept, as `none`).
  * LENGTH of a group: the number of characters of all its parts other than the apostrophe
    (so `-abc` counts 4: the hyphen is counted, as the implementation does).
  * DIGIT of a group: its length modulo 10.
  * POINT POSITION: the number of groups in front of the first `dot` (all groups if there is none).
    Later dots change nothing.
  * NUMERAL: digits `d₀ … d_{k-1}` with point position `p` denote `Σ dᵢ · 10^(p-1-i)`, i.e. the
    rational `decimalValue digits / 10^(k-p)`.
-/
import Rrss.Ast
namespace Rrss
namespace Spec
namespace Poetic

/-- characters that count: everything but the apostrophe -/
def letters : Str → Nat
  | [] => 0
  | c :: cs => if c = '\'' then letters cs else letters cs + 1

/-- the suffix parts standing directly at the head of an element list -/
def leadingSuffixes : List PoeticElem → List Str
  | .suffix s :: rest => s :: leadingSuffixes rest
  | _ => []

/-- Groups and periods of an element list, in order (`some parts` = a group, `none` = a period).
    `afterWord = true` means: the elements at the head of the list directly follow a word (or
    one of its suffixes), so suffixes found there have already been put into that word's group. -/
def groupsAux : Bool → List PoeticElem → List (Option (List Str))
  | _, [] => []
  | _, .dot :: rest => none :: groupsAux false rest
  | _, .word s :: rest => some (s :: leadingSuffixes rest) :: groupsAux true rest
  | true, .suffix _ :: rest => groupsAux true rest
  | false, .suffix s :: rest => some [s] :: groupsAux false rest

/-- groups and periods of a poetic number literal -/
def groups (elems : List PoeticElem) : List (Option (List Str)) := groupsAux false elems

/-- length of a group: the letters of all its parts -/
def groupLen (parts : List Str) : Nat := (parts.map letters).sum

/-- the lengths of the groups, periods dropped -/
def groupLengths (elems : List PoeticElem) : List Nat :=
  (groups elems).filterMap fun g => g.map groupLen

/-- the digits: group lengths modulo 10 -/
def digits (elems : List PoeticElem) : List Nat := (groupLengths elems).map (· % 10)

/-- number of groups in front of the first period (all of them if there is no period) -/
def pointPos (elems : List PoeticElem) : Nat := ((groups elems).takeWhile Option.isSome).length

/-- `Σ dᵢ · 10^(k-1-i)`: the natural number written with the digits `d₀ … d_{k-1}` -/
def decimalValue : List Nat → Nat
  | [] => 0
  | d :: ds => d * 10 ^ ds.length + decimalValue ds

/-- the numeral denoted by the literal, as a pair `(m, e)` standing for the rational `m / 10^e`:
    all digits read as one natural number, `e` = number of digits behind the point -/
def numeral (elems : List PoeticElem) : Nat × Nat :=
  (decimalValue (digits elems), (digits elems).length - pointPos elems)

/-! sanity examples -/

-- `it's. 're-x o'clock` : groups `it`+`'s` (3 letters), period, orphan `'re` (2), orphan `-x` (2),
-- `o'clock` (6)
example : groups [.word (str% "it"), .suffix (str% "'s"), .dot, .suffix (str% "'re"),
      .suffix (str% "-x"), .word (str% "o'clock")] =
    [some [str% "it", str% "'s"], none, some [str% "'re"], some [str% "-x"], some [str% "o'clock"]] :=
  rfl
example : digits [.word (str% "it"), .suffix (str% "'s"), .dot, .suffix (str% "'re"),
      .suffix (str% "-x"), .word (str% "o'clock")] = [3, 2, 2, 6] := rfl
example : pointPos [.word (str% "it"), .suffix (str% "'s"), .dot, .suffix (str% "'re"),
      .suffix (str% "-x"), .word (str% "o'clock")] = 1 := rfl
example : decimalValue [1, 0, 0] = 100 := rfl
-- `3.14`: (314, 2) = 314 / 10^2
example : numeral [.word (str% "abc"), .dot, .word (str% "a"), .dot, .word (str% "abcd")] = (314, 2) := rfl

end Poetic
end Spec
end Rrss
