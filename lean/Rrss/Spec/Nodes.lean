/-
  Rrss.Spec.Nodes — what a visitor written against the public traits of src/analysis/visit.rs
  is entitled to see: a plain enumeration of the syntax tree (src/frontend/ast.rs), every node
  once, a parent before its children, children in the order of the fields (source order:
  operators stand between their operands, the destination of a mutation before its parameter,
  then-block before else-block, parameters before the body, list tails after the head).

  Written from the AST and the callback vocabulary only (no monad, no state, no accumulator):
  lists and `++`.  Specification of C16 (`nodes`) and of C19 (`mentions`).

  Vocabulary.  The callbacks a visitor can observe without replacing a method that owns
  children are
  * the pure-dispatch methods (`Disp`): `visit_expression`, `visit_primary_expression`,
    `visit_identifier`, `visit_variable_name`, `visit_assignment_lhs`, `visit_assignment_rhs`,
    `visit_poetic_number_assignment_rhs`, `visit_array_push_rhs`, `visit_array_pop_expr`;
  * the leaf callbacks (`Leaf`): operators, literals, the pronoun, the three identifier kinds,
    poetic-literal elements.
  A variable name is one syntactic node that produces two callbacks (`visit_variable_name`, then
  the callback of its kind); it is kept as one `Node.name` here (with its range and whether it is
  the name of a called function) so that the mention list of C19 can be read off the same
  enumeration.
-/
import Rrss.Visit
namespace Rrss.Spec.Nodes
variable {N : Type}

/-- A syntax-tree node as the visitor meets it. Operators and poetic-literal elements carry no
    source range in the AST; their `r` is `default`. -/
inductive Node (N : Type)
  /-- a node handled by a pure-dispatch method other than `visit_variable_name` -/
  | disp (d : Disp)
  /-- a variable name (`callee`: it is the `name` field of a `FunctionCall`) -/
  | name (callee : Bool) (n : VarName) (r : Range)
  /-- a leaf other than a variable name -/
  | leaf (l : Leaf N) (r : Range)

/-- the leaf callback of a variable name: one per kind of name -/
def nameLeaf : VarName → Leaf N
  | .simple s => .simple s
  | .common p w => .common p w
  | .proper ws => .proper ws

/-! ### the enumeration -/

/-- `WithRange<Identifier>` -/
def ofIdent : Ident → Range → List (Node N)
  | .var n, r => [.disp .ident, .name false n r]
  | .pronoun, r => [.disp .ident, .leaf .pronoun r]

/-- `PoeticNumberLiteral`: its elements -/
def ofPoetic (elems : List PoeticElem) : List (Node N) :=
  elems.map fun e => .leaf (.pelem e) default

/-- `Option<BinaryOperator>` of a compound assignment -/
def ofOp : Option BinOp → List (Node N)
  | none => []
  | some o => [.leaf (.binOp o) default]

mutual
/-- `PrimaryExpression` -/
def ofPrimary : Primary N → List (Node N)
  | .lit l r => [.disp .primary, .leaf (.lit l) r]
  | .ident i r => .disp .primary :: ofIdent i r
  | .sub arr idx => .disp .primary :: (ofPrimary arr ++ ofPrimary idx)
  | .call name r args => .disp .primary :: .name true name r :: ofExprs args
  | .pop arr => .disp .primary :: .disp .popExpr :: ofPrimary arr
/-- `Expression` -/
def ofExpr : Expr N → List (Node N)
  | .prim p => .disp .expr :: ofPrimary p
  | .bin op lhs first rest =>
    .disp .expr :: (ofExpr lhs ++ .leaf (.binOp op) default :: (ofExpr first ++ ofExprs rest))
  | .un op e => .disp .expr :: .leaf (.unOp op) default :: ofExpr e
/-- `Vec<Expression>` -/
def ofExprs : List (Expr N) → List (Node N)
  | [] => []
  | e :: es => ofExpr e ++ ofExprs es
end

/-- `ExpressionList` -/
def ofExprList (l : ExprList N) : List (Node N) := ofExpr l.first ++ ofExprs l.rest

/-- `AssignmentLHS` -/
def ofLhs : Lhs N → List (Node N)
  | .ident i r => .disp .lhs :: ofIdent i r
  | .sub arr idx => .disp .lhs :: (ofPrimary arr ++ ofPrimary idx)

/-- `Option<AssignmentLHS>` / `InputDest` -/
def ofOptLhs : Option (Lhs N) → List (Node N)
  | none => []
  | some l => ofLhs l

/-- `Option<Expression>` -/
def ofOptExpr : Option (Expr N) → List (Node N)
  | none => []
  | some e => ofExpr e

/-- `PoeticNumberAssignmentRHS` -/
def ofPoeticRhs : PoeticRhs N → List (Node N)
  | .expr e => .disp .poeticRhs :: ofExpr e
  | .lit elems => .disp .poeticRhs :: ofPoetic elems

/-- `Option<ArrayPushRHS>` -/
def ofPushRhs : Option (PushRhs N) → List (Node N)
  | none => []
  | some (.list l) => .disp .pushRhs :: ofExprList l
  | some (.lit elems) => .disp .pushRhs :: ofPoetic elems

/-- `FunctionData::params` -/
def ofParams (ps : List (VarName × Range)) : List (Node N) :=
  ps.map fun p => .name false p.1 p.2

mutual
/-- `Statement` (statements themselves, mutation operators and rounding directions are not
    presented to an expression visitor: the runner owns them) -/
def ofStmt : Stmt N → List (Node N)
  | .assign dest op value => ofLhs dest ++ ofOp op ++ .disp .rhs :: ofExprList value
  | .poeticNum dest rhs => ofLhs dest ++ ofPoeticRhs rhs
  | .poeticStr dest _ => ofLhs dest
  | .ifS cond thenB elseB =>
    ofExpr cond ++ ofBlock thenB ++ (match elseB with | none => [] | some b => ofBlock b)
  | .whileS cond body => ofExpr cond ++ ofBlock body
  | .untilS cond body => ofExpr cond ++ ofBlock body
  | .inc dest r _ => ofIdent dest r
  | .dec dest r _ => ofIdent dest r
  | .input dest _ => ofOptLhs dest
  | .output value => ofExpr value
  | .mutation _ operand dest param => ofPrimary operand ++ ofOptLhs dest ++ ofOptExpr param
  | .rounding _ operand => ofExpr operand
  | .continue_ _ => []
  | .break_ _ => []
  | .push arr value => ofPrimary arr ++ ofPushRhs value
  | .pop arr dest => .disp .popExpr :: (ofPrimary arr ++ ofOptLhs dest)
  | .ret value => ofExpr value
  | .func name r ps body => .name false name r :: (ofParams ps ++ ofBlock body)
  | .call name r args => .name true name r :: ofExprs args
/-- `Block` -/
def ofBlock : Block N → List (Node N)
  | .mk _ ss => ofStmts ss
/-- `Vec<Statement>` -/
def ofStmts : List (Stmt N) → List (Node N)
  | [] => []
  | s :: ss => ofStmt s ++ ofStmts ss
end

/-- `Vec<Block>` -/
def ofBlocks : List (Block N) → List (Node N)
  | [] => []
  | b :: bs => ofBlock b ++ ofBlocks bs

/-- all nodes of a program, in order -/
def enum (p : Program N) : List (Node N) := ofBlocks p.code

/-! ### views of the enumeration -/

/-- the callbacks a node produces -/
def Node.events : Node N → List (Event N)
  | .disp d => [.disp d]
  | .name _ n _ => [.disp .varName, .leaf (nameLeaf n)]
  | .leaf l _ => [.leaf l]

/-- C16: the sequence of callbacks a visitor of the program sees -/
def nodes (p : Program N) : List (Event N) := (enum p).flatMap Node.events

/-- the leaf a node presents to a leaf callback (with the range passed along), if any -/
def Node.leaf? : Node N → Option (Leaf N × Range)
  | .disp _ => none
  | .name _ n r => some (nameLeaf n, r)
  | .leaf l r => some (l, r)

/-- the leaves of a program, in order -/
def leaves (p : Program N) : List (Leaf N × Range) := (enum p).filterMap Node.leaf?

def _root_.Rrss.Event.isLeaf : Event N → Bool
  | .leaf _ => true
  | .disp _ => false

/-- positions (0-based) of the leaf callbacks in a callback sequence -/
def leafIndices (evs : List (Event N)) : List Nat :=
  (List.range evs.length).filter fun i => evs[i]?.any Event.isLeaf

/-- C19: a mention of a variable: its name, the line it stands on, and whether it is the name of
    a called function -/
structure Mention where
  name : VarName
  line : Nat
  isCallee : Bool
  deriving DecidableEq, Repr

def Node.mention? : Node N → Option Mention
  | .name c n r => some ⟨n, r.line, c⟩
  | _ => none

/-- the variable mentions of a program, in order -/
def mentions (p : Program N) : List Mention := (enum p).filterMap Node.mention?

/-- each mention paired with the name of the mention just before it — of any kind, callee or
    not — (`none` for the first mention of the program) -/
def withPrev (ms : List Mention) : List (Mention × Option VarName) :=
  ms.zip (none :: ms.map fun m => some m.name)

/-- C19, the repeated-identifier rule: the mentions that are not the name of a called function
    and spell exactly the name of the mention just before them (equality of `VarName`: same
    kind, same words, same case) -/
def repeated (ms : List Mention) : List Mention :=
  ((withPrev ms).filter fun mp => mp.1.isCallee = false ∧ mp.2 = some mp.1.name).map (·.1)

end Rrss.Spec.Nodes
