/-
  Rrss.Spec.SourcePos — independent specification of "the true source position of a byte
  offset": line = 1 + number of line feeds before the offset, column = number of bytes between
  the last line feed before the offset (or the start of the text) and the offset.
  Written without reference to how the lexer keeps its `line`/`line_start` counters.
-/
import Rrss.Basic
namespace Rrss
namespace Spec

/-- the longest prefix of whole characters of `s` that fits in `n` bytes (for an offset `n` on a
    character boundary: exactly the text before that offset) -/
def prefixBytes : Str → Nat → Str
  | [], _ => []
  | c :: cs, n => if c.utf8Size ≤ n then c :: prefixBytes cs (n - c.utf8Size) else []

/-- number of line feeds in a text -/
def countNl (p : Str) : Nat := p.count '\n'

/-- the part of `p` after its last line feed (all of `p` if it has none) -/
def lastLine (p : Str) : Str := (p.reverse.takeWhile (· != '\n')).reverse

/-- the position right after the text `p`: (1 + line feeds in `p`, bytes after the last one) -/
def locOf (p : Str) : Loc := ⟨1 + countNl p, ulen (lastLine p)⟩

/-- true (line, byte column) of byte offset `off` of `src` -/
def trueLoc (src : Str) (off : Nat) : Loc := locOf (prefixBytes src off)

end Spec
end Rrss
