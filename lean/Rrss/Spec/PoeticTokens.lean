/-
  Rrss.Spec.PoeticTokens — which tokens a poetic number literal takes and what element each of
  them contributes (property C11, "tokens → elements"), as a plain function on the token list,
  written from the property text and the language rules, independently of the parser model
  (which is a monadic loop over a parser state with fuel).

  Reading stops, without consuming it, at the first token that is neither a period, a comma, an
  `'s`/`'re` token, a hyphen (`Minus` token spelled `-`; the word `minus` is a word) nor
  word-like (its spelling contains no white space and no punctuation other than `_` and `'`:
  `Lexer.isWord`; keywords count as words, whatever their token kind). In particular it stops at
  a `Newline` token or at the end of the tokens.
-/
import Rrss.Token
import Rrss.Ast
import Rrss.Lexer
namespace Rrss
namespace Spec
namespace PoeticTokens

variable {N : Type}

/-- what reading a poetic number literal off a token list gives -/
inductive Reading (N : Type)
  /-- the elements read, and the tokens left unread -/
  | done (elems : List PoeticElem) (rest : List (Tok N))
  /-- a hyphen was the very last token of the program -/
  | endsWithHyphen
  /-- the token after a hyphen is not word-like -/
  | unexpected (t : Tok N)

/-- put an element in front of what has been read -/
def Reading.cons (e : PoeticElem) : Reading N → Reading N
  | .done es rest => .done (e :: es) rest
  | .endsWithHyphen => .endsWithHyphen
  | .unexpected t => .unexpected t

/-- a `Minus` token spelled `-` -/
def isHyphenTok (t : Tok N) : Bool := t.kind == .minus && t.spelling == ['-']

variable [CharOps]

/-- read a poetic number literal: comma ↦ nothing, period ↦ `dot`, `'s`/`'re` ↦ `suffix` with the
    token's spelling, hyphen + word-like token ↦ `suffix` with `-` + that token's spelling,
    any other word-like token ↦ `word` with its spelling -/
def read : List (Tok N) → Reading N
  | [] => .done [] []
  | t :: ts =>
    if t.kind = .comma then read ts
    else if t.kind = .dot then (read ts).cons .dot
    else if t.kind = .apostropheS ∨ t.kind = .apostropheRE then (read ts).cons (.suffix t.spelling)
    else if isHyphenTok t then
      match ts with
      | [] => .endsWithHyphen
      | n :: ts' =>
        if Lexer.isWord n.spelling then (read ts').cons (.suffix ('-' :: n.spelling))
        else .unexpected n
    else if Lexer.isWord t.spelling then (read ts).cons (.word t.spelling)
    else .done [] (t :: ts)

end PoeticTokens
end Spec
end Rrss
