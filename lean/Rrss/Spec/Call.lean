/-
  Rrss.Spec.Call — vocabulary for stating the call protocol and the block structure of
  `if` / loops (C05): left-to-right evaluation of an argument list, the branch an `if` takes,
  what a loop does after a round.
-/
import Rrss.Interp
import Rrss.Spec.Scopes
namespace Rrss
namespace Spec
variable [CharOps] {N : Type} [NumOps N]
open Interp

/-- left-to-right evaluation of an expression list, threading the environment:
    `EvalSeq rec es env vs env'` — evaluating `es` one after the other, each in the environment
    the previous one left, starting from `env`, gives the values `vs` and ends in `env'` -/
inductive EvalSeq (rec : Rec N) : List (Expr N) → Env N → List (Val N) → Env N → Prop
  | nil (env : Env N) : EvalSeq rec [] env [] env
  | cons {e : Expr N} {es : List (Expr N)} {env env1 env2 : Env N} {v : Val N} {vs : List (Val N)} :
      rec.evalExpr e env = (.ok v, env1) → EvalSeq rec es env1 vs env2 →
      EvalSeq rec (e :: es) env (v :: vs) env2

/-- the statements an `if` runs for a given value of its condition -/
def ifBranch (c : Val N) (t : Block N) (e : Option (Block N)) : List (Stmt N) :=
  if c.isTruthy then t.stmts else
    match e with
    | some b => b.stmts
    | none => []

/-- what a loop does with the state `st1` the body of a round left (`n` rounds remain in the
    model's budget): next round on `Normal` / `Continuing` (flag reset), out on `Breaking` (flag
    reset) and on `Returning` (flag and return value kept) -/
def afterRound (rec : Rec N) (invert : Bool) (cond : Expr N) (body : List (Stmt N)) (n : Nat)
    (st1 : ExecSt N) : M N (ExecSt N) :=
  match st1.flag with
  | .normal => loopGo rec invert cond body n st1
  | .continuing => loopGo rec invert cond body n { st1 with flag := .normal }
  | .breaking => pure { st1 with flag := .normal }
  | .returning => pure st1

/-- `BlockLeft env1 env'`: `env'` is what is left of `env1` after a block ran in a scope of its
    own, pushed on top of `env1`'s scopes, and that scope was popped again: all scopes have the
    signatures (hence the domains) they had in `env1` — so a name that was unbound in `env1` is
    unbound again, whatever the block assigned — and the pronoun refers to nothing: reading it is
    the error `MissingPronounReferent` -/
def BlockLeft (env1 env' : Env N) : Prop :=
  sigs env' = sigs env1 ∧ doms env' = doms env1
  ∧ (∀ x : VarName, Env.lookupVarIn x env1.scopes = .error (.nameNotFound x) →
        Env.lookupVarIn x env'.scopes = .error (.nameNotFound x))
  ∧ env'.last = none ∧ evalIdent .pronoun env' = (.err .missingPronoun, env')

end Spec
end Rrss
