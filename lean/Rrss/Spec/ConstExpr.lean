/-
  Rrss.Spec.ConstExpr — syntactic classes of expressions used by property C17, stated directly
  on the syntax tree (independently of how the folders compute):

  * `Const e`  : `e` is built solely from number literals, unary minus and `+ − × ÷`
                 (the right operand of a binary operator is a non-empty list of such expressions);
  * `Reads e`  : somewhere inside `e` there is a variable, a pronoun, an array subscript,
                 a function call or a pop;
  * `Expr.depth`: nesting depth = the fuel the interpreter needs to evaluate an expression
                 (for call-free expressions).
-/
import Rrss.Ast
namespace Rrss

/-- the four arithmetic operators `+ − × ÷` -/
def BinOp.isArith : BinOp → Bool
  | .plus | .minus | .multiply | .divide => true
  | _ => false

/-- Closure of number literals under unary minus and `+ − × ÷` with list right operands. -/
inductive Const {N : Type} : Expr N → Prop
  | lit (x : N) (r : Range) : Const (.prim (.lit (.num x) r))
  | neg {e : Expr N} : Const e → Const (.un .minus e)
  | bin {op : BinOp} {l first : Expr N} {rest : List (Expr N)} :
      op.isArith = true → Const l → Const first → (∀ e, e ∈ rest → Const e) →
      Const (.bin op l first rest)

/-- A primary expression that is not a literal: variable, pronoun, subscript, call, pop. -/
inductive Primary.Reads {N : Type} : Primary N → Prop
  | ident (i : Ident) (r : Range) : Primary.Reads (.ident i r)
  | sub (a i : Primary N) : Primary.Reads (.sub a i)
  | call (n : VarName) (r : Range) (args : List (Expr N)) : Primary.Reads (.call n r args)
  | pop (a : Primary N) : Primary.Reads (.pop a)

/-- `e` contains a variable, pronoun, subscript, call or pop anywhere. -/
inductive Reads {N : Type} : Expr N → Prop
  | prim {p : Primary N} : p.Reads → Reads (.prim p)
  | un {op : UnOp} {e : Expr N} : Reads e → Reads (.un op e)
  | binLhs {op : BinOp} {l first : Expr N} {rest : List (Expr N)} :
      Reads l → Reads (.bin op l first rest)
  | binFirst {op : BinOp} {l first : Expr N} {rest : List (Expr N)} :
      Reads first → Reads (.bin op l first rest)
  | binRest {op : BinOp} {l first e : Expr N} {rest : List (Expr N)} :
      e ∈ rest → Reads e → Reads (.bin op l first rest)

mutual
/-- nesting depth of a primary expression (a leaf has depth 1) -/
def Primary.depth {N : Type} : Primary N → Nat
  | .lit _ _ => 1
  | .ident _ _ => 1
  | .sub a i => max a.depth i.depth + 1
  | .call _ _ args => depthList args + 1
  | .pop a => a.depth + 1
/-- nesting depth of an expression -/
def Expr.depth {N : Type} : Expr N → Nat
  | .prim p => p.depth + 1
  | .bin _ l first rest => max l.depth (max first.depth (depthList rest)) + 1
  | .un _ e => e.depth + 1
/-- largest depth in a list of expressions (0 for the empty list) -/
def depthList {N : Type} : List (Expr N) → Nat
  | [] => 0
  | e :: es => max e.depth (depthList es)
end

end Rrss
