/-
  Rrss.Spec.Scopes — what "the variable a name denotes" means for a stack of scopes, stated with
  library functions only (`List.find?`, `List.map`), independently of how the model's
  `lookupVarIn` / `setVarIn` / `slookup` / `sset` walk the stack.

  A scope is an association list; the scope stack is innermost first.
-/
import Rrss.Env
namespace Rrss
namespace Spec
variable {N : Type}

/-- the keys a scope binds, in insertion order -/
def keys (s : Scope N) : List VarName := s.map (·.1)

/-- the *domains* of all scopes of an environment, innermost first -/
def doms (env : Env N) : List (List VarName) := env.scopes.map keys

/-- what an entry is, apart from the current value of a variable: `none` for a variable,
    the parameters and body for a function -/
def kind : Entry N → Option (List VarName × Block N)
  | .var _ => none
  | .func ps b => some (ps, b)

/-- the *signature* of a scope: its keys, and for each key whether it is a variable or which
    function it is (everything except the values of the variables) -/
def sig (s : Scope N) : List (VarName × Option (List VarName × Block N)) :=
  s.map fun p => (p.1, kind p.2)

/-- signatures of all scopes, innermost first -/
def sigs (env : Env N) : List (List (VarName × Option (List VarName × Block N))) :=
  env.scopes.map sig

/-- the entry a scope holds for key `k` (the first one, should there be several) -/
def binding (k : VarName) (s : Scope N) : Option (Entry N) :=
  (s.find? fun p => p.1 == k).map (·.2)

/-- the entry key `k` denotes in a scope stack: the one held by the innermost scope that binds
    `k`; `none` if no scope binds it -/
def firstBinding (k : VarName) (scopes : List (Scope N)) : Option (Entry N) :=
  (scopes.find? fun s => decide (k ∈ keys s)).bind (binding k)

/-- `Grow d d'` for two stacks of lists (innermost first): the same number of levels, every
    level except the innermost is unchanged, and the innermost only gained elements at its end -/
def Grow {α : Type} (d d' : List (List α)) : Prop :=
  d'.length = d.length ∧ d'.tail = d.tail ∧ d.headD [] <+: d'.headD []

/-- the stack discipline between an environment before and after a piece of interpretation:
    the scope stack has the same height (every push was matched by a pop); every scope below the innermost one binds the same keys,
    in the same order, the same ones being functions (with the same parameters and body) and the
    same ones variables; the innermost scope kept all that for its old keys and may have gained
    new keys at its end -/
def Discipline (env env' : Env N) : Prop :=
  env'.scopes.length = env.scopes.length ∧ Grow (doms env) (doms env') ∧ Grow (sigs env) (sigs env')

end Spec
end Rrss
