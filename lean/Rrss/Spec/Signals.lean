/-
  Rrss.Spec.Signals — textbook big-step semantics of control flow with *signals*.

  A statement does not set a flag somewhere; it RETURNS how it ended: `normal`, `break_`,
  `continue_` or `return_ v`. A block runs its statements in order and stops at the first
  signal that is not `normal`, handing that signal on. `if` runs exactly one branch, chosen by
  the truthiness of its condition, and hands the branch's signal on. A loop tests its condition
  before every round; `break_` ends the loop (the loop itself ends `normal`), `continue_` and
  `normal` go on to the next test, `return_ v` ends the loop and is handed on. A function call
  runs the body and yields the value of the first `return` reached, else mysterious; a `break`
  or `continue` that escapes a function body is dropped there.

  The semantics is only about control flow: everything that is not control flow (assignment,
  say, listen, rock, roll, cut/join/cast, turn, increments, function definition, and all of
  expression evaluation except the call of a function) is delegated to the leaf semantics of
  the model (`Interp.*` applied to `SRec.leaf`, whose statement entry is a stub that the leaf
  functions never reach). Scopes and step ticks are placed as in the model so that step budgets
  agree. Same record/fuel style as the model: every function is non-recursive in the syntax
  nesting and takes the semantics one fuel level down (`SRec`).
-/
import Rrss.Interp
namespace Rrss

/-- how a statement ended -/
inductive Signal (N : Type)
  | normal
  | break_
  | continue_
  | return_ (v : Val N)

/-- the semantics one fuel level down -/
structure SRec (N : Type) where
  evalExpr : Expr N → M N (Val N)
  evalPrimary : Primary N → M N (Val N)
  writeExpr : Writer N → Expr N → M N (WOut N)
  writePrimary : Writer N → Primary N → M N (WOut N)
  execStmt : Stmt N → M N (Signal N)

/-- The expression-level part as a model record, for delegating leaves. The statement entry is
    a stub: no leaf reaches it (the leaves that would — function calls — are given their meaning
    here, not delegated). -/
def SRec.leaf {N : Type} (sr : SRec N) : Rec N where
  evalExpr := sr.evalExpr
  evalPrimary := sr.evalPrimary
  writeExpr := sr.writeExpr
  writePrimary := sr.writePrimary
  execStmt _ _ := M.outOfFuel

namespace Spec
variable [CharOps] {N : Type} [NumOps N]
open Env

/-- a block: in order, up to and including the first statement whose signal is not `normal` -/
def execStmts (sr : SRec N) : List (Stmt N) → M N (Signal N)
  | [] => pure .normal
  | s :: ss => do
    match ← sr.execStmt s with
    | .normal => execStmts sr ss
    | sig => pure sig

/-- a loop, iterating on the step budget like the model (`n` rounds at most) -/
def loopGo (sr : SRec N) (invert : Bool) (cond : Expr N) (body : List (Stmt N)) :
    Nat → M N (Signal N)
  | 0 => M.outOfResource
  | n + 1 => do
    let c ← sr.evalExpr cond
    if invert != c.isTruthy then do
      tick
      pushScope
      let sig ← execStmts sr body
      popScope
      match sig with
      | .normal => loopGo sr invert cond body n
      | .continue_ => loopGo sr invert cond body n
      | .break_ => pure .normal
      | .return_ v => pure (.return_ v)
    else pure .normal

/-- a function call: the value of the first `return` reached, else mysterious -/
def callFunction (sr : SRec N) (name : VarName) (args : List (Expr N)) : M N (Val N) := do
  let env ← M.get
  let (params, body) ← M.liftE (lookupFuncIn name env.scopes)
  if params.length != args.length then
    M.fail (.wrongArgCount params.length args.length)
  else do
    let vals ← Interp.evalArgs sr.leaf args
    tick
    pushFunctionScope (params.zip vals)
    let sig ← execStmts sr body.stmts
    popScope
    match sig with
    | .return_ v => pure v
    | _ => pure .undef

def evalPrimary (sr : SRec N) : Primary N → M N (Val N)
  | .call name _ args => callFunction sr name args
  | p => Interp.evalPrimary sr.leaf p

def execStmt (sr : SRec N) : Stmt N → M N (Signal N)
  | .ifS cond thenB elseB => do
    tick
    let c ← sr.evalExpr cond
    pushScope
    let sig ← (if c.isTruthy then execStmts sr thenB.stmts
               else match elseB with
                    | some b => execStmts sr b.stmts
                    | none => pure .normal)
    popScope
    pure sig
  | .whileS cond body => do
    tick
    let env ← M.get
    loopGo sr false cond body.stmts (env.steps + 1)
  | .untilS cond body => do
    tick
    let env ← M.get
    loopGo sr true cond body.stmts (env.steps + 1)
  | .break_ _ => do tick; pure .break_
  | .continue_ _ => do tick; pure .continue_
  | .ret value => do
    tick
    let v ← sr.evalExpr value
    pure (.return_ v)
  | .call name _ args => do
    tick
    let _ ← callFunction sr name args
    pure .normal
  | s => do
    -- not control flow: the model's leaf semantics (which ticks itself)
    let _ ← Interp.execStmt sr.leaf s {}
    pure .normal

def bottom : SRec N where
  evalExpr _ := M.outOfFuel
  evalPrimary _ := M.outOfFuel
  writeExpr _ _ := M.outOfFuel
  writePrimary _ _ := M.outOfFuel
  execStmt _ := M.outOfFuel

def mkSRec (sr : SRec N) : SRec N where
  evalExpr := Interp.evalExpr sr.leaf
  evalPrimary := evalPrimary sr
  writeExpr := Interp.writeExpr sr.leaf
  writePrimary := Interp.writePrimary sr.leaf
  execStmt := execStmt sr

/-- the signal semantics with `fuel` levels of depth -/
def sinterp : Nat → SRec N
  | 0 => bottom
  | n + 1 => mkSRec (sinterp n)

/-- top level: blocks in order; a signal that is not `normal` ends the program (the meaning the
    repaired code gives to a stray `break`/`continue`/`return` at top level) -/
def execBlocks (sr : SRec N) : List (Block N) → M N (Signal N)
  | [] => pure .normal
  | b :: bs => do
    match ← execStmts sr b.stmts with
    | .normal => execBlocks sr bs
    | sig => pure sig

def execProgram (fuel : Nat) (p : Program N) : M N Unit := do
  let _ ← execBlocks (sinterp fuel) p.code
  pure ()

end Spec

/-- the flag-machine state that corresponds to a signal -/
def Signal.toSt {N : Type} : Signal N → ExecSt N
  | .normal => {}
  | .break_ => { flag := .breaking }
  | .continue_ => { flag := .continuing }
  | .return_ v => { flag := .returning, ret := some v }

end Rrss
