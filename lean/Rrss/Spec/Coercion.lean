/-
  Rrss.Spec.Coercion — the coercion tables of the Rockstar value rules, one FLAT table per
  operator over the 6 × 6 operand kinds (mysterious, null, boolean, number, string, array).

  Written from the language rules as pinned by src/exec/val/tests.rs (which fixes one
  representative of every cell, in both argument orders), not from the control flow of
  `plus_coerced` / `arith_coerced` / `cmp_coerced`.  Value-dependent cells are spelled out:
  numeric strings go through `parse`, the empty string, zero, and an array counts as the length
  of its sequence part (`len`).  Numbers are the abstract `NumOps` vocabulary.  Where the
  operand order of a floating-point primitive matters (`beq x y`, `cmp x y`) the table keeps the
  order "left operand first", so that no IEEE symmetry fact is needed to compare it with the
  code.

  Reading guide: rows are grouped by the LEFT operand kind, in the order
  mysterious, null, boolean, number, string, array; inside a group the RIGHT operand runs
  through the same six kinds.
-/
import Rrss.Val
namespace Rrss
namespace Spec
open NumOps
variable {N : Type} [NumOps N]

/-- an array counts as the length of its sequence part (the dictionary part is ignored) -/
def len (seq : List (Val N)) : N := ofNat seq.length

/-- Canonical rendering of a value (what `say` prints, and what `+` splices into a string). -/
def text : Val N → Str
  | .undef => str% "mysterious"
  | .null => str% "null"
  | .bool true => str% "true"
  | .bool false => str% "false"
  | .num n => fmt n
  | .str s => s
  | .arr seq _ => fmt (len seq)

/-- Truthiness. -/
def truthy : Val N → Bool
  | .undef => false
  | .null => false
  | .bool b => b
  | .num n => isNonZero n
  | .str _ => true            -- also the empty string
  | .arr _ _ => true          -- also the empty array

/-- `a + b`. Strings absorb scalars (rendered canonically, operand order kept); null counts as
    zero against a number; an array counts as its length against a number or an array; every
    other combination is invalid and yields mysterious. -/
def plus : Val N → Val N → Val N
  -- mysterious + _
  | .undef, .undef => .undef
  | .undef, .null => .undef
  | .undef, .bool _ => .undef
  | .undef, .num _ => .undef
  | .undef, .str s => .str (str% "mysterious" ++ s)
  | .undef, .arr _ _ => .undef
  -- null + _
  | .null, .undef => .undef
  | .null, .null => .undef
  | .null, .bool _ => .undef
  | .null, .num m => .num (add zero m)
  | .null, .str s => .str (str% "null" ++ s)
  | .null, .arr _ _ => .undef
  -- boolean + _
  | .bool _, .undef => .undef
  | .bool _, .null => .undef
  | .bool _, .bool _ => .undef
  | .bool _, .num _ => .undef
  | .bool b, .str s => .str (text (.bool b : Val N) ++ s)
  | .bool _, .arr _ _ => .undef
  -- number + _
  | .num _, .undef => .undef
  | .num n, .null => .num (add n zero)
  | .num _, .bool _ => .undef
  | .num n, .num m => .num (add n m)
  | .num n, .str s => .str (fmt n ++ s)
  | .num n, .arr seq _ => .num (add n (len seq))
  -- string + _
  | .str s, .undef => .str (s ++ str% "mysterious")
  | .str s, .null => .str (s ++ str% "null")
  | .str s, .bool b => .str (s ++ text (.bool b : Val N))
  | .str s, .num m => .str (s ++ fmt m)
  | .str s, .str t => .str (s ++ t)
  | .str _, .arr _ _ => .undef
  -- array + _
  | .arr _ _, .undef => .undef
  | .arr _ _, .null => .undef
  | .arr _ _, .bool _ => .undef
  | .arr seq _, .num m => .num (add (len seq) m)
  | .arr _ _, .str _ => .undef
  | .arr seq _, .arr seq' _ => .num (add (len seq) (len seq'))

/-- The shape shared by `-` and `/` (and the numeric cells of `*`): `f` on two numbers, null
    counts as zero against a number, an array counts as its length against a number or an
    array; every other combination is invalid and yields mysterious. -/
def arith (f : N → N → N) : Val N → Val N → Val N
  -- mysterious ∘ _
  | .undef, .undef => .undef
  | .undef, .null => .undef
  | .undef, .bool _ => .undef
  | .undef, .num _ => .undef
  | .undef, .str _ => .undef
  | .undef, .arr _ _ => .undef
  -- null ∘ _
  | .null, .undef => .undef
  | .null, .null => .undef
  | .null, .bool _ => .undef
  | .null, .num m => .num (f zero m)
  | .null, .str _ => .undef
  | .null, .arr _ _ => .undef
  -- boolean ∘ _
  | .bool _, .undef => .undef
  | .bool _, .null => .undef
  | .bool _, .bool _ => .undef
  | .bool _, .num _ => .undef
  | .bool _, .str _ => .undef
  | .bool _, .arr _ _ => .undef
  -- number ∘ _
  | .num _, .undef => .undef
  | .num n, .null => .num (f n zero)
  | .num _, .bool _ => .undef
  | .num n, .num m => .num (f n m)
  | .num _, .str _ => .undef
  | .num n, .arr seq _ => .num (f n (len seq))
  -- string ∘ _
  | .str _, .undef => .undef
  | .str _, .null => .undef
  | .str _, .bool _ => .undef
  | .str _, .num _ => .undef
  | .str _, .str _ => .undef
  | .str _, .arr _ _ => .undef
  -- array ∘ _
  | .arr _ _, .undef => .undef
  | .arr _ _, .null => .undef
  | .arr _ _, .bool _ => .undef
  | .arr seq _, .num m => .num (f (len seq) m)
  | .arr _ _, .str _ => .undef
  | .arr seq _, .arr seq' _ => .num (f (len seq) (len seq'))

/-- `a - b` -/
def minus : Val N → Val N → Val N := arith sub
/-- `a / b` (IEEE division: by zero gives ±inf or NaN, never an error) -/
def over : Val N → Val N → Val N := arith div

/-- `s` repeated `count` times (`count` truncated, saturating, to a machine word): a negative
    (or NaN) count is invalid. -/
def repeated (s : Str) (count : N) : Val N :=
  if geZero count then .str (List.replicate (if s.isEmpty then 0 else toUSize count) s).flatten
  else .undef

/-- `a * b`: as `arith mul`, plus string repetition `string * number` and `string * array`
    (in that operand order only). -/
def times : Val N → Val N → Val N
  -- mysterious * _
  | .undef, .undef => .undef
  | .undef, .null => .undef
  | .undef, .bool _ => .undef
  | .undef, .num _ => .undef
  | .undef, .str _ => .undef
  | .undef, .arr _ _ => .undef
  -- null * _
  | .null, .undef => .undef
  | .null, .null => .undef
  | .null, .bool _ => .undef
  | .null, .num m => .num (mul zero m)
  | .null, .str _ => .undef
  | .null, .arr _ _ => .undef
  -- boolean * _
  | .bool _, .undef => .undef
  | .bool _, .null => .undef
  | .bool _, .bool _ => .undef
  | .bool _, .num _ => .undef
  | .bool _, .str _ => .undef
  | .bool _, .arr _ _ => .undef
  -- number * _
  | .num _, .undef => .undef
  | .num n, .null => .num (mul n zero)
  | .num _, .bool _ => .undef
  | .num n, .num m => .num (mul n m)
  | .num _, .str _ => .undef
  | .num n, .arr seq _ => .num (mul n (len seq))
  -- string * _
  | .str _, .undef => .undef
  | .str _, .null => .undef
  | .str _, .bool _ => .undef
  | .str s, .num m => repeated s m
  | .str _, .str _ => .undef
  | .str s, .arr seq _ => repeated s (len seq)
  -- array * _
  | .arr _ _, .undef => .undef
  | .arr _ _, .null => .undef
  | .arr _ _, .bool _ => .undef
  | .arr seq _, .num m => .num (mul (len seq) m)
  | .arr _ _, .str _ => .undef
  | .arr seq _, .arr seq' _ => .num (mul (len seq) (len seq'))

/-- `a is b`. mysterious equals only mysterious and null; null equals what counts as nothing
    (false, zero, the empty string, an empty sequence); a Boolean is compared with the
    truthiness of a number and the non-emptiness of a string; a string is parsed against a
    number; an array counts as its length against null and numbers; two arrays are equal when
    they are deeply equal (`Val.eqv`: same sequence, same dictionary). -/
def equals : Val N → Val N → Bool
  -- mysterious is _
  | .undef, .undef => true
  | .undef, .null => true
  | .undef, .bool _ => false
  | .undef, .num _ => false
  | .undef, .str _ => false
  | .undef, .arr _ _ => false
  -- null is _
  | .null, .undef => true
  | .null, .null => true
  | .null, .bool c => false == c
  | .null, .num m => beq zero m
  | .null, .str t => t.isEmpty
  | .null, .arr seq _ => beq zero (len seq)
  -- boolean is _
  | .bool _, .undef => false
  | .bool b, .null => b == false
  | .bool b, .bool c => b == c
  | .bool b, .num m => b == isNonZero m
  | .bool b, .str t => b == !t.isEmpty
  | .bool _, .arr _ _ => false
  -- number is _
  | .num _, .undef => false
  | .num n, .null => beq n zero
  | .num n, .bool c => isNonZero n == c
  | .num n, .num m => beq n m
  | .num n, .str t => match (parse t : Option N) with
                      | some m => beq n m
                      | none => false
  | .num n, .arr seq _ => beq n (len seq)
  -- string is _
  | .str _, .undef => false
  | .str s, .null => s.isEmpty
  | .str s, .bool c => (!s.isEmpty) == c
  | .str s, .num m => match (parse s : Option N) with
                      | some n => beq n m
                      | none => false
  | .str s, .str t => s == t
  | .str _, .arr _ _ => false
  -- array is _
  | .arr _ _, .undef => false
  | .arr seq _, .null => beq (len seq) zero
  | .arr _ _, .bool _ => false
  | .arr seq _, .num m => beq (len seq) m
  | .arr _ _, .str _ => false
  | .arr seq d, .arr seq' d' => Val.eqv (.arr seq d) (.arr seq' d')

/-- answer of an ordering comparison -/
inductive Cmp
  /-- comparable; `none` = unordered (a NaN, or a string that is not a number against a number):
      then every one of `< <= > >=` is false -/
  | is (o : Option Ordering)
  /-- not comparable: the program stops with `InvalidComparison` -/
  | invalid
  deriving DecidableEq, Repr

/-- Ordering (`< <= > >=`). Numbers by `partial_cmp`, strings by code points; mysterious and
    null are equal to each other; null counts as zero / the empty string; a string is parsed
    against a number; an array counts as its length against null and numbers. Booleans are
    never ordered, nor is mysterious against anything but itself and null, nor two arrays, nor
    a string against an array. -/
def compare : Val N → Val N → Cmp
  -- mysterious ? _
  | .undef, .undef => .is (some .eq)
  | .undef, .null => .is (some .eq)
  | .undef, .bool _ => .invalid
  | .undef, .num _ => .invalid
  | .undef, .str _ => .invalid
  | .undef, .arr _ _ => .invalid
  -- null ? _
  | .null, .undef => .is (some .eq)
  | .null, .null => .is (some .eq)
  | .null, .bool _ => .invalid
  | .null, .num m => .is (cmp zero m)
  | .null, .str t => .is (some (strCmp [] t))
  | .null, .arr seq _ => .is (cmp zero (len seq))
  -- boolean ? _
  | .bool _, .undef => .invalid
  | .bool _, .null => .invalid
  | .bool _, .bool _ => .invalid
  | .bool _, .num _ => .invalid
  | .bool _, .str _ => .invalid
  | .bool _, .arr _ _ => .invalid
  -- number ? _
  | .num _, .undef => .invalid
  | .num n, .null => .is (cmp n zero)
  | .num _, .bool _ => .invalid
  | .num n, .num m => .is (cmp n m)
  | .num n, .str t => match (parse t : Option N) with
                      | some m => .is (cmp n m)
                      | none => .is none
  | .num n, .arr seq _ => .is (cmp n (len seq))
  -- string ? _
  | .str _, .undef => .invalid
  | .str s, .null => .is (some (strCmp s []))
  | .str _, .bool _ => .invalid
  | .str s, .num m => match (parse s : Option N) with
                      | some n => .is (cmp n m)
                      | none => .is none
  | .str s, .str t => .is (some (strCmp s t))
  | .str _, .arr _ _ => .invalid
  -- array ? _
  | .arr _ _, .undef => .invalid
  | .arr seq _, .null => .is (cmp (len seq) zero)
  | .arr _ _, .bool _ => .invalid
  | .arr seq _, .num m => .is (cmp (len seq) m)
  | .arr _ _, .str _ => .invalid
  | .arr _ _, .arr _ _ => .invalid

/-- unary minus: numbers only (`none` = invalid, the program stops) -/
def negate : Val N → Option (Val N)
  | .undef => none
  | .null => none
  | .bool _ => none
  | .num n => some (.num (neg n))
  | .str _ => none
  | .arr _ _ => none

/-- `build up` / `knock down` by `k` (negative for knocking down): numbers add `k`, null counts
    as zero, a Boolean is toggled once per step; `none` = invalid, the program stops. -/
def inc : Val N → Int → Option (Val N)
  | .undef, _ => none
  | .null, k => some (.num (add zero (ofInt k)))
  | .bool b, k => some (.bool (if k % 2 = 0 then b else !b))
  | .num n, k => some (.num (add n (ofInt k)))
  | .str _, _ => none
  | .arr _ _, _ => none

/-- The model's size budget applied to a result: a string longer than `cap` is not built
    (`resource`: neither a value nor an error of the program). -/
def capped (cap : Nat) (v : Val N) : VRes N (Val N) :=
  match v with
  | .str r => if r.length > cap then .resource else .ok (.str r)
  | v => .ok v

end Spec
end Rrss
