/-
  Rrss.Spec.PoeticDigits — what property C18 means by "the poetic words spell the value",
  written independently of the linter model (Rrss/Lint.lean) and of the poetic-literal model
  (Rrss/Poetic.lean).

  A *printed number* is a text of ASCII digits and periods (`105`, `3.25`, `0.5`).
  Its *poetic spelling* (`spell`) replaces every digit `d` by a word of `d` stars — ten stars for
  `0` — and keeps every period; every word is preceded by one space, except a word that starts
  the text. Stars are placeholders for letters.

  *Reading* a poetic text (`reading`) is what Rockstar prescribes for poetic number literals:
  scan left to right; every maximal run of letters (here: stars) is a word and spells the digit
  `length mod 10`; a period is a period; anything else (spaces) only separates words.
  The result is the sequence of digits with the periods kept in place (`none` = period), from
  which `digits` (the digit sequence) and `pointPos` (how many digits precede the first period,
  i.e. where the decimal point sits; all digits if there is no period) are read off.
-/
import Rrss.Ast
namespace Rrss
namespace Spec
namespace PoeticDigits

/-! ### printed number ↦ poetic words -/

/-- value of an ASCII digit character -/
def digitOf (c : Char) : Nat := c.toNat - '0'.toNat

/-- the word for one digit: `d` stars, ten for `0` -/
def digitWord (c : Char) : Str := List.replicate (if digitOf c = 0 then 10 else digitOf c) '*'

/-- every digit becomes ` ` + its word, every period stays -/
def spellSpaced (t : Str) : Str :=
  t.flatMap fun c => if c = '.' then ['.'] else ' ' :: digitWord c

/-- the poetic spelling: as `spellSpaced`, but a word that starts the text gets no space -/
def spell : Str → Str
  | [] => []
  | c :: cs => (if c = '.' then ['.'] else digitWord c) ++ spellSpaced cs

/-! ### poetic words ↦ digits -/

/-- what the reader sees: words (by length) and periods -/
inductive Piece
  | word (len : Nat)
  | dot
  deriving DecidableEq, Repr

/-- close the run of `cur` letters read so far (no run: nothing) -/
def flush : Nat → List Piece
  | 0 => []
  | n + 1 => [.word (n + 1)]

/-- left-to-right scan; `cur` = number of letters in the run being read -/
def scan : Str → Nat → List Piece
  | [], cur => flush cur
  | c :: cs, cur =>
    if c = '*' then scan cs (cur + 1)
    else if c = '.' then flush cur ++ .dot :: scan cs 0
    else flush cur ++ scan cs 0

/-- words and periods of a poetic text -/
def pieces (text : Str) : List Piece := scan text 0

/-- digit spelled by a word / `none` for a period -/
def Piece.read : Piece → Option Nat
  | .word len => some (len % 10)
  | .dot => none

/-- the digits spelled by a poetic text, periods kept in place as `none` -/
def reading (text : Str) : List (Option Nat) := (pieces text).map Piece.read

/-- the same view of a printed number: its digits, periods kept in place as `none` -/
def ofPrinted (t : Str) : List (Option Nat) :=
  t.map fun c => if c = '.' then none else some (digitOf c)

/-- the digit sequence -/
def digits : List (Option Nat) → List Nat
  | [] => []
  | none :: r => digits r
  | some d :: r => d :: digits r

/-- number of digits in front of the first period (all digits if there is none) -/
def pointPos : List (Option Nat) → Nat
  | [] => 0
  | none :: _ => 0
  | some _ :: r => pointPos r + 1

/-! ### interface to the parser (C02/C11)

  `elems letter text` is the element list of the `PoeticNumberLiteral` that the front end builds
  for a poetic text in which every star has been replaced by `letter` (any alphabetic character
  forming no keyword): one `word` element per word, one `dot` element per period, no suffixes.
  That the lexer and parser really produce this list is the business of C02/C11; C18 only uses
  this description. -/
def elems (letter : Char) (text : Str) : List PoeticElem :=
  (pieces text).map fun
    | .word len => .word (List.replicate len letter)
    | .dot => .dot

end PoeticDigits
end Spec
end Rrss
