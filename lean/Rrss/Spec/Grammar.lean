/-
  Rrss.Spec.Grammar — the grammar of Rockstar at the TOKEN level, written as a *stratified
  syntax*: one type per precedence level, in spine form (a head operand followed by the list of
  operator applications), so that the inhabitants are exactly the trees that can be written down
  without parentheses; then one-line statements, statements with blocks, programs.

  * `unparse` / `toks` : syntax → `Choices` → tokens. Every token is `mkTok spec template` where
    `spec : TokSpec` fixes what the grammar fixes (kind; spelling of identifier words; value of
    number / string literals) and `template` is an ARBITRARY token supplied by `Choices`: start,
    range, `after` snapshot, error payload and — for keywords — spelling are whatever the choices
    say. `Choices` also decides every free alternative of the grammar (`plus`/`with`, optional
    `and` after a list comma, argument separator, `is`/`'s`/`'re`, `""`/`empty`, `say` alias,
    direction before/after the operand of `turn`, `back` around a returned value, commas after
    `up`/`down`, number of blank lines). A `Choices` is a labelling of the infinite ℕ-branching
    tree of paths; every choice point and every token of a syntax tree reads its own path, so all
    choices (and all token positions) are independent.
  * `toAst` / `toStmt` / `progToAst` : the tree the grammar assigns (all ranges and locations
    `default`); `eraseE`/`eraseS`/`eraseB` forget ranges and locations of a parsed tree.
  * `wf` : the side conditions that the absence of parentheses imposes (DESIGN Appendix A), as
    decidable predicates; `edgeCall`/`edgeList` say what is open at the right edge:
      (i)   inside an element of a list (flag `b = true`) every operand list is a singleton;
      (ii)  an element followed by the `,` of its list has no open operand list at its right edge
            (the comma would attach to the nearest operator on its left) — this is what the parser
            does, and it is slightly more liberal than "no element contains a list": the FIRST
            element may contain a list that is closed again, e.g. `x and a plus b, c is d, e`;
      (iii) a call is not at the right edge of something followed by `,` `&` `'n'` `and`, and a
            call or `roll` not of something followed by `at`;
      (iv)  the operand of a plain `is` does not start with `not`; `let T be E` without operator
            does not start with `-` (it would be read as the compound operator).
  * `Stop` : what may follow a construct (its first token must not continue it).
  * poetic assignments and `rock … like`: a poetic number literal is a list of `PoeticItem`s (the
    tokens the literal loop takes, of ANY kind: keywords count as words), the text of a poetic
    string is a parameter of the syntax and `Fits` ties it to the source text; `Fits` also collects
    the other places where the parser reads something of a template token.
  * `…D d` : the spellings of the end of the input (the last `d` newlines omitted); `…E` = all.

  Core Lean + the model's `Ast`/`Token`/`Lexer.isWord` only.
-/
import Rrss.Ast
import Rrss.Token
import Rrss.Chars
import Rrss.Lexer
namespace Rrss
namespace Grammar

/-! ### trees up to source positions -/

mutual
/-- forget every source range of a primary expression -/
def eraseP {N : Type} : Rrss.Primary N → Rrss.Primary N
  | .lit l _ => .lit l default
  | .ident i _ => .ident i default
  | .sub a i => .sub (eraseP a) (eraseP i)
  | .call f _ args => .call f default (eraseL args)
  | .pop a => .pop (eraseP a)
/-- forget every source range of an expression -/
def eraseE {N : Type} : Expr N → Expr N
  | .prim p => .prim (eraseP p)
  | .bin op l f r => .bin op (eraseE l) (eraseE f) (eraseL r)
  | .un op e => .un op (eraseE e)
def eraseL {N : Type} : List (Expr N) → List (Expr N)
  | [] => []
  | e :: es => eraseE e :: eraseL es
end

/-- `e.eraseRanges`: the tree `e` with every source range replaced by `default` -/
def _root_.Rrss.Expr.eraseRanges {N : Type} (e : Expr N) : Expr N := eraseE e

/-! ### tokens and choices -/

/-- What the grammar fixes about a token. -/
inductive TokSpec (N : Type) where
  /-- keyword or symbol: only the kind matters -/
  | kw (k : TK)
  /-- identifier word: kind `Word`, the spelling is the payload -/
  | word (s : Str)
  /-- a token of kind `k` whose spelling matters (article, noun after an article, `give`, `it`) -/
  | spelled (k : TK) (s : Str)
  /-- number literal with its value -/
  | num (n : N)
  /-- string literal with its text -/
  | str (s : Str)
  /-- a token of whatever kind of which only the spelling matters (`it`, `the` of `break it down`,
      `take it to the top`) -/
  | anyKind (s : Str)

/-- Realise a `TokSpec` on an arbitrary template token: everything the spec does not mention
    (start, range, `after`, error payload, spelling of keywords, …) is kept from the template. -/
def mkTok {N : Type} : TokSpec N → Tok N → Tok N
  | .kw k, t => { t with kind := k }
  | .word s, t => { t with kind := .word, spelling := s }
  | .spelled k s, t => { t with kind := k, spelling := s }
  | .num n, t => { t with kind := .number, num := some n }
  | .str s, t => { t with kind := .stringLit, text := s }
  | .anyKind s, t => { t with spelling := s }

/-- A labelling of all paths with a number (decides alternatives) and a template token. -/
structure Choices (N : Type) where
  pick : List Nat → Nat
  tok : List Nat → Tok N

namespace Choices
variable {N : Type}
/-- the choices of the `i`-th component -/
def sub (c : Choices N) (i : Nat) : Choices N := ⟨fun p => c.pick (i :: p), fun p => c.tok (i :: p)⟩
/-- the template token at this node -/
def here (c : Choices N) : Tok N := c.tok []
/-- the alternative chosen at this node -/
def choice (c : Choices N) : Nat := c.pick []
end Choices

section
variable {N : Type}

/-- the token for `spec` at node `c` -/
def tk (spec : TokSpec N) (c : Choices N) : Tok N := mkTok spec c.here

/-- is the next token's kind one of `ks`? (`false` at the end of the tokens) -/
def nextIn (ks : List TK) : List (Tok N) → Bool
  | [] => false
  | t :: _ => ks.contains t.kind

/-- tokens that continue an argument list -/
def argSeps : List TK := [.comma, .ampersand, .apostropheNApostrophe, .and]

/-! ### identifiers and literals -/

/-- Variable names as written. -/
inductive VarSpec where
  /-- one `Word` token (lower-case, or capitalised and not followed by another capitalised word) -/
  | simple (s : Str)
  /-- article (`CommonVariablePrefix`) + any token (of kind `k`) whose spelling is a word -/
  | common (pre w : Str) (k : TK)
  /-- two or more capitalised words -/
  | proper (w1 w2 : Str) (ws : List Str)
  deriving Repr

def capitalised [CharOps] (w : Str) : Bool :=
  match w with
  | [] => false
  | c :: _ => CharOps.isUppercase c

def VarSpec.wf [CharOps] : VarSpec → Bool
  | .simple s => !s.isEmpty
  | .common _ w _ => Lexer.isWord w
  | .proper w1 w2 ws => capitalised w1 && capitalised w2 && ws.all capitalised

def VarSpec.toName : VarSpec → VarName
  | .simple s => .simple s
  | .common pre w _ => .common pre w
  | .proper w1 w2 ws => .proper (w1 :: w2 :: ws)

def wordsToks : List Str → Choices N → List (Tok N)
  | [], _ => []
  | w :: ws, c => tk (.word w) (c.sub 0) :: wordsToks ws (c.sub 1)

def VarSpec.toks : VarSpec → Choices N → List (Tok N)
  | .simple s, c => [tk (.word s) (c.sub 0)]
  | .common pre w k, c => [tk (.spelled .commonPrefix pre) (c.sub 0), tk (.spelled k w) (c.sub 1)]
  | .proper w1 w2 ws, c => wordsToks (w1 :: w2 :: ws) c

/-- Literals as written (`""` may also be written `empty`: a choice). -/
inductive LitSpec (N : Type) where
  | mysterious | null | bool (b : Bool) | num (n : N) | str (s : Str)

def LitSpec.toLit : LitSpec N → Lit N
  | .mysterious => .mysterious
  | .null => .null
  | .bool b => .bool b
  | .num n => .num n
  | .str s => .str s

def LitSpec.spec : LitSpec N → Nat → TokSpec N
  | .mysterious, _ => .kw .mysterious
  | .null, _ => .kw .null
  | .bool true, _ => .kw .true_
  | .bool false, _ => .kw .false_
  | .num n, _ => .num n
  | .str s, n => if s.isEmpty && n % 2 == 1 then .kw .empty else .str s

/-! ### the three lowest levels (mutually recursive: arguments of calls are unary expressions) -/

mutual
/-- non-subscript primary expressions -/
inductive Prim (N : Type) where
  | pronoun
  | var (v : VarSpec)
  | lit (l : LitSpec N)
  /-- `f taking arg (sep arg)*` -/
  | call (f : VarSpec) (arg : Unary N) (args : List (Unary N))
  /-- `roll p` as an expression -/
  | pop (p : Primary N)
/-- `head (at sub)*`, left-nested -/
inductive Primary (N : Type) where
  | mk (head : Prim N) (subs : List (Prim N))
/-- prefix operators `-` / `not` applied to a primary -/
inductive Unary (N : Type) where
  | mk (ops : List UnOp) (p : Primary N)
end

def unopKind : UnOp → TK
  | .minus => .minus
  | .not => .not

def unopsToks : List UnOp → Choices N → List (Tok N)
  | [], _ => []
  | o :: os, c => tk (.kw (unopKind o)) (c.sub 0) :: unopsToks os (c.sub 1)

/-- an argument separator: `,` | `, and` | `&` | `'n'` | `and` -/
def sepToks (c : Choices N) : List (Tok N) :=
  match c.choice % 5 with
  | 0 => [tk (.kw .comma) (c.sub 0)]
  | 1 => [tk (.kw .comma) (c.sub 0), tk (.kw .and) (c.sub 1)]
  | 2 => [tk (.kw .ampersand) (c.sub 0)]
  | 3 => [tk (.kw .apostropheNApostrophe) (c.sub 0)]
  | _ => [tk (.kw .and) (c.sub 0)]

mutual
def Prim.toks : Prim N → Choices N → List (Tok N)
  | .pronoun, c => [tk (.kw .pronoun) (c.sub 0)]
  | .var v, c => v.toks (c.sub 0)
  | .lit l, c => [tk (l.spec (c.sub 1).choice) (c.sub 0)]
  | .call f a as, c =>
      f.toks (c.sub 0) ++ tk (.kw .taking) (c.sub 1) :: (a.toks (c.sub 2) ++ argsToks as (c.sub 3))
  | .pop p, c => tk (.kw .roll) (c.sub 0) :: p.toks (c.sub 1)
def Primary.toks : Primary N → Choices N → List (Tok N)
  | .mk h subs, c => h.toks (c.sub 0) ++ subsToks subs (c.sub 1)
def Unary.toks : Unary N → Choices N → List (Tok N)
  | .mk ops p, c => unopsToks ops (c.sub 0) ++ p.toks (c.sub 1)
def argsToks : List (Unary N) → Choices N → List (Tok N)
  | [], _ => []
  | u :: us, c => sepToks (c.sub 0) ++ (u.toks (c.sub 1) ++ argsToks us (c.sub 2))
def subsToks : List (Prim N) → Choices N → List (Tok N)
  | [], _ => []
  | s :: ss, c => tk (.kw .at) (c.sub 0) :: (s.toks (c.sub 1) ++ subsToks ss (c.sub 2))
end

mutual
def Prim.toAst : Prim N → Rrss.Primary N
  | .pronoun => .ident .pronoun default
  | .var v => .ident (.var v.toName) default
  | .lit l => .lit l.toLit default
  | .call f a as => .call f.toName default (a.toAst :: argsToAst as)
  | .pop p => .pop p.toAst
def Primary.toAst : Primary N → Rrss.Primary N
  | .mk h subs => subsToAst subs h.toAst
def Unary.toAst : Unary N → Expr N
  | .mk ops p => ops.foldr (fun o e => Expr.un o e) (.prim p.toAst)
def argsToAst : List (Unary N) → List (Expr N)
  | [] => []
  | u :: us => u.toAst :: argsToAst us
/-- `a at s1 at s2` is `(a at s1) at s2` -/
def subsToAst : List (Prim N) → Rrss.Primary N → Rrss.Primary N
  | [], acc => acc
  | s :: ss, acc => subsToAst ss (.sub acc s.toAst)
end

/-- all but the last element of `x :: xs` fail `e` -/
def chainOK {α : Type} (e : α → Bool) : α → List α → Bool
  | _, [] => true
  | x, y :: ys => !e x && chainOK e y ys

/-- the last element of `x :: xs` -/
def lastOf {α : Type} : α → List α → α
  | x, [] => x
  | _, y :: ys => lastOf y ys

/-- an `at` right after this would be swallowed (by the last argument of the call / by `roll`) -/
def Prim.opensAt : Prim N → Bool
  | .call _ _ _ => true
  | .pop _ => true
  | _ => false

mutual
/-- the right edge is an open argument list: a following `,` `&` `'n'` `and` would be swallowed -/
def Prim.edgeCall : Prim N → Bool
  | .call _ _ _ => true
  | .pop p => p.edgeCall
  | _ => false
def Primary.edgeCall : Primary N → Bool
  | .mk h subs => subsEdgeCall subs h.edgeCall
def subsEdgeCall : List (Prim N) → Bool → Bool
  | [], d => d
  | s :: ss, _ => subsEdgeCall ss s.edgeCall
end

def Unary.edgeCall : Unary N → Bool
  | .mk _ p => p.edgeCall

mutual
/-- Side conditions (iii): an argument that is followed by a separator, and a primary that is
    followed by `at`, must not have an open call / `roll` at its right edge. -/
def Prim.wf [CharOps] : Prim N → Bool
  | .pronoun => true
  | .var v => v.wf
  | .lit _ => true
  | .call f a as => f.wf && a.wf && argsWf as && chainOK Unary.edgeCall a as
  | .pop p => p.wf
def Primary.wf [CharOps] : Primary N → Bool
  | .mk h subs => h.wf && subsWf subs && chainOK Prim.opensAt h subs
def Unary.wf [CharOps] : Unary N → Bool
  | .mk _ p => p.wf
def argsWf [CharOps] : List (Unary N) → Bool
  | [] => true
  | u :: us => u.wf && argsWf us
def subsWf [CharOps] : List (Prim N) → Bool
  | [] => true
  | s :: ss => s.wf && subsWf ss
end

def Unary.startsUn : Unary N → Option UnOp
  | .mk ops _ => ops.head?

/-! ### a level of the ladder, as data -/

/-- What the levels above need to know about a syntactic category `α`. -/
structure Syn (N α : Type) where
  /-- tokens, for given choices -/
  toks : α → Choices N → List (Tok N)
  /-- the tree -/
  toAst : α → Expr N
  /-- side conditions; the flag says whether we are inside an element of a list (`parsing_list`),
      where no operand list may have more than one element -/
  wf : Bool → α → Bool
  /-- the right edge is an open argument list -/
  edgeCall : α → Bool
  /-- outside a list element: the right edge is an open operand list (a following `,` belongs to it) -/
  edgeList : α → Bool
  /-- the prefix operator the first token denotes, if any -/
  startsUn : α → Option UnOp
  /-- kinds of tokens that would continue the construct whatever its shape -/
  forbidden : List TK

/-- `rest` may follow `x` (in a list element iff `b`): its first token does not continue `x`. -/
def Syn.Stop {α : Type} (L : Syn N α) (b : Bool) (x : α) (rest : List (Tok N)) : Prop :=
  nextIn L.forbidden rest = false ∧
  (L.edgeCall x = true → nextIn argSeps rest = false) ∧
  (b = false → L.edgeList x = true → nextIn [.comma] rest = false)

def unarySyn [CharOps] : Syn N (Unary N) where
  toks := Unary.toks
  toAst := Unary.toAst
  wf := fun _ => Unary.wf
  edgeCall := Unary.edgeCall
  edgeList := fun _ => false
  startsUn := Unary.startsUn
  forbidden := [.word, .taking, .at]

/-! ### operand lists and operator spines -/

/-- `first (, [and] next)*` -/
structure OpList (α : Type) where
  first : α
  rest : List α

/-- `head (op operand-list)*`, left-associative -/
structure Spine (α : Type) where
  head : α
  ops : List (BinOp × OpList α)

/-- the token kinds that denote a binary operator (in an operator loop) -/
def opKinds : BinOp → List TK
  | .plus => [.plus, .with_]
  | .minus => [.minus]
  | .multiply => [.multiply]
  | .divide => [.divide]
  | .and => [.and]
  | .or => [.or]
  | .nor => [.nor]
  | .greater => [.greater]
  | .greaterEq => [.greaterEq]
  | .less => [.less]
  | .lessEq => [.lessEq]
  | .notEq => [.isnt]
  | .eq => []

/-- the kind chosen for an operator -/
def opKind : BinOp → Nat → TK
  | .plus, n => if n % 2 = 0 then .plus else .with_
  | .minus, _ => .minus
  | .multiply, _ => .multiply
  | .divide, _ => .divide
  | .and, _ => .and
  | .or, _ => .or
  | .nor, _ => .nor
  | .greater, _ => .greater
  | .greaterEq, _ => .greaterEq
  | .less, _ => .less
  | .lessEq, _ => .lessEq
  | .notEq, _ => .isnt
  | .eq, _ => .is

section generic
variable {α : Type} (L : Syn N α)

/-- `,` with an optional `and` -/
def commaToks (c : Choices N) : List (Tok N) :=
  tk (.kw .comma) (c.sub 0) :: (if c.choice % 2 = 1 then [tk (.kw .and) (c.sub 1)] else [])

def restToks : List α → Choices N → List (Tok N)
  | [], _ => []
  | e :: es, c => commaToks (c.sub 0) ++ (L.toks e (c.sub 1) ++ restToks es (c.sub 2))

def OpList.toks (l : OpList α) (c : Choices N) : List (Tok N) :=
  L.toks l.first (c.sub 0) ++ restToks L l.rest (c.sub 1)

def opsToks : List (BinOp × OpList α) → Choices N → List (Tok N)
  | [], _ => []
  | (op, l) :: r, c =>
      tk (.kw (opKind op (c.sub 0).choice)) (c.sub 0) :: (OpList.toks L l (c.sub 1) ++ opsToks r (c.sub 2))

/-- left-associative fold -/
def foldOps : Expr N → List (BinOp × OpList α) → Expr N
  | e, [] => e
  | e, (op, l) :: r => foldOps (.bin op e (L.toAst l.first) (l.rest.map L.toAst)) r

/-- `edgeCall` of the last element of `x :: xs`, given that of `x` -/
def lastEdge : Bool → List α → Bool
  | d, [] => d
  | _, e :: es => lastEdge (L.edgeCall e) es

def OpList.edgeCall (l : OpList α) : Bool := lastEdge L (L.edgeCall l.first) l.rest

/-- Side conditions (i), (ii), (iii) for an operand list. Inside a list element (`b`) it is a
    singleton. Otherwise the later elements are list elements; an element followed by `,` has no
    open call at its right edge, and the first element, if followed by `,`, no open list. -/
def OpList.wf (b : Bool) (l : OpList α) : Bool :=
  L.wf b l.first &&
  (if b then l.rest.isEmpty
   else l.rest.all (L.wf true) && (l.rest.isEmpty || !L.edgeList l.first) &&
        chainOK L.edgeCall l.first l.rest)

/-- the operator applications of a spine: operators of this level; an operand with an open call at
    its right edge is not followed by `and` -/
def wfOps (ops : List BinOp) (b : Bool) : Bool → List (BinOp × OpList α) → Bool
  | _, [] => true
  | prev, (op, l) :: r =>
      ops.contains op && !(prev && op == .and) && OpList.wf L b l &&
        wfOps ops b (OpList.edgeCall L l) r

def opsEdgeCall : Bool → List (BinOp × OpList α) → Bool
  | d, [] => d
  | _, (_, l) :: r => opsEdgeCall (OpList.edgeCall L l) r

/-- the level above `L` with the binary operators `ops` -/
def spineSyn (ops : List BinOp) : Syn N (Spine α) where
  toks s c := L.toks s.head (c.sub 0) ++ opsToks L s.ops (c.sub 1)
  toAst s := foldOps L (L.toAst s.head) s.ops
  wf b s := L.wf b s.head && wfOps L ops b (L.edgeCall s.head) s.ops
  edgeCall s := opsEdgeCall L (L.edgeCall s.head) s.ops
  edgeList s := if s.ops.isEmpty then L.edgeList s.head else true
  startsUn s := L.startsUn s.head
  forbidden := L.forbidden ++ ops.flatMap opKinds

end generic

/-! ### the ladder -/

abbrev Factor (N : Type) := Spine (Unary N)
abbrev Term (N : Type) := Spine (Factor N)

def factorSyn [CharOps] : Syn N (Factor N) := spineSyn unarySyn [.multiply, .divide]
def termSyn [CharOps] : Syn N (Term N) := spineSyn factorSyn [.plus, .minus]

/-- the comparators of an `is`-chain -/
inductive Fancy where
  | eq | notEq | greater | less | greaterEq | lessEq
  deriving DecidableEq, Repr

def Fancy.op : Fancy → BinOp
  | .eq => .eq
  | .notEq => .notEq
  | .greater => .greater
  | .less => .less
  | .greaterEq => .greaterEq
  | .lessEq => .lessEq

/-- the words after `is` -/
def Fancy.toks : Fancy → Choices N → List (Tok N)
  | .eq, _ => []
  | .notEq, c => [tk (.kw .not) (c.sub 0)]
  | .greater, c => [tk (.kw .bigger) (c.sub 0), tk (.kw .than) (c.sub 1)]
  | .less, c => [tk (.kw .smaller) (c.sub 0), tk (.kw .than) (c.sub 1)]
  | .greaterEq, c => [tk (.kw .as) (c.sub 0), tk (.kw .big) (c.sub 1), tk (.kw .as) (c.sub 2)]
  | .lessEq, c => [tk (.kw .as) (c.sub 0), tk (.kw .small) (c.sub 1), tk (.kw .as) (c.sub 2)]

/-- `is` | `'s` | `'re` -/
def isKind3 (n : Nat) : TK :=
  match n % 3 with
  | 0 => .is
  | 1 => .apostropheS
  | _ => .apostropheRE

/-- what follows the first term of a comparison: an `is`-chain, or a loop of symbol comparisons -/
inductive CmpTail (N : Type) where
  | chain (links : List (Fancy × Term N))
  | spine (ops : List (BinOp × OpList (Term N)))

structure Comparison (N : Type) where
  head : Term N
  tail : CmpTail N

section
variable [CharOps]

def linksToks : List (Fancy × Term N) → Choices N → List (Tok N)
  | [], _ => []
  | (f, t) :: r, c =>
      tk (.kw (isKind3 (c.sub 0).choice)) (c.sub 0) ::
        (f.toks (c.sub 1) ++ (termSyn.toks t (c.sub 2) ++ linksToks r (c.sub 3)))

def foldLinks : Expr N → List (Fancy × Term N) → Expr N
  | e, [] => e
  | e, (f, t) :: r => foldLinks (.bin f.op e (termSyn.toAst t) []) r

/-- (iv): the operand of a plain `is` does not start with `not` -/
def wfLinks (b : Bool) : List (Fancy × Term N) → Bool
  | [] => true
  | (f, t) :: r => termSyn.wf b t && !(f == .eq && termSyn.startsUn t == some .not) && wfLinks b r

/-- the last term of `t0 is t1 is t2 …` -/
def lastTerm : Term N → List (Fancy × Term N) → Term N
  | t, [] => t
  | _, (_, t) :: r => lastTerm t r

def comparisonOps : List BinOp := [.less, .lessEq, .greater, .greaterEq, .notEq]

def comparisonSyn : Syn N (Comparison N) where
  toks x c :=
    termSyn.toks x.head (c.sub 0) ++
      (match x.tail with
       | .chain links => linksToks links (c.sub 1)
       | .spine ops => opsToks termSyn ops (c.sub 1))
  toAst x :=
    match x.tail with
    | .chain links => foldLinks (termSyn.toAst x.head) links
    | .spine ops => foldOps termSyn (termSyn.toAst x.head) ops
  wf b x :=
    termSyn.wf b x.head &&
      (match x.tail with
       | .chain links => wfLinks b links
       | .spine ops => wfOps termSyn comparisonOps b (termSyn.edgeCall x.head) ops)
  edgeCall x :=
    match x.tail with
    | .chain links => termSyn.edgeCall (lastTerm x.head links)
    | .spine ops => opsEdgeCall termSyn (termSyn.edgeCall x.head) ops
  edgeList x :=
    match x.tail with
    | .chain links => termSyn.edgeList (lastTerm x.head links)
    | .spine ops => if ops.isEmpty then termSyn.edgeList x.head else true
  startsUn x := termSyn.startsUn x.head
  forbidden := (termSyn (N := N)).forbidden ++ [.is, .apostropheS, .apostropheRE] ++ comparisonOps.flatMap opKinds

abbrev Logical (N : Type) := Spine (Comparison N)

def logicalSyn : Syn N (Logical N) := spineSyn comparisonSyn [.and, .or, .nor]

/-! ### embeddings (an operand alone is an expression of the next level) -/

def Prim.toUnary (p : Prim N) : Unary N := .mk [] (.mk p [])
def Unary.toFactor (u : Unary N) : Factor N := ⟨u, []⟩
def Factor.toTerm (f : Factor N) : Term N := ⟨f, []⟩
def Term.toComparison (t : Term N) : Comparison N := ⟨t, .spine []⟩
def Comparison.toLogical (x : Comparison N) : Logical N := ⟨x, []⟩
def Prim.toTerm (p : Prim N) : Term N := p.toUnary.toFactor.toTerm
/-- a one-element operand list -/
def OpList.one {α : Type} (x : α) : OpList α := ⟨x, []⟩

/-- a variable as a unary expression / factor / term -/
def VarSpec.u (a : VarSpec) : Unary N := (Prim.var a).toUnary
def VarSpec.f (a : VarSpec) : Factor N := (Prim.var a).toUnary.toFactor
def VarSpec.t (a : VarSpec) : Term N := (Prim.var a).toTerm
/-- the tree of a variable (no range) -/
def VarSpec.e (a : VarSpec) : Expr N := .prim (.ident (.var a.toName) default)

/-- an expression: the top of the ladder -/
abbrev Expression (N : Type) := Logical N

/-- the tokens of an expression, for given choices -/
def unparse (e : Expression N) (c : Choices N) : List (Tok N) := logicalSyn.toks e c
/-- the tree of an expression -/
def toAst (e : Expression N) : Expr N := logicalSyn.toAst e
/-- well-formed outside any list -/
def Expression.wf (e : Expression N) : Bool := logicalSyn.wf false e
/-- `rest` cannot continue the expression `e` -/
def Expression.Stop (e : Expression N) (rest : List (Tok N)) : Prop := logicalSyn.Stop false e rest

/-- the token kinds that can continue some expression -/
def continuers : List TK := argSeps ++ (logicalSyn (N := N)).forbidden

/-- `rest` (e.g. the end of the tokens, a line end, `into`, …) cannot continue any expression -/
def EndsExpr (rest : List (Tok N)) : Prop := nextIn (continuers (N := N)) rest = false

/-! ### some sentences (used by the corollaries of C02) -/

/-- `a plus b times x` -/
def sPrecedence (a b x : VarSpec) : Expression N :=
  Comparison.toLogical (Term.toComparison ⟨a.f, [(.plus, .one ⟨b.u, [(.multiply, .one x.u)]⟩)]⟩)
/-- `a minus b minus x` -/
def sLeftAssoc (a b x : VarSpec) : Expression N :=
  Comparison.toLogical (Term.toComparison ⟨a.f, [(.minus, .one b.f), (.minus, .one x.f)]⟩)
/-- `a times b, x` -/
def sList (a b x : VarSpec) : Expression N :=
  Comparison.toLogical (Term.toComparison (Factor.toTerm ⟨a.u, [(.multiply, ⟨b.u, [x.u]⟩)]⟩))
/-- `a plus b times x, y` -/
def sListNearest (a b x y : VarSpec) : Expression N :=
  Comparison.toLogical (Term.toComparison ⟨a.f, [(.plus, .one ⟨b.u, [(.multiply, ⟨x.u, [y.u]⟩)]⟩)]⟩)
/-- `f taking x <sep> y` with any of the separators `,` `, and` `&` `'n'` `and` -/
def sArgs (f x y : VarSpec) : Expression N :=
  Comparison.toLogical (Term.toComparison (Prim.toTerm (.call f x.u [y.u])))
/-- `not x is y` -/
def sNotIs (x y : VarSpec) : Expression N :=
  Comparison.toLogical ⟨Factor.toTerm (Unary.toFactor (.mk [.not] (.mk (.var x) []))), .chain [(.eq, y.t)]⟩

/-! ### statements (one line each) -/

/-- a lexer snapshot that `current_loc` can read: inside the text, not before its line start -/
def SnapOK (src : Str) (s : Snap) : Prop := s.idx ≤ ulen src ∧ s.lineStart ≤ s.idx

/-- every template token carries such a snapshot (true of every lexed token, C12) -/
def Choices.Sane (c : Choices N) (src : Str) : Prop := ∀ p, SnapOK src (c.tok p).after

/-- an identifier where a statement wants one -/
inductive IdSpec where
  | pronoun
  | var (v : VarSpec)

def IdSpec.toIdent : IdSpec → Ident
  | .pronoun => .pronoun
  | .var v => .var v.toName

def IdSpec.toks : IdSpec → Choices N → List (Tok N)
  | .pronoun, c => [tk (.kw .pronoun) (c.sub 0)]
  | .var v, c => v.toks (c.sub 0)

def IdSpec.wf : IdSpec → Bool
  | .pronoun => true
  | .var v => v.wf

/-- an assignment target `id (at sub)*` -/
structure Target (N : Type) where
  id : IdSpec
  subs : List (Prim N)

def Target.toks (t : Target N) (c : Choices N) : List (Tok N) :=
  t.id.toks (c.sub 0) ++ subsToks t.subs (c.sub 1)

/-- `AssignmentLHS`: the last subscript is kept apart -/
def lhsOf : Rrss.Primary N → Prim N → List (Prim N) → Lhs N
  | acc, s, [] => .sub acc s.toAst
  | acc, s, s' :: ss => lhsOf (.sub acc s.toAst) s' ss

def Target.toLhs (t : Target N) : Lhs N :=
  match t.subs with
  | [] => .ident t.id.toIdent default
  | s :: ss => lhsOf (.ident t.id.toIdent default) s ss

def Target.wf (t : Target N) : Bool :=
  t.id.wf && subsWf t.subs &&
    (match t.subs with
     | [] => true
     | s :: ss => chainOK Prim.opensAt s ss)

def Target.edgeCall (t : Target N) : Bool := subsEdgeCall t.subs false

/-- what may follow a target (or a primary whose right edge is an open call iff `ec`) -/
def EdgeStop (ec : Bool) (rest : List (Tok N)) : Prop :=
  nextIn [.word, .taking, .at] rest = false ∧ (ec = true → nextIn argSeps rest = false)

/-! ### poetic literals and poetic assignments -/

/-- One item of a poetic number literal, as written. -/
inductive PoeticItem where
  /-- `,`: skipped -/
  | comma
  /-- `.` -/
  | dot
  /-- an `'s` (`re = false`) or `'re` token, with its spelling -/
  | apos (re : Bool) (sp : Str)
  /-- a hyphen (a `Minus` token spelled `-`) and the token after it, of ANY kind `k`, spelled `w` -/
  | hyphen (w : Str) (k : TK)
  /-- any other token, of kind `k`, spelled `w` (keywords count as words) -/
  | word (w : Str) (k : TK)
  deriving Repr

def PoeticItem.toks : PoeticItem → Choices N → List (Tok N)
  | .comma, c => [tk (.kw .comma) (c.sub 0)]
  | .dot, c => [tk (.kw .dot) (c.sub 0)]
  | .apos re sp, c => [tk (.spelled (if re then .apostropheRE else .apostropheS) sp) (c.sub 0)]
  | .hyphen w k, c => [tk (.spelled .minus ['-']) (c.sub 0), tk (.spelled k w) (c.sub 1)]
  | .word w k, c => [tk (.spelled k w) (c.sub 0)]

/-- the elements an item contributes to the literal (as `Rrss/Ast.lean` stores them) -/
def PoeticItem.elems : PoeticItem → List PoeticElem
  | .comma => []
  | .dot => [.dot]
  | .apos _ sp => [.suffix sp]
  | .hyphen w _ => [.suffix ('-' :: w)]
  | .word w _ => [.word w]

/-- the kinds the literal loop recognises whatever the spelling -/
def poeticPunct : List TK := [.dot, .comma, .apostropheS, .apostropheRE]

/-- a word item is word-like and not of a kind that is read as punctuation; the token after a
    hyphen is word-like -/
def PoeticItem.wf : PoeticItem → Bool
  | .hyphen w _ => Lexer.isWord w
  | .word w k => Lexer.isWord w && !poeticPunct.contains k
  | _ => true

def PoeticItem.isHyphen : PoeticItem → Bool
  | .hyphen _ _ => true
  | _ => false

def itemsToks : List PoeticItem → Choices N → List (Tok N)
  | [], _ => []
  | i :: is, c => i.toks (c.sub 0) ++ itemsToks is (c.sub 1)

def itemsElems : List PoeticItem → List PoeticElem
  | [] => []
  | i :: is => i.elems ++ itemsElems is

/-- a poetic number literal: items well-formed, at least one element, no leading hyphen -/
def litWf (is : List PoeticItem) : Bool :=
  is.all PoeticItem.wf && !(itemsElems is).isEmpty &&
    !(match is with
      | i :: _ => i.isHyphen
      | [] => false)

/-- the kinds of literal words -/
def literalKinds : List TK := [.mysterious, .null, .number, .stringLit, .empty, .true_, .false_]

/-- the literal can be the right-hand side of `is`: its first token is not a literal word (a
    right-hand side that starts with a literal word is an ordinary expression) -/
def litAssignable : List PoeticItem → Bool
  | .word _ k :: _ => !literalKinds.contains k
  | _ => true

/-- does this token continue a poetic number literal? -/
def continuesPoetic (t : Tok N) : Bool :=
  poeticPunct.contains t.kind || (t.kind == .minus && t.spelling == ['-']) || Lexer.isWord t.spelling

/-- `rest` does not continue a poetic number literal -/
def PoeticEnd (rest : List (Tok N)) : Prop :=
  ∀ t, rest.head? = some t → continuesPoetic t = false

/-- `says` | `say` -/
def saysKind (n : Nat) : TK := if n % 2 = 0 then .says else .say

/-- the tokens on the rest of a `says` line: of the given kinds, everything else as the template
    says -/
def junkToks : List TK → Choices N → List (Tok N)
  | [], _ => []
  | k :: ks, c => tk (.kw k) (c.sub 0) :: junkToks ks (c.sub 1)

/-- the source text from byte `start` to the start of the first token of `rest` (to the end of the
    source if there is none): what `get_literal_text_between` / `_after` return -/
def lineText (src : Str) (start : Nat) (rest : List (Tok N)) : Option Str :=
  match rest with
  | t :: _ => Lexer.substr src start t.start
  | [] => Lexer.substr src start (ulen src)

/-- The statements that fit on a line. -/
inductive SimpleStmt (N : Type) where
  /-- `say E` (any alias of `say`) -/
  | say (e : Expression N)
  /-- `put E into T` -/
  | put (e : Expression N) (t : Target N)
  /-- `let T be [op] list` -/
  | letBe (t : Target N) (op : Option BinOp) (l : OpList (Expression N))
  /-- `build X up[,] up[,] …` (`extra` more `up`s; a comma may follow each `up`) -/
  | build (x : IdSpec) (extra : Nat)
  /-- `knock X down [,] down …` -/
  | knock (x : IdSpec) (extra : Nat)
  /-- `listen` / `listen to T` -/
  | listen (t : Option (Target N))
  /-- `turn <dir> E` / `turn E <dir>` -/
  | turn (d : RoundDir) (e : Expression N)
  /-- `rock P` / `rock P with list` -/
  | rock (p : Primary N) (vals : Option (OpList (Expression N)))
  /-- `roll P` / `roll P into T` -/
  | roll (p : Primary N) (into : Option (Target N))
  /-- `<return> [back] E [back]`; `kw` is the spelling of the return keyword: the leading `back` is
      possible only after `give` -/
  | ret (kw : Str) (e : Expression N)
  /-- `break` / `break <it> down` (with the spelling of `it`) -/
  | break_ (it : Option Str)
  /-- `continue` / `take <it> to <the> top` -/
  | continue_ (itThe : Option (Str × Str))
  /-- `cut|join|cast P [into T] [with E]` -/
  | mutation (op : MutOp) (p : Primary N) (into : Option (Target N)) (param : Option (Expression N))
  /-- `f taking args` as a statement -/
  | call (f : VarSpec) (arg : Unary N) (args : List (Unary N))
  /-- `T is|'s|'re <poetic number literal>` -/
  | poeticLit (t : Target N) (lit : List PoeticItem)
  /-- `T is|'s|'re E` where `E` starts with a literal word or is a negative number: an ordinary
      expression -/
  | poeticExpr (t : Target N) (e : Expression N)
  /-- `T says|say <text>`; `junk` are the kinds of the tokens on the rest of the line -/
  | poeticStr (t : Target N) (text : Str) (junk : List TK)
  /-- `rock P like <poetic number literal>` -/
  | rockLike (p : Primary N) (lit : List PoeticItem)

def mutKind : MutOp → TK
  | .cut => .cut
  | .join => .join
  | .cast => .cast

def dirKind : RoundDir → TK
  | .up => .up
  | .down => .down
  | .nearest => .round

/-- `up [,] up [,] …`: `n` suffixes, each followed by an optional comma -/
def suffixToks (k : TK) : Nat → Choices N → List (Tok N)
  | 0, _ => []
  | n + 1, c =>
      tk (.kw k) (c.sub 0) ::
        ((if c.choice % 2 = 1 then [tk (.kw .comma) (c.sub 1)] else []) ++ suffixToks k n (c.sub 2))

def optTok (b : Bool) (k : TK) (c : Choices N) : List (Tok N) := if b then [tk (.kw k) c] else []

def SimpleStmt.toks : SimpleStmt N → Choices N → List (Tok N)
  | .say e, c =>
      tk (.kw (if (c.sub 0).choice % 2 = 0 then .say else .sayAlias)) (c.sub 0) :: unparse e (c.sub 1)
  | .put e t, c =>
      tk (.kw .put) (c.sub 0) :: (unparse e (c.sub 1) ++ tk (.kw .into) (c.sub 2) :: t.toks (c.sub 3))
  | .letBe t op l, c =>
      tk (.kw .let_) (c.sub 0) :: (t.toks (c.sub 1) ++ tk (.kw .be) (c.sub 2) ::
        ((match op with
          | some o => [tk (.kw (opKind o (c.sub 3).choice)) (c.sub 3)]
          | none => []) ++ OpList.toks logicalSyn l (c.sub 4)))
  | .build x n, c =>
      tk (.kw .build) (c.sub 0) :: (x.toks (c.sub 1) ++ suffixToks .up (n + 1) (c.sub 2))
  | .knock x n, c =>
      tk (.kw .knock) (c.sub 0) :: (x.toks (c.sub 1) ++ suffixToks .down (n + 1) (c.sub 2))
  | .listen none, c => [tk (.kw .listen) (c.sub 0)]
  | .listen (some t), c => tk (.kw .listen) (c.sub 0) :: tk (.kw .to) (c.sub 1) :: t.toks (c.sub 2)
  | .turn d e, c =>
      if (c.sub 0).choice % 2 = 0 then
        tk (.kw .turn) (c.sub 0) :: tk (.kw (dirKind d)) (c.sub 1) :: unparse e (c.sub 2)
      else tk (.kw .turn) (c.sub 0) :: (unparse e (c.sub 2) ++ [tk (.kw (dirKind d)) (c.sub 1)])
  | .rock p none, c => tk (.kw .rock) (c.sub 0) :: p.toks (c.sub 1)
  | .rock p (some l), c =>
      tk (.kw .rock) (c.sub 0) :: (p.toks (c.sub 1) ++ tk (.kw .with_) (c.sub 2) :: OpList.toks logicalSyn l (c.sub 3))
  | .roll p none, c => tk (.kw .roll) (c.sub 0) :: p.toks (c.sub 1)
  | .roll p (some t), c =>
      tk (.kw .roll) (c.sub 0) :: (p.toks (c.sub 1) ++ tk (.kw .into) (c.sub 2) :: t.toks (c.sub 3))
  | .ret kw e, c =>
      tk (.spelled .return_ kw) (c.sub 0) ::
        (optTok (CharOps.lower kw == str% "give" && (c.sub 1).choice % 2 = 1) .back (c.sub 1) ++
          (unparse e (c.sub 2) ++ optTok ((c.sub 3).choice % 2 = 1) .back (c.sub 3)))
  | .break_ none, c => [tk (.kw .break_) (c.sub 0)]
  | .break_ (some it), c => [tk (.kw .break_) (c.sub 0), tk (.anyKind it) (c.sub 1), tk (.kw .down) (c.sub 2)]
  | .continue_ none, c => [tk (.kw .continue_) (c.sub 0)]
  | .continue_ (some (it, the)), c =>
      [tk (.kw .take) (c.sub 0), tk (.anyKind it) (c.sub 1), tk (.kw .to) (c.sub 2),
       tk (.anyKind the) (c.sub 3), tk (.kw .top) (c.sub 4)]
  | .mutation op p into param, c =>
      tk (.kw (mutKind op)) (c.sub 0) :: (p.toks (c.sub 1) ++
        ((match into with
          | some t => tk (.kw .into) (c.sub 2) :: t.toks (c.sub 3)
          | none => []) ++
         (match param with
          | some e => tk (.kw .with_) (c.sub 4) :: unparse e (c.sub 5)
          | none => [])))
  | .call f a as, c =>
      f.toks (c.sub 0) ++ tk (.kw .taking) (c.sub 1) :: (a.toks (c.sub 2) ++ argsToks as (c.sub 3))
  | .poeticLit t lit, c =>
      t.toks (c.sub 0) ++ tk (.kw (isKind3 (c.sub 1).choice)) (c.sub 1) :: itemsToks lit (c.sub 2)
  | .poeticExpr t e, c =>
      t.toks (c.sub 0) ++ tk (.kw (isKind3 (c.sub 1).choice)) (c.sub 1) :: unparse e (c.sub 2)
  | .poeticStr t _ junk, c =>
      t.toks (c.sub 0) ++ tk (.kw (saysKind (c.sub 1).choice)) (c.sub 1) :: junkToks junk (c.sub 2)
  | .rockLike p lit, c =>
      tk (.kw .rock) (c.sub 0) :: (p.toks (c.sub 1) ++ tk (.kw .like) (c.sub 2) :: itemsToks lit (c.sub 3))

def OpList.toExprList (l : OpList (Expression N)) : ExprList N := ⟨toAst l.first, l.rest.map toAst⟩

/-- the statement the grammar assigns (ranges and locations `default`) -/
def SimpleStmt.toStmt : SimpleStmt N → Stmt N
  | .say e => .output (toAst e)
  | .put e t => .assign t.toLhs none ⟨toAst e, []⟩
  | .letBe t op l => .assign t.toLhs op l.toExprList
  | .build x n => .inc x.toIdent default (1 + Int.ofNat n)
  | .knock x n => .dec x.toIdent default (1 + Int.ofNat n)
  | .listen t => .input (t.map Target.toLhs) default
  | .turn d e => .rounding d (toAst e)
  | .rock p vals => .push p.toAst (vals.map fun l => .list l.toExprList)
  | .roll p into => .pop p.toAst (into.map Target.toLhs)
  | .ret _ e => .ret (toAst e)
  | .break_ _ => .break_ default
  | .continue_ _ => .continue_ default
  | .mutation op p into param => .mutation op p.toAst (into.map Target.toLhs) (param.map toAst)
  | .call f a as => .call f.toName default (a.toAst :: argsToAst as)
  | .poeticLit t lit => .poeticNum t.toLhs (.lit (itemsElems lit))
  | .poeticExpr t e => .poeticNum t.toLhs (.expr (toAst e))
  | .poeticStr t text _ => .poeticStr t.toLhs text
  | .rockLike p lit => .push p.toAst (some (.lit (itemsElems lit)))

/-- the first operand of an expression -/
def Expression.headUnary (e : Expression N) : Unary N := e.head.head.head.head

/-- how an expression can be the right-hand side of a poetic `is`: it starts with a literal word
    (`some false`), or it starts with a negative number, `-` `<number>` (`some true`) -/
def Unary.poeticStart : Unary N → Option Bool
  | .mk [] (.mk (.lit _) _) => some false
  | .mk [.minus] (.mk (.lit (.num _)) _) => some true
  | _ => none

/-- is this primary a bare identifier? -/
def Primary.isIdent : Primary N → Bool
  | .mk .pronoun [] => true
  | .mk (.var _) [] => true
  | _ => false

/-- side conditions of a statement -/
def SimpleStmt.wf : SimpleStmt N → Bool
  | .say e => e.wf
  | .put e t => e.wf && t.wf
  | .letBe t op l =>
      t.wf && OpList.wf logicalSyn false l &&
        (match op with
         | some o => [BinOp.plus, .minus, .multiply, .divide].contains o
         -- without an operator, a leading `-` would be taken for the compound operator
         | none => logicalSyn.startsUn l.first != some .minus)
  | .build x _ => x.wf
  | .knock x _ => x.wf
  | .listen none => true
  | .listen (some t) => t.wf
  | .turn _ e => e.wf
  | .rock p none => p.wf
  | .rock p (some l) => p.wf && OpList.wf logicalSyn false l
  | .roll p none => p.wf
  | .roll p (some t) => p.wf && t.wf
  | .ret _ e => e.wf
  | .break_ none => true
  | .break_ (some it) => CharOps.lower it == str% "it"
  | .continue_ none => true
  | .continue_ (some (it, the)) => CharOps.lower it == str% "it" && CharOps.lower the == str% "the"
  | .mutation _ p into param =>
      p.wf && (into.isSome || p.isIdent) &&
        (match into with | some t => t.wf | none => true) &&
        (match param with | some e => e.wf | none => true)
  | .call f a as => f.wf && a.wf && argsWf as && chainOK Unary.edgeCall a as
  | .poeticLit t lit => t.wf && litWf lit && litAssignable lit
  | .poeticExpr t e => t.wf && e.wf && e.headUnary.poeticStart.isSome
  | .poeticStr t _ junk => t.wf && junk.all (· != .newline)
  | .rockLike p lit => p.wf && litWf lit

/-- what may follow an operand list outside any list -/
def ListStop (l : OpList (Expression N)) (rest : List (Tok N)) : Prop :=
  nextIn (logicalSyn (N := N)).forbidden rest = false ∧
  (OpList.edgeCall logicalSyn l = true → nextIn argSeps rest = false) ∧ nextIn [.comma] rest = false

/-- `rest` cannot continue the statement -/
def SimpleStmt.Stop : SimpleStmt N → List (Tok N) → Prop
  | .say e, rest => e.Stop rest
  | .put _ t, rest => EdgeStop t.edgeCall rest
  | .letBe _ _ l, rest => ListStop l rest
  | .build _ _, rest => nextIn [.up, .comma] rest = false
  | .knock _ _, rest => nextIn [.down, .comma] rest = false
  | .listen none, rest => nextIn [.to] rest = false
  | .listen (some t), rest => EdgeStop t.edgeCall rest
  | .turn _ e, rest => e.Stop rest ∧ nextIn [.up, .down, .round] rest = false
  | .rock p none, rest => EdgeStop p.edgeCall rest ∧ nextIn [.with_, .like] rest = false
  | .rock _ (some l), rest => ListStop l rest
  | .roll p none, rest => EdgeStop p.edgeCall rest ∧ nextIn [.into] rest = false
  | .roll _ (some t), rest => EdgeStop t.edgeCall rest
  | .ret _ e, rest => e.Stop rest ∧ nextIn [.back] rest = false
  | .break_ none, rest => ∀ t, rest.head? = some t → (CharOps.lower t.spelling == str% "it") = false
  | .break_ (some _), _ => True
  | .continue_ _, _ => True
  | .mutation _ p into param, rest =>
      match param, into with
      | some e, _ => e.Stop rest
      | none, some t => EdgeStop t.edgeCall rest ∧ nextIn [.with_] rest = false
      | none, none => EdgeStop p.edgeCall rest ∧ nextIn [.into, .with_] rest = false
  | .call _ _ _, rest => nextIn [.word, .taking, .at] rest = false ∧ nextIn argSeps rest = false
  | .poeticLit _ _, rest => PoeticEnd rest
  | .poeticExpr _ e, rest => e.Stop rest
  | .poeticStr _ _ _, rest => rest = [] ∨ nextIn [.newline] rest = true
  | .rockLike _ _, rest => PoeticEnd rest

/-- The two places where the parser reads something of a token that the grammar leaves to the
    template, apart from the token after the statement (`Stop`): the hyphen test of `X is -5` looks at
    the SPELLING of the `Minus` token (`-`, not `minus`), and the text of `X says …` is cut out of the
    source between the START of the `says` token and the start of the next `Newline` token (the end
    of the source if there is none). -/
def SimpleStmt.Fits (src : Str) : SimpleStmt N → Choices N → List (Tok N) → Prop
  | .poeticExpr _ e, c, _ =>
      e.headUnary.poeticStart = some true → ∀ t, (unparse e (c.sub 2)).head? = some t → t.spelling = ['-']
  | .poeticStr _ text _, c, rest =>
      lineText src (c.sub 1).here.start rest = some ((c.sub 1).here.spelling ++ ' ' :: text)
  | _, _, _ => True

/-- the part of `Stop` that looks at the SPELLING of the next token -/
def SimpleStmt.PeekStop : SimpleStmt N → List (Tok N) → Prop
  | .break_ none, rest => ∀ t, rest.head? = some t → (CharOps.lower t.spelling == str% "it") = false
  | .poeticLit _ _, rest => PoeticEnd rest
  | .rockLike _ _, rest => PoeticEnd rest
  | _, _ => True

/-! ### statements up to source positions -/

def eraseLhs : Lhs N → Lhs N
  | .ident i _ => .ident i default
  | .sub a i => .sub (eraseP a) (eraseP i)

def eraseEL (l : ExprList N) : ExprList N := ⟨eraseE l.first, eraseL l.rest⟩

mutual
/-- forget every source range and location of a statement -/
def eraseS : Stmt N → Stmt N
  | .assign d op v => .assign (eraseLhs d) op (eraseEL v)
  | .poeticNum d (.expr e) => .poeticNum (eraseLhs d) (.expr (eraseE e))
  | .poeticNum d (.lit l) => .poeticNum (eraseLhs d) (.lit l)
  | .poeticStr d s => .poeticStr (eraseLhs d) s
  | .ifS cnd t e => .ifS (eraseE cnd) (eraseB t) (match e with | some b => some (eraseB b) | none => none)
  | .whileS cnd b => .whileS (eraseE cnd) (eraseB b)
  | .untilS cnd b => .untilS (eraseE cnd) (eraseB b)
  | .inc d _ a => .inc d default a
  | .dec d _ a => .dec d default a
  | .input d _ => .input (d.map eraseLhs) default
  | .output v => .output (eraseE v)
  | .mutation op p d e => .mutation op (eraseP p) (d.map eraseLhs) (e.map eraseE)
  | .rounding d e => .rounding d (eraseE e)
  | .continue_ _ => .continue_ default
  | .break_ _ => .break_ default
  | .push a (some (.list l)) => .push (eraseP a) (some (.list (eraseEL l)))
  | .push a (some (.lit l)) => .push (eraseP a) (some (.lit l))
  | .push a none => .push (eraseP a) none
  | .pop a d => .pop (eraseP a) (d.map eraseLhs)
  | .ret v => .ret (eraseE v)
  | .func f _ ps b => .func f default (ps.map fun p => (p.1, default)) (eraseB b)
  | .call f _ args => .call f default (eraseL args)
def eraseB : Block N → Block N
  | .mk _ ss => .mk default (eraseSL ss)
def eraseSL : List (Stmt N) → List (Stmt N)
  | [] => []
  | s :: ss => eraseS s :: eraseSL ss
end

/-! ### lines and blocks -/

/-- the optional punctuation before a line end -/
inductive Eol where
  | none | dot | comma
  deriving DecidableEq, Repr

/-- `[.|,] <newline>` -/
def eolToks (e : Eol) (c : Choices N) : List (Tok N) :=
  (match e with
   | .none => []
   | .dot => [tk (.kw .dot) (c.sub 0)]
   | .comma => [tk (.kw .comma) (c.sub 0)]) ++ [tk (.kw .newline) (c.sub 1)]

/-- may the expression be followed by a comma that is not its own? -/
def Expression.commaOK (e : Expression N) : Bool := !logicalSyn.edgeCall e && !logicalSyn.edgeList e

/-- may the statement be followed by the `,` of a line end? (not if an open list or argument list
    would take it) -/
def SimpleStmt.commaOK : SimpleStmt N → Bool
  | .say e => e.commaOK
  | .put _ t => !t.edgeCall
  | .letBe _ _ _ => false
  | .build _ _ => false
  | .knock _ _ => false
  | .listen none => true
  | .listen (some t) => !t.edgeCall
  | .turn _ e => e.commaOK
  | .rock p none => !p.edgeCall
  | .rock _ (some _) => false
  | .roll p none => !p.edgeCall
  | .roll _ (some t) => !t.edgeCall
  | .ret _ e => e.commaOK
  | .break_ _ => true
  | .continue_ _ => true
  | .mutation _ p into param =>
      match param, into with
      | some e, _ => e.commaOK
      | none, some t => !t.edgeCall
      | none, none => !p.edgeCall
  | .call _ _ _ => false
  | .poeticLit _ _ => false
  | .poeticExpr _ e => e.commaOK
  | .poeticStr _ _ _ => false
  | .rockLike _ _ => false

/-- may the statement be followed by the `.` of a line end? (not if a poetic literal or the text of
    a poetic string would take it) -/
def SimpleStmt.dotOK : SimpleStmt N → Bool
  | .poeticLit _ _ => false
  | .poeticStr _ _ _ => false
  | .rockLike _ _ => false
  | _ => true

/-- Statements with their line ends; a block is a list of statements. A compound statement is
    closed by ONE blank line (a `Newline` token where a statement would start); a function whose
    body ends with an `if … else …` is closed by the blank line that closes the `else` block. -/
inductive Statement (N : Type) where
  | simple (s : SimpleStmt N) (eol : Eol)
  /-- `if C <eol> then-block [else <newline> else-block]` -/
  | ifS (cond : Expression N) (eol : Eol) (thenB : List (Statement N)) (elseB : Option (List (Statement N)))
  | whileS (cond : Expression N) (eol : Eol) (body : List (Statement N))
  | untilS (cond : Expression N) (eol : Eol) (body : List (Statement N))
  /-- `f takes p (sep p)* <eol> body` -/
  | func (f : VarSpec) (p : VarSpec) (ps : List VarSpec) (eol : Eol) (body : List (Statement N))

/-- `if` with an `else`: ends a function body -/
def Statement.isIfElse : Statement N → Bool
  | .ifS _ _ _ (some _) => true
  | _ => false

/-- the line end of a statement: its own `[.|,] newline`, or the blank line that closes a
    compound statement -/
def Statement.eolToks : Statement N → Choices N → List (Tok N)
  | .simple _ e, c => Grammar.eolToks e c
  | _, c => [tk (.kw .newline) (c.sub 1)]

def paramsToks : List VarSpec → Choices N → List (Tok N)
  | [], _ => []
  | v :: vs, c => sepToks (c.sub 0) ++ (v.toks (c.sub 1) ++ paramsToks vs (c.sub 2))

mutual
def Statement.toks : Statement N → Choices N → List (Tok N)
  | .simple s _, c => s.toks c
  | .ifS cond eol t e, c =>
      tk (.kw .if_) (c.sub 0) :: (unparse cond (c.sub 1) ++ (Grammar.eolToks eol (c.sub 2) ++
        ((match t with
          | [] => [tk (.kw .newline) ((c.sub 3).sub 0)]
          | _ :: _ => linesToks t (c.sub 3)) ++
         (match e with
          | some b =>
              tk (.kw .else_) (c.sub 4) :: tk (.kw .newline) (c.sub 5) ::
                (match b with
                 | [] => [tk (.kw .newline) ((c.sub 6).sub 0)]
                 | _ :: _ => linesToks b (c.sub 6))
          | none => []))))
  | .whileS cond eol b, c =>
      tk (.kw .while_) (c.sub 0) :: (unparse cond (c.sub 1) ++ (Grammar.eolToks eol (c.sub 2) ++
        (match b with
         | [] => [tk (.kw .newline) ((c.sub 3).sub 0)]
         | _ :: _ => linesToks b (c.sub 3))))
  | .untilS cond eol b, c =>
      tk (.kw .until_) (c.sub 0) :: (unparse cond (c.sub 1) ++ (Grammar.eolToks eol (c.sub 2) ++
        (match b with
         | [] => [tk (.kw .newline) ((c.sub 3).sub 0)]
         | _ :: _ => linesToks b (c.sub 3))))
  | .func f p ps eol b, c =>
      f.toks (c.sub 0) ++ tk (.kw .takes) (c.sub 1) :: (p.toks (c.sub 2) ++ (paramsToks ps (c.sub 3) ++
        (Grammar.eolToks eol (c.sub 4) ++
          (match b with
           | [] => [tk (.kw .newline) ((c.sub 5).sub 0)]
           | _ :: _ => fnLinesToks b (c.sub 5)))))
/-- the lines of a non-empty block -/
def linesToks : List (Statement N) → Choices N → List (Tok N)
  | [], _ => []
  | s :: ss, c => s.toks (c.sub 0) ++ (s.eolToks (c.sub 1) ++ linesToks ss (c.sub 2))
/-- the lines of a function body: a final `if … else …` has no line end of its own -/
def fnLinesToks : List (Statement N) → Choices N → List (Tok N)
  | [], _ => []
  | s :: ss, c =>
      s.toks (c.sub 0) ++ ((if ss.isEmpty && s.isIfElse then [] else s.eolToks (c.sub 1)) ++
        fnLinesToks ss (c.sub 2))
end

mutual
/-- the statement the grammar assigns (ranges and locations `default`) -/
def Statement.toStmt : Statement N → Stmt N
  | .simple s _ => s.toStmt
  | .ifS cond _ t e =>
      .ifS (toAst cond) (.mk default (stmtsToStmt t))
        (match e with
         | some b => some (.mk default (stmtsToStmt b))
         | none => none)
  | .whileS cond _ b => .whileS (toAst cond) (.mk default (stmtsToStmt b))
  | .untilS cond _ b => .untilS (toAst cond) (.mk default (stmtsToStmt b))
  | .func f p ps _ b => .func f.toName default ((p :: ps).map fun v => (v.toName, default)) (.mk default (stmtsToStmt b))
def stmtsToStmt : List (Statement N) → List (Stmt N)
  | [] => []
  | s :: ss => s.toStmt :: stmtsToStmt ss
end

/-- in a function body only the last statement may be an `if … else …` -/
def fnBodyOK : List (Statement N) → Bool
  | [] => true
  | [_] => true
  | s :: s' :: ss => !s.isIfElse && fnBodyOK (s' :: ss)

mutual
/-- side conditions of a statement with its line end -/
def Statement.wf : Statement N → Bool
  | .simple s eol => s.wf && ((eol != .comma || s.commaOK) && (eol != .dot || s.dotOK))
  | .ifS cond eol t e =>
      cond.wf && (eol != .comma || cond.commaOK) && stmtsWf t &&
        (match e with
         | some b => stmtsWf b
         | none => true)
  | .whileS cond eol b => cond.wf && (eol != .comma || cond.commaOK) && stmtsWf b
  | .untilS cond eol b => cond.wf && (eol != .comma || cond.commaOK) && stmtsWf b
  | .func f p ps eol b =>
      f.wf && p.wf && ps.all VarSpec.wf && eol != .comma && stmtsWf b && fnBodyOK b
def stmtsWf : List (Statement N) → Bool
  | [] => true
  | s :: ss => s.wf && stmtsWf ss
end

/-- the tokens of a block: its lines, or one blank line if it is empty -/
def blockToks (b : List (Statement N)) (c : Choices N) : List (Tok N) :=
  match b with
  | [] => [tk (.kw .newline) (c.sub 0)]
  | _ :: _ => linesToks b c

/-- no template token is spelled `it`: a sufficient condition for the `break` part of `Fits`
    (a bare `break` looks at the spelling of the next token) -/
def Choices.NoIt (c : Choices N) : Prop :=
  ∀ p, (CharOps.lower (c.tok p).spelling == str% "it") = false

/-- what may follow a block: the end of the tokens, a blank line, or `else` -/
def BlockEnd (rest : List (Tok N)) : Prop :=
  rest = [] ∨ nextIn [.newline, .else_] rest = true

/-- what may follow a compound statement: the end of the tokens or a blank line -/
def LineEnd (rest : List (Tok N)) : Prop :=
  rest = [] ∨ nextIn [.newline] rest = true

/-- `rest` cannot continue the statement -/
def Statement.Stop : Statement N → List (Tok N) → Prop
  | .simple s _, rest => s.Stop rest
  | _, rest => LineEnd rest

/-! ### where the parser reads template tokens

  Three places of the parser read something of a token that the grammar does not fix: a bare
  `break` reads the SPELLING of the next token (`it`?), a poetic number literal reads the spelling
  of the next token (word-like?), `X is -5` reads the spelling of the `Minus` token and `X says …`
  reads token START offsets and the source text. `Fits` collects, for every such place in a block,
  the condition under which the parser sees what the grammar means; for statements without these
  constructs it is `True`. -/

/-- the spelling-dependent stop condition of a line: the first token of the line end does not
    continue the statement -/
def Statement.EolOK : Statement N → Choices N → Prop
  | .simple s eol, c => s.PeekStop (Grammar.eolToks eol c)
  | _, _ => True

mutual
/-- the template conditions inside the statement, which is followed by `rest` -/
def Statement.Fits (src : Str) : Statement N → Choices N → List (Tok N) → Prop
  | .simple s _, c, rest => s.Fits src c rest
  | .ifS _ _ t e, c, _ =>
      linesFit src t (c.sub 3) ∧
        (match e with
         | some b => linesFit src b (c.sub 6)
         | none => True)
  | .whileS _ _ b, c, _ => linesFit src b (c.sub 3)
  | .untilS _ _ b, c, _ => linesFit src b (c.sub 3)
  | .func _ _ _ _ b, c, _ => fnLinesFit src b (c.sub 5)
/-- … in the lines of a block -/
def linesFit (src : Str) : List (Statement N) → Choices N → Prop
  | [], _ => True
  | s :: ss, c =>
      s.Fits src (c.sub 0) (s.eolToks (c.sub 1)) ∧ s.EolOK (c.sub 1) ∧ linesFit src ss (c.sub 2)
/-- … in the lines of a function body -/
def fnLinesFit (src : Str) : List (Statement N) → Choices N → Prop
  | [], _ => True
  | s :: ss, c =>
      (if ss.isEmpty && s.isIfElse then s.Fits src (c.sub 0) []
       else s.Fits src (c.sub 0) (s.eolToks (c.sub 1)) ∧ s.EolOK (c.sub 1)) ∧ fnLinesFit src ss (c.sub 2)
end

/-! ### programs -/

/-- `k` blank lines -/
def blanksToks : Nat → Choices N → List (Tok N)
  | 0, _ => []
  | k + 1, c => tk (.kw .newline) (c.sub 0) :: blanksToks k (c.sub 1)

/-- A program: top-level blocks, each closed by a blank line; any number of additional blank lines
    (chosen by `c`) before each block and at the end. -/
def progToks : List (List (Statement N)) → Choices N → List (Tok N)
  | [], c => blanksToks (c.sub 0).choice (c.sub 0)
  | b :: bs, c =>
      blanksToks (c.sub 0).choice (c.sub 0) ++ (linesToks b (c.sub 1) ++
        tk (.kw .newline) (c.sub 2) :: progToks bs (c.sub 3))

/-- the program the grammar assigns -/
def progToAst (bs : List (List (Statement N))) : List (Block N) :=
  bs.map fun b => .mk default (stmtsToStmt b)

/-- every top-level block is non-empty and well-formed -/
def progWf (bs : List (List (Statement N))) : Bool :=
  bs.all fun b => !b.isEmpty && stmtsWf b

/-- the template conditions of a program -/
def progFits (src : Str) : List (List (Statement N)) → Choices N → Prop
  | [], _ => True
  | b :: bs, c => linesFit src b (c.sub 1) ∧ progFits src bs (c.sub 3)

/-! ### the end of the tokens instead of the last line ends

  `Parser::parse` accepts the end of the tokens wherever it accepts a `Newline`: the spelling of a
  program in which the `Newline` of the last line and the blank lines that close the blocks still
  open there are omitted (`say 1<EOF>`, `if x⏎say 1.<EOF>`). -/

/-- the line end of the last statement at the end of the tokens: only the punctuation of a
    one-line statement -/
def Statement.eolToksE : Statement N → Choices N → List (Tok N)
  | .simple _ .none, _ => []
  | .simple _ .dot, c => [tk (.kw .dot) (c.sub 0)]
  | .simple _ .comma, c => [tk (.kw .comma) (c.sub 0)]
  | _, _ => []

mutual
/-- the tokens of a statement that is the last thing in the input -/
def Statement.toksE : Statement N → Choices N → List (Tok N)
  | .simple s _, c => s.toks c
  | .ifS cond eol t none, c =>
      tk (.kw .if_) (c.sub 0) :: (unparse cond (c.sub 1) ++ (Grammar.eolToks eol (c.sub 2) ++
        linesToksE t (c.sub 3)))
  | .ifS cond eol t (some b), c =>
      tk (.kw .if_) (c.sub 0) :: (unparse cond (c.sub 1) ++ (Grammar.eolToks eol (c.sub 2) ++
        ((match t with
          | [] => [tk (.kw .newline) ((c.sub 3).sub 0)]
          | _ :: _ => linesToks t (c.sub 3)) ++
         (tk (.kw .else_) (c.sub 4) :: tk (.kw .newline) (c.sub 5) :: linesToksE b (c.sub 6)))))
  | .whileS cond eol b, c =>
      tk (.kw .while_) (c.sub 0) :: (unparse cond (c.sub 1) ++ (Grammar.eolToks eol (c.sub 2) ++
        linesToksE b (c.sub 3)))
  | .untilS cond eol b, c =>
      tk (.kw .until_) (c.sub 0) :: (unparse cond (c.sub 1) ++ (Grammar.eolToks eol (c.sub 2) ++
        linesToksE b (c.sub 3)))
  | .func f p ps eol b, c =>
      f.toks (c.sub 0) ++ tk (.kw .takes) (c.sub 1) :: (p.toks (c.sub 2) ++ (paramsToks ps (c.sub 3) ++
        (Grammar.eolToks eol (c.sub 4) ++ fnLinesToksE b (c.sub 5))))
/-- the lines of a block that ends with the tokens (nothing at all if the block is empty) -/
def linesToksE : List (Statement N) → Choices N → List (Tok N)
  | [], _ => []
  | s :: ss, c =>
      match ss with
      | [] => s.toksE (c.sub 0) ++ s.eolToksE (c.sub 1)
      | _ :: _ => s.toks (c.sub 0) ++ (s.eolToks (c.sub 1) ++ linesToksE ss (c.sub 2))
/-- the lines of a function body that ends with the tokens -/
def fnLinesToksE : List (Statement N) → Choices N → List (Tok N)
  | [], _ => []
  | s :: ss, c =>
      match ss with
      | [] => s.toksE (c.sub 0) ++ (if s.isIfElse then [] else s.eolToksE (c.sub 1))
      | _ :: _ => s.toks (c.sub 0) ++ (s.eolToks (c.sub 1) ++ fnLinesToksE ss (c.sub 2))
end

/-- a program whose last block ends with the tokens -/
def progToksE : List (List (Statement N)) → Choices N → List (Tok N)
  | [], _ => []
  | [b], c => blanksToks (c.sub 0).choice (c.sub 0) ++ linesToksE b (c.sub 1)
  | b :: b' :: bs, c =>
      blanksToks (c.sub 0).choice (c.sub 0) ++ (linesToks b (c.sub 1) ++
        tk (.kw .newline) (c.sub 2) :: progToksE (b' :: bs) (c.sub 3))

/-! ### omitting some of the last line ends

  The end of the tokens is accepted wherever a `Newline` is: the general form. `…D d` is the
  spelling in which the LAST `d` `Newline` tokens of the program — the blank lines that close the
  open blocks, from the outermost inwards, then the `Newline` of the last line, then (if the last
  block is empty) the blank line that stands for it and the `Newline` of its header line — are
  omitted (all of them if there are fewer than `d`): `if x⏎say 1⏎⏎` (d = 0, inside a top-level
  block), `if x⏎say 1⏎`, `if x⏎say 1`; `if x⏎⏎`, `if x⏎`, `if x`. -/

/-- the punctuation of a line end, without the `Newline` -/
def eolPunct (e : Eol) (c : Choices N) : List (Tok N) :=
  match e with
  | .none => []
  | .dot => [tk (.kw .dot) (c.sub 0)]
  | .comma => [tk (.kw .comma) (c.sub 0)]

/-- the `Newline` of a header line and the blank line that stands for the empty block after it,
    with the last `d` of them omitted -/
def emptyTailD (d : Nat) (nlHeader nlBlock : Tok N) : List (Tok N) :=
  match d with
  | 0 => [nlHeader, nlBlock]
  | 1 => [nlHeader]
  | _ => []

/-- the line end of a header line and the last block `b` of the input (whose lines, at depth `d`,
    are `lines`): if the block is empty, the `Newline` of the header line and the blank line that
    stands for the block are among the newlines that can be omitted -/
def headerTailD (d : Nat) (eol : Eol) (b : List (Statement N)) (c2 c3 : Choices N) (lines : List (Tok N)) :
    List (Tok N) :=
  match b with
  | [] => eolPunct eol c2 ++ emptyTailD d (tk (.kw .newline) (c2.sub 1)) (tk (.kw .newline) (c3.sub 0))
  | _ :: _ => Grammar.eolToks eol c2 ++ lines

/-- the same after `else` -/
def elseTailD (d : Nat) (b : List (Statement N)) (c5 c6 : Choices N) (lines : List (Tok N)) : List (Tok N) :=
  match b with
  | [] => emptyTailD d (tk (.kw .newline) c5) (tk (.kw .newline) (c6.sub 0))
  | _ :: _ => tk (.kw .newline) c5 :: lines

mutual
/-- the tokens of a statement that is the last thing in the input, the last `d` newlines omitted -/
def Statement.toksD : Nat → Statement N → Choices N → List (Tok N)
  | _, .simple s _, c => s.toks c
  | d, .ifS cond eol t none, c =>
      tk (.kw .if_) (c.sub 0) :: (unparse cond (c.sub 1) ++
        headerTailD d eol t (c.sub 2) (c.sub 3) (linesToksD d t (c.sub 3)))
  | d, .ifS cond eol t (some b), c =>
      tk (.kw .if_) (c.sub 0) :: (unparse cond (c.sub 1) ++ (Grammar.eolToks eol (c.sub 2) ++
        ((match t with
          | [] => [tk (.kw .newline) ((c.sub 3).sub 0)]
          | _ :: _ => linesToks t (c.sub 3)) ++
         (tk (.kw .else_) (c.sub 4) :: elseTailD d b (c.sub 5) (c.sub 6) (linesToksD d b (c.sub 6))))))
  | d, .whileS cond eol b, c =>
      tk (.kw .while_) (c.sub 0) :: (unparse cond (c.sub 1) ++
        headerTailD d eol b (c.sub 2) (c.sub 3) (linesToksD d b (c.sub 3)))
  | d, .untilS cond eol b, c =>
      tk (.kw .until_) (c.sub 0) :: (unparse cond (c.sub 1) ++
        headerTailD d eol b (c.sub 2) (c.sub 3) (linesToksD d b (c.sub 3)))
  | d, .func f p ps eol b, c =>
      f.toks (c.sub 0) ++ tk (.kw .takes) (c.sub 1) :: (p.toks (c.sub 2) ++ (paramsToks ps (c.sub 3) ++
        headerTailD d eol b (c.sub 4) (c.sub 5) (fnLinesToksD d b (c.sub 5))))
/-- the lines of a block that is the last thing in the input, the last `d` newlines omitted -/
def linesToksD : Nat → List (Statement N) → Choices N → List (Tok N)
  | _, [], _ => []
  | d, s :: ss, c =>
      match ss with
      | [] =>
          (match d with
           | 0 => s.toks (c.sub 0) ++ s.eolToks (c.sub 1)
           | d' + 1 => s.toksD d' (c.sub 0) ++ s.eolToksE (c.sub 1))
      | _ :: _ => s.toks (c.sub 0) ++ (s.eolToks (c.sub 1) ++ linesToksD d ss (c.sub 2))
/-- the lines of a function body that is the last thing in the input -/
def fnLinesToksD : Nat → List (Statement N) → Choices N → List (Tok N)
  | _, [], _ => []
  | d, s :: ss, c =>
      match ss with
      | [] =>
          if s.isIfElse then s.toksD d (c.sub 0)
          else
            (match d with
             | 0 => s.toks (c.sub 0) ++ s.eolToks (c.sub 1)
             | d' + 1 => s.toksD d' (c.sub 0) ++ s.eolToksE (c.sub 1))
      | _ :: _ => s.toks (c.sub 0) ++ (s.eolToks (c.sub 1) ++ fnLinesToksD d ss (c.sub 2))
end

/-- a program whose last top-level block is not closed by a blank line, and in which the last `d`
    further newlines are omitted -/
def progToksD (d : Nat) : List (List (Statement N)) → Choices N → List (Tok N)
  | [], _ => []
  | [b], c => blanksToks (c.sub 0).choice (c.sub 0) ++ linesToksD d b (c.sub 1)
  | b :: b' :: bs, c =>
      blanksToks (c.sub 0).choice (c.sub 0) ++ (linesToks b (c.sub 1) ++
        tk (.kw .newline) (c.sub 2) :: progToksD d (b' :: bs) (c.sub 3))

/-- the spelling-dependent stop condition of the last line when its `Newline` is omitted -/
def Statement.EolOKE : Statement N → Choices N → Prop
  | .simple s eol, c => s.PeekStop (eolPunct eol c)
  | _, _ => True

mutual
/-- the template conditions (`Fits`) for the spelling `toksD d` -/
def Statement.FitsD (src : Str) : Nat → Statement N → Choices N → List (Tok N) → Prop
  | _, .simple s _, c, rest => s.Fits src c rest
  | d, .ifS _ _ t none, c, _ => linesFitD src d t (c.sub 3)
  | d, .ifS _ _ t (some b), c, _ => linesFit src t (c.sub 3) ∧ linesFitD src d b (c.sub 6)
  | d, .whileS _ _ b, c, _ => linesFitD src d b (c.sub 3)
  | d, .untilS _ _ b, c, _ => linesFitD src d b (c.sub 3)
  | d, .func _ _ _ _ b, c, _ => fnLinesFitD src d b (c.sub 5)
def linesFitD (src : Str) : Nat → List (Statement N) → Choices N → Prop
  | _, [], _ => True
  | d, s :: ss, c =>
      match ss with
      | [] =>
          (match d with
           | 0 => s.Fits src (c.sub 0) (s.eolToks (c.sub 1)) ∧ s.EolOK (c.sub 1)
           | d' + 1 => s.FitsD src d' (c.sub 0) (s.eolToksE (c.sub 1)) ∧ s.EolOKE (c.sub 1))
      | _ :: _ =>
          s.Fits src (c.sub 0) (s.eolToks (c.sub 1)) ∧ s.EolOK (c.sub 1) ∧ linesFitD src d ss (c.sub 2)
def fnLinesFitD (src : Str) : Nat → List (Statement N) → Choices N → Prop
  | _, [], _ => True
  | d, s :: ss, c =>
      match ss with
      | [] =>
          if s.isIfElse then s.FitsD src d (c.sub 0) []
          else
            (match d with
             | 0 => s.Fits src (c.sub 0) (s.eolToks (c.sub 1)) ∧ s.EolOK (c.sub 1)
             | d' + 1 => s.FitsD src d' (c.sub 0) (s.eolToksE (c.sub 1)) ∧ s.EolOKE (c.sub 1))
      | _ :: _ =>
          s.Fits src (c.sub 0) (s.eolToks (c.sub 1)) ∧ s.EolOK (c.sub 1) ∧ fnLinesFitD src d ss (c.sub 2)
end

def progFitsD (src : Str) (d : Nat) : List (List (Statement N)) → Choices N → Prop
  | [], _ => True
  | [b], c => linesFitD src d b (c.sub 1)
  | b :: b' :: bs, c => linesFit src b (c.sub 1) ∧ progFitsD src d (b' :: bs) (c.sub 3)

/-! ### … all of them (`toksE`): the depth at which `toksD` is `toksE` -/

mutual
def Statement.eofDepth : Statement N → Nat
  | .simple _ _ => 0
  | .ifS _ _ t none => linesEofDepth t
  | .ifS _ _ _ (some b) => linesEofDepth b
  | .whileS _ _ b => linesEofDepth b
  | .untilS _ _ b => linesEofDepth b
  | .func _ _ _ _ b => fnLinesEofDepth b
/-- an empty last block: only the blank line that stands for it is omitted -/
def linesEofDepth : List (Statement N) → Nat
  | [] => 1
  | s :: ss =>
      match ss with
      | [] => s.eofDepth + 1
      | _ :: _ => linesEofDepth ss
def fnLinesEofDepth : List (Statement N) → Nat
  | [] => 1
  | s :: ss =>
      match ss with
      | [] => if s.isIfElse then s.eofDepth else s.eofDepth + 1
      | _ :: _ => fnLinesEofDepth ss
end

/-- the depth of the last top-level block -/
def progEofDepth : List (List (Statement N)) → Nat
  | [] => 0
  | [b] => linesEofDepth b
  | _ :: b' :: bs => progEofDepth (b' :: bs)

/-- the template conditions for the spelling `toksE` -/
def Statement.FitsE (src : Str) (s : Statement N) (c : Choices N) : Prop := s.FitsD src s.eofDepth c []

/-- the template conditions for the spelling `progToksE` -/
def progFitsE (src : Str) (bs : List (List (Statement N))) (c : Choices N) : Prop :=
  progFitsD src (progEofDepth bs) bs c

end

end
end Grammar
end Rrss
