/-
  Rrss.Spec.ExprEval — what an operator application and a list operand mean, on top of the
  coercion tables: the thirteen binary operators and the two unary operators on evaluated
  operands, which left operands decide `and` / `or` / `nor` alone (short circuit), and the
  big-step relation "fold the operator over the operand expressions left to right".
  Independent of the interpreter: the evaluator of operand expressions is a parameter.
-/
import Rrss.Spec.Coercion
import Rrss.Env
namespace Rrss
namespace Spec
variable {N : Type} [NumOps N]

/-- an ordering operator: the Boolean `p` of the ordering, false on an unordered pair, the
    `InvalidComparison` error on a pair the table marks invalid -/
def ordered (a b : Val N) (p : Ordering → Bool) : VRes N (Val N) :=
  match compare a b with
  | .is (some o) => .ok (.bool (p o))
  | .is none => .ok (.bool false)
  | .invalid => .err (.invalidComparison a b)

/-- A binary operator on two evaluated operands (`cap`: the model's size budget for strings).
    Only the ordering operators can fail; `+ - * /` on an invalid combination yield mysterious. -/
def binop (cap : Nat) : BinOp → Val N → Val N → VRes N (Val N)
  | .plus, a, b => capped cap (plus a b)
  | .minus, a, b => .ok (minus a b)
  | .multiply, a, b => capped cap (times a b)
  | .divide, a, b => .ok (over a b)
  | .and, a, b => .ok (.bool (truthy a && truthy b))
  | .or, a, b => .ok (.bool (truthy a || truthy b))
  | .nor, a, b => .ok (.bool (!(truthy a || truthy b)))
  | .eq, a, b => .ok (.bool (equals a b))
  | .notEq, a, b => .ok (.bool (!equals a b))
  | .greater, a, b => ordered a b (· == .gt)
  | .greaterEq, a, b => ordered a b (· != .lt)
  | .less, a, b => ordered a b (· == .lt)
  | .lessEq, a, b => ordered a b (· != .gt)

/-- A unary operator on an evaluated operand: `not` is the negated truthiness; unary minus is
    defined on numbers only, anything else stops the program. -/
def unop : UnOp → Val N → VRes N (Val N)
  | .not, v => .ok (.bool (!truthy v))
  | .minus, v => match negate v with
                 | some r => .ok r
                 | none => .err (.invalidOp str% "negate" v)

/-- Short circuit: the result when the left operand alone decides (`none`: the right operand
    has to be evaluated). -/
def decides : BinOp → Val N → Option (Val N)
  | .and, a => if truthy a then none else some (.bool false)
  | .or, a => if truthy a then some (.bool true) else none
  | .nor, a => if truthy a then some (.bool false) else none
  | _, _ => none

/-- `Fold ev op v es env out`: folding `op` over the operand expressions `es`, left to right,
    starting from the value `v` in environment `env`, ends in `out` (outcome and final
    environment). `ev` evaluates one operand expression. An operand is evaluated only if the
    accumulated value does not decide alone; the environment is threaded through the operand
    evaluations in order; the first operand evaluation or operator application that is not
    `ok` ends the fold there, and no later operand is evaluated. -/
inductive Fold (ev : Expr N → M N (Val N)) (op : BinOp) :
    Val N → List (Expr N) → Env N → Outcome (RtErr N) (Val N) × Env N → Prop
  /-- no operand left: the accumulated value, environment unchanged -/
  | done (v : Val N) (env : Env N) : Fold ev op v [] env (.ok v, env)
  /-- the accumulated value decides: the operand `e` is not evaluated -/
  | skip {v r : Val N} {e : Expr N} {es : List (Expr N)} {env : Env N} {out} :
      decides op v = some r → Fold ev op r es env out → Fold ev op v (e :: es) env out
  /-- the operand evaluates to `b`, the operator yields `v'`, go on from there -/
  | step {v b v' : Val N} {e : Expr N} {es : List (Expr N)} {env env' : Env N} {out} :
      decides op v = none → ev e env = (.ok b, env') → binop env'.cap op v b = .ok v' →
      Fold ev op v' es env' out → Fold ev op v (e :: es) env out
  /-- the operand evaluation is not `ok`: that is the result -/
  | operandStops {v : Val N} {e : Expr N} {es : List (Expr N)} {env env' : Env N}
      {o : Outcome (RtErr N) (Val N)} :
      decides op v = none → ev e env = (o, env') → o.isOk = false →
      Fold ev op v (e :: es) env (o, env')
  /-- the operator application is not `ok` (invalid comparison, or size budget): that is the
      result, in the environment left by the operand -/
  | opStops {v b : Val N} {e : Expr N} {es : List (Expr N)} {env env' : Env N}
      {r : VRes N (Val N)} :
      decides op v = none → ev e env = (.ok b, env') → binop env'.cap op v b = r →
      r.isOk = false → Fold ev op v (e :: es) env (M.liftV r env')

end Spec
end Rrss
