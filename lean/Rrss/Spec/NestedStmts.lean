/-
  Rrss.Spec.NestedStmts — all statements of a program, at every nesting depth, in source order
  (a statement comes before the statements nested inside it). Blocks nest inside `if`/`else`,
  `while`, `until` and function declarations only.
-/
import Rrss.Ast
namespace Rrss

mutual
/-- the statements nested inside `s` (not `s` itself), at any depth, in source order -/
def Stmt.inner {N : Type} : Stmt N → List (Stmt N)
  | .ifS _ t e =>
    t.all ++ (match e with
      | some b => b.all
      | none => [])
  | .whileS _ b => b.all
  | .untilS _ b => b.all
  | .func _ _ _ b => b.all
  | _ => []
/-- all statements of a block, at any depth -/
def Block.all {N : Type} : Block N → List (Stmt N)
  | .mk _ ss => allStmts ss
/-- all statements of a statement list, at any depth: each statement, then what is nested in it -/
def allStmts {N : Type} : List (Stmt N) → List (Stmt N)
  | [] => []
  | s :: ss => s :: (s.inner ++ allStmts ss)
end

/-- all statements of a program -/
def Program.allStmts {N : Type} (p : Program N) : List (Stmt N) := p.code.flatMap Block.all

end Rrss
