/-
  Rrss.Spec.PoeticString — when a text can stand after `says` (poetic string literal) without
  changing the meaning of the rest of the program, stated independently of the linter model:
  it contains no line break (the literal ends at the end of the line) and leaves no comment
  open. Comments do not nest: `(` opens one (also inside a comment), `)` closes it (also when
  none is open), so only the LAST parenthesis of the text matters.
-/
import Rrss.Basic
namespace Rrss
namespace Spec

/-- the last parenthesis character of a text, if any -/
def lastParen : Str → Option Char
  | [] => none
  | c :: cs =>
    match lastParen cs with
    | some p => some p
    | none => if c = '(' ∨ c = ')' then some c else none

/-- a comment is open after the text (`inComment`: one was open before it) -/
def leavesCommentOpen (s : Str) (inComment : Bool) : Prop :=
  lastParen s = some '(' ∨ (lastParen s = none ∧ inComment = true)

end Spec
end Rrss
