/-
  Rrss.Spec.FaultContext — program contexts with ONE HOLE AT A STATEMENT BOUNDARY, over the
  grammar of Rrss/Spec/Grammar.lean (property C13: "a syntax fault is reported wherever it is").

  A `Ctx N` is the part of a block that lies BEFORE a hole, read top-down: complete statements of
  the block (`next`), then either the hole itself (`hole`: the place where the next statement of
  the block would start) or the header of a compound statement (`if … ⏎`, `if … ⏎ then-block
  else ⏎`, `while … ⏎`, `until … ⏎`, `f takes … ⏎`) followed by a context inside the block that the
  header opens. Contexts nest arbitrarily. What comes AFTER the hole (the rest of the block, the
  `else` branch of an `if` whose then-branch holds the hole, the blank lines that would close the
  open blocks, the rest of the program) is not part of the context: it is arbitrary.

  `Ctx.toks k c` are the tokens of the context for the spelling choices `c`, with exactly the
  choice paths that `Grammar.linesToks` uses for the statements of a block — so that the tokens
  before the hole are precisely a prefix of a spelling of a program by the grammar
  (`Ctx.plug` / theorem `Grammar.ctx_toks_prefix` in Rrss/Lemmas/ParserNested.lean).

  `ProgCtx`: complete top-level blocks (each closed by its blank line, any number of further blank
  lines), then a `Ctx` in the next top-level block.

  Core Lean + Spec/Grammar only.
-/
import Rrss.Spec.Grammar
namespace Rrss
namespace Grammar

section
variable {N : Type}

/-- What precedes a hole at a statement boundary inside a block (see the header). -/
inductive Ctx (N : Type) where
  /-- the hole: here the next statement of the block would start -/
  | hole
  /-- a complete statement of the block with its line end (for a compound statement: the blank
      line that closes it), then the rest of the context in the SAME block -/
  | next (s : Statement N) (k : Ctx N)
  /-- `if C <eol>`, then a context in the then-block -/
  | ifThen (cond : Expression N) (eol : Eol) (k : Ctx N)
  /-- `if C <eol> then-block else <newline>`, then a context in the else-block -/
  | ifElse (cond : Expression N) (eol : Eol) (thenB : List (Statement N)) (k : Ctx N)
  /-- `while C <eol>`, then a context in the body -/
  | whileS (cond : Expression N) (eol : Eol) (k : Ctx N)
  /-- `until C <eol>`, then a context in the body -/
  | untilS (cond : Expression N) (eol : Eol) (k : Ctx N)
  /-- `f takes p (sep p)* <eol>`, then a context in the function body -/
  | func (f p : VarSpec) (ps : List VarSpec) (eol : Eol) (k : Ctx N)

variable [CharOps]

/-- The tokens before the hole. The choice paths are those of `linesToks`: the first statement of
    the (rest of the) block reads `c.sub 0`, its line end `c.sub 1`, the following statements
    `c.sub 2`; inside a compound statement the paths of `Statement.toks`. -/
def Ctx.toks : Ctx N → Choices N → List (Tok N)
  | .hole, _ => []
  | .next s k, c => s.toks (c.sub 0) ++ (s.eolToks (c.sub 1) ++ k.toks (c.sub 2))
  | .ifThen cond eol k, c =>
      tk (.kw .if_) ((c.sub 0).sub 0) :: (unparse cond ((c.sub 0).sub 1) ++
        (eolToks eol ((c.sub 0).sub 2) ++ k.toks ((c.sub 0).sub 3)))
  | .ifElse cond eol t k, c =>
      tk (.kw .if_) ((c.sub 0).sub 0) :: (unparse cond ((c.sub 0).sub 1) ++
        (eolToks eol ((c.sub 0).sub 2) ++ (blockToks t ((c.sub 0).sub 3) ++
          tk (.kw .else_) ((c.sub 0).sub 4) :: tk (.kw .newline) ((c.sub 0).sub 5) ::
            k.toks ((c.sub 0).sub 6))))
  | .whileS cond eol k, c =>
      tk (.kw .while_) ((c.sub 0).sub 0) :: (unparse cond ((c.sub 0).sub 1) ++
        (eolToks eol ((c.sub 0).sub 2) ++ k.toks ((c.sub 0).sub 3)))
  | .untilS cond eol k, c =>
      tk (.kw .until_) ((c.sub 0).sub 0) :: (unparse cond ((c.sub 0).sub 1) ++
        (eolToks eol ((c.sub 0).sub 2) ++ k.toks ((c.sub 0).sub 3)))
  | .func f p ps eol k, c =>
      f.toks ((c.sub 0).sub 0) ++ tk (.kw .takes) ((c.sub 0).sub 1) :: (p.toks ((c.sub 0).sub 2) ++
        (paramsToks ps ((c.sub 0).sub 3) ++ (eolToks eol ((c.sub 0).sub 4) ++ k.toks ((c.sub 0).sub 5))))

/-- Side conditions: every complete statement before the hole is well-formed (`Statement.wf`),
    every header is (condition well-formed and not swallowing the `,` of its line end; names
    well-formed). The flag says that the block is a FUNCTION BODY: there an `if … else …` ends the
    body, so no complete statement before the hole is one (a hole after it belongs to the
    enclosing block: `next (func …) hole`). -/
def Ctx.wf : Bool → Ctx N → Bool
  | _, .hole => true
  | fn, .next s k => s.wf && !(fn && s.isIfElse) && Ctx.wf fn k
  | _, .ifThen cond eol k => cond.wf && (eol != .comma || cond.commaOK) && Ctx.wf false k
  | _, .ifElse cond eol t k =>
      cond.wf && (eol != .comma || cond.commaOK) && stmtsWf t && Ctx.wf false k
  | _, .whileS cond eol k => cond.wf && (eol != .comma || cond.commaOK) && Ctx.wf false k
  | _, .untilS cond eol k => cond.wf && (eol != .comma || cond.commaOK) && Ctx.wf false k
  | _, .func f p ps eol k =>
      f.wf && p.wf && ps.all VarSpec.wf && eol != .comma && Ctx.wf true k

/-- The template conditions (`Statement.Fits` / `linesFit` of the grammar: the places where the
    parser reads something of a token that the grammar leaves to the template — the spelling of the
    token after a bare `break` or a poetic literal, of the `-` of `X is -5`, the source text of
    `X says …`) for the complete statements before the hole; `True` if none of them has such a
    construct. Same shape as `linesFit`. -/
def Ctx.Fits (src : Str) : Ctx N → Choices N → Prop
  | .hole, _ => True
  | .next s k, c =>
      s.Fits src (c.sub 0) (s.eolToks (c.sub 1)) ∧ s.EolOK (c.sub 1) ∧ Ctx.Fits src k (c.sub 2)
  | .ifThen _ _ k, c => Ctx.Fits src k ((c.sub 0).sub 3)
  | .ifElse _ _ t k, c => linesFit src t ((c.sub 0).sub 3) ∧ Ctx.Fits src k ((c.sub 0).sub 6)
  | .whileS _ _ k, c => Ctx.Fits src k ((c.sub 0).sub 3)
  | .untilS _ _ k, c => Ctx.Fits src k ((c.sub 0).sub 3)
  | .func _ _ _ _ k, c => Ctx.Fits src k ((c.sub 0).sub 5)

/-- how many blocks are open at the hole, beyond the block the context starts in -/
def Ctx.depth : Ctx N → Nat
  | .hole => 0
  | .next _ k => k.depth
  | .ifThen _ _ k => k.depth + 1
  | .ifElse _ _ _ k => k.depth + 1
  | .whileS _ _ k => k.depth + 1
  | .untilS _ _ k => k.depth + 1
  | .func _ _ _ _ k => k.depth + 1

/-- Close the context: the block obtained by putting the statements `ss` into the hole and ending
    every open block right after them (an `if` whose then-block holds the hole gets no `else`). -/
def Ctx.plug : Ctx N → List (Statement N) → List (Statement N)
  | .hole, ss => ss
  | .next s k, ss => s :: k.plug ss
  | .ifThen cond eol k, ss => [.ifS cond eol (k.plug ss) none]
  | .ifElse cond eol t k, ss => [.ifS cond eol t (some (k.plug ss))]
  | .whileS cond eol k, ss => [.whileS cond eol (k.plug ss)]
  | .untilS cond eol k, ss => [.untilS cond eol (k.plug ss)]
  | .func f p ps eol k, ss => [.func f p ps eol (k.plug ss)]

/-- A program context: complete top-level blocks, then a context in the next top-level block. -/
structure ProgCtx (N : Type) where
  blocks : List (List (Statement N))
  ctx : Ctx N

/-- the tokens of a program up to the hole; same choice paths as `progToks` -/
def progCtxToks : List (List (Statement N)) → Ctx N → Choices N → List (Tok N)
  | [], k, c => blanksToks (c.sub 0).choice (c.sub 0) ++ k.toks (c.sub 1)
  | b :: bs, k, c =>
      blanksToks (c.sub 0).choice (c.sub 0) ++ (linesToks b (c.sub 1) ++
        tk (.kw .newline) (c.sub 2) :: progCtxToks bs k (c.sub 3))

/-- the template conditions of a program context; same shape as `progFits` -/
def progCtxFits (src : Str) : List (List (Statement N)) → Ctx N → Choices N → Prop
  | [], k, c => k.Fits src (c.sub 1)
  | b :: bs, k, c => linesFit src b (c.sub 1) ∧ progCtxFits src bs k (c.sub 3)

/-- the template conditions of the statements before the hole -/
def ProgCtx.Fits (src : Str) (p : ProgCtx N) (c : Choices N) : Prop := progCtxFits src p.blocks p.ctx c

/-- the tokens before the hole -/
def ProgCtx.toks (p : ProgCtx N) (c : Choices N) : List (Tok N) := progCtxToks p.blocks p.ctx c

/-- every complete top-level block is non-empty and well-formed; the context is well-formed
    (a top-level block is not a function body) -/
def ProgCtx.wf (p : ProgCtx N) : Bool := progWf p.blocks && p.ctx.wf false

/-- the program obtained by putting `ss` into the hole and ending the program there -/
def ProgCtx.plug (p : ProgCtx N) (ss : List (Statement N)) : List (List (Statement N)) :=
  p.blocks ++ [p.ctx.plug ss]

end

end Grammar
end Rrss
