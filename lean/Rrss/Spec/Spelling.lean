/-
  Rrss.Spec.Spelling — how a list of tokens is WRITTEN DOWN as a character string (independent
  specification; nothing here looks at lexer.rs or at the model's lexer).

  A source text is a list of `Piece`s, each preceded by a separator (`Sep`, possibly empty), and a
  trailing separator.  A piece is
    * a keyword: one of the 128 promised alias words (`Spec.promised`, the lower-case table
      entry) with a per-letter casing choice,
    * a symbol alias `+ - * / < <= > >= & , .`,
    * a variable-name word: ASCII letters only, not a promised alias in any letter case,
    * a number literal: starts with an ASCII digit, consists of ASCII letters, digits and `.`
      (`12`, `3.25`, `1e5`; that the text denotes a number — `str::parse::<f64>` accepts it — is
      a hypothesis of the theorems, not of this file),
    * a string literal `"…"` without `"` inside (line feeds allowed),
    * a line feed,
    * a comment `( … )` without `)` inside (line feeds allowed),
    * the separator `'n'` (or `'N'`),
    * a suffix `'s` / `'re` in any letter case, glued to the keyword, name, number or string
      literal before it.
  A separator is a run of ASCII blanks (space, tab) and of punctuation characters that the
  language ignores and that start no token (`noiseChars`).

  `glueOK p q` says when `q` may follow `p` WITHOUT any separator, `sepOK` adds the conditions on
  a non-empty separator (no `=` right after `<` / `>`; never before a suffix), `spellOK` checks a
  whole text.
  `expect` is the token a piece stands for: kind, spelling, number payload, text payload.
  Core Lean + `TK` + the promised-alias table + the class `NumOps` (for `parse`) only.
-/
import Rrss.Token
import Rrss.Num
import Rrss.Spec.Aliases
namespace Rrss
namespace Spelling

/-! ### ASCII classes (flat definitions on code points) -/

def isLower (c : Char) : Bool := 97 ≤ c.toNat && c.toNat ≤ 122
def isUpper (c : Char) : Bool := 65 ≤ c.toNat && c.toNat ≤ 90
def isLetter (c : Char) : Bool := isLower c || isUpper c
def isDigit (c : Char) : Bool := 48 ≤ c.toNat && c.toNat ≤ 57

/-- ASCII upper-case image of a lower-case letter (other characters unchanged) -/
def toUpper (c : Char) : Char := if isLower c then Char.ofNat (c.toNat - 32) else c
/-- ASCII lower-case image of an upper-case letter (other characters unchanged) -/
def toLower (c : Char) : Char := if isUpper c then Char.ofNat (c.toNat + 32) else c

/-- a casing choice: the `i`-th character is upper-cased iff the `i`-th flag is set (missing
    flags: unchanged) -/
def applyCaps : List Bool → Str → Str
  | _, [] => []
  | [], s => s
  | b :: bs, c :: cs => (if b then toUpper c else c) :: applyCaps bs cs

/-! ### symbols -/

/-- the symbol aliases -/
inductive Sym
  | plus | minus | times | over | lt | le | gt | ge | amp | comma | dot
  deriving DecidableEq, Repr

def Sym.text : Sym → Str
  | .plus => ['+'] | .minus => ['-'] | .times => ['*'] | .over => ['/']
  | .lt => ['<'] | .le => ['<', '='] | .gt => ['>'] | .ge => ['>', '=']
  | .amp => ['&'] | .comma => [','] | .dot => ['.']

def Sym.kind : Sym → TK
  | .plus => .plus | .minus => .minus | .times => .multiply | .over => .divide
  | .lt => .less | .le => .lessEq | .gt => .greater | .ge => .greaterEq
  | .amp => .ampersand | .comma => .comma | .dot => .dot

/-! ### pieces -/

inductive Piece
  /-- keyword: the lower-case alias word of the promised table, its kind, a casing choice -/
  | kw (alias : Str) (k : TK) (caps : List Bool)
  | sym (s : Sym)
  /-- variable-name word -/
  | name (w : Str)
  /-- number literal, as written -/
  | num (t : Str)
  /-- string literal, contents -/
  | str (s : Str)
  /-- line feed -/
  | nl
  /-- comment, contents -/
  | comment (s : Str)
  /-- the separator `'n'` (`upper`: written `'N'`) -/
  | nApos (upper : Bool)
  /-- the suffix `'s` (`re = false`) or `'re` with a casing choice; glued to the piece before it -/
  | suffix (re : Bool) (caps : List Bool)
  deriving Repr

/-- the characters of a piece -/
def Piece.text : Piece → Str
  | .kw a _ caps => applyCaps caps a
  | .sym s => s.text
  | .name w => w
  | .num t => t
  | .str s => '"' :: (s ++ ['"'])
  | .nl => ['\n']
  | .comment s => '(' :: (s ++ [')'])
  | .nApos u => ['\'', if u then 'N' else 'n', '\'']
  | .suffix re caps => applyCaps caps (if re then ['\'', 'r', 'e'] else ['\'', 's'])

/-- the kind of the token a piece stands for -/
def Piece.kind : Piece → TK
  | .kw _ k _ => k
  | .sym s => s.kind
  | .name _ => .word
  | .num _ => .number
  | .str _ => .stringLit
  | .nl => .newline
  | .comment _ => .comment
  | .nApos _ => .apostropheNApostrophe
  | .suffix re _ => if re then .apostropheRE else .apostropheS

/-- the text payload (contents of a string literal or a comment) -/
def Piece.payload : Piece → Str
  | .str s => s
  | .comment s => s
  | _ => []

/-- the number payload: `str::parse::<f64>` of the text of a number literal -/
def Piece.numOf {N : Type} [NumOps N] : Piece → Option N
  | .num t => NumOps.parse t
  | _ => none

/-- the token a piece stands for: kind, spelling, number payload, text payload -/
def Piece.expect {N : Type} [NumOps N] (p : Piece) : TK × Str × Option N × Str :=
  (p.kind, p.text, p.numOf, p.payload)

/-- the four fields of a token that a piece fixes -/
def tview {N : Type} (t : Tok N) : TK × Str × Option N × Str := (t.kind, t.spelling, t.num, t.text)

/-- well-formed pieces -/
def Piece.wf : Piece → Bool
  | .kw a k _ => Spec.promised.contains (a, k)
  | .sym _ => true
  | .name w => !w.isEmpty && w.all isLetter && (List.lookup (w.map toLower) Spec.promised).isNone
  | .num t =>
      (match t with
       | c :: _ => isDigit c
       | [] => false) && t.all (fun c => isLetter c || isDigit c || c == '.')
  | .str s => !s.contains '"'
  | .nl => true
  | .comment s => !s.contains ')'
  | .nApos _ => true
  | .suffix _ _ => true

/-- a suffix `'s` / `'re` -/
def Piece.isSuffix : Piece → Bool
  | .suffix _ _ => true
  | _ => false

/-- what a suffix can be glued to: a keyword, a name, a number, a string literal -/
def Piece.isHost : Piece → Bool
  | .kw _ _ _ | .name _ | .num _ | .str _ => true
  | _ => false

/-- is the piece a comment (dropped by the comment-skipping wrapper of the parser)? -/
def Piece.isComment (p : Piece) : Bool := p.kind == .comment

/-- the pieces the parser gets to see: all but the comments -/
def visible (items : List (Str × Piece)) : List Piece :=
  (items.filter (fun x => !x.2.isComment)).map (·.2)

/-! ### separators -/

abbrev Sep := Str

def isBlank (c : Char) : Bool := c == ' ' || c == '\t'

/-- the ASCII punctuation characters that are ignored and start no token: all of ASCII
    punctuation except `_` `'` (not ignorable) and `. , & + - * / " ( < >` (token starts) -/
def noiseChars : Str :=
  ['!', '#', '$', '%', ')', ':', ';', '=', '?', '@', '[', '\\', ']', '^', '`', '{', '|', '}', '~']

def isNoise (c : Char) : Bool := noiseChars.contains c

def isJunk (c : Char) : Bool := isBlank c || isNoise c

/-- may `q` follow `p` without any separator?  A suffix `'s` / `'re` follows exactly a keyword, a
    name, a number or a string literal; after a suffix comes a symbol, a string, a line feed or a
    comment; `'n'` may follow a symbol other than `.`, a line feed or another `'n'`, and anything
    but a suffix may follow it.  Otherwise: two words, a word and a number need a separator; after
    a number and after the symbol `.` no word, number or `.` may follow directly. -/
def glueOK (p q : Piece) : Bool :=
  match q with
  | .suffix _ _ => p.isHost
  | .nApos _ =>
      (match p with
       | .sym .dot => false
       | .sym _ | .nl | .nApos _ => true
       | _ => false)
  | _ =>
      (match p with
       | .kw _ _ _ | .name _ | .suffix _ _ =>
           (match q with
            | .kw _ _ _ | .name _ | .num _ => false
            | _ => true)
       | .num _ | .sym .dot =>
           (match q with
            | .kw _ _ _ | .name _ | .num _ | .sym .dot => false
            | _ => true)
       | _ => true)

/-- the separator `s` between the pieces `p` and `q` (`none`: start / end of the text): junk
    characters only; a suffix is never separated from its host; an empty separator needs `glueOK`;
    a non-empty one must not start with `=` right after `<` / `>` -/
def sepOK (p : Option Piece) (s : Sep) (q : Option Piece) : Bool :=
  s.all isJunk &&
    (match s with
     | [] =>
        (match p, q with
         | some p, some q => glueOK p q
         | none, some q => !q.isSuffix
         | _, _ => true)
     | d :: _ =>
        (match q with
         | some q => !q.isSuffix
         | none => true) &&
        (match p with
         | some (.sym .lt) | some (.sym .gt) => d != '='
         | _ => true))

/-- the text: every piece preceded by its separator, then the trailing separator -/
def spell : List (Sep × Piece) → Sep → Str
  | [], e => e
  | (s, p) :: r, e => s ++ (p.text ++ spell r e)

/-- all pieces well-formed, all separators admissible (`prev`: the piece before the list) -/
def spellOK (prev : Option Piece) : List (Sep × Piece) → Sep → Bool
  | [], e => sepOK prev e none
  | (s, p) :: r, e => sepOK prev s (some p) && p.wf && spellOK (some p) r e

/-- the plain stage: pieces separated by single spaces, nothing before the first piece, nothing
    after the last -/
def plain : List Piece → List (Sep × Piece)
  | [] => []
  | p :: ps => ([], p) :: ps.map (fun q => ([' '], q))

end Spelling
end Rrss
