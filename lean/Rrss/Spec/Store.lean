/-
  Rrss.Spec.Store — what a Rockstar array is, independently of the model (C06).

  An array is a zero-based sequence together with a finite map from (non-numeric) keys to
  values. Reading where nothing is stored yields a default (`mysterious`). Writing at a
  position beyond the end makes the sequence exactly long enough, the new positions holding the
  default. `push` appends at the back, `pop` takes from the front (a queue). The length of an
  array is the length of its sequence only. Core Lean only; generic in keys `K` and values `V`.
-/
namespace Rrss.Spec.Store

structure Arr (K V : Type) where
  seq : List V
  dict : K → Option V

variable {K V : Type}

/-- the empty array -/
def empty : Arr K V := ⟨[], fun _ => none⟩

/-- read position `i` (`dflt` if there is none) -/
def getIdx (dflt : V) (a : Arr K V) (i : Nat) : V :=
  match a.seq[i]? with
  | some v => v
  | none => dflt

/-- read key `k` (`dflt` if unbound) -/
def getKey (dflt : V) (a : Arr K V) (k : K) : V :=
  match a.dict k with
  | some v => v
  | none => dflt

/-- write position `i`: afterwards the sequence has `max len (i+1)` positions; position `i`
    holds `x`, every other position holds what could be read there before. -/
def setIdx (dflt : V) (a : Arr K V) (i : Nat) (x : V) : Arr K V :=
  { a with seq := (List.range (max a.seq.length (i + 1))).map fun j =>
                    if j = i then x else getIdx dflt a j }

/-- write key `k` -/
def setKey [DecidableEq K] (a : Arr K V) (k : K) (x : V) : Arr K V :=
  { a with dict := fun k' => if k' = k then some x else a.dict k' }

/-- append at the back -/
def push (a : Arr K V) (vs : List V) : Arr K V := { a with seq := a.seq ++ vs }

/-- take from the front (`dflt` when the sequence is empty) -/
def pop (dflt : V) (a : Arr K V) : V × Arr K V :=
  match a.seq with
  | [] => (dflt, a)
  | x :: xs => (x, { a with seq := xs })

/-- what an array counts as in print / comparison / arithmetic -/
def len (a : Arr K V) : Nat := a.seq.length

/-- pop `n` times, collecting what comes out -/
def popN (dflt : V) : Nat → Arr K V → List V × Arr K V
  | 0, a => ([], a)
  | n + 1, a =>
    let (x, a') := pop dflt a
    let (xs, a'') := popN dflt n a'
    (x :: xs, a'')

/-! ### the textbook laws hold of this specification (sanity of the spec itself) -/

theorem getIdx_setIdx_same (dflt : V) (a : Arr K V) (i : Nat) (x : V) :
    getIdx dflt (setIdx dflt a i x) i = x := by
  have h : i < max a.seq.length (i + 1) := by omega
  simp [getIdx, setIdx, h]

theorem getIdx_setIdx_other (dflt : V) (a : Arr K V) (i j : Nat) (x : V) (h : j ≠ i) :
    getIdx dflt (setIdx dflt a i x) j = getIdx dflt a j := by
  by_cases hj : j < max a.seq.length (i + 1)
  · simp [getIdx, setIdx, hj, h]
  · have h1 : a.seq[j]? = none := by simp; omega
    simp [getIdx, setIdx, hj, h1]

theorem len_setIdx (dflt : V) (a : Arr K V) (i : Nat) (x : V) :
    len (setIdx dflt a i x) = max (len a) (i + 1) := by
  simp [len, setIdx]

theorem getKey_setKey_same [DecidableEq K] (dflt : V) (a : Arr K V) (k : K) (x : V) :
    getKey dflt (setKey a k x) k = x := by
  simp [getKey, setKey]

theorem getKey_setKey_other [DecidableEq K] (dflt : V) (a : Arr K V) (k k' : K) (x : V)
    (h : k' ≠ k) : getKey dflt (setKey a k x) k' = getKey dflt a k' := by
  simp [getKey, setKey, h]

end Rrss.Spec.Store
