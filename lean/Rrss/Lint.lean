/-
  Rrss.Lint — the linter (mirrors src/linter/mod.rs, render.rs, passes/boring_assignment.rs,
  passes/missed_pronoun.rs) and the `impl Range` / `impl Line` of src/frontend/ast.rs it reads.
-/
import Rrss.Fold
import Rrss.Visit
import Rrss.Chars
namespace Rrss

/-! ### `impl Range` -/

mutual
def Primary.range {N} : Primary N → Range
  | .lit _ r => r
  | .ident _ r => r
  | .sub a i => a.range.concat i.range
  | .call _ r args =>
    match lastRange? args with
    | some lr => r.concat lr
    | none => r
  | .pop a => a.range
def Expr.range {N} : Expr N → Range
  | .prim p => p.range
  | .bin _ l first rest =>
    l.range.concat (match lastRange? rest with
      | some lr => first.range.concat lr
      | none => first.range)
  | .un _ e => e.range
/-- range of the last element, if any (`tail.last()`) -/
def lastRange? {N} : List (Expr N) → Option Range
  | [] => none
  | e :: es =>
    match lastRange? es with
    | some r => some r
    | none => some e.range
end

def ExprList.range {N} (l : ExprList N) : Range :=
  match lastRange? l.rest with
  | some lr => l.first.range.concat lr
  | none => l.first.range

def Lhs.range {N} : Lhs N → Range
  | .ident _ r => r
  | .sub a i => a.range.concat i.range

/-! ### `Render` -/

def VarName.render : VarName → Str
  | .simple s => s
  | .common p w => p ++ ' ' :: w
  | .proper ws => intercalateSp ws
where
  intercalateSp : List Str → Str
    | [] => []
    | [w] => w
    | w :: rest => w ++ ' ' :: intercalateSp rest

def Ident.render : Ident → Str
  | .var v => v.render
  | .pronoun => str% "<pronoun>"

def Lhs.render {N} : Lhs N → Str
  | .ident i _ => i.render
  | .sub _ _ => str% "<expression>"

def Primary.render {N} : Primary N → Str
  | .ident i _ => i.render
  | .lit _ _ => str% "<literal>"
  | _ => str% "<expression>"

/-- `Diag` -/
structure Diag where
  issue : Str
  suggestions : List Str
  line : Nat
  deriving DecidableEq, Repr, Inhabited

namespace Lint
variable {N : Type} [NumOps N]
open NumOps

/-! ### boring_assignment.rs -/

def issueText (value var : Str) : Str :=
  str% "Assignment of literal value `" ++ value ++ str% "` into `" ++ var ++ str% "` isn't very rock'n'roll"

def suggestionText (payload : Str) : Str :=
  str% "Consider using a poetic literal such as: `" ++ payload ++ str% "`"

/-- repaired code: negative and non-finite numbers have no poetic spelling -/
def hasPoeticSpelling (text : Str) : Bool := text.all fun c => c == '.' || isAsciiDigit c

/-- `PoeticNumberLiteralTemplateItem` -/
inductive TItem | word (len : Nat) | dot
  deriving DecidableEq, Repr

/-- `from_value`: one item per character of the printed number (`c as usize - '0' as usize`
    underflows below `'0'`: crash site) -/
def templateOf : Str → Outcome Unit (List TItem)
  | [] => .ok []
  | c :: cs =>
    (if c = '.' then (.ok TItem.dot : Outcome Unit TItem)
     else if c.toNat < 48 then .crash .lintDigitUnderflow
     else .ok (.word (c.toNat - 48))).bind fun it =>
    (templateOf cs).bind fun rest => .ok (it :: rest)

def mod10 (len : Nat) : Nat := if len = 0 then 10 else len

/-- `as_text` -/
def templateText : List TItem → Bool → Str
  | [], _ => []
  | .word len :: rest, first =>
    (if first then [] else [' ']) ++ List.replicate (mod10 len) '*' ++ templateText rest false
  | .dot :: rest, _ => '.' :: templateText rest false

def numericPayload (pre var : Str) (valText : Str) : Outcome Unit (Option Str) :=
  if hasPoeticSpelling valText then
    (templateOf valText).bind fun t => .ok (some (pre ++ var ++ templateText t true))
  else .ok none

def buildDiag (var valueText : Str) (suggestion : Option Str) (line : Nat) : Diag :=
  { issue := issueText valueText var,
    suggestions := match suggestion with
      | some s => [suggestionText s]
      | none => [],
    line := line }

/-- `build_numeric_diag`: "`var` is `***`" -/
def numericDiag (var : Str) (x : N) (line : Nat) : Outcome Unit (List Diag) :=
  let text := fmt x
  (numericPayload [] (var ++ str% " is ") text).bind fun sugg => .ok [buildDiag var text sugg line]

/-- `maybe_build_numeric_array_push_diag`: "Rock `var` like `***`" -/
def pushDiag (var : Str) (x : N) (line : Nat) : Outcome Unit (List Diag) :=
  let text := fmt x
  (numericPayload (str% "Rock ") (var ++ str% " like ") text).bind fun sugg =>
    .ok [buildDiag var text sugg line]

/-- repaired code: a poetic string ends at the end of the line, and a comment left open in it
    would swallow the rest of the program. `inComment`: scanning state. -/
def hasPoeticStringSpelling : Str → Bool → Bool
  | [], inComment => !inComment
  | c :: cs, inComment =>
    if c = '\n' then false
    else if c = '(' then hasPoeticStringSpelling cs true
    else if c = ')' then hasPoeticStringSpelling cs false
    else hasPoeticStringSpelling cs inComment

/-- `maybe_build_string_diag`: "`var` says text" when the text has a poetic spelling -/
def stringDiag (var : Str) (s : Str) (line : Nat) : List Diag :=
  let sugg := if hasPoeticStringSpelling s false then some (var ++ str% " says " ++ s) else none
  [buildDiag var ('"' :: s ++ ['"']) sugg line]

def boringAssign (dest : Lhs N) (op : Option BinOp) (value : ExprList N) : Outcome Unit (List Diag) :=
  match op with
  | some _ => .ok []
  | none =>
    let line := value.range.line
    match Fold.numList value with
    | .ok x => numericDiag dest.render x line
    | .error .wrongType =>
      match Fold.strList value with
      | .ok s => .ok (stringDiag dest.render s line)
      | .error _ => .ok []
    | .error _ => .ok []

def boringPoetic (dest : Lhs N) (rhs : PoeticRhs N) : Outcome Unit (List Diag) :=
  match rhs with
  | .lit _ => .ok []
  | .expr e =>
    let line := e.range.line
    match Fold.numExpr e with
    | .ok x => numericDiag dest.render x line
    | .error .wrongType =>
      match Fold.strExpr e with
      | .ok s => .ok (stringDiag dest.render s line)
      | .error _ => .ok []
    | .error _ => .ok []

def boringPush (arr : Primary N) (value : Option (PushRhs N)) : Outcome Unit (List Diag) :=
  match value with
  | some (.list l) =>
    match Fold.numList l with
    | .ok x => pushDiag arr.render x arr.range.line
    | .error _ => .ok []
  | _ => .ok []

mutual
/-- `BoringAssignmentPass` as a `VisitProgram` with the trait's default traversal -/
def boringStmt : Stmt N → Outcome Unit (List Diag)
  | .assign dest op value => boringAssign dest op value
  | .poeticNum dest rhs => boringPoetic dest rhs
  | .push arr value => boringPush arr value
  | .ifS _ t e =>
    (boringBlock t).bind fun a =>
    (match e with
     | none => (.ok [] : Outcome Unit (List Diag))
     | some b => boringBlock b).bind fun b => .ok (a ++ b)
  | .whileS _ b => boringBlock b
  | .untilS _ b => boringBlock b
  | .func _ _ _ body => boringBlock body
  | _ => .ok []
def boringBlock : Block N → Outcome Unit (List Diag)
  | .mk _ ss => boringStmts ss
def boringStmts : List (Stmt N) → Outcome Unit (List Diag)
  | [] => .ok []
  | s :: ss => (boringStmt s).bind fun a => (boringStmts ss).bind fun b => .ok (a ++ b)
end

def boringBlocks : List (Block N) → Outcome Unit (List Diag)
  | [] => .ok []
  | b :: bs => (boringBlock b).bind fun a => (boringBlocks bs).bind fun c => .ok (a ++ c)

/-! ### missed_pronoun.rs -/

def missedDiag (name : VarName) (line : Nat) : Diag :=
  { issue := str% "Using identifier `" ++ name.render ++ str% "` more than once in a row sounds kinda bad",
    suggestions := [str% "Consider using a pronoun such as `it`"],
    line := line }

/-- `MissedPronounPassImpl`: state = `last`; `visit_variable_name` override (the callee of a
    function call is visited with `in_function_call` set). -/
def missedVisitor (N : Type) : Visitor N (Option VarName) (List Diag) Unit where
  dflt := []
  combine := (· ++ ·)
  leaf _ _ := pure []
  pre _ := pure ()
  varName := some fun inCall name r => fun last =>
    let isMatch := !inCall && last == some name
    if isMatch then (.ok [missedDiag name r.line], last)
    else (.ok [], some name)

def missedPronouns (p : Program N) : List Diag :=
  match (Walk.program (missedVisitor N) p none).1 with
  | .ok ds => ds
  | .error _ => []

/-! ### linter/mod.rs -/

/-- `postprocess`: stable sort by line -/
def postprocess (ds : List Diag) : List Diag := ds.mergeSort fun a b => a.line ≤ b.line

/-- `standard_linter().run(program)` -/
def run (p : Program N) : Outcome Unit (List Diag) :=
  (boringBlocks p.code).bind fun boring => .ok (postprocess (boring ++ missedPronouns p))

end Lint
end Rrss
