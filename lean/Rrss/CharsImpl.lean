/-
  Rrss.CharsImpl — the executable `CharOps` instance, from the range tables generated out of
  the Rust std the code is compiled with (Rrss/Generated/Unicode.lean).
-/
import Rrss.Chars
import Rrss.Generated.Unicode
namespace Rrss

/-- binary search in an ascending array of disjoint inclusive ranges -/
def inRanges (rs : Array (Nat × Nat)) (n : Nat) : Bool :=
  go rs n 0 rs.size rs.size
where
  go (rs : Array (Nat × Nat)) (n lo hi : Nat) : Nat → Bool
    | 0 => false
    | fuel + 1 =>
      if lo < hi then
        let mid := (lo + hi) / 2
        match rs[mid]? with
        | none => false
        | some (a, b) =>
          if n < a then go rs n lo mid fuel
          else if n > b then go rs n (mid + 1) hi fuel
          else true
      else false

def lookupLower (m : Array (Nat × List Nat)) (n : Nat) : Option (List Nat) :=
  go m n 0 m.size m.size
where
  go (m : Array (Nat × List Nat)) (n lo hi : Nat) : Nat → Option (List Nat)
    | 0 => none
    | fuel + 1 =>
      if lo < hi then
        let mid := (lo + hi) / 2
        match m[mid]? with
        | none => none
        | some (k, v) =>
          if n < k then go m n lo mid fuel
          else if n > k then go m n (mid + 1) hi fuel
          else some v
      else none

instance charOpsImpl : CharOps where
  isAlphabetic c := inRanges Generated.alphabeticRanges c.toNat
  isNumeric c := inRanges Generated.numericRanges c.toNat
  isWhitespace c := inRanges Generated.whitespaceRanges c.toNat
  isUppercase c := inRanges Generated.uppercaseRanges c.toNat
  isLowercase c := inRanges Generated.lowercaseRanges c.toNat
  toLower c :=
    match lookupLower Generated.lowerMap c.toNat with
    | some l => l.map Char.ofNat
    | none => [c]

end Rrss
