/-
  Rrss.NumInt — a second, fully transparent instance of `NumOps` on `Int` (exact integers, no
  NaN, no rounding). It shows that the law hypotheses (`NumLaws`) are jointly satisfiable, so no
  theorem is vacuous through them, and it lets examples about the model be evaluated by the
  kernel (`decide`), which `Float` does not allow.
-/
import Rrss.Num
namespace Rrss

def intDigits (a : Int) : Str :=
  if a < 0 then '-' :: Nat.toDigits 10 a.natAbs else Nat.toDigits 10 a.toNat

def parseNatDigits : Str → Nat → Option Nat
  | [], acc => some acc
  | c :: cs, acc =>
    if 48 ≤ c.toNat ∧ c.toNat ≤ 57 then parseNatDigits cs (acc * 10 + (c.toNat - 48)) else none

def parseIntStr (s : Str) : Option Int :=
  match s with
  | [] => none
  | '-' :: ds => if ds.isEmpty then none else (parseNatDigits ds 0).map fun n => -(Int.ofNat n)
  | '+' :: ds => if ds.isEmpty then none else (parseNatDigits ds 0).map Int.ofNat
  | ds => (parseNatDigits ds 0).map Int.ofNat

instance numOpsInt : NumOps Int where
  add := (· + ·)
  sub := (· - ·)
  mul := (· * ·)
  div a b := if b = 0 then 0 else Int.tdiv a b
  neg a := -a
  floor := id
  ceil := id
  round := id
  trunc := id
  cmp a b := some (compare a b)
  beq a b := a == b
  ofInt := id
  toUSize a := if a < 0 then 0 else min a.toNat (2^64 - 1)
  toI64 a := if a < -(2^63) then -(2^63) else if a > 2^63 - 1 then 2^63 - 1 else a
  fmt := intDigits
  parse := parseIntStr

theorem numLawsInt : NumLaws Int where
  cmp_swap a b := by
    show some (compare b a) = (some (compare a b)).map Ordering.swap
    simp [Std.OrientedOrd.eq_swap (a := b) (b := a)]
  beq_cmp a b := by
    show (a == b) = (some (compare a b) == some Ordering.eq)
    by_cases h : a = b
    · subst h; simp
    · have h1 : (a == b) = false := by simpa using h
      have h2 : (compare a b == Ordering.eq) = false := by
        cases hc : compare a b with
        | eq => exact absurd (Int.compare_eq_eq.mp hc) h
        | lt => rfl
        | gt => rfl
      simp [h1, h2]

end Rrss
