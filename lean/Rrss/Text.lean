/-
  Rrss.Text — string helpers on `Str = List Char` with Rust semantics:
  bytewise (= code point) lexicographic order, `str::split`, `join`, `i64::from_str_radix`.
-/
import Rrss.Basic
namespace Rrss

/-! ### order: Rust compares `String`s bytewise on UTF-8, which is code-point lexicographic -/

def strCmp : Str → Str → Ordering
  | [], [] => .eq
  | [], _ :: _ => .lt
  | _ :: _, [] => .gt
  | a :: as, b :: bs =>
    if a.toNat < b.toNat then .lt
    else if b.toNat < a.toNat then .gt
    else strCmp as bs

def strLe (a b : Str) : Bool := strCmp a b != .gt

/-- `sorted()` / `sorted_unstable()` on strings. -/
def sortStrs (l : List Str) : List Str := l.mergeSort strLe

/-! ### split / join -/

def stripPrefix? : Str → Str → Option Str
  | [], s => some s
  | _ :: _, [] => none
  | d :: ds, c :: cs => if d = c then stripPrefix? ds cs else none

theorem stripPrefix?_eq {d s r : Str} (h : stripPrefix? d s = some r) : s = d ++ r := by
  induction d generalizing s with
  | nil => simp [stripPrefix?] at h; simp [h]
  | cons x xs ih =>
    cases s with
    | nil => simp [stripPrefix?] at h
    | cons c cs =>
      simp only [stripPrefix?] at h
      split at h
      · next heq => subst heq; simp [ih h]
      · simp at h

theorem stripPrefix?_length {d s r : Str} (h : stripPrefix? d s = some r) :
    r.length + d.length = s.length := by
  have := stripPrefix?_eq h; subst this; simp [Nat.add_comm]

/-- Rust `str::split(d)` for non-empty `d`: leftmost non-overlapping occurrences;
    `cur` is the piece being built (reversed). -/
def splitAux (d : Str) (hd : d ≠ []) (s : Str) (cur : Str) : List Str :=
  match h : stripPrefix? d s with
  | some r =>
      have : r.length < s.length := by
        have := stripPrefix?_length h
        have : 0 < d.length := List.length_pos_iff.mpr hd
        omega
      cur.reverse :: splitAux d hd r []
  | none =>
    match s with
    | [] => [cur.reverse]
    | c :: cs => splitAux d hd cs (c :: cur)
termination_by s.length

def splitOn (s d : Str) : List Str :=
  if hd : d = [] then s.map (fun c => [c]) else splitAux d hd s []

/-- itertools `join` / `[..].join(sep)` -/
def intercalate (d : Str) : List Str → Str
  | [] => []
  | [x] => x
  | x :: y :: t => x ++ d ++ intercalate d (y :: t)

/-! ### i64::from_str_radix -/

/-- `char::to_digit(radix)` on a byte (ASCII only), radix ≤ 36. -/
def digitVal (c : Char) (radix : Nat) : Option Nat :=
  let n := c.toNat
  let d := if 48 ≤ n ∧ n ≤ 57 then some (n - 48)
           else if 97 ≤ n ∧ n ≤ 122 then some (n - 97 + 10)
           else if 65 ≤ n ∧ n ≤ 90 then some (n - 65 + 10)
           else none
  match d with
  | some v => if v < radix then some v else none
  | none => none

def digitsVal (radix : Nat) : Str → Nat → Option Nat
  | [], acc => some acc
  | c :: cs, acc =>
    match digitVal c radix with
    | some v => digitsVal radix cs (acc * radix + v)
    | none => none

/-- `i64::from_str_radix(s, radix)` for 2 ≤ radix ≤ 36: optional sign, at least one digit,
    `None` on an invalid digit or when the value does not fit in an `i64`. -/
def i64FromStrRadix (s : Str) (radix : Nat) : Option Int :=
  match s with
  | [] => none
  | '-' :: ds =>
    if ds.isEmpty then none else
    match digitsVal radix ds 0 with
    | some v => if v ≤ 2^63 then some (-(Int.ofNat v)) else none
    | none => none
  | c :: cs =>
    let ds := if c = '+' then cs else c :: cs
    if ds.isEmpty then none else
    match digitsVal radix ds 0 with
    | some v => if v < 2^63 then some (Int.ofNat v) else none
    | none => none

/-- `char::from_u32` validity: a Unicode scalar value. -/
def charOfNat? (n : Nat) : Option Char :=
  if n.isValidChar then some (Char.ofNat n) else none

end Rrss
