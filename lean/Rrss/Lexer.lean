/-
  Rrss.Lexer — executable model of src/frontend/lexer.rs, function for function.
  Every panic / `unwrap` / `debug_assert!` / out-of-range slice of the Rust code is an explicit
  `Outcome.crash <site>`; that these cannot happen is a theorem to be proved elsewhere.

  All offsets are BYTE offsets into the UTF-8 encoding of `src` (columns are byte columns).
  The lexer state is `LexState`: `rest` are the unconsumed characters (`CharIndices`), `pos` the
  byte offset of the head of `rest`.
-/
import Rrss.Basic
import Rrss.Num
import Rrss.Chars
import Rrss.Token
import Rrss.Text
namespace Rrss
namespace Lexer

/-! ### byte-offset slicing (`&buf[a..b]`, `get`, `get_unchecked`, `is_char_boundary`) -/

/-- drop exactly `n` bytes; `none` unless `n ≤ ulen s` and `n` is a character boundary -/
def dropBytes : Nat → Str → Option Str
  | 0, s => some s
  | _ + 1, [] => none
  | n + 1, c :: cs => if c.utf8Size ≤ n + 1 then dropBytes (n + 1 - c.utf8Size) cs else none

/-- take exactly `n` bytes; `none` unless `n ≤ ulen s` and `n` is a character boundary -/
def takeBytes : Nat → Str → Option Str
  | 0, _ => some []
  | _ + 1, [] => none
  | n + 1, c :: cs =>
    if c.utf8Size ≤ n + 1 then (takeBytes (n + 1 - c.utf8Size) cs).map (c :: ·) else none

/-- `buf.get(lo..hi)`: `none` models the panic (debug) / UB (release) of an out-of-range or
    off-boundary slice. -/
def substr (buf : Str) (lo hi : Nat) : Option Str :=
  if lo ≤ hi then (dropBytes lo buf).bind (takeBytes (hi - lo)) else none

/-- `buf.is_char_boundary(idx)` (true for `0` and `len`, false beyond `len`) -/
def isCharBoundary (buf : Str) (idx : Nat) : Bool := (dropBytes idx buf).isSome

/-! ### character classes and the keyword table -/

section
variable [CharOps]

/-- `is_ignorable_whitespace` -/
def isIgnorableWhitespace (c : Char) : Bool := CharOps.isWhitespace c && c != '\n'

/-- `is_ignorable_punctuation` -/
def isIgnorablePunctuation (c : Char) : Bool := isAsciiPunct c && c != '_' && c != '\''

/-- the predicate of `find_next_word_end` -/
def isWordEnd (c : Char) : Bool := CharOps.isWhitespace c || isIgnorablePunctuation c

/-- `is_word` -/
def isWord (text : Str) : Bool := !text.isEmpty && text.all (fun c => !isWordEnd c)

/-- `match_keyword`: the table is a parameter (`defaultKeywords` below transcribes `KEYWORDS`). -/
def matchKeyword (kw : List (Str × TK)) (word : Str) : Option TK :=
  kw.lookup (CharOps.lower word)

end

/-- `KEYWORDS` of lexer.rs, in source order (the `HashMap` has no duplicates, so the order of
    the association list is immaterial). -/
def defaultKeywords : List (Str × TK) :=
  [ (str% "mysterious", .mysterious),
    (str% "null", .null), (str% "nothing", .null), (str% "nowhere", .null),
    (str% "nobody", .null), (str% "gone", .null),
    (str% "true", .true_), (str% "right", .true_), (str% "yes", .true_), (str% "ok", .true_),
    (str% "false", .false_), (str% "wrong", .false_), (str% "no", .false_), (str% "lies", .false_),
    (str% "empty", .empty), (str% "silent", .empty), (str% "silence", .empty),
    (str% "it", .pronoun), (str% "he", .pronoun), (str% "she", .pronoun), (str% "him", .pronoun),
    (str% "her", .pronoun), (str% "they", .pronoun), (str% "them", .pronoun), (str% "ze", .pronoun),
    (str% "hir", .pronoun), (str% "zie", .pronoun), (str% "zir", .pronoun), (str% "xe", .pronoun),
    (str% "xem", .pronoun), (str% "ve", .pronoun), (str% "ver", .pronoun),
    (str% "plus", .plus),
    (str% "minus", .minus), (str% "without", .minus),
    (str% "times", .multiply), (str% "of", .multiply),
    (str% "over", .divide), (str% "between", .divide),
    (str% "in", .into), (str% "into", .into),
    (str% "is", .is), (str% "are", .is), (str% "was", .is), (str% "were", .is),
    (str% "isnt", .isnt), (str% "isn't", .isnt), (str% "aint", .isnt), (str% "ain't", .isnt),
    (str% "arent", .isnt), (str% "aren't", .isnt), (str% "wasnt", .isnt), (str% "wasn't", .isnt),
    (str% "werent", .isnt), (str% "weren't", .isnt),
    (str% "says", .says), (str% "said", .says),
    (str% "higher", .bigger), (str% "greater", .bigger), (str% "bigger", .bigger),
    (str% "stronger", .bigger),
    (str% "lower", .smaller), (str% "less", .smaller), (str% "smaller", .smaller),
    (str% "weaker", .smaller),
    (str% "high", .big), (str% "great", .big), (str% "big", .big), (str% "strong", .big),
    (str% "low", .small), (str% "little", .small), (str% "small", .small), (str% "weak", .small),
    (str% "shout", .sayAlias), (str% "whisper", .sayAlias), (str% "scream", .sayAlias),
    (str% "cut", .cut), (str% "split", .cut), (str% "shatter", .cut),
    (str% "join", .join), (str% "unite", .join),
    (str% "cast", .cast), (str% "burn", .cast),
    (str% "round", .round), (str% "around", .round),
    (str% "takes", .takes), (str% "wants", .takes),
    (str% "return", .return_), (str% "give", .return_), (str% "send", .return_),
    (str% "with", .with_), (str% "put", .put), (str% "let", .let_), (str% "be", .be),
    (str% "and", .and), (str% "or", .or), (str% "nor", .nor), (str% "not", .not),
    (str% "as", .as), (str% "than", .than), (str% "if", .if_), (str% "else", .else_),
    (str% "while", .while_), (str% "until", .until_), (str% "build", .build),
    (str% "knock", .knock), (str% "up", .up), (str% "down", .down), (str% "say", .say),
    (str% "listen", .listen), (str% "to", .to), (str% "turn", .turn),
    (str% "continue", .continue_), (str% "break", .break_), (str% "take", .take),
    (str% "top", .top), (str% "rock", .rock), (str% "roll", .roll), (str% "at", .at),
    (str% "like", .like), (str% "taking", .taking), (str% "back", .back),
    (str% "a", .commonPrefix), (str% "an", .commonPrefix), (str% "the", .commonPrefix),
    (str% "my", .commonPrefix), (str% "your", .commonPrefix), (str% "our", .commonPrefix) ]

/-! ### lexer state -/

/-- `struct Lexer`: `rest`/`pos` model `char_indices`. -/
structure LexState (N : Type) where
  src : Str
  rest : List Char
  pos : Nat
  line : Nat
  lineStart : Nat
  staged : Option (Tok N)

/-- `Lexer::new` -/
def LexState.init {N} (src : Str) : LexState N :=
  { src := src, rest := src, pos := 0, line := 1, lineStart := 0, staged := none }

/-- `struct LexResult`; `staged` is what the scanner assigned to `self.staged` (the field is
    `None` on entry of `match_loop`, because `next` has just `take`n it). -/
structure LexResult (N : Type) where
  token : Tok N
  stop : Nat                       -- `end`
  newlines : Nat
  newLineStart : Option Nat
  staged : Option (Tok N) := none

/-- the lexer's own result type: no errors, only crashes -/
abbrev L := Outcome Unit

/-- `Option<u32>::max` (`None < Some _`) -/
def optMax : Option Nat → Option Nat → Option Nat
  | none, b => b
  | a, none => a
  | some a, some b => some (max a b)

variable {N : Type}

/-- `get_start_index_of`: pointer arithmetic on the spelling; `Some` iff the spelling starts
    inside `buf` or at its end. -/
def getStartIndexOf (src : Str) (t : Tok N) : Option Nat :=
  if t.start ≤ ulen src then some t.start else none

/-- `current_idx`, without the `unwrap` (see `Parser.currentLoc` for the crash site): start of
    the staged token if one is pending, else the index of the next character, else `len`. -/
def currentIdx (st : LexState N) : Nat :=
  match st.staged with
  | some t => t.start
  | none =>
    match st.rest with
    | [] => ulen st.src
    | _ :: _ => st.pos

/-- what `current_line` / `current_loc` read in this state -/
def snap (st : LexState N) : Snap := ⟨st.line, st.lineStart, currentIdx st⟩

/-- `find_next_index`: byte index of the first unconsumed char satisfying `p`, else `buf.len()` -/
def findNextIndex (p : Char → Bool) (srcLen : Nat) : List Char → Nat → Nat
  | [], _ => srcLen
  | c :: cs, pos => if p c then pos else findNextIndex p srcLen cs (pos + c.utf8Size)

/-- `make_loc_from` -/
def makeLocFrom (line lineStart offset : Nat) : L Loc :=
  if offset < 4294967296 ∧ lineStart ≤ offset then .ok ⟨line, offset - lineStart⟩
  else .crash .lexMakeLoc

/-- `make_loc` -/
def makeLoc (st : LexState N) (offset : Nat) : L Loc := makeLocFrom st.line st.lineStart offset

/-- `make_range` (with its `debug_assert!`) -/
def makeRange (st : LexState N) (start stop : Nat) : L Range :=
  match substr st.src start stop with
  | none => .crash .lexSubstr
  | some _ =>
    (makeLoc st start).bind fun a =>
    (makeLoc st stop).bind fun b =>
    .ok (a.to b)

/-- `self.substr(a..b)` -/
def sub (st : LexState N) (lo hi : Nat) : L Str :=
  match substr st.src lo hi with
  | some s => .ok s
  | none => .crash .lexSubstr

/-- a token without payload -/
def plainTok (kind : TK) (spelling : Str) (start : Nat) (range : Range) : Tok N :=
  { kind := kind, spelling := spelling, start := start, range := range }

/-- `make_token_from`; `fill` attaches the payload of the `TokenType` (error message) -/
def makeTokenFrom (st : LexState N) (start len : Nat) (kind : TK) (err : Option LexErr := none) :
    L (Tok N) :=
  let stop := start + len
  (sub st start stop).bind fun sp =>
  (makeRange st start stop).bind fun r =>
  .ok { kind := kind, spelling := sp, start := start, range := r, lexErr := err }

/-- `usize` subtraction -/
def usub (a b : Nat) : L Nat := if b ≤ a then .ok (a - b) else .crash .lexSubUnderflow

section
variable [CharOps]

/-- `find_next_word_end` -/
def findNextWordEnd (st : LexState N) : Nat :=
  findNextIndex isWordEnd (ulen st.src) st.rest st.pos

/-! ### find_word_start -/

/-- `char::to_ascii_lowercase` -/
def toAsciiLower (c : Char) : Char :=
  if 'A' ≤ c ∧ c ≤ 'Z' then Char.ofNat (c.toNat + 32) else c

/-- `buf.get(..text.len())` followed by `eq_ignore_ascii_case(text)`, for an ASCII literal `text`
    (`'n'`, `'s`, `'re`): does `buf` start with `text` up to ASCII letter case?  Stated on
    characters: the first `text.len()` characters of `buf` exist and are, one by one,
    ASCII-case-equal to those of `text`.  This is what the Rust code computes on bytes: a
    non-ASCII character is never ASCII-case-equal to an ASCII one (`to_ascii_lowercase` fixes it),
    so whenever `get(..n)` answers `None` because `n` is past the end or inside a multi-byte
    character, or the `n` bytes contain a byte ≥ 0x80, one of the first characters of `buf` is
    missing or not ASCII and the test below is false as well; conversely, characters that are
    ASCII-case-equal to ASCII ones are one byte each, so the first `n` bytes are exactly the
    first `n` characters. -/
def startsWithIgnoreAsciiCase : Str → Str → Bool
  | [], _ => true
  | _ :: _, [] => false
  | d :: ds, c :: cs => toAsciiLower c == toAsciiLower d && startsWithIgnoreAsciiCase ds cs

/-- `char_indices.as_str().get(..3).map_or(false, |p| p.eq_ignore_ascii_case("'n'"))` -/
def startsWithNApos (rest : List Char) : Bool := startsWithIgnoreAsciiCase (str% "'n'") rest

/-- `char_indices.find(|&(_, c)| !is_ignorable_whitespace(c))`:
    (index, char, remaining chars, their index) -/
def findNonWs : List Char → Nat → Option (Nat × Char × List Char × Nat)
  | [], _ => none
  | c :: cs, pos =>
    if isIgnorableWhitespace c then findNonWs cs (pos + c.utf8Size)
    else some (pos, c, cs, pos + c.utf8Size)

/-- `find_word_start` -/
def findWordStart (rest : List Char) (pos : Nat) : Option (Nat × Char × List Char × Nat) :=
  if startsWithNApos rest then
    match rest with
    | c :: cs => some (pos, c, cs, pos + c.utf8Size)     -- `char_indices.next()`
    | [] => none
  else findNonWs rest pos

/-! ### scanners. They run on the state right after `find_word_start` consumed the start char. -/

/-- `scan_for_text` (`text` is one of the ASCII literals `'n'`, `'s`, `'re`: the two
    `debug_assert!`s hold statically). The text is matched up to ASCII letter case; the token
    spans `text.len()` bytes of the SOURCE (its spelling is the source slice, e.g. `'S`). -/
def scanForText (st : LexState N) (start : Nat) (text : Str) (kind : TK) :
    L (Option (LexResult N)) :=
  (sub st start (ulen st.src)).bind fun bufText =>
  match startsWithIgnoreAsciiCase text bufText with
  | false => .ok none
  | true =>
    (makeTokenFrom st start (ulen text) kind).bind fun tok =>
    .ok (some { token := tok, stop := start + ulen text, newlines := 0, newLineStart := none })

/-- `scan_apostrophe_n_apostrophe` -/
def scanApostropheNApostrophe (st : LexState N) (start : Nat) : L (Option (LexResult N)) :=
  scanForText st start (str% "'n'") .apostropheNApostrophe

/-- `scan_apostrophe_suffix` -/
def scanApostropheSuffix (st : LexState N) (start : Nat) : L (Option (LexResult N)) :=
  (scanForText st start (str% "'s") .apostropheS).bind fun r =>
  match r with
  | some r => .ok (some r)
  | none => scanForText st start (str% "'re") .apostropheRE

/-- `maybe_followed_by_apostrophe_suffix`: the suffix is located with the line state after the
    preceding token; `extended_to` inlined. -/
def maybeFollowedByApostropheSuffix (st : LexState N) (r : LexResult N) : L (LexResult N) :=
  let st' : LexState N :=
    { st with line := st.line + r.newlines, lineStart := r.newLineStart.getD st.lineStart }
  (scanApostropheSuffix st' r.stop).bind fun suffix =>
  match suffix with
  | none => .ok r
  | some suf =>
    .ok { token := r.token
          stop := max r.stop suf.stop
          newlines := r.newlines + suf.newlines
          newLineStart := optMax r.newLineStart suf.newLineStart
          staged := some suf.token }

/-- `scan_number` (`None` = the text does not parse as an `f64`) -/
def scanNumber [NumOps N] (st : LexState N) (start : Nat) : L (Option (LexResult N)) :=
  let stop := findNextIndex (fun c => !(isAsciiAlnum c || c == '.')) (ulen st.src) st.rest st.pos
  (sub st start stop).bind fun text =>
  match NumOps.parse text with
  | none => .ok none
  | some n =>
    (makeRange st start stop).bind fun r =>
    (maybeFollowedByApostropheSuffix st
      { token := { kind := .number, spelling := text, start := start, range := r, num := some n }
        stop := stop, newlines := 0, newLineStart := none }).bind fun res =>
    .ok (some res)

/-- `find_word_type` -/
def findWordType (kw : List (Str × TK)) (word : Str) : L TK :=
  if word.isEmpty then .crash .lexWordEmpty else .ok ((matchKeyword kw word).getD .word)

/-- `str::strip_suffix` -/
def stripSuffix? (suf w : Str) : Option Str :=
  if suf.isSuffixOf w then some (w.take (w.length - suf.length)) else none

/-- `str::trim_end_matches('\'')` -/
def trimEndApostrophes (w : Str) : Str := (w.reverse.dropWhile (· == '\'')).reverse

/-- the suffix analysis at the head of `tokenize_word`: stem and staged (kind, byte length) -/
def splitWordSuffix (word : Str) : Str × Option (TK × Nat) :=
  match (stripSuffix? (str% "'s") word).orElse (fun _ => stripSuffix? (str% "'S") word) with
  | some stripped => (stripped, some (.apostropheS, 2))
  | none =>
    match (stripSuffix? (str% "'re") word).orElse (fun _ =>
          (stripSuffix? (str% "'RE") word).orElse (fun _ =>
          (stripSuffix? (str% "'Re") word).orElse (fun _ =>
           stripSuffix? (str% "'rE") word))) with
    | some stripped => (stripped, some (.apostropheRE, 3))
    | none => (trimEndApostrophes word, none)

/-- `tokenize_word` -/
def tokenizeWord (kw : List (Str × TK)) (st : LexState N) (start : Nat) (word : Str) (stop : Nat) :
    L (LexResult N) :=
  let (stripped, stagedType) := splitWordSuffix word
  (match stagedType with
   | none => (.ok none : L (Option (Tok N)))
   | some (kind, len) =>
     (usub stop len).bind fun s =>
     (makeTokenFrom st s len kind).bind fun t => .ok (some t)).bind fun staged =>
  (findWordType kw stripped).bind fun kind =>
  (makeTokenFrom st start (ulen stripped) kind).bind fun token =>
  .ok { token := token, stop := stop, newlines := 0, newLineStart := none, staged := staged }

/-- `scan_word` -/
def scanWord (kw : List (Str × TK)) (st : LexState N) (start : Nat) : L (LexResult N) :=
  let stop := findNextWordEnd st
  (sub st start stop).bind fun text =>
  if text.all (fun c => CharOps.isAlphabetic c || c == '\'') then
    tokenizeWord kw st start text stop
  else
    (usub stop start).bind fun len =>
    (makeTokenFrom st start len .error (some .identNonAlpha)).bind fun token =>
    .ok { token := token, stop := stop, newlines := 0, newLineStart := none }

/-- `scan_keyword` -/
def scanKeyword (kw : List (Str × TK)) (st : LexState N) (start : Nat) : L (Option (LexResult N)) :=
  let stop := findNextWordEnd st
  (sub st start stop).bind fun text =>
  match matchKeyword kw text with
  | none => .ok none
  | some kind =>
    (makeRange st start stop).bind fun r =>
    .ok (some { token := plainTok kind text start r, stop := stop, newlines := 0,
                newLineStart := none })

/-- the `inspect`/`find` of `scan_delimited` over the unconsumed chars:
    (newlines seen, last new line start, index of the closing char) -/
def scanClose (close : Char) : List Char → Nat → Nat → Option Nat → Nat × Option Nat × Option Nat
  | [], _, nl, nls => (nl, nls, none)
  | c :: cs, pos, nl, nls =>
    let nl' := if c = '\n' then nl + 1 else nl
    let nls' := if c = '\n' then some (pos + 1) else nls
    if c = close then (nl', nls', some pos) else scanClose close cs (pos + c.utf8Size) nl' nls'

/-- `scan_delimited`; `kind`/`error` stand for the `factory` and the error message -/
def scanDelimited (st : LexState N) (openIdx : Nat) (closeChar : Char) (kind : TK) (error : LexErr) :
    L (LexResult N) :=
  (makeLoc st openIdx).bind fun startLoc =>
  let (newlines, newLineStart, close) := scanClose closeChar st.rest st.pos 0 none
  (match close with
   | some close =>
     (sub st (openIdx + 1) close).bind fun inner =>
     let stop := close + 1
     (sub st openIdx stop).bind fun text =>
     (.ok (kind, inner, (none : Option LexErr), text, stop) : L (TK × Str × Option LexErr × Str × Nat))
   | none =>
     (sub st openIdx (ulen st.src)).bind fun text =>
     .ok (.error, [], some error, text, ulen st.src)).bind fun (k, inner, err, text, stop) =>
  let currentLine := st.line + newlines
  let currentLineStart := newLineStart.getD st.lineStart
  (makeLocFrom currentLine currentLineStart stop).bind fun endLoc =>
  let token : Tok N :=
    { kind := k, spelling := text, start := openIdx, range := startLoc.to endLoc,
      text := inner, lexErr := err }
  maybeFollowedByApostropheSuffix st
    { token := token, stop := stop, newlines := newlines, newLineStart := newLineStart }

/-- `scan_comment` -/
def scanComment (st : LexState N) (openIdx : Nat) : L (LexResult N) :=
  scanDelimited st openIdx ')' .comment .unterminatedComment

/-- `scan_string_literal` -/
def scanStringLiteral (st : LexState N) (openIdx : Nat) : L (LexResult N) :=
  scanDelimited st openIdx '"' .stringLit .unterminatedString

/-- `make_error_token` -/
def makeErrorToken (st : LexState N) (start : Nat) (error : LexErr) : L (LexResult N) :=
  let stop := findNextWordEnd st
  (usub stop start).bind fun len =>
  (makeTokenFrom st start len .error (some error)).bind fun token =>
  .ok { token := token, stop := stop, newlines := 0, newLineStart := none }

/-- `char_token` -/
def charToken (st : LexState N) (kind : TK) (start : Nat) : L (LexResult N) :=
  (makeTokenFrom st start 1 kind).bind fun token =>
  let stop := start + 1
  if kind = .newline then
    .ok { token := token, stop := stop, newlines := 1, newLineStart := some stop }
  else
    .ok { token := token, stop := stop, newlines := 0, newLineStart := none }

/-- `two_char_token` -/
def twoCharToken (st : LexState N) (kind : TK) (start : Nat) : L (LexResult N) :=
  (makeTokenFrom st start 2 kind).bind fun token =>
  .ok { token := token, stop := start + 2, newlines := 0, newLineStart := none }

/-- `next_char` -/
def nextChar (st : LexState N) : Option Char := st.rest.head?

/-- `advance_to` after its assertion: drop chars until the head sits at byte `idx` -/
def advanceTo (idx : Nat) : List Char → Nat → List Char × Nat
  | [], pos => ([], pos)
  | c :: cs, pos => if pos = idx then (c :: cs, pos) else advanceTo idx cs (pos + c.utf8Size)

/-- `Some` (as an `Outcome`) -/
def some' (x : L (LexResult N)) : L (Option (LexResult N)) := x.bind fun r => .ok (some r)

/-- The `match start_char { … }` of `match_loop`; `none` = `continue`. `st` is the state after
    `find_word_start`. -/
def dispatch [NumOps N] (kw : List (Str × TK)) (st : LexState N) (start : Nat) (c : Char) :
    L (Option (LexResult N)) :=
  if c = '\n' then some' (charToken st .newline start)
  else if c = '.' then
    -- might be a number starting with a decimal, like .123
    (scanNumber st start).bind fun number =>
    match number with
    | some number => .ok (some number)
    | none => some' (charToken st .dot start)
  else if c = ',' then some' (charToken st .comma start)
  else if c = '&' then some' (charToken st .ampersand start)
  else if c = '+' then some' (charToken st .plus start)
  else if c = '-' then some' (charToken st .minus start)
  else if c = '*' then some' (charToken st .multiply start)
  else if c = '/' then some' (charToken st .divide start)
  else if c = '"' then some' (scanStringLiteral st start)
  else if c = '(' then some' (scanComment st start)
  else if c = '_' then some' (makeErrorToken st start .underscore)
  else if c = '<' then
    if nextChar st = some '=' then some' (twoCharToken st .lessEq start)
    else some' (charToken st .less start)
  else if c = '>' then
    if nextChar st = some '=' then some' (twoCharToken st .greaterEq start)
    else some' (charToken st .greater start)
  else
    (scanApostropheNApostrophe st start).bind fun r =>
    match r with
    | some result => .ok (some result)
    | none =>
      if isIgnorablePunctuation c || c == '\'' then .ok none       -- `continue`
      else if CharOps.isNumeric c then
        (scanNumber st start).bind fun number =>
        match number with
        | some number => .ok (some number)
        | none => some' (makeErrorToken st start .invalidToken)
      else if CharOps.isAlphabetic c then
        (scanKeyword kw st start).bind fun k =>
        match k with
        | some k => .ok (some k)
        | none => some' (scanWord kw st start)
      else some' (makeErrorToken st start .invalidToken)

/-- outcome of one round of the `loop` in `match_loop` -/
inductive StepResult (N : Type) where
  | eof (st : LexState N)                  -- `return None`
  | skip (st : LexState N)                 -- `continue`
  | tok (t : Tok N) (st : LexState N)      -- `return Some(token)`

/-- the tail of a round: `advance_to(end)`, line bookkeeping -/
def finish (st1 : LexState N) (r : LexResult N) : L (StepResult N) :=
  if isCharBoundary st1.src r.stop then
    let p := advanceTo r.stop st1.rest st1.pos
    .ok (.tok r.token
      { st1 with rest := p.1, pos := p.2
                 line := st1.line + r.newlines
                 lineStart := r.newLineStart.getD st1.lineStart
                 staged := r.staged })
  else .crash .lexAdvance

/-- one round of the `loop` in `match_loop` (non-recursive) -/
def step [NumOps N] (kw : List (Str × TK)) (st : LexState N) : L (StepResult N) :=
  match findWordStart st.rest st.pos with
  | none => .ok (.eof { st with rest := [], pos := ulen st.src })
  | some (start, c, rest1, pos1) =>
    let st1 : LexState N := { st with rest := rest1, pos := pos1 }
    match dispatch kw st1 start c with
    | .ok none => .ok (.skip st1)
    | .ok (some r) => finish st1 r
    | .err e => .err e
    | .crash s => .crash s
    | .fuel => .fuel
    | .resource => .resource

/-! ### termination: every round consumes at least one character -/

theorem findNonWs_lt {rest : List Char} {pos s : Nat} {c : Char} {rest1 : List Char} {pos1 : Nat}
    (h : findNonWs rest pos = some (s, c, rest1, pos1)) : rest1.length < rest.length := by
  induction rest generalizing pos with
  | nil => simp [findNonWs] at h
  | cons d ds ih =>
    simp only [findNonWs] at h
    split at h
    · have := ih h; simp; omega
    · simp at h; rw [← h.2.2.1]; simp

theorem findWordStart_lt {rest : List Char} {pos s : Nat} {c : Char} {rest1 : List Char} {pos1 : Nat}
    (h : findWordStart rest pos = some (s, c, rest1, pos1)) : rest1.length < rest.length := by
  unfold findWordStart at h
  split at h
  · cases rest with
    | nil => simp at h
    | cons d ds => simp at h; rw [← h.2.2.1]; simp
  · exact findNonWs_lt h

omit [CharOps] in
theorem advanceTo_le (idx : Nat) (rest : List Char) (pos : Nat) :
    (advanceTo idx rest pos).1.length ≤ rest.length := by
  induction rest generalizing pos with
  | nil => simp [advanceTo]
  | cons c cs ih =>
    simp only [advanceTo]
    split
    · simp
    · have := ih (pos + c.utf8Size); simp; omega

/-- the state a `StepResult` continues with -/
def StepResult.state : StepResult N → LexState N
  | .eof st => st | .skip st => st | .tok _ st => st

theorem step_lt [NumOps N] {kw : List (Str × TK)} {st : LexState N} {r : StepResult N}
    (h : step kw st = .ok r) :
    (∃ st', r = .eof st') ∨ r.state.rest.length < st.rest.length := by
  unfold step at h
  split at h
  · left; simp at h; exact ⟨_, h.symm⟩
  · next start c rest1 pos1 hf =>
    have hlt := findWordStart_lt hf
    right
    dsimp only at h
    split at h
    · simp at h; subst h; simpa [StepResult.state] using hlt
    · next r' _ =>
      unfold finish at h
      split at h
      · simp at h; subst h
        have := advanceTo_le r'.stop rest1 pos1
        simp only [StepResult.state]; omega
      · simp at h
    all_goals simp at h

/-- `match_loop` -/
def matchLoop [NumOps N] (kw : List (Str × TK)) (st : LexState N) :
    L (Option (Tok N) × LexState N) :=
  match h : step kw st with
  | .ok (.eof st') => .ok (none, st')
  | .ok (.tok t st') => .ok (some t, st')
  | .ok (.skip st') =>
    have : st'.rest.length < st.rest.length := by
      have := step_lt h; simpa [StepResult.state] using this
    matchLoop kw st'
  | .err e => .err e
  | .crash s => .crash s
  | .fuel => .fuel
  | .resource => .resource
termination_by st.rest.length

/-- `Iterator::next for Lexer`: `self.staged.take().or_else(|| self.match_loop())` -/
def next [NumOps N] (kw : List (Str × TK)) (st : LexState N) : L (Option (Tok N) × LexState N) :=
  match st.staged with
  | some t => .ok (some t, { st with staged := none })
  | none => matchLoop kw st

/-- termination measure of the token loop -/
def measure (st : LexState N) : Nat := 2 * st.rest.length + (if st.staged.isSome then 1 else 0)

theorem matchLoop_lt [NumOps N] {kw : List (Str × TK)} {st : LexState N} {t : Tok N} {st' : LexState N}
    (h : matchLoop kw st = .ok (some t, st')) : st'.rest.length < st.rest.length := by
  induction hn : st.rest.length using Nat.strongRecOn generalizing st with
  | _ n ih =>
    rw [matchLoop] at h
    split at h
    · simp at h
    · next t1 st1 hs =>
      simp at h
      have := step_lt hs
      simp [StepResult.state] at this
      rw [← h.2]; omega
    · next st1 hs =>
      have h1 := step_lt hs
      simp [StepResult.state] at h1
      have := ih st1.rest.length (by omega) h rfl
      omega
    all_goals simp at h

theorem next_lt [NumOps N] {kw : List (Str × TK)} {st : LexState N} {t : Tok N} {st' : LexState N}
    (h : next kw st = .ok (some t, st')) : measure st' < measure st := by
  unfold next at h
  split at h
  · next t0 hs =>
    simp at h
    rw [← h.2]; simp [measure, hs]
  · next hs =>
    have := matchLoop_lt h
    simp only [measure, hs]
    split <;> simp <;> omega

/-- all raw tokens (comments included); each token records the lexer state right after it
    was returned (`after`). -/
def lexLoop [NumOps N] (kw : List (Str × TK)) (st : LexState N) : L (List (Tok N)) :=
  match h : next kw st with
  | .ok (none, _) => .ok []
  | .ok (some t, st') =>
    have : measure st' < measure st := next_lt h
    match lexLoop kw st' with
    | .ok ts => .ok ({ t with after := snap st' } :: ts)
    | .err e => .err e
    | .crash s => .crash s
    | .fuel => .fuel
    | .resource => .resource
  | .err e => .err e
  | .crash s => .crash s
  | .fuel => .fuel
  | .resource => .resource
termination_by measure st

/-- ALL raw tokens of `src` (comments included). Cannot return `.fuel`/`.resource`/`.err`:
    the recursion is well-founded. -/
def lexAll [NumOps N] (kw : List (Str × TK)) (src : Str) : L (List (Tok N)) :=
  lexLoop kw (LexState.init src)

/-- The state of an exhausted lexer (`next` has returned `None`): the line state after the
    last raw token (trailing comments included), index `len`. -/
def eofSnap (src : Str) (raw : List (Tok N)) : Snap :=
  match raw.getLast? with
  | none => ⟨1, 0, ulen src⟩
  | some t => ⟨t.after.line, t.after.lineStart, ulen src⟩

end

end Lexer
end Rrss
