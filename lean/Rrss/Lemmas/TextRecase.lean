/-
  Rrss.Lemmas.TextRecase — helper lemmas for C15, text level: from the relation between the two
  token lists delivered by the lexer (Rrss.Lemmas.LexRecase) and the text-level side conditions
  (string literals and poetic string literals unchanged, capitalisation of word tokens kept) to the
  relation `ToksRel` the parser simulation needs (Rrss.Lemmas.ParseRecase), and the two runs of
  `parseProgram`.
-/
import Rrss.Lemmas.LexRecase
import Rrss.Lemmas.ParseRecase
import Rrss.Lemmas.LexerC12
import Rrss.Lemmas.ParserInv
import Rrss.Lemmas.LexerEval
import Rrss.Lemmas.ParserTotal
set_option linter.unusedSectionVars false
set_option linter.unusedVariables false
namespace Rrss
namespace Recase
open Lexer CharOps Keys Parser

variable {N : Type}

/-! ### lists -/

theorem F2.filter {α β : Type} {R : α → β → Prop} {l : List α} {m : List β} (h : F2 R l m)
    {p : α → Bool} {q : β → Bool} (hpq : ∀ a b, R a b → q b = p a) :
    F2 R (l.filter p) (m.filter q) := by
  induction h with
  | nil => exact .nil
  | cons h _ ih =>
    simp only [List.filter_cons, hpq _ _ h]
    split
    · exact .cons h ih
    · exact ih

theorem F2.find? {α β : Type} {R : α → β → Prop} {l : List α} {m : List β} (h : F2 R l m)
    {p : α → Bool} {q : β → Bool} (hpq : ∀ a b, R a b → q b = p a) :
    ORel R (l.find? p) (m.find? q) := by
  induction h with
  | nil => trivial
  | cons h _ ih =>
    simp only [List.find?_cons, hpq _ _ h]
    split
    · exact h
    · exact ih

theorem F2.getLast? {α β : Type} {R : α → β → Prop} {l : List α} {m : List β} (h : F2 R l m) :
    ORel R l.getLast? m.getLast? := by
  rw [List.getLast?_eq_head?_reverse, List.getLast?_eq_head?_reverse]
  have hr := h.reverse
  revert hr
  generalize l.reverse = a
  generalize m.reverse = b
  intro hr
  cases hr with
  | nil => trivial
  | cons h _ => exact h

/-! ### byte slices -/

theorem takeBytes_append_ge (x q : Str) (n : Nat) (h : ulen x ≤ n) :
    takeBytes n (x ++ q) = (takeBytes (n - ulen x) q).map (x ++ ·) := by
  induction x generalizing n with
  | nil => simp
  | cons c x ih =>
    have hc := usize_pos c
    simp only [ulen_cons] at h
    obtain ⟨m, rfl⟩ : ∃ m, n = m + 1 := ⟨n - 1, by omega⟩
    simp only [List.cons_append, takeBytes]
    rw [if_pos (by omega), ih _ (by omega)]
    simp only [ulen_cons]
    rw [show m + 1 - (c.utf8Size + ulen x) = m + 1 - c.utf8Size - ulen x by omega]
    cases takeBytes (m + 1 - c.utf8Size - ulen x) q <;> simp

/-- the text after a slice: strip the slice from the longer slice that starts at the same place -/
theorem substr_strip {src x : Str} {a c : Nat} (h : substr src a (a + ulen x) = some x)
    (hc : a + ulen x ≤ c) :
    (substr src a c).bind (stripPrefix? x) = substr src (a + ulen x) c := by
  obtain ⟨p, q, e, lp, -⟩ := Parser.substr_some h
  have e1 : src = p ++ (x ++ q) := by rw [e]; simp
  have e2 : src = (p ++ x) ++ q := e
  have d1 : dropBytes a src = some (x ++ q) := by rw [e1, ← lp]; exact dropBytes_append p _
  have d2 : dropBytes (a + ulen x) src = some q := by
    rw [e2, ← lp, ← ulen_append]; exact dropBytes_append _ _
  unfold substr
  rw [if_pos (by omega), if_pos hc, d1, d2]
  simp only [Option.bind]
  rw [takeBytes_append_ge x q (c - a) (by omega), show c - a - ulen x = c - (a + ulen x) by omega]
  cases takeBytes (c - (a + ulen x)) q with
  | none => rfl
  | some y => simp only [Option.map]; exact Parser.stripPrefix?_append x y

/-! ### from the lexer's relation to the parser's -/

section
variable [CharOps]

/-- where the text of a poetic string literal ends: at the next `Newline` token, else at the end
    of the source -/
def sayEnd (src : Str) (post : List (Tok N)) : Nat :=
  match post.find? (fun u => u.kind == .newline) with
  | some nl => nl.start
  | none => ulen src

theorem isCapitalizedWord_of {t t' : Tok N} (hk : t'.kind = t.kind) (hs : RC t.spelling t'.spelling)
    (hcap : t.kind = .word →
      t'.spelling.head?.map isUppercase = t.spelling.head?.map isUppercase) :
    isCapitalizedWord t' = isCapitalizedWord t := by
  unfold isCapitalizedWord
  rw [hk]
  by_cases hw : t.kind = .word
  · have := hcap hw
    simp only [hw, beq_self_eq_true, if_true]
    revert this hs
    generalize t.spelling = sp
    generalize t'.spelling = sp'
    intro hs
    cases hs with
    | nil => intro _; rfl
    | cons _ _ => simp
  · have : (t.kind == TK.word) = false := by simpa using hw
    simp only [this, Bool.false_eq_true, if_false]

/-- the `sayText` of a `says` token whose spelling is a slice of the source, followed by tokens
    that start after it -/
theorem sayText_eq_substr {src : Str} {t : Tok N} {post : List (Tok N)}
    (hsl : substr src t.start (t.start + ulen t.spelling) = some t.spelling)
    (hord : ∀ u ∈ post, t.start + ulen t.spelling ≤ u.start) :
    sayText src t post = substr src (t.start + ulen t.spelling) (sayEnd src post) := by
  unfold sayText sayEnd literalTextOf
  cases hf : post.find? (fun u => u.kind == .newline) with
  | none =>
    simp only
    refine substr_strip hsl ?_
    obtain ⟨p, q, e, lp, -⟩ := Parser.substr_some hsl
    rw [e]; simp only [ulen_append]; omega
  | some nl =>
    simp only
    exact substr_strip hsl (hord nl (List.mem_of_find?_eq_some hf))

theorem toksRel_of {src src' : Str} {l l' : List (Tok N)} (h : F2 PTokRel l l')
    (hsl : ∀ t ∈ l, substr src t.start (t.start + ulen t.spelling) = some t.spelling)
    (hsl' : ∀ t ∈ l', substr src' t.start (t.start + ulen t.spelling) = some t.spelling)
    (hord : l.Pairwise (fun t u => t.start + ulen t.spelling ≤ u.start))
    (hlen : ulen src' = ulen src)
    (hsay : ∀ pre t post, l = pre ++ t :: post → (t.kind = .says ∨ t.kind = .say) →
      substr src' (t.start + ulen t.spelling) (sayEnd src post) =
        substr src (t.start + ulen t.spelling) (sayEnd src post)) :
    ToksRel src src' l l' := by
  induction h with
  | nil => exact .nil
  | @cons t t' ts ts' ht hts ih =>
    have hord' := List.pairwise_cons.mp hord
    refine .cons ht ?_ (ih (fun u hu => hsl u (List.mem_cons_of_mem _ hu))
      (fun u hu => hsl' u (List.mem_cons_of_mem _ hu)) hord'.2
      (fun pre u post e hk => hsay (t :: pre) u post (by rw [e]; rfl) hk))
    intro hk
    have h1 := sayText_eq_substr (hsl t (List.mem_cons_self ..)) hord'.1
    have hend : sayEnd src' ts' = sayEnd src ts := by
      unfold sayEnd
      have hf := hts.find? (p := fun u => u.kind == .newline) (q := fun u => u.kind == .newline)
        (fun a b hab => by rw [hab.kind])
      revert hf
      cases ts.find? (fun u => u.kind == .newline) <;>
        cases ts'.find? (fun u => u.kind == .newline) <;> simp only [ORel]
      · intro _; exact hlen
      · exact False.elim
      · exact False.elim
      · intro hf; exact hf.start
    have hord2 : ∀ u ∈ ts', t'.start + ulen t'.spelling ≤ u.start := by
      intro u hu
      obtain ⟨i, hi, rfl⟩ := List.getElem_of_mem hu
      have hi0 : i < ts.length := by rw [← hts.length_eq]; exact hi
      have := hts.getElem i hi0 hi
      rw [this.start, ht.start, ht.spelling.ulen]
      exact hord'.1 _ (List.getElem_mem _)
    have h2 := sayText_eq_substr (hsl' t' (List.mem_cons_self ..)) hord2
    rw [h1, h2, hend, ht.start, ht.spelling.ulen]
    exact hsay [] t ts rfl hk

end

/-! ### the two parser runs -/

section
variable [CharOps] [NumOps N]

theorem eofSnap_rel {src src' : Str} {raw raw' : List (Tok N)} (h : F2 TokRel raw raw')
    (hlen : ulen src' = ulen src) : eofSnap src' raw' = eofSnap src raw := by
  unfold eofSnap
  have := h.getLast?
  revert this
  cases raw.getLast? <;> cases raw'.getLast? <;> simp only [ORel]
  · intro _; rw [hlen]
  · exact False.elim
  · exact False.elim
  · intro hl; rw [hl.after, hlen]

/-- outcomes of two whole-program parses -/
def ParseOutRel : Outcome (ParseErr N) (Program N) → Outcome (ParseErr N) (Program N) → Prop
  | .ok p, .ok p' => eProgram p' = eProgram p
  | .err e, .err e' => ErrRel e e'
  | .crash s, .crash s' => s = s'
  | .fuel, .fuel => True
  | .resource, .resource => True
  | _, _ => False

theorem parseProgram_rel (laws : AsciiLaws) (kw : List (Str × TK)) {s s' : Str}
    {ts ts' : List (Tok N)} (hlex : lexAll kw s = .ok ts) (hlex' : lexAll kw s' = .ok ts')
    (hlen : ulen s' = ulen s) (hraw : F2 TokRel ts ts')
    (htoks : ToksRel s s' (skipComments ts) (skipComments ts')) :
    ParseOutRel (N := N) (parseProgram kw s) (parseProgram kw s') := by
  unfold parseProgram runOn
  rw [hlex, hlex']
  simp only
  have hst : PStRel (initState s ts) (initState s' ts') :=
    ⟨hlen, htoks, rfl, eofSnap_rel hraw hlen, rfl⟩
  have hl : (initState s' ts').toks.length = (initState s ts).toks.length := by
    show (skipComments ts').length = (skipComments ts).length
    have : F2 TokRel (skipComments ts) (skipComments ts') :=
      hraw.filter (fun a b hab => by rw [hab.kind])
    exact this.length_eq
  rw [hl]
  have h := (parser_rel (N := N) laws ((initState s ts).toks.length + 2)).program _ _ hst
  revert h
  rcases (parser ((initState s ts).toks.length + 2)).program (initState s ts) with
      ⟨p, st1⟩ | e | c | _ | _ <;>
    rcases (parser ((initState s ts).toks.length + 2)).program (initState s' ts') with
      ⟨p', st1'⟩ | e' | c' | _ | _ <;>
    simp only [PORel, ParseOutRel] <;> intro h <;> first | exact h.1 | exact h

end

/-! ### from the text-level side conditions to `ToksRel` -/

section
variable [CharOps] [NumOps N]

/-- a string literal whose span is unchanged in the re-cased text has the same payload -/
theorem stringLit_text_eq {kw : List (Str × TK)} {s s' : Str} {ts ts' : List (Tok N)}
    (hlen : ulen s < 2 ^ 32) (hlen' : ulen s' < 2 ^ 32)
    (hkw : ∀ e ∈ kw, e.2 ≠ .newline ∧ e.2 ≠ .number ∧ e.2 ≠ .stringLit ∧ e.2 ≠ .comment)
    (hlex : lexAll kw s = .ok ts) (hlex' : lexAll kw s' = .ok ts')
    {t t' : Tok N} (ht : t ∈ ts) (ht' : t' ∈ ts') (hrel : TokRel t t') (hk : t.kind = .stringLit)
    (hstr : substr s' t.start (t.start + ulen t.spelling) = some t.spelling) :
    t'.text = t.text := by
  have h1 := (c12_spelling hlen' hlex' t' ht').1
  rw [hrel.start, hrel.spelling.ulen, hstr] at h1
  have hsp : t.spelling = t'.spelling := Option.some.inj h1
  have p1 := (c12_payloads hlen hlex hkw t ht).1 hk
  have p2 := (c12_payloads hlen' hlex' hkw t' ht').1 (by rw [hrel.kind, hk])
  rw [p1, p2] at hsp
  simp only [List.cons.injEq, true_and] at hsp
  exact (List.append_cancel_right hsp).symm

/-- **from text to tokens**: the token lists of two texts related by `RC` that have the same
    string literals, the same text in poetic string literals and the same capitalisation of word
    tokens are related in the sense of the parser simulation -/
theorem toksRel_of_text (laws : AsciiLaws)
    (hparse : ∀ t t' : Str, RC t t' → (NumOps.parse t' : Option N) = NumOps.parse t)
    {kw : List (Str × TK)}
    (hkw : ∀ e ∈ kw, e.2 ≠ .newline ∧ e.2 ≠ .number ∧ e.2 ≠ .stringLit ∧ e.2 ≠ .comment)
    {s s' : Str} (hlen : ulen s < 2 ^ 32) (hrca : RC s s')
    {ts ts' : List (Tok N)} (hlex : lexAll kw s = .ok ts) (hlex' : lexAll kw s' = .ok ts')
    (hstr : ∀ t ∈ ts, t.kind = .stringLit →
      substr s' t.start (t.start + ulen t.spelling) = some t.spelling)
    (hsay : ∀ pre t post, skipComments ts = pre ++ t :: post → (t.kind = .says ∨ t.kind = .say) →
      substr s' (t.start + ulen t.spelling) (sayEnd s post) =
        substr s (t.start + ulen t.spelling) (sayEnd s post))
    (hcap : ∀ (i : Nat) (h : i < ts.length) (h' : i < ts'.length), ts[i].kind = .word →
      ts'[i].spelling.head?.map isUppercase = ts[i].spelling.head?.map isUppercase) :
    F2 TokRel ts ts' ∧ ToksRel s s' (skipComments ts) (skipComments ts') := by
  have hl : ulen s' = ulen s := hrca.ulen
  have hlen' : ulen s' < 2 ^ 32 := by rw [hl]; exact hlen
  have hraw : F2 TokRel ts ts' := by
    have := lexAll_rel (N := N) laws hparse kw hrca
    rw [hlex, hlex'] at this
    exact this
  refine ⟨hraw, ?_⟩
  have hp : F2 PTokRel ts ts' := by
    refine F2.of_getElem hraw.length_eq fun i hi hi' => ?_
    have hr := hraw.getElem i hi hi'
    refine ⟨hr.kind, hr.spelling, hr.start, hr.range, hr.num, fun hk => ?_, hr.after,
      isCapitalizedWord_of hr.kind hr.spelling (hcap i hi hi')⟩
    exact stringLit_text_eq hlen hlen' hkw hlex hlex' (List.getElem_mem _) (List.getElem_mem _) hr hk
      (hstr _ (List.getElem_mem _) hk)
  have hpf : F2 PTokRel (skipComments ts) (skipComments ts') :=
    hp.filter (fun a b hab => by rw [hab.kind])
  refine toksRel_of hpf ?_ ?_ ?_ hl hsay
  · intro t ht
    exact (c12_spelling hlen hlex t (List.mem_filter.mp ht).1).1
  · intro t ht
    exact (c12_spelling hlen' hlex' t (List.mem_filter.mp ht).1).1
  · exact (c12_order hlen hlex).sublist List.filter_sublist

end

/-! ### behaviour of trees that agree up to letter case -/

theorem wordLen_map_lower (s : Str) : Poetic.wordLen (s.map asciiLowerChar) = Poetic.wordLen s := by
  unfold Poetic.wordLen
  induction s with
  | nil => rfl
  | cons c s ih =>
    have hc : CaseRel c (asciiLowerChar c) := (asciiLowerChar_idem c).symm
    have : (asciiLowerChar c != '\'') = (c != '\'') := by
      simp only [bne, hc.beq (x := '\'') (by decide)]
    simp only [List.map_cons, List.filter_cons, this]
    split
    · simp only [List.length_cons, ih]
    · exact ih

theorem itemsGo_map_lower (l : List PoeticElem) (cur : Option Nat) :
    Poetic.itemsGo (l.map lowerElem) cur = Poetic.itemsGo l cur := by
  induction l generalizing cur with
  | nil => rfl
  | cons e l ih =>
    cases e with
    | dot => simp only [List.map_cons, lowerElem, Poetic.itemsGo, ih]
    | word s => simp only [List.map_cons, lowerElem, Poetic.itemsGo, ih, wordLen_map_lower]
    | suffix s =>
      cases cur <;> simp only [List.map_cons, lowerElem, Poetic.itemsGo, ih, wordLen_map_lower]

/-- lower-casing the words of a poetic number literal does not change its value -/
theorem computeValue_map_lower {N : Type} [NumOps N] (l : List PoeticElem) :
    (Poetic.computeValue (l.map lowerElem) : Outcome Unit N) = Poetic.computeValue l := by
  unfold Poetic.computeValue Poetic.items
  rw [itemsGo_map_lower]

section
variable [CharOps] [NumOps N]
open Interp Env

/-- two programs that agree up to the letter case of names and of the words of poetic number
    literals behave alike -/
theorem exec_of_eProgram (hidem : ∀ c, ∀ d ∈ toLower c, toLower d = [d]) (fuel : Nat)
    (p p' : Program N) (h : eProgram p' = eProgram p) (env : Env N) (hs : env.scopes = [[]])
    (hl : env.last = none) :
    (execProgram fuel p' env).2.out = (execProgram fuel p env).2.out
    ∧ (execProgram fuel p' env).1.mapErr (RtErr.mapName VarName.key)
        = (execProgram fuel p env).1.mapErr (RtErr.mapName VarName.key) := by
  have hk : Rename.KeyInj VarName.key := fun n m => by
    rw [VarName.key_idem hidem, VarName.key_idem hidem]
  have he : RenameP.EnvRel VarName.key lowerElem env env := RenameP.envRel_initial env hs hl
  have h1 := RenameP.exec_rename hk (computeValue_map_lower (N := N)) fuel p he
  have h2 := RenameP.exec_rename hk (computeValue_map_lower (N := N)) fuel p' he
  have h' : RenameP.program VarName.key lowerElem p' = RenameP.program VarName.key lowerElem p := h
  rw [h'] at h2
  exact ⟨h2.1.symm.trans h1.1, h2.2.1.symm.trans h1.2.1⟩

end

/-! ### the hypotheses are met by the concrete tables -/

theorem Letter.eq_ofNat {c : Char} (h : Letter c) : c.toNat < 128 ∧ c = Char.ofNat c.toNat :=
  ⟨h.lt128, (Char.ofNat_toNat c).symm⟩

/-- `AsciiLaws` from a check of the 128 ASCII code points -/
theorem asciiLaws_of_table (ops : CharOps)
    (h : ∀ n, n < 128 → Letter (Char.ofNat n) →
      ops.isAlphabetic (Char.ofNat n) = true ∧ ops.isNumeric (Char.ofNat n) = false ∧
      ops.isWhitespace (Char.ofNat n) = false ∧
      ops.toLower (Char.ofNat n) = [asciiLowerChar (Char.ofNat n)]) : @AsciiLaws ops := by
  have key : ∀ c, Letter c → ops.isAlphabetic c = true ∧ ops.isNumeric c = false ∧
      ops.isWhitespace c = false ∧ ops.toLower c = [asciiLowerChar c] := by
    intro c hc
    obtain ⟨h1, h2⟩ := hc.eq_ofNat
    have := h c.toNat h1 (by rw [← h2]; exact hc)
    rw [← h2] at this
    exact this
  exact ⟨fun c hc => (key c hc).1, fun c hc => (key c hc).2.1, fun c hc => (key c hc).2.2.1,
    fun c hc => (key c hc).2.2.2⟩

/-- the ASCII tables of the lexer examples -/
theorem asciiLaws_asciiOps : @AsciiLaws Lexer.asciiOps :=
  asciiLaws_of_table _ (by decide +kernel)

/-- the ASCII tables of the C15 examples -/
theorem asciiLaws_asciiCaseOps : @AsciiLaws asciiCaseOps :=
  asciiLaws_of_table _ (by decide +kernel)

/-- the tables generated from the Rust std -/
theorem asciiLaws_charOpsImpl : @AsciiLaws charOpsImpl :=
  asciiLaws_of_table _ (by decide +kernel)

theorem asciiOps_idem (c d : Char) (h : d ∈ Lexer.asciiOps.toLower c) :
    Lexer.asciiOps.toLower d = [d] := by
  have e : ∀ x : Char, Lexer.asciiOps.toLower x = [asciiLowerChar x] := by
    intro x
    show (if (65 ≤ x.toNat && x.toNat ≤ 90) = true then [Char.ofNat (x.toNat + 32)] else [x]) = _
    have h2 : 'A'.toNat = 65 := by decide
    have h3 : 'Z'.toNat = 90 := by decide
    unfold asciiLowerChar
    simp only [char_le_iff_toNat, h2, h3, Bool.and_eq_true, decide_eq_true_eq]
    split <;> rfl
  rw [e] at h ⊢
  have hd : d = asciiLowerChar c := by simpa using h
  rw [hd, asciiLowerChar_idem]

/-! #### `parseIntStr` does not look at letter case (it accepts no letters) -/

theorem parseNatDigits_rc {ds ds' : Str} (h : RC ds ds') (acc : Nat) :
    parseNatDigits ds' acc = parseNatDigits ds acc := by
  induction h generalizing acc with
  | nil => rfl
  | cons hc _ ih =>
    rcases hc.cases with rfl | ⟨h1, h2⟩
    · simp only [parseNatDigits, ih]
    · unfold Letter at h1 h2
      simp only [parseNatDigits]
      rw [if_neg (by omega), if_neg (by omega)]

theorem parseIntStr_cons (c : Char) (ds : Str) :
    parseIntStr (c :: ds) =
      if c = '-' then
        (if ds.isEmpty then none else (parseNatDigits ds 0).map fun n => -(Int.ofNat n))
      else if c = '+' then (if ds.isEmpty then none else (parseNatDigits ds 0).map Int.ofNat)
      else (parseNatDigits (c :: ds) 0).map Int.ofNat := by
  by_cases h1 : c = '-'
  · subst h1; rfl
  · by_cases h2 : c = '+'
    · subst h2; rfl
    · rw [if_neg h1, if_neg h2]
      unfold parseIntStr
      split
      · next h => cases h
      · next h => simp only [List.cons.injEq] at h; exact absurd h.1 h1
      · next h => simp only [List.cons.injEq] at h; exact absurd h.1 h2
      · rfl

theorem parseIntStr_rc {t t' : Str} (h : RC t t') : parseIntStr t' = parseIntStr t := by
  cases h with
  | nil => rfl
  | cons hc ht =>
    rw [parseIntStr_cons, parseIntStr_cons]
    simp only [hc.eq_iff (x := '-') (by decide), hc.eq_iff (x := '+') (by decide), RC.isEmpty ht,
      parseNatDigits_rc ht, parseNatDigits_rc (F2.cons hc ht)]

/-- the integer instance of `NumOps` meets the hypothesis on `parse` -/
theorem numOpsInt_parse_rc (t t' : Str) (h : RC t t') :
    (numOpsInt.parse t' : Option Int) = numOpsInt.parse t := parseIntStr_rc h

end Recase
end Rrss
