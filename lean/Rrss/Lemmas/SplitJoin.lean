/-
  Rrss.Lemmas.SplitJoin — helper lemmas for C07: `splitAux` / `splitOn` / `intercalate`
  (round trip, pieces free of the delimiter), `allStrs`, `valIter`.
-/
import Rrss.Val
namespace Rrss

/-! ### `stripPrefix?` is the prefix test -/

theorem stripPrefix?_append (d r : Str) : stripPrefix? d (d ++ r) = some r := by
  induction d with
  | nil => simp [stripPrefix?]
  | cons x xs ih => simp [stripPrefix?, ih]

theorem stripPrefix?_eq_none_iff (d s : Str) : stripPrefix? d s = none ↔ ¬ d <+: s := by
  constructor
  · intro h ⟨r, hr⟩
    subst hr
    rw [stripPrefix?_append] at h
    cases h
  · intro h
    cases hsp : stripPrefix? d s with
    | none => rfl
    | some r => exact absurd ⟨r, (stripPrefix?_eq hsp).symm⟩ h

/-! ### round trip -/

theorem splitAux_ne_nil (d : Str) (hd : d ≠ []) (s cur : Str) : splitAux d hd s cur ≠ [] := by
  fun_induction splitAux d hd s cur <;> simp_all

theorem intercalate_splitAux (d : Str) (hd : d ≠ []) (s cur : Str) :
    intercalate d (splitAux d hd s cur) = cur.reverse ++ s := by
  fun_induction splitAux d hd s cur with
  | case1 s cur r h _ ih =>
    have hs := stripPrefix?_eq h
    have hne := splitAux_ne_nil d hd r []
    cases hsp : splitAux d hd r [] with
    | nil => exact absurd hsp hne
    | cons y t =>
      rw [hsp] at ih
      simp only [intercalate]
      rw [ih, hs]; simp
  | case2 cur h => simp [intercalate]
  | case3 cur c cs h ih => rw [ih]; simp

theorem intercalate_nil_singletons (s : Str) : intercalate [] (s.map fun c => [c]) = s := by
  induction s with
  | nil => rfl
  | cons c cs ih =>
    cases cs with
    | nil => rfl
    | cons c' cs' =>
      simp only [List.map_cons, intercalate] at ih ⊢
      simp [ih]

/-- `join ∘ split = id` on texts, for every delimiter (empty: split into characters). -/
theorem intercalate_splitOn (s d : Str) : intercalate d (splitOn s d) = s := by
  unfold splitOn
  split
  · next hd => subst hd; exact intercalate_nil_singletons s
  · next hd => simpa using intercalate_splitAux d hd s []

theorem splitOn_ne_nil (s d : Str) (hs : s ≠ []) : splitOn s d ≠ [] := by
  unfold splitOn
  split
  · simpa using hs
  · exact splitAux_ne_nil _ _ _ _

theorem splitOn_nil_length (s : Str) : (splitOn s []).length = s.length := by
  simp [splitOn]

theorem splitOn_nil_eq (s : Str) : splitOn s [] = s.map fun c => [c] := by
  simp [splitOn]

/-! ### no piece contains the delimiter -/

/-- Invariant of the scan: in the text `cur.reverse ++ s` the delimiter does not start at any
    of the positions already passed (those of `cur`). -/
def NoOccBefore (d cur s : Str) : Prop :=
  ∀ j, j < cur.length → ¬ d <+: (cur.reverse ++ s).drop j

theorem noOccBefore_nil (d s : Str) : NoOccBefore d [] s := by
  intro j hj; simp at hj

theorem not_infix_of_noOccBefore {d cur s : Str} (hd : d ≠ []) (h : NoOccBefore d cur s) :
    ¬ d <:+: cur.reverse := by
  rintro ⟨u, w, huw⟩
  have hlen : u.length < cur.length := by
    have := congrArg List.length huw
    have hdl : 0 < d.length := List.length_pos_iff.mpr hd
    simp at this; omega
  apply h u.length hlen
  rw [← huw]
  refine ⟨w ++ s, ?_⟩
  simp [List.append_assoc]

theorem splitAux_no_delim (d : Str) (hd : d ≠ []) (s cur : Str) (h : NoOccBefore d cur s) :
    ∀ p ∈ splitAux d hd s cur, ¬ d <:+: p := by
  fun_induction splitAux d hd s cur with
  | case1 s cur r hsp _ ih =>
    intro p hp
    rcases List.mem_cons.mp hp with rfl | hp
    · exact not_infix_of_noOccBefore hd h
    · exact ih (noOccBefore_nil d r) p hp
  | case2 cur hsp =>
    intro p hp
    have : p = cur.reverse := by simpa using hp
    subst this
    exact not_infix_of_noOccBefore hd h
  | case3 cur c cs hsp ih =>
    apply ih
    intro j hj
    have heq : (c :: cur).reverse ++ cs = cur.reverse ++ c :: cs := by simp
    rw [heq]
    by_cases hjc : j < cur.length
    · exact h j hjc
    · have hj' : j = cur.reverse.length := by simp at hj ⊢; omega
      subst hj'
      rw [List.drop_left]
      exact (stripPrefix?_eq_none_iff d (c :: cs)).mp hsp

/-- No piece of `splitOn s d`, `d ≠ ""`, contains `d`. -/
theorem splitOn_no_delim (s d : Str) (hd : d ≠ []) : ∀ p ∈ splitOn s d, ¬ d <:+: p := by
  unfold splitOn
  rw [dif_neg hd]
  exact splitAux_no_delim d hd s [] (noOccBefore_nil d s)

/-- Full strength: the delimiter does not *start* at any position inside a piece, reading on
    in the rest of the text (the piece, the delimiter after it, the following pieces). -/
theorem splitAux_no_delim_start (d : Str) (hd : d ≠ []) (s cur : Str) (h : NoOccBefore d cur s) :
    ∀ l1 p l2, splitAux d hd s cur = l1 ++ p :: l2 →
      ∀ j, j < p.length → ¬ d <+: (intercalate d (p :: l2)).drop j := by
  fun_induction splitAux d hd s cur with
  | case1 s cur r hsp _ ih =>
    intro l1 p l2 heq j hj
    cases l1 with
    | nil =>
      simp only [List.nil_append, List.cons.injEq] at heq
      obtain ⟨rfl, rfl⟩ := heq
      have hint : intercalate d (cur.reverse :: splitAux d hd r []) = cur.reverse ++ s := by
        have := intercalate_splitAux d hd s cur
        rw [splitAux, ] at this
        split at this
        · next r' h' =>
          have : r' = r := by rw [hsp] at h'; exact (Option.some.inj h').symm
          subst this; assumption
        · next h' => rw [hsp] at h'; cases h'
      rw [hint]
      exact h j (by simpa using hj)
    | cons x l1' =>
      simp only [List.cons_append, List.cons.injEq] at heq
      exact ih (noOccBefore_nil d r) l1' p l2 heq.2 j hj
  | case2 cur hsp =>
    intro l1 p l2 heq j hj
    cases l1 with
    | nil =>
      simp only [List.nil_append, List.cons.injEq] at heq
      obtain ⟨rfl, rfl⟩ := heq
      have := h j (by simpa using hj)
      simpa [intercalate] using this
    | cons x l1' => simp at heq
  | case3 cur c cs hsp ih =>
    apply ih
    intro j hj
    have heq : (c :: cur).reverse ++ cs = cur.reverse ++ c :: cs := by simp
    rw [heq]
    by_cases hjc : j < cur.length
    · exact h j hjc
    · have hj' : j = cur.reverse.length := by simp at hj ⊢; omega
      subst hj'
      rw [List.drop_left]
      exact (stripPrefix?_eq_none_iff d (c :: cs)).mp hsp

theorem splitOn_no_delim_start (s d : Str) (hd : d ≠ []) :
    ∀ l1 p l2, splitOn s d = l1 ++ p :: l2 →
      ∀ j, j < p.length → ¬ d <+: (intercalate d (p :: l2)).drop j := by
  unfold splitOn
  rw [dif_neg hd]
  exact splitAux_no_delim_start d hd s [] (noOccBefore_nil d s)

namespace Val
variable {N : Type}

/-! ### `allStrs`, `valIter` on arrays of strings -/

@[simp] theorem dictValuesSorted_nil : dictValuesSorted ([] : List (Key × Val N)) = [] := by
  simp [dictValuesSorted]

@[simp] theorem valIter_nil_dict (seq : List (Val N)) : valIter seq [] = seq := by
  simp [valIter]

@[simp] theorem allStrs_map_str (l : List Str) : allStrs (l.map (str : Str → Val N)) = .ok l := by
  induction l with
  | nil => rfl
  | cons x xs ih => simp [allStrs, ih, Except.map]

end Val
end Rrss
