/-
  Rrss.Lemmas.ParserSuffix — the parser only ever drops tokens from the front of its token list,
  and every parse error is located at a token of the input (the first token not yet consumed when
  the error was built, or the consumed hyphen-follower of a poetic literal) or, when no token
  remains, at the line the lexer had reached.

  `Step st st'`: `st'` is reached from `st` by dropping a prefix `pre` of the tokens; `last` is then
  the `after` snapshot of the last dropped token (or unchanged if none was dropped, or `eof` if the
  exhausted lexer was pulled once more); `src` and `eof` never change.
  `ErrOk toks last eof e`: where an error returned from a state `(toks, last, eof)` may point to.
  `ErrAt st e`: `e` was built (by `new_parse_error`, or naming the token consumed last) in a state
  reached from `st` by a `Step`; it implies `ErrOk st.toks st.last st.eof e`.
  `Sound p`: every `.ok` result of `p` is a `Step`, every `.err` result is `ErrAt` for the state
  `p` started in. `Sound` is closed under `bind`; the invariant `RecSound rec` (every field of
  `rec` is `Sound`) is preserved by `mkRec` and holds of `fuelRec`, hence of every `parser n`.
-/
import Rrss.Parser
namespace Rrss
namespace Parser

open Lexer (isWord substr)

set_option linter.unusedVariables false
set_option linter.unusedSectionVars false

variable {N : Type} {α β : Type}

/-- the lexer snapshot `last'` after dropping the tokens `pre` from a state with `last`/`eof` -/
def LastOk (eof last : Snap) (pre : List (Tok N)) (last' : Snap) : Prop :=
  last' = eof ∨ (pre = [] ∧ last' = last) ∨ ∃ t, pre.getLast? = some t ∧ last' = t.after

/-- `st'` is reached from `st` by consuming a prefix of the tokens -/
structure Step (st st' : PState N) : Prop where
  toks : ∃ pre, st.toks = pre ++ st'.toks ∧ LastOk st.eof st.last pre st'.last
  src : st'.src = st.src
  eof : st'.eof = st.eof

/-- the locations an error returned from a state with tokens `toks` and snapshots `last`, `eof`
    may carry: a token of `toks` (all tokens before it have been consumed), or — only when no token
    remains — the line of the lexer: after the last token of `toks`, or of the exhausted lexer, or
    (if there was no token at all) the initial one. -/
def ErrOk (toks : List (Tok N)) (last eof : Snap) (e : ParseErr N) : Prop :=
  (∃ pre t post, toks = pre ++ t :: post ∧ e.loc = .token t) ∨
  (∃ ln, e.loc = .line ln ∧
    (ln = eof.line ∨ (toks = [] ∧ ln = last.line) ∨ ∃ t, toks.getLast? = some t ∧ ln = t.after.line))

/-- where an error returned from `st` was built: in a state `st''` reached from `st` by consuming
    tokens, either by `new_parse_error` (current token of `st''`, or its current line if it has
    none), or naming the token consumed last before `st''` (the hyphen-follower of a poetic
    literal) -/
def ErrAt (st : PState N) (e : ParseErr N) : Prop :=
  ∃ st'', Step st st'' ∧
    (e.loc = errLocOf st'' ∨ ∃ pre t, st.toks = pre ++ t :: st''.toks ∧ e.loc = .token t)

/-- the specification every parser function meets -/
structure Sound (p : P N α) : Prop where
  ok : ∀ st a st', p st = .ok (a, st') → Step st st'
  err : ∀ st e, p st = .err e → ErrAt st e

theorem Step.refl (st : PState N) : Step st st :=
  ⟨⟨[], by simp, Or.inr (Or.inl ⟨rfl, rfl⟩)⟩, rfl, rfl⟩

theorem LastOk.trans {eof last last' last'' : Snap} {pre pre' : List (Tok N)}
    (h1 : LastOk eof last pre last') (h2 : LastOk eof last' pre' last'') :
    LastOk eof last (pre ++ pre') last'' := by
  rcases h2 with h | ⟨h, h'⟩ | ⟨t, h, h'⟩
  · exact Or.inl h
  · subst h h'; simpa using h1
  · refine Or.inr (Or.inr ⟨t, ?_, h'⟩)
    cases pre' with
    | nil => simp at h
    | cons x xs => simp [List.getLast?_append, h]

theorem Step.trans {st st' st'' : PState N} (h1 : Step st st') (h2 : Step st' st'') :
    Step st st'' := by
  obtain ⟨⟨pre, hp, hl⟩, hs, he⟩ := h1
  obtain ⟨⟨pre', hp', hl'⟩, hs', he'⟩ := h2
  refine ⟨⟨pre ++ pre', by rw [hp, hp', List.append_assoc], ?_⟩, hs'.trans hs, he'.trans he⟩
  rw [he] at hl'
  exact hl.trans hl'

/-- an error that is well located for a later state is well located for an earlier one -/
theorem ErrOk.of_step {st st' : PState N} {e : ParseErr N} (h : Step st st')
    (he : ErrOk st'.toks st'.last st'.eof e) : ErrOk st.toks st.last st.eof e := by
  obtain ⟨⟨pre, hp, hl⟩, _, heof⟩ := h
  rcases he with ⟨pre', t, post, h1, h2⟩ | ⟨ln, h1, h2⟩
  · exact Or.inl ⟨pre ++ pre', t, post, by rw [hp, h1, List.append_assoc], h2⟩
  · refine Or.inr ⟨ln, h1, ?_⟩
    rcases h2 with h2 | ⟨h2, h3⟩ | ⟨t, h2, h3⟩
    · exact Or.inl (by rw [h2, heof])
    · rw [h2, List.append_nil] at hp
      rcases hl with hl | ⟨hl, hl'⟩ | ⟨t, hl, hl'⟩
      · exact Or.inl (by rw [h3, hl])
      · exact Or.inr (Or.inl ⟨by rw [hp, hl], by rw [h3, hl']⟩)
      · exact Or.inr (Or.inr ⟨t, by rw [hp, hl], by rw [h3, hl']⟩)
    · refine Or.inr (Or.inr ⟨t, ?_, h3⟩)
      rw [hp]
      cases hst : st'.toks with
      | nil => rw [hst] at h2; simp at h2
      | cons x xs => rw [hst] at h2; simp [List.getLast?_append, h2]

theorem ErrAt.of_step {st st' : PState N} {e : ParseErr N} (h : Step st st') (he : ErrAt st' e) :
    ErrAt st e := by
  obtain ⟨st'', h2, h3⟩ := he
  refine ⟨st'', h.trans h2, ?_⟩
  rcases h3 with h3 | ⟨pre', t, h3, h4⟩
  · exact Or.inl h3
  · obtain ⟨⟨pre, hp, _⟩, _, _⟩ := h
    exact Or.inr ⟨pre ++ pre', t, by rw [hp, h3, List.append_assoc], h4⟩

theorem errLocOf_ok (st : PState N) (c : PCode N) :
    ErrOk st.toks st.last st.eof ⟨c, errLocOf st⟩ := by
  unfold errLocOf
  cases h : st.toks with
  | nil => exact Or.inr ⟨_, rfl, Or.inr (Or.inl ⟨rfl, rfl⟩)⟩
  | cons t ts => exact Or.inl ⟨[], t, ts, rfl, rfl⟩

/-- the trace form implies the location form -/
theorem ErrAt.errOk {st : PState N} {e : ParseErr N} (h : ErrAt st e) :
    ErrOk st.toks st.last st.eof e := by
  obtain ⟨st'', h2, h3⟩ := h
  rcases h3 with h3 | ⟨pre, t, h3, h4⟩
  · refine ErrOk.of_step h2 ?_
    have := errLocOf_ok st'' e.code
    rcases this with ⟨pre, t, post, h5, h6⟩ | ⟨ln, h5, h6⟩
    · exact Or.inl ⟨pre, t, post, h5, by rw [h3]; exact h6⟩
    · exact Or.inr ⟨ln, by rw [h3]; exact h5, h6⟩
  · exact Or.inl ⟨pre, t, st''.toks, h3, h4⟩

theorem Sound.err_ok {p : P N α} (hp : Sound p) {st : PState N} {e : ParseErr N}
    (h : p st = .err e) : ErrOk st.toks st.last st.eof e :=
  (hp.err st e h).errOk

theorem ErrAt.here (st : PState N) (c : PCode N) : ErrAt st ⟨c, errLocOf st⟩ :=
  ⟨st, Step.refl st, Or.inl rfl⟩

/-! ### normal form of `do` blocks -/

@[simp] theorem P.bind_eq (x : P N α) (f : α → P N β) : (x >>= f) = P.bind x f := rfl
@[simp] theorem P.pure_eq_s (a : α) : (Pure.pure a : P N α) = P.pure a := rfl
@[simp] theorem P.map_eq (g : α → β) (x : P N α) :
    (g <$> x) = P.bind x (fun a => P.pure (g a)) := rfl

/-! ### closure properties -/

theorem Sound.bind {x : P N α} {f : α → P N β} (hx : Sound x) (hf : ∀ a, Sound (f a)) :
    Sound (P.bind x f) := by
  constructor
  · intro st b st'' h
    simp only [P.bind] at h
    cases hxs : x st with
    | ok r =>
      obtain ⟨a, st'⟩ := r
      rw [hxs] at h
      exact (hx.ok _ _ _ hxs).trans ((hf a).ok _ _ _ h)
    | _ => rw [hxs] at h; cases h
  · intro st e h
    simp only [P.bind] at h
    cases hxs : x st with
    | ok r =>
      obtain ⟨a, st'⟩ := r
      rw [hxs] at h
      exact ErrAt.of_step (hx.ok _ _ _ hxs) ((hf a).err _ _ h)
    | err e' => rw [hxs] at h; cases h; exact hx.err _ _ hxs
    | _ => rw [hxs] at h; cases h

theorem Sound.pure {a : α} : Sound (P.pure a : P N α) :=
  ⟨fun st _ _ h => by simp only [P.pure] at h; cases h; exact Step.refl st,
   fun st e h => by simp [P.pure] at h⟩

theorem Sound.pure' {a : α} : Sound (Pure.pure a : P N α) := Sound.pure

theorem Sound.failWith {c : PCode N} : Sound (failWith c : P N α) :=
  ⟨fun st _ _ h => by simp [Parser.failWith] at h,
   fun st e h => by simp only [Parser.failWith] at h; cases h; exact ErrAt.here st c⟩

theorem Sound.crash {s : Site} : Sound (P.crash s : P N α) :=
  ⟨fun st _ _ h => by simp [P.crash] at h, fun st e h => by simp [P.crash] at h⟩

theorem Sound.fuel : Sound (P.fuel : P N α) :=
  ⟨fun st _ _ h => by simp [P.fuel] at h, fun st e h => by simp [P.fuel] at h⟩

theorem Sound.ofOption {s : Site} {o : Option α} : Sound (P.ofOption s o : P N α) := by
  cases o with
  | none => exact Sound.crash
  | some a => exact Sound.pure

/-- a function that never fails and never changes the state -/
theorem Sound.of_read {p : P N α} (h : ∀ st, (∃ a, p st = .ok (a, st)) ∨ (∃ s, p st = .crash s)) :
    Sound p := by
  constructor
  · intro st a st' hp
    rcases h st with ⟨a', h'⟩ | ⟨s, h'⟩ <;> rw [h'] at hp <;> cases hp
    exact Step.refl st
  · intro st e hp
    rcases h st with ⟨a', h'⟩ | ⟨s, h'⟩ <;> rw [h'] at hp <;> cases hp

theorem current_sound : Sound (current : P N _) :=
  Sound.of_read fun st => Or.inl ⟨_, rfl⟩

theorem currentMatches_sound {m : Tok N → Bool} : Sound (currentMatches m) :=
  Sound.of_read fun st => by
    unfold currentMatches; cases st.toks <;> exact Or.inl ⟨_, rfl⟩

theorem currentLine_sound : Sound (currentLine : P N _) :=
  Sound.of_read fun st => Or.inl ⟨_, rfl⟩

theorem currentLoc_sound : Sound (currentLoc : P N _) :=
  Sound.of_read fun st => by
    unfold currentLoc
    split
    · split
      · exact Or.inl ⟨_, rfl⟩
      · exact Or.inr ⟨_, rfl⟩
    · exact Or.inr ⟨_, rfl⟩

theorem newParseError_sound {c : PCode N} : Sound (newParseError c) :=
  Sound.of_read fun st => Or.inl ⟨_, rfl⟩

theorem getParsingList_sound : Sound (getParsingList : P N _) :=
  Sound.of_read fun st => Or.inl ⟨_, rfl⟩

theorem isCurrentNegativeNumber_sound : Sound (isCurrentNegativeNumber : P N _) :=
  Sound.of_read fun st => by
    unfold isCurrentNegativeNumber
    cases st.toks with
    | nil => exact Or.inr ⟨_, rfl⟩
    | cons t ts => exact Or.inl ⟨_, rfl⟩

theorem setParsingList_sound {b : Bool} : Sound (setParsingList b : P N _) :=
  ⟨fun st _ _ h => by
      simp only [setParsingList] at h; cases h
      exact ⟨⟨[], by simp, Or.inr (Or.inl ⟨rfl, rfl⟩)⟩, rfl, rfl⟩,
   fun st e h => by simp [setParsingList] at h⟩

theorem currentOrError_sound : Sound (currentOrError : P N _) := by
  constructor
  · intro st a st' h
    unfold currentOrError at h
    cases hs : st.toks with
    | nil => simp [hs] at h
    | cons t ts => simp only [hs] at h; cases h; exact Step.refl st
  · intro st e h
    unfold currentOrError at h
    split at h
    · cases h
    · cases h; exact ErrAt.here st _

/-- the step made by dropping the first token -/
theorem Step.drop1 {st : PState N} {t : Tok N} {ts : List (Tok N)} (h : st.toks = t :: ts) :
    Step st { st with toks := ts, last := t.after } :=
  ⟨⟨[t], by simp [h], Or.inr (Or.inr ⟨t, rfl, rfl⟩)⟩, rfl, rfl⟩

theorem advance_sound : Sound (advance : P N _) := by
  constructor
  · intro st a st' h
    unfold advance at h
    cases hs : st.toks with
    | nil =>
      simp only [hs] at h; cases h
      exact ⟨⟨[], by simp [hs], Or.inl rfl⟩, rfl, rfl⟩
    | cons t ts => simp only [hs] at h; cases h; exact Step.drop1 hs
  · intro st e h
    unfold advance at h
    cases hs : st.toks <;> simp [hs] at h

theorem matchAndConsume_sound {m : Tok N → Bool} : Sound (matchAndConsume m) := by
  constructor
  · intro st a st' h
    unfold matchAndConsume at h
    cases hs : st.toks with
    | nil => simp only [hs] at h; cases h; exact Step.refl st
    | cons t ts =>
      simp only [hs] at h
      split at h
      · cases h; exact Step.drop1 hs
      · cases h; exact Step.refl st
  · intro st e h
    unfold matchAndConsume at h
    cases hs : st.toks with
    | nil => simp [hs] at h
    | cons t ts => simp only [hs] at h; split at h <;> cases h

theorem consume_sound {m : Tok N → Bool} : Sound (consume m) := by
  constructor
  · intro st a st' h
    unfold consume at h
    cases hs : st.toks with
    | nil => simp [hs] at h
    | cons t ts =>
      simp only [hs] at h
      split at h
      · cases h; exact Step.drop1 hs
      · cases h
  · intro st e h
    unfold consume at h
    cases hs : st.toks with
    | nil => simp [hs] at h
    | cons t ts => simp only [hs] at h; split at h <;> cases h

theorem matchAndConsumeP_sound {m : Tok N → Outcome Unit Bool} : Sound (matchAndConsumeP m) := by
  constructor
  · intro st a st' h
    unfold matchAndConsumeP at h
    cases hs : st.toks with
    | nil => simp only [hs] at h; cases h; exact Step.refl st
    | cons t ts =>
      simp only [hs] at h
      split at h
      · cases h; exact Step.drop1 hs
      · cases h; exact Step.refl st
      · cases h
      · cases h
  · intro st e h
    unfold matchAndConsumeP at h
    cases hs : st.toks with
    | nil => simp [hs] at h
    | cons t ts => simp only [hs] at h; split at h <;> cases h

theorem dropUntil_spec (k : TK) (eof : Snap) (ts : List (Tok N)) (last : Snap) :
    ∃ pre, ts = pre ++ (dropUntil k eof ts last).1 ∧
      LastOk eof last pre (dropUntil k eof ts last).2 := by
  induction ts generalizing last with
  | nil => exact ⟨[], by simp [dropUntil], Or.inl (by simp [dropUntil])⟩
  | cons t ts ih =>
    simp only [dropUntil]
    split
    · exact ⟨[], by simp, Or.inr (Or.inl ⟨rfl, rfl⟩)⟩
    · obtain ⟨pre, h1, h2⟩ := ih t.after
      refine ⟨t :: pre, by rw [List.cons_append, ← h1], ?_⟩
      have h0 : LastOk eof last [t] t.after := Or.inr (Or.inr ⟨t, rfl, rfl⟩)
      simpa using h0.trans h2

theorem matchUntilNext_sound {k : TK} : Sound (matchUntilNext k : P N _) := by
  constructor
  · intro st a st' h
    simp only [matchUntilNext] at h
    cases h
    obtain ⟨pre, h1, h2⟩ := dropUntil_spec k st.eof st.toks st.last
    exact ⟨⟨pre, h1, h2⟩, rfl, rfl⟩
  · intro st e h
    simp [matchUntilNext] at h

/-! ### proof search -/

/-- leaves of the proof search (extended after each lemma) -/
syntax "sleaf" : tactic
macro_rules | `(tactic| sleaf) => `(tactic| assumption)
macro_rules | `(tactic| sleaf) => `(tactic| with_reducible first
  | exact Sound.pure
  | exact Sound.pure'
  | exact Sound.failWith
  | exact Sound.crash
  | exact Sound.fuel
  | exact Sound.ofOption
  | exact current_sound
  | exact currentMatches_sound
  | exact currentLine_sound
  | exact currentLoc_sound
  | exact newParseError_sound
  | exact currentOrError_sound
  | exact getParsingList_sound
  | exact setParsingList_sound
  | exact isCurrentNegativeNumber_sound
  | exact advance_sound
  | exact matchAndConsume_sound
  | exact consume_sound
  | exact matchAndConsumeP_sound
  | exact matchUntilNext_sound)

/-- register a lemma `foo_sound : Sound (foo …)` with explicit arguments `_` -/
macro "register_sound " t:term : command =>
  `(macro_rules | `(tactic| sleaf) => `(tactic| with_reducible exact $t))

/-- proof search: leaves, sequencing, case splits -/
macro "sauto" : tactic => `(tactic| repeat (first
  | sleaf
  | refine Sound.bind ?_ (fun _ => ?_)
  | split
  | intro _))

/-- unfold to the normal form -/
macro "snorm" : tactic => `(tactic| simp only [P.bind_eq, P.pure_eq_s, P.map_eq])

/-! ### the functions of the parser, bottom-up -/

theorem expectToken_sound {k : TK} : Sound (expectToken k : P N _) := by
  unfold expectToken; snorm; sauto
register_sound expectToken_sound

theorem expectTokenOrEnd_sound {k : TK} : Sound (expectTokenOrEnd k : P N _) := by
  unfold expectTokenOrEnd; snorm; sauto
register_sound expectTokenOrEnd_sound

theorem expectAny_sound {ks : List TK} : Sound (expectAny ks : P N _) := by
  unfold expectAny; snorm; sauto
register_sound expectAny_sound

theorem expectEol_sound : Sound (expectEol : P N _) := by
  unfold expectEol; snorm; sauto
register_sound expectEol_sound

variable [CharOps]

theorem expectTokenIspelled_sound {t : Str} : Sound (expectTokenIspelled t : P N _) := by
  unfold expectTokenIspelled; snorm; sauto
register_sound expectTokenIspelled_sound

theorem parsePronoun_sound : Sound (parsePronoun : P N _) := by
  unfold parsePronoun; snorm; sauto
register_sound parsePronoun_sound

theorem parseLiteralExpression_sound : Sound (parseLiteralExpression : P N _) := by
  unfold parseLiteralExpression; snorm; sauto
register_sound parseLiteralExpression_sound

theorem parseCommonIdentifier_sound : Sound (parseCommonIdentifier : P N _) := by
  unfold parseCommonIdentifier; snorm; sauto
register_sound parseCommonIdentifier_sound

theorem parseSimpleIdentifier_sound : Sound (parseSimpleIdentifier : P N _) := by
  unfold parseSimpleIdentifier; snorm; sauto
register_sound parseSimpleIdentifier_sound

/-- the hypothesis on `rec`: every field is sound -/
structure RecSound (rec : Rec N) : Prop where
  unary : Sound rec.unary
  primary : Sound rec.primary
  subscriptChain : ∀ a i, Sound (rec.subscriptChain a i)
  binLoop : ∀ l e, Sound (rec.binLoop l e)
  listLoop : ∀ l, Sound (rec.listLoop l)
  fancyLoop : ∀ e, Sound (rec.fancyLoop e)
  argsLoop : Sound rec.argsLoop
  paramsLoop : Sound rec.paramsLoop
  poeticLoop : Sound rec.poeticLoop
  buildKnockLoop : ∀ k, Sound (rec.buildKnockLoop k)
  capitalizedLoop : Sound rec.capitalizedLoop
  block : Sound rec.block
  functionBlock : Sound rec.functionBlock
  stmtLoop : Sound rec.stmtLoop
  fnStmtLoop : Sound rec.fnStmtLoop
  topLoop : Sound rec.topLoop
  expression : Sound rec.expression
  program : Sound rec.program

macro_rules | `(tactic| sleaf) => `(tactic| with_reducible first
  | exact RecSound.unary (by assumption)
  | exact RecSound.primary (by assumption)
  | exact RecSound.subscriptChain (by assumption) _ _
  | exact RecSound.binLoop (by assumption) _ _
  | exact RecSound.listLoop (by assumption) _
  | exact RecSound.fancyLoop (by assumption) _
  | exact RecSound.argsLoop (by assumption)
  | exact RecSound.paramsLoop (by assumption)
  | exact RecSound.poeticLoop (by assumption)
  | exact RecSound.buildKnockLoop (by assumption) _
  | exact RecSound.capitalizedLoop (by assumption)
  | exact RecSound.block (by assumption)
  | exact RecSound.functionBlock (by assumption)
  | exact RecSound.stmtLoop (by assumption)
  | exact RecSound.fnStmtLoop (by assumption)
  | exact RecSound.topLoop (by assumption))

variable {rec : Rec N}

theorem capitalizedLoopBody_sound (hr : RecSound rec) : Sound (capitalizedLoopBody rec) := by
  unfold capitalizedLoopBody; snorm; sauto
register_sound capitalizedLoopBody_sound (by assumption)

theorem parseCapitalizedIdentifier_sound (hr : RecSound rec) :
    Sound (parseCapitalizedIdentifier rec) := by
  unfold parseCapitalizedIdentifier; snorm; sauto
register_sound parseCapitalizedIdentifier_sound (by assumption)

theorem parseVariableName_sound (hr : RecSound rec) : Sound (parseVariableName rec) := by
  unfold parseVariableName; snorm; sauto
register_sound parseVariableName_sound (by assumption)

theorem parseIdentifier_sound (hr : RecSound rec) : Sound (parseIdentifier rec) := by
  unfold parseIdentifier; snorm; sauto
register_sound parseIdentifier_sound (by assumption)

theorem expectIdentifier_sound (hr : RecSound rec) : Sound (expectIdentifier rec) := by
  unfold expectIdentifier; snorm; sauto
register_sound expectIdentifier_sound (by assumption)

theorem expectVariableName_sound (hr : RecSound rec) : Sound (expectVariableName rec) := by
  unfold expectVariableName; snorm; sauto
register_sound expectVariableName_sound (by assumption)

theorem paramLoopBody_sound {γ : Type} {p : P N γ} {again : P N (List γ)} {rc : Bool}
    (hp : Sound p) (ha : Sound again) : Sound (paramLoopBody p again rc) := by
  unfold paramLoopBody; snorm; sauto

theorem parseParameterList_sound {γ : Type} {p : P N γ} {again : P N (List γ)} {rc : Bool}
    (hp : Sound p) (ha : Sound again) : Sound (parseParameterList p again rc) := by
  have := paramLoopBody_sound (rc := rc) hp ha
  unfold parseParameterList; snorm; sauto

theorem argsLoopBody_sound (hr : RecSound rec) : Sound (argsLoopBody rec) :=
  paramLoopBody_sound hr.unary hr.argsLoop
register_sound argsLoopBody_sound (by assumption)

theorem parseFunctionCall_sound (hr : RecSound rec) : Sound (parseFunctionCall rec) := by
  have := parseParameterList_sound (rc := false) hr.unary hr.argsLoop
  unfold parseFunctionCall; snorm; sauto
register_sound parseFunctionCall_sound (by assumption)

theorem parseIdentifierOrFunctionCall_sound (hr : RecSound rec) :
    Sound (parseIdentifierOrFunctionCall rec) := by
  unfold parseIdentifierOrFunctionCall; snorm; sauto
register_sound parseIdentifierOrFunctionCall_sound (by assumption)

theorem parseArrayPopExpr_sound (hr : RecSound rec) : Sound (parseArrayPopExpr rec) := by
  unfold parseArrayPopExpr; snorm; sauto
register_sound parseArrayPopExpr_sound (by assumption)

theorem parseNonSubscriptPrimary_sound (hr : RecSound rec) :
    Sound (parseNonSubscriptPrimary rec) := by
  unfold parseNonSubscriptPrimary; snorm; sauto
register_sound parseNonSubscriptPrimary_sound (by assumption)

theorem subscriptChain_sound (hr : RecSound rec) (a i : Primary N) :
    Sound (subscriptChain rec a i) := by
  unfold subscriptChain; snorm; sauto
register_sound subscriptChain_sound (by assumption) _ _

theorem parseArraySubscriptAfter_sound (hr : RecSound rec) (e : Primary N) :
    Sound (parseArraySubscriptAfter rec e) := by
  unfold parseArraySubscriptAfter; snorm; sauto
register_sound parseArraySubscriptAfter_sound (by assumption) _

theorem parseAssignmentLhsWith_sound (hr : RecSound rec) (i : Ident) (r : Range) :
    Sound (parseAssignmentLhsWith rec i r) := by
  unfold parseAssignmentLhsWith; snorm; sauto
register_sound parseAssignmentLhsWith_sound (by assumption) _ _

theorem parseAssignmentLhs_sound (hr : RecSound rec) : Sound (parseAssignmentLhs rec) := by
  unfold parseAssignmentLhs; snorm; sauto
register_sound parseAssignmentLhs_sound (by assumption)

theorem parsePrimary_sound (hr : RecSound rec) : Sound (parsePrimary rec) := by
  unfold parsePrimary; snorm; sauto
register_sound parsePrimary_sound (by assumption)

theorem parseUnary_sound (hr : RecSound rec) : Sound (parseUnary rec) := by
  unfold parseUnary; snorm; sauto
register_sound parseUnary_sound (by assumption)

theorem listLoopBody_sound (hr : RecSound rec) (lvl : Level) {next : P N (Expr N)}
    (hn : Sound next) : Sound (listLoopBody rec lvl next) := by
  unfold listLoopBody; snorm; sauto

theorem parseExpressionList_sound (hr : RecSound rec) (lvl : Level) {next : P N (Expr N)}
    (hn : Sound next) : Sound (parseExpressionList rec lvl next) := by
  have := listLoopBody_sound hr lvl hn
  unfold parseExpressionList; snorm; sauto

theorem binLoopBody_sound (hr : RecSound rec) (lvl : Level) {next : P N (Expr N)}
    (hn : Sound next) (e : Expr N) : Sound (binLoopBody rec lvl next e) := by
  have := parseExpressionList_sound hr lvl hn
  unfold binLoopBody; snorm; sauto

theorem parseBinaryExpression_sound (hr : RecSound rec) (lvl : Level) {next : P N (Expr N)}
    (hn : Sound next) : Sound (parseBinaryExpression rec lvl next) := by
  unfold parseBinaryExpression; snorm
  exact Sound.bind hn (fun e => binLoopBody_sound hr lvl hn e)

theorem parseFactor_sound (hr : RecSound rec) : Sound (parseFactor rec) :=
  parseBinaryExpression_sound hr _ (parseUnary_sound hr)
register_sound parseFactor_sound (by assumption)

theorem parseTerm_sound (hr : RecSound rec) : Sound (parseTerm rec) :=
  parseBinaryExpression_sound hr _ (parseFactor_sound hr)
register_sound parseTerm_sound (by assumption)

theorem parseFancyComparison_sound (hr : RecSound rec) (e : Expr N) :
    Sound (parseFancyComparison rec e) := by
  unfold parseFancyComparison; snorm; sauto
register_sound parseFancyComparison_sound (by assumption) _

theorem fancyLoopBody_sound (hr : RecSound rec) (e : Expr N) :
    Sound (fancyLoopBody rec e) := by
  unfold fancyLoopBody; snorm; sauto
register_sound fancyLoopBody_sound (by assumption) _

theorem parseComparison_sound (hr : RecSound rec) : Sound (parseComparison rec) := by
  have := fun e => binLoopBody_sound hr .comparison (parseTerm_sound hr) e
  unfold parseComparison; snorm; sauto
register_sound parseComparison_sound (by assumption)

theorem parseLogical_sound (hr : RecSound rec) : Sound (parseLogical rec) :=
  parseBinaryExpression_sound hr _ (parseComparison_sound hr)
register_sound parseLogical_sound (by assumption)

theorem parseExpression_sound (hr : RecSound rec) : Sound (parseExpression rec) :=
  parseLogical_sound hr
register_sound parseExpression_sound (by assumption)

theorem parseToplevelExpressionList_sound (hr : RecSound rec) :
    Sound (parseToplevelExpressionList rec) :=
  parseExpressionList_sound hr _ (parseExpression_sound hr)
register_sound parseToplevelExpressionList_sound (by assumption)

theorem operandOf_sound (hr : RecSound rec) (lvl : Level) : Sound (operandOf rec lvl) := by
  cases lvl <;> simp only [operandOf] <;> sleaf

end Parser
end Rrss
