/-
  Rrss.Lemmas.Keys — helper definitions and lemmas for C15 (names and keywords are case-blind):
  `CharOps.lower`, `VarName.key`, the symbol-table functions of Rrss/Env.lean as functions of the
  key only, `Interp.resolve`, and the keyword table.
-/
import Rrss.Env
import Rrss.Interp
import Rrss.Lexer
import Rrss.Generated.Keywords
import Rrss.CharsImpl
import Rrss.Spec.Aliases
set_option linter.unusedSectionVars false
namespace Rrss
open CharOps

/-! ## vocabulary used in the statements of C15 -/

/-- the three kinds of variable name -/
inductive NameKind | simple | common | proper
  deriving DecidableEq, Repr

/-- the kind of a name -/
def VarName.kind : VarName → NameKind
  | .simple _ => .simple
  | .common _ _ => .common
  | .proper _ => .proper

/-- every character of a name, in order (what the `all(is_lowercase)` test of sym_table.rs scans) -/
def VarName.chars : VarName → List Char
  | .simple s => s
  | .common p w => p ++ w
  | .proper ws => ws.flatten

/-- replace the name mentioned by an error (all other payloads and the constructor stay) -/
def RtErr.mapName {N : Type} (f : VarName → VarName) : RtErr N → RtErr N
  | .nameNotFound n => .nameNotFound (f n)
  | .expectedVarFoundFunc n => .expectedVarFoundFunc (f n)
  | .expectedFuncFoundVar n => .expectedFuncFoundVar (f n)
  | .duplicateSymbol n => .duplicateSymbol (f n)
  | .duplicateArgName n => .duplicateArgName (f n)
  | .missingPronoun => .missingPronoun
  | .io m => .io m
  | .val e => .val e
  | .notWritable => .notWritable
  | .listInvalid => .listInvalid
  | .wrongArgCount a b => .wrongArgCount a b

/-- apply a function to the error of an outcome -/
def Outcome.mapErr {ε ε' α : Type} (f : ε → ε') : Outcome ε α → Outcome ε' α
  | .ok a => .ok a
  | .err e => .err (f e)
  | .crash s => .crash s
  | .fuel => .fuel
  | .resource => .resource

/-- ASCII lower-casing, defined without `CharOps` (for the statement about re-cased keywords) -/
def asciiLowerChar (c : Char) : Char :=
  if 'A' ≤ c ∧ c ≤ 'Z' then Char.ofNat (c.toNat + 32) else c

/-- the characters keyword spellings are made of: ASCII lower-case letters and the apostrophe -/
def isKeywordChar (c : Char) : Bool := (decide ('a' ≤ c) && decide (c ≤ 'z')) || c == '\''

/-- A tiny ASCII-only `CharOps` (a definition, not an instance): used to show that the
    hypotheses of the C15 theorems are satisfiable and to evaluate concrete instances. -/
@[instance_reducible] def asciiCaseOps : CharOps where
  isAlphabetic c := (decide ('a' ≤ c) && decide (c ≤ 'z')) || (decide ('A' ≤ c) && decide (c ≤ 'Z'))
  isNumeric c := decide ('0' ≤ c) && decide (c ≤ '9')
  isWhitespace c := c == ' ' || c == '\t' || c == '\n' || c == '\r'
  isUppercase c := decide ('A' ≤ c) && decide (c ≤ 'Z')
  isLowercase c := decide ('a' ≤ c) && decide (c ≤ 'z')
  toLower c := [asciiLowerChar c]

section
variable [CharOps]

/-- Two names are the same up to letter case: same kind, same number of words, and word by
    word the same lower-case image. -/
def VarName.CaseEq : VarName → VarName → Prop
  | .simple s, .simple s' => lower s = lower s'
  | .common p w, .common p' w' => lower p = lower p' ∧ lower w = lower w'
  | .proper ws, .proper ws' =>
      ws.length = ws'.length ∧
      ∀ (i : Nat) (h : i < ws.length) (h' : i < ws'.length), lower ws[i] = lower ws'[i]
  | _, _ => False

/-- The key exactly as sym_table.rs computes it (`ToLowercase`): if every character of the name
    `is_lowercase` the name itself is used, otherwise every word is lower-cased. -/
def VarName.keyShortcut (n : VarName) : VarName :=
  if n.chars.all CharOps.isLowercase then n else n.key

namespace Keys

/-! ## `lower` -/

@[simp] theorem lower_nil : lower ([] : Str) = [] := rfl

@[simp] theorem lower_cons (c : Char) (s : Str) : lower (c :: s) = toLower c ++ lower s := by
  simp [lower, List.flatMap_cons]

theorem lower_append (s t : Str) : lower (s ++ t) = lower s ++ lower t := by
  simp [lower, List.flatMap_append]

theorem mem_lower {d : Char} {s : Str} : d ∈ lower s ↔ ∃ c ∈ s, d ∈ toLower c := by
  simp [lower, List.mem_flatMap]

/-- a word all of whose characters are fixed by lower-casing is its own lower-case image -/
theorem lower_eq_self {s : Str} (h : ∀ c ∈ s, toLower c = [c]) : lower s = s := by
  induction s with
  | nil => rfl
  | cons c s ih =>
    rw [lower_cons, h c (by simp), ih (fun d hd => h d (by simp [hd]))]; rfl

/-- lower-casing is idempotent when every character produced by `toLower` is fixed by it -/
theorem lower_idem (hidem : ∀ c, ∀ d ∈ toLower c, toLower d = [d]) (s : Str) :
    lower (lower s) = lower s :=
  lower_eq_self fun d hd => by
    obtain ⟨c, _, hc⟩ := mem_lower.mp hd
    exact hidem c d hc

theorem map_eq_map_iff_getElem {α β : Type} (f : α → β) (l l' : List α) :
    l.map f = l'.map f ↔
      l.length = l'.length ∧ ∀ (i : Nat) (h : i < l.length) (h' : i < l'.length), f l[i] = f l'[i] := by
  constructor
  · intro h
    have hl : l.length = l'.length := by simpa using congrArg List.length h
    refine ⟨hl, fun i hi hi' => ?_⟩
    have := List.getElem_of_eq h (i := i) (by simpa using hi)
    simpa using this
  · rintro ⟨hl, hp⟩
    apply List.ext_getElem (by simpa using hl)
    intro i h1 h2
    simp only [List.getElem_map]
    exact hp i (by simpa using h1) (by simpa using h2)

end Keys
open Keys

/-! ## `VarName.key` -/

theorem VarName.key_eq_iff (n n' : VarName) : n.key = n'.key ↔ n.CaseEq n' := by
  cases n <;> cases n' <;>
    simp [VarName.key, VarName.CaseEq, map_eq_map_iff_getElem]

theorem VarName.kind_key (n : VarName) : n.key.kind = n.kind := by
  cases n <;> rfl

theorem VarName.key_ne_of_kind_ne {n n' : VarName} (h : n.kind ≠ n'.kind) : n.key ≠ n'.key := by
  intro hk
  apply h
  rw [← VarName.kind_key n, hk, VarName.kind_key]

theorem VarName.key_eq_self {n : VarName} (h : ∀ c ∈ n.chars, toLower c = [c]) : n.key = n := by
  cases n with
  | simple s => simp only [VarName.key]; rw [lower_eq_self (s := s) h]
  | common p w =>
    simp only [VarName.key]
    rw [lower_eq_self fun c hc => h c (by simp [VarName.chars, hc]),
        lower_eq_self fun c hc => h c (by simp [VarName.chars, hc])]
  | proper ws =>
    simp only [VarName.key]
    congr 1
    have : ∀ w ∈ ws, lower w = w := fun w hw =>
      lower_eq_self fun c hc => h c (by simp only [VarName.chars, List.mem_flatten]; exact ⟨w, hw, hc⟩)
    calc ws.map lower = ws.map id := List.map_congr_left this
      _ = ws := by simp

theorem VarName.key_idem (hidem : ∀ c, ∀ d ∈ toLower c, toLower d = [d]) (n : VarName) :
    n.key.key = n.key := by
  cases n with
  | simple s => simp only [VarName.key, lower_idem hidem]
  | common p w => simp only [VarName.key, lower_idem hidem]
  | proper ws =>
    simp only [VarName.key, List.map_map]
    congr 1
    apply List.map_congr_left
    intro w _
    exact lower_idem hidem w

theorem VarName.keyShortcut_eq (hlow : ∀ c, isLowercase c = true → toLower c = [c]) (n : VarName) :
    n.keyShortcut = n.key := by
  unfold VarName.keyShortcut
  split
  · rename_i h
    rw [List.all_eq_true] at h
    exact (VarName.key_eq_self fun c hc => hlow c (h c hc)).symm
  · rfl

end

/-! ## the symbol table functions depend on a name only through its key -/

namespace Env
variable [CharOps] {N : Type} [NumOps N]

theorem lookupVarIn_recase {name name' : VarName} (h : name'.key = name.key) (sc : List (Scope N)) :
    lookupVarIn name' sc = (lookupVarIn name sc).mapError (RtErr.mapName fun _ => name') := by
  induction sc with
  | nil => rfl
  | cons s rest ih =>
    simp only [lookupVarIn, h]
    split <;> simp_all [Except.mapError, RtErr.mapName]

theorem lookupFuncIn_recase {name name' : VarName} (h : name'.key = name.key) (sc : List (Scope N)) :
    lookupFuncIn name' sc = (lookupFuncIn name sc).mapError (RtErr.mapName fun _ => name') := by
  induction sc with
  | nil => rfl
  | cons s rest ih =>
    simp only [lookupFuncIn, h]
    split <;> simp_all [Except.mapError, RtErr.mapName]

theorem setVarIn_recase {name name' : VarName} (h : name'.key = name.key) (v : Val N)
    (sc : List (Scope N)) : setVarIn name' v sc = setVarIn name v sc := by
  induction sc with
  | nil => rfl
  | cons s rest ih => simp only [setVarIn, h, ih]


theorem lookupVar_recase {name name' : VarName} (h : name'.key = name.key) (env : Env N) :
    lookupVar name' env =
      ((lookupVar name env).1.mapErr (RtErr.mapName fun _ => name'),
       { (lookupVar name env).2 with last := some name' }) := by
  simp only [lookupVar, lookupVarIn_recase h]
  cases lookupVarIn name env.scopes <;> rfl

theorem lastAccess_recase {name name' : VarName} (h : name'.key = name.key) (env : Env N) :
    lastAccess { env with last := some name' } =
      ((lastAccess { env with last := some name }).1.mapErr (RtErr.mapName fun _ => name'),
       { env with last := some name' }) := by
  simp only [lastAccess, lookupVarIn_recase h]
  cases lookupVarIn name env.scopes <;> rfl

theorem createFunc_recase {name name' : VarName} (h : name'.key = name.key)
    (params : List VarName) (body : Block N) (env : Env N) :
    createFunc name' params body env =
      ((createFunc name params body env).1.mapErr (RtErr.mapName fun _ => name'),
       (createFunc name params body env).2) := by
  simp only [createFunc, h]
  cases env.scopes with
  | nil => rfl
  | cons s rest => dsimp only; cases slookup name.key s <;> rfl

/-- positional form: argument lists that agree in the keys of the names and in the values -/
theorem functionScope_recase (args args' : List (VarName × Val N))
    (hk : args'.map (·.1.key) = args.map (·.1.key)) (hv : args'.map (·.2) = args.map (·.2))
    (acc : Scope N) :
    match functionScope args acc, functionScope args' acc with
    | .ok s, .ok s' => s' = s
    | .error e, .error e' =>
        ∃ (i : Nat) (h : i < args.length) (h' : i < args'.length),
          e = .duplicateArgName args[i].1 ∧ e' = .duplicateArgName args'[i].1
    | _, _ => False := by
  induction args generalizing args' acc with
  | nil =>
    cases args' with
    | nil => simp [functionScope]
    | cons a' as' => simp at hk
  | cons a as ih =>
    cases args' with
    | nil => simp at hk
    | cons a' as' =>
      obtain ⟨n, v⟩ := a
      obtain ⟨n', v'⟩ := a'
      simp only [List.map_cons, List.cons.injEq] at hk hv
      obtain ⟨hk1, hk2⟩ := hk
      obtain ⟨hv1, hv2⟩ := hv
      subst hv1
      simp only [functionScope, hk1]
      cases hs : slookup n.key acc with
      | some e => exact ⟨0, by simp, by simp, rfl, rfl⟩
      | none =>
        have := ih as' hk2 hv2 (sset n.key (.var v') acc)
        revert this
        dsimp only
        split
        · exact id
        · rintro ⟨i, h, h', e1, e2⟩
          exact ⟨i + 1, by simpa using h, by simpa using h', by simpa using e1, by simpa using e2⟩
        · exact id

/-- functional form: a renaming of the argument names that preserves keys -/
theorem functionScope_map (ρ : VarName → VarName) (hρ : ∀ n, (ρ n).key = n.key)
    (args : List (VarName × Val N)) (acc : Scope N) :
    functionScope (args.map fun a => (ρ a.1, a.2)) acc
      = (functionScope args acc).mapError (RtErr.mapName ρ) := by
  induction args generalizing acc with
  | nil => rfl
  | cons a as ih =>
    obtain ⟨n, v⟩ := a
    simp only [List.map_cons, functionScope, hρ]
    cases slookup n.key acc with
    | some e => rfl
    | none => exact ih _

theorem pushFunctionScope_map (ρ : VarName → VarName) (hρ : ∀ n, (ρ n).key = n.key)
    (args : List (VarName × Val N)) (env : Env N) :
    pushFunctionScope (args.map fun a => (ρ a.1, a.2)) env
      = ((pushFunctionScope args env).1.mapErr (RtErr.mapName ρ), (pushFunctionScope args env).2) := by
  simp only [pushFunctionScope, functionScope_map ρ hρ]
  cases functionScope args ([] : Scope N) <;> rfl

end Env

namespace Interp
variable [CharOps] {N : Type} [NumOps N]
open Env

theorem resolve_var_recase {name name' : VarName} (h : name'.key = name.key) (env : Env N) :
    resolve (.var name') env =
      ((((resolve (.var name) env).1.map fun p => (name', p.2)).mapErr (RtErr.mapName fun _ => name')),
       { (resolve (.var name) env).2 with last := some name' }) := by
  simp only [resolve, lookupVarIn_recase h, h]
  cases lookupVarIn name env.scopes with
  | ok v => rfl
  | error e =>
    simp only [Except.mapError]
    cases env.scopes with
    | nil => rfl
    | cons s rest => dsimp only; cases slookup name.key s <;> rfl

theorem resolve_var_fst {name : VarName} (env : Env N) {n : VarName} {v : Val N} {env' : Env N}
    (h : resolve (.var name) env = (.ok (n, v), env')) : n = name ∧ env'.last = some name := by
  simp only [resolve] at h
  split at h
  · simp only [Prod.mk.injEq, Outcome.ok.injEq] at h
    obtain ⟨⟨rfl, _⟩, rfl⟩ := h
    exact ⟨rfl, rfl⟩
  · split at h
    · simp at h
    · split at h
      · simp at h
      · simp only [Prod.mk.injEq, Outcome.ok.injEq] at h
        obtain ⟨⟨rfl, _⟩, rfl⟩ := h
        exact ⟨rfl, rfl⟩

theorem resolve_pronoun_recase {name name' : VarName} (h : name'.key = name.key) (env : Env N) :
    resolve .pronoun { env with last := some name' } =
      ((((resolve .pronoun { env with last := some name }).1.map fun p => (name', p.2)).mapErr
          (RtErr.mapName fun _ => name')),
       { env with last := some name' }) := by
  simp only [resolve, lookupVarIn_recase h]
  cases lookupVarIn name env.scopes <;> rfl

end Interp

/-! ## keyword recognition -/

namespace Lexer
variable [CharOps]

theorem matchKeyword_congr (kw : List (Str × TK)) {w w' : Str} (h : lower w = lower w') :
    matchKeyword kw w = matchKeyword kw w' := by
  simp only [matchKeyword, h]

theorem matchKeyword_of_lower {kw : List (Str × TK)} {w w' : Str} {k : TK}
    (h : lower w' = w) (hk : kw.lookup w = some k) : matchKeyword kw w' = some k := by
  simp only [matchKeyword, h, hk]

end Lexer

namespace Keys

/-- `lookup` only ever returns entries of the list -/
theorem mem_of_lookup_eq_some {α β : Type} [BEq α] [LawfulBEq α] {l : List (α × β)} {k : α} {v : β}
    (h : l.lookup k = some v) : (k, v) ∈ l := by
  induction l with
  | nil => simp at h
  | cons p l ih =>
    obtain ⟨k', v'⟩ := p
    rw [List.lookup_cons] at h
    split at h
    · rename_i hb
      have := eq_of_beq hb
      simp only [Option.some.injEq] at h
      subst this; subst h; simp
    · exact List.mem_cons_of_mem _ (ih h)

/-- two association lists each of whose entries is found in the other are the same finite map -/
theorem lookup_eq_of_mutual {α β : Type} [BEq α] [LawfulBEq α] {l₁ l₂ : List (α × β)}
    (h₁₂ : ∀ p ∈ l₁, l₂.lookup p.1 = some p.2) (h₂₁ : ∀ p ∈ l₂, l₁.lookup p.1 = some p.2)
    (k : α) : l₁.lookup k = l₂.lookup k := by
  cases h : l₁.lookup k with
  | some v => exact (h₁₂ _ (mem_of_lookup_eq_some h)).symm
  | none =>
    cases h' : l₂.lookup k with
    | none => rfl
    | some v =>
      have := h₂₁ _ (mem_of_lookup_eq_some h')
      simp only [h] at this
      exact absurd this (by simp)

/-! ### ASCII facts -/

theorem char_toNat_ofNat_of_lt {n : Nat} (h : n < 55296) : (Char.ofNat n).toNat = n := by
  have hv : n.isValidChar := Or.inl h
  unfold Char.ofNat
  rw [dif_pos hv]
  simp [Char.ofNatAux, ← Char.toNat_val]

theorem char_le_iff_toNat {a b : Char} : a ≤ b ↔ a.toNat ≤ b.toNat := by
  simp only [Char.le_def, UInt32.le_iff_toNat_le, Char.toNat_val]

theorem asciiLowerChar_of_upper {c : Char} (h : 'A' ≤ c ∧ c ≤ 'Z') :
    asciiLowerChar c = Char.ofNat (c.toNat + 32) := by
  simp only [asciiLowerChar, h, and_self, if_true]

theorem asciiLowerChar_of_not_upper {c : Char} (h : ¬ ('A' ≤ c ∧ c ≤ 'Z')) : asciiLowerChar c = c := by
  simp only [asciiLowerChar, h, if_false]

theorem not_upper_of_isKeywordChar {c : Char} (h : isKeywordChar c = true) : ¬ ('A' ≤ c ∧ c ≤ 'Z') := by
  simp only [isKeywordChar, Bool.or_eq_true, Bool.and_eq_true, decide_eq_true_eq, beq_iff_eq] at h
  have h1 : 'a'.toNat = 97 := by decide
  have h2 : 'A'.toNat = 65 := by decide
  have h3 : 'Z'.toNat = 90 := by decide
  have h4 : '\''.toNat = 39 := by decide
  rcases h with h | h
  · simp only [char_le_iff_toNat] at *; omega
  · subst h; simp only [char_le_iff_toNat]; omega

/-- the ASCII lower-case image of an upper-case letter is a lower-case letter -/
theorem asciiLowerChar_upper_isKeywordChar {c : Char} (h : 'A' ≤ c ∧ c ≤ 'Z') :
    isKeywordChar (asciiLowerChar c) = true := by
  rw [asciiLowerChar_of_upper h]
  simp only [isKeywordChar, Bool.or_eq_true, Bool.and_eq_true, decide_eq_true_eq]
  left
  have h1 : 'a'.toNat = 97 := by decide
  have h2 : 'A'.toNat = 65 := by decide
  have h3 : 'Z'.toNat = 90 := by decide
  have h5 : 'z'.toNat = 122 := by decide
  simp only [char_le_iff_toNat] at *
  have hn : (Char.ofNat (c.toNat + 32)).toNat = c.toNat + 32 :=
    char_toNat_ofNat_of_lt (by omega)
  rw [hn]
  omega

theorem asciiLowerChar_idem (c : Char) : asciiLowerChar (asciiLowerChar c) = asciiLowerChar c := by
  by_cases h : 'A' ≤ c ∧ c ≤ 'Z'
  · exact asciiLowerChar_of_not_upper (not_upper_of_isKeywordChar (asciiLowerChar_upper_isKeywordChar h))
  · rw [asciiLowerChar_of_not_upper h, asciiLowerChar_of_not_upper h]

section
variable [CharOps]

/-- Under the two ASCII facts about `toLower`, lower-casing a word whose ASCII lower-case image
    consists of keyword characters only is that image. -/
theorem lower_eq_of_asciiLowerChar
    (hfix : ∀ c : Char, (('a' ≤ c ∧ c ≤ 'z') ∨ c = '\'') → toLower c = [c])
    (hup : ∀ c : Char, ('A' ≤ c ∧ c ≤ 'Z') → toLower c = [Char.ofNat (c.toNat + 32)])
    {w' w : Str} (hw : ∀ c ∈ w, isKeywordChar c = true) (h : w'.map asciiLowerChar = w) :
    lower w' = w := by
  induction w' generalizing w with
  | nil => simpa using h
  | cons c cs ih =>
    cases w with
    | nil => simp at h
    | cons d ds =>
      simp only [List.map_cons, List.cons.injEq] at h
      obtain ⟨hd, hds⟩ := h
      rw [lower_cons, ih (fun x hx => hw x (by simp [hx])) hds]
      by_cases hc : 'A' ≤ c ∧ c ≤ 'Z'
      · rw [hup c hc, ← asciiLowerChar_of_upper hc, hd]; rfl
      · rw [asciiLowerChar_of_not_upper hc] at hd
        subst hd
        have := hw c (by simp)
        simp only [isKeywordChar, Bool.or_eq_true, Bool.and_eq_true, decide_eq_true_eq,
          beq_iff_eq] at this
        rw [hfix c this]; rfl

end

/-! ### `asciiCaseOps` meets every hypothesis used in C15 -/

theorem asciiCaseOps_fix (c : Char) (h : ('a' ≤ c ∧ c ≤ 'z') ∨ c = '\'') :
    asciiCaseOps.toLower c = [c] := by
  have : isKeywordChar c = true := by
    simpa only [isKeywordChar, Bool.or_eq_true, Bool.and_eq_true, decide_eq_true_eq, beq_iff_eq] using h
  show [asciiLowerChar c] = [c]
  rw [asciiLowerChar_of_not_upper (not_upper_of_isKeywordChar this)]

theorem asciiCaseOps_up (c : Char) (h : 'A' ≤ c ∧ c ≤ 'Z') :
    asciiCaseOps.toLower c = [Char.ofNat (c.toNat + 32)] := by
  show [asciiLowerChar c] = _
  rw [asciiLowerChar_of_upper h]

theorem asciiCaseOps_idem (c : Char) (d : Char) (h : d ∈ asciiCaseOps.toLower c) : asciiCaseOps.toLower d = [d] := by
  have hd : d = asciiLowerChar c := by
    have h' : d ∈ [asciiLowerChar c] := h
    simpa using h'
  show [asciiLowerChar d] = [d]
  rw [hd, asciiLowerChar_idem]

theorem asciiCaseOps_low (c : Char) (h : asciiCaseOps.isLowercase c = true) : asciiCaseOps.toLower c = [c] := by
  apply asciiCaseOps_fix
  left
  have h' : (decide ('a' ≤ c) && decide (c ≤ 'z')) = true := h
  simpa using h'

/-! ### the executable instance generated from the Rust std tables meets the two ASCII facts -/

theorem charOpsImpl_ascii_table :
    ∀ n, n < 128 → charOpsImpl.toLower (Char.ofNat n) = [asciiLowerChar (Char.ofNat n)] := by
  decide +kernel

theorem charOpsImpl_ascii (c : Char) (h : c ≤ 'z') : charOpsImpl.toLower c = [asciiLowerChar c] := by
  have h5 : 'z'.toNat = 122 := by decide
  rw [char_le_iff_toNat] at h
  have := charOpsImpl_ascii_table c.toNat (by omega)
  rwa [Char.ofNat_toNat] at this

theorem charOpsImpl_fix (c : Char) (h : ('a' ≤ c ∧ c ≤ 'z') ∨ c = '\'') :
    charOpsImpl.toLower c = [c] := by
  have hk : isKeywordChar c = true := by
    simpa only [isKeywordChar, Bool.or_eq_true, Bool.and_eq_true, decide_eq_true_eq, beq_iff_eq] using h
  have hz : c ≤ 'z' := by
    rcases h with h | h
    · exact h.2
    · subst h; decide
  rw [charOpsImpl_ascii c hz, asciiLowerChar_of_not_upper (not_upper_of_isKeywordChar hk)]

theorem charOpsImpl_up (c : Char) (h : 'A' ≤ c ∧ c ≤ 'Z') :
    charOpsImpl.toLower c = [Char.ofNat (c.toNat + 32)] := by
  have hz : c ≤ 'z' := by
    have h3 : 'Z'.toNat = 90 := by decide
    have h5 : 'z'.toNat = 122 := by decide
    simp only [char_le_iff_toNat] at *
    omega
  rw [charOpsImpl_ascii c hz, asciiLowerChar_of_upper h]

end Keys

end Rrss
