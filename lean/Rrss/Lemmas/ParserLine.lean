/-
  Rrss.Lemmas.ParserLine — from the token-level invariant (Rrss/Lemmas/ParserSuffix*.lean) to the
  source-level entry points `runOn`/`parseProgram`, and from error locations to true source lines
  (with the lexer theorems of Rrss/Lemmas/LexerC12.lean). Also kernel-evaluable observation
  functions for the non-vacuity examples.
-/
import Rrss.Lemmas.ParserSuffixStmt
import Rrss.Lemmas.LexerC12
import Rrss.Lemmas.LexerEval
import Rrss.ParseErrorDisplay
namespace Rrss
namespace Parser

open Lexer Spec

set_option linter.unusedVariables false
set_option linter.unusedSectionVars false

variable {N : Type} {α : Type} [CharOps] [NumOps N]

theorem runOn_ok {entry : Rec N → P N α} {kw : List (Str × TK)} {src : Str} {a : α}
    (h : runOn entry kw src = .ok a) :
    ∃ raw st', lexAll kw src = .ok raw ∧
      entry (parser ((skipComments raw).length + 2)) (initState src raw) = .ok (a, st') := by
  unfold runOn at h
  cases hl : lexAll (N := N) kw src with
  | ok raw =>
    rw [hl] at h
    simp only at h
    cases hp : entry (parser ((initState src raw).toks.length + 2)) (initState src raw) with
    | ok r =>
      obtain ⟨a', st'⟩ := r
      rw [hp] at h
      cases h
      exact ⟨raw, st', rfl, hp⟩
    | _ => rw [hp] at h; cases h
  | _ => rw [hl] at h; cases h

theorem runOn_err {entry : Rec N → P N α} {kw : List (Str × TK)} {src : Str} {e : ParseErr N}
    (h : runOn entry kw src = .err e) :
    ∃ raw, lexAll kw src = .ok raw ∧
      entry (parser ((skipComments raw).length + 2)) (initState src raw) = .err e := by
  unfold runOn at h
  cases hl : lexAll (N := N) kw src with
  | ok raw =>
    rw [hl] at h
    simp only at h
    cases hp : entry (parser ((initState src raw).toks.length + 2)) (initState src raw) with
    | ok r => obtain ⟨a', st'⟩ := r; rw [hp] at h; cases h
    | err e' => rw [hp] at h; cases h; exact ⟨raw, rfl, hp⟩
    | _ => rw [hp] at h; cases h
  | _ => rw [hl] at h; cases h

/-- the line `Display for ParseError` prints is the true line of the place the error points to -/
theorem errOk_line_true {kw : List (Str × TK)} {src : Str} {raw : List (Tok N)} {e : ParseErr N}
    (hlen : ulen src < 2 ^ 32) (hnl : CharOps.isWhitespace '\n' = true)
    (hlex : lexAll kw src = .ok raw)
    (he : ErrOk (skipComments raw) ⟨1, 0, 0⟩ (eofSnap src raw) e) :
    (∃ pre t post, skipComments raw = pre ++ t :: post ∧ e.loc = .token t ∧
        e.line = (trueLoc src t.start).line) ∨
    (∃ ln, e.loc = .line ln ∧ e.line = ln ∧
      (ln = (trueLoc src (ulen src)).line ∨
       (skipComments raw = [] ∧ ln = 1) ∨
       ∃ t, (skipComments raw).getLast? = some t ∧ t.start + ulen t.spelling ≤ t.after.idx ∧
         t.after.idx ≤ ulen src ∧ ln = (trueLoc src t.after.idx).line)) := by
  have hsub : ∀ t, t ∈ skipComments raw → t ∈ raw := fun t ht => (List.mem_filter.mp ht).1
  rcases he with ⟨pre, t, post, h1, h2⟩ | ⟨ln, h1, h2⟩
  · refine Or.inl ⟨pre, t, post, h1, h2, ?_⟩
    have ht : t ∈ raw := hsub t (by rw [h1]; simp)
    simp only [ParseErr.line, h2, ErrLoc.lineNo]
    rw [c12_start_pos hlen hnl hlex t ht]
  · refine Or.inr ⟨ln, h1, by simp only [ParseErr.line, h1, ErrLoc.lineNo], ?_⟩
    rcases h2 with h2 | ⟨h2, h3⟩ | ⟨t, h2, h3⟩
    · have := (c01_eofSnap hlen hlex).2.2 hnl
      exact Or.inl (by rw [h2]; exact congrArg Loc.line this)
    · exact Or.inr (Or.inl ⟨h2, h3⟩)
    · have ht : t ∈ raw := hsub t (List.mem_of_getLast? h2)
      have hs := c01_snapshots hlen hlex t ht
      have hp := c12_snapshot_pos hlen hnl hlex t ht
      exact Or.inr (Or.inr ⟨t, h2, hs.2.2.1, hs.2.1, by rw [h3]; exact congrArg Loc.line hp⟩)

/-- on an empty token list `Parser::parse` accepts -/
theorem program_nil (n : Nat) {st : PState N} (h : st.toks = []) :
    ∃ a, (parser (n + 1) : Rec N).program st = .ok (a, st) := by
  refine ⟨⟨[]⟩, ?_⟩
  show parseProgramBody (parser n) st = _
  unfold parseProgramBody topLoopBody
  simp only [P.bind_eq, P.bind, current, h, List.head?_nil]
  rfl

/-! ### kernel-evaluable observations (for examples) -/

/-- byte offset of the token an error names -/
def ParseErr.tokStart (e : ParseErr N) : Option Nat :=
  match e.loc with
  | .token t => some t.start
  | .line _ => none

/-- lex with fuel `n`, parse, and observe an error: variant name of the code, reported line,
    byte offset of the named token (if any) -/
def parseErrViewF (kw : List (Str × TK)) (n : Nat) (src : Str) : Option (Str × Nat × Option Nat) :=
  match lexLoopF (N := N) kw n (LexState.init src) with
  | .ok raw =>
    match (parser ((skipComments raw).length + 2)).program (initState src raw) with
    | .err e => some (e.codeName, e.line, e.tokStart)
    | _ => none
  | _ => none

theorem parseProgram_of_errViewF {kw : List (Str × TK)} {n : Nat} {src : Str}
    {v : Str × Nat × Option Nat} (h : parseErrViewF (N := N) kw n src = some v) :
    ∃ e : ParseErr N, parseProgram kw src = .err e ∧ (e.codeName, e.line, e.tokStart) = v := by
  unfold parseErrViewF at h
  split at h
  · next raw hl =>
    have hl' : lexAll kw src = .ok raw := lexLoopF_sound kw n _ raw hl
    split at h
    · next e he =>
      refine ⟨e, ?_, by simpa using h⟩
      unfold parseProgram runOn
      simp only [hl']
      have hlen : (initState src raw).toks.length = (skipComments raw).length := rfl
      rw [hlen, he]
    · cases h
  · cases h

/-- lex with fuel `n`, parse, and observe acceptance: the number of blocks -/
def parseOkViewF (kw : List (Str × TK)) (n : Nat) (src : Str) : Option Nat :=
  match lexLoopF (N := N) kw n (LexState.init src) with
  | .ok raw =>
    match (parser ((skipComments raw).length + 2)).program (initState src raw) with
    | .ok (p, _) => some p.code.length
    | _ => none
  | _ => none

theorem parseProgram_of_okViewF {kw : List (Str × TK)} {n : Nat} {src : Str} {v : Nat}
    (h : parseOkViewF (N := N) kw n src = some v) :
    ∃ p : Program N, parseProgram kw src = .ok p ∧ p.code.length = v := by
  unfold parseOkViewF at h
  split at h
  · next raw hl =>
    have hl' : lexAll kw src = .ok raw := lexLoopF_sound kw n _ raw hl
    split at h
    · next p st' he =>
      refine ⟨p, ?_, by simpa using h⟩
      unfold parseProgram runOn
      simp only [hl']
      have hlen : (initState src raw).toks.length = (skipComments raw).length := rfl
      rw [hlen, he]
    · cases h
  · cases h

end Parser
end Rrss
