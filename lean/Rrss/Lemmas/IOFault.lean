/-
  Rrss.Lemmas.IOFault — a run against a failing stream simulates the fault-free run up to the
  fault. Generic part: a fault scenario `Fault` (sync relation `S` between the environment of
  the faulty run and that of the fault-free run, after-fault relation `B`, the error `err`),
  the simulation predicate `Sim`, its closure under the monad operations, and one lemma per
  interpreter function; `interp_sim` by induction on fuel. The two scenarios (writer budget,
  reader fault position) are instantiated at the end.
-/
import Rrss.Lemmas.IOTrace
namespace Rrss
open Env Interp

set_option linter.unusedSectionVars false
variable {N : Type}

/-- a fault scenario -/
structure Fault (N : Type) where
  /-- the two runs are in lock-step: `S faulty faultFree` -/
  S : Env N → Env N → Prop
  /-- the faulty run has hit the fault (and stopped there); the fault-free run goes on -/
  B : Env N → Env N → Prop
  /-- the error the fault raises -/
  err : RtErr N

/-- the outcome of the faulty run after the fault: the fault's error, or (inside a write
    traversal, where `subscriptVal` captures errors) an `ok` value that carries it -/
def Carry {α : Type} (F : Fault N) (C : α → Prop) : Outcome (RtErr N) α → Prop
  | .ok a => C a
  | .err e => e = F.err
  | _ => False

/-- no `ok` value carries an error -/
abbrev NoC {α : Type} : α → Prop := fun _ => False

/-- `m` run from environments in sync either stays in sync with equal results, or the faulty run
    faults inside `m`. (Bundled with `Steps`, which the after-fault part of `bind` needs.) -/
structure Sim {α : Type} (F : Fault N) (C : α → Prop) (m : M N α) : Prop where
  steps : M.Steps m
  sim : ∀ e1 e2, F.S e1 e2 →
    ((m e1).1 = (m e2).1 ∧ F.S (m e1).2 (m e2).2) ∨ (F.B (m e1).2 (m e2).2 ∧ Carry F C (m e1).1)

/-- `m` does not look at the fault configuration -/
def Indep {α : Type} (m : M N α) : Prop :=
  ∀ (e : Env N) b r, m { e with wbudget := b, readFault := r } =
    ((m e).1, { (m e).2 with wbudget := b, readFault := r })

/-- what a scenario has to satisfy -/
structure Fault.Laws (F : Fault N) : Prop where
  B_step : ∀ {e1 e2 e2'}, F.B e1 e2 → Env.Le e2 e2' → F.B e1 e2'
  indep : ∀ {α : Type} {m : M N α}, Indep m → M.Frame m → ∀ e1 e2, F.S e1 e2 →
    (m e1).1 = (m e2).1 ∧ F.S (m e1).2 (m e2).2
  fields : ∀ {e1 e2}, F.S e1 e2 → e1.scopes = e2.scopes ∧ e1.cap = e2.cap ∧ e1.steps = e2.steps
  output : ∀ text, Sim F NoC (output text : M N Unit)
  inputLine : Sim F NoC (inputLine : M N Str)

theorem M.bind_run {α β : Type} (x : M N α) (f : α → M N β) (e : Env N) :
    (x >>= f) e = match (x e).1 with
      | .ok a => f a (x e).2
      | .err er => (.err er, (x e).2)
      | .crash s => (.crash s, (x e).2)
      | .fuel => (.fuel, (x e).2)
      | .resource => (.resource, (x e).2) := by
  show M.bind x f e = _
  unfold M.bind
  rcases x e with ⟨r, e'⟩
  cases r <;> rfl

namespace Sim
variable {F : Fault N} {α β : Type}

theorem of_indep (L : F.Laws) {C : α → Prop} {m : M N α} (hi : Indep m) (hf : M.Frame m) :
    Sim F C m :=
  ⟨hf.steps, fun e1 e2 h => Or.inl (L.indep hi hf e1 e2 h)⟩

theorem weaken {C : α → Prop} {m : M N α} (h : Sim F NoC m) : Sim F C m :=
  ⟨h.steps, fun e1 e2 hs => (h.sim e1 e2 hs).imp id fun ⟨hb, hc⟩ => ⟨hb, by
    revert hc; cases (m e1).1 <;> simp [Carry]⟩⟩

theorem bind (L : F.Laws) {Cα : α → Prop} {Cβ : β → Prop} {x : M N α} {f : α → M N β}
    (hx : Sim F Cα x) (hf : ∀ a, Sim F Cβ (f a))
    (hc : ∀ a, Cα a → ∀ e, (f a e).2 = e ∧ Carry F Cβ (f a e).1) : Sim F Cβ (x >>= f) := by
  refine ⟨M.Steps.bind hx.steps fun a => (hf a).steps, ?_⟩
  intro e1 e2 hs
  have hx' := hx.sim e1 e2 hs
  rw [M.bind_run, M.bind_run]
  generalize x e1 = p1 at hx' ⊢
  generalize x e2 = p2 at hx' ⊢
  obtain ⟨r1, e1'⟩ := p1
  obtain ⟨r2, e2'⟩ := p2
  simp only at hx' ⊢
  rcases hx' with ⟨hr, hs'⟩ | ⟨hb, hc'⟩
  · -- x stayed in sync
    subst hr
    cases r1 with
    | ok a => exact (hf a).sim e1' e2' hs'
    | err er => exact Or.inl ⟨rfl, hs'⟩
    | crash s => exact Or.inl ⟨rfl, hs'⟩
    | fuel => exact Or.inl ⟨rfl, hs'⟩
    | resource => exact Or.inl ⟨rfl, hs'⟩
  · -- x faulted: the faulty run stops, the other one may go on
    right
    have hb2 : F.B e1' (match r2 with
        | .ok a => f a e2' | .err er => (.err er, e2') | .crash s => (.crash s, e2')
        | .fuel => (.fuel, e2') | .resource => (.resource, e2')).2 := by
      cases r2 with
      | ok a => exact L.B_step hb ((hf a).steps.le e2')
      | err er => exact hb
      | crash s => exact hb
      | fuel => exact hb
      | resource => exact hb
    cases r1 with
    | ok a =>
      obtain ⟨he, hcar⟩ := hc a hc' e1'
      simp only
      rw [he]; exact ⟨hb2, hcar⟩
    | err er => exact ⟨hb2, hc'⟩
    | crash s => exact absurd hc' (by simp [Carry])
    | fuel => exact absurd hc' (by simp [Carry])
    | resource => exact absurd hc' (by simp [Carry])

theorem bind_strict (L : F.Laws) {Cβ : β → Prop} {x : M N α} {f : α → M N β}
    (hx : Sim F NoC x) (hf : ∀ a, Sim F Cβ (f a)) : Sim F Cβ (x >>= f) :=
  bind L hx hf fun _ h => h.elim

theorem pure (L : F.Laws) {C : α → Prop} (a : α) : Sim F C (Pure.pure a : M N α) :=
  of_indep L (fun _ _ _ => rfl) ⟨fun _ => Env.IOEq.rfl'⟩
theorem fail (L : F.Laws) {C : α → Prop} (er : RtErr N) : Sim F C (M.fail er : M N α) :=
  of_indep L (fun _ _ _ => rfl) ⟨fun _ => Env.IOEq.rfl'⟩
theorem crash (L : F.Laws) {C : α → Prop} (s : Site) : Sim F C (M.crash s : M N α) :=
  of_indep L (fun _ _ _ => rfl) ⟨fun _ => Env.IOEq.rfl'⟩
theorem outOfFuel (L : F.Laws) {C : α → Prop} : Sim F C (M.outOfFuel : M N α) :=
  of_indep L (fun _ _ _ => rfl) ⟨fun _ => Env.IOEq.rfl'⟩
theorem outOfResource (L : F.Laws) {C : α → Prop} : Sim F C (M.outOfResource : M N α) :=
  of_indep L (fun _ _ _ => rfl) ⟨fun _ => Env.IOEq.rfl'⟩
theorem liftV (L : F.Laws) {C : α → Prop} (r : VRes N α) : Sim F C (M.liftV r : M N α) :=
  of_indep L (fun _ _ _ => by unfold M.liftV; cases r <;> rfl)
    ⟨fun _ => by unfold M.liftV; cases r <;> exact Env.IOEq.rfl'⟩
theorem liftE (L : F.Laws) {C : α → Prop} (r : Except (RtErr N) α) : Sim F C (M.liftE r : M N α) :=
  of_indep L (fun _ _ _ => by unfold M.liftE; cases r <;> rfl)
    ⟨fun _ => by unfold M.liftE; cases r <;> exact Env.IOEq.rfl'⟩
theorem assert (L : F.Laws) {C : Unit → Prop} (s : Site) (b : Bool) :
    Sim F C (M.assert s b : M N Unit) := by
  unfold M.assert; split
  · exact pure L _
  · exact crash L _

/-- `M.get` hands out the environment itself, which differs between the two runs; what is done
    with it must not depend on the difference -/
theorem bind_get (_L : F.Laws) {C : β → Prop} {f : Env N → M N β}
    (hf : ∀ e1 e2, F.S e1 e2 → f e1 = f e2) (h : ∀ e, Sim F C (f e)) :
    Sim F C (M.get >>= f) := by
  refine ⟨M.Steps.bind M.Steps.get fun a => (h a).steps, ?_⟩
  intro e1 e2 hs
  show ((f e1 e1).1 = (f e2 e2).1 ∧ F.S (f e1 e1).2 (f e2 e2).2) ∨
    (F.B (f e1 e1).2 (f e2 e2).2 ∧ Carry F C (f e1 e1).1)
  rw [hf e1 e2 hs]
  exact (h e2).sim e1 e2 hs

end Sim

/-! ### the primitives that do not touch the streams -/

section prims
variable [CharOps] [NumOps N]

namespace Env

theorem tick_indep : Indep (tick : M N Unit) := by
  intro e b r; rcases e with ⟨sc, la, inp, ha, rf, ou, wb, stp, cp⟩; unfold tick; dsimp only; cases stp <;> rfl
theorem pushScope_indep : Indep (pushScope : M N Unit) := fun _ _ _ => rfl
theorem popScope_indep : Indep (popScope : M N Unit) := by
  intro e b r; rcases e with ⟨sc, la, inp, ha, rf, ou, wb, stp, cp⟩; unfold popScope; dsimp only
  rcases sc with _ | ⟨s1, _ | ⟨s2, rest⟩⟩ <;> rfl
theorem lookupVar_indep (n : VarName) : Indep (lookupVar n : M N (Val N)) := by
  intro e b r; rcases e with ⟨sc, la, inp, ha, rf, ou, wb, stp, cp⟩; unfold lookupVar; dsimp only; cases lookupVarIn n sc <;> rfl
theorem lastAccess_indep : Indep (lastAccess : M N (Val N)) := by
  intro e b r; rcases e with ⟨sc, la, inp, ha, rf, ou, wb, stp, cp⟩; unfold lastAccess; dsimp only
  cases la with
  | none => rfl
  | some n => dsimp only; cases lookupVarIn n sc <;> rfl
theorem createFunc_indep (n : VarName) (ps : List VarName) (bd : Block N) :
    Indep (createFunc n ps bd : M N Unit) := by
  intro e b r; rcases e with ⟨sc, la, inp, ha, rf, ou, wb, stp, cp⟩; unfold createFunc; dsimp only
  cases sc with
  | nil => rfl
  | cons s rest => dsimp only; cases slookup n.key s <;> rfl
theorem pushFunctionScope_indep (args : List (VarName × Val N)) :
    Indep (pushFunctionScope args : M N Unit) := by
  intro e b r; unfold pushFunctionScope; cases functionScope args [] <;> rfl

end Env

namespace Interp

theorem resolve_indep (t : Target) : Indep (resolve t : M N (VarName × Val N)) := by
  intro e b r; rcases e with ⟨sc, la, inp, ha, rf, ou, wb, stp, cp⟩; unfold resolve
  cases t with
  | var name =>
    dsimp only
    cases lookupVarIn name sc with
    | ok v => rfl
    | error er =>
      dsimp only
      cases sc with
      | nil => rfl
      | cons s rest => dsimp only; cases slookup name.key s <;> rfl
  | pronoun =>
    dsimp only
    cases la with
    | none => rfl
    | some n => dsimp only; cases lookupVarIn n sc <;> rfl

theorem writeCell_indep (w : Writer N) (t : Target) (keys : List (Val N)) :
    Indep (writeCell w t keys) := by
  intro e b r; unfold writeCell
  rw [resolve_indep t e b r]
  rcases resolve t e with ⟨res, e'⟩
  cases res with
  | ok p =>
    obtain ⟨name, cur⟩ := p
    dsimp only
    rcases Val.updateAt e'.cap w keys cur with ⟨nv, status⟩
    cases status <;> rfl
  | err er => rfl
  | crash s => rfl
  | fuel => rfl
  | resource => rfl

end Interp

namespace Sim
variable {F : Fault N} {α : Type} {C : α → Prop}
theorem tick (L : F.Laws) {C} : Sim F C (Env.tick : M N Unit) := of_indep L Env.tick_indep Env.tick_frame
theorem pushScope (L : F.Laws) {C} : Sim F C (Env.pushScope : M N Unit) :=
  of_indep L Env.pushScope_indep Env.pushScope_frame
theorem popScope (L : F.Laws) {C} : Sim F C (Env.popScope : M N Unit) :=
  of_indep L Env.popScope_indep Env.popScope_frame
theorem lookupVar (L : F.Laws) {C} (n : VarName) : Sim F C (Env.lookupVar n : M N (Val N)) :=
  of_indep L (Env.lookupVar_indep n) (Env.lookupVar_frame n)
theorem lastAccess (L : F.Laws) {C} : Sim F C (Env.lastAccess : M N (Val N)) :=
  of_indep L Env.lastAccess_indep Env.lastAccess_frame
theorem createFunc (L : F.Laws) {C} (n : VarName) (ps : List VarName) (b : Block N) :
    Sim F C (Env.createFunc n ps b : M N Unit) :=
  of_indep L (Env.createFunc_indep n ps b) (Env.createFunc_frame n ps b)
theorem pushFunctionScope (L : F.Laws) {C} (args : List (VarName × Val N)) :
    Sim F C (Env.pushFunctionScope args : M N Unit) :=
  of_indep L (Env.pushFunctionScope_indep args) (Env.pushFunctionScope_frame args)
theorem writeCell (L : F.Laws) {C} (w : Writer N) (t : Target) (keys : List (Val N)) :
    Sim F C (Interp.writeCell w t keys) :=
  of_indep L (Interp.writeCell_indep w t keys) (Interp.writeCell_frame w t keys)
end Sim

/-! ### automation -/

/-- one step of `msim` (extended by `macro_rules` below) -/
syntax "msim1" : tactic
macro_rules | `(tactic| msim1) => `(tactic| with_reducible first
  | exact Sim.pure (by assumption) _ | exact Sim.fail (by assumption) _
  | exact Sim.crash (by assumption) _ | exact Sim.outOfFuel (by assumption)
  | exact Sim.outOfResource (by assumption) | exact Sim.liftV (by assumption) _
  | exact Sim.liftE (by assumption) _ | exact Sim.assert (by assumption) _ _
  | exact Sim.tick (by assumption) | exact Sim.pushScope (by assumption)
  | exact Sim.popScope (by assumption) | exact Sim.lookupVar (by assumption) _
  | exact Sim.lastAccess (by assumption) | exact Sim.createFunc (by assumption) _ _ _
  | exact Sim.pushFunctionScope (by assumption) _ | exact Sim.writeCell (by assumption) _ _ _
  | exact Fault.Laws.output (by assumption) _ | exact Fault.Laws.inputLine (by assumption)
  | assumption
  | apply Sim.bind_get (by assumption) (fun e1 e2 hs => by
      have hfld := Fault.Laws.fields (by assumption) hs
      simp only [hfld.1, hfld.2.1, hfld.2.2])
  | apply Sim.bind_strict (by assumption)
  | intro _
  | split
  | apply_assumption)
/-- prove `Sim F C m` for a `do` block made of known pieces -/
macro "msim" : tactic => `(tactic| repeat' msim1)

/-! ### every interpreter function -/

/-- a `WOut` carrying the fault's error -/
abbrev CW (F : Fault N) : WOut N → Prop := fun o => o.res = .error F.err
/-- a captured subscript error that is the fault's error -/
abbrev CE (F : Fault N) : Except (RtErr N) (Val N) → Prop := fun x => x = .error F.err

/-- the invariant on the interpreter one level down -/
structure RecSim (F : Fault N) (rec : Rec N) : Prop where
  evalExpr : ∀ e, Sim F NoC (rec.evalExpr e)
  evalPrimary : ∀ p, Sim F NoC (rec.evalPrimary p)
  writeExpr : ∀ w e, Sim F (CW F) (rec.writeExpr w e)
  writePrimary : ∀ w p, Sim F (CW F) (rec.writePrimary w p)
  execStmt : ∀ s st, Sim F NoC (rec.execStmt s st)

macro_rules | `(tactic| msim1) => `(tactic| with_reducible first
  | exact RecSim.evalExpr (by assumption) _ | exact RecSim.evalPrimary (by assumption) _
  | exact RecSim.writeExpr (by assumption) _ _ | exact RecSim.writePrimary (by assumption) _ _
  | exact RecSim.execStmt (by assumption) _ _)

namespace Interp
variable {F : Fault N} {rec : Rec N}

theorem applyOp_sim (L : F.Laws) (op : BinOp) (a : Val N) {b : M N (Val N)} (hb : Sim F NoC b) :
    Sim F NoC (applyOp op a b) := by
  unfold applyOp; msim

theorem foldOp_sim (L : F.Laws) (h : RecSim F rec) (op : BinOp) (a : Val N) (es : List (Expr N)) :
    Sim F NoC (foldOp rec op a es) := by
  induction es generalizing a with
  | nil => unfold foldOp; msim
  | cons e es ih =>
    unfold foldOp
    apply Sim.bind_strict L (applyOp_sim L op a (h.evalExpr e))
    intro a'; exact ih a'

theorem evalArgs_sim (L : F.Laws) (h : RecSim F rec) (es : List (Expr N)) :
    Sim F NoC (evalArgs rec es) := by
  induction es with
  | nil => unfold evalArgs; msim
  | cons e es ih => unfold evalArgs; msim

theorem execStmts_sim (L : F.Laws) (h : RecSim F rec) (ss : List (Stmt N)) (st : ExecSt N) :
    Sim F NoC (execStmts rec ss st) := by
  induction ss generalizing st with
  | nil => unfold execStmts; msim
  | cons s ss ih => unfold execStmts; msim

theorem evalIdent_sim (L : F.Laws) (i : Ident) : Sim F NoC (evalIdent i : M N (Val N)) := by
  unfold evalIdent; msim

end Interp

macro_rules | `(tactic| msim1) => `(tactic| with_reducible first
  | exact Interp.foldOp_sim (by assumption) (by assumption) _ _ _
  | exact Interp.evalArgs_sim (by assumption) (by assumption) _
  | exact Interp.execStmts_sim (by assumption) (by assumption) _ _
  | exact Interp.evalIdent_sim (by assumption) _
  | (apply Interp.applyOp_sim (by assumption)))

namespace Interp
variable {F : Fault N} {rec : Rec N}

theorem callFunction_sim (L : F.Laws) (h : RecSim F rec) (name : VarName) (args : List (Expr N)) :
    Sim F NoC (callFunction rec name args) := by
  unfold callFunction; msim

theorem evalPop_sim (L : F.Laws) (h : RecSim F rec) (arr : Primary N) :
    Sim F NoC (evalPop rec arr) := by
  unfold evalPop
  apply Sim.bind L (h.writePrimary _ arr)
  · intro out; msim
  · intro out hc e
    simp only [hc]
    exact ⟨rfl, rfl⟩

end Interp

macro_rules | `(tactic| msim1) => `(tactic| with_reducible first
  | exact Interp.callFunction_sim (by assumption) (by assumption) _ _
  | exact Interp.evalPop_sim (by assumption) (by assumption) _)

namespace Interp
variable {F : Fault N} {rec : Rec N}

theorem evalPrimary_sim (L : F.Laws) (h : RecSim F rec) (p : Primary N) :
    Sim F NoC (evalPrimary rec p) := by
  unfold evalPrimary; msim

theorem evalExpr_sim (L : F.Laws) (h : RecSim F rec) (e : Expr N) : Sim F NoC (evalExpr rec e) := by
  unfold evalExpr; msim

theorem evalLhs_sim (L : F.Laws) (h : RecSim F rec) (l : Lhs N) : Sim F NoC (evalLhs rec l) := by
  unfold evalLhs; msim

/-- `subscriptVal` is where an error — also the fault's error — is captured into a value -/
theorem subscriptVal_sim (_L : F.Laws) (h : RecSim F rec) (idx : Primary N) :
    Sim F (CE F) (subscriptVal rec idx) := by
  refine ⟨subscriptVal_steps ⟨fun e => (h.evalExpr e).steps, fun p => (h.evalPrimary p).steps,
    fun w e => (h.writeExpr w e).steps, fun w p => (h.writePrimary w p).steps,
    fun s st => (h.execStmt s st).steps⟩ idx, ?_⟩
  intro e1 e2 hs
  have hx := (h.evalPrimary idx).sim e1 e2 hs
  unfold subscriptVal
  generalize rec.evalPrimary idx e1 = p1 at hx ⊢
  generalize rec.evalPrimary idx e2 = p2 at hx ⊢
  obtain ⟨r1, e1'⟩ := p1
  obtain ⟨r2, e2'⟩ := p2
  simp only at hx
  rcases hx with ⟨hr, hs'⟩ | ⟨hb, hc⟩
  · subst hr
    cases r1 <;> exact Or.inl ⟨rfl, hs'⟩
  · right
    cases r1 with
    | ok a => exact absurd hc (by simp [Carry])
    | err er =>
      simp only [Carry] at hc
      subst hc
      cases r2 <;> exact ⟨hb, rfl⟩
    | crash s => exact absurd hc (by simp [Carry])
    | fuel => exact absurd hc (by simp [Carry])
    | resource => exact absurd hc (by simp [Carry])

theorem RecSim.recSteps (h : RecSim F rec) : RecSteps rec :=
  ⟨fun e => (h.evalExpr e).steps, fun p => (h.evalPrimary p).steps,
    fun w e => (h.writeExpr w e).steps, fun w p => (h.writePrimary w p).steps,
    fun s st => (h.execStmt s st).steps⟩

/-- the shape of every subscripted write: evaluate the subscript, give up on a captured error -/
theorem subscript_then (L : F.Laws) (h : RecSim F rec) (idx : Primary N)
    {k : Val N → M N (WOut N)} (hk : ∀ v, Sim F (CW F) (k v)) :
    Sim F (CW F) (do
      match ← subscriptVal rec idx with
      | .error e => pure { res := .error e }
      | .ok v => k v) := by
  apply Sim.bind L (subscriptVal_sim L h idx)
  · intro x; split
    · exact Sim.pure L _
    · exact hk _
  · intro x hx e
    simp only [CE] at hx
    subst hx
    exact ⟨rfl, rfl⟩

theorem writeSubscript_sim (L : F.Laws) (h : RecSim F rec) (w : Writer N) (p : Primary N)
    (keys : List (Val N)) : Sim F (CW F) (writeSubscript rec w p keys) := by
  fun_induction writeSubscript rec w p keys
  · msim
  · msim
  · rename_i ih; exact subscript_then L h _ ih
  · msim

theorem writePrimary_sim (L : F.Laws) (h : RecSim F rec) (w : Writer N) (p : Primary N) :
    Sim F (CW F) (writePrimary rec w p) := by
  unfold writePrimary
  split
  · msim
  · msim
  · msim
  · exact subscript_then L h _ fun v => writeSubscript_sim L h w _ _
  · msim
  · msim

theorem writeExpr_sim (L : F.Laws) (h : RecSim F rec) (w : Writer N) (e : Expr N) :
    Sim F (CW F) (writeExpr rec w e) := by
  unfold writeExpr; msim

theorem writeIdent_sim (L : F.Laws) (w : Writer N) (i : Ident) : Sim F (CW F) (writeIdent w i) := by
  unfold writeIdent; msim

theorem writeLhs_sim (L : F.Laws) (h : RecSim F rec) (w : Writer N) (l : Lhs N) :
    Sim F (CW F) (writeLhs rec w l) := by
  unfold writeLhs
  split
  · exact writeIdent_sim L w _
  · exact subscript_then L h _ fun v => writeSubscript_sim L h w _ _

/-- `fatal` turns a carried error into the error itself, at once -/
theorem fatal_sim (L : F.Laws) {o : M N (WOut N)} (h : Sim F (CW F) o) : Sim F NoC (fatal o) := by
  unfold fatal
  apply Sim.bind L h
  · intro out; msim
  · intro out hc e
    simp only [hc]
    exact ⟨rfl, rfl⟩

theorem loopGo_sim (L : F.Laws) (h : RecSim F rec) (invert : Bool) (cond : Expr N)
    (body : List (Stmt N)) (n : Nat) (st : ExecSt N) :
    Sim F NoC (loopGo rec invert cond body n st) := by
  induction n generalizing st with
  | zero => unfold loopGo; msim
  | succ n ih => unfold loopGo; msim

theorem execLoop_sim (L : F.Laws) (h : RecSim F rec) (invert : Bool) (cond : Expr N)
    (body : Block N) (st : ExecSt N) : Sim F NoC (execLoop rec invert cond body st) := by
  have := @loopGo_sim N _ _ F rec L h
  unfold execLoop; msim

theorem evalOpt_sim (L : F.Laws) (h : RecSim F rec) (o : Option (Expr N)) :
    Sim F NoC (evalOpt rec o) := by
  unfold evalOpt; msim

end Interp

macro_rules | `(tactic| msim1) => `(tactic| with_reducible first
  | exact Interp.evalLhs_sim (by assumption) (by assumption) _
  | exact Interp.writeLhs_sim (by assumption) (by assumption) _ _
  | exact Interp.writeIdent_sim (by assumption) _ _
  | exact Interp.execLoop_sim (by assumption) (by assumption) _ _ _ _
  | exact Interp.evalOpt_sim (by assumption) (by assumption) _
  | (apply Interp.fatal_sim (by assumption)))

namespace Interp
variable {F : Fault N} {rec : Rec N}

theorem execStmt_sim (L : F.Laws) (h : RecSim F rec) (s : Stmt N) (st : ExecSt N) :
    Sim F NoC (execStmt rec s st) := by
  unfold execStmt; msim

theorem bottom_sim (L : F.Laws) : RecSim F (bottom : Rec N) :=
  ⟨fun _ => Sim.outOfFuel L, fun _ => Sim.outOfFuel L, fun _ _ => Sim.outOfFuel L,
   fun _ _ => Sim.outOfFuel L, fun _ _ => Sim.outOfFuel L⟩

theorem mkRec_sim (L : F.Laws) (h : RecSim F rec) : RecSim F (mkRec rec) :=
  ⟨evalExpr_sim L h, evalPrimary_sim L h, writeExpr_sim L h, writePrimary_sim L h, execStmt_sim L h⟩

theorem interp_sim (L : F.Laws) (n : Nat) : RecSim F (interp n : Rec N) := by
  induction n with
  | zero => exact bottom_sim L
  | succ n ih => exact mkRec_sim L ih

theorem execBlocks_sim (L : F.Laws) (h : RecSim F rec) (bs : List (Block N)) (st : ExecSt N) :
    Sim F NoC (execBlocks rec bs st) := by
  induction bs generalizing st with
  | nil => unfold execBlocks; msim
  | cons b bs ih => unfold execBlocks; msim

theorem execProgram_sim (L : F.Laws) (n : Nat) (p : Program N) :
    Sim F NoC (execProgram n p) := by
  have := @execBlocks_sim N _ _ F _ L (interp_sim L n)
  unfold execProgram; msim

end Interp

/-! ### scenario 1: a writer that accepts `T - out.length` more bytes -/

/-- The faulty run has a writer that fails once `T` bytes in total have been written; the other
    run's writer never fails. In sync: same environment except for the budget, which is what is
    left of `T`. After the fault: the faulty run has written exactly the first `T` bytes of what
    the other run has written so far, its writer is dead, and it has consumed no more input than
    the other. -/
def writeScenario (T : Nat) : Fault N where
  S e1 e2 := e2.wbudget = none ∧ e2.out.length ≤ T ∧
    e1 = { e2 with wbudget := some (T - e2.out.length) }
  B e1 e2 := e2.wbudget = none ∧ e1.wbudget = some 0 ∧ e1.out = e2.out.take T ∧
    T < e2.out.length ∧ e2.input <:+ e1.input ∧ e1.handed ≤ e2.handed
  err := .io (str% "verif write fault")

theorem writeScenario_laws (T : Nat) : (writeScenario T : Fault N).Laws where
  B_step := by
    intro e1 e2 e2' ⟨h1, h2, h3, h4, h5, h6⟩ hle
    refine ⟨hle.wnone h1, h2, ?_, Nat.lt_of_lt_of_le h4 hle.out.length_le,
      List.IsSuffix.trans hle.input h5, Nat.le_trans h6 hle.handed⟩
    obtain ⟨t, ht⟩ := hle.out
    rw [h3, ← ht, List.take_append_of_le_length (Nat.le_of_lt h4)]
  indep := by
    intro α m hi hf e1 e2 ⟨h1, h2, h3⟩
    have hfr := hf.eq e2
    have := hi e2 (some (T - e2.out.length)) e2.readFault
    have he : ({ e2 with wbudget := some (T - e2.out.length), readFault := e2.readFault } : Env N)
        = e1 := by rw [h3]
    rw [he] at this
    rw [this]
    refine ⟨rfl, by rw [hfr.wbudget]; exact h1, by rw [hfr.out]; exact h2, ?_⟩
    simp only [hfr.out, hfr.readFault]
  fields := by
    intro e1 e2 ⟨_, _, h3⟩
    rw [h3]; exact ⟨rfl, rfl, rfl⟩
  output := by
    intro text
    refine ⟨output_steps text, ?_⟩
    intro e1 e2 ⟨h1, h2, h3⟩
    subst h3
    rcases e2 with ⟨sc, la, inp, ha, rf, ou, wb, stp, cp⟩
    simp only at h1 h2
    subst h1
    unfold output
    simp only
    split
    · rename_i hfit
      left
      refine ⟨rfl, rfl, ?_, ?_⟩
      · simp only [List.length_append] at hfit ⊢; omega
      · simp only [List.length_append]
        congr 2; omega
    · rename_i hfit
      right
      refine ⟨⟨rfl, rfl, ?_, ?_, List.suffix_refl _, Nat.le_refl _⟩, rfl⟩
      · simp only [List.take_append, List.take_of_length_le h2]
      · simp only [List.length_append] at hfit ⊢; omega
  inputLine := by
    refine ⟨inputLine_steps, ?_⟩
    intro e1 e2 ⟨h1, h2, h3⟩
    subst h3
    left
    unfold inputLine
    simp only
    split
    · exact ⟨rfl, h1, h2, rfl⟩
    · split
      · exact ⟨rfl, h1, h2, rfl⟩
      · exact ⟨rfl, h1, h2, rfl⟩

/-! ### scenario 2: a reader that fails when asked for line `j` -/

/-- The faulty run's reader fails at its `j`-th line request; the other run's reader never
    fails. In sync: same environment except for the fault position, and fewer than or exactly
    `j` lines handed out. After the fault: the faulty run stopped with `j` lines handed out and
    unread input left; the other run has read at least that line and written at least what the
    faulty run has written. -/
def readScenario (j : Nat) : Fault N where
  S e1 e2 := e2.readFault = none ∧ e2.handed ≤ j ∧ e1 = { e2 with readFault := some j }
  B e1 e2 := e2.readFault = none ∧ e1.out <+: e2.out ∧ e1.handed = j ∧ j < e2.handed ∧
    e1.input ≠ [] ∧ e2.input <:+ (takeLine e1.input).2
  err := .io (str% "verif read fault")

theorem readScenario_laws (j : Nat) : (readScenario j : Fault N).Laws where
  B_step := by
    intro e1 e2 e2' ⟨h1, h2, h3, h4, h5, h6⟩ hle
    exact ⟨hle.readFault.trans h1, List.IsPrefix.trans h2 hle.out, h3,
      Nat.lt_of_lt_of_le h4 hle.handed, h5, List.IsSuffix.trans hle.input h6⟩
  indep := by
    intro α m hi hf e1 e2 ⟨h1, h2, h3⟩
    have hfr := hf.eq e2
    have := hi e2 e2.wbudget (some j)
    have he : ({ e2 with wbudget := e2.wbudget, readFault := some j } : Env N) = e1 := by rw [h3]
    rw [he] at this
    rw [this]
    refine ⟨rfl, by rw [hfr.readFault]; exact h1, by rw [hfr.handed]; exact h2, ?_⟩
    simp only [hfr.wbudget]
  fields := by
    intro e1 e2 ⟨_, _, h3⟩
    rw [h3]; exact ⟨rfl, rfl, rfl⟩
  output := by
    intro text
    refine ⟨output_steps text, ?_⟩
    intro e1 e2 ⟨h1, h2, h3⟩
    subst h3
    left
    unfold output
    simp only
    split
    · exact ⟨rfl, h1, h2, rfl⟩
    · split
      · exact ⟨rfl, h1, h2, rfl⟩
      · exact ⟨rfl, h1, h2, rfl⟩
  inputLine := by
    refine ⟨inputLine_steps, ?_⟩
    intro e1 e2 ⟨h1, h2, h3⟩
    subst h3
    rcases e2 with ⟨sc, la, inp, ha, rf, ou, wb, stp, cp⟩
    simp only at h1 h2
    subst h1
    unfold inputLine
    cases inp with
    | nil => exact Or.inl ⟨rfl, rfl, h2, rfl⟩
    | cons c cs =>
      simp only
      by_cases hj : j = ha
      · subst hj
        right
        simp only [if_true, reduceCtorEq, if_false]
        exact ⟨⟨rfl, List.prefix_refl _, rfl, Nat.lt_succ_self _, by simp, List.suffix_refl _⟩, rfl⟩
      · left
        have : ¬ (some j = some ha) := by simpa using hj
        simp only [this, if_false, reduceCtorEq]
        refine ⟨trivial, rfl, ?_, rfl⟩
        show ha + 1 ≤ j
        omega

end prims

end Rrss
