/-
  Rrss.Lemmas.LintDigits — helper lemmas for C18 (constant-assignment lint).
-/
import Rrss.Lint
import Rrss.Poetic
import Rrss.Spec.PoeticDigits
import Rrss.Spec.NestedStmts
import Rrss.Spec.PoeticString
import Rrss.Lemmas.FoldSound
namespace Rrss
namespace LintDigits
open Lint Spec.PoeticDigits

/-! ### printed numbers -/

/-- a character of a printed number: period or ASCII digit -/
def isPoeticChar (c : Char) : Bool := c == '.' || isAsciiDigit c

theorem hasPoeticSpelling_nil : hasPoeticSpelling [] = true := rfl

theorem hasPoeticSpelling_cons (c : Char) (cs : Str) :
    hasPoeticSpelling (c :: cs) = (isPoeticChar c && hasPoeticSpelling cs) := by
  simp [hasPoeticSpelling, isPoeticChar]

theorem digitOf_eq (c : Char) : digitOf c = c.toNat - 48 := rfl

theorem digitOf_le_of_poetic {c : Char} (h : isPoeticChar c = true) (hd : c ≠ '.') :
    digitOf c ≤ 9 ∧ 48 ≤ c.toNat := by
  simp [isPoeticChar, isAsciiDigit, hd] at h
  rw [digitOf_eq]
  omega

/-- length of the word for a character -/
def wordLenOf (c : Char) : Nat := if digitOf c = 0 then 10 else digitOf c

theorem wordLenOf_pos (c : Char) : 0 < wordLenOf c := by
  unfold wordLenOf; split <;> omega

theorem wordLenOf_mod {c : Char} (h : digitOf c ≤ 9) : wordLenOf c % 10 = digitOf c := by
  unfold wordLenOf; split <;> omega

theorem digitWord_eq (c : Char) : digitWord c = List.replicate (wordLenOf c) '*' := rfl

/-! ### scanning a spelling -/

theorem flush_pos {m : Nat} (h : 0 < m) : flush m = [.word m] := by
  cases m with
  | zero => omega
  | succ m => rfl

theorem scan_replicate (k : Nat) (rest : Str) (cur : Nat) :
    scan (List.replicate k '*' ++ rest) cur = scan rest (cur + k) := by
  induction k generalizing cur with
  | zero => simp
  | succ k ih =>
    simp only [List.replicate_succ, List.cons_append, scan, if_true]
    rw [ih]
    congr 1
    omega

theorem scan_spellSpaced_flush (t : Str) (k : Nat) :
    scan (spellSpaced t) k = flush k ++ scan (spellSpaced t) 0 := by
  cases t with
  | nil => simp [spellSpaced, scan, flush]
  | cons c cs =>
    by_cases hc : c = '.'
    · subst hc
      simp [spellSpaced, scan, flush]
    · simp [spellSpaced, scan, flush, hc]

/-- token of a character of a printed number -/
def pieceOf (c : Char) : Piece := if c = '.' then .dot else .word (wordLenOf c)

theorem scan_spellSpaced (t : Str) : scan (spellSpaced t) 0 = t.map pieceOf := by
  induction t with
  | nil => rfl
  | cons c cs ih =>
    have hcons : spellSpaced (c :: cs) =
        (if c = '.' then ['.'] else ' ' :: digitWord c) ++ spellSpaced cs := by
      simp [spellSpaced]
    rw [hcons]
    by_cases hc : c = '.'
    · subst hc
      simp only [if_true, List.cons_append, List.nil_append, List.map_cons, pieceOf]
      rw [scan]
      simp [flush, ih]
    · simp only [hc, if_false, List.cons_append, List.map_cons, pieceOf]
      rw [scan]
      simp only [show (' ' = '*') = False by decide, show (' ' = '.') = False by decide, if_false,
        flush, List.nil_append]
      rw [digitWord_eq, scan_replicate, scan_spellSpaced_flush, flush_pos (by have := wordLenOf_pos c; omega), ih]
      simp

theorem pieces_spell (t : Str) : pieces (spell t) = t.map pieceOf := by
  cases t with
  | nil => rfl
  | cons c cs =>
    unfold pieces
    rw [spell]
    by_cases hc : c = '.'
    · subst hc
      simp only [if_true, List.cons_append, List.nil_append, List.map_cons, pieceOf]
      rw [scan]
      simp [flush, scan_spellSpaced]
    · simp only [hc, if_false, List.map_cons, pieceOf]
      rw [digitWord_eq, scan_replicate, scan_spellSpaced_flush, flush_pos (by have := wordLenOf_pos c; omega),
        scan_spellSpaced]
      simp

theorem read_pieceOf {c : Char} (h : isPoeticChar c = true) :
    (pieceOf c).read = if c = '.' then none else some (digitOf c) := by
  by_cases hc : c = '.'
  · simp [pieceOf, hc, Piece.read]
  · simp only [pieceOf, hc, if_false, Piece.read]
    rw [wordLenOf_mod (digitOf_le_of_poetic h hc).1]

/-- **spec-level round trip**: reading the spelling of a printed number gives back its digits and
    periods. -/
theorem reading_spell (t : Str) (h : hasPoeticSpelling t = true) : reading (spell t) = ofPrinted t := by
  unfold reading ofPrinted
  rw [pieces_spell, List.map_map]
  apply List.map_congr_left
  intro c hc
  have : isPoeticChar c = true := by
    simp only [hasPoeticSpelling, List.all_eq_true] at h
    exact h c hc
  simp [read_pieceOf this]

theorem digits_ofPrinted_le (t : Str) (h : hasPoeticSpelling t = true) :
    ∀ d, d ∈ digits (ofPrinted t) → d ≤ 9 := by
  induction t with
  | nil => intro d hd; simp [ofPrinted, digits] at hd
  | cons c cs ih =>
    rw [hasPoeticSpelling_cons, Bool.and_eq_true] at h
    intro d hd
    by_cases hc : c = '.'
    · simp only [ofPrinted, List.map_cons, hc, if_true, digits] at hd
      exact ih h.2 d hd
    · simp only [ofPrinted, List.map_cons, hc, if_false, digits, List.mem_cons] at hd
      rcases hd with rfl | hd
      · exact (digitOf_le_of_poetic h.1 hc).1
      · exact ih h.2 d hd

/-! ### the model's template machinery computes the spec spelling -/

/-- template item of a character of a printed number -/
def itemOf (c : Char) : TItem := if c = '.' then .dot else .word (c.toNat - 48)

/-- C18.2 core: on a printed number the digit-underflow site of `templateOf` is unreachable. -/
theorem templateOf_ok (t : Str) (h : hasPoeticSpelling t = true) : templateOf t = .ok (t.map itemOf) := by
  induction t with
  | nil => rfl
  | cons c cs ih =>
    rw [hasPoeticSpelling_cons, Bool.and_eq_true] at h
    rw [templateOf, ih h.2]
    by_cases hc : c = '.'
    · simp [hc, itemOf]
    · have := (digitOf_le_of_poetic h.1 hc).2
      have h48 : ¬ c.toNat < 48 := by omega
      simp [hc, h48, itemOf]

theorem mod10_eq (c : Char) : mod10 (c.toNat - 48) = wordLenOf c := rfl

theorem templateText_false (t : Str) : templateText (t.map itemOf) false = spellSpaced t := by
  induction t with
  | nil => rfl
  | cons c cs ih =>
    have hcons : spellSpaced (c :: cs) =
        (if c = '.' then ['.'] else ' ' :: digitWord c) ++ spellSpaced cs := by
      simp [spellSpaced]
    rw [hcons, List.map_cons]
    by_cases hc : c = '.'
    · simp [hc, itemOf, templateText, ← ih]
    · simp [hc, itemOf, templateText, ← ih, mod10_eq, digitWord_eq]

theorem templateText_true (t : Str) : templateText (t.map itemOf) true = spell t := by
  cases t with
  | nil => rfl
  | cons c cs =>
    rw [spell, List.map_cons]
    by_cases hc : c = '.'
    · simp [hc, itemOf, templateText, templateText_false]
    · simp [hc, itemOf, templateText, templateText_false, mod10_eq, digitWord_eq]

/-- exact value of `numericPayload` (never a crash): the spelling if there is one -/
theorem numericPayload_eq (pre var t : Str) :
    numericPayload pre var t =
      .ok (if hasPoeticSpelling t = true then some (pre ++ var ++ spell t) else none) := by
  unfold numericPayload
  by_cases h : hasPoeticSpelling t = true
  · simp [h, templateOf_ok t h, templateText_true]
  · simp [h]

/-! ### the poetic-literal model reads the spelling back -/

theorem wordLen_replicate {letter : Char} (h : letter ≠ '\'') (n : Nat) :
    Poetic.wordLen (List.replicate n letter) = n := by
  unfold Poetic.wordLen
  induction n with
  | zero => rfl
  | succ n ih => simp [List.replicate_succ, h]

/-- iterator item of a piece -/
def itemOfPiece : Piece → Poetic.Item
  | .word len => .word len
  | .dot => .dot

def elemOfPiece (letter : Char) : Piece → PoeticElem
  | .word len => .word (List.replicate len letter)
  | .dot => .dot

theorem elems_eq (letter : Char) (text : Str) : elems letter text = (pieces text).map (elemOfPiece letter) := by
  unfold elems
  apply List.map_congr_left
  intro p _
  cases p <;> rfl

theorem itemsGo_pieces {letter : Char} (h : letter ≠ '\'') (ps : List Piece) (cur : Option Nat) :
    Poetic.itemsGo (ps.map (elemOfPiece letter)) cur = Poetic.flush cur ++ ps.map itemOfPiece := by
  induction ps generalizing cur with
  | nil => simp [Poetic.itemsGo]
  | cons p ps ih =>
    cases p with
    | dot => simp [elemOfPiece, Poetic.itemsGo, ih, Poetic.flush, itemOfPiece]
    | word len => simp [elemOfPiece, Poetic.itemsGo, ih, Poetic.flush, itemOfPiece, wordLen_replicate h]

theorem items_elems {letter : Char} (h : letter ≠ '\'') (text : Str) :
    Poetic.items (elems letter text) = (pieces text).map itemOfPiece := by
  rw [elems_eq, Poetic.items, itemsGo_pieces h]
  rfl

theorem lengths_pieces (ps : List Piece) :
    (Poetic.lengths (ps.map itemOfPiece)).map (· % 10) = digits (ps.map Piece.read) := by
  induction ps with
  | nil => rfl
  | cons p ps ih => cases p <;> simp [itemOfPiece, Poetic.lengths, Piece.read, digits, ih]

theorem dotPos_pieces (ps : List Piece) :
    Poetic.dotPos (ps.map itemOfPiece) = pointPos (ps.map Piece.read) := by
  induction ps with
  | nil => rfl
  | cons p ps ih => cases p <;> simp [itemOfPiece, Poetic.dotPos, Piece.read, pointPos, ih]

section
variable {N : Type} [NumOps N]

theorem sumDigits_mod (e : Int) (l : List Nat) (i : Nat) (acc : N) :
    Poetic.sumDigits e (l.map (· % 10)) i acc = Poetic.sumDigits e l i acc := by
  induction l generalizing i acc with
  | nil => rfl
  | cons d l ih => simp [Poetic.sumDigits, Poetic.digitTerm, ih]

end

/-! ### the diagnostics, written out -/

/-- suggestions of a numeric diagnostic whose payload starts with `payloadPrefix` -/
def numSuggestions (payloadPrefix text : Str) : List Str :=
  if hasPoeticSpelling text = true then [suggestionText (payloadPrefix ++ spell text)] else []

section
variable {N : Type} [NumOps N]
open NumOps

theorem numericDiag_eq (var : Str) (x : N) (line : Nat) :
    numericDiag var x line = .ok [{ issue := issueText (fmt x) var,
                                    suggestions := numSuggestions (var ++ str% " is ") (fmt x),
                                    line := line }] := by
  unfold numericDiag
  simp only [numericPayload_eq, Outcome.bind_ok, buildDiag, numSuggestions, List.nil_append]
  by_cases h : hasPoeticSpelling (fmt x) = true <;> simp [h]

theorem pushDiag_eq (var : Str) (x : N) (line : Nat) :
    pushDiag var x line = .ok [{ issue := issueText (fmt x) var,
                                 suggestions := numSuggestions (str% "Rock " ++ var ++ str% " like ") (fmt x),
                                 line := line }] := by
  unfold pushDiag
  simp only [numericPayload_eq, Outcome.bind_ok, buildDiag, numSuggestions]
  by_cases h : hasPoeticSpelling (fmt x) = true <;> simp [h]

end

theorem stringDiag_eq (var s : Str) (line : Nat) :
    stringDiag var s line = [{ issue := issueText ('"' :: s ++ ['"']) var,
                               suggestions := if hasPoeticStringSpelling s false = true
                                              then [suggestionText (var ++ str% " says " ++ s)] else [],
                               line := line }] := by
  unfold stringDiag buildDiag
  by_cases h : hasPoeticStringSpelling s false = true
  · simp only [if_pos h]
  · simp only [if_neg h]

/-! ### `hasPoeticStringSpelling` -/

theorem hpss_cons (c : Char) (cs : Str) (b : Bool) :
    hasPoeticStringSpelling (c :: cs) b =
      if c = '\n' then false
      else if c = '(' then hasPoeticStringSpelling cs true
      else if c = ')' then hasPoeticStringSpelling cs false
      else hasPoeticStringSpelling cs b := by
  rw [hasPoeticStringSpelling]

/-- a line break never has a spelling -/
theorem hpss_of_newline (s : Str) (b : Bool) (h : '\n' ∈ s) : hasPoeticStringSpelling s b = false := by
  induction s generalizing b with
  | nil => simp at h
  | cons c cs ih =>
    rw [hpss_cons]
    by_cases hc : c = '\n'
    · simp [hc]
    · have hm : '\n' ∈ cs := by
        rcases List.mem_cons.mp h with h1 | h1
        · exact absurd h1.symm hc
        · exact h1
      simp only [hc, if_false]
      split
      · exact ih true hm
      · split
        · exact ih false hm
        · exact ih b hm

/-- without parentheses and line breaks the comment state is kept -/
theorem hpss_plain (s : Str) (b : Bool) (h1 : '\n' ∉ s) (h2 : '(' ∉ s) (h3 : ')' ∉ s) :
    hasPoeticStringSpelling s b = !b := by
  induction s with
  | nil => rw [hasPoeticStringSpelling]
  | cons c cs ih =>
    simp only [List.mem_cons, not_or] at h1 h2 h3
    rw [hpss_cons, if_neg (Ne.symm h1.1), if_neg (Ne.symm h2.1), if_neg (Ne.symm h3.1)]
    exact ih h1.2 h2.2 h3.2

/-- a text that ends by opening a comment has no spelling -/
theorem hpss_append_open (s : Str) (b : Bool) : hasPoeticStringSpelling (s ++ ['(']) b = false := by
  induction s generalizing b with
  | nil => simp [hpss_cons, hasPoeticStringSpelling]
  | cons c cs ih =>
    rw [List.cons_append, hpss_cons]
    split
    · rfl
    · split
      · exact ih true
      · split
        · exact ih false
        · exact ih b

/-- exact meaning: no line break, and no comment left open (only the last parenthesis counts) -/
theorem hpss_iff (s : Str) (b : Bool) :
    hasPoeticStringSpelling s b = true ↔ '\n' ∉ s ∧ ¬ Spec.leavesCommentOpen s b := by
  induction s generalizing b with
  | nil => cases b <;> simp [hasPoeticStringSpelling, Spec.leavesCommentOpen, Spec.lastParen]
  | cons c cs ih =>
    rw [hpss_cons]
    by_cases hn : c = '\n'
    · simp [hn]
    · have hn' : ¬ '\n' = c := fun h => hn h.symm
      simp only [hn, if_false, List.mem_cons, not_or, hn', not_false_eq_true, true_and]
      unfold Spec.leavesCommentOpen at ih ⊢
      rw [Spec.lastParen]
      by_cases ho : c = '('
      · subst ho
        rw [if_pos rfl, ih true]
        cases h : Spec.lastParen cs <;> simp
      · by_cases hc : c = ')'
        · subst hc
          rw [if_neg ho, if_pos rfl, ih false]
          cases h : Spec.lastParen cs <;> simp
        · rw [if_neg ho, if_neg hc, ih b]
          cases h : Spec.lastParen cs <;> simp [ho, hc]

section
variable {N : Type} [NumOps N]
open NumOps

/-- the numeric diagnostic for target text `var`, value `x`, at `line` (plain / poetic assignment) -/
def numDiag (var : Str) (x : N) (line : Nat) : Diag :=
  { issue := issueText (fmt x) var,
    suggestions := numSuggestions (var ++ str% " is ") (fmt x),
    line := line }

/-- the numeric diagnostic of `rock` -/
def rockDiag (var : Str) (x : N) (line : Nat) : Diag :=
  { issue := issueText (fmt x) var,
    suggestions := numSuggestions (str% "Rock " ++ var ++ str% " like ") (fmt x),
    line := line }

/-- the string diagnostic -/
def strDiag (var s : Str) (line : Nat) : Diag :=
  { issue := issueText ('"' :: s ++ ['"']) var,
    suggestions := if hasPoeticStringSpelling s false = true
                   then [suggestionText (var ++ str% " says " ++ s)] else [],
    line := line }

/-- the common core of `boringAssign` and `boringPoetic`, as one equation -/
theorem foldDiag_eq (var : Str) (line : Nat) (rn : Except FoldErr N) (rs : Except FoldErr Str) :
    (match rn with
      | .ok x => numericDiag var x line
      | .error .wrongType =>
        (match rs with
          | .ok s => .ok (stringDiag var s line)
          | .error _ => .ok [])
      | .error _ => (.ok [] : Outcome Unit (List Diag))) =
    .ok (match rn with
      | .ok x => [numDiag var x line]
      | .error .wrongType =>
        (match rs with
          | .ok s => [strDiag var s line]
          | .error _ => [])
      | .error _ => []) := by
  cases rn with
  | ok x => simp [numericDiag_eq, numDiag]
  | error e =>
    cases e <;> try rfl
    cases rs with
    | ok s => simp [stringDiag_eq, strDiag]
    | error _ => rfl

theorem boringAssign_eq (dest : Lhs N) (op : Option BinOp) (value : ExprList N) :
    boringAssign dest op value = .ok (match op with
      | some _ => []
      | none =>
        match Fold.numList value with
        | .ok x => [numDiag dest.render x value.range.line]
        | .error .wrongType =>
          (match Fold.strList value with
            | .ok s => [strDiag dest.render s value.range.line]
            | .error _ => [])
        | .error _ => []) := by
  unfold boringAssign
  cases op with
  | some _ => rfl
  | none => exact foldDiag_eq _ _ _ _

theorem boringPoetic_eq (dest : Lhs N) (rhs : PoeticRhs N) :
    boringPoetic dest rhs = .ok (match rhs with
      | .lit _ => []
      | .expr e =>
        match Fold.numExpr e with
        | .ok x => [numDiag dest.render x e.range.line]
        | .error .wrongType =>
          (match Fold.strExpr e with
            | .ok s => [strDiag dest.render s e.range.line]
            | .error _ => [])
        | .error _ => []) := by
  unfold boringPoetic
  cases rhs with
  | lit _ => rfl
  | expr e => exact foldDiag_eq _ _ _ _

theorem boringPush_eq (arr : Primary N) (value : Option (PushRhs N)) :
    boringPush arr value = .ok (match value with
      | some (.list l) =>
        (match Fold.numList l with
          | .ok x => [rockDiag arr.render x arr.range.line]
          | .error _ => [])
      | _ => []) := by
  unfold boringPush
  cases value with
  | none => rfl
  | some v =>
    cases v with
    | lit _ => rfl
    | list l =>
      show (match Fold.numList l with
        | .ok x => pushDiag arr.render x arr.range.line
        | .error _ => .ok []) = .ok (match Fold.numList l with
        | .ok x => [rockDiag arr.render x arr.range.line]
        | .error _ => [])
      generalize Fold.numList l = r
      cases r with
      | ok x => simp [pushDiag_eq, rockDiag]
      | error _ => rfl

/-- generic "one or none" reasoning for the shape produced by the folders -/
theorem foldList_one (var : Str) (line : Nat) (rn : Except FoldErr N) (rs : Except FoldErr Str) (d : Diag) :
    (match rn with
      | .ok x => [numDiag var x line]
      | .error .wrongType =>
        (match rs with
          | .ok s => [strDiag var s line]
          | .error _ => [])
      | .error _ => []) = [d] ↔
    ((∃ x, rn = .ok x ∧ d = numDiag var x line) ∨
     (rn = .error .wrongType ∧ ∃ s, rs = .ok s ∧ d = strDiag var s line)) := by
  cases rn with
  | ok x => simp [eq_comm]
  | error e =>
    cases e <;> try simp
    cases rs with
    | ok s => simp [eq_comm]
    | error _ => simp

theorem foldList_none (var : Str) (line : Nat) (rn : Except FoldErr N) (rs : Except FoldErr Str) :
    (match rn with
      | .ok x => [numDiag var x line]
      | .error .wrongType =>
        (match rs with
          | .ok s => [strDiag var s line]
          | .error _ => [])
      | .error _ => []) = [] ↔
    ¬ ((∃ x, rn = .ok x) ∨ (rn = .error .wrongType ∧ ∃ s, rs = .ok s)) := by
  cases rn with
  | ok x => simp
  | error e =>
    cases e <;> try simp
    cases rs with
    | ok s => simp
    | error _ => simp

theorem boringAssign_one (dest : Lhs N) (op : Option BinOp) (value : ExprList N) (d : Diag) :
    boringAssign dest op value = .ok [d] ↔
      op = none ∧
      ((∃ x, Fold.numList value = .ok x ∧ d = numDiag dest.render x value.range.line) ∨
       (Fold.numList value = .error .wrongType ∧
          ∃ s, Fold.strList value = .ok s ∧ d = strDiag dest.render s value.range.line)) := by
  rw [boringAssign_eq]
  cases op with
  | some o => simp
  | none => simp only [Outcome.ok.injEq, true_and]; exact foldList_one _ _ _ _ _

theorem boringAssign_none (dest : Lhs N) (op : Option BinOp) (value : ExprList N) :
    boringAssign dest op value = .ok [] ↔
      ¬ (op = none ∧
         ((∃ x, Fold.numList value = .ok x) ∨
          (Fold.numList value = .error .wrongType ∧ ∃ s, Fold.strList value = .ok s))) := by
  rw [boringAssign_eq]
  cases op with
  | some o => simp
  | none => simp only [Outcome.ok.injEq, true_and]; exact foldList_none _ _ _ _

theorem boringPoetic_one (dest : Lhs N) (rhs : PoeticRhs N) (d : Diag) :
    boringPoetic dest rhs = .ok [d] ↔
      ∃ e, rhs = .expr e ∧
      ((∃ x, Fold.numExpr e = .ok x ∧ d = numDiag dest.render x e.range.line) ∨
       (Fold.numExpr e = .error .wrongType ∧
          ∃ s, Fold.strExpr e = .ok s ∧ d = strDiag dest.render s e.range.line)) := by
  rw [boringPoetic_eq]
  cases rhs with
  | lit _ => simp
  | expr e =>
    simp only [Outcome.ok.injEq, PoeticRhs.expr.injEq, exists_eq_left']
    exact foldList_one _ _ _ _ _

theorem boringPoetic_none (dest : Lhs N) (rhs : PoeticRhs N) :
    boringPoetic dest rhs = .ok [] ↔
      ¬ ∃ e, rhs = .expr e ∧
         ((∃ x, Fold.numExpr e = .ok x) ∨
          (Fold.numExpr e = .error .wrongType ∧ ∃ s, Fold.strExpr e = .ok s)) := by
  rw [boringPoetic_eq]
  cases rhs with
  | lit _ => simp
  | expr e =>
    simp only [Outcome.ok.injEq, PoeticRhs.expr.injEq, exists_eq_left']
    exact foldList_none _ _ _ _

theorem boringPush_one (arr : Primary N) (value : Option (PushRhs N)) (d : Diag) :
    boringPush arr value = .ok [d] ↔
      ∃ l x, value = some (.list l) ∧ Fold.numList l = .ok x ∧
        d = rockDiag arr.render x arr.range.line := by
  rw [boringPush_eq]
  cases value with
  | none => simp
  | some v =>
    cases v with
    | lit _ => simp
    | list l =>
      simp only [Outcome.ok.injEq, Option.some.injEq, PushRhs.list.injEq, exists_and_left,
        exists_eq_left']
      generalize Fold.numList l = r
      cases r with
      | ok x => simp [eq_comm]
      | error _ => simp

theorem boringPush_none (arr : Primary N) (value : Option (PushRhs N)) :
    boringPush arr value = .ok [] ↔
      ¬ ∃ l x, value = some (.list l) ∧ Fold.numList l = .ok x := by
  rw [boringPush_eq]
  cases value with
  | none => simp
  | some v =>
    cases v with
    | lit _ => simp
    | list l =>
      simp only [Outcome.ok.injEq, Option.some.injEq, PushRhs.list.injEq, exists_and_left,
        exists_eq_left']
      generalize Fold.numList l = r
      cases r with
      | ok x => simp
      | error _ => simp

end

/-! ### the whole pass -/

section
variable {N : Type} [NumOps N]

/-- what the pass does at one statement itself (the three overridden visitor methods) -/
def boringLocal : Stmt N → Outcome Unit (List Diag)
  | .assign dest op value => boringAssign dest op value
  | .poeticNum dest rhs => boringPoetic dest rhs
  | .push arr value => boringPush arr value
  | _ => .ok []

/-- the diagnostics of an outcome (none unless it is `ok`) -/
def okList : Outcome Unit (List Diag) → List Diag
  | .ok ds => ds
  | _ => []

/-- the diagnostics the pass reports about one statement itself -/
def stmtDiags (s : Stmt N) : List Diag := okList (boringLocal s)

theorem boringLocal_ok (s : Stmt N) : boringLocal s = .ok (stmtDiags s) := by
  unfold stmtDiags
  cases s <;> try rfl
  · rw [boringLocal, boringAssign_eq]; rfl
  · rw [boringLocal, boringPoetic_eq]; rfl
  · rw [boringLocal, boringPush_eq]; rfl

theorem stmtDiags_length_le_one (s : Stmt N) : (stmtDiags s).length ≤ 1 := by
  unfold stmtDiags
  cases s <;> try (simp [boringLocal, okList])
  · rw [boringAssign_eq]; dsimp only
    (repeat' split) <;> simp
  · rw [boringPoetic_eq]; dsimp only
    (repeat' split) <;> simp
  · rw [boringPush_eq]; dsimp only
    (repeat' split) <;> simp

mutual
theorem boringStmt_eq : (s : Stmt N) →
    boringStmt s = .ok (stmtDiags s ++ s.inner.flatMap stmtDiags)
  | .assign dest op value => by
    rw [boringStmt, ← boringLocal, boringLocal_ok]; simp [Stmt.inner]
  | .poeticNum dest rhs => by
    rw [boringStmt, ← boringLocal, boringLocal_ok]; simp [Stmt.inner]
  | .push arr value => by
    rw [boringStmt, ← boringLocal, boringLocal_ok]; simp [Stmt.inner]
  | .ifS c t none => by
    rw [boringStmt, boringBlock_eq t]
    simp [Stmt.inner, stmtDiags, boringLocal, okList]
  | .ifS c t (some b) => by
    rw [boringStmt, boringBlock_eq t]
    simp only [Outcome.bind_ok]
    rw [boringBlock_eq b]
    simp [Stmt.inner, stmtDiags, boringLocal, okList]
  | .whileS c b => by
    rw [boringStmt, boringBlock_eq b]
    simp [Stmt.inner, stmtDiags, boringLocal, okList]
  | .untilS c b => by
    rw [boringStmt, boringBlock_eq b]
    simp [Stmt.inner, stmtDiags, boringLocal, okList]
  | .func name r params body => by
    rw [boringStmt, boringBlock_eq body]
    simp [Stmt.inner, stmtDiags, boringLocal, okList]
  | .poeticStr _ _ => by simp [boringStmt, Stmt.inner, stmtDiags, boringLocal, okList]
  | .inc _ _ _ => by simp [boringStmt, Stmt.inner, stmtDiags, boringLocal, okList]
  | .dec _ _ _ => by simp [boringStmt, Stmt.inner, stmtDiags, boringLocal, okList]
  | .input _ _ => by simp [boringStmt, Stmt.inner, stmtDiags, boringLocal, okList]
  | .output _ => by simp [boringStmt, Stmt.inner, stmtDiags, boringLocal, okList]
  | .mutation _ _ _ _ => by simp [boringStmt, Stmt.inner, stmtDiags, boringLocal, okList]
  | .rounding _ _ => by simp [boringStmt, Stmt.inner, stmtDiags, boringLocal, okList]
  | .continue_ _ => by simp [boringStmt, Stmt.inner, stmtDiags, boringLocal, okList]
  | .break_ _ => by simp [boringStmt, Stmt.inner, stmtDiags, boringLocal, okList]
  | .pop _ _ => by simp [boringStmt, Stmt.inner, stmtDiags, boringLocal, okList]
  | .ret _ => by simp [boringStmt, Stmt.inner, stmtDiags, boringLocal, okList]
  | .call _ _ _ => by simp [boringStmt, Stmt.inner, stmtDiags, boringLocal, okList]
theorem boringBlock_eq : (b : Block N) → boringBlock b = .ok (b.all.flatMap stmtDiags)
  | .mk _ ss => by rw [boringBlock, boringStmts_eq ss, Block.all]
theorem boringStmts_eq : (ss : List (Stmt N)) →
    boringStmts ss = .ok ((allStmts ss).flatMap stmtDiags)
  | [] => by simp [boringStmts, allStmts]
  | s :: ss => by
    rw [boringStmts, boringStmt_eq s, boringStmts_eq ss]
    simp [allStmts]
end

theorem boringBlocks_eq (bs : List (Block N)) :
    boringBlocks bs = .ok ((bs.flatMap Block.all).flatMap stmtDiags) := by
  induction bs with
  | nil => rfl
  | cons b bs ih =>
    rw [boringBlocks, boringBlock_eq b, ih]
    simp

end

/-! ### the poetic-literal model applied to a spelling -/

theorem lengths_elems_spell {letter : Char} (hl : letter ≠ '\'') (t : Str)
    (h : hasPoeticSpelling t = true) :
    (Poetic.lengths (Poetic.items (elems letter (spell t)))).map (· % 10) = digits (ofPrinted t) := by
  rw [items_elems hl, lengths_pieces, ← reading_spell t h]
  rfl

theorem dotPos_elems_spell {letter : Char} (hl : letter ≠ '\'') (t : Str)
    (h : hasPoeticSpelling t = true) :
    Poetic.dotPos (Poetic.items (elems letter (spell t))) = pointPos (ofPrinted t) := by
  rw [items_elems hl, dotPos_pieces, ← reading_spell t h]
  rfl

theorem computeValue_elems_spell {N : Type} [NumOps N] {letter : Char} (hl : letter ≠ '\'') (t : Str)
    (h : hasPoeticSpelling t = true) :
    (Poetic.computeValue (elems letter (spell t)) : Outcome Unit N) =
      .ok (Poetic.sumDigits (Int.ofNat (pointPos (ofPrinted t)) - 1) (digits (ofPrinted t)) 0
            (NumOps.neg (NumOps.ofInt 0 : N))) := by
  unfold Poetic.computeValue
  simp only [dotPos_elems_spell hl t h]
  rw [← lengths_elems_spell hl t h, sumDigits_mod]

theorem run_ok {N : Type} [NumOps N] (p : Program N) :
    Lint.run p = .ok (postprocess ((p.allStmts.flatMap stmtDiags) ++ missedPronouns p)) := by
  unfold Lint.run
  rw [boringBlocks_eq]
  rfl

/-! ### the fold condition, syntactically -/

section
variable {N : Type} [NumOps N]

/-- a plain string literal -/
def IsStrLit (e : Expr N) : Prop := ∃ s r, e = .prim (.lit (.str s) r)

theorem numExpr_wrongType_of_strExpr {e : Expr N} {s : Str} (h : Fold.strExpr e = .ok s) :
    Fold.numExpr e = .error .wrongType := by
  obtain ⟨r, rfl⟩ := (FoldSound.strExpr_ok_iff e s).mp h
  rw [Fold.numExpr, Fold.numPrimary]
  intro x hx; cases hx

theorem foldCond_expr_iff (e : Expr N) :
    ((∃ x, Fold.numExpr e = .ok x) ∨ (Fold.numExpr e = .error .wrongType ∧ ∃ s, Fold.strExpr e = .ok s)) ↔
      (Const e ∨ IsStrLit e) := by
  constructor
  · rintro (⟨x, hx⟩ | ⟨_, s, hs⟩)
    · exact .inl (FoldSound.const_of_numExpr e x hx)
    · obtain ⟨r, hr⟩ := (FoldSound.strExpr_ok_iff e s).mp hs
      exact .inr ⟨s, r, hr⟩
  · rintro (hc | ⟨s, r, rfl⟩)
    · exact .inl (FoldSound.numExpr_of_const hc)
    · exact .inr ⟨numExpr_wrongType_of_strExpr (s := s) rfl, s, rfl⟩

theorem foldCond_list_iff (l : ExprList N) :
    ((∃ x, Fold.numList l = .ok x) ∨ (Fold.numList l = .error .wrongType ∧ ∃ s, Fold.strList l = .ok s)) ↔
      (l.rest = [] ∧ (Const l.first ∨ IsStrLit l.first)) := by
  by_cases h : l.rest = []
  · rw [FoldSound.numList_single l h, FoldSound.strList_single l h, foldCond_expr_iff]
    simp [h]
  · rw [FoldSound.numList_many l h, FoldSound.strList_many l h]
    simp [h]

theorem assign_reported_syntactic (dest : Lhs N) (op : Option BinOp) (value : ExprList N) :
    (∃ d, boringAssign dest op value = .ok [d]) ↔
      op = none ∧ value.rest = [] ∧ (Const value.first ∨ IsStrLit value.first) := by
  rw [← foldCond_list_iff]
  constructor
  · rintro ⟨d, hd⟩
    obtain ⟨h1, h2⟩ := (boringAssign_one dest op value d).mp hd
    refine ⟨h1, ?_⟩
    rcases h2 with ⟨x, hx, _⟩ | ⟨hw, s, hs, _⟩
    · exact .inl ⟨x, hx⟩
    · exact .inr ⟨hw, s, hs⟩
  · rintro ⟨h1, h2⟩
    rcases h2 with ⟨x, hx⟩ | ⟨hw, s, hs⟩
    · exact ⟨_, (boringAssign_one dest op value _).mpr ⟨h1, .inl ⟨x, hx, rfl⟩⟩⟩
    · exact ⟨_, (boringAssign_one dest op value _).mpr ⟨h1, .inr ⟨hw, s, hs, rfl⟩⟩⟩

theorem poetic_reported_syntactic (dest : Lhs N) (rhs : PoeticRhs N) :
    (∃ d, boringPoetic dest rhs = .ok [d]) ↔
      ∃ e, rhs = .expr e ∧ (Const e ∨ IsStrLit e) := by
  constructor
  · rintro ⟨d, hd⟩
    obtain ⟨e, he, h2⟩ := (boringPoetic_one dest rhs d).mp hd
    refine ⟨e, he, (foldCond_expr_iff e).mp ?_⟩
    rcases h2 with ⟨x, hx, _⟩ | ⟨hw, s, hs, _⟩
    · exact .inl ⟨x, hx⟩
    · exact .inr ⟨hw, s, hs⟩
  · rintro ⟨e, he, h2⟩
    rcases (foldCond_expr_iff e).mpr h2 with ⟨x, hx⟩ | ⟨hw, s, hs⟩
    · exact ⟨_, (boringPoetic_one dest rhs _).mpr ⟨e, he, .inl ⟨x, hx, rfl⟩⟩⟩
    · exact ⟨_, (boringPoetic_one dest rhs _).mpr ⟨e, he, .inr ⟨hw, s, hs, rfl⟩⟩⟩

theorem push_reported_syntactic (arr : Primary N) (value : Option (PushRhs N)) :
    (∃ d, boringPush arr value = .ok [d]) ↔
      ∃ l, value = some (.list l) ∧ l.rest = [] ∧ Const l.first := by
  constructor
  · rintro ⟨d, hd⟩
    obtain ⟨l, x, hv, hx, _⟩ := (boringPush_one arr value d).mp hd
    obtain ⟨h1, h2⟩ := (FoldSound.numList_ok_iff l x).mp hx
    exact ⟨l, hv, h1, FoldSound.const_of_numExpr _ x h2⟩
  · rintro ⟨l, hv, h1, hc⟩
    obtain ⟨x, hx⟩ := FoldSound.numExpr_of_const hc
    exact ⟨_, (boringPush_one arr value _).mpr ⟨l, x, hv, (FoldSound.numList_ok_iff l x).mpr ⟨h1, hx⟩, rfl⟩⟩

end

end LintDigits
end Rrss
