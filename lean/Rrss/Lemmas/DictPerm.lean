/-
  Rrss.Lemmas.DictPerm — helper lemmas for C10 (determinism): the congruence `Val.Equiv`
  ("equal up to the order of every dictionary, at every depth"), sorting facts (sorting a
  permutation under a total, transitive, antisymmetric order gives the same list), and the
  invariance / congruence of every operation of the value algebra.
-/
import Rrss.Lemmas.ValLaws
import Rrss.ErrorDisplay
set_option linter.unusedSectionVars false
set_option linter.unusedVariables false
namespace Rrss

/-! ### pointwise relation on lists (core has no `Forall₂`) -/

/-- `All₂ R l l'`: the lists have the same length and are related by `R` position by position. -/
inductive All₂ {α β : Type} (R : α → β → Prop) : List α → List β → Prop
  | nil : All₂ R [] []
  | cons {a b l l'} : R a b → All₂ R l l' → All₂ R (a :: l) (b :: l')

namespace All₂
variable {α β γ : Type} {R : α → β → Prop}

@[simp] theorem nil_iff : All₂ R [] [] ↔ True := ⟨fun _ => trivial, fun _ => .nil⟩
@[simp] theorem nil_cons_iff {b : β} {l' : List β} : All₂ R [] (b :: l') ↔ False :=
  ⟨fun h => (by cases h), False.elim⟩
@[simp] theorem cons_nil_iff {a : α} {l : List α} : All₂ R (a :: l) [] ↔ False :=
  ⟨fun h => (by cases h), False.elim⟩
@[simp] theorem cons_iff {a : α} {b : β} {l : List α} {l' : List β} :
    All₂ R (a :: l) (b :: l') ↔ R a b ∧ All₂ R l l' :=
  ⟨fun h => by cases h; exact ⟨‹_›, ‹_›⟩, fun h => .cons h.1 h.2⟩

theorem length_eq {l : List α} {l' : List β} (h : All₂ R l l') : l.length = l'.length := by
  induction h with
  | nil => rfl
  | cons _ _ ih => simp [ih]

theorem refl_of {R : α → α → Prop} : ∀ (l : List α), (∀ a ∈ l, R a a) → All₂ R l l
  | [], _ => .nil
  | a :: l, h => .cons (h a List.mem_cons_self) (refl_of l fun x hx => h x (List.mem_cons_of_mem _ hx))

theorem imp_mem {S : α → β → Prop} {l : List α} {l' : List β} (h : All₂ R l l')
    (himp : ∀ a ∈ l, ∀ b ∈ l', R a b → S a b) : All₂ S l l' := by
  induction h with
  | nil => exact .nil
  | cons hab _ ih =>
    exact .cons (himp _ List.mem_cons_self _ List.mem_cons_self hab)
      (ih fun a ha b hb => himp a (List.mem_cons_of_mem _ ha) b (List.mem_cons_of_mem _ hb))

theorem imp {S : α → β → Prop} {l : List α} {l' : List β} (h : All₂ R l l')
    (himp : ∀ a b, R a b → S a b) : All₂ S l l' :=
  h.imp_mem fun a _ b _ => himp a b

theorem flip {l : List α} {l' : List β} (h : All₂ R l l') : All₂ (fun b a => R a b) l' l := by
  induction h with
  | nil => exact .nil
  | cons hab _ ih => exact .cons hab ih

theorem trans {S : β → γ → Prop} {T : α → γ → Prop} {l : List α} {m : List β} {n : List γ}
    (h1 : All₂ R l m) (h2 : All₂ S m n)
    (ht : ∀ a ∈ l, ∀ b c, R a b → S b c → T a c) : All₂ T l n := by
  induction h1 generalizing n with
  | nil => cases h2; exact .nil
  | cons hab _ ih =>
    cases h2 with
    | cons hbc h2' =>
      exact .cons (ht _ List.mem_cons_self _ _ hab hbc)
        (ih h2' fun a ha => ht a (List.mem_cons_of_mem _ ha))

/-- every element of the left list has a partner in the right list -/
theorem exists_of_mem_left {l : List α} {l' : List β} (h : All₂ R l l') {a : α} (ha : a ∈ l) :
    ∃ b ∈ l', R a b := by
  induction h with
  | nil => cases ha
  | cons hab _ ih =>
    rcases List.mem_cons.mp ha with rfl | ha
    · exact ⟨_, List.mem_cons_self, hab⟩
    · obtain ⟨b, hb, hr⟩ := ih ha
      exact ⟨b, List.mem_cons_of_mem _ hb, hr⟩

theorem exists_of_mem_right {l : List α} {l' : List β} (h : All₂ R l l') {b : β} (hb : b ∈ l') :
    ∃ a ∈ l, R a b := by
  obtain ⟨a, ha, hr⟩ := h.flip.exists_of_mem_left hb
  exact ⟨a, ha, hr⟩

theorem append {l₁ l₂ : List α} {m₁ m₂ : List β} (h1 : All₂ R l₁ m₁) (h2 : All₂ R l₂ m₂) :
    All₂ R (l₁ ++ l₂) (m₁ ++ m₂) := by
  induction h1 with
  | nil => exact h2
  | cons hab _ ih => exact .cons hab ih

theorem replicate {a : α} {b : β} (h : R a b) (n : Nat) :
    All₂ R (List.replicate n a) (List.replicate n b) := by
  induction n with
  | zero => exact .nil
  | succ n ih => exact .cons h ih

theorem getElem? {l : List α} {l' : List β} (h : All₂ R l l') (i : Nat) :
    (l[i]? = none ∧ l'[i]? = none) ∨ ∃ a b, l[i]? = some a ∧ l'[i]? = some b ∧ R a b := by
  induction h generalizing i with
  | nil => simp
  | cons hab _ ih =>
    cases i with
    | zero => exact .inr ⟨_, _, rfl, rfl, hab⟩
    | succ i => simpa using ih i

theorem set {l : List α} {l' : List β} (h : All₂ R l l') (i : Nat) {a : α} {b : β} (hab : R a b) :
    All₂ R (l.set i a) (l'.set i b) := by
  induction h generalizing i with
  | nil => exact .nil
  | cons hab' _ ih =>
    cases i with
    | zero => exact .cons hab ‹_›
    | succ i => exact .cons hab' (ih i)

/-- a list of pairs, all related, projects to two related lists -/
theorem of_pairs : ∀ (z : List (α × β)), (∀ p ∈ z, R p.1 p.2) → All₂ R (z.map Prod.fst) (z.map Prod.snd)
  | [], _ => .nil
  | p :: z, h => .cons (h p List.mem_cons_self) (of_pairs z fun q hq => h q (List.mem_cons_of_mem _ hq))

/-- two related lists are the projections of a list of related pairs -/
theorem exists_pairs {l : List α} {l' : List β} (h : All₂ R l l') :
    ∃ z : List (α × β), z.map Prod.fst = l ∧ z.map Prod.snd = l' ∧ ∀ p ∈ z, R p.1 p.2 := by
  induction h with
  | nil => exact ⟨[], rfl, rfl, by simp⟩
  | @cons a b l l' hab _ ih =>
    obtain ⟨z, h1, h2, h3⟩ := ih
    refine ⟨(a, b) :: z, by simp [h1], by simp [h2], ?_⟩
    intro p hp
    rcases List.mem_cons.mp hp with rfl | hp
    · exact hab
    · exact h3 p hp

/-- a pointwise relation commutes with a permutation of the right list -/
theorem perm_right {l : List α} {u v : List β} (h : All₂ R l u) (hp : List.Perm u v) :
    ∃ w, List.Perm l w ∧ All₂ R w v := by
  induction hp generalizing l with
  | nil => cases h; exact ⟨[], .nil, .nil⟩
  | cons x _ ih =>
    cases h with
    | cons hab h' =>
      obtain ⟨w, hw1, hw2⟩ := ih h'
      exact ⟨_ :: w, hw1.cons _, .cons hab hw2⟩
  | swap x y u0 =>
    cases h with
    | cons hby h' =>
      cases h' with
      | @cons a _ l0 _ hax h'' =>
        exact ⟨a :: _ :: l0, .swap _ _ _, .cons hax (.cons hby h'')⟩
  | trans _ _ ih1 ih2 =>
    obtain ⟨w1, hw1, hr1⟩ := ih1 h
    obtain ⟨w2, hw2, hr2⟩ := ih2 hr1
    exact ⟨w2, hw1.trans hw2, hr2⟩

/-- a pointwise relation commutes with a permutation of the left list -/
theorem perm_left {u v : List α} {l : List β} (h : All₂ R u l) (hp : List.Perm u v) :
    ∃ w, List.Perm l w ∧ All₂ R v w := by
  obtain ⟨w, hw1, hw2⟩ := h.flip.perm_right hp
  exact ⟨w, hw1, hw2.flip⟩

end All₂

/-! ### sorting a permutation -/

namespace DictPerm

/-- Two permutations of one another are sorted to the same list by `mergeSort`, when the
    order is transitive, total and antisymmetric on the elements of the list. -/
theorem mergeSort_eq_of_perm {α : Type} {le : α → α → Bool} {l l' : List α}
    (htrans : ∀ a b c, le a b = true → le b c = true → le a c = true)
    (htotal : ∀ a b, (le a b || le b a) = true)
    (hanti : ∀ a ∈ l, ∀ b ∈ l, le a b = true → le b a = true → a = b)
    (hp : List.Perm l l') : l.mergeSort le = l'.mergeSort le := by
  have p1 := List.mergeSort_perm l le
  have p2 := List.mergeSort_perm l' le
  refine List.Perm.eq_of_pairwise (le := fun a b => le a b = true) ?_
    (List.pairwise_mergeSort htrans htotal l) (List.pairwise_mergeSort htrans htotal l')
    (p1.trans (hp.trans p2.symm))
  intro a b ha hb hab hba
  exact hanti a (p1.mem_iff.mp ha) b (hp.mem_iff.mpr (p2.mem_iff.mp hb)) hab hba

/-! ### the string order is a total order -/

theorem strLe_total (a b : Str) : (strLe a b || strLe b a) = true := by
  simp only [strLe, strCmp_swap a b]
  cases strCmp a b <;> rfl

theorem strLe_antisymm {a b : Str} (h1 : strLe a b = true) (h2 : strLe b a = true) : a = b := by
  simp only [strLe, strCmp_swap a b] at h1 h2
  apply (strCmp_eq_iff a b).mp
  cases h : strCmp a b <;> simp_all [Ordering.swap]

theorem strLe_nil (b : Str) : strLe [] b = true := by
  cases b <;> simp [strLe, strCmp]

theorem strLe_cons_cons (a b : Char) (as bs : Str) :
    strLe (a :: as) (b :: bs) = true ↔ a.toNat < b.toNat ∨ (a.toNat = b.toNat ∧ strLe as bs = true) := by
  simp only [strLe, strCmp]
  by_cases h1 : a.toNat < b.toNat
  · simp [h1]
  · by_cases h2 : b.toNat < a.toNat
    · simp [h1, h2]; omega
    · have : a.toNat = b.toNat := by omega
      simp [this]

theorem strLe_trans : ∀ (a b c : Str), strLe a b = true → strLe b c = true → strLe a c = true
  | [], _, c, _, _ => strLe_nil c
  | _ :: _, [], _, h, _ => by simp [strLe, strCmp] at h
  | _ :: _, _ :: _, [], _, h => by simp [strLe, strCmp] at h
  | a :: as, b :: bs, c :: cs, h1, h2 => by
    rw [strLe_cons_cons] at h1 h2 ⊢
    rcases h1 with h1 | ⟨e1, h1⟩
    · rcases h2 with h2 | ⟨e2, h2⟩
      · left; omega
      · left; omega
    · rcases h2 with h2 | ⟨e2, h2⟩
      · left; omega
      · right; exact ⟨by omega, strLe_trans as bs cs h1 h2⟩

/-- `sortStrs` (Rust: `sorted()`) of a permutation is the same list -/
theorem sortStrs_perm {l l' : List Str} (hp : List.Perm l l') : sortStrs l = sortStrs l' :=
  mergeSort_eq_of_perm strLe_trans strLe_total (fun _ _ _ _ h1 h2 => strLe_antisymm h1 h2) hp

end DictPerm
open DictPerm


namespace Val
open NumOps
section
variable {N : Type}

/-! ### induction over values -/

mutual
theorem induct_val {P : Val N → Prop} (hs : ∀ v : Val N, v.isArr = false → P v)
    (ha : ∀ s d, (∀ v ∈ s, P v) → (∀ kv ∈ d, P kv.2) → P (arr s d)) : ∀ v, P v
  | arr s d => ha s d (induct_list hs ha s) (induct_dict hs ha d)
  | undef => hs _ rfl
  | null => hs _ rfl
  | bool _ => hs _ rfl
  | num _ => hs _ rfl
  | str _ => hs _ rfl
theorem induct_list {P : Val N → Prop} (hs : ∀ v : Val N, v.isArr = false → P v)
    (ha : ∀ s d, (∀ v ∈ s, P v) → (∀ kv ∈ d, P kv.2) → P (arr s d)) :
    ∀ (l : List (Val N)), ∀ v ∈ l, P v
  | [] => fun _ h => absurd h List.not_mem_nil
  | a :: l => fun v hv =>
    (List.mem_cons.mp hv).elim (fun e => e ▸ induct_val hs ha a) (fun h => induct_list hs ha l v h)
theorem induct_dict {P : Val N → Prop} (hs : ∀ v : Val N, v.isArr = false → P v)
    (ha : ∀ s d, (∀ v ∈ s, P v) → (∀ kv ∈ d, P kv.2) → P (arr s d)) :
    ∀ (d : List (Key × Val N)), ∀ kv ∈ d, P kv.2
  | [] => fun _ h => absurd h List.not_mem_nil
  | (k, a) :: d => fun kv hkv =>
    (List.mem_cons.mp hkv).elim (fun e => e ▸ induct_val hs ha a) (fun h => induct_dict hs ha d kv h)
end

/-- Induction over values: scalars, and arrays assuming the property for every element of the
    sequence part and every value of the dictionary part. -/
theorem induct {P : Val N → Prop} (scalar : ∀ v : Val N, v.isArr = false → P v)
    (arr : ∀ s d, (∀ v ∈ s, P v) → (∀ kv ∈ d, P kv.2) → P (arr s d)) (v : Val N) : P v :=
  induct_val scalar arr v

/-! ### the congruence: equal up to the order of every dictionary -/

mutual
/-- `Equiv a b` (`a ≈ b`): `a` and `b` are the same value up to the order in which the entries
    of each dictionary (at any depth) are listed. -/
def Equiv : Val N → Val N → Prop
  | undef, undef => True
  | null, null => True
  | bool a, bool b => a = b
  | num a, num b => a = b
  | str a, str b => a = b
  | arr s d, arr s' d' => EquivList s s' ∧ ∃ d'', List.Perm d'' d' ∧ EquivEntries d d''
  | _, _ => False
/-- position by position -/
def EquivList : List (Val N) → List (Val N) → Prop
  | [], [] => True
  | a :: as, b :: bs => Equiv a b ∧ EquivList as bs
  | _, _ => False
/-- entry by entry: same key, related values -/
def EquivEntries : List (Key × Val N) → List (Key × Val N) → Prop
  | [], [] => True
  | (k, v) :: r, (k', v') :: r' => k = k' ∧ Equiv v v' ∧ EquivEntries r r'
  | _, _ => False
end

instance : HasEquiv (Val N) := ⟨Equiv⟩

/-- two dictionary entries with the same key and related values -/
def EntryEquiv (a b : Key × Val N) : Prop := a.1 = b.1 ∧ Equiv a.2 b.2

/-- two dictionaries (association lists) that are related entry by entry after reordering one -/
def DictEquiv (d d' : List (Key × Val N)) : Prop :=
  ∃ d'', List.Perm d'' d' ∧ All₂ EntryEquiv d d''

theorem equivList_iff : ∀ (l l' : List (Val N)), EquivList l l' ↔ All₂ Equiv l l'
  | [], [] => by simp [EquivList]
  | [], _ :: _ => by simp [EquivList]
  | _ :: _, [] => by simp [EquivList]
  | a :: l, b :: l' => by simp [EquivList, equivList_iff l l']

theorem equivEntries_iff : ∀ (d d' : List (Key × Val N)), EquivEntries d d' ↔ All₂ EntryEquiv d d'
  | [], [] => by simp [EquivEntries]
  | [], _ :: _ => by simp [EquivEntries]
  | _ :: _, [] => by simp [EquivEntries]
  | (k, v) :: l, (k', v') :: l' => by simp [EquivEntries, EntryEquiv, equivEntries_iff l l', and_assoc]

theorem equiv_arr_iff {s s' : List (Val N)} {d d' : List (Key × Val N)} :
    Equiv (arr s d) (arr s' d') ↔ All₂ Equiv s s' ∧ DictEquiv d d' := by
  simp only [Equiv, equivList_iff, equivEntries_iff, DictEquiv]

/-- the formulation "permute the left dictionary, then compare entry by entry" -/
theorem dictEquiv_iff {d d' : List (Key × Val N)} :
    DictEquiv d d' ↔ ∃ d'', List.Perm d d'' ∧ All₂ EntryEquiv d'' d' := by
  constructor
  · rintro ⟨d'', hp, ha⟩
    obtain ⟨w, hw1, hw2⟩ := ha.perm_right hp
    exact ⟨w, hw1, hw2⟩
  · rintro ⟨d'', hp, ha⟩
    obtain ⟨w, hw1, hw2⟩ := ha.perm_left hp.symm
    exact ⟨w, hw1.symm, hw2⟩

theorem equiv_isArr {a b : Val N} (h : Equiv a b) : a.isArr = b.isArr := by
  cases a <;> cases b <;> simp_all [Equiv, isArr]

theorem equiv_kind {a b : Val N} (h : Equiv a b) : a.kind = b.kind := by
  cases a <;> cases b <;> simp_all [Equiv, kind]

/-- on scalars the relation is equality -/
theorem equiv_scalar_left {a b : Val N} (ha : a.isArr = false) : Equiv a b ↔ a = b := by
  cases a <;> cases b <;> simp_all [Equiv, isArr]

theorem equiv_scalar_right {a b : Val N} (hb : b.isArr = false) : Equiv a b ↔ a = b := by
  cases a <;> cases b <;> simp_all [Equiv, isArr]

theorem equiv_arr_left {s : List (Val N)} {d : List (Key × Val N)} {b : Val N}
    (h : Equiv (arr s d) b) : ∃ s' d', b = arr s' d' ∧ All₂ Equiv s s' ∧ DictEquiv d d' := by
  cases b <;> simp only [Equiv] at h
  exact ⟨_, _, rfl, equiv_arr_iff.mp (by simpa only [Equiv] using h)⟩

theorem equiv_arr_right {s' : List (Val N)} {d' : List (Key × Val N)} {a : Val N}
    (h : Equiv a (arr s' d')) : ∃ s d, a = arr s d ∧ All₂ Equiv s s' ∧ DictEquiv d d' := by
  cases a <;> simp only [Equiv] at h
  exact ⟨_, _, rfl, equiv_arr_iff.mp (by simpa only [Equiv] using h)⟩

@[simp] theorem equiv_undef : Equiv (undef : Val N) undef := trivial
@[simp] theorem equiv_null : Equiv (null : Val N) null := trivial
@[simp] theorem equiv_bool (b : Bool) : Equiv (bool b : Val N) (bool b) := rfl
@[simp] theorem equiv_num (n : N) : Equiv (num n) (num n) := rfl
@[simp] theorem equiv_str (s : Str) : Equiv (str s : Val N) (str s) := rfl

theorem dictEquiv_refl_of {d : List (Key × Val N)} (h : ∀ kv ∈ d, Equiv kv.2 kv.2) : DictEquiv d d :=
  ⟨d, .refl _, All₂.refl_of d fun kv hkv => ⟨rfl, h kv hkv⟩⟩

/-- `≈` is reflexive -/
theorem Equiv.refl (v : Val N) : Equiv v v := by
  induction v using Val.induct with
  | scalar v hv => exact (equiv_scalar_left hv).mpr rfl
  | arr s d ihs ihd => exact equiv_arr_iff.mpr ⟨All₂.refl_of s ihs, dictEquiv_refl_of ihd⟩

theorem equivList_refl (l : List (Val N)) : All₂ Equiv l l := All₂.refl_of l fun v _ => Equiv.refl v

theorem dictEquiv_refl (d : List (Key × Val N)) : DictEquiv d d :=
  dictEquiv_refl_of fun kv _ => Equiv.refl kv.2

/-- a permutation of the dictionary part gives a related value -/
theorem equiv_of_perm {s : List (Val N)} {d d' : List (Key × Val N)} (h : List.Perm d d') :
    Equiv (arr s d) (arr s d') :=
  equiv_arr_iff.mpr ⟨equivList_refl s, d, h,
    All₂.refl_of d fun kv _ => ⟨rfl, Equiv.refl kv.2⟩⟩

/-- `≈` is symmetric -/
theorem Equiv.symm {a b : Val N} : Equiv a b → Equiv b a := by
  induction a using Val.induct generalizing b with
  | scalar v hv => intro h; rw [(equiv_scalar_left hv).mp h]; exact Equiv.refl _
  | arr s d ihs ihd =>
    intro h
    obtain ⟨s', d', rfl, hs, d'', hp, hd⟩ := equiv_arr_left h
    refine equiv_arr_iff.mpr ⟨(hs.imp_mem fun a ha b _ hab => ihs a ha hab).flip, ?_⟩
    have hd' : All₂ EntryEquiv d'' d :=
      (hd.imp_mem (S := fun a b => EntryEquiv b a)
        fun a ha b _ hab => ⟨hab.1.symm, ihd a ha hab.2⟩).flip
    obtain ⟨w, hw1, hw2⟩ := hd'.perm_left hp
    exact ⟨w, hw1.symm, hw2⟩

/-- `≈` is transitive -/
theorem Equiv.trans {a b c : Val N} : Equiv a b → Equiv b c → Equiv a c := by
  induction a using Val.induct generalizing b c with
  | scalar v hv => intro h1 h2; rw [(equiv_scalar_left hv).mp h1]; exact h2
  | arr s d ihs ihd =>
    intro h1 h2
    obtain ⟨s', d', rfl, hs, d1, hp1, hd1⟩ := equiv_arr_left h1
    obtain ⟨s'', d'', rfl, hs', d2, hp2, hd2⟩ := equiv_arr_left h2
    refine equiv_arr_iff.mpr ⟨All₂.trans hs hs' fun a ha b c hab hbc => ihs a ha hab hbc, ?_⟩
    -- d ≈pw d1 ~ d' ≈pw d2 ~ d''
    obtain ⟨w, hw1, hw2⟩ := hd2.perm_left hp1.symm
    -- d1 ≈pw w, d2 ~ w
    refine ⟨w, hw1.symm.trans hp2, ?_⟩
    exact All₂.trans hd1 hw2 fun a ha b c hab hbc => ⟨hab.1.trans hbc.1, ihd a ha hab.2 hbc.2⟩

theorem dictEquiv_symm {d d' : List (Key × Val N)} (h : DictEquiv d d') : DictEquiv d' d := by
  have : Equiv (arr [] d) (arr [] d') := equiv_arr_iff.mpr ⟨.nil, h⟩
  exact (equiv_arr_iff.mp this.symm).2

theorem equivList_symm {l l' : List (Val N)} (h : All₂ Equiv l l') : All₂ Equiv l' l :=
  (h.imp fun _ _ => Equiv.symm).flip


/-! ### generic relations on options and outcomes -/

end
end Val

/-- both absent, or both present and related -/
def OptRel {α β : Type} (R : α → β → Prop) : Option α → Option β → Prop
  | none, none => True
  | some a, some b => R a b
  | _, _ => False

theorem All₂.map_eq {α β γ : Type} {R : α → β → Prop} {f : α → γ} {g : β → γ} {l : List α} {l' : List β}
    (h : All₂ R l l') (hfg : ∀ a ∈ l, ∀ b, R a b → f a = g b) : l.map f = l'.map g := by
  induction h with
  | nil => rfl
  | cons hab _ ih =>
    simp only [List.map_cons]
    rw [hfg _ List.mem_cons_self _ hab, ih fun a ha => hfg a (List.mem_cons_of_mem _ ha)]

namespace Val
open NumOps
section
variable {N : Type} [NumOps N]

/-! ### observables: `Display` -/

theorem displayList_eq_map (l : List (Val N)) : displayList l = l.map display := by
  induction l with
  | nil => simp [displayList]
  | cons a l ih => simp [displayList, ih]

/-- one rendered dictionary entry -/
def entryText (kv : Key × Val N) : Str := keyDisplay kv.1 ++ str% ": " ++ display kv.2

theorem displayDict_eq_map (d : List (Key × Val N)) : displayDict d = d.map entryText := by
  induction d with
  | nil => simp [displayDict]
  | cons a l ih => obtain ⟨k, v⟩ := a; simp [displayDict, ih, entryText]

/-- `Display` does not see the order of any dictionary (no well-formedness needed: the rendered
    entries are sorted as strings). -/
theorem display_congr {a b : Val N} : Equiv a b → display a = display b := by
  induction a using Val.induct generalizing b with
  | scalar v hv => intro h; rw [(equiv_scalar_left hv).mp h]
  | arr s d ihs ihd =>
    intro h
    obtain ⟨s', d', rfl, hs, d'', hp, hd⟩ := equiv_arr_left h
    simp only [display, displayList_eq_map, displayDict_eq_map]
    have e1 : s.map display = s'.map display := hs.map_eq fun a ha b hab => ihs a ha hab
    have e2 : d.map entryText = d''.map entryText :=
      hd.map_eq fun a ha b hab => by
        simp only [entryText, hab.1, ihd a ha hab.2]
    rw [e1, e2, sortStrs_perm (hp.map entryText)]

/-! ### observables: output text, truthiness, decay -/

theorem decay_congr {a b : Val N} (h : Equiv a b) : decay a = decay b := by
  cases ha : a.isArr
  · have := (equiv_scalar_left ha).mp h; rw [this]
  · cases a <;> simp [isArr] at ha
    obtain ⟨s', d', rfl, hs, -⟩ := equiv_arr_left h
    simp [decay, hs.length_eq]

theorem outputText_congr {a b : Val N} (h : Equiv a b) : outputText a = outputText b := by
  cases ha : a.isArr
  · have := (equiv_scalar_left ha).mp h; rw [this]
  · cases a <;> simp [isArr] at ha
    obtain ⟨s', d', rfl, hs, -⟩ := equiv_arr_left h
    simp [outputText, hs.length_eq]

theorem toOutput_congr {a b : Val N} (h : Equiv a b) : toOutput a = toOutput b := by
  rw [toOutput_eq, toOutput_eq, outputText_congr h]

theorem isTruthy_congr {a b : Val N} (h : Equiv a b) : isTruthy a = isTruthy b := by
  cases a <;> cases b <;> simp_all [Equiv, isTruthy]

/-! ### dictionaries: lookup by key -/

theorem dlookup_all₂ {d d' : List (Key × Val N)} (h : All₂ EntryEquiv d d') (k : Key) :
    OptRel Equiv (dlookup k d) (dlookup k d') := by
  induction h with
  | nil => simp [dlookup, OptRel]
  | @cons a b l l' hab _ ih =>
    obtain ⟨k1, v1⟩ := a
    obtain ⟨k2, v2⟩ := b
    obtain ⟨hk, hv⟩ := hab
    simp only at hk hv
    subst hk
    simp only [dlookup]
    split
    · exact hv
    · exact ih

/-- lookup by key does not depend on the order of a dictionary with distinct keys -/
theorem dlookup_perm {d d' : List (Key × Val N)} (hp : List.Perm d d')
    (hn : (d.map Prod.fst).Nodup) (k : Key) : dlookup k d = dlookup k d' := by
  have hn' : (d'.map Prod.fst).Nodup := (hp.map Prod.fst).nodup_iff.mp hn
  cases h : dlookup k d with
  | none =>
    have := dlookup_eq_none_iff.mp h
    have h' : k ∉ d'.map Prod.fst := fun hm => this ((hp.map Prod.fst).mem_iff.mpr hm)
    exact (dlookup_eq_none_iff.mpr h').symm
  | some v =>
    exact (dlookup_of_mem hn' (hp.mem_iff.mp (dlookup_mem h))).symm

theorem all₂_keys {d d' : List (Key × Val N)} (h : All₂ EntryEquiv d d') :
    d.map Prod.fst = d'.map Prod.fst :=
  h.map_eq fun _ _ _ hab => hab.1

theorem dictEquiv_keys_perm {d d' : List (Key × Val N)} (h : DictEquiv d d') :
    List.Perm (d.map Prod.fst) (d'.map Prod.fst) := by
  obtain ⟨d'', hp, ha⟩ := h
  rw [all₂_keys ha]; exact hp.map _

theorem dictEquiv_nodup_iff {d d' : List (Key × Val N)} (h : DictEquiv d d') :
    (d.map Prod.fst).Nodup ↔ (d'.map Prod.fst).Nodup :=
  (dictEquiv_keys_perm h).nodup_iff

theorem dictEquiv_length {d d' : List (Key × Val N)} (h : DictEquiv d d') : d.length = d'.length := by
  simpa using (dictEquiv_keys_perm h).length_eq

/-- lookup by key in related dictionaries (distinct keys) gives related answers -/
theorem dlookup_dictEquiv {d d' : List (Key × Val N)} (h : DictEquiv d d')
    (hn : (d.map Prod.fst).Nodup) (k : Key) : OptRel Equiv (dlookup k d) (dlookup k d') := by
  obtain ⟨d'', hp, ha⟩ := h
  have hn'' : (d''.map Prod.fst).Nodup := by rw [← all₂_keys ha]; exact hn
  rw [← dlookup_perm hp hn'' k]
  exact dlookup_all₂ ha k

theorem dlookup_getD_dictEquiv {d d' : List (Key × Val N)} (h : DictEquiv d d')
    (hn : (d.map Prod.fst).Nodup) (k : Key) :
    Equiv ((dlookup k d).getD undef) ((dlookup k d').getD undef) := by
  have := dlookup_dictEquiv h hn k
  cases h1 : dlookup k d <;> cases h2 : dlookup k d' <;> simp_all [OptRel]

/-! ### observables: `==` -/

theorem eqvList_congr {s1 s1' : List (Val N)} (h1 : All₂ Equiv s1 s1')
    (ih : ∀ a ∈ s1, ∀ a' b b', Equiv a a' → Equiv b b' → WF b → WF b' → eqv a b = eqv a' b') :
    ∀ {s2 s2' : List (Val N)}, All₂ Equiv s2 s2' → WFList s2 → WFList s2' →
      eqvList s1 s2 = eqvList s1' s2' := by
  induction h1 with
  | nil => intro s2 s2' h2 _ _; cases h2 <;> simp [eqvList]
  | cons hab _ ih1 =>
    intro s2 s2' h2 w2 w2'
    cases h2 with
    | nil => simp [eqvList]
    | cons hcd h2' =>
      simp only [WFList] at w2 w2'
      simp only [eqvList]
      rw [ih _ List.mem_cons_self _ _ _ hab hcd w2.1 w2'.1,
        ih1 (fun a ha => ih a (List.mem_cons_of_mem _ ha)) h2' w2.2 w2'.2]

theorem eqvDict_congr {d1 d1' d2 d2' : List (Key × Val N)} (h1 : DictEquiv d1 d1')
    (h2 : DictEquiv d2 d2') (w2 : WF (arr [] d2)) (w2' : WF (arr [] d2'))
    (ih : ∀ kv ∈ d1, ∀ a' b b', Equiv kv.2 a' → Equiv b b' → WF b → WF b' → eqv kv.2 b = eqv a' b') :
    eqvDict d1 d2 = eqvDict d1' d2' := by
  obtain ⟨-, wd2, n2⟩ := (WF_arr_iff _ _).mp w2
  obtain ⟨-, wd2', n2'⟩ := (WF_arr_iff _ _).mp w2'
  obtain ⟨d1'', hp, ha⟩ := h1
  rw [Bool.eq_iff_iff, eqvDict_iff, eqvDict_iff]
  constructor
  · intro H kv' hkv'
    obtain ⟨kv, hkv, hk, hv⟩ := ha.exists_of_mem_right (hp.mem_iff.mpr hkv')
    obtain ⟨v, hl, he⟩ := H kv hkv
    have hr := dlookup_dictEquiv h2 n2 kv.1
    rw [hl] at hr
    cases hl' : dlookup kv.1 d2' with
    | none => simp [hl', OptRel] at hr
    | some w =>
      rw [hl'] at hr
      refine ⟨w, by rw [← hk]; exact hl', ?_⟩
      rw [← ih kv hkv _ _ _ hv hr (wd2 _ (dlookup_mem hl)) (wd2' _ (dlookup_mem hl'))]
      exact he
  · intro H kv hkv
    obtain ⟨kv', hkv', hk, hv⟩ := ha.exists_of_mem_left hkv
    obtain ⟨w, hl', he⟩ := H kv' (hp.mem_iff.mp hkv')
    have hr := dlookup_dictEquiv h2 n2 kv.1
    rw [hk, hl'] at hr
    cases hl : dlookup kv'.1 d2 with
    | none => simp [hl, OptRel] at hr
    | some v =>
      rw [hl] at hr
      refine ⟨v, by rw [hk]; exact hl, ?_⟩
      rw [ih kv hkv _ _ _ hv hr (wd2 _ (dlookup_mem hl)) (wd2' _ (dlookup_mem hl'))]
      exact he

/-- The derived deep equality gives the same answer on related arguments (both sides may be
    reordered); the right-hand values must have distinct keys, because the right dictionary is
    searched by key. -/
theorem eqv_congr {a a' b b' : Val N} : Equiv a a' → Equiv b b' → WF b → WF b' →
    eqv a b = eqv a' b' := by
  induction a using Val.induct generalizing a' b b' with
  | scalar v hv =>
    intro h1 h2 _ _
    rw [← (equiv_scalar_left hv).mp h1]
    cases hb : b.isArr
    · rw [← (equiv_scalar_left hb).mp h2]
    · have hb' : b'.isArr = true := by rw [← equiv_isArr h2]; exact hb
      cases v <;> cases b <;> cases b' <;> simp_all [isArr, eqv]
  | arr s d ihs ihd =>
    intro h1 h2 wb wb'
    obtain ⟨s', d', rfl, hs, hd⟩ := equiv_arr_left h1
    cases hb : b.isArr
    · rw [← (equiv_scalar_left hb).mp h2]
      cases b <;> simp_all [isArr, eqv]
    · cases b <;> simp [isArr] at hb
      rename_i s2 d2
      obtain ⟨s2', d2', rfl, hs2, hd2⟩ := equiv_arr_left h2
      have w := (WF_arr_iff _ _).mp wb
      have w' := (WF_arr_iff _ _).mp wb'
      simp only [eqv]
      rw [eqvList_congr hs (fun a ha a' b b' => ihs a ha) hs2
            ((WFList_iff _).mpr w.1) ((WFList_iff _).mpr w'.1),
        dictEquiv_length hd, dictEquiv_length hd2,
        eqvDict_congr hd hd2 ((WF_arr_iff _ _).mpr ⟨by simp, w.2⟩) ((WF_arr_iff _ _).mpr ⟨by simp, w'.2⟩)
          (fun kv hkv a' b b' => ihd kv hkv)]


/-! ### observables: `is`, ordering -/

/-- componentwise `≈` on pairs -/
def PairEquiv (p q : Val N × Val N) : Prop := Equiv p.1 q.1 ∧ Equiv p.2 q.2

theorem pairEquiv_refl (p : Val N × Val N) : PairEquiv p p := ⟨Equiv.refl _, Equiv.refl _⟩

theorem optRel_pair_refl (o : Option (Val N × Val N)) : OptRel PairEquiv o o := by
  cases o <;> simp [OptRel, pairEquiv_refl]

theorem cmpCoerced_congr {a a' b b' : Val N} (h1 : Equiv a a') (h2 : Equiv b b') :
    OptRel PairEquiv (cmpCoerced a b) (cmpCoerced a' b') := by
  cases ha : a.isArr
  · have ea := (equiv_scalar_left ha).mp h1; subst ea
    cases hb : b.isArr
    · have eb := (equiv_scalar_left hb).mp h2; subst eb
      exact optRel_pair_refl _
    · cases b <;> simp [isArr] at hb
      obtain ⟨s', d', rfl, hs, hd⟩ := equiv_arr_left h2
      have hl := hs.length_eq
      cases a <;> simp [isArr] at ha <;>
        simp [cmpCoerced, kind, decay, OptRel, PairEquiv, hl] <;> exact h2
  · cases a <;> simp [isArr] at ha
    obtain ⟨s', d', rfl, hs, hd⟩ := equiv_arr_left h1
    have hl := hs.length_eq
    cases hb : b.isArr
    · have eb := (equiv_scalar_left hb).mp h2; subst eb
      cases b <;> simp [isArr] at hb <;>
        simp [cmpCoerced, kind, decay, OptRel, PairEquiv, hl] <;> exact h1
    · cases b <;> simp [isArr] at hb
      obtain ⟨s2', d2', rfl, hs2, hd2⟩ := equiv_arr_left h2
      simp only [cmpCoerced, kind, if_true, OptRel, PairEquiv]
      exact ⟨h1, h2⟩

/-- `is` gives the same answer on related arguments -/
theorem equals_congr {a a' b b' : Val N} (h1 : Equiv a a') (h2 : Equiv b b')
    (wb : WF b) (wb' : WF b') : equals a b = equals a' b' := by
  have h := cmpCoerced_congr h1 h2
  have wd : ∀ v : Val N, WF v → WF v.decay := fun v hv => by cases v <;> simp_all [decay]
  -- the right component of a coerced pair is `b`, `b.decay` or a scalar: well-formed
  have wr : ∀ (a b : Val N) p, WF b → cmpCoerced a b = some p → WF p.2 := by
    intro a b p wb hp
    have hdec := wd b wb
    unfold cmpCoerced at hp
    split at hp
    · cases hp; exact wb
    · split at hp <;> first
        | (cases hp; first | exact wb | exact hdec | trivial)
        | (cases hq : (parse _ : Option N) <;> rw [hq] at hp <;> simp at hp; cases hp; first | exact wb | trivial)
  unfold equals
  cases hc : cmpCoerced a b with
  | none => cases hc' : cmpCoerced a' b' <;> simp_all [OptRel]
  | some p =>
    cases hc' : cmpCoerced a' b' with
    | none => simp_all [OptRel]
    | some p' =>
      rw [hc, hc'] at h
      exact eqv_congr h.1 h.2 (wr _ _ _ wb hc) (wr _ _ _ wb' hc')


end
end Val

/-! ### errors that embed values -/

namespace ValErr
section
variable {N : Type}

/-- same error constructor, related value payloads (`a ≈ b`), equal other payloads -/
def Equiv : ValErr N → ValErr N → Prop
  | notIndexable v, notIndexable v' => Val.Equiv v v'
  | invalidKey v, invalidKey v' => Val.Equiv v v'
  | indexNotAssignable k v, indexNotAssignable k' v' => Val.Equiv k k' ∧ Val.Equiv v v'
  | invalidOp op v, invalidOp op' v' => op = op' ∧ Val.Equiv v v'
  | invalidComparison a b, invalidComparison a' b' => Val.Equiv a a' ∧ Val.Equiv b b'
  | invalidSplitDelim v, invalidSplitDelim v' => Val.Equiv v v'
  | invalidJoinDelim v, invalidJoinDelim v' => Val.Equiv v v'
  | invalidJoinElem v, invalidJoinElem v' => Val.Equiv v v'
  | parseNumFailed s, parseNumFailed s' => s = s'
  | invalidRadix v, invalidRadix v' => Val.Equiv v v'
  | numToCharFailed n, numToCharFailed n' => n = n'
  | unexpectedCastParam v, unexpectedCastParam v' => Val.Equiv v v'
  | _, _ => False

instance : HasEquiv (ValErr N) := ⟨Equiv⟩

theorem Equiv.refl (e : ValErr N) : Equiv e e := by
  cases e <;> simp [Equiv, Val.Equiv.refl]

theorem Equiv.symm {e e' : ValErr N} (h : Equiv e e') : Equiv e' e := by
  cases e <;> cases e' <;> simp only [Equiv] at h ⊢ <;>
    first
      | exact h.symm
      | exact Val.Equiv.symm h
      | exact ⟨Val.Equiv.symm h.1, Val.Equiv.symm h.2⟩
      | exact ⟨h.1.symm, Val.Equiv.symm h.2⟩

theorem Equiv.trans {e e' e'' : ValErr N} (h : Equiv e e') (h' : Equiv e' e'') : Equiv e e'' := by
  cases e <;> cases e' <;> simp only [Equiv] at h <;> cases e'' <;> simp only [Equiv] at h' ⊢ <;>
    first
      | exact h.trans h'
      | exact Val.Equiv.trans h h'
      | exact ⟨Val.Equiv.trans h.1 h'.1, Val.Equiv.trans h.2 h'.2⟩
      | exact ⟨h.1.trans h'.1, Val.Equiv.trans h.2 h'.2⟩

variable [NumOps N]

/-- related errors print the same message -/
theorem render_congr {e e' : ValErr N} (h : Equiv e e') : render e = render e' := by
  cases e <;> cases e' <;> simp only [Equiv] at h <;>
    first
      | (simp only [render, Val.display_congr h])
      | (simp only [render, Val.display_congr h.1, Val.display_congr h.2])
      | (simp only [render, h.1, Val.display_congr h.2])
      | (simp only [render, h])

/-- related errors are the same kind of error -/
theorem className_congr {e e' : ValErr N} (h : Equiv e e') : className e = className e' := by
  cases e <;> cases e' <;> simp only [Equiv] at h <;> rfl

end
end ValErr

/-- outcomes of value operations: same constructor, payloads related (`R` on results, `≈` on the
    values inside errors), same crash site -/
def VRel {N α β : Type} (R : α → β → Prop) : VRes N α → VRes N β → Prop
  | .ok a, .ok b => R a b
  | .err e, .err e' => ValErr.Equiv e e'
  | .crash s, .crash s' => s = s'
  | .fuel, .fuel => True
  | .resource, .resource => True
  | _, _ => False

namespace VRel
variable {N α β : Type} {R : α → β → Prop}
@[simp] theorem ok_ok {a : α} {b : β} : VRel (N := N) R (.ok a) (.ok b) ↔ R a b := Iff.rfl
@[simp] theorem err_err {e e' : ValErr N} :
    VRel R (.err e : VRes N α) (.err e' : VRes N β) ↔ ValErr.Equiv e e' := Iff.rfl
@[simp] theorem crash_crash {s s' : Site} :
    VRel R (.crash s : VRes N α) (.crash s' : VRes N β) ↔ s = s' := Iff.rfl
@[simp] theorem fuel_fuel : VRel R (.fuel : VRes N α) (.fuel : VRes N β) ↔ True := Iff.rfl
@[simp] theorem resource_resource : VRel R (.resource : VRes N α) (.resource : VRes N β) ↔ True := Iff.rfl

theorem refl_of {R : α → α → Prop} (r : VRes N α) (h : ∀ a, r = .ok a → R a a) : VRel R r r := by
  cases r <;> simp [VRel, ValErr.Equiv.refl]
  exact h _ rfl

theorem imp {S : α → β → Prop} {r : VRes N α} {r' : VRes N β} (h : VRel R r r')
    (himp : ∀ a b, R a b → S a b) : VRel S r r' := by
  cases r <;> cases r' <;> simp_all [VRel]

/-- `bind` maps related outcomes and related continuations to related outcomes -/
theorem bind {γ δ : Type} {S : γ → δ → Prop} {r : VRes N α} {r' : VRes N β}
    {f : α → VRes N γ} {g : β → VRes N δ} (h : VRel R r r')
    (hfg : ∀ a b, R a b → VRel S (f a) (g b)) : VRel S (r.bind f) (r'.bind g) := by
  cases r <;> cases r' <;> simp_all [VRel, Outcome.bind]

end VRel

namespace Val
open NumOps
section
variable {N : Type} [NumOps N]

/-- `compare`: the same ordering, or the same error with related operands inside -/
theorem compare_congr {a a' b b' : Val N} (h1 : Equiv a a') (h2 : Equiv b b') :
    VRel Eq (compare a b) (compare a' b') := by
  have h := cmpCoerced_congr h1 h2
  unfold compare
  cases hc : cmpCoerced a b with
  | none => cases hc' : cmpCoerced a' b' <;> simp_all [OptRel]
  | some p =>
    cases hc' : cmpCoerced a' b' with
    | none => simp_all [OptRel]
    | some p' =>
      rw [hc, hc'] at h
      obtain ⟨x, y⟩ := p
      obtain ⟨x', y'⟩ := p'
      obtain ⟨hx, hy⟩ := h
      simp only at hx hy ⊢
      cases x <;> cases x' <;> simp only [Equiv] at hx <;>
        cases y <;> cases y' <;> simp only [Equiv] at hy <;>
        simp_all [VRel, ValErr.Equiv]


/-! ### `join`: iteration in key order -/

/-- the rendered key determines the key -/
theorem keyDisplay_injective {k k' : Key} (h : keyDisplay k = keyDisplay k') : k = k' := by
  cases k <;> cases k' <;> (try cases ‹Bool›) <;> (try cases ‹Bool›) <;>
    simp_all [keyDisplay, boolText]

/-- the order `val_iter` sorts dictionary entries by -/
def entryLe (a b : Key × Val N) : Bool := strLe (keyDisplay a.1) (keyDisplay b.1)

theorem dictValuesSorted_eq (d : List (Key × Val N)) :
    dictValuesSorted d = (d.mergeSort entryLe).map (·.2) := rfl

theorem entryLe_trans (a b c : Key × Val N) : entryLe a b = true → entryLe b c = true → entryLe a c = true :=
  strLe_trans _ _ _

theorem entryLe_total (a b : Key × Val N) : (entryLe a b || entryLe b a) = true := strLe_total _ _

theorem entry_eq_of_key_eq {d : List (Key × Val N)} (hn : (d.map Prod.fst).Nodup)
    {a b : Key × Val N} (ha : a ∈ d) (hb : b ∈ d) (hk : a.1 = b.1) : a = b := by
  obtain ⟨ka, va⟩ := a
  obtain ⟨kb, vb⟩ := b
  simp only at hk; subst hk
  have h1 := dlookup_of_mem hn ha
  have h2 := dlookup_of_mem hn hb
  rw [h1] at h2; cases h2; rfl

/-- with distinct keys, sorting by the rendered key is a strict total order on the entries -/
theorem entryLe_antisymm {d : List (Key × Val N)} (hn : (d.map Prod.fst).Nodup) :
    ∀ a ∈ d, ∀ b ∈ d, entryLe a b = true → entryLe b a = true → a = b :=
  fun _ ha _ hb h1 h2 => entry_eq_of_key_eq hn ha hb (keyDisplay_injective (strLe_antisymm h1 h2))

/-- the sorted order of the entries does not depend on the order they are stored in -/
theorem mergeSort_entryLe_perm {d d' : List (Key × Val N)} (hp : List.Perm d d')
    (hn : (d.map Prod.fst).Nodup) : d.mergeSort entryLe = d'.mergeSort entryLe :=
  mergeSort_eq_of_perm entryLe_trans entryLe_total (entryLe_antisymm hn) hp

end
end Val

theorem All₂.map {α β γ δ : Type} {R : α → β → Prop} {S : γ → δ → Prop} {f : α → γ} {g : β → δ}
    {l : List α} {l' : List β} (h : All₂ R l l') (hfg : ∀ a b, R a b → S (f a) (g b)) :
    All₂ S (l.map f) (l'.map g) := by
  induction h with
  | nil => exact .nil
  | cons hab _ ih => exact .cons (hfg _ _ hab) ih

namespace Val
open NumOps
section
variable {N : Type} [NumOps N]

/-- sorting entry-by-entry related dictionaries by key gives entry-by-entry related lists -/
theorem mergeSort_entryLe_all₂ {d d' : List (Key × Val N)} (h : All₂ EntryEquiv d d') :
    All₂ EntryEquiv (d.mergeSort entryLe) (d'.mergeSort entryLe) := by
  obtain ⟨z, rfl, rfl, hz⟩ := h.exists_pairs
  let leZ : (Key × Val N) × (Key × Val N) → (Key × Val N) × (Key × Val N) → Bool :=
    fun p q => entryLe p.1 q.1
  have e1 : (z.mergeSort leZ).map Prod.fst = (z.map Prod.fst).mergeSort entryLe :=
    List.map_mergeSort fun a _ b _ => rfl
  have e2 : (z.mergeSort leZ).map Prod.snd = (z.map Prod.snd).mergeSort entryLe :=
    List.map_mergeSort fun a ha b hb => by
      simp only [leZ, entryLe, (hz a ha).1, (hz b hb).1]
  rw [← e1, ← e2]
  exact All₂.of_pairs _ fun p hp => hz p ((List.mergeSort_perm z leZ).mem_iff.mp hp)

/-- `val_iter` over related arrays (distinct keys) yields related elements, in the same order -/
theorem valIter_congr {s s' : List (Val N)} {d d' : List (Key × Val N)}
    (hs : All₂ Equiv s s') (hd : DictEquiv d d') (hn : (d.map Prod.fst).Nodup) :
    All₂ Equiv (valIter s d) (valIter s' d') := by
  obtain ⟨d'', hp, ha⟩ := hd
  have hn'' : (d''.map Prod.fst).Nodup := by rw [← all₂_keys ha]; exact hn
  simp only [valIter, dictValuesSorted_eq]
  refine hs.append ?_
  rw [← mergeSort_entryLe_perm hp hn'']
  exact (mergeSort_entryLe_all₂ ha).map fun a b hab => hab.2

/-- outcome of `allStrs` on related lists: the same strings, or related offending elements -/
def StrsRel : Except (Val N) (List Str) → Except (Val N) (List Str) → Prop
  | .ok ss, .ok ss' => ss = ss'
  | .error v, .error v' => Equiv v v'
  | _, _ => False

theorem allStrs_congr {l l' : List (Val N)} (h : All₂ Equiv l l') :
    StrsRel (allStrs l) (allStrs l') := by
  induction h with
  | nil => simp [allStrs, StrsRel]
  | @cons a b l l' hab _ ih =>
    cases ha : a.isArr
    · have := (equiv_scalar_left ha).mp hab; subst this
      cases a <;> simp [isArr] at ha <;> simp only [allStrs, StrsRel] <;> try exact hab
      cases h1 : allStrs l <;> cases h2 : allStrs l' <;> simp_all [StrsRel, Except.map]
    · cases a <;> simp [isArr] at ha
      obtain ⟨s', d', rfl, -, -⟩ := equiv_arr_left hab
      simpa only [allStrs, StrsRel] using hab

/-- `join` on related arrays (distinct keys) and related delimiters: the same text, or the same
    error with related values inside -/
theorem join_congr {v v' : Val N} {dl dl' : Option (Val N)} (h : Equiv v v')
    (hdl : OptRel Equiv dl dl') (w : WF v) : VRel Equiv (join v dl) (join v' dl') := by
  cases hv : v.isArr
  · have := (equiv_scalar_left hv).mp h; subst this
    cases v <;> simp [isArr] at hv <;> simp [join, VRel, ValErr.Equiv]
  · cases v <;> simp [isArr] at hv
    rename_i s d
    obtain ⟨s', d', rfl, hs, hd⟩ := equiv_arr_left h
    have hn := ((WF_arr_iff _ _).mp w).2.2
    have hit := allStrs_congr (valIter_congr hs hd hn)
    have hgo : ∀ x : Str, VRel Equiv
        (match allStrs (valIter s d) with
          | .ok ss => (.ok (str (intercalate x ss)) : VRes N (Val N))
          | .error bad => .err (.invalidJoinElem bad))
        (match allStrs (valIter s' d') with
          | .ok ss => (.ok (str (intercalate x ss)) : VRes N (Val N))
          | .error bad => .err (.invalidJoinElem bad)) := by
      intro x
      cases h1 : allStrs (valIter s d) <;> cases h2 : allStrs (valIter s' d') <;>
        simp_all [StrsRel, VRel, ValErr.Equiv]
    have he : (s.isEmpty && d.isEmpty) = (s'.isEmpty && d'.isEmpty) := by
      have l1 := hs.length_eq
      have l2 := dictEquiv_length hd
      cases s <;> cases s' <;> cases d <;> cases d' <;> simp_all
    simp only [join, he]
    cases dl with
    | none =>
      cases dl' with
      | some _ => simp [OptRel] at hdl
      | none => split <;> first | exact hgo [] | simp [VRel]
    | some x =>
      cases dl' with
      | none => simp [OptRel] at hdl
      | some x' =>
        simp only [OptRel] at hdl
        cases hx : x.isArr
        · have := (equiv_scalar_left hx).mp hdl; subst this
          cases x <;> simp [isArr] at hx <;> split <;>
            first | exact hgo _ | simp [VRel, ValErr.Equiv]
        · cases x <;> simp [isArr] at hx
          obtain ⟨s2, d2, rfl, -, -⟩ := equiv_arr_left hdl
          split <;> simpa [VRel, ValErr.Equiv] using hdl


/-! ### well-formedness is invariant under `≈` -/

theorem WF_congr {a b : Val N} : Equiv a b → WF a → WF b := by
  induction a using Val.induct generalizing b with
  | scalar v hv => intro h; rw [← (equiv_scalar_left hv).mp h]; exact id
  | arr s d ihs ihd =>
    intro h w
    obtain ⟨s', d', rfl, hs, hd⟩ := equiv_arr_left h
    have w := (WF_arr_iff _ _).mp w
    refine (WF_arr_iff _ _).mpr ⟨?_, ?_, (dictEquiv_nodup_iff hd).mp w.2.2⟩
    · intro v' hv'
      obtain ⟨v, hv, hr⟩ := hs.exists_of_mem_right hv'
      exact ihs v hv hr (w.1 v hv)
    · intro kv' hkv'
      obtain ⟨d'', hp, ha⟩ := hd
      obtain ⟨kv, hkv, hr⟩ := ha.exists_of_mem_right (hp.mem_iff.mpr hkv')
      exact ihd kv hkv hr.2 (w.2.1 kv hkv)

/-! ### value-producing operations map `≈` to `≈` -/

theorem arrayCoerce_congr {a b : Val N} (h : Equiv a b) : Equiv (arrayCoerce a) (arrayCoerce b) := by
  cases ha : a.isArr
  · have := (equiv_scalar_left ha).mp h; subst this; exact Equiv.refl _
  · cases a <;> simp [isArr] at ha
    obtain ⟨s', d', rfl, -, -⟩ := equiv_arr_left h
    exact h

theorem equiv_decay {a b : Val N} (h : Equiv a b) : Equiv (decay a) (decay b) := by
  rw [decay_congr h]; exact Equiv.refl _

/-- arithmetic lets arrays decay to their length: the coerced operands are *equal* -/
theorem plusCoerced_congr {a a' b b' : Val N} (h1 : Equiv a a') (h2 : Equiv b b') :
    plusCoerced a b = plusCoerced a' b' := by
  cases ha : a.isArr
  · have := (equiv_scalar_left ha).mp h1; subst this
    cases hb : b.isArr
    · have := (equiv_scalar_left hb).mp h2; subst this; rfl
    · cases b <;> simp [isArr] at hb
      obtain ⟨s', d', rfl, hs, -⟩ := equiv_arr_left h2
      cases a <;> simp [isArr] at ha <;> simp [plusCoerced, decay, hs.length_eq]
  · cases a <;> simp [isArr] at ha
    obtain ⟨s', d', rfl, hs, -⟩ := equiv_arr_left h1
    cases hb : b.isArr
    · have := (equiv_scalar_left hb).mp h2; subst this
      cases b <;> simp [isArr] at hb <;> simp [plusCoerced, decay, hs.length_eq]
    · cases b <;> simp [isArr] at hb
      obtain ⟨s2', d2', rfl, hs2, -⟩ := equiv_arr_left h2
      simp [plusCoerced, decay, hs.length_eq, hs2.length_eq]

theorem arithCoerced_congr {a a' b b' : Val N} (h1 : Equiv a a') (h2 : Equiv b b') :
    arithCoerced a b = arithCoerced a' b' := by
  cases ha : a.isArr
  · have := (equiv_scalar_left ha).mp h1; subst this
    cases hb : b.isArr
    · have := (equiv_scalar_left hb).mp h2; subst this; rfl
    · cases b <;> simp [isArr] at hb
      obtain ⟨s', d', rfl, hs, -⟩ := equiv_arr_left h2
      cases a <;> simp [isArr] at ha <;> simp [arithCoerced, decay, hs.length_eq]
  · cases a <;> simp [isArr] at ha
    obtain ⟨s', d', rfl, hs, -⟩ := equiv_arr_left h1
    cases hb : b.isArr
    · have := (equiv_scalar_left hb).mp h2; subst this
      cases b <;> simp [isArr] at hb <;> simp [arithCoerced, decay, hs.length_eq]
    · cases b <;> simp [isArr] at hb
      obtain ⟨s2', d2', rfl, hs2, -⟩ := equiv_arr_left h2
      simp [arithCoerced, decay, hs.length_eq, hs2.length_eq]

/-- `plus` never sees a dictionary: equal results -/
theorem plus_congr (cap : Nat) {a a' b b' : Val N} (h1 : Equiv a a') (h2 : Equiv b b') :
    plus cap a b = plus cap a' b' := by
  simp only [plus, plusCoerced_congr h1 h2]

theorem multiply_congr (cap : Nat) {a a' b b' : Val N} (h1 : Equiv a a') (h2 : Equiv b b') :
    multiply cap a b = multiply cap a' b' := by
  simp only [multiply, arithCoerced_congr h1 h2]

theorem subtract_congr {a a' b b' : Val N} (h1 : Equiv a a') (h2 : Equiv b b') :
    subtract a b = subtract a' b' := by
  simp only [subtract, arithCoerced_congr h1 h2]

theorem divide_congr {a a' b b' : Val N} (h1 : Equiv a a') (h2 : Equiv b b') :
    divide a b = divide a' b' := by
  simp only [divide, arithCoerced_congr h1 h2]

/-- an operation that is the identity-or-error on arrays: a generic scalar/array split -/
theorem vrel_of_scalar_or {f : Val N → VRes N (Val N)} {a b : Val N} (h : Equiv a b)
    (harr : ∀ s d s' d', Equiv (arr s d) (arr s' d') → VRel Equiv (f (arr s d)) (f (arr s' d'))) :
    VRel Equiv (f a) (f b) := by
  cases ha : a.isArr
  · have := (equiv_scalar_left ha).mp h; subst this
    exact VRel.refl_of _ fun _ _ => Equiv.refl _
  · cases a <;> simp [isArr] at ha
    obtain ⟨s', d', rfl, -, -⟩ := equiv_arr_left h
    exact harr _ _ _ _ h

theorem negate_congr {a b : Val N} (h : Equiv a b) : VRel Equiv (negate a) (negate b) :=
  vrel_of_scalar_or h fun _ _ _ _ h => by simpa [negate, VRel, ValErr.Equiv] using h

theorem roundUp_congr {a b : Val N} (h : Equiv a b) : VRel Equiv (roundUp a) (roundUp b) :=
  vrel_of_scalar_or h fun _ _ _ _ h => by simpa [roundUp, VRel, ValErr.Equiv] using h

theorem roundDown_congr {a b : Val N} (h : Equiv a b) : VRel Equiv (roundDown a) (roundDown b) :=
  vrel_of_scalar_or h fun _ _ _ _ h => by simpa [roundDown, VRel, ValErr.Equiv] using h

theorem roundNearest_congr {a b : Val N} (h : Equiv a b) :
    VRel Equiv (roundNearest a) (roundNearest b) :=
  vrel_of_scalar_or h fun _ _ _ _ h => by simpa [roundNearest, VRel, ValErr.Equiv] using h

theorem inc_congr {a b : Val N} (x : Int) (h : Equiv a b) : VRel Equiv (inc a x) (inc b x) :=
  vrel_of_scalar_or (f := fun v => inc v x) h fun _ _ _ _ h => by
    simpa [inc, VRel, ValErr.Equiv] using h

theorem push_congr {a b : Val N} {vs vs' : List (Val N)} (h : Equiv a b) (hv : All₂ Equiv vs vs') :
    VRel Equiv (push a vs) (push b vs') := by
  have hc := arrayCoerce_congr h
  unfold push
  cases hx : arrayCoerce a with
  | arr s d =>
    rw [hx] at hc
    obtain ⟨s', d', hy, hs, hd⟩ := equiv_arr_left hc
    rw [hy]
    exact equiv_arr_iff.mpr ⟨hs.append hv, hd⟩
  | _ =>
    rw [hx] at hc
    rw [← (equiv_scalar_left (by rfl)).mp hc]
    simp [VRel]

theorem pop_congr {a b : Val N} (h : Equiv a b) : VRel PairEquiv (pop a) (pop b) := by
  cases ha : a.isArr
  · have := (equiv_scalar_left ha).mp h; subst this
    exact VRel.refl_of _ fun _ _ => pairEquiv_refl _
  · cases a <;> simp [isArr] at ha
    obtain ⟨s', d', rfl, hs, hd⟩ := equiv_arr_left h
    cases hs with
    | nil => exact ⟨equiv_undef, equiv_arr_iff.mpr ⟨.nil, hd⟩⟩
    | cons hab hs' => exact ⟨hab, equiv_arr_iff.mpr ⟨hs', hd⟩⟩

theorem split_congr {a b : Val N} {dl dl' : Option (Val N)} (h : Equiv a b)
    (hdl : OptRel Equiv dl dl') : VRel Equiv (split a dl) (split b dl') := by
  cases ha : a.isArr
  · have := (equiv_scalar_left ha).mp h; subst this
    cases dl with
    | none =>
      cases dl' with
      | some _ => simp [OptRel] at hdl
      | none => exact VRel.refl_of _ fun _ _ => Equiv.refl _
    | some x =>
      cases dl' with
      | none => simp [OptRel] at hdl
      | some x' =>
        simp only [OptRel] at hdl
        cases hx : x.isArr
        · have := (equiv_scalar_left hx).mp hdl; subst this
          exact VRel.refl_of _ fun _ _ => Equiv.refl _
        · cases x <;> simp [isArr] at hx
          obtain ⟨s2, d2, rfl, -, -⟩ := equiv_arr_left hdl
          unfold split
          split
          · split <;> simpa [VRel, ValErr.Equiv] using hdl
          · simp [VRel, ValErr.Equiv, Equiv.refl]
  · cases a <;> simp [isArr] at ha
    obtain ⟨s', d', rfl, -, -⟩ := equiv_arr_left h
    simpa [split, VRel, ValErr.Equiv] using h

theorem cast_congr {a b : Val N} {p p' : Option (Val N)} (h : Equiv a b)
    (hp : OptRel Equiv p p') : VRel Equiv (cast a p) (cast b p') := by
  cases ha : a.isArr
  · have := (equiv_scalar_left ha).mp h; subst this
    cases p with
    | none =>
      cases p' with
      | some _ => simp [OptRel] at hp
      | none => exact VRel.refl_of _ fun _ _ => Equiv.refl _
    | some x =>
      cases p' with
      | none => simp [OptRel] at hp
      | some x' =>
        simp only [OptRel] at hp
        cases hx : x.isArr
        · have := (equiv_scalar_left hx).mp hp; subst this
          exact VRel.refl_of _ fun _ _ => Equiv.refl _
        · cases x <;> simp [isArr] at hx
          obtain ⟨s2, d2, rfl, -, -⟩ := equiv_arr_left hp
          cases a <;> simp [isArr] at ha <;> simp [cast, VRel, ValErr.Equiv] <;> exact hp
  · cases a <;> simp [isArr] at ha
    obtain ⟨s', d', rfl, -, -⟩ := equiv_arr_left h
    simpa [cast, VRel, ValErr.Equiv] using h

/-- reading an element: by position in the sequence part, by key in the dictionary part -/
theorem index_congr {v v' k k' : Val N} (h : Equiv v v') (hk : Equiv k k') (w : WF v) :
    VRel Equiv (index v k) (index v' k') := by
  cases hv : v.isArr
  · have := (equiv_scalar_left hv).mp h; subst this
    cases hkk : k.isArr
    · have := (equiv_scalar_left hkk).mp hk; subst this
      exact VRel.refl_of _ fun _ _ => Equiv.refl _
    · cases k <;> simp [isArr] at hkk
      obtain ⟨s2, d2, rfl, -, -⟩ := equiv_arr_left hk
      cases v <;> simp [isArr] at hv <;> simp [index, VRel, ValErr.Equiv] <;> exact hk
  · cases v <;> simp [isArr] at hv
    rename_i s d
    obtain ⟨s', d', rfl, hs, hd⟩ := equiv_arr_left h
    have hn := ((WF_arr_iff _ _).mp w).2.2
    cases hkk : k.isArr
    · have := (equiv_scalar_left hkk).mp hk; subst this
      cases k <;> simp [isArr] at hkk <;> simp only [index, toKey, VRel.ok_ok]
      case num n =>
        rcases hs.getElem? (toUSize n) with ⟨h1, h2⟩ | ⟨x, y, h1, h2, hxy⟩
        · simp [h1, h2]
        · simpa [h1, h2] using hxy
      all_goals exact dlookup_getD_dictEquiv hd hn _
    · cases k <;> simp [isArr] at hkk
      obtain ⟨s2, d2, rfl, -, -⟩ := equiv_arr_left hk
      simpa [index, VRel, ValErr.Equiv] using hk


/-! ### the write path -/

/-- `dset` commutes with reordering a dictionary with distinct keys -/
theorem dset_perm {d d' : List (Key × Val N)} (hp : List.Perm d d')
    (hn : (d.map Prod.fst).Nodup) (k : Key) (v : Val N) : List.Perm (dset k v d) (dset k v d') := by
  induction hp with
  | nil => exact .refl _
  | cons x hp ih =>
    obtain ⟨kx, vx⟩ := x
    simp only [List.map_cons, List.nodup_cons] at hn
    simp only [dset]
    split
    · exact hp.cons _
    · exact (ih hn.2).cons _
  | swap x y l =>
    obtain ⟨kx, vx⟩ := x
    obtain ⟨ky, vy⟩ := y
    simp only [List.map_cons, List.nodup_cons, List.mem_cons, not_or] at hn
    simp only [dset]
    by_cases h1 : k = ky
    · subst h1
      have h2 : ¬ k = kx := hn.1.1
      simp only [h2, if_true, if_false]
      exact .swap _ _ _
    · by_cases h2 : k = kx
      · subst h2
        simp only [h1, if_true, if_false]
        exact .swap _ _ _
      · simp only [h1, h2, if_false]
        exact .swap _ _ _
  | trans hp1 _ ih1 ih2 => exact (ih1 hn).trans (ih2 ((hp1.map _).nodup_iff.mp hn))

theorem dset_all₂ {d d' : List (Key × Val N)} (h : All₂ EntryEquiv d d') (k : Key) {c c' : Val N}
    (hc : Equiv c c') : All₂ EntryEquiv (dset k c d) (dset k c' d') := by
  induction h with
  | nil => exact .cons ⟨rfl, hc⟩ .nil
  | @cons a b l l' hab hl ih =>
    obtain ⟨k1, v1⟩ := a
    obtain ⟨k2, v2⟩ := b
    obtain ⟨hk, hv⟩ := hab
    simp only at hk hv
    subst hk
    simp only [dset]
    split
    · exact .cons ⟨rfl, hc⟩ hl
    · exact .cons ⟨rfl, hv⟩ ih

/-- inserting related values under the same key into related dictionaries (distinct keys) -/
theorem dset_congr {d d' : List (Key × Val N)} (h : DictEquiv d d') (hn : (d.map Prod.fst).Nodup)
    (k : Key) {c c' : Val N} (hc : Equiv c c') : DictEquiv (dset k c d) (dset k c' d') := by
  obtain ⟨d'', hp, ha⟩ := h
  have hn'' : (d''.map Prod.fst).Nodup := by rw [← all₂_keys ha]; exact hn
  exact ⟨dset k c' d'', dset_perm hp hn'' k c', dset_all₂ ha k hc⟩

theorem equivList_extendTo {l l' : List (Val N)} (h : All₂ Equiv l l') (n : Nat) :
    All₂ Equiv (extendTo l n) (extendTo l' n) := by
  simp only [extendTo, h.length_eq]
  exact h.append (All₂.replicate equiv_undef _)

/-- the closure handed to the write path respects `≈` (on well-formed cells) -/
def WriterRel {β β' : Type} (Rb : β → β' → Prop) (f : Val N → VRes N (Val N × β))
    (f' : Val N → VRes N (Val N × β')) : Prop :=
  ∀ c c', Equiv c c' → WF c → VRel (fun p p' => Equiv p.1 p'.1 ∧ Rb p.2 p'.2) (f c) (f' c')

/-- what `updateAt_congr` yields -/
def UpdRel {β β' : Type} (Rb : β → β' → Prop) (r : Val N × VRes N β) (r' : Val N × VRes N β') : Prop :=
  Equiv r.1 r'.1 ∧ VRel Rb r.2 r'.2

theorem updateAt_congr_arr {β β' : Type} {Rb : β → β' → Prop} (cap : Nat)
    {f : Val N → VRes N (Val N × β)} {f' : Val N → VRes N (Val N × β')}
    {k k' : Val N} (hk : Equiv k k') {ks ks' : List (Val N)}
    (ih : ∀ v v', Equiv v v' → WF v → UpdRel Rb (updateAt cap f ks v) (updateAt cap f' ks' v'))
    {s s' : List (Val N)} {d d' : List (Key × Val N)} (h : Equiv (arr s d) (arr s' d'))
    (w : WF (arr s d)) :
    UpdRel Rb (updateAt cap f (k :: ks) (arr s d)) (updateAt cap f' (k' :: ks') (arr s' d')) := by
  obtain ⟨hs, hd⟩ := equiv_arr_iff.mp h
  have ws := w
  simp only [WF] at ws
  have hn := ws.2.2
  cases hkk : k.isArr
  · have := (equiv_scalar_left hkk).mp hk; subst this
    cases k <;> simp [isArr] at hkk
    case num n =>
      simp only [updateAt]
      split
      · exact ⟨h, by simp [VRel, ValErr.Equiv]⟩
      · split
        · exact ⟨h, by simp [VRel]⟩
        · rw [← hs.length_eq]
          have hseq : All₂ Equiv
              (if toUSize n ≥ s.length then extendTo s (toUSize n + 1) else s)
              (if toUSize n ≥ s.length then extendTo s' (toUSize n + 1) else s') := by
            split
            · exact equivList_extendTo hs _
            · exact hs
          have wseq : WFList (if toUSize n ≥ s.length then extendTo s (toUSize n + 1) else s) := by
            split
            · exact WFList_extendTo _ ws.1
            · exact ws.1
          rcases hseq.getElem? (toUSize n) with ⟨h1, h2⟩ | ⟨x, y, h1, h2, hxy⟩
          · rw [h1, h2]; exact ⟨h, by simp [VRel]⟩
          · rw [h1, h2]
            have wx : WF x := (WFList_iff _).mp wseq x (List.mem_of_getElem? h1)
            obtain ⟨r1, r2⟩ := ih x y hxy wx
            exact ⟨equiv_arr_iff.mpr ⟨hseq.set _ r1, hd⟩, r2⟩
    all_goals
      simp only [updateAt, toKey]
      have hcell := dlookup_getD_dictEquiv hd hn
      have wcell : ∀ key, WF ((dlookup key d).getD undef) := fun key => WF_dlookup ws.2.1
      first
        | (obtain ⟨r1, r2⟩ := ih _ _ (hcell Key.undef) (wcell _)
           exact ⟨equiv_arr_iff.mpr ⟨hs, dset_congr hd hn _ r1⟩, r2⟩)
        | (obtain ⟨r1, r2⟩ := ih _ _ (hcell Key.null) (wcell _)
           exact ⟨equiv_arr_iff.mpr ⟨hs, dset_congr hd hn _ r1⟩, r2⟩)
        | (obtain ⟨r1, r2⟩ := ih _ _ (hcell (Key.bool _)) (wcell _)
           exact ⟨equiv_arr_iff.mpr ⟨hs, dset_congr hd hn _ r1⟩, r2⟩)
        | (obtain ⟨r1, r2⟩ := ih _ _ (hcell (Key.str _)) (wcell _)
           exact ⟨equiv_arr_iff.mpr ⟨hs, dset_congr hd hn _ r1⟩, r2⟩)
  · cases k <;> simp [isArr] at hkk
    obtain ⟨s2, d2, rfl, -, -⟩ := equiv_arr_left hk
    simp only [updateAt]
    exact ⟨h, by simpa [VRel, ValErr.Equiv] using hk⟩

/-- The write path maps related values, related subscripts and related closures to related
    updated values and related results (the value must have distinct keys at every depth). -/
theorem updateAt_congr {β β' : Type} {Rb : β → β' → Prop} (cap : Nat)
    {f : Val N → VRes N (Val N × β)} {f' : Val N → VRes N (Val N × β')}
    (hf : WriterRel Rb f f') {ks ks' : List (Val N)} (hks : All₂ Equiv ks ks') :
    ∀ v v', Equiv v v' → WF v → UpdRel Rb (updateAt cap f ks v) (updateAt cap f' ks' v') := by
  induction hks with
  | nil =>
    intro v v' h w
    have := hf v v' h w
    simp only [updateAt]
    cases h1 : f v <;> cases h2 : f' v' <;> simp_all [VRel, UpdRel]
  | @cons k k' ks ks' hk _ ih =>
    intro v v' h w
    cases hv : v.isArr
    · have := (equiv_scalar_left hv).mp h; subst this
      cases v <;> simp [isArr] at hv
      case undef =>
        rw [updateAt_undef, updateAt_undef]
        exact updateAt_congr_arr cap hk ih (Equiv.refl _) WF_emptyArr
      all_goals
        simp only [updateAt]
        exact ⟨Equiv.refl _, by simp [VRel, ValErr.Equiv, hk, Equiv.refl]⟩
    · cases v <;> simp [isArr] at hv
      obtain ⟨s', d', rfl, -, -⟩ := equiv_arr_left h
      exact updateAt_congr_arr cap hk ih h w


/-- `join` produces a string: on related arguments the *same* string -/
theorem join_ok_scalar {v r : Val N} {dl : Option (Val N)} (h : join v dl = .ok r) : r.isArr = false := by
  unfold join at h
  simp only at h
  split at h <;> (try split at h) <;> (try split at h) <;> (try split at h) <;>
    first | (cases h; rfl) | cases h

theorem join_congr_eq {v v' : Val N} {dl dl' : Option (Val N)} (h : Equiv v v')
    (hdl : OptRel Equiv dl dl') (w : WF v) : VRel Eq (join v dl) (join v' dl') := by
  have hj := join_congr h hdl w
  cases h1 : join v dl <;> cases h2 : join v' dl' <;> simp_all [VRel]
  exact (equiv_scalar_left (join_ok_scalar h1)).mp hj

end
end Val

/-! ### evaluation helpers (`List.mergeSort` does not reduce in the kernel) -/

/-- the sorted list is the sorted permutation -/
theorem sortStrs_eq_of_sorted {l l' : List Str}
    (hs : l'.Pairwise (fun a b => strLe a b = true)) (hp : l.Perm l') : sortStrs l = l' := by
  rw [sortStrs_perm hp]; exact List.mergeSort_of_pairwise hs

namespace Val
/-- the values `join` visits in the dictionary part: those of the permutation sorted by key -/
theorem dictValuesSorted_eq_of_sorted {N : Type} [NumOps N] {d d' : List (Key × Val N)}
    (hs : d'.Pairwise (fun a b => entryLe a b = true)) (hp : d.Perm d')
    (hn : (d.map Prod.fst).Nodup) : dictValuesSorted d = d'.map (·.2) := by
  rw [dictValuesSorted_eq, mergeSort_entryLe_perm hp hn, List.mergeSort_of_pairwise hs]

/-- the text of a successful string result (for evaluating examples; `Val` has no `DecidableEq`) -/
def okStr? {N : Type} : VRes N (Val N) → Option Str
  | .ok (.str s) => some s
  | _ => none
end Val

/-! ### runtime errors -/

namespace RtErr
section
variable {N : Type}

/-- the same runtime error, up to the order of dictionaries inside embedded values -/
def Equiv : RtErr N → RtErr N → Prop
  | .val e, .val e' => ValErr.Equiv e e'
  | .val _, _ => False
  | _, .val _ => False
  | e, e' => e = e'

instance : HasEquiv (RtErr N) := ⟨Equiv⟩

theorem Equiv.refl (e : RtErr N) : Equiv e e := by
  cases e <;> simp [Equiv, ValErr.Equiv.refl]

theorem equiv_val {e e' : ValErr N} : Equiv (.val e) (.val e') ↔ ValErr.Equiv e e' := by
  simp [Equiv]

theorem equiv_of_eq_left {e e' : RtErr N} (hne : ∀ x, e ≠ .val x) : Equiv e e' ↔ e = e' := by
  cases e <;> cases e' <;> simp_all [Equiv]

variable [NumOps N]

/-- related runtime errors print the same message -/
theorem render_congr {e e' : RtErr N} (h : Equiv e e') : render e = render e' := by
  cases e <;> cases e' <;> simp_all [Equiv]
  exact ValErr.render_congr h

/-- related runtime errors are the same kind of error -/
theorem className_congr {e e' : RtErr N} (h : Equiv e e') : className e = className e' := by
  cases e <;> cases e' <;> simp_all [Equiv]
  exact ValErr.className_congr h

end
end RtErr

/-! ### symbol tables: access by key only -/

namespace DictPerm
open Env
section
variable {N : Type}

theorem slookup_mem {k : VarName} {s : Scope N} {e : Entry N} (h : slookup k s = some e) :
    (k, e) ∈ s := by
  induction s with
  | nil => simp [slookup] at h
  | cons a s ih =>
    obtain ⟨k', e'⟩ := a
    simp only [slookup] at h
    split at h
    · next hk => subst hk; simp at h; simp [h]
    · exact List.mem_cons_of_mem _ (ih h)

theorem slookup_eq_none_iff {k : VarName} {s : Scope N} :
    slookup k s = none ↔ k ∉ s.map Prod.fst := by
  induction s with
  | nil => simp [slookup]
  | cons a s ih =>
    obtain ⟨k', e'⟩ := a
    simp only [slookup]
    split
    · next hk => simp [hk]
    · next hk => simp [ih, hk]

theorem slookup_of_mem {k : VarName} {s : Scope N} {e : Entry N}
    (hn : (s.map Prod.fst).Nodup) (h : (k, e) ∈ s) : slookup k s = some e := by
  induction s with
  | nil => simp at h
  | cons a s ih =>
    obtain ⟨k', e'⟩ := a
    simp only [List.map_cons, List.nodup_cons] at hn
    simp only [slookup]
    rcases List.mem_cons.mp h with h1 | h2
    · cases h1; simp
    · have : k ≠ k' := by
        intro e; subst e
        exact hn.1 (List.mem_map.mpr ⟨(k, _), h2, rfl⟩)
      simp [this, ih hn.2 h2]

/-- lookup by key does not depend on the order in which a scope (with distinct keys, as a
    `HashMap` has) lists its entries -/
theorem slookup_perm {s s' : Scope N} (hp : List.Perm s s') (hn : (s.map Prod.fst).Nodup)
    (k : VarName) : slookup k s = slookup k s' := by
  have hn' : (s'.map Prod.fst).Nodup := (hp.map Prod.fst).nodup_iff.mp hn
  cases h : slookup k s with
  | none =>
    have := slookup_eq_none_iff.mp h
    have h' : k ∉ s'.map Prod.fst := fun hm => this ((hp.map Prod.fst).mem_iff.mpr hm)
    exact (slookup_eq_none_iff.mpr h').symm
  | some v => exact (slookup_of_mem hn' (hp.mem_iff.mp (slookup_mem h))).symm

/-- insertion by key commutes with reordering a scope with distinct keys -/
theorem sset_perm {s s' : Scope N} (hp : List.Perm s s') (hn : (s.map Prod.fst).Nodup)
    (k : VarName) (e : Entry N) : List.Perm (sset k e s) (sset k e s') := by
  induction hp with
  | nil => exact .refl _
  | cons x hp ih =>
    obtain ⟨kx, vx⟩ := x
    simp only [List.map_cons, List.nodup_cons] at hn
    simp only [sset]
    split
    · exact hp.cons _
    · exact (ih hn.2).cons _
  | swap x y l =>
    obtain ⟨kx, vx⟩ := x
    obtain ⟨ky, vy⟩ := y
    simp only [List.map_cons, List.nodup_cons, List.mem_cons, not_or] at hn
    simp only [sset]
    by_cases h1 : k = ky
    · subst h1
      have h2 : ¬ k = kx := hn.1.1
      simp only [h2, if_true, if_false]
      exact .swap _ _ _
    · by_cases h2 : k = kx
      · subst h2
        simp only [h1, if_true, if_false]
        exact .swap _ _ _
      · simp only [h1, h2, if_false]
        exact .swap _ _ _
  | trans hp1 _ ih1 ih2 => exact (ih1 hn).trans (ih2 ((hp1.map _).nodup_iff.mp hn))

theorem sset_keys (k : VarName) (e : Entry N) (s : Scope N) :
    (sset k e s).map Prod.fst =
      if k ∈ s.map Prod.fst then s.map Prod.fst else s.map Prod.fst ++ [k] := by
  induction s with
  | nil => simp [sset]
  | cons a s ih =>
    obtain ⟨k', v'⟩ := a
    simp only [sset]
    split
    · next hk => subst hk; simp
    · next hk =>
      simp only [List.map_cons, ih, List.mem_cons, hk, false_or]
      split <;> simp

/-- insertion by key keeps the keys of a scope distinct -/
theorem sset_nodup (k : VarName) (e : Entry N) {s : Scope N}
    (h : (s.map Prod.fst).Nodup) : ((sset k e s).map Prod.fst).Nodup := by
  rw [sset_keys]
  split
  · exact h
  · next hk =>
    rw [List.nodup_append]
    refine ⟨h, by simp, ?_⟩
    intro a ha b hb
    simp at hb; subst hb
    intro e; subst e; exact hk ha

end
end DictPerm

/-! ### lint report order -/

namespace DictPerm
open Lint

theorem lineLe_trans (a b c : Diag) : decide (a.line ≤ b.line) = true → decide (b.line ≤ c.line) = true →
    decide (a.line ≤ c.line) = true := by
  simp only [decide_eq_true_eq]; omega

theorem lineLe_total (a b : Diag) : (decide (a.line ≤ b.line) || decide (b.line ≤ a.line)) = true := by
  simp only [Bool.or_eq_true, decide_eq_true_eq]; omega

theorem postprocess_perm (ds : List Diag) : (postprocess ds).Perm ds :=
  List.mergeSort_perm _ _

theorem postprocess_sorted (ds : List Diag) :
    (postprocess ds).Pairwise (fun a b => a.line ≤ b.line) := by
  have := List.pairwise_mergeSort (le := fun a b : Diag => decide (a.line ≤ b.line))
    lineLe_trans lineLe_total ds
  simpa [postprocess] using this

/-- stability: the diagnostics of one line keep their relative order -/
theorem postprocess_stable (ds : List Diag) (n : Nat) :
    (postprocess ds).filter (fun d => d.line == n) = ds.filter (fun d => d.line == n) := by
  have hsub : (ds.filter (fun d => d.line == n)).Sublist (postprocess ds) := by
    refine List.sublist_mergeSort (le := fun a b : Diag => decide (a.line ≤ b.line))
      lineLe_trans lineLe_total ?_ List.filter_sublist
    apply List.pairwise_of_forall_mem_list
    intro a ha b hb
    have h1 := (List.mem_filter.mp ha).2
    have h2 := (List.mem_filter.mp hb).2
    simp only [beq_iff_eq] at h1 h2
    simp [h1, h2]
  have h2 := hsub.filter (fun d => d.line == n)
  rw [List.filter_filter] at h2
  simp only [Bool.and_self] at h2
  exact (h2.eq_of_length ((postprocess_perm ds).filter _).length_eq.symm).symm

end DictPerm

end Rrss
