/-
  Rrss.Lemmas.LexerInv — the loop invariant of the lexer model and the induction along
  `step` / `matchLoop` / `next` / `lexLoop`: lexing never crashes, and the token list "tiles" the
  source (`Tiling`): tokens are exact slices at increasing offsets with true positions, separated
  by ignorable text only.
-/
import Rrss.Lemmas.LexerDispatch
namespace Rrss
namespace Lexer
open Spec

set_option linter.unusedSectionVars false

variable {N : Type}

section
variable [CharOps]

/-- a character the lexer may drop between tokens -/
def Ign (c : Char) : Prop :=
  isIgnorableWhitespace c = true ∨ isIgnorablePunctuation c = true ∨ c = '\''

/-- the lexer snapshot `sn` taken after a token that ends the prefix `p` (with `post` following):
    its index is the end of `p` plus possibly some dropped apostrophes, and its line counters
    belong to that index -/
def SnapAt (p post : Str) (sn : Snap) : Prop :=
  ∃ ga post', post = ga ++ post' ∧ (∀ c ∈ ga, c = '\'') ∧ sn.idx = ulen (p ++ ga) ∧
    LineOK sn.line sn.lineStart (p ++ ga)

/-- the tokens `toks` tile the text `rest` that follows the prefix `pre` of the source: each token
    is the exact slice after some ignorable gap, at its true position, with a correct snapshot -/
def Tiling [NumOps N] (kw : List (Str × TK)) : Str → Str → List (Tok N) → Prop
  | _, rest, [] => ∀ c ∈ rest, Ign c
  | pre, rest, t :: ts =>
    ∃ gap post, rest = gap ++ t.spelling ++ post ∧ (∀ c ∈ gap, Ign c) ∧
      TokAt kw (pre ++ gap) t ∧ SnapAt (pre ++ gap ++ t.spelling) post t.after ∧
      Tiling kw (pre ++ gap ++ t.spelling) post ts

theorem Tiling.absorb [NumOps N] {kw : List (Str × TK)} {pre g rest : Str} {toks : List (Tok N)}
    (hg : ∀ c ∈ g, Ign c) (h : Tiling kw (pre ++ g) rest toks) :
    Tiling kw pre (g ++ rest) toks := by
  cases toks with
  | nil =>
    intro c hc
    rcases List.mem_append.mp hc with hc | hc
    · exact hg c hc
    · exact h c hc
  | cons t ts =>
    obtain ⟨gap, post, h1, h2, h3, hsn, h4⟩ := h
    refine ⟨g ++ gap, post, by simp [h1], ?_, by simpa using h3, by simpa using hsn,
      by simpa using h4⟩
    intro c hc
    rcases List.mem_append.mp hc with hc | hc
    · exact hg c hc
    · exact h2 c hc

/-! ### find_word_start -/

theorem findNonWs_spec (rest : Str) (pos : Nat) :
    (findNonWs rest pos = none ∧ ∀ x ∈ rest, isIgnorableWhitespace x = true) ∨
    ∃ g c rest1, findNonWs rest pos = some (pos + ulen g, c, rest1, pos + ulen g + c.utf8Size) ∧
      rest = g ++ c :: rest1 ∧ ∀ x ∈ g, isIgnorableWhitespace x = true := by
  induction rest generalizing pos with
  | nil => left; simp [findNonWs]
  | cons d ds ih =>
    by_cases hd : isIgnorableWhitespace d = true
    · rcases ih (pos + d.utf8Size) with ⟨h1, h2⟩ | ⟨g, c, rest1, h1, h2, h3⟩
      · left; refine ⟨by simp [findNonWs, hd, h1], ?_⟩
        intro x hx; rcases List.mem_cons.mp hx with rfl | hx
        · exact hd
        · exact h2 x hx
      · right
        refine ⟨d :: g, c, rest1, ?_, by simp [h2], ?_⟩
        · simp only [findNonWs, hd, if_true, h1, ulen_cons]
          simp only [Nat.add_assoc]
        · intro x hx; rcases List.mem_cons.mp hx with rfl | hx
          · exact hd
          · exact h3 x hx
    · right
      exact ⟨[], d, ds, by simp [findNonWs, hd], rfl, by simp⟩

theorem findWordStart_spec (rest : Str) (pos : Nat) :
    (findWordStart rest pos = none ∧ ∀ x ∈ rest, isIgnorableWhitespace x = true) ∨
    ∃ g c rest1, findWordStart rest pos =
        some (pos + ulen g, c, rest1, pos + ulen g + c.utf8Size) ∧
      rest = g ++ c :: rest1 ∧ ∀ x ∈ g, isIgnorableWhitespace x = true := by
  unfold findWordStart
  split
  · next hs =>
    cases rest with
    | nil => simp [startsWithNApos, startsWithIgnoreAsciiCase] at hs
    | cons c cs => right; exact ⟨[], c, cs, by simp, rfl, by simp⟩
  · exact findNonWs_spec rest pos

theorem ignWs_ne_nl {x : Char} (h : isIgnorableWhitespace x = true) : x ≠ '\n' := by
  intro he; subst he; simp [isIgnorableWhitespace] at h

/-! ### the tail of a round -/

theorem finish_spec (st1 : LexState N) (r : LexResult N) (a x post : Str)
    (hsrc : st1.src = a ++ post) (hrest : st1.rest = x ++ post)
    (hstop : r.stop = st1.pos + ulen x) (hstop' : r.stop = ulen a) :
    finish st1 r = .ok (.tok r.token
      { st1 with rest := post, pos := r.stop
                 line := st1.line + r.newlines
                 lineStart := r.newLineStart.getD st1.lineStart
                 staged := r.staged }) := by
  unfold finish
  rw [if_pos (by rw [hsrc, hstop']; exact isCharBoundary_append a post)]
  simp only [hrest, hstop, advanceTo_spec]

/-! ### the loop invariant -/

/-- spelling of the pending staged token (empty if none) -/
def stagedSp (st : LexState N) : Str :=
  match st.staged with
  | none => []
  | some s => s.spelling

/-- Loop invariant, with ghost state `cov` = the source text before the next token to be
    delivered: the source is `cov`, then the pending staged token (if any), then the unconsumed
    characters; `pos` is the offset of the first unconsumed character; the line counters belong
    to the consumed text; the staged token is a correct token right after `cov`. -/
structure LInv [NumOps N] (kw : List (Str × TK)) (st : LexState N) (cov : Str) : Prop where
  small : ulen st.src < 4294967296
  src_eq : st.src = cov ++ stagedSp st ++ st.rest
  pos_eq : st.pos = ulen (cov ++ stagedSp st)
  line : LineOK st.line st.lineStart cov
  staged_nonl : NoNl (stagedSp st)
  staged : ∀ s, st.staged = some s → TokAt kw cov s

theorem LInv.init [NumOps N] (kw : List (Str × TK)) (src : Str) (h : ulen src < 4294967296) :
    LInv kw (LexState.init src : LexState N) [] where
  small := h
  src_eq := by simp [LexState.init, stagedSp]
  pos_eq := by simp [LexState.init, stagedSp]
  line := by simpa [LexState.init] using LineOK.init
  staged_nonl := by simpa [LexState.init, stagedSp] using NoNl_nil
  staged := by intro s hs; simp [LexState.init] at hs

/-- one round of `match_loop` from a state without staged token -/
theorem step_spec [NumOps N] (kw : List (Str × TK)) {st : LexState N} {cov : Str}
    (h : LInv kw st cov) (hs : st.staged = none) :
    (∃ st', step kw st = .ok (.eof st') ∧ ∀ c ∈ st.rest, Ign c) ∨
    (∃ st' g, step kw st = .ok (.skip st') ∧ st.rest = g ++ st'.rest ∧ (∀ c ∈ g, Ign c) ∧
        st'.staged = none ∧ LInv kw st' (cov ++ g)) ∨
    (∃ t st' g ga, step kw st = .ok (.tok t st') ∧
        st.rest = g ++ t.spelling ++ ga ++ stagedSp st' ++ st'.rest ∧
        (∀ c ∈ g, Ign c) ∧ (∀ c ∈ ga, c = '\'') ∧ TokAt kw (cov ++ g) t ∧
        LInv kw st' (cov ++ g ++ t.spelling ++ ga)) := by
  have hsp : stagedSp st = [] := by simp [stagedSp, hs]
  have hsrc0 : st.src = cov ++ st.rest := by simpa [hsp] using h.src_eq
  have hpos0 : st.pos = ulen cov := by simpa [hsp] using h.pos_eq
  have hline0 : LineOK st.line st.lineStart cov := h.line
  unfold step
  rcases findWordStart_spec st.rest st.pos with ⟨h1, h2⟩ | ⟨g, c, rest1, h1, h2, h3⟩
  · left
    rw [h1]
    exact ⟨_, rfl, fun c hc => Or.inl (h2 c hc)⟩
  · right
    rw [h1]
    simp only []
    have hgno : NoNl g := NoNl_of_forall (fun x hx => ignWs_ne_nl (h3 x hx))
    have hgign : ∀ x ∈ g, Ign x := fun x hx => Or.inl (h3 x hx)
    have hstart : st.pos + ulen g = ulen (cov ++ g) := by rw [hpos0]; simp
    have hctx : Ctx ({ st with rest := rest1, pos := ulen (cov ++ g) + c.utf8Size } : LexState N)
        (cov ++ g) c :=
      ⟨by simp [hsrc0, h2], rfl, hline0.append hgno, h.small⟩
    rw [hstart]
    rcases dispatch_spec kw hctx with ⟨hd, hig, hcn⟩ | ⟨r, hd, hok⟩
    · -- `continue`
      left
      rw [hd]
      refine ⟨_, g ++ [c], rfl, by simp [h2], ?_, hs, ?_⟩
      · intro x hx
        rcases List.mem_append.mp hx with hx | hx
        · exact hgign x hx
        · simp at hx; subst hx; exact Or.inr hig
      · have hsp' : stagedSp ({ st with rest := rest1, pos := ulen (cov ++ g) + c.utf8Size } :
            LexState N) = [] := by simp [stagedSp, hs]
        refine ⟨h.small, by rw [hsp']; simp [hsrc0, h2], by rw [hsp']; simp [Nat.add_assoc], ?_,
          by rw [hsp']; exact NoNl_nil, ?_⟩
        · have := (hline0.append hgno).append (NoNl_of_forall (q := [c]) (by simpa using hcn))
          simpa using this
        · intro s hs'; simp [hs] at hs'
    · -- a token
      right
      rw [hd]
      simp only []
      obtain ⟨ga, ssp, post, hsrc, hstop, htok, hga, hline, hsspno, hstaged⟩ := hok
      have hcr : c :: rest1 = r.token.spelling ++ ga ++ ssp ++ post := by
        have h5 : st.src = cov ++ g ++ (c :: rest1) := by rw [hsrc0, h2]; simp
        have h6 : st.src = cov ++ g ++ (r.token.spelling ++ ga ++ ssp ++ post) := by
          have : st.src = cov ++ g ++ r.token.spelling ++ ga ++ ssp ++ post := hsrc
          rw [this]; simp
        exact List.append_cancel_left (h5.symm.trans h6)
      obtain ⟨sp', hsp'⟩ := head_of_append htok.ne
        (show r.token.spelling ++ (ga ++ ssp ++ post) = c :: rest1 by rw [hcr]; simp)
      have hrest1 : rest1 = (sp' ++ ga ++ ssp) ++ post := by
        rw [hsp'] at hcr; simp at hcr; rw [hcr]; simp
      have hstop2 : r.stop = ulen (cov ++ g ++ r.token.spelling ++ ga ++ ssp) := by
        have : r.stop = ulen (cov ++ g) + ulen r.token.spelling + ulen ga + ulen ssp := hstop
        rw [this]; simp [Nat.add_assoc]
      have hfin := finish_spec
        ({ st with rest := rest1, pos := ulen (cov ++ g) + c.utf8Size } : LexState N) r
        (cov ++ g ++ r.token.spelling ++ ga ++ ssp) (sp' ++ ga ++ ssp) post
        (by
          have : st.src = cov ++ g ++ r.token.spelling ++ ga ++ ssp ++ post := hsrc
          exact this)
        hrest1
        (by rw [hstop2, hsp']; simp; omega) hstop2
      rw [hfin]
      have hssp : stagedSp ({ st with rest := post, pos := r.stop
                                      line := st.line + r.newlines
                                      lineStart := r.newLineStart.getD st.lineStart
                                      staged := r.staged } : LexState N) = ssp := by
        cases hrs : r.staged with
        | none => rw [hrs] at hstaged; simp [stagedSp, hstaged]
        | some s => rw [hrs] at hstaged; simp [stagedSp, hstaged.1]
      refine ⟨r.token, _, g, ga, rfl, ?_, hgign, hga, htok, ?_⟩
      · rw [hssp, h2, hcr]; simp
      · refine ⟨h.small, ?_, ?_, hline, by rw [hssp]; exact hsspno, ?_⟩
        · rw [hssp]
          have : st.src = cov ++ g ++ r.token.spelling ++ ga ++ ssp ++ post := hsrc
          exact this
        · rw [hssp]; exact hstop2
        · intro s hs'
          have hs'' : r.staged = some s := hs'
          rw [hs''] at hstaged
          exact hstaged.2

/-! ### unfolding the well-founded loops -/

theorem matchLoop_eof [NumOps N] {kw : List (Str × TK)} {st st' : LexState N}
    (h : step kw st = .ok (.eof st')) : matchLoop kw st = .ok (none, st') := by
  rw [matchLoop]
  split <;> rename_i heq <;> rw [h] at heq <;> cases heq
  rfl

theorem matchLoop_tok [NumOps N] {kw : List (Str × TK)} {st st' : LexState N} {t : Tok N}
    (h : step kw st = .ok (.tok t st')) : matchLoop kw st = .ok (some t, st') := by
  rw [matchLoop]
  split <;> rename_i heq <;> rw [h] at heq <;> cases heq
  rfl

theorem matchLoop_skip [NumOps N] {kw : List (Str × TK)} {st st' : LexState N}
    (h : step kw st = .ok (.skip st')) : matchLoop kw st = matchLoop kw st' := by
  rw [matchLoop]
  split <;> rename_i heq <;> rw [h] at heq <;> cases heq
  rfl

theorem lexLoop_nil [NumOps N] {kw : List (Str × TK)} {st st' : LexState N}
    (h : next kw st = .ok (none, st')) : lexLoop kw st = .ok [] := by
  rw [lexLoop]
  split <;> rename_i heq <;> rw [h] at heq <;> cases heq
  all_goals rfl

theorem lexLoop_cons [NumOps N] {kw : List (Str × TK)} {st st' : LexState N} {t : Tok N}
    (h : next kw st = .ok (some t, st')) :
    lexLoop kw st =
      (lexLoop kw st').bind fun ts => .ok ({ t with after := snap st' } :: ts) := by
  rw [lexLoop]
  split <;> rename_i heq <;> rw [h] at heq <;> cases heq
  cases lexLoop kw st' <;> rfl

/-! ### match_loop -/

theorem matchLoop_spec [NumOps N] (kw : List (Str × TK)) :
    ∀ (n : Nat) {st : LexState N} {cov : Str}, st.rest.length = n → LInv kw st cov →
      st.staged = none →
      (∃ st', matchLoop kw st = .ok (none, st') ∧ ∀ c ∈ st.rest, Ign c) ∨
      (∃ t st' g ga, matchLoop kw st = .ok (some t, st') ∧
          st.rest = g ++ t.spelling ++ ga ++ stagedSp st' ++ st'.rest ∧
          (∀ c ∈ g, Ign c) ∧ (∀ c ∈ ga, c = '\'') ∧ TokAt kw (cov ++ g) t ∧
          LInv kw st' (cov ++ g ++ t.spelling ++ ga)) := by
  intro n
  induction n using Nat.strongRecOn with
  | _ n ih =>
    intro st cov hn h hs
    rcases step_spec kw h hs with ⟨st', h1, h2⟩ | ⟨st', g, h1, h2, h3, h4, h5⟩ |
        ⟨t, st', g, ga, h1, h2, h3, h4, h5, h6⟩
    · left; exact ⟨st', matchLoop_eof h1, h2⟩
    · have hlt : st'.rest.length < n := by
        have := step_lt h1
        simp [StepResult.state] at this
        omega
      rw [matchLoop_skip h1]
      rcases ih _ hlt rfl h5 h4 with ⟨st'', k1, k2⟩ | ⟨t, st'', g', ga, k1, k2, k3, k4, k5, k6⟩
      · left
        refine ⟨st'', k1, ?_⟩
        intro c hc; rw [h2] at hc
        rcases List.mem_append.mp hc with hc | hc
        · exact h3 c hc
        · exact k2 c hc
      · right
        refine ⟨t, st'', g ++ g', ga, k1, by rw [h2, k2]; simp, ?_, k4, by simpa using k5,
          by simpa using k6⟩
        intro c hc
        rcases List.mem_append.mp hc with hc | hc
        · exact h3 c hc
        · exact k3 c hc
    · right; exact ⟨t, st', g, ga, matchLoop_tok h1, h2, h3, h4, h5, h6⟩

/-! ### the token loop -/

/-- under the invariant, `current_idx` is the end of the text before the next token -/
theorem currentIdx_of_LInv [NumOps N] {kw : List (Str × TK)} {st : LexState N} {cov : Str}
    (h : LInv kw st cov) : currentIdx st = ulen cov := by
  unfold currentIdx
  cases hs : st.staged with
  | some s => simp only []; exact (h.staged s hs).start_eq
  | none =>
    have hsp : stagedSp st = [] := by simp [stagedSp, hs]
    cases hr : st.rest with
    | nil => simp only []; rw [h.src_eq, hsp, hr]; simp
    | cons d ds => simp only []; rw [h.pos_eq, hsp]; simp

theorem TokAt.with_after [NumOps N] {kw : List (Str × TK)} {p : Str} {t : Tok N} (sn : Snap)
    (h : TokAt kw p t) : TokAt kw p { t with after := sn } :=
  ⟨h.start_eq, h.ne, h.range_eq, h.nl_kind, h.payload⟩

/-- Main loop theorem: from any state satisfying the invariant the token loop returns `ok`, and
    the tokens tile what is left of the source. -/
theorem lexLoop_spec [NumOps N] (kw : List (Str × TK)) :
    ∀ (n : Nat) {st : LexState N} {cov : Str}, measure st = n → LInv kw st cov →
      ∃ toks, lexLoop kw st = .ok toks ∧ Tiling kw cov (stagedSp st ++ st.rest) toks := by
  intro n
  induction n using Nat.strongRecOn with
  | _ n ih =>
    intro st cov hn h
    cases hst : st.staged with
    | some s =>
      have hnext : next kw st = .ok (some s, { st with staged := none }) := by
        simp [next, hst]
      have hsp : stagedSp st = s.spelling := by simp [stagedSp, hst]
      have hlt := next_lt hnext
      have hinv : LInv kw ({ st with staged := none } : LexState N) (cov ++ s.spelling) := by
        have hsp' : stagedSp ({ st with staged := none } : LexState N) = [] := rfl
        refine ⟨h.small, ?_, ?_, ?_, by rw [hsp']; exact NoNl_nil, by intro s' hs'; cases hs'⟩
        · rw [hsp']; simpa [hsp] using h.src_eq
        · rw [hsp']; simpa [hsp] using h.pos_eq
        · exact h.line.append (by simpa [hsp] using h.staged_nonl)
      obtain ⟨ts, k1, k2⟩ := ih _ (by omega) rfl hinv
      rw [lexLoop_cons hnext, k1]
      refine ⟨_, rfl, [], st.rest, by simp [hsp], by simp, ?_, ?_, ?_⟩
      · simpa using (h.staged s hst).with_after _
      · exact ⟨[], st.rest, rfl, by simp, by simpa [snap] using currentIdx_of_LInv hinv,
          by simpa [snap] using hinv.line⟩
      · simpa [stagedSp] using k2
    | none =>
      have hsp : stagedSp st = [] := by simp [stagedSp, hst]
      have hnext : next kw st = matchLoop kw st := by simp [next, hst]
      rcases matchLoop_spec kw _ rfl h hst with ⟨st', k1, k2⟩ |
          ⟨t, st', g, ga, k1, k2, k3, k4, k5, k6⟩
      · rw [k1] at hnext
        exact ⟨[], lexLoop_nil hnext, by simpa [hsp, Tiling] using k2⟩
      · rw [k1] at hnext
        have hlt := next_lt hnext
        obtain ⟨ts, j1, j2⟩ := ih _ (by omega) rfl k6
        rw [lexLoop_cons hnext, j1]
        refine ⟨_, rfl, g, ga ++ stagedSp st' ++ st'.rest, by rw [hsp, k2]; simp, k3,
          k5.with_after _,
          ⟨ga, stagedSp st' ++ st'.rest, by simp, k4, currentIdx_of_LInv k6, k6.line⟩, ?_⟩
        have hga : ∀ c ∈ ga, Ign c := fun c hc => Or.inr (Or.inr (k4 c hc))
        have := Tiling.absorb hga (by simpa using j2 :
          Tiling kw (cov ++ g ++ t.spelling ++ ga) (stagedSp st' ++ st'.rest) ts)
        simpa using this

/-- `lexAll` never fails, and its tokens tile the whole source -/
theorem lexAll_spec [NumOps N] (kw : List (Str × TK)) (src : Str) (h : ulen src < 4294967296) :
    ∃ toks : List (Tok N), lexAll kw src = .ok toks ∧ Tiling kw [] src toks := by
  obtain ⟨toks, h1, h2⟩ := lexLoop_spec kw _ rfl (LInv.init (N := N) kw src h)
  exact ⟨toks, h1, by simpa [stagedSp, LexState.init] using h2⟩

end
end Lexer
end Rrss
