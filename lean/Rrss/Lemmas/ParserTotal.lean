/-
  Rrss.Lemmas.ParserTotal — putting the three halves together: the lexer is total and hands the
  parser a token list satisfying `ToksOk` (Rrss.Lemmas.LexerC12), the parser's fuel suffices
  (Rrss.Lemmas.ParserFuel), the parser never crashes and its errors render
  (Rrss.Lemmas.ParserNoCrash). Also: kernel-evaluable reports for the non-vacuity examples.
-/
import Rrss.Lemmas.ParserNoCrash
import Rrss.Lemmas.ParserFuel
import Rrss.Lemmas.LexerC12
import Rrss.Lemmas.LexerEval
namespace Rrss
namespace Parser
open Lexer (lexAll)

set_option linter.unusedSectionVars false
variable {N : Type} {α : Type} [CharOps]

/-- what `Safe p` says, without `wp` -/
theorem safe_iff (p : P N α) :
    Safe p ↔ ∀ st, StOk st →
      (∀ s, p st ≠ .crash s) ∧ p st ≠ .resource ∧ (∀ e, p st = .err e → ErrRenderable e) ∧
      (∀ a st', p st = .ok (a, st') → StOk st') := by
  constructor
  · intro h st hst
    have := h st hst
    unfold wp at this
    cases hp : p st with
    | ok r => obtain ⟨a, st'⟩ := r; rw [hp] at this; simpa using this.1
    | err e => rw [hp] at this; simpa using this
    | crash s => rw [hp] at this; exact this.elim
    | resource => rw [hp] at this; exact this.elim
    | fuel => simp
  · intro h st hst
    obtain ⟨h1, h2, h3, h4⟩ := h st hst
    unfold wp
    cases hp : p st with
    | ok r => obtain ⟨a, st'⟩ := r; exact ⟨h4 a st' hp, trivial⟩
    | err e => exact h3 e hp
    | crash s => exact h1 s hp
    | resource => exact h2 hp
    | fuel => trivial

theorem ToksOk.filter {src : Str} {l : List (Tok N)} (h : ToksOk src l) (p : Tok N → Bool) :
    ToksOk src (l.filter p) :=
  ⟨fun t ht => h.1 t (List.mem_filter.mp ht).1, h.2.sublist List.filter_sublist⟩

/-- the raw token list of the lexer satisfies the parser's invariant -/
theorem toksOk_of_lex [NumOps N] {kw : List (Str × TK)} {src : Str} {raw : List (Tok N)}
    (hlen : ulen src < 2 ^ 32) (h : lexAll kw src = .ok raw) : ToksOk src raw := by
  refine ⟨fun t ht => ?_, Lexer.c12_order hlen h⟩
  obtain ⟨h1, h2⟩ := Lexer.c12_spelling hlen h t ht
  obtain ⟨h3, h4, -, -⟩ := Lexer.c01_snapshots hlen h t ht
  exact ⟨h1, h2, h3, h4⟩

/-- the initial parser state on a lexed source is good -/
theorem initState_ok [NumOps N] {kw : List (Str × TK)} {src : Str} {raw : List (Tok N)}
    (hlen : ulen src < 2 ^ 32) (h : lexAll kw src = .ok raw) : StOk (initState src raw) := by
  obtain ⟨h1, h2, -⟩ := Lexer.c01_eofSnap hlen h
  refine ⟨(toksOk_of_lex hlen h).filter _, ⟨Nat.le_refl _, Nat.zero_le _⟩, ⟨h2, ?_⟩⟩
  show (Lexer.eofSnap src raw).idx ≤ ulen src
  rw [h1]; exact Nat.le_refl _

/-- an entry point that is fuel-good and safe at every depth is total under `runOn`, and its
    errors render -/
theorem runOn_total [NumOps N] {γ : Type} (entry : Rec N → P N γ)
    (hg : ∀ n, G n qF (entry (parser n))) (hs : ∀ n, Safe (entry (parser n)))
    (kw : List (Str × TK)) (src : Str) (hlen : ulen src < 2 ^ 32) :
    (∃ a, runOn entry kw src = .ok a) ∨
      (∃ e, runOn entry kw src = .err e ∧ ErrRenderable e) := by
  obtain ⟨raw, hlex⟩ := Lexer.c12_total (N := N) kw src hlen
  have hst := initState_ok hlen hlex
  have hfuel := runOn_ne_fuel entry hg kw src
  unfold runOn at hfuel ⊢
  rw [hlex] at hfuel ⊢
  simp only at hfuel ⊢
  have hw := hs ((initState src raw).toks.length + 2) (initState src raw) hst
  unfold wp at hw
  cases he : entry (parser ((initState src raw).toks.length + 2)) (initState src raw) with
  | ok r => obtain ⟨a, st'⟩ := r; exact Or.inl ⟨a, rfl⟩
  | err e => rw [he] at hw; exact Or.inr ⟨e, rfl, hw⟩
  | crash s => rw [he] at hw; exact hw.elim
  | resource => rw [he] at hw; exact hw.elim
  | fuel => rw [he] at hfuel; exact (hfuel rfl).elim

/-! ### kernel-evaluable reports (for examples) -/

/-- `runOn` on an explicit raw token list -/
def runToks {γ : Type} (entry : Rec N → P N γ) (src : Str) (raw : List (Tok N)) :
    Outcome (ParseErr N) γ :=
  let st := initState src raw
  match entry (parser (st.toks.length + 2)) st with
  | .ok (a, _) => .ok a
  | .err e => .err e
  | .crash s => .crash s
  | .fuel => .fuel
  | .resource => .resource

theorem runOn_of_lex [NumOps N] {γ : Type} (entry : Rec N → P N γ) {kw : List (Str × TK)}
    {src : Str} {raw : List (Tok N)} (h : lexAll kw src = .ok raw) :
    runOn entry kw src = runToks entry src raw := by
  unfold runOn runToks; rw [h]; rfl

/-- what parsing `src` as a program reports: `some none` = a program, `some (some msg)` = a parse
    error rendered as `msg`, `none` = anything else; lexing goes through the fuel copy of the
    lexer loops (kernel-evaluable) -/
def parseReportF [NumOps N] (kw : List (Str × TK)) (n : Nat) (src : Str) : Option (Option Str) :=
  match Lexer.lexLoopF (N := N) kw n (Lexer.LexState.init src) with
  | .ok raw =>
    match runToks (fun r => r.program) src raw with
    | .ok _ => some none
    | .err e =>
      match renderParseError e with
      | .ok s => some (some s)
      | _ => none
    | _ => none
  | _ => none

theorem parseReportF_ok [NumOps N] {kw : List (Str × TK)} {n : Nat} {src : Str}
    (h : parseReportF (N := N) kw n src = some none) :
    ∃ p : Program N, parseProgram kw src = .ok p := by
  unfold parseReportF at h
  split at h
  · next raw hl =>
    have hl' : lexAll kw src = .ok raw := Lexer.lexLoopF_sound kw n _ raw hl
    unfold parseProgram; rw [runOn_of_lex _ hl']
    split at h
    · next p hp => exact ⟨p, hp⟩
    · split at h <;> cases h
    · cases h
  · cases h

theorem parseReportF_err [NumOps N] {kw : List (Str × TK)} {n : Nat} {src : Str} {msg : Str}
    (h : parseReportF (N := N) kw n src = some (some msg)) :
    ∃ e : ParseErr N, parseProgram kw src = .err e ∧ renderParseError e = .ok msg := by
  unfold parseReportF at h
  split at h
  · next raw hl =>
    have hl' : lexAll kw src = .ok raw := Lexer.lexLoopF_sound kw n _ raw hl
    unfold parseProgram; rw [runOn_of_lex _ hl']
    split at h
    · cases h
    · next e he =>
      split at h
      · next s hs => simp at h; subst h; exact ⟨e, he, hs⟩
      · cases h
    · cases h
  · cases h

end Parser
end Rrss
