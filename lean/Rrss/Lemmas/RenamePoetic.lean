/-
  Rrss.Lemmas.RenamePoetic — the renaming simulation of Rrss/Lemmas/Rename.lean once more, for a
  transformation of programs that, in addition to renaming every name by `ρ`, applies a function
  `φ` to every element of every poetic number literal (`RenameP.program ρ φ`); under the
  hypothesis that `φ` does not change the value of a poetic number literal
  (`Poetic.computeValue (l.map φ) = Poetic.computeValue l`) the transformed program behaves like
  the original one up to the name mentioned by an error.  Used for C15 at text level: re-casing a
  source text re-cases names AND the words of poetic number literals.

  The expression-level transformations (`Rename.ident/primary/expr/exprs/exprList/lhs`) and the
  relations that do not mention blocks (`Rename.KeyRel/ResRel/ExRel/WOutRel/KeyInj/target`) are
  reused; everything that mentions function bodies (`EntryRel … EnvRel`, `MRel`, the lemmas per
  interpreter function) is stated anew, the proofs are those of Rename.lean.
-/
import Rrss.Lemmas.Rename
set_option linter.unusedSectionVars false
set_option linter.unusedVariables false
namespace Rrss
namespace RenameP
open Env Interp
open Rename (ident primary expr exprs exprList lhs exprs_eq_map exprs_length KeyRel ResRel ExRel
  KeyInj zip_map target WOutRel ResRel.imp)

/-! ### renaming the syntax -/

section
variable {N : Type} (ρ : VarName → VarName) (φ : PoeticElem → PoeticElem)

def poeticRhs : PoeticRhs N → PoeticRhs N
  | .expr e => .expr (expr ρ e)
  | .lit x => .lit (x.map φ)

def pushRhs : PushRhs N → PushRhs N
  | .list l => .list (exprList ρ l)
  | .lit x => .lit (x.map φ)

mutual
def stmt : Stmt N → Stmt N
  | .assign d op v => .assign (lhs ρ d) op (exprList ρ v)
  | .poeticNum d rhs => .poeticNum (lhs ρ d) (poeticRhs ρ φ rhs)
  | .poeticStr d s => .poeticStr (lhs ρ d) s
  | .ifS c t e => .ifS (expr ρ c) (block t) (match e with | some b => some (block b) | none => none)
  | .whileS c b => .whileS (expr ρ c) (block b)
  | .untilS c b => .untilS (expr ρ c) (block b)
  | .inc d r a => .inc (ident ρ d) r a
  | .dec d r a => .dec (ident ρ d) r a
  | .input d loc => .input (d.map (lhs ρ)) loc
  | .output v => .output (expr ρ v)
  | .mutation op operand d p => .mutation op (primary ρ operand) (d.map (lhs ρ)) (p.map (expr ρ))
  | .rounding dir e => .rounding dir (expr ρ e)
  | .continue_ r => .continue_ r
  | .break_ r => .break_ r
  | .push a v => .push (primary ρ a) (v.map (pushRhs ρ φ))
  | .pop a d => .pop (primary ρ a) (d.map (lhs ρ))
  | .ret v => .ret (expr ρ v)
  | .func name r params body => .func (ρ name) r (params.map fun p => (ρ p.1, p.2)) (block body)
  | .call name r args => .call (ρ name) r (exprs ρ args)
def block : Block N → Block N
  | .mk loc ss => .mk loc (stmts ss)
def stmts : List (Stmt N) → List (Stmt N)
  | [] => []
  | s :: ss => stmt s :: stmts ss
end

def blocks : List (Block N) → List (Block N)
  | [] => []
  | b :: bs => block ρ φ b :: blocks bs

/-- the program with every variable, parameter and function name `n` replaced by `ρ n` -/
def program (p : Program N) : Program N := ⟨blocks ρ φ p.code⟩

theorem stmts_eq_map (ss : List (Stmt N)) : stmts ρ φ ss = ss.map (stmt ρ φ) := by
  induction ss with
  | nil => simp [stmts]
  | cons e es ih => simp [stmts, ih]

theorem blocks_eq_map (bs : List (Block N)) : blocks ρ φ bs = bs.map (block ρ φ) := by
  induction bs with
  | nil => simp [blocks]
  | cons e es ih => simp [blocks, ih]

@[simp] theorem block_stmts (b : Block N) : (block ρ φ b).stmts = stmts ρ φ b.stmts := by
  cases b; simp [block, Block.stmts]

/-! ### relations -/

/-- entries: same value; functions with renamed parameters and body -/
def EntryRel : Entry N → Entry N → Prop
  | .var v, .var v' => v = v'
  | .func ps b, .func ps' b' => ps' = ps.map ρ ∧ b' = block ρ φ b
  | _, _ => False

def BindRel [CharOps] (a b : VarName × Entry N) : Prop := KeyRel ρ a.1 b.1 ∧ EntryRel ρ φ a.2 b.2

/-- scopes: binding by binding, in the same order -/
def ScopeRel [CharOps] (s s' : Scope N) : Prop := All₂ (BindRel ρ φ) s s'

/-- environments: related scopes, the pronoun refers to the renamed name, everything else equal -/
def EnvRel [CharOps] (e e' : Env N) : Prop :=
  All₂ (ScopeRel ρ φ) e.scopes e'.scopes ∧ e'.last = e.last.map ρ ∧ e.input = e'.input ∧
  e.handed = e'.handed ∧ e.readFault = e'.readFault ∧ e.out = e'.out ∧
  e.wbudget = e'.wbudget ∧ e.steps = e'.steps ∧ e.cap = e'.cap

def ORel [CharOps] {α α' : Type} (R : α → α' → Prop) (r : Outcome (RtErr N) α × Env N)
    (r' : Outcome (RtErr N) α' × Env N) : Prop :=
  ResRel ρ R r.1 r'.1 ∧ EnvRel ρ φ r.2 r'.2

def MRel [CharOps] {α α' : Type} (R : α → α' → Prop) (m : M N α) (m' : M N α') : Prop :=
  ∀ e e', EnvRel ρ φ e e' → ORel ρ φ R (m e) (m' e')

end

section
variable [CharOps] {N : Type} {ρ : VarName → VarName} {φ : PoeticElem → PoeticElem} {α α' β β' : Type}

/-! ### the monad -/

theorem MRel.bind {R : α → α' → Prop} {S : β → β' → Prop} {m : M N α} {m' : M N α'}
    {f : α → M N β} {f' : α' → M N β'}
    (h1 : MRel ρ φ R m m') (h2 : ∀ a a', R a a' → MRel ρ φ S (f a) (f' a')) :
    MRel ρ φ S (m >>= f) (m' >>= f') := by
  intro e e' he
  have h := h1 e e' he
  show ORel ρ φ S (M.bind m f e) (M.bind m' f' e')
  unfold M.bind
  rcases hm : m e with ⟨(a | x | s | _ | _), e1⟩ <;>
    rcases hm' : m' e' with ⟨(a' | x' | s' | _ | _), e1'⟩ <;>
    rw [hm, hm'] at h <;> simp_all [ORel, ResRel]
  exact h2 a a' h.1 e1 e1' h.2

theorem MRel.pure {R : α → α' → Prop} {a : α} {a' : α'} (h : R a a') :
    MRel (N := N) ρ φ R (pure a) (pure a') :=
  fun _ _ he => ⟨h, he⟩

theorem mrel_fail {R : α → α' → Prop} (x : RtErr N) :
    MRel ρ φ R (M.fail x : M N α) (M.fail (x.mapName ρ) : M N α') :=
  fun _ _ he => ⟨rfl, he⟩

theorem mrel_fail' {R : α → α' → Prop} {x x' : RtErr N} (h : x' = x.mapName ρ) :
    MRel ρ φ R (M.fail x : M N α) (M.fail x' : M N α') :=
  h ▸ mrel_fail x

theorem mrel_crash {R : α → α' → Prop} (s : Site) :
    MRel (N := N) ρ φ R (M.crash s : M N α) (M.crash s : M N α') :=
  fun _ _ he => ⟨rfl, he⟩

theorem mrel_outOfFuel {R : α → α' → Prop} :
    MRel (N := N) ρ φ R (M.outOfFuel : M N α) (M.outOfFuel : M N α') :=
  fun _ _ he => ⟨trivial, he⟩

theorem mrel_outOfResource {R : α → α' → Prop} :
    MRel (N := N) ρ φ R (M.outOfResource : M N α) (M.outOfResource : M N α') :=
  fun _ _ he => ⟨trivial, he⟩

theorem mrel_get : MRel (N := N) ρ φ (EnvRel ρ φ) M.get M.get :=
  fun _ _ he => ⟨he, he⟩

theorem mrel_liftV (r : VRes N α) : MRel ρ φ Eq (M.liftV r) (M.liftV r) := by
  intro e e' he
  cases r <;> simp_all [M.liftV, ORel, ResRel, RtErr.mapName]

theorem mrel_liftE {R : α → α' → Prop} {r : Except (RtErr N) α} {r' : Except (RtErr N) α'}
    (h : ExRel ρ R r r') : MRel ρ φ R (M.liftE r) (M.liftE r') := by
  intro e e' he
  cases r <;> cases r' <;> simp_all [ExRel, M.liftE, ORel, ResRel]

theorem mrel_assert (s : Site) (b : Bool) :
    MRel (N := N) ρ φ (fun _ _ => True) (M.assert s b) (M.assert s b) := by
  unfold M.assert
  split
  · exact MRel.pure trivial
  · exact mrel_crash s

theorem MRel.of_fields {R : α → α' → Prop} {m : M N α} {m' : M N α'}
    (h : ∀ sc sc' last input handed rf out wb steps cap, All₂ (ScopeRel ρ φ) sc sc' →
      ORel ρ φ R (m ⟨sc, last, input, handed, rf, out, wb, steps, cap⟩)
        (m' ⟨sc', last.map ρ, input, handed, rf, out, wb, steps, cap⟩)) : MRel ρ φ R m m' := by
  intro e e' he
  obtain ⟨sc, last, input, handed, rf, out, wb, steps, cap⟩ := e
  obtain ⟨sc', last', input', handed', rf', out', wb', steps', cap'⟩ := e'
  obtain ⟨hs, h1, h2, h3, h4, h5, h6, h7, h8⟩ := he
  simp only at hs h1 h2 h3 h4 h5 h6 h7 h8
  subst h1 h2 h3 h4 h5 h6 h7 h8
  exact h _ _ _ _ _ _ _ _ _ _ hs

theorem envRel_mk {sc sc' : List (Scope N)} (hs : All₂ (ScopeRel ρ φ) sc sc')
    (last input handed rf out wb steps cap) :
    EnvRel (N := N) ρ φ ⟨sc, last, input, handed, rf, out, wb, steps, cap⟩
      ⟨sc', last.map ρ, input, handed, rf, out, wb, steps, cap⟩ :=
  ⟨hs, rfl, rfl, rfl, rfl, rfl, rfl, rfl, rfl⟩

end

/-! ### scopes: access by key under an injective-on-keys renaming -/

section
variable [CharOps] {N : Type} [NumOps N] {ρ : VarName → VarName} {φ : PoeticElem → PoeticElem} {α α' β β' : Type}

theorem slookup_rel (hρ : KeyInj ρ) {s s' : Scope N} (h : ScopeRel ρ φ s s') (n : VarName) :
    OptRel (EntryRel ρ φ) (slookup n.key s) (slookup (ρ n).key s') := by
  induction h with
  | nil => simp [slookup, OptRel]
  | @cons a b l l' hab _ ih =>
    obtain ⟨k1, v1⟩ := a
    obtain ⟨k2, v2⟩ := b
    obtain ⟨⟨m, hk1, hk2⟩, hv⟩ := hab
    simp only at hk1 hk2 hv
    subst hk1 hk2
    simp only [slookup, hρ n m]
    split
    · exact hv
    · exact ih

theorem sset_rel (hρ : KeyInj ρ) {s s' : Scope N} (h : ScopeRel ρ φ s s') (n : VarName)
    {e e' : Entry N} (he : EntryRel ρ φ e e') :
    ScopeRel ρ φ (sset n.key e s) (sset (ρ n).key e' s') := by
  induction h with
  | nil => exact .cons ⟨⟨n, rfl, rfl⟩, he⟩ .nil
  | @cons a b l l' hab hl ih =>
    obtain ⟨k1, v1⟩ := a
    obtain ⟨k2, v2⟩ := b
    obtain ⟨⟨m, hk1, hk2⟩, hv⟩ := hab
    simp only at hk1 hk2 hv
    subst hk1 hk2
    simp only [sset, hρ n m]
    split
    · exact .cons ⟨⟨m, rfl, rfl⟩, he⟩ hl
    · exact .cons ⟨⟨m, rfl, rfl⟩, hv⟩ ih

theorem lookupVarIn_rel (hρ : KeyInj ρ) (name : VarName) {sc sc' : List (Scope N)}
    (h : All₂ (ScopeRel ρ φ) sc sc') :
    ExRel ρ Eq (lookupVarIn name sc) (lookupVarIn (ρ name) sc') := by
  induction h with
  | nil => simp [lookupVarIn, ExRel, RtErr.mapName]
  | @cons s s' l l' hs _ ih =>
    have := slookup_rel hρ hs name
    simp only [lookupVarIn]
    cases h1 : slookup name.key s <;> cases h2 : slookup (ρ name).key s' <;>
      rw [h1, h2] at this <;> simp only [OptRel] at this
    · exact ih
    · rename_i e e'
      cases e <;> cases e' <;> simp only [EntryRel] at this
      · exact this
      · simp [ExRel, RtErr.mapName]

theorem lookupFuncIn_rel (hρ : KeyInj ρ) (name : VarName) {sc sc' : List (Scope N)}
    (h : All₂ (ScopeRel ρ φ) sc sc') :
    ExRel ρ (fun p p' => p'.1 = p.1.map ρ ∧ p'.2 = block ρ φ p.2)
      (lookupFuncIn name sc) (lookupFuncIn (ρ name) sc') := by
  induction h with
  | nil => simp [lookupFuncIn, ExRel, RtErr.mapName]
  | @cons s s' l l' hs _ ih =>
    have := slookup_rel hρ hs name
    simp only [lookupFuncIn]
    cases h1 : slookup name.key s <;> cases h2 : slookup (ρ name).key s' <;>
      rw [h1, h2] at this <;> simp only [OptRel] at this
    · exact ih
    · rename_i e e'
      cases e <;> cases e' <;> simp only [EntryRel] at this
      · simp [ExRel, RtErr.mapName]
      · exact this

theorem setVarIn_rel (hρ : KeyInj ρ) (name : VarName) (v : Val N) {sc sc' : List (Scope N)}
    (h : All₂ (ScopeRel ρ φ) sc sc') :
    All₂ (ScopeRel ρ φ) (setVarIn name v sc) (setVarIn (ρ name) v sc') := by
  induction h with
  | nil => exact .nil
  | @cons s s' l l' hs hl ih =>
    have := slookup_rel hρ hs name
    simp only [setVarIn]
    cases h1 : slookup name.key s <;> cases h2 : slookup (ρ name).key s' <;>
      rw [h1, h2] at this <;> simp only [OptRel] at this
    · exact .cons hs ih
    · exact .cons (sset_rel hρ hs _ (e := .var v) (e' := .var v) rfl) hl

/-! ### `Env` primitives -/

theorem mrel_pushScope : MRel (N := N) ρ φ (fun _ _ => True) pushScope pushScope := by
  apply MRel.of_fields
  intro sc sc' last input handed rf out wb steps cap hs
  exact ⟨trivial, envRel_mk (.cons .nil hs) ..⟩

theorem mrel_popScope : MRel (N := N) ρ φ (fun _ _ => True) popScope popScope := by
  apply MRel.of_fields
  intro sc sc' last input handed rf out wb steps cap hs
  unfold popScope
  cases hs with
  | nil => exact ⟨rfl, envRel_mk .nil ..⟩
  | cons h1 hs' =>
    cases hs' with
    | nil => exact ⟨rfl, envRel_mk (.cons h1 .nil) ..⟩
    | cons h2 hs'' => exact ⟨trivial, envRel_mk (last := none) (.cons h2 hs'') ..⟩

theorem mrel_lookupVar (hρ : KeyInj ρ) (name : VarName) :
    MRel (N := N) ρ φ Eq (lookupVar name) (lookupVar (ρ name)) := by
  apply MRel.of_fields
  intro sc sc' last input handed rf out wb steps cap hs
  have := lookupVarIn_rel hρ name hs
  unfold lookupVar
  simp only
  cases h1 : lookupVarIn name sc <;> cases h2 : lookupVarIn (ρ name) sc' <;>
    rw [h1, h2] at this <;> simp only [ExRel] at this
  · exact ⟨this, envRel_mk (last := some name) hs ..⟩
  · exact ⟨this, envRel_mk (last := some name) hs ..⟩

theorem mrel_lastAccess (hρ : KeyInj ρ) : MRel (N := N) ρ φ Eq lastAccess lastAccess := by
  apply MRel.of_fields
  intro sc sc' last input handed rf out wb steps cap hs
  unfold lastAccess
  cases last with
  | none => exact ⟨by simp [ResRel, RtErr.mapName], envRel_mk (last := none) hs ..⟩
  | some name =>
    have := lookupVarIn_rel hρ name hs
    simp only [Option.map]
    cases h1 : lookupVarIn name sc <;> cases h2 : lookupVarIn (ρ name) sc' <;>
      rw [h1, h2] at this <;> simp only [ExRel] at this
    · exact ⟨this, envRel_mk (last := some name) hs ..⟩
    · exact ⟨this, envRel_mk (last := some name) hs ..⟩

theorem mrel_createFunc (hρ : KeyInj ρ) (name : VarName) (ps : List VarName) (b : Block N) :
    MRel (N := N) ρ φ (fun _ _ => True) (createFunc name ps b)
      (createFunc (ρ name) (ps.map ρ) (block ρ φ b)) := by
  apply MRel.of_fields
  intro sc sc' last input handed rf out wb steps cap hs
  unfold createFunc
  cases hs with
  | nil => exact ⟨rfl, envRel_mk .nil ..⟩
  | @cons s s' l l' h1 hs' =>
    have := slookup_rel hρ h1 name
    simp only
    cases h1' : slookup name.key s <;> cases h2' : slookup (ρ name).key s' <;>
      rw [h1', h2'] at this <;> simp only [OptRel] at this
    · exact ⟨trivial, envRel_mk (.cons (sset_rel hρ h1 _ (e := .func ps b)
        (e' := .func (ps.map ρ) (block ρ φ b)) ⟨rfl, rfl⟩) hs') ..⟩
    · exact ⟨by simp [ResRel, RtErr.mapName], envRel_mk (.cons h1 hs') ..⟩

theorem functionScope_rel (hρ : KeyInj ρ) (args : List (VarName × Val N)) :
    ∀ {acc acc' : Scope N}, ScopeRel ρ φ acc acc' →
      ExRel ρ (ScopeRel ρ φ) (functionScope args acc)
        (functionScope (args.map fun a => (ρ a.1, a.2)) acc') := by
  induction args with
  | nil => intro acc acc' ha; exact ha
  | cons a l ih =>
    intro acc acc' ha
    obtain ⟨n1, v1⟩ := a
    have := slookup_rel hρ ha n1
    simp only [functionScope, List.map_cons]
    cases h1 : slookup n1.key acc <;> cases h2 : slookup (ρ n1).key acc' <;>
      rw [h1, h2] at this <;> simp only [OptRel] at this
    · exact ih (sset_rel hρ ha _ (e := .var v1) (e' := .var v1) rfl)
    · simp [ExRel, RtErr.mapName]

theorem mrel_pushFunctionScope (hρ : KeyInj ρ) (args : List (VarName × Val N)) :
    MRel (N := N) ρ φ (fun _ _ => True) (pushFunctionScope args)
      (pushFunctionScope (args.map fun a => (ρ a.1, a.2))) := by
  apply MRel.of_fields
  intro sc sc' last input handed rf out wb steps cap hs
  have := functionScope_rel hρ args (ρ := ρ) (φ := φ) (acc := []) (acc' := []) .nil
  unfold pushFunctionScope
  cases h1 : functionScope args [] <;>
    cases h2 : functionScope (args.map fun a => (ρ a.1, a.2)) [] <;>
    rw [h1, h2] at this <;> simp only [ExRel] at this
  · exact ⟨this, envRel_mk hs ..⟩
  · exact ⟨trivial, envRel_mk (.cons this hs) ..⟩

theorem mrel_output (t : Str) : MRel (N := N) ρ φ (fun _ _ => True) (output t) (output t) := by
  apply MRel.of_fields
  intro sc sc' last input handed rf out wb steps cap hs
  unfold output
  cases wb with
  | none => exact ⟨trivial, envRel_mk hs ..⟩
  | some k =>
    simp only
    split
    · exact ⟨trivial, envRel_mk hs ..⟩
    · exact ⟨by simp [ResRel, RtErr.mapName], envRel_mk hs ..⟩

theorem mrel_inputLine : MRel (N := N) ρ φ Eq inputLine inputLine := by
  apply MRel.of_fields
  intro sc sc' last input handed rf out wb steps cap hs
  unfold inputLine
  cases input with
  | nil => exact ⟨rfl, envRel_mk hs ..⟩
  | cons c cs =>
    simp only
    split
    · exact ⟨by simp [ResRel, RtErr.mapName], envRel_mk hs ..⟩
    · exact ⟨rfl, envRel_mk hs ..⟩

theorem mrel_tick : MRel (N := N) ρ φ (fun _ _ => True) tick tick := by
  apply MRel.of_fields
  intro sc sc' last input handed rf out wb steps cap hs
  unfold tick
  cases steps with
  | zero => exact ⟨trivial, envRel_mk hs ..⟩
  | succ n => exact ⟨trivial, envRel_mk hs ..⟩


/-! ### relations on interpreter data -/

/-- every entry point of the interpreter (one fuel level down) simulates the renamed syntax -/
structure RecOK (ρ : VarName → VarName) (φ : PoeticElem → PoeticElem) (rec : Rec N) : Prop where
  evalExpr : ∀ e, MRel ρ φ Eq (rec.evalExpr e) (rec.evalExpr (expr ρ e))
  evalPrimary : ∀ p, MRel ρ φ Eq (rec.evalPrimary p) (rec.evalPrimary (primary ρ p))
  writeExpr : ∀ w e, MRel ρ φ (WOutRel ρ) (rec.writeExpr w e) (rec.writeExpr w (expr ρ e))
  writePrimary : ∀ w p, MRel ρ φ (WOutRel ρ) (rec.writePrimary w p) (rec.writePrimary w (primary ρ p))
  execStmt : ∀ s st, MRel ρ φ Eq (rec.execStmt s st) (rec.execStmt (stmt ρ φ s) st)

theorem MRel.bind_eq {S : β → β' → Prop} {m m' : M N α} {f : α → M N β} {f' : α → M N β'}
    (h1 : MRel ρ φ Eq m m') (h2 : ∀ a, MRel ρ φ S (f a) (f' a)) : MRel ρ φ S (m >>= f) (m' >>= f') :=
  h1.bind fun a a' h => h ▸ h2 a

/-! ### ProduceVal -/

theorem mrel_evalIdent (hρ : KeyInj ρ) (i : Ident) :
    MRel (N := N) ρ φ Eq (evalIdent i) (evalIdent (ident ρ i)) := by
  cases i
  · exact mrel_lookupVar hρ _
  · exact mrel_lastAccess hρ

theorem mrel_applyOp (op : BinOp) (a : Val N) {b b' : M N (Val N)} (hb : MRel ρ φ Eq b b') :
    MRel ρ φ Eq (applyOp op a b) (applyOp op a b') := by
  cases op <;> simp only [applyOp]
  case plus =>
    refine hb.bind_eq fun bv => mrel_get.bind fun env env' he => ?_
    rw [← he.2.2.2.2.2.2.2.2]
    exact mrel_liftV _
  case multiply =>
    refine hb.bind_eq fun bv => mrel_get.bind fun env env' he => ?_
    rw [← he.2.2.2.2.2.2.2.2]
    exact mrel_liftV _
  case minus => exact hb.bind_eq fun bv => MRel.pure rfl
  case divide => exact hb.bind_eq fun bv => MRel.pure rfl
  case and =>
    split
    · exact hb.bind_eq fun bv => MRel.pure rfl
    · exact MRel.pure rfl
  case or =>
    split
    · exact MRel.pure rfl
    · exact hb.bind_eq fun bv => MRel.pure rfl
  case nor =>
    split
    · exact MRel.pure rfl
    · exact hb.bind_eq fun bv => MRel.pure rfl
  case eq => exact hb.bind_eq fun bv => MRel.pure rfl
  case notEq => exact hb.bind_eq fun bv => MRel.pure rfl
  all_goals
    exact hb.bind_eq fun bv => (mrel_liftV _).bind_eq fun r => MRel.pure rfl

theorem mrel_foldOp {rec : Rec N} (hrec : RecOK ρ φ rec) (op : BinOp) (es : List (Expr N)) :
    ∀ a : Val N, MRel ρ φ Eq (foldOp rec op a es) (foldOp rec op a (exprs ρ es)) := by
  induction es with
  | nil => intro a; exact MRel.pure rfl
  | cons e es ih =>
    intro a
    simp only [foldOp, exprs]
    exact (mrel_applyOp op a (hrec.evalExpr e)).bind_eq fun x => ih x

theorem mrel_evalArgs {rec : Rec N} (hrec : RecOK ρ φ rec) (es : List (Expr N)) :
    MRel ρ φ Eq (evalArgs rec es) (evalArgs rec (exprs ρ es)) := by
  induction es with
  | nil => exact MRel.pure rfl
  | cons e es ih =>
    simp only [evalArgs, exprs]
    exact (hrec.evalExpr e).bind_eq fun v => ih.bind_eq fun vs => MRel.pure rfl

theorem mrel_evalOpt {rec : Rec N} (hrec : RecOK ρ φ rec) (e : Option (Expr N)) :
    MRel ρ φ Eq (evalOpt rec e) (evalOpt rec (e.map (expr ρ))) := by
  cases e with
  | none => exact MRel.pure rfl
  | some e => exact (hrec.evalExpr e).bind_eq fun v => MRel.pure rfl

theorem mrel_execStmts {rec : Rec N} (hrec : RecOK ρ φ rec) (ss : List (Stmt N)) :
    ∀ st : ExecSt N, MRel ρ φ Eq (execStmts rec ss st) (execStmts rec (stmts ρ φ ss) st) := by
  induction ss with
  | nil => intro st; exact MRel.pure rfl
  | cons s ss ih =>
    intro st
    simp only [execStmts, stmts]
    refine (hrec.execStmt s st).bind_eq fun x => ?_
    split
    · exact MRel.pure rfl
    · exact ih x

theorem mrel_callFunction (hρ : KeyInj ρ) {rec : Rec N} (hrec : RecOK ρ φ rec) (name : VarName)
    (args : List (Expr N)) :
    MRel ρ φ Eq (callFunction rec name args) (callFunction rec (ρ name) (exprs ρ args)) := by
  unfold callFunction
  refine mrel_get.bind fun env env' he => (mrel_liftE (lookupFuncIn_rel hρ name he.1)).bind
    fun pb pb' hpb => ?_
  obtain ⟨params, body⟩ := pb
  obtain ⟨params', body'⟩ := pb'
  obtain ⟨h1, h2⟩ := hpb
  simp only at h1 h2
  subst h1 h2
  simp only [List.length_map, exprs_length]
  split
  · exact mrel_fail' (by simp [RtErr.mapName])
  · refine (mrel_evalArgs hrec args).bind_eq fun vals => mrel_tick.bind fun _ _ _ => ?_
    rw [zip_map]
    refine (mrel_pushFunctionScope hρ _).bind fun _ _ _ => ?_
    rw [block_stmts]
    refine (mrel_execStmts hrec body.stmts {}).bind_eq fun st => ?_
    exact mrel_popScope.bind fun _ _ _ => MRel.pure rfl

theorem mrel_evalPop {rec : Rec N} (hrec : RecOK ρ φ rec) (arr : Primary N) :
    MRel ρ φ Eq (evalPop rec arr) (evalPop rec (primary ρ arr)) := by
  unfold evalPop
  refine (hrec.writePrimary _ arr).bind fun out out' hout => ?_
  obtain ⟨h1, h2⟩ := hout
  cases hr : out.res <;> cases hr' : out'.res <;> rw [hr, hr'] at h1 <;> simp only [ExRel] at h1
  · exact mrel_fail' h1
  · rw [← h2]
    cases out.back with
    | none => exact mrel_crash _
    | some v => exact MRel.pure rfl

theorem mrel_index {a a' b b' : M N (Val N)} (ha : MRel ρ φ Eq a a') (hb : MRel ρ φ Eq b b') :
    MRel ρ φ Eq (do let x ← a; let y ← b; M.liftV (Val.index x y))
      (do let x ← a'; let y ← b'; M.liftV (Val.index x y)) :=
  ha.bind_eq fun x => hb.bind_eq fun y => mrel_liftV _

theorem mrel_evalPrimary (hρ : KeyInj ρ) {rec : Rec N} (hrec : RecOK ρ φ rec) (p : Primary N) :
    MRel ρ φ Eq (Interp.evalPrimary rec p) (Interp.evalPrimary rec (primary ρ p)) := by
  cases p with
  | lit l r => simp only [primary]; exact MRel.pure rfl
  | ident i r => simp only [primary]; exact mrel_evalIdent hρ i
  | sub arr idx => simp only [primary]; exact mrel_index (hrec.evalPrimary arr) (hrec.evalPrimary idx)
  | call name r args => simp only [primary]; exact mrel_callFunction hρ hrec name args
  | pop arr => simp only [primary]; exact mrel_evalPop hrec arr

theorem mrel_evalExpr {rec : Rec N} (hrec : RecOK ρ φ rec) (e : Expr N) :
    MRel ρ φ Eq (Interp.evalExpr rec e) (Interp.evalExpr rec (expr ρ e)) := by
  cases e with
  | prim p => simp only [expr]; exact hrec.evalPrimary p
  | bin op l f r =>
    simp only [expr]
    exact (hrec.evalExpr l).bind_eq fun lv => mrel_foldOp hrec op (f :: r) lv
  | un op e =>
    simp only [expr]
    refine (hrec.evalExpr e).bind_eq fun v => ?_
    cases op
    · exact mrel_liftV _
    · exact MRel.pure rfl

theorem mrel_evalLhs (hρ : KeyInj ρ) {rec : Rec N} (hrec : RecOK ρ φ rec) (l : Lhs N) :
    MRel ρ φ Eq (evalLhs rec l) (evalLhs rec (lhs ρ l)) := by
  cases l with
  | ident i r => exact mrel_evalIdent hρ i
  | sub arr idx => exact mrel_index (hrec.evalPrimary arr) (hrec.evalPrimary idx)

/-! ### WriteVal -/

theorem mrel_resolve (hρ : KeyInj ρ) (t : Target) :
    MRel (N := N) ρ φ (fun p p' => p'.1 = ρ p.1 ∧ p'.2 = p.2) (resolve t) (resolve (target ρ t)) := by
  apply MRel.of_fields
  intro sc sc' last input handed rf out wb steps cap hs
  unfold resolve
  cases t with
  | var name =>
    have := lookupVarIn_rel hρ name hs
    simp only [target]
    cases h1 : lookupVarIn name sc <;> cases h2 : lookupVarIn (ρ name) sc' <;>
      rw [h1, h2] at this <;> simp only [ExRel] at this
    · cases hs with
      | nil => exact ⟨rfl, envRel_mk (last := some name) .nil ..⟩
      | @cons s s' l l' hs1 hs' =>
        have hl := slookup_rel hρ hs1 name
        simp only
        cases h3 : slookup name.key s <;> cases h4 : slookup (ρ name).key s' <;>
          rw [h3, h4] at hl <;> simp only [OptRel] at hl
        · exact ⟨⟨rfl, rfl⟩, envRel_mk (last := some name)
            (.cons (sset_rel hρ hs1 _ (e := .var .undef) (e' := .var .undef) rfl) hs') ..⟩
        · exact ⟨by simp [ResRel, RtErr.mapName], envRel_mk (last := some name) (.cons hs1 hs') ..⟩
    · exact ⟨⟨rfl, this.symm⟩, envRel_mk (last := some name) hs ..⟩
  | pronoun =>
    simp only [target]
    cases last with
    | none => exact ⟨by simp [ResRel, RtErr.mapName], envRel_mk (last := none) hs ..⟩
    | some name =>
      have := lookupVarIn_rel hρ name hs
      simp only [Option.map]
      cases h1 : lookupVarIn name sc <;> cases h2 : lookupVarIn (ρ name) sc' <;>
        rw [h1, h2] at this <;> simp only [ExRel] at this
      · exact ⟨this, envRel_mk (last := some name) hs ..⟩
      · exact ⟨⟨rfl, this.symm⟩, envRel_mk (last := some name) hs ..⟩

theorem envRel_setScopes {e e' : Env N} (he : EnvRel ρ φ e e') {sc sc' : List (Scope N)}
    (hs : All₂ (ScopeRel ρ φ) sc sc') : EnvRel ρ φ { e with scopes := sc } { e' with scopes := sc' } :=
  ⟨hs, he.2⟩

theorem mrel_writeCell (hρ : KeyInj ρ) (w : Writer N) (t : Target) (keys : List (Val N)) :
    MRel ρ φ (WOutRel ρ) (writeCell w t keys) (writeCell w (target ρ t) keys) := by
  intro e e' he
  have hr := mrel_resolve hρ t e e' he
  unfold writeCell
  rcases h1 : resolve t e with ⟨(⟨name, cur⟩ | x | s | _ | _), e1⟩ <;>
    rcases h2 : resolve (target ρ t) e' with ⟨(⟨name', cur'⟩ | x' | s' | _ | _), e1'⟩ <;>
    rw [h1, h2] at hr <;> obtain ⟨hres, henv⟩ := hr <;> simp only [ResRel] at hres
  · obtain ⟨hn, hcur⟩ := hres
    subst hn hcur
    dsimp only at henv ⊢
    have hcap : e1.cap = e1'.cap := henv.2.2.2.2.2.2.2.2
    have hu : Val.updateAt e1'.cap w keys cur' = Val.updateAt e1.cap w keys cur' := by rw [hcap]
    rw [hu]
    rcases hu1 : Val.updateAt e1.cap w keys cur' with ⟨newVal, status⟩
    dsimp only
    have henv' := envRel_setScopes henv (setVarIn_rel hρ name newVal henv.1)
    cases status
    · exact ⟨⟨trivial, rfl⟩, henv'⟩
    · exact ⟨⟨by simp [ExRel, RtErr.mapName], rfl⟩, henv'⟩
    · exact ⟨rfl, henv'⟩
    · exact ⟨trivial, henv'⟩
    · exact ⟨trivial, henv'⟩
  · exact ⟨⟨hres, rfl⟩, henv⟩
  · exact ⟨hres, henv⟩
  · exact ⟨trivial, henv⟩
  · exact ⟨trivial, henv⟩

theorem wOutRel_notWritable : WOutRel ρ (notWritable : WOut N) notWritable :=
  ⟨rfl, rfl⟩

theorem mrel_subscriptVal {rec : Rec N} (hrec : RecOK ρ φ rec) (idx : Primary N) :
    MRel ρ φ (ExRel ρ Eq) (subscriptVal rec idx) (subscriptVal rec (primary ρ idx)) := by
  intro e e' he
  have h := hrec.evalPrimary idx e e' he
  unfold subscriptVal
  rcases h1 : rec.evalPrimary idx e with ⟨(a | x | s | _ | _), e1⟩ <;>
    rcases h2 : rec.evalPrimary (primary ρ idx) e' with ⟨(a' | x' | s' | _ | _), e1'⟩ <;>
    rw [h1, h2] at h <;> obtain ⟨hres, henv⟩ := h <;> simp only [ResRel] at hres <;>
    exact ⟨hres, henv⟩

theorem mrel_afterSubscript {rec : Rec N} (hrec : RecOK ρ φ rec) (idx : Primary N)
    {next next' : Val N → M N (WOut N)} (hnext : ∀ v, MRel ρ φ (WOutRel ρ) (next v) (next' v)) :
    MRel ρ φ (WOutRel ρ)
      (do match ← subscriptVal rec idx with
          | .error e => pure { res := .error e }
          | .ok kv => next kv)
      (do match ← subscriptVal rec (primary ρ idx) with
          | .error e => pure { res := .error e }
          | .ok kv => next' kv) := by
  refine (mrel_subscriptVal hrec idx).bind fun r r' hr => ?_
  cases r <;> cases r' <;> simp only [ExRel] at hr
  · exact MRel.pure ⟨hr, rfl⟩
  · exact hr ▸ hnext _

theorem mrel_writeSubscript (hρ : KeyInj ρ) {rec : Rec N} (hrec : RecOK ρ φ rec) (w : Writer N)
    (p : Primary N) (keys : List (Val N)) :
    MRel ρ φ (WOutRel ρ) (writeSubscript rec w p keys) (writeSubscript rec w (primary ρ p) keys) := by
  fun_induction writeSubscript rec w p keys with
  | case1 name r keys =>
    simp only [primary, ident, writeSubscript]; exact mrel_writeCell hρ w (.var name) keys
  | case2 r keys =>
    simp only [primary, ident, writeSubscript]; exact mrel_writeCell hρ w .pronoun keys
  | case3 arr idx keys ih =>
    simp only [primary, writeSubscript]
    exact mrel_afterSubscript hrec idx fun v => ih v
  | case4 p keys h1 h2 h3 =>
    cases p with
    | lit l r => simp only [primary, writeSubscript]; exact MRel.pure wOutRel_notWritable
    | ident i r => cases i <;> simp_all
    | sub a i => simp_all
    | call name r args => simp only [primary, writeSubscript]; exact MRel.pure wOutRel_notWritable
    | pop a => simp only [primary, writeSubscript]; exact MRel.pure wOutRel_notWritable

theorem mrel_writePrimary (hρ : KeyInj ρ) {rec : Rec N} (hrec : RecOK ρ φ rec) (w : Writer N)
    (p : Primary N) :
    MRel ρ φ (WOutRel ρ) (Interp.writePrimary rec w p) (Interp.writePrimary rec w (primary ρ p)) := by
  cases p with
  | lit l r => simp only [primary]; exact MRel.pure wOutRel_notWritable
  | ident i r =>
    cases i <;> simp only [primary, ident, Interp.writePrimary]
    · exact mrel_writeCell hρ w (.var _) []
    · exact mrel_writeCell hρ w .pronoun []
  | sub arr idx =>
    simp only [primary]
    exact mrel_afterSubscript hrec idx fun v => mrel_writeSubscript hρ hrec w arr [v]
  | call name r args => simp only [primary]; exact MRel.pure wOutRel_notWritable
  | pop arr => simp only [primary]; exact hrec.writePrimary w arr

theorem mrel_writeExpr {rec : Rec N} (hrec : RecOK ρ φ rec) (w : Writer N) (e : Expr N) :
    MRel ρ φ (WOutRel ρ) (Interp.writeExpr rec w e) (Interp.writeExpr rec w (expr ρ e)) := by
  cases e with
  | prim p => simp only [expr]; exact hrec.writePrimary w p
  | bin op l f r => simp only [expr]; exact MRel.pure wOutRel_notWritable
  | un op e => simp only [expr]; exact MRel.pure wOutRel_notWritable

theorem mrel_writeIdent (hρ : KeyInj ρ) (w : Writer N) (i : Ident) :
    MRel ρ φ (WOutRel ρ) (writeIdent w i) (writeIdent w (ident ρ i)) := by
  cases i <;> simp only [writeIdent, ident]
  · exact mrel_writeCell hρ w (.var _) []
  · exact mrel_writeCell hρ w .pronoun []

theorem mrel_writeLhs (hρ : KeyInj ρ) {rec : Rec N} (hrec : RecOK ρ φ rec) (w : Writer N) (l : Lhs N) :
    MRel ρ φ (WOutRel ρ) (writeLhs rec w l) (writeLhs rec w (lhs ρ l)) := by
  cases l with
  | ident i r => exact mrel_writeIdent hρ w i
  | sub arr idx =>
    exact mrel_afterSubscript hrec idx fun v => mrel_writeSubscript hρ hrec w arr [v]

theorem mrel_fatal {o o' : M N (WOut N)} (h : MRel ρ φ (WOutRel ρ) o o') :
    MRel ρ φ (fun _ _ => True) (fatal o) (fatal o') := by
  unfold fatal
  refine h.bind fun out out' hout => ?_
  obtain ⟨h1, -⟩ := hout
  cases hr : out.res <;> cases hr' : out'.res <;> rw [hr, hr'] at h1 <;> simp only [ExRel] at h1
  · exact mrel_fail' h1
  · exact MRel.pure trivial

theorem mrel_writeThen {o o' : M N (WOut N)} (h : MRel ρ φ (WOutRel ρ) o o') (st : ExecSt N) :
    MRel ρ φ Eq (do fatal o; pure st) (do fatal o'; pure st) :=
  (mrel_fatal h).bind fun _ _ _ => MRel.pure rfl


/-! ### ExecStmt -/

theorem mrel_scoped {push push' : M N Unit} (hpush : MRel ρ φ (fun _ _ => True) push push')
    {R : α → α' → Prop} {S : β → β' → Prop} {body : M N α} {body' : M N α'}
    (hbody : MRel ρ φ R body body')
    {cont : α → M N β} {cont' : α' → M N β'} (hcont : ∀ a a', R a a' → MRel ρ φ S (cont a) (cont' a')) :
    MRel ρ φ S (push >>= fun _ => body >>= fun a => popScope >>= fun _ => cont a)
      (push' >>= fun _ => body' >>= fun a => popScope >>= fun _ => cont' a) :=
  hpush.bind fun _ _ _ => hbody.bind fun a a' ha => mrel_popScope.bind fun _ _ _ => hcont a a' ha

theorem mrel_loopGo {rec : Rec N} (hrec : RecOK ρ φ rec) (invert : Bool) (cond : Expr N)
    (body : List (Stmt N)) (n : Nat) : ∀ st : ExecSt N,
      MRel ρ φ Eq (loopGo rec invert cond body n st)
        (loopGo rec invert (expr ρ cond) (stmts ρ φ body) n st) := by
  induction n with
  | zero => intro st; exact mrel_outOfResource
  | succ n ih =>
    intro st
    simp only [loopGo]
    refine (hrec.evalExpr cond).bind_eq fun c => ?_
    split
    · refine mrel_tick.bind fun _ _ _ => ?_
      refine mrel_scoped mrel_pushScope (mrel_execStmts hrec body st) fun x x' hx => ?_
      subst hx
      split
      · exact ih _
      · exact ih _
      · exact MRel.pure rfl
      · exact MRel.pure rfl
    · exact MRel.pure rfl

theorem mrel_execLoop {rec : Rec N} (hrec : RecOK ρ φ rec) (invert : Bool) (cond : Expr N)
    (body : Block N) (st : ExecSt N) :
    MRel ρ φ Eq (execLoop rec invert cond body st)
      (execLoop rec invert (expr ρ cond) (block ρ φ body) st) := by
  unfold execLoop
  refine mrel_get.bind fun env env' he => ?_
  rw [← he.2.2.2.2.2.2.2.1, block_stmts]
  exact mrel_loopGo hrec invert cond body.stmts _ st

theorem mrel_poetic (elems : List PoeticElem) (f : N → α) :
    MRel ρ φ Eq
      (match (Poetic.computeValue elems : Outcome Unit N) with
        | .ok n => (pure (f n) : M N α)
        | .crash site => M.crash site
        | _ => M.crash .poeticLeadingSuffix)
      (match (Poetic.computeValue elems : Outcome Unit N) with
        | .ok n => (pure (f n) : M N α)
        | .crash site => M.crash site
        | _ => M.crash .poeticLeadingSuffix) := by
  split
  · exact MRel.pure rfl
  · exact mrel_crash _
  · exact mrel_crash _

theorem mrel_execStmt (hρ : KeyInj ρ) (hφ : ∀ l : List PoeticElem, (Poetic.computeValue (l.map φ) : Outcome Unit N) = Poetic.computeValue l) {rec : Rec N} (hrec : RecOK ρ φ rec) (s : Stmt N)
    (st : ExecSt N) : MRel ρ φ Eq (Interp.execStmt rec s st) (Interp.execStmt rec (stmt ρ φ s) st) := by
  unfold Interp.execStmt
  refine mrel_tick.bind fun _ _ _ => ?_
  cases s with
  | assign dest op value =>
    simp only [stmt]
    refine MRel.bind_eq ?_ (fun nv => mrel_writeThen (mrel_writeLhs hρ hrec (assignW nv) dest) st)
    cases op with
    | some o =>
      exact (mrel_evalLhs hρ hrec dest).bind_eq fun l => mrel_foldOp hrec o (value.first :: value.rest) l
    | none =>
      simp only [exprList]
      have : (exprs ρ value.rest).isEmpty = value.rest.isEmpty := by
        cases value.rest <;> simp [exprs]
      simp only [this]
      split
      · exact mrel_fail' rfl
      · exact hrec.evalExpr _
  | poeticNum dest rhs =>
    simp only [stmt]
    refine MRel.bind_eq ?_ (fun nv => mrel_writeThen (mrel_writeLhs hρ hrec (assignW nv) dest) st)
    cases rhs with
    | expr e => exact hrec.evalExpr e
    | lit elems => simp only [poeticRhs, hφ]; exact mrel_poetic elems _
  | poeticStr dest str =>
    simp only [stmt]
    exact mrel_writeThen (mrel_writeLhs hρ hrec (assignW _) dest) st
  | ifS cond thenB elseB =>
    cases elseB with
    | some b =>
      simp only [stmt]
      refine (hrec.evalExpr cond).bind_eq fun c => ?_
      refine mrel_scoped mrel_pushScope (R := Eq) ?_ (fun x x' hx => MRel.pure hx)
      simp only [block_stmts]
      split
      · exact mrel_execStmts hrec _ st
      · exact mrel_execStmts hrec _ st
    | none =>
      simp only [stmt]
      refine (hrec.evalExpr cond).bind_eq fun c => ?_
      refine mrel_scoped mrel_pushScope (R := Eq) ?_ (fun x x' hx => MRel.pure hx)
      simp only [block_stmts]
      split
      · exact mrel_execStmts hrec _ st
      · exact MRel.pure rfl
  | whileS cond body => simp only [stmt]; exact mrel_execLoop hrec false cond body st
  | untilS cond body => simp only [stmt]; exact mrel_execLoop hrec true cond body st
  | inc dest r amount => simp only [stmt]; exact mrel_writeThen (mrel_writeIdent hρ _ dest) st
  | dec dest r amount => simp only [stmt]; exact mrel_writeThen (mrel_writeIdent hρ _ dest) st
  | input dest loc =>
    simp only [stmt]
    refine mrel_inputLine.bind_eq fun line => ?_
    cases dest with
    | some d => exact mrel_writeThen (mrel_writeLhs hρ hrec (assignW _) d) st
    | none => exact MRel.pure rfl
  | output value =>
    simp only [stmt]
    refine (hrec.evalExpr value).bind_eq fun v => ?_
    refine (mrel_liftV _).bind_eq fun text => ?_
    exact (mrel_output text).bind fun _ _ _ => MRel.pure rfl
  | mutation op operand dest param =>
    simp only [stmt]
    refine (mrel_evalOpt hrec param).bind_eq fun p => ?_
    cases dest with
    | some d =>
      refine (hrec.evalPrimary operand).bind_eq fun v => ?_
      refine (mrel_liftV _).bind_eq fun v' => ?_
      exact mrel_writeThen (mrel_writeLhs hρ hrec (assignW v') d) st
    | none => exact mrel_writeThen (hrec.writePrimary _ operand) st
  | rounding dir operand =>
    simp only [stmt]
    exact mrel_writeThen (hrec.writeExpr _ operand) st
  | continue_ r =>
    simp only [stmt]
    exact (mrel_assert _ _).bind fun _ _ _ => MRel.pure rfl
  | break_ r =>
    simp only [stmt]
    exact (mrel_assert _ _).bind fun _ _ _ => MRel.pure rfl
  | push arr value =>
    simp only [stmt]
    refine MRel.bind_eq ?_ (fun vals => mrel_writeThen (hrec.writePrimary _ arr) st)
    cases value with
    | none => exact MRel.pure rfl
    | some rhs =>
      cases rhs with
      | list l => exact mrel_evalArgs hrec (l.first :: l.rest)
      | lit elems =>
        simp only [Option.map, pushRhs, hφ]
        exact mrel_poetic elems fun n : N => [Val.num n]
  | pop arr dest =>
    simp only [stmt]
    refine (mrel_evalPop hrec arr).bind_eq fun back => ?_
    cases dest with
    | some d => exact mrel_writeThen (mrel_writeLhs hρ hrec (assignW back) d) st
    | none => exact MRel.pure rfl
  | ret value =>
    simp only [stmt]
    refine (mrel_assert _ _).bind fun _ _ _ => (hrec.evalExpr value).bind_eq fun v => ?_
    exact (mrel_assert _ _).bind fun _ _ _ => MRel.pure rfl
  | func name r params body =>
    simp only [stmt]
    have : (params.map fun p => (ρ p.1, p.2)).map (·.1) = (params.map (·.1)).map ρ := by
      simp [List.map_map]
    rw [this]
    exact (mrel_createFunc hρ name _ body).bind fun _ _ _ => MRel.pure rfl
  | call name r args =>
    simp only [stmt]
    exact (mrel_callFunction hρ hrec name args).bind fun _ _ _ => MRel.pure rfl

/-! ### tying the knot -/

theorem recOK_bottom : RecOK ρ φ (bottom : Rec N) where
  evalExpr _ := mrel_outOfFuel
  evalPrimary _ := mrel_outOfFuel
  writeExpr _ _ := mrel_outOfFuel
  writePrimary _ _ := mrel_outOfFuel
  execStmt _ _ := mrel_outOfFuel

theorem recOK_mkRec (hρ : KeyInj ρ) (hφ : ∀ l : List PoeticElem, (Poetic.computeValue (l.map φ) : Outcome Unit N) = Poetic.computeValue l) {rec : Rec N} (h : RecOK ρ φ rec) : RecOK ρ φ (mkRec rec) where
  evalExpr e := mrel_evalExpr h e
  evalPrimary p := mrel_evalPrimary hρ h p
  writeExpr w e := mrel_writeExpr h w e
  writePrimary w p := mrel_writePrimary hρ h w p
  execStmt s st := mrel_execStmt hρ hφ h s st

theorem recOK_interp (hρ : KeyInj ρ) (hφ : ∀ l : List PoeticElem, (Poetic.computeValue (l.map φ) : Outcome Unit N) = Poetic.computeValue l) (n : Nat) : RecOK ρ φ (interp n : Rec N) := by
  induction n with
  | zero => exact recOK_bottom
  | succ n ih => exact recOK_mkRec hρ hφ ih

theorem mrel_execBlocks {rec : Rec N} (hrec : RecOK ρ φ rec) (bs : List (Block N)) :
    ∀ st : ExecSt N, MRel ρ φ Eq (execBlocks rec bs st) (execBlocks rec (blocks ρ φ bs) st) := by
  induction bs with
  | nil => intro st; exact MRel.pure rfl
  | cons b bs ih =>
    intro st
    simp only [execBlocks, blocks, block_stmts]
    refine (mrel_execStmts hrec b.stmts st).bind_eq fun x => ?_
    split
    · exact MRel.pure rfl
    · exact ih x

/-- The renamed program simulates the original one. -/
theorem mrel_execProgram (hρ : KeyInj ρ) (hφ : ∀ l : List PoeticElem, (Poetic.computeValue (l.map φ) : Outcome Unit N) = Poetic.computeValue l) (fuel : Nat) (p : Program N) :
    MRel ρ φ (fun _ _ => True) (execProgram fuel p) (execProgram fuel (program ρ φ p)) := by
  unfold execProgram
  exact (mrel_execBlocks (recOK_interp hρ hφ fuel) p.code {}).bind fun _ _ _ => MRel.pure trivial

/-- what the simulation gives for a whole run, as equations -/
theorem exec_rename (hρ : KeyInj ρ) (hφ : ∀ l : List PoeticElem, (Poetic.computeValue (l.map φ) : Outcome Unit N) = Poetic.computeValue l) (fuel : Nat) (p : Program N) {env env' : Env N}
    (h : EnvRel ρ φ env env') :
    (execProgram fuel (program ρ φ p) env').2.out = (execProgram fuel p env).2.out
    ∧ (execProgram fuel (program ρ φ p) env').1 = (execProgram fuel p env).1.mapErr (RtErr.mapName ρ)
    ∧ EnvRel ρ φ (execProgram fuel p env).2 (execProgram fuel (program ρ φ p) env').2 := by
  have := mrel_execProgram hρ hφ fuel p env env' h
  obtain ⟨h1, h2⟩ := this
  refine ⟨h2.2.2.2.2.2.1.symm, ?_, h2⟩
  cases hr : (execProgram fuel p env).1 <;> cases hr' : (execProgram fuel (program ρ φ p) env').1 <;>
    rw [hr, hr'] at h1 <;> simp only [ResRel] at h1 <;> simp [Outcome.mapErr, h1]

/-- an environment without bindings and without a pronoun referent is related to itself -/
theorem envRel_initial (e : Env N) (hs : e.scopes = [[]]) (hl : e.last = none) : EnvRel ρ φ e e := by
  refine ⟨?_, by simp [hl], rfl, rfl, rfl, rfl, rfl, rfl, rfl⟩
  rw [hs]
  exact .cons .nil .nil



end
end RenameP
end Rrss
