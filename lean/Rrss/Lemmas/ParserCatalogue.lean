/-
  Rrss.Lemmas.ParserCatalogue — evaluation lemmas for the catalogue of syntax faults of C13:
  what the non-recursive parser functions answer, for an arbitrary `rec`, in a state whose current
  token has (or has not) a given kind.
-/
import Rrss.Lemmas.ParserSuffix
namespace Rrss
namespace Parser

open Lexer (isWord substr)

set_option linter.unusedVariables false
set_option linter.unusedSimpArgs false
set_option linter.unusedSectionVars false

variable {N : Type} {α β : Type}

/-- the current token, if any, has none of the kinds `ks` (true at end of input) -/
def CurNotIn (st : PState N) (ks : List TK) : Prop :=
  ∀ t, st.toks.head? = some t → t.kind ∉ ks

theorem CurNotIn.mono {st : PState N} {ks ks' : List TK} (h : CurNotIn st ks)
    (hs : ∀ k ∈ ks', k ∈ ks) : CurNotIn st ks' :=
  fun t ht hk => h t ht (hs _ hk)

theorem CurNotIn.nil {st : PState N} {ks : List TK} (h : st.toks = []) : CurNotIn st ks :=
  fun t ht => by simp [h] at ht

theorem CurNotIn.cons {st : PState N} {ks : List TK} {t : Tok N} {ts : List (Tok N)}
    (h : st.toks = t :: ts) (hk : t.kind ∉ ks) : CurNotIn st ks :=
  fun t' ht => by simp [h] at ht; subst ht; exact hk

/-- the state after consuming the first token `t` -/
def PState.drop (st : PState N) (t : Tok N) (ts : List (Tok N)) : PState N :=
  { st with toks := ts, last := t.after }

/-! ### sequencing -/

theorem P.bind_ok_s {x : P N α} {f : α → P N β} {st st' : PState N} {a : α}
    (h : x st = .ok (a, st')) : P.bind x f st = f a st' := by
  simp only [P.bind, h]

theorem P.bind_err {x : P N α} {f : α → P N β} {st : PState N} {e : ParseErr N}
    (h : x st = .err e) : P.bind x f st = .err e := by
  simp only [P.bind, h]

/-! ### primitives on a state with a known current token -/

theorem matchAndConsume_none {m : Tok N → Bool} {st : PState N}
    (h : ∀ t, st.toks.head? = some t → m t = false) : matchAndConsume m st = .ok (none, st) := by
  unfold matchAndConsume
  cases hs : st.toks with
  | nil => rfl
  | cons t ts => simp [h t (by simp [hs])]

theorem matchAndConsume_some {m : Tok N → Bool} {st : PState N} {t : Tok N} {ts : List (Tok N)}
    (hs : st.toks = t :: ts) (h : m t = true) :
    matchAndConsume m st = .ok (some t, st.drop t ts) := by
  unfold matchAndConsume
  simp [hs, h, PState.drop]

theorem consume_some {m : Tok N → Bool} {st : PState N} {t : Tok N} {ts : List (Tok N)}
    (hs : st.toks = t :: ts) (h : m t = true) : consume m st = .ok (t, st.drop t ts) := by
  unfold consume
  simp [hs, h, PState.drop]

theorem matchKind_none {k : TK} {st : PState N} (h : CurNotIn st [k]) :
    matchAndConsume (isKind k) st = .ok (none, st) :=
  matchAndConsume_none fun t ht => by
    have := h t ht
    simp at this
    simp [isKind, this]

theorem matchAnyKind_none {ks : List TK} {st : PState N} (h : CurNotIn st ks) :
    matchAndConsume (isAnyKind ks) st = .ok (none, st) :=
  matchAndConsume_none fun t ht => by
    have := h t ht
    simp [isAnyKind, this]

/-- **(c)** `expect_token(k)` in a state whose current token is not a `k`: the error names that
    token, or the current line at end of input -/
theorem expectToken_err {k : TK} {st : PState N} (h : CurNotIn st [k]) :
    expectToken k st = .err ⟨.expectedToken k, errLocOf st⟩ := by
  unfold expectToken
  simp only [P.bind_eq, P.bind_ok_s (matchKind_none h)]
  rfl

theorem expectAny_err {ks : List TK} {st : PState N} (h : CurNotIn st ks) :
    expectAny ks st = .err ⟨.expectedOneOfTokens ks, errLocOf st⟩ := by
  unfold expectAny
  simp only [P.bind_eq, P.bind_ok_s (matchAnyKind_none h)]
  rfl

theorem expectToken_ok {k : TK} {st : PState N} {t : Tok N} {ts : List (Tok N)}
    (hs : st.toks = t :: ts) (h : t.kind = k) : expectToken k st = .ok (t, st.drop t ts) := by
  unfold expectToken
  simp only [P.bind_eq, P.bind_ok_s (matchAndConsume_some (m := isKind k) hs (by simp [isKind, h]))]
  rfl

/-- **(a)** `expect_eol` in a state whose current token is neither `,`/`.` nor a line break -/
theorem expectEol_err {st : PState N} {t : Tok N} {ts : List (Tok N)} (hs : st.toks = t :: ts)
    (h : t.kind ∉ [.comma, .dot, .newline]) :
    expectEol st = .err ⟨.expectedToken .newline, .token t⟩ := by
  have h1 : CurNotIn st [.comma, .dot] :=
    (CurNotIn.cons hs h).mono (by simp)
  have h2 : ¬ t.kind = .newline := by simp at h; exact h.2.2
  unfold expectEol
  simp only [P.bind_eq, P.bind_ok_s (matchAnyKind_none h1)]
  simp [expectTokenOrEnd, P.bind, current, hs, h2, failWith, errLocOf]

/-- **(a)** `expect_eol` after a `,`/`.` that is not followed by a line break (or the end) -/
theorem expectEol_err_after_sep {st : PState N} {s t : Tok N} {ts : List (Tok N)}
    (hs : st.toks = s :: t :: ts) (h : s.kind ∈ [.comma, .dot]) (ht : t.kind ≠ .newline) :
    expectEol st = .err ⟨.expectedToken .newline, .token t⟩ := by
  unfold expectEol
  simp only [P.bind_eq,
    P.bind_ok_s (matchAndConsume_some (m := isAnyKind [.comma, .dot]) hs (by simpa [isAnyKind] using h))]
  simp [expectTokenOrEnd, P.bind, current, PState.drop, ht, failWith, errLocOf]

/-- `expect_eol` at the end of input accepts -/
theorem expectEol_end {st : PState N} (hs : st.toks = []) : expectEol st = .ok ((), st) := by
  unfold expectEol
  simp only [P.bind_eq, P.bind_ok_s (matchAnyKind_none (CurNotIn.nil hs))]
  simp [expectTokenOrEnd, P.bind, current, hs]
  rfl

variable [CharOps]

/-! ### (b) a token that cannot start a statement -/

/-- the kinds `parse_statement` dispatches on (besides `Else`/`Newline`, which end a block) -/
def statementStartKinds : List TK :=
  [.put, .let_, .word, .commonPrefix, .pronoun, .if_, .while_, .until_, .build, .knock, .say,
   .sayAlias, .listen, .cut, .join, .cast, .turn, .break_, .continue_, .take, .rock, .roll,
   .return_]

/-- **(b)** the default arm of `parse_statement` -/
theorem parseStatement_unexpected (rec : Rec N) {st : PState N} {t : Tok N} {ts : List (Tok N)}
    (hs : st.toks = t :: ts) (h : t.kind ∉ .else_ :: .newline :: statementStartKinds) :
    parseStatement rec st = .err ⟨.unexpectedToken, .token t⟩ := by
  unfold parseStatement
  simp only [P.bind_eq, P.bind, current, hs, List.head?_cons]
  generalize hk : t.kind = k at h ⊢
  cases k <;> first
    | exact absurd (by decide) h
    | simp [failWith, errLocOf, hs]

/-- `parse_statement` returns `None` without consuming at `Else`, `Newline` and the end -/
theorem parseStatement_none_s (rec : Rec N) {st : PState N}
    (h : ∀ t, st.toks.head? = some t → t.kind = .else_ ∨ t.kind = .newline) :
    parseStatement rec st = .ok (none, st) := by
  unfold parseStatement
  simp only [P.bind_eq, P.bind, current]
  cases hs : st.toks with
  | nil => rfl
  | cons t ts =>
    rcases h t (by simp [hs]) with hk | hk <;> simp [hk] <;> rfl

/-! ### (d) a missing operand -/

/-- the kinds a primary expression can start with -/
def primaryStartKinds : List TK :=
  [.pronoun, .commonPrefix, .word, .mysterious, .null, .number, .stringLit, .empty, .true_,
   .false_, .roll]

/-- the kinds an expression can start with -/
def expressionStartKinds : List TK := .minus :: .not :: primaryStartKinds

theorem parsePronoun_none {st : PState N} (h : CurNotIn st [.pronoun]) :
    parsePronoun st = .ok (none, st) := by
  unfold parsePronoun
  simp only [P.bind_eq, P.bind_ok_s (matchKind_none h)]
  rfl

theorem parseCommonIdentifier_none {st : PState N} (h : CurNotIn st [.commonPrefix]) :
    parseCommonIdentifier st = .ok (none, st) := by
  unfold parseCommonIdentifier
  simp only [P.bind_eq, P.bind_ok_s (matchKind_none h)]
  rfl

theorem parseSimpleIdentifier_none {st : PState N} (h : CurNotIn st [.word]) :
    parseSimpleIdentifier st = .ok (none, st) := by
  unfold parseSimpleIdentifier
  simp only [P.bind_eq, P.bind_ok_s (matchKind_none h)]
  rfl

theorem capitalizedLoopBody_nil (rec : Rec N) {st : PState N} (h : CurNotIn st [.word]) :
    capitalizedLoopBody rec st = .ok ([], st) := by
  have h1 : matchAndConsumeP isCapitalizedWord st = .ok (none, st) := by
    unfold matchAndConsumeP
    cases hs : st.toks with
    | nil => rfl
    | cons t ts =>
      have := h t (by simp [hs])
      simp at this
      simp [isCapitalizedWord, this]
  unfold capitalizedLoopBody
  simp only [P.bind_eq, P.bind_ok_s h1]
  rfl

theorem parseCapitalizedIdentifier_none (rec : Rec N) {st : PState N} (h : CurNotIn st [.word]) :
    parseCapitalizedIdentifier rec st = .ok (none, st) := by
  unfold parseCapitalizedIdentifier
  simp only [P.bind_eq, P.bind_ok_s (capitalizedLoopBody_nil rec h)]
  rfl

theorem parseVariableName_none (rec : Rec N) {st : PState N}
    (h : CurNotIn st [.commonPrefix, .word]) : parseVariableName rec st = .ok (none, st) := by
  unfold parseVariableName
  simp only [P.bind_eq, P.bind_ok_s (parseCommonIdentifier_none (h.mono (by simp))),
    P.bind_ok_s (parseCapitalizedIdentifier_none rec (h.mono (by simp)))]
  exact parseSimpleIdentifier_none (h.mono (by simp))

theorem parseIdentifier_none (rec : Rec N) {st : PState N}
    (h : CurNotIn st [.pronoun, .commonPrefix, .word]) : parseIdentifier rec st = .ok (none, st) := by
  unfold parseIdentifier
  simp only [P.bind_eq, P.bind_ok_s (parseVariableName_none rec (h.mono (by simp)))]
  exact parsePronoun_none (h.mono (by simp))

/-- `expect_identifier` where no identifier starts -/
theorem expectIdentifier_err (rec : Rec N) {st : PState N}
    (h : CurNotIn st [.pronoun, .commonPrefix, .word]) :
    expectIdentifier rec st = .err ⟨.expectedIdentifier, errLocOf st⟩ := by
  unfold expectIdentifier
  simp only [P.bind_eq, P.bind_ok_s (parseIdentifier_none rec h)]
  rfl

theorem parseIdentifierOrFunctionCall_none (rec : Rec N) {st : PState N}
    (h : CurNotIn st [.pronoun, .commonPrefix, .word]) :
    parseIdentifierOrFunctionCall rec st = .ok (none, st) := by
  unfold parseIdentifierOrFunctionCall
  simp only [P.bind_eq, P.bind_ok_s (parsePronoun_none (h.mono (by simp))),
    P.bind_ok_s (parseVariableName_none rec (h.mono (by simp)))]
  rfl

theorem parseLiteralExpression_none {st : PState N}
    (h : CurNotIn st [.mysterious, .null, .number, .stringLit, .empty, .true_, .false_]) :
    parseLiteralExpression st = .ok (none, st) := by
  unfold parseLiteralExpression
  simp only [P.bind_eq, P.bind, current]
  cases hs : st.toks with
  | nil => rfl
  | cons t ts =>
    have := h t (by simp [hs])
    simp at this
    have hl : literalOf t = none := by
      unfold literalOf
      split <;> simp_all
    simp [hl]
    rfl

theorem parseArrayPopExpr_none (rec : Rec N) {st : PState N} (h : CurNotIn st [.roll]) :
    parseArrayPopExpr rec st = .ok (none, st) := by
  unfold parseArrayPopExpr
  simp only [P.bind_eq, P.bind_ok_s (matchKind_none h)]
  rfl

/-- **(d)** `parse_non_subscript_primary_expression` where no primary expression starts -/
theorem parseNonSubscriptPrimary_err (rec : Rec N) {st : PState N}
    (h : CurNotIn st primaryStartKinds) :
    parseNonSubscriptPrimary rec st = .err ⟨.expectedPrimaryExpression, errLocOf st⟩ := by
  unfold parseNonSubscriptPrimary
  simp only [P.bind_eq,
    P.bind_ok_s (parseIdentifierOrFunctionCall_none rec (h.mono (by simp [primaryStartKinds]))),
    P.bind_ok_s (parseLiteralExpression_none (h.mono (by simp [primaryStartKinds]))),
    P.bind_ok_s (parseArrayPopExpr_none rec (h.mono (by simp [primaryStartKinds])))]
  rfl

/-- **(d)** `parse_primary_expression` where no primary expression starts -/
theorem parsePrimary_err (rec : Rec N) {st : PState N} (h : CurNotIn st primaryStartKinds) :
    parsePrimary rec st = .err ⟨.expectedPrimaryExpression, errLocOf st⟩ := by
  unfold parsePrimary
  simp only [P.bind_eq, P.bind_err (parseNonSubscriptPrimary_err rec h)]

theorem parseUnary_err (rec : Rec N) {st : PState N} (h : CurNotIn st expressionStartKinds) :
    parseUnary rec st = .err ⟨.expectedPrimaryExpression, errLocOf st⟩ := by
  unfold parseUnary
  have h1 : CurNotIn st [.minus, .not] :=
    h.mono (by simp [expressionStartKinds])
  have h2 : CurNotIn st primaryStartKinds :=
    h.mono (by intro k hk; simp [expressionStartKinds, hk])
  simp only [P.bind_eq, P.bind_ok_s (matchAnyKind_none h1), P.bind_err (parsePrimary_err rec h2)]

theorem parseBinaryExpression_err (rec : Rec N) (lvl : Level) {next : P N (Expr N)}
    {st : PState N} {e : ParseErr N} (h : next st = .err e) :
    parseBinaryExpression rec lvl next st = .err e := by
  unfold parseBinaryExpression
  simp only [P.bind_eq, P.bind_err h]

/-- **(d)** `parse_expression` where no expression starts (a line break, a keyword, the end) -/
theorem parseExpression_err (rec : Rec N) {st : PState N} (h : CurNotIn st expressionStartKinds) :
    parseExpression rec st = .err ⟨.expectedPrimaryExpression, errLocOf st⟩ := by
  unfold parseExpression parseLogical
  refine parseBinaryExpression_err rec _ ?_
  unfold parseComparison
  refine P.bind_err ?_
  unfold parseTerm
  refine parseBinaryExpression_err rec _ ?_
  unfold parseFactor
  exact parseBinaryExpression_err rec _ (parseUnary_err rec h)

/-! ### statements: a required keyword or an operand is missing -/

/-- the current location can be read (no crash of `current_loc`) -/
def LocOk (st : PState N) : Prop := st.last.idx ≤ ulen st.src ∧ st.last.lineStart ≤ st.last.idx

theorem currentLoc_ok_s {st : PState N} (h : LocOk st) :
    currentLoc st = .ok (⟨st.last.line, st.last.idx - st.last.lineStart⟩, st) := by
  unfold currentLoc
  simp [h.1, h.2]

/-- **(c)** `put <expression>` not followed by `into` -/
theorem parseStatement_put_missing_into (rec : Rec N) {st st2 : PState N} {p : Tok N}
    {ts : List (Tok N)} {v : Expr N} (hs : st.toks = p :: ts) (hp : p.kind = .put)
    (he : parseExpression rec (st.drop p ts) = .ok (v, st2)) (h : CurNotIn st2 [.into]) :
    parseStatement rec st = .err ⟨.expectedToken .into, errLocOf st2⟩ := by
  unfold parseStatement parsePutAssignment
  simp only [P.bind_eq, P.map_eq, P.pure_eq_s, P.pure, P.bind, current, hs, List.head?_cons, hp,
    consume_some (m := isKind .put) hs (by simp [isKind, hp]), he, expectToken_err h]

/-- **(d)** `put` not followed by an expression -/
theorem parseStatement_put_missing_operand (rec : Rec N) {st : PState N} {p : Tok N}
    {ts : List (Tok N)} (hs : st.toks = p :: ts) (hp : p.kind = .put)
    (h : CurNotIn (st.drop p ts) expressionStartKinds) :
    parseStatement rec st = .err ⟨.expectedPrimaryExpression, errLocOf (st.drop p ts)⟩ := by
  unfold parseStatement parsePutAssignment
  simp only [P.bind_eq, P.map_eq, P.pure_eq_s, P.pure, P.bind, current, hs, List.head?_cons, hp,
    consume_some (m := isKind .put) hs (by simp [isKind, hp]), parseExpression_err rec h]

/-- **(c)** `let <lhs>` not followed by `be` -/
theorem parseStatement_let_missing_be (rec : Rec N) {st st2 : PState N} {l : Tok N}
    {ts : List (Tok N)} {d : Lhs N} (hs : st.toks = l :: ts) (hl : l.kind = .let_)
    (he : parseAssignmentLhs rec (st.drop l ts) = .ok (d, st2)) (h : CurNotIn st2 [.be]) :
    parseStatement rec st = .err ⟨.expectedToken .be, errLocOf st2⟩ := by
  unfold parseStatement parseLetAssignment
  simp only [P.bind_eq, P.map_eq, P.pure_eq_s, P.pure, P.bind, current, hs, List.head?_cons, hl,
    consume_some (m := isKind .let_) hs (by simp [isKind, hl]), he, expectToken_err h]

/-- **(c)** `build <identifier>` not followed by `up` -/
theorem parseStatement_build_missing_up (rec : Rec N) {st st2 : PState N} {b : Tok N}
    {ts : List (Tok N)} {d : Ident × Range} (hs : st.toks = b :: ts) (hb : b.kind = .build)
    (he : expectIdentifier rec (st.drop b ts) = .ok (d, st2)) (h : CurNotIn st2 [.up]) :
    parseStatement rec st = .err ⟨.expectedToken .up, errLocOf st2⟩ := by
  unfold parseStatement parseBuild parseBuildKnockHelper
  simp only [P.bind_eq, P.map_eq, P.pure_eq_s, P.pure, P.bind, current, hs, List.head?_cons, hb,
    consume_some (m := isKind .build) hs (by simp [isKind, hb]), he, expectToken_err h]

/-- **(c)** `knock <identifier>` not followed by `down` -/
theorem parseStatement_knock_missing_down (rec : Rec N) {st st2 : PState N} {b : Tok N}
    {ts : List (Tok N)} {d : Ident × Range} (hs : st.toks = b :: ts) (hb : b.kind = .knock)
    (he : expectIdentifier rec (st.drop b ts) = .ok (d, st2)) (h : CurNotIn st2 [.down]) :
    parseStatement rec st = .err ⟨.expectedToken .down, errLocOf st2⟩ := by
  unfold parseStatement parseKnock parseBuildKnockHelper
  simp only [P.bind_eq, P.map_eq, P.pure_eq_s, P.pure, P.bind, current, hs, List.head?_cons, hb,
    consume_some (m := isKind .knock) hs (by simp [isKind, hb]), he, expectToken_err h]

/-- **(d)** `build`/`knock` not followed by an identifier -/
theorem parseStatement_build_missing_identifier (rec : Rec N) {st : PState N} {b : Tok N}
    {ts : List (Tok N)} (hs : st.toks = b :: ts) (hb : b.kind = .build)
    (h : CurNotIn (st.drop b ts) [.pronoun, .commonPrefix, .word]) :
    parseStatement rec st = .err ⟨.expectedIdentifier, errLocOf (st.drop b ts)⟩ := by
  unfold parseStatement parseBuild parseBuildKnockHelper
  simp only [P.bind_eq, P.map_eq, P.pure_eq_s, P.pure, P.bind, current, hs, List.head?_cons, hb,
    consume_some (m := isKind .build) hs (by simp [isKind, hb]), expectIdentifier_err rec h]

/-- **(c)** `take it` not followed by `to` -/
theorem parseStatement_take_missing_to (rec : Rec N) {st : PState N} {tk it : Tok N}
    {ts : List (Tok N)} (hs : st.toks = tk :: it :: ts) (hk : tk.kind = .take)
    (hit : isIspelled (str% "it") it = true)
    (h : CurNotIn ((st.drop tk (it :: ts)).drop it ts) [.to]) :
    parseStatement rec st =
      .err ⟨.expectedToken .to, errLocOf ((st.drop tk (it :: ts)).drop it ts)⟩ := by
  unfold parseStatement parseTakeItToTheTop expectTokenIspelled
  simp only [P.bind_eq, P.map_eq, P.pure_eq_s, P.pure, P.bind, current, hs, List.head?_cons, hk,
    consume_some (m := isKind .take) hs (by simp [isKind, hk]),
    matchAndConsume_some (st := st.drop tk (it :: ts)) (m := isIspelled (str% "it")) rfl hit,
    expectToken_err h]

/-- **(c)** `take it to the` not followed by `top` -/
theorem parseStatement_take_missing_top (rec : Rec N) {st : PState N} {tk it to the : Tok N}
    {ts : List (Tok N)} (hs : st.toks = tk :: it :: to :: the :: ts) (hk : tk.kind = .take)
    (hit : isIspelled (str% "it") it = true) (hto : to.kind = .to)
    (hthe : isIspelled (str% "the") the = true)
    (h : CurNotIn ((((st.drop tk (it :: to :: the :: ts)).drop it (to :: the :: ts)).drop to
      (the :: ts)).drop the ts) [.top]) :
    parseStatement rec st =
      .err ⟨.expectedToken .top, errLocOf ((((st.drop tk (it :: to :: the :: ts)).drop it
        (to :: the :: ts)).drop to (the :: ts)).drop the ts)⟩ := by
  unfold parseStatement parseTakeItToTheTop expectTokenIspelled
  simp only [P.bind_eq, P.map_eq, P.pure_eq_s, P.pure, P.bind, current, hs, List.head?_cons, hk,
    consume_some (m := isKind .take) hs (by simp [isKind, hk]),
    matchAndConsume_some (st := st.drop tk (it :: to :: the :: ts))
      (m := isIspelled (str% "it")) rfl hit,
    expectToken_ok (st := (st.drop tk (it :: to :: the :: ts)).drop it (to :: the :: ts)) rfl hto,
    matchAndConsume_some
      (st := ((st.drop tk (it :: to :: the :: ts)).drop it (to :: the :: ts)).drop to (the :: ts))
      (m := isIspelled (str% "the")) rfl hthe,
    expectToken_err h]

/-- **(c)** `break it` not followed by `down` -/
theorem parseStatement_break_missing_down (rec : Rec N) {st : PState N} {b it : Tok N}
    {ts : List (Tok N)} (hs : st.toks = b :: it :: ts) (hk : b.kind = .break_)
    (hit : isIspelled (str% "it") it = true)
    (h : CurNotIn ((st.drop b (it :: ts)).drop it ts) [.down]) :
    parseStatement rec st =
      .err ⟨.expectedToken .down, errLocOf ((st.drop b (it :: ts)).drop it ts)⟩ := by
  unfold parseStatement parseBreak
  simp only [P.bind_eq, P.map_eq, P.pure_eq_s, P.pure, P.bind, current, hs, List.head?_cons, hk,
    consume_some (m := isKind .break_) hs (by simp [isKind, hk]),
    matchAndConsume_some (st := st.drop b (it :: ts)) (m := isIspelled (str% "it")) rfl hit,
    expectToken_err h]

/-- **(c)** `is bigger`/`is smaller` not followed by `than` (the state is the one right after the
    `is`; `lhs` is the left operand) -/
theorem parseFancyComparison_missing_than (rec : Rec N) (lhs : Expr N) {st : PState N}
    {b : Tok N} {ts : List (Tok N)} (hs : st.toks = b :: ts)
    (hb : b.kind = .bigger ∨ b.kind = .smaller) (h : CurNotIn (st.drop b ts) [.than]) :
    parseFancyComparison rec lhs st = .err ⟨.expectedToken .than, errLocOf (st.drop b ts)⟩ := by
  have h1 : CurNotIn st [.as] := CurNotIn.cons hs (by rcases hb with hb | hb <;> simp [hb])
  unfold parseFancyComparison
  simp only [P.bind_eq, P.bind, matchKind_none h1,
    matchAndConsume_some (m := isAnyKind [.bigger, .smaller]) hs
      (by rcases hb with hb | hb <;> simp [isAnyKind, hb])]
  rcases hb with hb | hb <;>
    simp only [hb, getBinaryOperator, P.ofOption, P.pure, expectToken_err h]

/-- **(c)** `is as big`/`is as small` not followed by `as` -/
theorem parseFancyComparison_missing_as (rec : Rec N) (lhs : Expr N) {st : PState N}
    {a b : Tok N} {ts : List (Tok N)} (hs : st.toks = a :: b :: ts) (ha : a.kind = .as)
    (hb : b.kind = .big ∨ b.kind = .small)
    (h : CurNotIn ((st.drop a (b :: ts)).drop b ts) [.as]) :
    parseFancyComparison rec lhs st =
      .err ⟨.expectedToken .as, errLocOf ((st.drop a (b :: ts)).drop b ts)⟩ := by
  unfold parseFancyComparison expectAny
  simp only [P.bind_eq, P.bind, matchAndConsume_some (m := isKind .as) hs (by simp [isKind, ha]),
    matchAndConsume_some (st := st.drop a (b :: ts)) (m := isAnyKind [.big, .small]) rfl
      (by rcases hb with hb | hb <;> simp [isAnyKind, hb])]
  rcases hb with hb | hb <;>
    simp only [hb, getBinaryOperator, P.ofOption, P.pure, P.pure_eq_s, expectToken_err h]

/-- **(d)** `say` not followed by an expression -/
theorem parseStatement_say_missing_operand (rec : Rec N) {st : PState N} {s : Tok N}
    {ts : List (Tok N)} (hs : st.toks = s :: ts) (hk : s.kind = .say ∨ s.kind = .sayAlias)
    (h : CurNotIn (st.drop s ts) expressionStartKinds) :
    parseStatement rec st = .err ⟨.expectedPrimaryExpression, errLocOf (st.drop s ts)⟩ := by
  unfold parseStatement parseSay
  rcases hk with hk | hk <;>
  simp only [P.bind_eq, P.map_eq, P.pure_eq_s, P.pure, P.bind, current, hs, List.head?_cons, hk,
    consume_some (m := isAnyKind [.say, .sayAlias]) hs (by simp [isAnyKind, hk]),
    parseExpression_err rec h]

/-- **(d)** `if`/`while`/`until` not followed by an expression -/
theorem parseStatement_cond_missing_operand (rec : Rec N) {st : PState N} {s : Tok N}
    {ts : List (Tok N)} (hs : st.toks = s :: ts)
    (hk : s.kind = .if_ ∨ s.kind = .while_ ∨ s.kind = .until_)
    (h : CurNotIn (st.drop s ts) expressionStartKinds) :
    parseStatement rec st = .err ⟨.expectedPrimaryExpression, errLocOf (st.drop s ts)⟩ := by
  unfold parseStatement parseIfStatement parseLoop
  rcases hk with hk | hk | hk
  · simp only [P.bind_eq, P.map_eq, P.pure_eq_s, P.pure, P.bind, current, hs, List.head?_cons, hk,
      consume_some (m := isKind .if_) hs (by simp [isKind, hk]), parseExpression_err rec h]
  · simp only [P.bind_eq, P.map_eq, P.pure_eq_s, P.pure, P.bind, current, hs, List.head?_cons, hk,
      consume_some (m := isAnyKind [.while_, .until_]) hs (by simp [isAnyKind, hk]),
      parseExpression_err rec h]
  · simp only [P.bind_eq, P.map_eq, P.pure_eq_s, P.pure, P.bind, current, hs, List.head?_cons, hk,
      consume_some (m := isAnyKind [.while_, .until_]) hs (by simp [isAnyKind, hk]),
      parseExpression_err rec h]

/-! ### blocks and the top level -/

/-- **(a)** a second statement on the same line: after a complete statement, the current token is
    neither `,`/`.` nor a line break -/
theorem stmtLoopBody_second_statement (rec : Rec N) {st st1 : PState N} {s : Stmt N} {t : Tok N}
    {ts : List (Tok N)} (hp : parseStatement rec st = .ok (some s, st1)) (hs : st1.toks = t :: ts)
    (hk : t.kind ∉ [.comma, .dot, .newline]) :
    stmtLoopBody rec st = .err ⟨.expectedToken .newline, .token t⟩ := by
  unfold stmtLoopBody
  simp only [P.bind_eq, P.bind, hp, expectEol_err hs hk]

/-- **(a)** the same in a function body (unless the statement was an `if … else`, which ends
    the body) -/
theorem fnStmtLoopBody_second_statement (rec : Rec N) {st st1 : PState N} {s : Stmt N}
    {t : Tok N} {ts : List (Tok N)} (hp : parseStatement rec st = .ok (some s, st1))
    (hterm : isFunctionTerminator s = false) (hs : st1.toks = t :: ts)
    (hk : t.kind ∉ [.comma, .dot, .newline]) :
    fnStmtLoopBody rec st = .err ⟨.expectedToken .newline, .token t⟩ := by
  unfold fnStmtLoopBody
  simp only [P.bind_eq, P.bind, hp, hterm, Bool.false_eq_true, if_false, expectEol_err hs hk]

theorem parseBlock_of_stmtLoopBody_err (rec : Rec N) {st : PState N} {e : ParseErr N}
    (hloc : LocOk st) (hnl : CurNotIn st [.newline]) (h : stmtLoopBody rec st = .err e) :
    parseBlock rec st = .err e := by
  unfold parseBlock
  simp only [P.bind_eq, P.bind, currentLoc_ok_s hloc, matchKind_none hnl, h]

theorem topLoopBody_of_parseBlock_err (rec : Rec N) {st : PState N} {e : ParseErr N}
    (hne : st.toks ≠ []) (h : parseBlock rec st = .err e) : topLoopBody rec st = .err e := by
  unfold topLoopBody
  cases hs : st.toks with
  | nil => exact absurd hs hne
  | cons t ts => simp only [P.bind_eq, P.bind, current, hs, List.head?_cons, h]

/-- a state in which `parse_statement` returned a statement has a current token, and it is not a
    line break -/
theorem parseStatement_some_cur (rec : Rec N) {st st1 : PState N} {s : Stmt N}
    (hp : parseStatement rec st = .ok (some s, st1)) : st.toks ≠ [] ∧ CurNotIn st [.newline] := by
  constructor
  · intro h
    rw [parseStatement_none_s rec (fun t ht => by simp [h] at ht)] at hp
    cases hp
  · intro t ht hk
    simp at hk
    rw [parseStatement_none_s rec (fun t' ht' => by rw [ht] at ht'; cases ht'; exact Or.inr hk)] at hp
    cases hp

/-- **(a)** at block level -/
theorem parseBlock_second_statement (rec : Rec N) {st st1 : PState N} {s : Stmt N} {t : Tok N}
    {ts : List (Tok N)} (hloc : LocOk st) (hp : parseStatement rec st = .ok (some s, st1))
    (hs : st1.toks = t :: ts) (hk : t.kind ∉ [.comma, .dot, .newline]) :
    parseBlock rec st = .err ⟨.expectedToken .newline, .token t⟩ :=
  parseBlock_of_stmtLoopBody_err rec hloc (parseStatement_some_cur rec hp).2
    (stmtLoopBody_second_statement rec hp hs hk)

/-- **(a)** at top level -/
theorem topLoopBody_second_statement (rec : Rec N) {st st1 : PState N} {s : Stmt N} {t : Tok N}
    {ts : List (Tok N)} (hloc : LocOk st) (hp : parseStatement rec st = .ok (some s, st1))
    (hs : st1.toks = t :: ts) (hk : t.kind ∉ [.comma, .dot, .newline]) :
    topLoopBody rec st = .err ⟨.expectedToken .newline, .token t⟩ :=
  topLoopBody_of_parseBlock_err rec (parseStatement_some_cur rec hp).1
    (parseBlock_second_statement rec hloc hp hs hk)

/-- **(b)** at statement-loop level -/
theorem stmtLoopBody_unexpected (rec : Rec N) {st : PState N} {t : Tok N} {ts : List (Tok N)}
    (hs : st.toks = t :: ts) (h : t.kind ∉ .else_ :: .newline :: statementStartKinds) :
    stmtLoopBody rec st = .err ⟨.unexpectedToken, .token t⟩ := by
  unfold stmtLoopBody
  simp only [P.bind_eq, P.bind, parseStatement_unexpected rec hs h]

/-- **(b)** at block level -/
theorem parseBlock_unexpected (rec : Rec N) {st : PState N} {t : Tok N} {ts : List (Tok N)}
    (hloc : LocOk st) (hs : st.toks = t :: ts)
    (h : t.kind ∉ .else_ :: .newline :: statementStartKinds) :
    parseBlock rec st = .err ⟨.unexpectedToken, .token t⟩ :=
  parseBlock_of_stmtLoopBody_err rec hloc
    (CurNotIn.cons hs (fun hk => h (by simp at hk; simp [hk])))
    (stmtLoopBody_unexpected rec hs h)

/-- **(b)** at top level -/
theorem topLoopBody_unexpected (rec : Rec N) {st : PState N} {t : Tok N} {ts : List (Tok N)}
    (hloc : LocOk st) (hs : st.toks = t :: ts)
    (h : t.kind ∉ .else_ :: .newline :: statementStartKinds) :
    topLoopBody rec st = .err ⟨.unexpectedToken, .token t⟩ :=
  topLoopBody_of_parseBlock_err rec (by simp [hs]) (parseBlock_unexpected rec hloc hs h)

/-- **(e)** an `else` left over after a block at top level -/
theorem topLoopBody_else_after_block (rec : Rec N) {st st1 : PState N} {b : Block N} {e : Tok N}
    {ts : List (Tok N)} (hne : st.toks ≠ []) (hb : parseBlock rec st = .ok (b, st1))
    (hs : st1.toks = e :: ts) (he : e.kind = .else_) :
    topLoopBody rec st = .err ⟨.unexpectedToken, .token e⟩ := by
  unfold topLoopBody
  cases hs0 : st.toks with
  | nil => exact absurd hs0 hne
  | cons t ts0 =>
    simp only [P.bind_eq, P.bind, current, hs0, List.head?_cons, hb]
    simp [topLoopAfterBlock, P.bind, currentMatches, hs, isKind, he, failWith, errLocOf]

/-- **(e)** a stray `else` where a block must start at top level -/
theorem topLoopBody_stray_else (rec : Rec N) {st : PState N} {e : Tok N} {ts : List (Tok N)}
    (hloc : LocOk st) (hs : st.toks = e :: ts) (he : e.kind = .else_) :
    topLoopBody rec st = .err ⟨.unexpectedToken, .token e⟩ := by
  refine topLoopBody_else_after_block rec (st1 := st)
    (b := .mk ⟨st.last.line, st.last.idx - st.last.lineStart⟩ []) (by simp [hs]) ?_ hs he
  have h1 : CurNotIn st [.newline] := CurNotIn.cons hs (by simp [he])
  have h2 : parseStatement rec st = .ok (none, st) :=
    parseStatement_none_s rec (fun t ht => by
      rw [hs] at ht; simp only [List.head?_cons, Option.some.injEq] at ht; subst ht; exact Or.inl he)
  unfold parseBlock stmtLoopBody
  simp only [P.bind_eq, P.bind, currentLoc_ok_s hloc, matchKind_none h1, h2]
  rfl

end Parser
end Rrss
