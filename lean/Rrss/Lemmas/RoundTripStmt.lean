/-
  Rrss.Lemmas.RoundTripStmt — C02, parser half: one-line statements.
-/
import Rrss.Lemmas.RoundTripShape
namespace Rrss
namespace Grammar
open Parser

variable {N : Type} [CharOps]

set_option linter.unusedSimpArgs false

/-! ### identifiers, targets, calls, suffix loops -/

def IdSpec.range : IdSpec → Choices N → Range
  | .pronoun, c => (c.sub 0).here.range
  | .var v, c => v.range (c.sub 0)

omit [CharOps] in
theorem id_toks_pos (x : IdSpec) (c : Choices N) : 1 ≤ (x.toks c).length := by
  cases x with
  | pronoun => simp [IdSpec.toks]
  | var v => simpa [IdSpec.toks] using var_toks_pos v _

theorem ident_run (x : IdSpec) (c : Choices N) (n : Nat) (rest : List (Tok N)) (src last eof b)
    (hw : x.wf = true) (hn : (x.toks c).length ≤ n) (hr : nextIn [.word] rest = false) :
    expectIdentifier (parser n) ⟨src, x.toks c ++ rest, last, eof, b⟩
      = .ok ((x.toIdent, x.range c), ⟨src, rest, lastSnap (x.toks c) last, eof, b⟩) := by
  cases x with
  | pronoun =>
    simp [expectIdentifier, parseIdentifier, parseVariableName, parseCommonIdentifier,
      parseCapitalizedIdentifier, capitalizedLoopBody, macP_cons, isCapitalizedWord,
      parseSimpleIdentifier, parsePronoun, bind_run, mac_cons, isKind, pure_run, IdSpec.toks,
      IdSpec.toIdent, IdSpec.range]
  | var v =>
    have hv := var_run v (c.sub 0) n rest src last eof b (by simpa [IdSpec.wf] using hw)
      (by simpa [IdSpec.toks] using hn) hr
    simp [expectIdentifier, parseIdentifier, bind_run, IdSpec.toks, hv, pure_run, IdSpec.toIdent,
      IdSpec.range]

/-- the target with ranges -/
def Target.lhsR (t : Target N) (c : Choices N) : Lhs N :=
  match t.subs with
  | [] => .ident t.id.toIdent (t.id.range (c.sub 0))
  | s :: ss =>
    .sub (chainRes ss ((c.sub 1).sub 2) (.ident t.id.toIdent (t.id.range (c.sub 0))) (s.ast ((c.sub 1).sub 1))).1
      (chainRes ss ((c.sub 1).sub 2) (.ident t.id.toIdent (t.id.range (c.sub 0))) (s.ast ((c.sub 1).sub 1))).2

theorem target_run (t : Target N) (c : Choices N) (n : Nat) (rest : List (Tok N)) (src last eof b)
    (hw : t.wf = true) (hn : (t.toks c).length ≤ n) (hs : EdgeStop t.edgeCall rest) :
    parseAssignmentLhs (parser n) ⟨src, t.toks c ++ rest, last, eof, b⟩
      = .ok (t.lhsR c, ⟨src, rest, lastSnap (t.toks c) last, eof, b⟩) := by
  obtain ⟨x, subs⟩ := t
  simp only [Target.wf, Bool.and_eq_true] at hw
  obtain ⟨⟨hwx, hws⟩, hch⟩ := hw
  simp only [Target.toks, List.length_append] at hn
  have hat : nextIn [.at] rest = false := nextIn_sub hs.1 (by decide)
  cases subs with
  | nil =>
    have hx := ident_run x (c.sub 0) n rest src last eof b hwx (by simpa [subsToks] using hn)
      (nextIn_sub hs.1 (by decide))
    simp [parseAssignmentLhs, Target.toks, subsToks, bind_run, hx, parseAssignmentLhsWith,
      mac_stop_kind hat, pure_run, Target.lhsR]
  | cons s ss =>
    simp only [subsWf, Bool.and_eq_true] at hws
    simp only [subsToks, List.length_append, List.length_cons] at hn
    have hlast : PrimStop (lastOf s ss) rest :=
      ⟨nextIn_sub hs.1 (by decide), fun _ => hat,
        fun he => hs.2 (by simpa [Target.edgeCall, subsEdgeCall, subsEdgeCall_lastOf] using he)⟩
    have hx := ident_run x (c.sub 0) n (subsToks (s :: ss) (c.sub 1) ++ rest) src last eof b hwx
      (by omega) (by simp [subsToks, nextIn_cons])
    have hs1 := fun last => prim_run s ((c.sub 1).sub 1) n (subsToks ss ((c.sub 1).sub 2) ++ rest) src
      last eof b hws.1 (by omega) (primStop_chain s ss _ rest hch hlast)
    have hss := fun last arr => subs_run ss ((c.sub 1).sub 2) n rest arr (s.ast ((c.sub 1).sub 1)) src
      last eof b hws.2 (chainOKL_of_chainOK hch)
      (fun x xs hx => by subst hx; simpa [lastOf] using hlast) hat (by omega)
    simp only [subsToks, List.append_assoc, List.cons_append] at hx
    simp [parseAssignmentLhs, Target.toks, subsToks, bind_run, hx, parseAssignmentLhsWith, mac_cons,
      isKind, hs1, hss, pure_run, Target.lhsR]

theorem funcall_run (a : Unary N) (as : List (Unary N)) (c1 c2 c3 : Choices N) (n : Nat)
    (rest : List (Tok N)) (src last eof b)
    (hwa : a.wf = true) (hwas : argsWf as = true) (hch : chainOK Unary.edgeCall a as = true)
    (hn : (a.toks c2).length + (argsToks as c3).length ≤ n)
    (h1 : nextIn [.word, .taking, .at] rest = false) (h2 : nextIn argSeps rest = false) :
    parseFunctionCall (parser (n + 1))
        ⟨src, tk (.kw .taking) c1 :: (a.toks c2 ++ (argsToks as c3 ++ rest)), last, eof, b⟩
      = .ok (a.ast c2 :: argsAst as c3,
          ⟨src, rest, lastSnap (argsToks as c3) (lastSnap (a.toks c2) (tk (.kw .taking) c1 : Tok N).after),
            eof, b⟩) := by
  have ha := unary_run a c2 n (argsToks as c3 ++ rest) src (tk (.kw .taking) c1 : Tok N).after eof b
    hwa (by omega) (argStop_chain a as c3 rest hch h1 h2)
  have has := fun last => args_run as c3 (n + 1) rest src last eof b hwas (chainOKL_of_chainOK hch)
    (by omega) h1 h2
  simp only [hrec_unary] at has
  simp [parseFunctionCall, bind_run, consume_cons, isKind, parseParameterList, hrec_unary, ha, has, pure_run]

theorem hrec_bk (n : Nat) (k : TK) :
    (parser (n + 1) : Rec N).buildKnockLoop k = buildKnockLoopBody (parser n) k := rfl

theorem suffix_run (k : TK) (hkc : k ≠ .comma) : ∀ (m : Nat) (c : Choices N) (n : Nat) (rest : List (Tok N)) (src last eof b),
    (suffixToks k m c).length ≤ n → nextIn [k, .comma] rest = false →
    buildKnockLoopBody (parser n) k ⟨src, suffixToks k m c ++ rest, last, eof, b⟩
      = .ok (m, ⟨src, rest, lastSnap (suffixToks k m c) last, eof, b⟩) := by
  intro m
  induction m with
  | zero =>
    intro c n rest src last eof b _ hr
    have hk : nextIn [k] rest = false := nextIn_sub hr (by simp)
    simp [suffixToks, buildKnockLoopBody, bind_run, mac_stop_kind hk, pure_run]
  | succ m ih =>
    intro c n rest src last eof b hn hr
    simp only [suffixToks, List.length_cons, List.length_append] at hn
    cases n with
    | zero => omega
    | succ n =>
      have hi := fun last => ih (c.sub 2) n rest src last eof b (by omega) hr
      have hcomma : nextIn [.comma] (suffixToks k m (c.sub 2) ++ rest) = false := by
        cases m with
        | zero => simpa [suffixToks] using nextIn_sub hr (ks' := [.comma]) (by simp)
        | succ m' =>
          simp only [suffixToks, List.cons_append, nextIn_cons, tk_kw_kind, List.contains_cons,
            List.contains_nil, Bool.or_false, beq_eq_false_iff_ne, ne_eq]
          exact hkc
      rw [buildKnockLoopBody]
      simp only [suffixToks, List.cons_append, List.append_assoc]
      split <;>
        simp [bind_run, mac_cons, isKind, mac_stop_kind hcomma, hrec_bk, hi, pure_run]

/-! ### shapes -/

omit [CharOps] in
theorem chainRes_shape (ss : List (Prim N)) (s : Prim N) (c cs : Choices N) (a a' : Rrss.Primary N)
    (ha : eraseP a = a') :
    eraseLhs (.sub (chainRes ss c a (s.ast cs)).1 (chainRes ss c a (s.ast cs)).2) = lhsOf a' s ss := by
  induction ss generalizing s c cs a a' with
  | nil => simp [chainRes, lhsOf, eraseLhs, ha, prim_shape s cs]
  | cons s' ss ih =>
    simp only [chainRes, lhsOf]
    exact ih s' (c.sub 2) (c.sub 1) _ _ (by simp only [eraseP, ha, prim_shape s cs])

omit [CharOps] in
theorem target_shape (t : Target N) (c : Choices N) : eraseLhs (t.lhsR c) = t.toLhs := by
  obtain ⟨x, subs⟩ := t
  cases subs with
  | nil => rfl
  | cons s ss =>
    simp only [Target.lhsR, Target.toLhs]
    exact chainRes_shape ss s _ _ _ _ rfl

/-- the list with ranges -/
def listR (l : OpList (Expression N)) (c : Choices N) : ExprList N :=
  ⟨logicalLay.ast l.first (c.sub 0), restAst logicalLay l.rest (c.sub 1)⟩

theorem list_shape (l : OpList (Expression N)) (c : Choices N) : eraseEL (listR l c) = l.toExprList := by
  simp only [listR, eraseEL, OpList.toExprList, restAst_shape logical_layShape]
  rw [logical_layShape l.first (c.sub 0)]
  rfl

theorem toplist_run (l : OpList (Expression N)) (c : Choices N) (n : Nat) (rest : List (Tok N))
    (src last eof) (hw : OpList.wf logicalSyn false l = true)
    (hn : (OpList.toks logicalSyn l c).length ≤ n) (hs : ListStop l rest) :
    parseToplevelExpressionList (parser n) ⟨src, OpList.toks logicalSyn l c ++ rest, last, eof, false⟩
      = .ok (listR l c, ⟨src, rest, lastSnap (OpList.toks logicalSyn l c) last, eof, false⟩) :=
  oplist_run logical_ok l c n rest src last eof false hw hn ⟨hs.1, hs.2.1, fun _ => hs.2.2⟩

/-! ### the statements -/

/-- the statement `s`, spelled with `c`, is parsed from its tokens (and nothing of `rest`) and
    gives the grammar's statement up to positions -/
def SRuns (s : SimpleStmt N) (c : Choices N) (n : Nat) (rest : List (Tok N)) (src : Str)
    (last eof : Snap) : Prop :=
  ∃ s', parseStatement (parser n) ⟨src, s.toks c ++ rest, last, eof, false⟩
      = .ok (some s', ⟨src, rest, lastSnap (s.toks c) last, eof, false⟩) ∧ eraseS s' = s.toStmt

theorem continuers_eq : continuers (N := N)
    = [.comma, .ampersand, .apostropheNApostrophe, .and, .word, .taking, .at, .multiply, .divide, .plus,
       .with_, .minus, .is, .apostropheS, .apostropheRE, .less, .lessEq, .greater, .greaterEq, .isnt,
       .and, .or, .nor] := rfl

/-- a keyword that continues no expression ends every expression -/
theorem stop_kw (e : Expression N) (k : TK) (hk : k ∉ continuers (N := N)) (c : Choices N)
    (ts : List (Tok N)) : logicalSyn.Stop false e (tk (.kw k) c :: ts) :=
  stop_of_endsExpr false e (by
    unfold EndsExpr
    simpa [nextIn_cons] using hk)

omit [CharOps] in
theorem edgeStop_kw (ec : Bool) (k : TK) (hk : k ∉ [TK.word, .taking, .at] ++ argSeps) (c : Choices N)
    (ts : List (Tok N)) : EdgeStop ec (tk (.kw k) c :: ts) := by
  simp only [List.mem_append, not_or] at hk
  exact ⟨by simpa [nextIn_cons] using hk.1, fun _ => by simpa [nextIn_cons] using hk.2⟩

theorem say_run (e : Expression N) (c : Choices N) (n : Nat) (rest : List (Tok N)) (src last eof)
    (hw : (SimpleStmt.say e).wf = true) (hn : ((SimpleStmt.say e).toks c).length ≤ n)
    (hs : (SimpleStmt.say e).Stop rest) : SRuns (.say e) c n rest src last eof := by
  simp only [SimpleStmt.toks, List.length_cons] at hn
  have he := fun last => expression_run e (c.sub 1) n rest src last eof false hw (by omega) hs
  refine ⟨.output (logicalLay.ast e (c.sub 1)), ?_, ?_⟩
  · simp only [SimpleStmt.toks]
    split <;>
      simp [parseStatement, current_run, map_run, parseSay, bind_run, consume_cons, isAnyKind, he, pure_run]
  · simp only [eraseS, SimpleStmt.toStmt, toAst]
    rw [logical_layShape e (c.sub 1)]; rfl

theorem expr_shape (e : Expression N) (c : Choices N) : eraseE (logicalLay.ast e c) = toAst e :=
  logical_layShape e c

theorem put_run (e : Expression N) (t : Target N) (c : Choices N) (n : Nat) (rest : List (Tok N))
    (src last eof) (hw : (SimpleStmt.put e t).wf = true) (hn : ((SimpleStmt.put e t).toks c).length ≤ n)
    (hs : (SimpleStmt.put e t).Stop rest) : SRuns (.put e t) c n rest src last eof := by
  simp only [SimpleStmt.toks, List.length_cons, List.length_append] at hn
  simp only [SimpleStmt.wf, Bool.and_eq_true] at hw
  have he := fun last => expression_run e (c.sub 1) n (tk (.kw .into) (c.sub 2) :: (t.toks (c.sub 3) ++ rest))
    src last eof false hw.1 (by omega) (stop_kw e .into (by rw [continuers_eq]; decide) _ _)
  have ht := fun last => target_run t (c.sub 3) n rest src last eof false hw.2 (by omega) hs
  refine ⟨.assign (t.lhsR (c.sub 3)) none ⟨logicalLay.ast e (c.sub 1), []⟩, ?_, ?_⟩
  · simp [SimpleStmt.toks, parseStatement, current_run, map_run, parsePutAssignment, bind_run, consume_cons,
      isKind, he, expectToken, mac_cons, ht, pure_run]
  · simp [eraseS, SimpleStmt.toStmt, target_shape, eraseEL, expr_shape, eraseL]

theorem expr_heads (e : Expression N) (c : Choices N) : ∃ t ts, unparse e c = t :: ts ∧
    exprStarts.contains t.kind = true ∧ getUnaryOperator t.kind = logicalSyn.startsUn e :=
  logical_ok.heads e c

theorem oplist_heads (l : OpList (Expression N)) (c : Choices N) : ∃ t ts,
    OpList.toks logicalSyn l c = t :: ts ∧
    exprStarts.contains t.kind = true ∧ getUnaryOperator t.kind = logicalSyn.startsUn l.first := by
  obtain ⟨t, ts, h1, h2, h3⟩ := expr_heads l.first (c.sub 0)
  refine ⟨t, ts ++ restToks logicalSyn l.rest (c.sub 1), ?_, h2, h3⟩
  simp only [OpList.toks]
  rw [show logicalSyn.toks l.first (c.sub 0) = unparse l.first (c.sub 0) from rfl, h1]
  rfl

omit [CharOps] in
theorem letop_kind (o : BinOp) (k : Nat) (c : Choices N)
    (ho : [BinOp.plus, .minus, .multiply, .divide].contains o = true) :
    isAnyKind [TK.plus, .with_, .minus, .multiply, .divide] (tk (.kw (opKind o k)) c : Tok N) = true ∧
      getBinaryOperator (opKind o k) = some o := by
  simp only [List.contains_eq_mem, List.mem_cons, List.not_mem_nil, or_false, decide_eq_true_eq] at ho
  rcases ho with h | h | h | h <;> subst h
  · by_cases hk : k % 2 = 0 <;> simp [opKind, hk, isAnyKind, getBinaryOperator]
  · exact ⟨rfl, rfl⟩
  · exact ⟨rfl, rfl⟩
  · exact ⟨rfl, rfl⟩

omit [CharOps] in
theorem starts_not_binop {k : TK} (h : exprStarts.contains k = true) (hm : k ≠ .minus) :
    [TK.plus, .with_, .minus, .multiply, .divide].contains k = false := by
  simp only [exprStarts, primStarts, List.cons_append, List.nil_append, List.contains_eq_mem,
    List.mem_cons, List.not_mem_nil, or_false, decide_eq_true_eq] at h
  rcases h with h | h | h | h | h | h | h | h | h | h | h | h | h <;> subst h <;>
    first | rfl | exact absurd rfl hm

theorem let_run (t : Target N) (op : Option BinOp) (l : OpList (Expression N)) (c : Choices N) (n : Nat)
    (rest : List (Tok N)) (src last eof) (hw : (SimpleStmt.letBe t op l).wf = true)
    (hn : ((SimpleStmt.letBe t op l).toks c).length ≤ n) (hs : (SimpleStmt.letBe t op l).Stop rest) :
    SRuns (.letBe t op l) c n rest src last eof := by
  simp only [SimpleStmt.toks, List.length_cons, List.length_append] at hn
  simp only [SimpleStmt.wf, Bool.and_eq_true] at hw
  obtain ⟨⟨hwt, hwl⟩, hwo⟩ := hw
  have hl := fun last => toplist_run l (c.sub 4) n rest src last eof hwl (by omega) hs
  refine ⟨.assign (t.lhsR (c.sub 1)) op (listR l (c.sub 4)), ?_, ?_⟩
  · cases op with
    | none =>
      have ht := fun last => target_run t (c.sub 1) n
        (tk (.kw .be) (c.sub 2) :: (OpList.toks logicalSyn l (c.sub 4) ++ rest)) src last eof false hwt
        (by omega) (edgeStop_kw _ .be (by decide) _ _)
      have hnop : nextIn [.plus, .with_, .minus, .multiply, .divide]
          (OpList.toks logicalSyn l (c.sub 4) ++ rest) = false := by
        obtain ⟨tk0, ts0, h1, h2, h3⟩ := oplist_heads l (c.sub 4)
        have hne : logicalSyn.startsUn l.first ≠ some .minus := by simpa using hwo
        rw [h1]
        simp only [List.cons_append, nextIn_cons]
        have : tk0.kind ≠ .minus := by
          intro hk; rw [hk] at h3; exact hne h3.symm
        exact starts_not_binop h2 this
      simp [SimpleStmt.toks, parseStatement, current_run, map_run, parseLetAssignment, bind_run, consume_cons,
        isKind, ht, expectToken, mac_cons, mac_stop_any hnop, hl, pure_run]
    | some o =>
      have ht := fun last => target_run t (c.sub 1) n
        (tk (.kw .be) (c.sub 2) :: (tk (.kw (opKind o (c.sub 3).choice)) (c.sub 3) ::
          (OpList.toks logicalSyn l (c.sub 4) ++ rest))) src last eof false hwt
        (by simp at hn; omega) (edgeStop_kw _ .be (by decide) _ _)
      obtain ⟨hk1, hk2⟩ := letop_kind o (c.sub 3).choice (c.sub 3) hwo
      simp [SimpleStmt.toks, parseStatement, current_run, map_run, parseLetAssignment, bind_run, consume_cons,
        isKind, ht, expectToken, mac_cons, hk1, hk2, ofOption_some, hl, pure_run]
  · simp [eraseS, SimpleStmt.toStmt, target_shape, list_shape]

theorem bk_run (x : IdSpec) (m : Nat) (c : Choices N) (n : Nat) (rest : List (Tok N)) (src last eof)
    (begin suffix : TK) (hsc : suffix ≠ .comma)
    (hw : x.wf = true)
    (hn : (x.toks (c.sub 1)).length + (suffixToks suffix (m + 1) (c.sub 2)).length + 1 ≤ n)
    (hs : nextIn [suffix, .comma] rest = false) (hword : suffix ≠ .word) :
    parseBuildKnockHelper (parser n) begin suffix
        ⟨src, tk (.kw begin) (c.sub 0) :: (x.toks (c.sub 1) ++ suffixToks suffix (m + 1) (c.sub 2)) ++ rest,
          last, eof, false⟩
      = .ok ((x.toIdent, x.range (c.sub 1), 1 + Int.ofNat m),
          ⟨src, rest, lastSnap (tk (.kw begin) (c.sub 0) :: (x.toks (c.sub 1) ++
            suffixToks suffix (m + 1) (c.sub 2))) last, eof, false⟩) := by
  simp only [suffixToks, List.length_cons, List.length_append] at hn
  have hx := fun last => ident_run x (c.sub 1) n (suffixToks suffix (m + 1) (c.sub 2) ++ rest) src last eof
    false hw (by omega) (by
      simp only [suffixToks, List.cons_append, nextIn_cons, tk_kw_kind, List.contains_cons,
        List.contains_nil, Bool.or_false, beq_eq_false_iff_ne, ne_eq]
      exact fun h => hword h)
  have hl := fun last => suffix_run suffix hsc m ((c.sub 2).sub 2) n rest src last eof false (by omega) hs
  have hcomma : nextIn [.comma] (suffixToks suffix m ((c.sub 2).sub 2) ++ rest) = false := by
    cases m with
    | zero => simpa [suffixToks] using nextIn_sub hs (ks' := [.comma]) (by simp)
    | succ m' =>
      simp only [suffixToks, List.cons_append, nextIn_cons, tk_kw_kind, List.contains_cons,
        List.contains_nil, Bool.or_false, beq_eq_false_iff_ne, ne_eq]
      exact hsc
  simp only [suffixToks, List.cons_append, List.append_assoc] at hx ⊢
  by_cases hc : (c.sub 2).choice % 2 = 1 <;> simp only [hc, if_true, if_false, List.nil_append,
      List.cons_append] at hx ⊢ <;>
    simp [parseBuildKnockHelper, bind_run, consume_cons, isKind, hx, expectToken, mac_cons,
      mac_stop_kind hcomma, hl, pure_run]

theorem build_run (x : IdSpec) (m : Nat) (c : Choices N) (n : Nat) (rest : List (Tok N)) (src last eof)
    (hw : (SimpleStmt.build x m : SimpleStmt N).wf = true)
    (hn : ((SimpleStmt.build x m : SimpleStmt N).toks c).length ≤ n)
    (hs : (SimpleStmt.build x m : SimpleStmt N).Stop rest) : SRuns (.build x m) c n rest src last eof := by
  simp only [SimpleStmt.toks, List.length_cons, List.length_append] at hn
  have h := bk_run x m c n rest src last eof .build .up (by decide) hw (by omega) hs (by decide)
  refine ⟨.inc x.toIdent (x.range (c.sub 1)) (1 + Int.ofNat m), ?_, rfl⟩
  simp only [SimpleStmt.toks, List.cons_append, List.append_assoc] at h ⊢
  simp [parseStatement, current_run, map_run, parseBuild, bind_run, h, pure_run]

theorem knock_run (x : IdSpec) (m : Nat) (c : Choices N) (n : Nat) (rest : List (Tok N)) (src last eof)
    (hw : (SimpleStmt.knock x m : SimpleStmt N).wf = true)
    (hn : ((SimpleStmt.knock x m : SimpleStmt N).toks c).length ≤ n)
    (hs : (SimpleStmt.knock x m : SimpleStmt N).Stop rest) : SRuns (.knock x m) c n rest src last eof := by
  simp only [SimpleStmt.toks, List.length_cons, List.length_append] at hn
  have h := bk_run x m c n rest src last eof .knock .down (by decide) hw (by omega) hs (by decide)
  refine ⟨.dec x.toIdent (x.range (c.sub 1)) (1 + Int.ofNat m), ?_, rfl⟩
  simp only [SimpleStmt.toks, List.cons_append, List.append_assoc] at h ⊢
  simp [parseStatement, current_run, map_run, parseKnock, bind_run, h, pure_run]

omit [CharOps] in
theorem currentLoc_ok (src : Str) (toks : List (Tok N)) (last eof : Snap) (b : Bool) (h : SnapOK src last) :
    currentLoc ⟨src, toks, last, eof, b⟩
      = .ok (⟨last.line, last.idx - last.lineStart⟩, ⟨src, toks, last, eof, b⟩) := by
  simp [currentLoc, h.1, h.2]

omit [CharOps] in
@[simp] theorem tk_after (sp : TokSpec N) (c : Choices N) : (tk sp c).after = c.here.after := by
  cases sp <;> rfl

omit [CharOps] in
theorem sane_here {c : Choices N} {src : Str} (h : c.Sane src) (p : List Nat) :
    SnapOK src (p.foldl Choices.sub c).here.after := by
  induction p generalizing c with
  | nil => exact h []
  | cons i p ih => exact ih (c := c.sub i) (fun q => h (i :: q))

theorem listen_run (t : Option (Target N)) (c : Choices N) (n : Nat) (rest : List (Tok N)) (src last eof)
    (hw : (SimpleStmt.listen t).wf = true) (hn : ((SimpleStmt.listen t).toks c).length ≤ n)
    (hs : (SimpleStmt.listen t).Stop rest) (hsane : c.Sane src) :
    SRuns (.listen t) c n rest src last eof := by
  cases t with
  | none =>
    have hto : nextIn [.to] rest = false := hs
    have hloc := currentLoc_ok src rest (c.sub 0).here.after eof false (sane_here hsane [0])
    refine ⟨.input none ⟨(c.sub 0).here.after.line, (c.sub 0).here.after.idx - (c.sub 0).here.after.lineStart⟩, ?_, rfl⟩
    simp [SimpleStmt.toks, parseStatement, current_run, map_run, parseListen, bind_run, consume_cons, isKind,
      mac_stop_kind hto, hloc, pure_run]
  | some t =>
    simp only [SimpleStmt.toks, List.length_cons] at hn
    have ht := fun last => target_run t (c.sub 2) n rest src last eof false hw (by omega) hs
    refine ⟨.input (some (t.lhsR (c.sub 2))) default, ?_, ?_⟩
    · simp [SimpleStmt.toks, parseStatement, current_run, map_run, parseListen, bind_run, consume_cons, isKind,
        mac_cons, ht, pure_run]
    · simp [eraseS, SimpleStmt.toStmt, target_shape]

omit [CharOps] in
theorem dir_kind (d : RoundDir) (c : Choices N) :
    isAnyKind [TK.up, .down, .round] (tk (.kw (dirKind d)) c : Tok N) = true ∧
      getRoundingDirection (dirKind d) = some d := by
  cases d <;> exact ⟨rfl, rfl⟩

theorem turn_run (d : RoundDir) (e : Expression N) (c : Choices N) (n : Nat) (rest : List (Tok N))
    (src last eof) (hw : (SimpleStmt.turn d e).wf = true) (hn : ((SimpleStmt.turn d e).toks c).length ≤ n)
    (hs : (SimpleStmt.turn d e).Stop rest) : SRuns (.turn d e) c n rest src last eof := by
  obtain ⟨hk1, hk2⟩ := dir_kind d (c.sub 1)
  refine ⟨.rounding d (logicalLay.ast e (c.sub 2)), ?_, by simp [eraseS, SimpleStmt.toStmt, expr_shape]⟩
  simp only [SimpleStmt.toks] at hn ⊢
  split at hn
  · rw [if_pos ‹_›]
    simp only [List.length_cons] at hn
    have he := fun last => expression_run e (c.sub 2) n rest src last eof false hw (by omega) hs.1
    simp [parseStatement, current_run, map_run, parseRounding, bind_run, consume_cons, isKind,
      parseRoundingDirection, mac_cons, hk1, hk2, he, pure_run]
  · rw [if_neg ‹_›]
    simp only [List.length_cons, List.length_append, List.length_nil] at hn
    have he := fun last => expression_run e (c.sub 2) n (tk (.kw (dirKind d)) (c.sub 1) :: rest) src last
      eof false hw (by omega)
      (stop_kw e (dirKind d) (by rw [continuers_eq]; cases d <;> decide) _ _)
    have hnd : nextIn [.up, .down, .round]
        (unparse e (c.sub 2) ++ (tk (.kw (dirKind d)) (c.sub 1) :: rest)) = false := by
      obtain ⟨t0, ts0, h1, h2, _⟩ := expr_heads e (c.sub 2)
      exact nextIn_of_head (starts := exprStarts) ⟨t0, ts0, h1, h2⟩ (by decide)
    simp only [List.cons_append, List.append_assoc, List.nil_append]
    simp [parseStatement, current_run, map_run, parseRounding, bind_run, consume_cons, isKind,
      parseRoundingDirection, mac_stop_any hnd, mac_cons, hk1, hk2, he, pure_run]

theorem rock_run (p : Primary N) (vals : Option (OpList (Expression N))) (c : Choices N) (n : Nat)
    (rest : List (Tok N)) (src last eof) (hw : (SimpleStmt.rock p vals).wf = true)
    (hn : ((SimpleStmt.rock p vals).toks c).length ≤ n) (hs : (SimpleStmt.rock p vals).Stop rest) :
    SRuns (.rock p vals) c n rest src last eof := by
  cases vals with
  | none =>
    simp only [SimpleStmt.toks, List.length_cons] at hn
    have hp := fun last => primary_run p (c.sub 1) n rest src last eof false hw (by omega) hs.1
    refine ⟨.push (p.ast (c.sub 1)) none, ?_, by simp [eraseS, SimpleStmt.toStmt, primary_shape]⟩
    simp [SimpleStmt.toks, parseStatement, current_run, map_run, parseArrayPush, bind_run, consume_cons,
      isKind, hp, parseArrayPushRhs, mac_stop_any hs.2, pure_run]
  | some l =>
    simp only [SimpleStmt.toks, List.length_cons, List.length_append] at hn
    simp only [SimpleStmt.wf, Bool.and_eq_true] at hw
    have hp := fun last => primary_run p (c.sub 1) n
      (tk (.kw .with_) (c.sub 2) :: (OpList.toks logicalSyn l (c.sub 3) ++ rest)) src last eof false hw.1
      (by omega) (edgeStop_kw _ .with_ (by decide) _ _)
    have hl := fun last => toplist_run l (c.sub 3) n rest src last eof hw.2 (by omega) hs
    refine ⟨.push (p.ast (c.sub 1)) (some (.list (listR l (c.sub 3)))), ?_,
      by simp [eraseS, SimpleStmt.toStmt, primary_shape, list_shape]⟩
    simp [SimpleStmt.toks, parseStatement, current_run, map_run, parseArrayPush, bind_run, consume_cons,
      isKind, hp, parseArrayPushRhs, mac_cons, isAnyKind, hl, pure_run]

theorem roll_run (p : Primary N) (into : Option (Target N)) (c : Choices N) (n : Nat)
    (rest : List (Tok N)) (src last eof) (hw : (SimpleStmt.roll p into).wf = true)
    (hn : ((SimpleStmt.roll p into).toks c).length ≤ n) (hs : (SimpleStmt.roll p into).Stop rest) :
    SRuns (.roll p into) c n rest src last eof := by
  cases into with
  | none =>
    simp only [SimpleStmt.toks, List.length_cons] at hn
    have hp := fun last => primary_run p (c.sub 1) n rest src last eof false hw (by omega) hs.1
    refine ⟨.pop (p.ast (c.sub 1)) none, ?_, by simp [eraseS, SimpleStmt.toStmt, primary_shape]⟩
    simp [SimpleStmt.toks, parseStatement, current_run, map_run, parseArrayPop, bind_run, consume_cons,
      isKind, hp, mac_stop_kind hs.2, pure_run]
  | some t =>
    simp only [SimpleStmt.toks, List.length_cons, List.length_append] at hn
    simp only [SimpleStmt.wf, Bool.and_eq_true] at hw
    have hp := fun last => primary_run p (c.sub 1) n
      (tk (.kw .into) (c.sub 2) :: (t.toks (c.sub 3) ++ rest)) src last eof false hw.1
      (by omega) (edgeStop_kw _ .into (by decide) _ _)
    have ht := fun last => target_run t (c.sub 3) n rest src last eof false hw.2 (by omega) hs
    refine ⟨.pop (p.ast (c.sub 1)) (some (t.lhsR (c.sub 3))), ?_,
      by simp [eraseS, SimpleStmt.toStmt, primary_shape, target_shape]⟩
    simp [SimpleStmt.toks, parseStatement, current_run, map_run, parseArrayPop, bind_run, consume_cons,
      isKind, hp, mac_cons, ht, pure_run]

omit [CharOps] in
@[simp] theorem tk_anyKind_spelling (sp : Str) (c : Choices N) : (tk (.anyKind sp) c).spelling = sp := rfl

theorem ret_run (kw : Str) (e : Expression N) (c : Choices N) (n : Nat) (rest : List (Tok N))
    (src last eof) (hw : (SimpleStmt.ret kw e).wf = true) (hn : ((SimpleStmt.ret kw e).toks c).length ≤ n)
    (hs : (SimpleStmt.ret kw e).Stop rest) : SRuns (.ret kw e) c n rest src last eof := by
  refine ⟨.ret (logicalLay.ast e (c.sub 2)), ?_, by simp [eraseS, SimpleStmt.toStmt, expr_shape]⟩
  have hw' : e.wf = true := hw
  have hnb : ∀ r, nextIn [.back] (unparse e (c.sub 2) ++ r) = false := fun r => by
    obtain ⟨t0, ts0, h1, h2, _⟩ := expr_heads e (c.sub 2)
    exact nextIn_of_head (starts := exprStarts) ⟨t0, ts0, h1, h2⟩ (by decide)
  simp only [SimpleStmt.toks, optTok] at hn ⊢
  by_cases hb2 : (c.sub 3).choice % 2 = 1
  · -- a trailing `back`
    simp only [hb2, decide_true, if_true] at hn ⊢
    have he := fun last n' (hn' : (unparse e (c.sub 2)).length ≤ n') =>
      expression_run e (c.sub 2) n' (tk (.kw .back) (c.sub 3) :: rest) src last eof false hw' hn'
        (stop_kw e .back (by rw [continuers_eq]; decide) _ _)
    by_cases hgp : CharOps.lower kw = str% "give"
    · have hg : (CharOps.lower kw == str% "give") = true := by simpa using hgp
      by_cases hb1 : (c.sub 1).choice % 2 = 1
      · simp only [hg, hb1, decide_true, Bool.and_self, if_true, List.length_cons, List.length_append,
          List.length_nil] at hn
        simp [hgp, hb1, parseStatement, current_run, map_run, parseReturn, bind_run, consume_cons, isKind,
          isIspelled, mac_cons, he _ n (by omega), pure_run]
      · simp only [hg, hb1, decide_false, Bool.and_false, Bool.false_eq_true, if_false, List.length_cons,
          List.length_append, List.length_nil, List.nil_append] at hn
        simp [hgp, hb1, parseStatement, current_run, map_run, parseReturn, bind_run, consume_cons, isKind,
          isIspelled, mac_stop_kind (hnb _), mac_cons, he _ n (by omega), pure_run]
    · have hg' : (CharOps.lower kw == str% "give") = false := by simpa using hgp
      simp only [hg', Bool.false_and, Bool.false_eq_true, if_false, List.length_cons,
        List.length_append, List.length_nil, List.nil_append] at hn
      simp [hgp, parseStatement, current_run, map_run, parseReturn, bind_run, consume_cons, isKind,
        isIspelled, mac_cons, he _ n (by omega), pure_run]
  · simp only [hb2, decide_false, Bool.false_eq_true, if_false, List.append_nil] at hn ⊢
    have he := fun last n' (hn' : (unparse e (c.sub 2)).length ≤ n') =>
      expression_run e (c.sub 2) n' rest src last eof false hw' hn' hs.1
    by_cases hgp : CharOps.lower kw = str% "give"
    · have hg : (CharOps.lower kw == str% "give") = true := by simpa using hgp
      by_cases hb1 : (c.sub 1).choice % 2 = 1
      · simp only [hg, hb1, decide_true, Bool.and_self, if_true, List.length_cons, List.length_append,
          List.length_nil] at hn
        simp [hgp, hb1, parseStatement, current_run, map_run, parseReturn, bind_run, consume_cons, isKind,
          isIspelled, mac_cons, he _ n (by omega), mac_stop_kind hs.2, pure_run]
      · simp only [hg, hb1, decide_false, Bool.and_false, Bool.false_eq_true, if_false, List.length_cons,
          List.length_append, List.length_nil, List.nil_append] at hn
        simp [hgp, hb1, parseStatement, current_run, map_run, parseReturn, bind_run, consume_cons, isKind,
          isIspelled, mac_stop_kind (hnb _), he _ n (by omega), mac_stop_kind hs.2, pure_run]
    · have hg' : (CharOps.lower kw == str% "give") = false := by simpa using hgp
      simp only [hg', Bool.false_and, Bool.false_eq_true, if_false, List.length_cons,
        List.length_append, List.length_nil, List.nil_append] at hn
      simp [hgp, parseStatement, current_run, map_run, parseReturn, bind_run, consume_cons, isKind,
        isIspelled, he _ n (by omega), mac_stop_kind hs.2, pure_run]

theorem break_run (it : Option Str) (c : Choices N) (n : Nat) (rest : List (Tok N))
    (src last eof) (hw : (SimpleStmt.break_ it : SimpleStmt N).wf = true)
    (hs : (SimpleStmt.break_ it : SimpleStmt N).Stop rest) : SRuns (.break_ it) c n rest src last eof := by
  cases it with
  | none =>
    refine ⟨.break_ (c.sub 0).here.range, ?_, rfl⟩
    have hmac : matchAndConsume (isIspelled (str% "it")) ⟨src, rest, (c.sub 0).here.after, eof, false⟩
        = .ok (none, ⟨src, rest, (c.sub 0).here.after, eof, false⟩) := by
      cases rest with
      | nil => rfl
      | cons t ts =>
        have := hs t rfl
        simp [mac_cons, isIspelled, this]
    simp [SimpleStmt.toks, parseStatement, current_run, map_run, parseBreak, bind_run, consume_cons, isKind,
      hmac, pure_run]
  | some it =>
    have hit : CharOps.lower it = str% "it" := by simpa [SimpleStmt.wf] using hw
    refine ⟨.break_ ((c.sub 0).here.range.concat (c.sub 2).here.range), ?_, rfl⟩
    simp [SimpleStmt.toks, parseStatement, current_run, map_run, parseBreak, bind_run, consume_cons, isKind,
      mac_cons, isIspelled, hit, expectToken, pure_run]

theorem continue_run (itThe : Option (Str × Str)) (c : Choices N) (n : Nat) (rest : List (Tok N))
    (src last eof) (hw : (SimpleStmt.continue_ itThe : SimpleStmt N).wf = true) :
    SRuns (.continue_ itThe) c n rest src last eof := by
  cases itThe with
  | none =>
    refine ⟨.continue_ (c.sub 0).here.range, ?_, rfl⟩
    simp [SimpleStmt.toks, parseStatement, current_run, map_run, parseSimpleContinue, bind_run, consume_cons,
      isKind, pure_run]
  | some p =>
    obtain ⟨it, the⟩ := p
    simp only [SimpleStmt.wf, Bool.and_eq_true, beq_iff_eq] at hw
    refine ⟨.continue_ ((c.sub 0).here.range.concat (c.sub 4).here.range), ?_, rfl⟩
    simp [SimpleStmt.toks, parseStatement, current_run, map_run, parseTakeItToTheTop, bind_run, consume_cons,
      isKind, expectTokenIspelled, mac_cons, isIspelled, hw.1, hw.2, expectToken, pure_run]

omit [CharOps] in
theorem mut_kind (op : MutOp) (c : Choices N) :
    isAnyKind [TK.cut, .join, .cast] (tk (.kw (mutKind op)) c : Tok N) = true ∧
      getMutationOperator (mutKind op) = some op := by
  cases op <;> exact ⟨rfl, rfl⟩

omit [CharOps] in
theorem isIdent_ast (p : Primary N) (c : Choices N) (h : p.isIdent = true) :
    ∃ i r, p.ast c = .ident i r := by
  obtain ⟨h0, subs⟩ := p
  cases subs with
  | nil =>
    cases h0 with
    | pronoun => exact ⟨_, _, rfl⟩
    | var v => exact ⟨_, _, rfl⟩
    | lit l => simp [Primary.isIdent] at h
    | call f a as => simp [Primary.isIdent] at h
    | pop q => simp [Primary.isIdent] at h
  | cons s ss => cases h0 <;> simp [Primary.isIdent] at h

theorem mutation_dispatch (op : MutOp) (c0 : Choices N) (ts : List (Tok N)) (rec : Rec N) (src last eof b) :
    parseStatement rec ⟨src, tk (.kw (mutKind op)) c0 :: ts, last, eof, b⟩
      = (some <$> parseMutation rec) ⟨src, tk (.kw (mutKind op)) c0 :: ts, last, eof, b⟩ := by
  cases op <;> simp [parseStatement, current_run, bind_run, mutKind]

theorem mutation_run (op : MutOp) (p : Primary N) (into : Option (Target N))
    (param : Option (Expression N)) (c : Choices N) (n : Nat) (rest : List (Tok N)) (src last eof)
    (hw : (SimpleStmt.mutation op p into param).wf = true)
    (hn : ((SimpleStmt.mutation op p into param).toks c).length ≤ n)
    (hs : (SimpleStmt.mutation op p into param).Stop rest) :
    SRuns (.mutation op p into param) c n rest src last eof := by
  obtain ⟨hk1, hk2⟩ := mut_kind op (c.sub 0)
  cases into with
  | none =>
    simp only [SimpleStmt.wf, Option.isSome_none, Bool.false_or, Bool.and_eq_true, Bool.and_true] at hw
    obtain ⟨i, r, hir⟩ := isIdent_ast p (c.sub 1) hw.1.2
    cases param with
    | none =>
      simp only [SimpleStmt.toks, List.length_cons, List.length_append, List.append_nil, List.length_nil] at hn
      have hp := fun last => primary_run p (c.sub 1) n rest src last eof false hw.1.1 (by omega) hs.1
      refine ⟨.mutation op (p.ast (c.sub 1)) none none, ?_, by simp [eraseS, SimpleStmt.toStmt, primary_shape]⟩
      simp only [SimpleStmt.toks, List.cons_append]
      rw [mutation_dispatch]
      simp [map_run, parseMutation, bind_run, consume_cons, hk1,
        hk2, ofOption_some, hp, mac_stop_kind (nextIn_sub hs.2 (ks' := [.into]) (by decide)),
        mac_stop_kind (nextIn_sub hs.2 (ks' := [.with_]) (by decide)), checkMutationArgs, hir, pure_run]
    | some e =>
      simp only [SimpleStmt.toks, List.length_cons, List.length_append, List.nil_append] at hn
      have hp := fun last => primary_run p (c.sub 1) n (tk (.kw .with_) (c.sub 4) :: (unparse e (c.sub 5) ++ rest))
        src last eof false hw.1.1 (by omega) (edgeStop_kw _ .with_ (by decide) _ _)
      have he := fun last => expression_run e (c.sub 5) n rest src last eof false hw.2 (by omega) hs
      refine ⟨.mutation op (p.ast (c.sub 1)) none (some (logicalLay.ast e (c.sub 5))), ?_,
        by simp [eraseS, SimpleStmt.toStmt, primary_shape, expr_shape]⟩
      simp only [SimpleStmt.toks, List.cons_append]
      rw [mutation_dispatch]
      simp [map_run, parseMutation, bind_run, consume_cons, hk1,
        hk2, ofOption_some, hp, mac_cons, isKind, checkMutationArgs, hir, he, pure_run]
  | some t =>
    simp only [SimpleStmt.wf, Option.isSome_some, Bool.true_or, Bool.and_eq_true, Bool.and_true] at hw
    cases param with
    | none =>
      simp only [SimpleStmt.toks, List.length_cons, List.length_append, List.append_nil] at hn
      have hp := fun last => primary_run p (c.sub 1) n (tk (.kw .into) (c.sub 2) :: (t.toks (c.sub 3) ++ rest))
        src last eof false hw.1.1 (by omega) (edgeStop_kw _ .into (by decide) _ _)
      have ht := fun last => target_run t (c.sub 3) n rest src last eof false hw.1.2 (by omega) hs.1
      refine ⟨.mutation op (p.ast (c.sub 1)) (some (t.lhsR (c.sub 3))) none, ?_,
        by simp [eraseS, SimpleStmt.toStmt, primary_shape, target_shape]⟩
      simp only [SimpleStmt.toks, List.cons_append]
      rw [mutation_dispatch]
      simp [map_run, parseMutation, bind_run, consume_cons, hk1,
        hk2, ofOption_some, hp, mac_cons, isKind, ht, checkMutationArgs, mac_stop_kind hs.2, pure_run]
    | some e =>
      simp only [SimpleStmt.toks, List.length_cons, List.length_append] at hn
      have hp := fun last => primary_run p (c.sub 1) n
        (tk (.kw .into) (c.sub 2) :: (t.toks (c.sub 3) ++ (tk (.kw .with_) (c.sub 4) :: (unparse e (c.sub 5) ++ rest))))
        src last eof false hw.1.1 (by omega) (edgeStop_kw _ .into (by decide) _ _)
      have ht := fun last => target_run t (c.sub 3) n (tk (.kw .with_) (c.sub 4) :: (unparse e (c.sub 5) ++ rest))
        src last eof false hw.1.2 (by omega) (edgeStop_kw _ .with_ (by decide) _ _)
      have he := fun last => expression_run e (c.sub 5) n rest src last eof false hw.2 (by omega) hs
      refine ⟨.mutation op (p.ast (c.sub 1)) (some (t.lhsR (c.sub 3))) (some (logicalLay.ast e (c.sub 5))), ?_,
        by simp [eraseS, SimpleStmt.toStmt, primary_shape, target_shape, expr_shape]⟩
      simp only [SimpleStmt.toks, List.cons_append]
      rw [mutation_dispatch]
      simp [map_run, parseMutation, bind_run, consume_cons, hk1,
        hk2, ofOption_some, hp, mac_cons, isKind, ht, checkMutationArgs, he, pure_run]

omit [CharOps] in
theorem var_head_kind (v : VarSpec) (c : Choices N) :
    ∃ t ts, v.toks c = t :: ts ∧ (t.kind = .word ∨ t.kind = .commonPrefix) := by
  cases v with
  | simple s => exact ⟨_, _, rfl, Or.inl rfl⟩
  | common pre w k => exact ⟨_, _, rfl, Or.inr rfl⟩
  | proper w1 w2 ws => exact ⟨_, _, rfl, Or.inl rfl⟩

theorem call_run (f : VarSpec) (a : Unary N) (as : List (Unary N)) (c : Choices N) (n : Nat)
    (rest : List (Tok N)) (src last eof) (hw : (SimpleStmt.call f a as).wf = true)
    (hn : ((SimpleStmt.call f a as).toks c).length ≤ n) (hs : (SimpleStmt.call f a as).Stop rest) :
    SRuns (.call f a as) c n rest src last eof := by
  simp only [SimpleStmt.wf, Bool.and_eq_true] at hw
  obtain ⟨⟨⟨hwf, hwa⟩, hwas⟩, hch⟩ := hw
  simp only [SimpleStmt.toks, List.length_cons, List.length_append] at hn
  have hfp := var_toks_pos f (c.sub 0)
  cases n with
  | zero => omega
  | succ n =>
    have hx := ident_run (.var f) c (n + 1)
      (tk (.kw .taking) (c.sub 1) :: (a.toks (c.sub 2) ++ (argsToks as (c.sub 3) ++ rest))) src last eof
      false hwf (by simpa [IdSpec.toks] using (by omega : (f.toks (c.sub 0)).length ≤ n + 1))
      (by simp [nextIn_cons])
    have hfc := fun last => funcall_run a as (c.sub 1) (c.sub 2) (c.sub 3) n rest src last eof false hwa
      hwas hch (by omega) hs.1 hs.2
    refine ⟨.call f.toName (f.range (c.sub 0)) (a.ast (c.sub 2) :: argsAst as (c.sub 3)), ?_, ?_⟩
    · obtain ⟨t0, ts0, h1, h2⟩ := var_head_kind f (c.sub 0)
      simp only [IdSpec.toks, IdSpec.toIdent, IdSpec.range] at hx
      change expectIdentifier (parser (n + 1)) ⟨src, f.toks (c.sub 0) ++ _, last, eof, false⟩ = _ at hx
      simp only [SimpleStmt.toks, List.append_assoc, List.cons_append]
      have hdisp : parseStatement (parser (n + 1)) ⟨src, f.toks (c.sub 0) ++ (tk (.kw .taking) (c.sub 1) ::
          (a.toks (c.sub 2) ++ (argsToks as (c.sub 3) ++ rest))), last, eof, false⟩
          = (some <$> parseStatementStartingWithWord (parser (n + 1))) ⟨src, f.toks (c.sub 0) ++
            (tk (.kw .taking) (c.sub 1) :: (a.toks (c.sub 2) ++ (argsToks as (c.sub 3) ++ rest))), last, eof, false⟩ := by
        rw [h1]
        rcases h2 with h2 | h2 <;>
          simp [parseStatement, current_run, bind_run, h2]
      rw [hdisp]
      simp [map_run, parseStatementStartingWithWord, bind_run, hx, current_run, asVariableName, hfc, pure_run]
    · simp only [eraseS, SimpleStmt.toStmt, eraseL, unary_shape a (c.sub 2), args_shape as (c.sub 3)]

end Grammar
