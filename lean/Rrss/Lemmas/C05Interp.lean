/-
  Rrss.Lemmas.C05Interp — scope discipline of the interpreter (C05).

  A Hoare-style logic (claims about `ok` answers only) for the interpreter monad (`Pres`: "if the computation answers `ok`
  then the scope stack made a `Step` and the result satisfies `p`"), the invariant `RecSc` on a
  whole interpreter record, its preservation by every interpreter function, and the induction on
  fuel. Then the inversion lemmas for `if`, loop rounds and calls.
-/
import Rrss.Interp
import Rrss.Lemmas.Scopes
import Rrss.Lemmas.C09Interp
set_option linter.unusedSectionVars false
set_option linter.unusedVariables false
namespace Rrss
namespace C05
variable [CharOps] {N : Type} [NumOps N] {α β : Type}
open Env Interp Spec
open C09 (StPre)

/-! ### `ok` runs of the monad -/

theorem bind_ok {m : M N α} {f : α → M N β} {env env'' : Env N} {b : β} :
    (m >>= f) env = (.ok b, env'') ↔
      ∃ a env', m env = (.ok a, env') ∧ f a env' = (.ok b, env'') := by
  show M.bind m f env = _ ↔ _
  unfold M.bind
  rcases hm : m env with ⟨(a | e | s | _ | _), env'⟩ <;> simp only [Prod.mk.injEq, reduceCtorEq,
    false_and, exists_false, Outcome.ok.injEq]
  constructor
  · intro h; exact ⟨a, env', ⟨rfl, rfl⟩, h⟩
  · rintro ⟨_, _, ⟨rfl, rfl⟩, h⟩; exact h

theorem pure_ok {a b : α} {env env' : Env N} :
    (pure a : M N α) env = (.ok b, env') ↔ a = b ∧ env = env' := by
  show ((Outcome.ok a, env) : Outcome (RtErr N) α × Env N) = _ ↔ _
  simp

theorem fail_ok {e : RtErr N} {b : α} {env env' : Env N} :
    (M.fail e : M N α) env = (.ok b, env') ↔ False := by simp [M.fail]

theorem get_ok {b : Env N} {env env' : Env N} :
    (M.get : M N (Env N)) env = (.ok b, env') ↔ b = env ∧ env' = env := by
  simp [M.get]; constructor <;> rintro ⟨rfl, rfl⟩ <;> exact ⟨rfl, rfl⟩

theorem liftE_ok {r : Except (RtErr N) α} {b : α} {env env' : Env N} :
    M.liftE r env = (.ok b, env') ↔ r = .ok b ∧ env' = env := by
  cases r <;> simp [M.liftE, eq_comm]

theorem liftV_ok {r : VRes N α} {b : α} {env env' : Env N} :
    M.liftV r env = (.ok b, env') ↔ r = .ok b ∧ env' = env := by
  cases r <;> simp [M.liftV, eq_comm]

theorem assert_ok {s : Site} {c : Bool} {u : Unit} {env env' : Env N} :
    (M.assert s c : M N Unit) env = (.ok u, env') ↔ c = true ∧ env' = env := by
  cases c <;> simp [M.assert, M.crash, M.pure, eq_comm]

theorem tick_ok {u : Unit} {env env' : Env N} :
    tick env = (.ok u, env') ↔ ∃ n, env.steps = n + 1 ∧ env' = { env with steps := n } := by
  unfold tick
  split <;> rename_i h <;> simp [h, eq_comm]

theorem pushScope_ok {u : Unit} {env env' : Env N} :
    pushScope env = (.ok u, env') ↔ env' = { env with scopes := [] :: env.scopes } := by
  simp [pushScope, M.modify, eq_comm]

theorem pushFunctionScope_ok {args : List (VarName × Val N)} {u : Unit} {env env' : Env N} :
    pushFunctionScope args env = (.ok u, env') ↔
      ∃ sc, functionScope args [] = .ok sc ∧ env' = { env with scopes := sc :: env.scopes } := by
  unfold pushFunctionScope
  split <;> rename_i h <;> simp [h, eq_comm]

theorem popScope_ok {u : Unit} {env env' : Env N} :
    popScope env = (.ok u, env') ↔
      ∃ s s2 rest, env.scopes = s :: s2 :: rest
        ∧ env' = { env with scopes := s2 :: rest, last := none } := by
  unfold popScope
  split <;> rename_i h
  · simp only [Prod.mk.injEq, true_and, h, List.cons.injEq]
    constructor
    · rintro rfl; exact ⟨_, _, _, ⟨rfl, rfl, rfl⟩, rfl⟩
    · rintro ⟨s, s2, rest, ⟨rfl, rfl, rfl⟩, rfl⟩; rfl
  · simp only [Prod.mk.injEq, reduceCtorEq, false_and, false_iff, not_exists, not_and]
    intro s s2 rest hs
    exact absurd hs (h s s2 rest)

/-! ### the logic -/

/-- if `m` answers `ok a`, the scope stack made a `Step` and `p a` holds -/
def Pres (p : α → Prop) (m : M N α) : Prop :=
  ∀ env a env', m env = (.ok a, env') → Step env.scopes env'.scopes ∧ p a

theorem Pres.bind {p : α → Prop} {m : M N α} {q : β → Prop} {f : α → M N β}
    (h1 : Pres p m) (h2 : ∀ a, p a → Pres q (f a)) : Pres q (m >>= f) := by
  intro env b env'' h
  obtain ⟨a, env', hm, hf⟩ := bind_ok.mp h
  obtain ⟨s1, hp⟩ := h1 env a env' hm
  obtain ⟨s2, hq⟩ := h2 a hp env' b env'' hf
  exact ⟨s1.trans s2, hq⟩

theorem Pres.pure {q : α → Prop} (a : α) (h : q a) : Pres q (pure a : M N α) := by
  intro env b env' hb
  obtain ⟨rfl, rfl⟩ := pure_ok.mp hb
  exact ⟨.refl _, h⟩

theorem Pres.mono {p q : α → Prop} {m : M N α} (h : Pres p m) (hpq : ∀ a, p a → q a) :
    Pres q m := fun env a env' hm => ⟨(h env a env' hm).1, hpq a (h env a env' hm).2⟩

theorem Pres.triv {p : α → Prop} {m : M N α} (h : Pres p m) : Pres (fun _ => True) m :=
  h.mono (fun _ _ => trivial)

/-- computations that do not touch the scope stack -/
theorem Pres.of_scopes_eq {p : α → Prop} {m : M N α}
    (h : ∀ env a env', m env = (.ok a, env') → env'.scopes = env.scopes ∧ p a) : Pres p m := by
  intro env a env' hm
  obtain ⟨hs, hp⟩ := h env a env' hm
  rw [hs]; exact ⟨.refl _, hp⟩

/-- computations that never answer `ok` -/
theorem Pres.of_not_ok {p : α → Prop} {m : M N α} (h : ∀ env a env', m env ≠ (.ok a, env')) :
    Pres p m := fun env a env' hm => absurd hm (h env a env')

/-! ### primitives -/

theorem pres_fail {q : α → Prop} (e : RtErr N) : Pres q (M.fail e : M N α) :=
  .of_not_ok (fun _ _ _ h => fail_ok.mp h)
theorem pres_crash {q : α → Prop} (s : Site) : Pres q (M.crash s : M N α) :=
  .of_not_ok (fun _ _ _ h => by simp [M.crash] at h)
theorem pres_outOfFuel {q : α → Prop} : Pres q (M.outOfFuel : M N α) :=
  .of_not_ok (fun _ _ _ h => by simp [M.outOfFuel] at h)
theorem pres_outOfResource {q : α → Prop} : Pres q (M.outOfResource : M N α) :=
  .of_not_ok (fun _ _ _ h => by simp [M.outOfResource] at h)
theorem pres_get : Pres (fun _ => True) (M.get : M N (Env N)) :=
  .of_scopes_eq (fun _ _ _ h => by obtain ⟨_, rfl⟩ := get_ok.mp h; exact ⟨rfl, trivial⟩)
theorem pres_liftV (r : VRes N α) : Pres (fun _ => True) (M.liftV r : M N α) :=
  .of_scopes_eq (fun _ _ _ h => by obtain ⟨_, rfl⟩ := liftV_ok.mp h; exact ⟨rfl, trivial⟩)
theorem pres_liftE (r : Except (RtErr N) α) : Pres (fun _ => True) (M.liftE r : M N α) :=
  .of_scopes_eq (fun _ _ _ h => by obtain ⟨_, rfl⟩ := liftE_ok.mp h; exact ⟨rfl, trivial⟩)
theorem pres_assert (s : Site) (b : Bool) : Pres (fun _ => b = true) (M.assert s b : M N Unit) :=
  .of_scopes_eq (fun _ _ _ h => by obtain ⟨hb, rfl⟩ := assert_ok.mp h; exact ⟨rfl, hb⟩)
theorem pres_tick : Pres (fun _ => True) (tick : M N Unit) :=
  .of_scopes_eq (fun _ _ _ h => by obtain ⟨n, _, rfl⟩ := tick_ok.mp h; exact ⟨rfl, trivial⟩)

theorem lookupVar_eq (n : VarName) (env : Env N) :
    lookupVar n env =
      (match lookupVarIn n env.scopes with
       | .ok v => .ok v
       | .error e => .err e, { env with last := some n }) := by
  unfold lookupVar; dsimp only; split <;> simp_all

theorem pres_lookupVar (n : VarName) : Pres (fun _ => True) (lookupVar n : M N (Val N)) :=
  .of_scopes_eq (fun env a env' h => by
    rw [lookupVar_eq] at h
    simp only [Prod.mk.injEq] at h
    rw [← h.2]; exact ⟨rfl, trivial⟩)

theorem lastAccess_snd (env : Env N) : (lastAccess env).2 = env := by
  unfold lastAccess; split
  · rfl
  · split <;> rfl

theorem pres_lastAccess : Pres (fun _ => True) (lastAccess : M N (Val N)) :=
  .of_scopes_eq (fun env a env' h => by
    have := lastAccess_snd env
    rw [h] at this; dsimp only at this; rw [this]; exact ⟨rfl, trivial⟩)

theorem createFunc_ok {n : VarName} {ps : List VarName} {b : Block N} {u : Unit} {env env' : Env N} :
    createFunc n ps b env = (.ok u, env') ↔
      ∃ s rest, env.scopes = s :: rest ∧ slookup n.key s = none
        ∧ env' = { env with scopes := sset n.key (.func ps b) s :: rest } := by
  unfold createFunc
  split <;> rename_i h
  · simp [h]
  · split <;> rename_i h2
    · simp only [Prod.mk.injEq, reduceCtorEq, false_and, h, List.cons.injEq, false_iff, not_exists,
        not_and]
      rintro s rest ⟨rfl, rfl⟩ hn; simp [hn] at h2
    · simp only [Prod.mk.injEq, true_and, h, List.cons.injEq]
      constructor
      · rintro rfl; exact ⟨_, _, ⟨rfl, rfl⟩, h2, rfl⟩
      · rintro ⟨s, rest, ⟨rfl, rfl⟩, _, rfl⟩; rfl

theorem pres_createFunc (n : VarName) (ps : List VarName) (b : Block N) :
    Pres (fun _ => True) (createFunc n ps b) := by
  intro env a env' h
  obtain ⟨s, rest, hs, hn, rfl⟩ := createFunc_ok.mp h
  rw [hs]; exact ⟨.create _ _ _ _ hn, trivial⟩

theorem pres_output (t : Str) : Pres (fun _ => True) (output t : M N Unit) :=
  .of_scopes_eq (fun env a env' h => by
    unfold output at h; dsimp only at h
    split at h
    · simp only [Prod.mk.injEq] at h; rw [← h.2]; exact ⟨rfl, trivial⟩
    · split at h <;> simp only [Prod.mk.injEq, reduceCtorEq, false_and] at h
      rw [← h.2]; exact ⟨rfl, trivial⟩)

theorem pres_inputLine : Pres (fun _ => True) (inputLine : M N Str) :=
  .of_scopes_eq (fun env a env' h => by
    unfold inputLine at h
    split at h
    · simp only [Prod.mk.injEq] at h; rw [← h.2]; exact ⟨rfl, trivial⟩
    · split at h <;> simp only [Prod.mk.injEq, reduceCtorEq, false_and] at h
      rw [← h.2]; exact ⟨rfl, trivial⟩)

/-- push; body; pop; continuation — the pushed scope is the one popped -/
theorem pres_scoped {push : M N Unit} {p : α → Prop} {body : M N α} {q : β → Prop}
    {cont : α → M N β}
    (hpush : ∀ env u env1, push env = (.ok u, env1) → ∃ sc, env1.scopes = sc :: env.scopes)
    (hbody : Pres p body) (hcont : ∀ a, p a → Pres q (cont a)) :
    Pres q (push >>= fun _ => body >>= fun a => popScope >>= fun _ => cont a) := by
  intro env b env' h
  obtain ⟨u, env1, h1, h⟩ := bind_ok.mp h
  obtain ⟨a, env2, h2, h⟩ := bind_ok.mp h
  obtain ⟨u', env3, h3, h4⟩ := bind_ok.mp h
  obtain ⟨sc, hsc⟩ := hpush env u env1 h1
  obtain ⟨hstep, hp⟩ := hbody env1 a env2 h2
  obtain ⟨sc', σ', he2, hst⟩ := hstep.tail sc env.scopes hsc
  obtain ⟨s, s2, rest, hs, rfl⟩ := popScope_ok.mp h3
  obtain ⟨hstep4, hq⟩ := hcont a hp _ b env' h4
  rw [he2] at hs
  simp only [List.cons.injEq] at hs
  refine ⟨hst.trans ?_, hq⟩
  rw [hs.2]; exact hstep4

theorem pushScope_push (env : Env N) (u : Unit) (env1 : Env N)
    (h : (pushScope : M N Unit) env = (.ok u, env1)) : ∃ sc, env1.scopes = sc :: env.scopes := by
  rw [pushScope_ok.mp h]; exact ⟨[], rfl⟩

theorem pushFunctionScope_push (args : List (VarName × Val N)) (env : Env N) (u : Unit)
    (env1 : Env N) (h : pushFunctionScope args env = (.ok u, env1)) :
    ∃ sc, env1.scopes = sc :: env.scopes := by
  obtain ⟨sc, _, rfl⟩ := pushFunctionScope_ok.mp h; exact ⟨sc, rfl⟩

/-! ### `resolve` / `writeCell` -/

/-- `lookup_or_create!` / `last_access_mut`: whatever the outcome, the scope stack made a `Step`
    (nothing, or one creation in the innermost scope), and on success the name resolved is a
    visible variable holding the value returned -/
theorem resolve_spec (t : Target) (env : Env N) :
    Step env.scopes (resolve t env).2.scopes ∧
      ∀ name cur, (resolve t env).1 = .ok (name, cur) →
        lookupVarIn name (resolve t env).2.scopes = .ok cur := by
  unfold resolve
  split
  · dsimp only
    split
    · rename_i name v hl
      exact ⟨.refl _, by rintro _ _ ⟨rfl, rfl⟩; exact hl⟩
    · split
      · rename_i h; exact ⟨.refl _, by simp⟩
      · rename_i s rest h
        split
        · exact ⟨.refl _, by simp⟩
        · rename_i hn
          dsimp only at h ⊢
          rw [h]
          refine ⟨.create _ _ _ _ hn, ?_⟩
          rintro _ _ ⟨rfl, rfl⟩
          simp [lookupVarIn, slookup_sset_self]
  · split
    · exact ⟨.refl _, by simp⟩
    · split
      · rename_i name hlast v hl
        exact ⟨.refl _, by rintro _ _ ⟨rfl, rfl⟩; exact hl⟩
      · exact ⟨.refl _, by simp⟩

/-- the scope stack after `writeCell`, whatever its result -/
theorem writeCell_step (w : Writer N) (t : Target) (keys : List (Val N)) (env : Env N) :
    Step env.scopes (writeCell w t keys env).2.scopes := by
  obtain ⟨hstep, hl⟩ := resolve_spec t env
  unfold writeCell
  rcases hres : resolve t env with ⟨(⟨name, cur⟩ | e | s | _ | _), env1⟩ <;> rw [hres] at hstep hl <;>
    dsimp only at hstep hl ⊢ <;> try exact hstep
  have hl := hl name cur rfl
  rcases hu : Val.updateAt env1.cap w keys cur with ⟨newVal, status⟩
  have : Step env.scopes (setVarIn name newVal env1.scopes) := hstep.trans (.set name newVal cur _ hl)
  cases status <;> exact this

/-! ### write traversals -/

/-- a write traversal that reports success made a `Step` (a captured error may have left the
    scopes of a failed call behind, so nothing is claimed then) -/
def PresW (m : M N (WOut N)) : Prop :=
  ∀ env out env', m env = (.ok out, env') → out.res = .ok () → Step env.scopes env'.scopes

theorem presW_writeCell (w : Writer N) (t : Target) (keys : List (Val N)) :
    PresW (writeCell w t keys) := by
  intro env out env' h _
  have := writeCell_step w t keys env
  rw [h] at this; exact this

theorem presW_notWritable : PresW (pure notWritable : M N (WOut N)) := by
  intro env out env' h hres
  obtain ⟨rfl, rfl⟩ := pure_ok.mp h
  simp [notWritable] at hres

theorem subscriptVal_ok {rec : Rec N} {idx : Primary N} {r : Except (RtErr N) (Val N)}
    {env env' : Env N} (h : subscriptVal rec idx env = (.ok r, env')) :
    match r with
    | .ok v => rec.evalPrimary idx env = (.ok v, env')
    | .error e => rec.evalPrimary idx env = (.err e, env') := by
  unfold subscriptVal at h
  split at h <;> rename_i heq <;> simp only [Prod.mk.injEq, Outcome.ok.injEq, reduceCtorEq,
    false_and] at h
  · obtain ⟨rfl, rfl⟩ := h; exact heq
  · obtain ⟨rfl, rfl⟩ := h; exact heq

/-- the continuation after `subscript_val` shared by `writePrimary`, `writeSubscript`, `writeLhs` -/
theorem presW_afterSubscript {rec : Rec N} {idx : Primary N}
    (h : Pres (fun _ => True) (rec.evalPrimary idx)) (next : Val N → M N (WOut N))
    (hnext : ∀ v, PresW (next v)) :
    PresW (do match ← subscriptVal rec idx with
              | .error e => pure { res := .error e }
              | .ok kv => next kv) := by
  intro env out env' hm hres
  obtain ⟨r, env1, h1, h2⟩ := bind_ok.mp hm
  have h1 := subscriptVal_ok h1
  cases r with
  | error e =>
    obtain ⟨rfl, rfl⟩ := pure_ok.mp h2
    simp at hres
  | ok v =>
    exact (h env v env1 h1).1.trans (hnext v env1 out env' h2 hres)

/-! ### executor state -/

/-- the return value is set exactly when the flag is `Returning` -/
def StFin (st : ExecSt N) : Prop :=
  (st.flag = .returning → st.ret.isSome = true) ∧ (st.flag ≠ .returning → st.ret = none)

/-- started as every statement starts (flag `Normal`, no return value), the final state has
    its return value set exactly when its flag is `Returning` -/
def FinIf (st st' : ExecSt N) : Prop := StPre st → StFin st'

theorem stFin_of_pre {st : ExecSt N} (h : StPre st) : StFin st :=
  ⟨fun hf => (by rw [h.1] at hf; cases hf), fun _ => h.2⟩

theorem FinIf.rfl' (st : ExecSt N) : FinIf st st := fun h => stFin_of_pre h

/-- the invariant on an interpreter record -/
structure RecSc (rec : Rec N) : Prop where
  evalExpr : ∀ e, Pres (fun _ => True) (rec.evalExpr e)
  evalPrimary : ∀ p, Pres (fun _ => True) (rec.evalPrimary p)
  writeExpr : ∀ w e, PresW (rec.writeExpr w e)
  writePrimary : ∀ w p, PresW (rec.writePrimary w p)
  execStmt : ∀ s st, Pres (FinIf st) (rec.execStmt s st)

theorem presW_writeSubscript {rec : Rec N} (hrec : RecSc rec) (w : Writer N) (p : Primary N)
    (keys : List (Val N)) : PresW (writeSubscript rec w p keys) := by
  fun_induction writeSubscript rec w p keys with
  | case1 name r keys => exact presW_writeCell w _ _
  | case2 r keys => exact presW_writeCell w _ _
  | case3 arr idx keys ih =>
    exact presW_afterSubscript (hrec.evalPrimary idx) _ (fun v => ih v)
  | case4 => exact presW_notWritable

theorem presW_writePrimary {rec : Rec N} (hrec : RecSc rec) (w : Writer N) (p : Primary N) :
    PresW (writePrimary rec w p) := by
  cases p with
  | lit l r => exact presW_notWritable
  | ident i r =>
    cases i <;> simp only [writePrimary] <;> exact presW_writeCell w _ _
  | sub arr idx =>
    exact presW_afterSubscript (hrec.evalPrimary idx) _
      (fun v => presW_writeSubscript hrec w arr [v])
  | call name r args => exact presW_notWritable
  | pop arr => exact hrec.writePrimary w arr

theorem presW_writeExpr {rec : Rec N} (hrec : RecSc rec) (w : Writer N) (e : Expr N) :
    PresW (writeExpr rec w e) := by
  cases e with
  | prim p => exact hrec.writePrimary w p
  | bin op l f r => exact presW_notWritable
  | un op e => exact presW_notWritable

theorem presW_writeIdent (w : Writer N) (i : Ident) : PresW (writeIdent w i) := by
  cases i <;> simp only [writeIdent] <;> exact presW_writeCell w _ _

theorem presW_writeLhs {rec : Rec N} (hrec : RecSc rec) (w : Writer N) (l : Lhs N) :
    PresW (writeLhs rec w l) := by
  cases l with
  | ident i r => exact presW_writeIdent w i
  | sub arr idx =>
    exact presW_afterSubscript (hrec.evalPrimary idx) _
      (fun v => presW_writeSubscript hrec w arr [v])

/-- `.unwrap().0?`: a captured error becomes fatal here -/
theorem pres_fatal {o : M N (WOut N)} (h : PresW o) : Pres (fun _ => True) (fatal o) := by
  intro env u env' hm
  unfold fatal at hm
  obtain ⟨out, env1, h1, h2⟩ := bind_ok.mp hm
  cases hres : out.res with
  | error e => simp only [hres] at h2; exact (fail_ok.mp h2).elim
  | ok u0 =>
    simp only [hres] at h2
    obtain ⟨_, rfl⟩ := pure_ok.mp h2
    exact ⟨h env out env1 h1 hres, trivial⟩

/-- `visit_array_pop_expr` -/
theorem pres_evalPop {rec : Rec N} (hrec : RecSc rec) (arr : Primary N) :
    Pres (fun _ => True) (evalPop rec arr) := by
  intro env v env' hm
  unfold evalPop at hm
  obtain ⟨out, env1, h1, h2⟩ := bind_ok.mp hm
  cases hres : out.res with
  | error e => simp only [hres] at h2; exact (fail_ok.mp h2).elim
  | ok u0 =>
    simp only [hres] at h2
    cases hb : out.back with
    | none => simp [hb, M.crash] at h2
    | some b =>
      simp only [hb] at h2
      obtain ⟨_, rfl⟩ := pure_ok.mp h2
      exact ⟨hrec.writePrimary _ arr env out env1 h1 hres, trivial⟩

/-! ### ProduceVal -/

theorem pres_evalIdent (i : Ident) : Pres (fun _ => True) (evalIdent i : M N (Val N)) := by
  cases i
  · exact pres_lookupVar _
  · exact pres_lastAccess

theorem pres_index {a b : M N (Val N)} (ha : Pres (fun _ => True) a)
    (hb : Pres (fun _ => True) b) :
    Pres (fun _ => True) (do let x ← a; let y ← b; M.liftV (Val.index x y)) :=
  ha.bind fun x _ => hb.bind fun y _ => pres_liftV _

theorem pres_applyOp (op : BinOp) (a : Val N) {b : M N (Val N)}
    (hb : Pres (fun _ => True) b) : Pres (fun _ => True) (applyOp op a b) := by
  cases op <;> simp only [applyOp]
  case plus => exact hb.bind fun bv _ => pres_get.bind fun env _ => pres_liftV _
  case minus => exact hb.bind fun bv _ => Pres.pure _ trivial
  case multiply => exact hb.bind fun bv _ => pres_get.bind fun env _ => pres_liftV _
  case divide => exact hb.bind fun bv _ => Pres.pure _ trivial
  case and =>
    split
    · exact hb.bind fun bv _ => Pres.pure _ trivial
    · exact Pres.pure _ trivial
  case or =>
    split
    · exact Pres.pure _ trivial
    · exact hb.bind fun bv _ => Pres.pure _ trivial
  case nor =>
    split
    · exact Pres.pure _ trivial
    · exact hb.bind fun bv _ => Pres.pure _ trivial
  case eq => exact hb.bind fun bv _ => Pres.pure _ trivial
  case notEq => exact hb.bind fun bv _ => Pres.pure _ trivial
  case greater =>
    exact hb.bind fun bv _ => (pres_liftV _).bind fun r _ => Pres.pure _ trivial
  case greaterEq =>
    exact hb.bind fun bv _ => (pres_liftV _).bind fun r _ => Pres.pure _ trivial
  case less =>
    exact hb.bind fun bv _ => (pres_liftV _).bind fun r _ => Pres.pure _ trivial
  case lessEq =>
    exact hb.bind fun bv _ => (pres_liftV _).bind fun r _ => Pres.pure _ trivial

theorem pres_foldOp {rec : Rec N} (hrec : RecSc rec) (op : BinOp)
    (a : Val N) (es : List (Expr N)) : Pres (fun _ => True) (foldOp rec op a es) := by
  induction es generalizing a with
  | nil => exact Pres.pure _ trivial
  | cons e es ih =>
    simp only [foldOp]
    exact (pres_applyOp op a (hrec.evalExpr e)).bind fun a' _ => ih a'

theorem pres_evalArgs {rec : Rec N} (hrec : RecSc rec) (es : List (Expr N)) :
    Pres (fun _ => True) (evalArgs rec es) := by
  induction es with
  | nil => exact Pres.pure _ trivial
  | cons e es ih =>
    simp only [evalArgs]
    exact (hrec.evalExpr e).bind fun v _ => ih.bind fun vs _ => Pres.pure _ trivial

theorem pres_evalOpt {rec : Rec N} (hrec : RecSc rec) (e : Option (Expr N)) :
    Pres (fun _ => True) (evalOpt rec e) := by
  cases e with
  | none => exact Pres.pure _ trivial
  | some e => exact (hrec.evalExpr e).bind fun v _ => Pres.pure _ trivial

theorem StFin.pre_of_normal {st : ExecSt N} (h : StFin st) (hn : st.flag = .normal) : StPre st :=
  ⟨hn, h.2 (by simp [hn])⟩

/-- `visit_block` -/
theorem pres_execStmts {rec : Rec N} (hrec : RecSc rec) (ss : List (Stmt N)) (st : ExecSt N) :
    Pres (FinIf st) (execStmts rec ss st) := by
  induction ss generalizing st with
  | nil => exact Pres.pure _ (FinIf.rfl' st)
  | cons s ss ih =>
    simp only [execStmts]
    refine (hrec.execStmt s st).bind fun st' hpost => ?_
    split
    · exact Pres.pure _ hpost
    · rename_i hskip
      have hn : st'.flag = .normal := by
        cases hf : st'.flag <;> simp_all [Flag.skipRest]
      exact (ih st').mono fun st'' h hst => h ((hpost hst).pre_of_normal hn)

/-- `visit_function_call` -/
theorem pres_callFunction {rec : Rec N} (hrec : RecSc rec) (name : VarName)
    (args : List (Expr N)) : Pres (fun _ => True) (callFunction rec name args) := by
  unfold callFunction
  refine pres_get.bind fun env _ => (pres_liftE _).bind fun pb _ => ?_
  obtain ⟨params, body⟩ := pb
  dsimp only
  split
  · exact pres_fail _
  · refine (pres_evalArgs hrec args).bind fun vals _ => pres_tick.bind fun _ _ => ?_
    exact pres_scoped (pushFunctionScope_push _)
      (pres_execStmts hrec body.stmts {}) (fun st _ => Pres.pure _ trivial)

theorem pres_evalPrimary {rec : Rec N} (hrec : RecSc rec) (p : Primary N) :
    Pres (fun _ => True) (evalPrimary rec p) := by
  cases p with
  | lit l r => exact Pres.pure _ trivial
  | ident i r => exact pres_evalIdent i
  | sub arr idx => exact pres_index (hrec.evalPrimary arr) (hrec.evalPrimary idx)
  | call name r args => exact pres_callFunction hrec name args
  | pop arr => exact pres_evalPop hrec arr

theorem pres_evalExpr {rec : Rec N} (hrec : RecSc rec) (e : Expr N) :
    Pres (fun _ => True) (evalExpr rec e) := by
  cases e with
  | prim p => exact hrec.evalPrimary p
  | bin op l f r =>
    exact (hrec.evalExpr l).bind fun lv _ => pres_foldOp hrec op lv (f :: r)
  | un op e =>
    refine (hrec.evalExpr e).bind fun v _ => ?_
    cases op
    · exact pres_liftV _
    · exact Pres.pure _ trivial

theorem pres_evalLhs {rec : Rec N} (hrec : RecSc rec) (l : Lhs N) :
    Pres (fun _ => True) (evalLhs rec l) := by
  cases l with
  | ident i r => exact pres_evalIdent i
  | sub arr idx => exact pres_index (hrec.evalPrimary arr) (hrec.evalPrimary idx)

/-! ### ExecStmt -/

/-- `visit_loop` -/
theorem pres_loopGo {rec : Rec N} (hrec : RecSc rec) (invert : Bool)
    (cond : Expr N) (body : List (Stmt N)) (n : Nat) (st : ExecSt N) :
    Pres (FinIf st) (loopGo rec invert cond body n st) := by
  induction n generalizing st with
  | zero => exact pres_outOfResource
  | succ n ih =>
    simp only [loopGo]
    refine (hrec.evalExpr cond).bind fun c _ => ?_
    split
    · refine pres_tick.bind fun _ _ => ?_
      refine pres_scoped pushScope_push (pres_execStmts hrec body st) (fun st' hpost => ?_)
      split
      · rename_i h
        exact (ih st').mono fun st'' h' hst => h' ((hpost hst).pre_of_normal h)
      · rename_i h
        exact (ih { st' with flag := .normal }).mono fun st'' h' hst =>
          h' ⟨rfl, (hpost hst).2 (by simp [h])⟩
      · rename_i h
        exact Pres.pure _ fun hst => ⟨fun hf => (by cases hf), fun _ => (hpost hst).2 (by simp [h])⟩
      · exact Pres.pure _ hpost
    · exact Pres.pure _ (FinIf.rfl' st)

theorem pres_execLoop {rec : Rec N} (hrec : RecSc rec) (invert : Bool)
    (cond : Expr N) (body : Block N) (st : ExecSt N) :
    Pres (FinIf st) (execLoop rec invert cond body st) :=
  pres_get.bind fun env _ => pres_loopGo hrec invert cond body.stmts _ st

/-- `fatal (write …); pure st` -/
theorem pres_writeThen {o : M N (WOut N)} (h : PresW o) (st : ExecSt N) :
    Pres (FinIf st) (do fatal o; pure st) :=
  (pres_fatal h).bind fun _ _ => Pres.pure _ (FinIf.rfl' st)

theorem pres_poetic {α : Type} (elems : List PoeticElem) (f : N → α) :
    Pres (fun _ => True)
      (match (Poetic.computeValue elems : Outcome Unit N) with
       | .ok n => pure (f n)
       | .crash site => M.crash site
       | _ => M.crash .poeticLeadingSuffix : M N α) := by
  split
  · exact Pres.pure _ trivial
  · exact pres_crash _
  · exact pres_crash _

theorem pres_execStmt {rec : Rec N} (hrec : RecSc rec) (s : Stmt N) (st : ExecSt N) :
    Pres (FinIf st) (execStmt rec s st) := by
  unfold execStmt
  refine pres_tick.bind fun _ _ => ?_
  cases s with
  | assign dest op value =>
    dsimp only
    refine Pres.bind (p := fun _ => True) ?_ (fun newVal _ =>
      pres_writeThen (presW_writeLhs hrec _ dest) st)
    cases op with
    | some o =>
      exact (pres_evalLhs hrec dest).bind fun l _ => pres_foldOp hrec o l _
    | none =>
      dsimp only
      split
      · exact pres_fail _
      · exact hrec.evalExpr _
  | poeticNum dest rhs =>
    dsimp only
    refine Pres.bind (p := fun _ => True) ?_ (fun v _ =>
      pres_writeThen (presW_writeLhs hrec _ dest) st)
    cases rhs with
    | expr e => exact hrec.evalExpr e
    | lit elems => exact pres_poetic elems _
  | poeticStr dest str =>
    exact pres_writeThen (presW_writeLhs hrec _ dest) st
  | ifS cond thenB elseB =>
    dsimp only
    refine (hrec.evalExpr cond).bind fun c _ => ?_
    refine pres_scoped pushScope_push (p := FinIf st) ?_ (fun st' hpost => Pres.pure _ hpost)
    split
    · exact pres_execStmts hrec _ st
    · split
      · exact pres_execStmts hrec _ st
      · exact Pres.pure _ (FinIf.rfl' st)
  | whileS cond body => exact pres_execLoop hrec false cond body st
  | untilS cond body => exact pres_execLoop hrec true cond body st
  | inc dest r amount => exact pres_writeThen (presW_writeIdent _ dest) st
  | dec dest r amount => exact pres_writeThen (presW_writeIdent _ dest) st
  | input dest loc =>
    dsimp only
    refine pres_inputLine.bind fun line _ => ?_
    cases dest with
    | some d => exact pres_writeThen (presW_writeLhs hrec _ d) st
    | none => exact Pres.pure _ (FinIf.rfl' st)
  | output value =>
    dsimp only
    refine (hrec.evalExpr value).bind fun v _ => ?_
    refine (pres_liftV _).bind fun text _ => ?_
    exact (pres_output text).bind fun _ _ => Pres.pure _ (FinIf.rfl' st)
  | mutation op operand dest param =>
    dsimp only
    refine (pres_evalOpt hrec param).bind fun p _ => ?_
    cases dest with
    | some d =>
      dsimp only
      refine (hrec.evalPrimary operand).bind fun v _ => ?_
      refine (pres_liftV _).bind fun v' _ => ?_
      exact pres_writeThen (presW_writeLhs hrec _ d) st
    | none =>
      exact pres_writeThen (hrec.writePrimary _ operand) st
  | rounding dir operand =>
    exact pres_writeThen (hrec.writeExpr _ operand) st
  | continue_ r =>
    dsimp only
    refine (pres_assert _ _).bind fun _ _ => Pres.pure _ fun hst =>
      ⟨fun hf => (by cases hf), fun _ => hst.2⟩
  | break_ r =>
    dsimp only
    refine (pres_assert _ _).bind fun _ _ => Pres.pure _ fun hst =>
      ⟨fun hf => (by cases hf), fun _ => hst.2⟩
  | push arr value =>
    dsimp only
    refine Pres.bind (p := fun _ => True) ?_ (fun vals _ =>
      pres_writeThen (hrec.writePrimary _ arr) st)
    cases value with
    | none => exact Pres.pure _ trivial
    | some rhs =>
      cases rhs with
      | list l => exact pres_evalArgs hrec _
      | lit elems => exact pres_poetic elems (fun n => [Val.num n])
  | pop arr dest =>
    dsimp only
    refine (pres_evalPop hrec arr).bind fun back _ => ?_
    cases dest with
    | some d => exact pres_writeThen (presW_writeLhs hrec _ d) st
    | none => exact Pres.pure _ (FinIf.rfl' st)
  | ret value =>
    dsimp only
    refine (pres_assert _ _).bind fun _ _ => ?_
    refine (hrec.evalExpr value).bind fun v _ => ?_
    refine (pres_assert _ _).bind fun _ _ => ?_
    exact Pres.pure _ fun _ => ⟨fun _ => rfl, fun h => absurd rfl h⟩
  | func name r params body =>
    dsimp only
    exact (pres_createFunc _ _ _).bind fun _ _ => Pres.pure _ (FinIf.rfl' st)
  | call name r args =>
    dsimp only
    exact (pres_callFunction hrec name args).bind fun _ _ => Pres.pure _ (FinIf.rfl' st)

/-! ### induction on fuel -/

theorem recSc_bottom : RecSc (bottom : Rec N) where
  evalExpr _ := pres_outOfFuel
  evalPrimary _ := pres_outOfFuel
  writeExpr _ _ := fun _ _ _ h => by simp [bottom, M.outOfFuel] at h
  writePrimary _ _ := fun _ _ _ h => by simp [bottom, M.outOfFuel] at h
  execStmt _ _ := pres_outOfFuel

theorem recSc_mkRec {rec : Rec N} (h : RecSc rec) : RecSc (mkRec rec) where
  evalExpr e := pres_evalExpr h e
  evalPrimary p := pres_evalPrimary h p
  writeExpr w e := presW_writeExpr h w e
  writePrimary w p := presW_writePrimary h w p
  execStmt s st := pres_execStmt h s st

theorem recSc_interp (n : Nat) : RecSc (interp n : Rec N) := by
  induction n with
  | zero => exact recSc_bottom
  | succ n ih => exact recSc_mkRec ih

theorem pres_execBlocks {rec : Rec N} (hrec : RecSc rec) (bs : List (Block N)) (st : ExecSt N) :
    Pres (FinIf st) (execBlocks rec bs st) := by
  induction bs generalizing st with
  | nil => exact Pres.pure _ (FinIf.rfl' st)
  | cons b bs ih =>
    simp only [execBlocks]
    refine (pres_execStmts hrec b.stmts st).bind fun st' hpost => ?_
    split
    · exact Pres.pure _ hpost
    · rename_i hskip
      have hn : st'.flag = .normal := by
        cases hf : st'.flag <;> simp_all [Flag.skipRest]
      exact (ih st').mono fun st'' h hst => h ((hpost hst).pre_of_normal hn)

theorem pres_execProgram (fuel : Nat) (p : Program N) :
    Pres (fun _ => True) (execProgram fuel p) :=
  (pres_execBlocks (recSc_interp fuel) p.code {}).bind fun _ _ => Pres.pure _ trivial

end C05
end Rrss
