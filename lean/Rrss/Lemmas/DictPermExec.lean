/-
  Rrss.Lemmas.DictPermExec — lifting of C10 from the value algebra to the interpreter: a
  relational Hoare logic for the monad `M` (`MRel`), the relation on environments (`EnvRel`:
  every scope may be listed in a different order, every variable may hold a `≈`-related value,
  everything else — pronoun, input, output, budgets — is equal), and one lemma per interpreter
  function, by induction on the fuel.
-/
import Rrss.Lemmas.DictPerm
import Rrss.Interp
-- (shared auxiliary matcher lemmas of `writeSubscript` are first generated there; importing it
-- avoids generating them twice)
import Rrss.Lemmas.C09Interp
set_option linter.unusedSectionVars false
set_option linter.unusedVariables false
namespace Rrss
namespace C10
open Env Interp DictPerm

section
variable {N : Type}

/-! ### relations -/

/-- related values: equal up to dictionary order, and (left, hence both) with distinct keys -/
def VR (v v' : Val N) : Prop := Val.Equiv v v' ∧ v.WF

theorem VR.refl_of {v : Val N} (w : v.WF) : VR v v := ⟨Val.Equiv.refl v, w⟩
theorem VR.scalar {v : Val N} (h : v.isArr = false) : VR v v := ⟨Val.Equiv.refl v, Val.WF_of_not_arr h⟩

/-- symbol-table entries: variables hold related values, functions are the same -/
def EntryRel : Entry N → Entry N → Prop
  | .var v, .var v' => VR v v'
  | .func ps b, .func ps' b' => ps = ps' ∧ b = b'
  | _, _ => False

/-- one binding: same key, related entries -/
def BindRel (a b : VarName × Entry N) : Prop := a.1 = b.1 ∧ EntryRel a.2 b.2

/-- scopes: distinct keys, and related binding by binding after reordering one of them -/
def ScopeRel (s s' : Scope N) : Prop :=
  (s.map Prod.fst).Nodup ∧ ∃ s'', List.Perm s'' s' ∧ All₂ BindRel s s''

/-- environments: scope stacks related scope by scope, everything else equal -/
def EnvRel (e e' : Env N) : Prop :=
  All₂ ScopeRel e.scopes e'.scopes ∧ e.last = e'.last ∧ e.input = e'.input ∧
  e.handed = e'.handed ∧ e.readFault = e'.readFault ∧ e.out = e'.out ∧
  e.wbudget = e'.wbudget ∧ e.steps = e'.steps ∧ e.cap = e'.cap

/-- outcomes: same constructor; results related by `R`, errors by `≈`, same crash site -/
def ResRel {α α' : Type} (R : α → α' → Prop) : Outcome (RtErr N) α → Outcome (RtErr N) α' → Prop
  | .ok a, .ok a' => R a a'
  | .err x, .err x' => RtErr.Equiv x x'
  | .crash s, .crash s' => s = s'
  | .fuel, .fuel => True
  | .resource, .resource => True
  | _, _ => False

/-- outcome and final environment -/
def ORel {α α' : Type} (R : α → α' → Prop) (r : Outcome (RtErr N) α × Env N)
    (r' : Outcome (RtErr N) α' × Env N) : Prop :=
  ResRel R r.1 r'.1 ∧ EnvRel r.2 r'.2

/-- two computations that map related environments to related outcomes and environments -/
def MRel {α α' : Type} (R : α → α' → Prop) (m : M N α) (m' : M N α') : Prop :=
  ∀ e e', EnvRel e e' → ORel R (m e) (m' e')

/-- `Result<_, RuntimeError>` values -/
def ExRel {α α' : Type} (R : α → α' → Prop) : Except (RtErr N) α → Except (RtErr N) α' → Prop
  | .ok a, .ok a' => R a a'
  | .error x, .error x' => RtErr.Equiv x x'
  | _, _ => False

variable {α α' β β' : Type}

@[simp] theorem resRel_ok {R : α → α' → Prop} {a : α} {a' : α'} :
    ResRel (N := N) R (.ok a) (.ok a') ↔ R a a' := Iff.rfl
@[simp] theorem resRel_err {R : α → α' → Prop} {x x' : RtErr N} :
    ResRel R (.err x : Outcome (RtErr N) α) (.err x' : Outcome (RtErr N) α') ↔ RtErr.Equiv x x' := Iff.rfl
@[simp] theorem resRel_crash {R : α → α' → Prop} {s s' : Site} :
    ResRel (N := N) R (.crash s : Outcome (RtErr N) α) (.crash s' : Outcome (RtErr N) α') ↔ s = s' := Iff.rfl
@[simp] theorem resRel_fuel {R : α → α' → Prop} :
    ResRel (N := N) R (.fuel : Outcome (RtErr N) α) (.fuel : Outcome (RtErr N) α') ↔ True := Iff.rfl
@[simp] theorem resRel_resource {R : α → α' → Prop} :
    ResRel (N := N) R (.resource : Outcome (RtErr N) α) (.resource : Outcome (RtErr N) α') ↔ True := Iff.rfl

theorem ResRel.imp {R S : α → α' → Prop} {r : Outcome (RtErr N) α} {r' : Outcome (RtErr N) α'}
    (h : ResRel R r r') (himp : ∀ a a', R a a' → S a a') : ResRel S r r' := by
  cases r <;> cases r' <;> simp_all [ResRel]

/-! ### the monad -/

theorem MRel.bind {R : α → α' → Prop} {S : β → β' → Prop} {m : M N α} {m' : M N α'}
    {f : α → M N β} {f' : α' → M N β'}
    (h1 : MRel R m m') (h2 : ∀ a a', R a a' → MRel S (f a) (f' a')) :
    MRel S (m >>= f) (m' >>= f') := by
  intro e e' he
  have h := h1 e e' he
  show ORel S (M.bind m f e) (M.bind m' f' e')
  unfold M.bind
  rcases hm : m e with ⟨(a | x | s | _ | _), e1⟩ <;>
    rcases hm' : m' e' with ⟨(a' | x' | s' | _ | _), e1'⟩ <;>
    rw [hm, hm'] at h <;> simp_all [ORel, ResRel]
  exact h2 a a' h.1 e1 e1' h.2

theorem MRel.pure {R : α → α' → Prop} {a : α} {a' : α'} (h : R a a') :
    MRel (N := N) R (pure a) (pure a') :=
  fun _ _ he => ⟨h, he⟩

theorem MRel.mono {R S : α → α' → Prop} {m : M N α} {m' : M N α'} (h : MRel R m m')
    (himp : ∀ a a', R a a' → S a a') : MRel S m m' :=
  fun e e' he => ⟨(h e e' he).1.imp himp, (h e e' he).2⟩

theorem mrel_fail {R : α → α' → Prop} {x x' : RtErr N} (h : RtErr.Equiv x x') :
    MRel R (M.fail x : M N α) (M.fail x' : M N α') :=
  fun _ _ he => ⟨h, he⟩

theorem mrel_fail_same {R : α → α' → Prop} (x : RtErr N) :
    MRel R (M.fail x : M N α) (M.fail x : M N α') :=
  mrel_fail (RtErr.Equiv.refl x)

theorem mrel_crash {R : α → α' → Prop} (s : Site) :
    MRel (N := N) R (M.crash s : M N α) (M.crash s : M N α') :=
  fun _ _ he => ⟨rfl, he⟩

theorem mrel_outOfFuel {R : α → α' → Prop} :
    MRel (N := N) R (M.outOfFuel : M N α) (M.outOfFuel : M N α') :=
  fun _ _ he => ⟨trivial, he⟩

theorem mrel_outOfResource {R : α → α' → Prop} :
    MRel (N := N) R (M.outOfResource : M N α) (M.outOfResource : M N α') :=
  fun _ _ he => ⟨trivial, he⟩

theorem mrel_get : MRel (N := N) EnvRel M.get M.get :=
  fun _ _ he => ⟨he, he⟩

theorem mrel_liftV {R : α → α' → Prop} {r : VRes N α} {r' : VRes N α'} (h : VRel R r r') :
    MRel R (M.liftV r) (M.liftV r') := by
  intro e e' he
  cases r <;> cases r' <;> simp_all [VRel, M.liftV, ORel, ResRel, RtErr.Equiv]

theorem mrel_liftE {R : α → α' → Prop} {r : Except (RtErr N) α} {r' : Except (RtErr N) α'}
    (h : ExRel R r r') : MRel R (M.liftE r) (M.liftE r') := by
  intro e e' he
  cases r <;> cases r' <;> simp_all [ExRel, M.liftE, ORel, ResRel]

theorem mrel_assert (s : Site) (b : Bool) :
    MRel (N := N) (fun _ _ => True) (M.assert s b) (M.assert s b) := by
  unfold M.assert
  split
  · exact MRel.pure trivial
  · exact mrel_crash s

/-! ### scopes: access by key -/

theorem bindRel_keys {s s' : Scope N} (h : All₂ BindRel s s') : s.map Prod.fst = s'.map Prod.fst :=
  h.map_eq fun _ _ _ hab => hab.1

theorem slookup_all₂ {s s' : Scope N} (h : All₂ BindRel s s') (k : VarName) :
    OptRel EntryRel (slookup k s) (slookup k s') := by
  induction h with
  | nil => simp [slookup, OptRel]
  | @cons a b l l' hab _ ih =>
    obtain ⟨k1, v1⟩ := a
    obtain ⟨k2, v2⟩ := b
    obtain ⟨hk, hv⟩ := hab
    simp only at hk hv
    subst hk
    simp only [slookup]
    split
    · exact hv
    · exact ih

theorem sset_all₂ {s s' : Scope N} (h : All₂ BindRel s s') (k : VarName) {e e' : Entry N}
    (he : EntryRel e e') : All₂ BindRel (sset k e s) (sset k e' s') := by
  induction h with
  | nil => exact .cons ⟨rfl, he⟩ .nil
  | @cons a b l l' hab hl ih =>
    obtain ⟨k1, v1⟩ := a
    obtain ⟨k2, v2⟩ := b
    obtain ⟨hk, hv⟩ := hab
    simp only at hk hv
    subst hk
    simp only [sset]
    split
    · exact .cons ⟨rfl, he⟩ hl
    · exact .cons ⟨rfl, hv⟩ ih

theorem scopeRel_nil : ScopeRel ([] : Scope N) [] := ⟨by simp, [], .refl _, .nil⟩

/-- lookup by key in related scopes -/
theorem slookup_rel {s s' : Scope N} (h : ScopeRel s s') (k : VarName) :
    OptRel EntryRel (slookup k s) (slookup k s') := by
  obtain ⟨hn, s'', hp, ha⟩ := h
  have hn'' : (s''.map Prod.fst).Nodup := by rw [← bindRel_keys ha]; exact hn
  rw [← slookup_perm hp hn'' k]
  exact slookup_all₂ ha k

/-- insertion by key into related scopes -/
theorem sset_rel {s s' : Scope N} (h : ScopeRel s s') (k : VarName) {e e' : Entry N}
    (he : EntryRel e e') : ScopeRel (sset k e s) (sset k e' s') := by
  obtain ⟨hn, s'', hp, ha⟩ := h
  have hn'' : (s''.map Prod.fst).Nodup := by rw [← bindRel_keys ha]; exact hn
  exact ⟨sset_nodup k e hn, sset k e' s'', sset_perm hp hn'' k e', sset_all₂ ha k he⟩

end

section
variable [CharOps] {N : Type} [NumOps N] {α α' β β' : Type}

/-! ### `Env` primitives -/

theorem lookupVarIn_rel (name : VarName) {sc sc' : List (Scope N)} (h : All₂ ScopeRel sc sc') :
    ExRel VR (lookupVarIn name sc) (lookupVarIn name sc') := by
  induction h with
  | nil => simp [lookupVarIn, ExRel, RtErr.Equiv]
  | @cons s s' l l' hs _ ih =>
    have := slookup_rel hs name.key
    simp only [lookupVarIn]
    cases h1 : slookup name.key s <;> cases h2 : slookup name.key s' <;>
      rw [h1, h2] at this <;> simp only [OptRel] at this
    · exact ih
    · rename_i e e'
      cases e <;> cases e' <;> simp only [EntryRel] at this
      · exact this
      · simp [ExRel, RtErr.Equiv]

theorem lookupFuncIn_rel (name : VarName) {sc sc' : List (Scope N)} (h : All₂ ScopeRel sc sc') :
    ExRel Eq (lookupFuncIn name sc) (lookupFuncIn name sc') := by
  induction h with
  | nil => simp [lookupFuncIn, ExRel, RtErr.Equiv]
  | @cons s s' l l' hs _ ih =>
    have := slookup_rel hs name.key
    simp only [lookupFuncIn]
    cases h1 : slookup name.key s <;> cases h2 : slookup name.key s' <;>
      rw [h1, h2] at this <;> simp only [OptRel] at this
    · exact ih
    · rename_i e e'
      cases e <;> cases e' <;> simp only [EntryRel] at this
      · simp [ExRel, RtErr.Equiv]
      · simp [ExRel, this.1, this.2]

theorem setVarIn_rel (name : VarName) {v v' : Val N} (hv : VR v v') {sc sc' : List (Scope N)}
    (h : All₂ ScopeRel sc sc') : All₂ ScopeRel (setVarIn name v sc) (setVarIn name v' sc') := by
  induction h with
  | nil => exact .nil
  | @cons s s' l l' hs hl ih =>
    have := slookup_rel hs name.key
    simp only [setVarIn]
    cases h1 : slookup name.key s <;> cases h2 : slookup name.key s' <;>
      rw [h1, h2] at this <;> simp only [OptRel] at this
    · exact .cons hs ih
    · exact .cons (sset_rel hs _ hv) hl

/-- to relate two computations it suffices to run them on environments that differ in the
    scope stack only -/
theorem MRel.of_fields {R : α → α' → Prop} {m : M N α} {m' : M N α'}
    (h : ∀ sc sc' last input handed rf out wb steps cap, All₂ ScopeRel sc sc' →
      ORel R (m ⟨sc, last, input, handed, rf, out, wb, steps, cap⟩)
        (m' ⟨sc', last, input, handed, rf, out, wb, steps, cap⟩)) : MRel R m m' := by
  intro e e' he
  obtain ⟨sc, last, input, handed, rf, out, wb, steps, cap⟩ := e
  obtain ⟨sc', last', input', handed', rf', out', wb', steps', cap'⟩ := e'
  obtain ⟨hs, h1, h2, h3, h4, h5, h6, h7, h8⟩ := he
  simp only at hs h1 h2 h3 h4 h5 h6 h7 h8
  subst h1 h2 h3 h4 h5 h6 h7 h8
  exact h _ _ _ _ _ _ _ _ _ _ hs

theorem envRel_mk {sc sc' : List (Scope N)} (hs : All₂ ScopeRel sc sc') (last input handed rf out wb steps cap) :
    EnvRel (N := N) ⟨sc, last, input, handed, rf, out, wb, steps, cap⟩
      ⟨sc', last, input, handed, rf, out, wb, steps, cap⟩ :=
  ⟨hs, rfl, rfl, rfl, rfl, rfl, rfl, rfl, rfl⟩

theorem mrel_pushScope : MRel (N := N) (fun _ _ => True) pushScope pushScope := by
  apply MRel.of_fields
  intro sc sc' last input handed rf out wb steps cap hs
  exact ⟨trivial, envRel_mk (.cons scopeRel_nil hs) ..⟩

theorem mrel_popScope : MRel (N := N) (fun _ _ => True) popScope popScope := by
  apply MRel.of_fields
  intro sc sc' last input handed rf out wb steps cap hs
  unfold popScope
  cases hs with
  | nil => exact ⟨rfl, envRel_mk .nil ..⟩
  | cons h1 hs' =>
    cases hs' with
    | nil => exact ⟨rfl, envRel_mk (.cons h1 .nil) ..⟩
    | cons h2 hs'' => exact ⟨trivial, envRel_mk (.cons h2 hs'') ..⟩

theorem mrel_lookupVar (name : VarName) : MRel (N := N) VR (lookupVar name) (lookupVar name) := by
  apply MRel.of_fields
  intro sc sc' last input handed rf out wb steps cap hs
  have := lookupVarIn_rel name hs
  unfold lookupVar
  simp only
  cases h1 : lookupVarIn name sc <;> cases h2 : lookupVarIn name sc' <;>
    rw [h1, h2] at this <;> simp only [ExRel] at this
  · exact ⟨this, envRel_mk hs ..⟩
  · exact ⟨this, envRel_mk hs ..⟩

theorem mrel_lastAccess : MRel (N := N) VR lastAccess lastAccess := by
  apply MRel.of_fields
  intro sc sc' last input handed rf out wb steps cap hs
  unfold lastAccess
  cases last with
  | none => exact ⟨by simp [ResRel, RtErr.Equiv], envRel_mk hs ..⟩
  | some name =>
    have := lookupVarIn_rel name hs
    simp only
    cases h1 : lookupVarIn name sc <;> cases h2 : lookupVarIn name sc' <;>
      rw [h1, h2] at this <;> simp only [ExRel] at this
    · exact ⟨this, envRel_mk hs ..⟩
    · exact ⟨this, envRel_mk hs ..⟩

theorem mrel_createFunc (name : VarName) (ps : List VarName) (b : Block N) :
    MRel (N := N) (fun _ _ => True) (createFunc name ps b) (createFunc name ps b) := by
  apply MRel.of_fields
  intro sc sc' last input handed rf out wb steps cap hs
  unfold createFunc
  cases hs with
  | nil => exact ⟨rfl, envRel_mk .nil ..⟩
  | @cons s s' l l' h1 hs' =>
    have := slookup_rel h1 name.key
    simp only
    cases h1' : slookup name.key s <;> cases h2' : slookup name.key s' <;>
      rw [h1', h2'] at this <;> simp only [OptRel] at this
    · exact ⟨trivial, envRel_mk (.cons (sset_rel h1 _ (e := .func ps b) (e' := .func ps b) ⟨rfl, rfl⟩) hs') ..⟩
    · exact ⟨by simp [ResRel, RtErr.Equiv], envRel_mk (.cons h1 hs') ..⟩

theorem functionScope_rel {args args' : List (VarName × Val N)}
    (h : All₂ (fun a b => a.1 = b.1 ∧ VR a.2 b.2) args args') :
    ∀ {acc acc' : Scope N}, ScopeRel acc acc' →
      ExRel ScopeRel (functionScope args acc) (functionScope args' acc') := by
  induction h with
  | nil => intro acc acc' ha; exact ha
  | @cons a b l l' hab _ ih =>
    intro acc acc' ha
    obtain ⟨n1, v1⟩ := a
    obtain ⟨n2, v2⟩ := b
    obtain ⟨hn, hv⟩ := hab
    simp only at hn hv
    subst hn
    have := slookup_rel ha n1.key
    simp only [functionScope]
    cases h1 : slookup n1.key acc <;> cases h2 : slookup n1.key acc' <;>
      rw [h1, h2] at this <;> simp only [OptRel] at this
    · exact ih (sset_rel ha _ hv)
    · simp [ExRel, RtErr.Equiv]

theorem mrel_pushFunctionScope {args args' : List (VarName × Val N)}
    (h : All₂ (fun a b => a.1 = b.1 ∧ VR a.2 b.2) args args') :
    MRel (N := N) (fun _ _ => True) (pushFunctionScope args) (pushFunctionScope args') := by
  apply MRel.of_fields
  intro sc sc' last input handed rf out wb steps cap hs
  have := functionScope_rel h scopeRel_nil
  unfold pushFunctionScope
  cases h1 : functionScope args [] <;> cases h2 : functionScope args' [] <;>
    rw [h1, h2] at this <;> simp only [ExRel] at this
  · exact ⟨this, envRel_mk hs ..⟩
  · exact ⟨trivial, envRel_mk (.cons this hs) ..⟩

theorem mrel_output (t : Str) : MRel (N := N) (fun _ _ => True) (output t) (output t) := by
  apply MRel.of_fields
  intro sc sc' last input handed rf out wb steps cap hs
  unfold output
  cases wb with
  | none => exact ⟨trivial, envRel_mk hs ..⟩
  | some k =>
    simp only
    split
    · exact ⟨trivial, envRel_mk hs ..⟩
    · exact ⟨by simp [ResRel, RtErr.Equiv], envRel_mk hs ..⟩

theorem mrel_inputLine : MRel (N := N) Eq inputLine inputLine := by
  apply MRel.of_fields
  intro sc sc' last input handed rf out wb steps cap hs
  unfold inputLine
  cases input with
  | nil => exact ⟨rfl, envRel_mk hs ..⟩
  | cons c cs =>
    simp only
    split
    · exact ⟨by simp [ResRel, RtErr.Equiv], envRel_mk hs ..⟩
    · exact ⟨rfl, envRel_mk hs ..⟩

theorem mrel_tick : MRel (N := N) (fun _ _ => True) tick tick := by
  apply MRel.of_fields
  intro sc sc' last input handed rf out wb steps cap hs
  unfold tick
  cases steps with
  | zero => exact ⟨trivial, envRel_mk hs ..⟩
  | succ n => exact ⟨trivial, envRel_mk hs ..⟩

/-! ### relations on interpreter data -/

/-- write closures: related cells give related new cells and related extra results -/
def WRel (w w' : Writer N) : Prop :=
  ∀ c c', VR c c' → VRel (fun p p' => VR p.1 p'.1 ∧ OptRel VR p.2 p'.2) (w c) (w' c')

/-- `WriteValOutput` -/
def WOutRel (o o' : WOut N) : Prop :=
  ExRel (fun _ _ => True) o.res o'.res ∧ OptRel VR o.back o'.back

/-- the mutable part of `ExecStmt` -/
def StRel (st st' : ExecSt N) : Prop := st.flag = st'.flag ∧ OptRel VR st.ret st'.ret

/-- every entry point of the interpreter (one fuel level down) respects the relations -/
structure RecOK (rec : Rec N) : Prop where
  evalExpr : ∀ e, MRel VR (rec.evalExpr e) (rec.evalExpr e)
  evalPrimary : ∀ p, MRel VR (rec.evalPrimary p) (rec.evalPrimary p)
  writeExpr : ∀ w w', WRel w w' → ∀ e, MRel WOutRel (rec.writeExpr w e) (rec.writeExpr w' e)
  writePrimary : ∀ w w', WRel w w' → ∀ p, MRel WOutRel (rec.writePrimary w p) (rec.writePrimary w' p)
  execStmt : ∀ s st st', StRel st st' → MRel StRel (rec.execStmt s st) (rec.execStmt s st')

theorem vr_of_eq_scalar {v v' : Val N} (h : v = v') (hs : v.isArr = false) : VR v v' :=
  h ▸ VR.scalar hs

theorem VRel.with_wf {r r' : VRes N (Val N)} (h : VRel Val.Equiv r r') (hw : ∀ a, r = .ok a → a.WF) :
    VRel VR r r' := by
  cases r <;> cases r' <;> simp_all [VRel]
  exact ⟨h, hw⟩

theorem vrel_of_eq_scalar {r r' : VRes N (Val N)} (h : r = r')
    (hs : ∀ a, r = .ok a → a.isArr = false) : VRel VR r r' := by
  subst h
  exact VRel.refl_of _ fun a ha => VR.scalar (hs a ha)

theorem optRel_equiv_of_vr {p p' : Option (Val N)} (h : OptRel VR p p') : OptRel Val.Equiv p p' := by
  cases p <;> cases p' <;> simp_all [OptRel, VR]

theorem vr_wf' {v v' : Val N} (h : VR v v') : v'.WF := Val.WF_congr h.1 h.2

/-! ### value operations, with well-formedness -/

theorem plus_scalar {cap : Nat} {a b r : Val N} (h : Val.plus cap a b = .ok r) : r.isArr = false := by
  unfold Val.plus at h
  split at h
  · split at h <;> cases h; rfl
  · cases h; rfl
  · cases h; rfl

theorem multiply_scalar {cap : Nat} {a b r : Val N} (h : Val.multiply cap a b = .ok r) :
    r.isArr = false := by
  unfold Val.multiply at h
  split at h
  · cases h; rfl
  · by_cases hg : NumOps.geZero ‹N› = true
    · rw [if_pos hg] at h
      dsimp only at h
      by_cases hc : List.length ‹Str› * (if List.isEmpty ‹Str› = true then 0 else NumOps.toUSize ‹N›) > cap
      · rw [if_pos hc] at h; cases h
      · rw [if_neg hc] at h; cases h; rfl
    · rw [if_neg hg] at h; cases h; rfl
  · cases h; rfl

theorem subtract_scalar (a b : Val N) : (Val.subtract a b).isArr = false := by
  unfold Val.subtract; split <;> rfl

theorem divide_scalar (a b : Val N) : (Val.divide a b).isArr = false := by
  unfold Val.divide; split <;> rfl

theorem negate_scalar {a r : Val N} (h : Val.negate a = .ok r) : r.isArr = false := by
  unfold Val.negate at h; split at h <;> cases h; rfl

theorem roundW_scalar {d : RoundDir} {a r : Val N} (h : roundW d a = .ok r) : r.isArr = false := by
  cases d <;> simp only [roundW, Val.roundUp, Val.roundDown, Val.roundNearest] at h <;>
    split at h <;> cases h <;> rfl

theorem inc_scalar {x : Int} {a r : Val N} (h : Val.inc a x = .ok r) : r.isArr = false := by
  unfold Val.inc at h; split at h <;> cases h <;> rfl

theorem cast_scalar {a r : Val N} {p : Option (Val N)} (h : Val.cast a p = .ok r) : r.isArr = false := by
  unfold Val.cast at h
  repeat' split at h
  all_goals first | (cases h; rfl) | cases h

theorem mutate_wf {op : MutOp} {v r : Val N} {p : Option (Val N)} (h : mutate op v p = .ok r) :
    r.WF := by
  cases op <;> simp only [mutate] at h
  · exact Val.WF_split h
  · exact Val.WF_of_not_arr (Val.join_ok_scalar h)
  · exact Val.WF_of_not_arr (cast_scalar h)

theorem mutate_rel {op : MutOp} {v v' : Val N} {p p' : Option (Val N)} (hv : VR v v')
    (hp : OptRel VR p p') : VRel VR (mutate op v p) (mutate op v' p') := by
  have hp' := optRel_equiv_of_vr hp
  refine VRel.with_wf ?_ (fun a ha => mutate_wf ha)
  cases op <;> simp only [mutate]
  · exact Val.split_congr hv.1 hp'
  · exact Val.join_congr hv.1 hp' hv.2
  · exact Val.cast_congr hv.1 hp'

theorem roundW_rel (d : RoundDir) {v v' : Val N} (hv : VR v v') :
    VRel VR (roundW d v) (roundW d v') := by
  refine VRel.with_wf ?_ (fun a ha => Val.WF_of_not_arr (roundW_scalar ha))
  cases d <;> simp only [roundW]
  · exact Val.roundUp_congr hv.1
  · exact Val.roundDown_congr hv.1
  · exact Val.roundNearest_congr hv.1

theorem index_rel {v v' k k' : Val N} (hv : VR v v') (hk : VR k k') :
    VRel VR (Val.index v k) (Val.index v' k') :=
  VRel.with_wf (Val.index_congr hv.1 hk.1 hv.2) fun a ha => Val.WF_index hv.2 ha

theorem all₂_vr_equiv {l l' : List (Val N)} (h : All₂ VR l l') : All₂ Val.Equiv l l' :=
  h.imp fun _ _ h => h.1

theorem all₂_vr_wf {l l' : List (Val N)} (h : All₂ VR l l') : Val.WFList l := by
  rw [Val.WFList_iff]
  intro v hv
  obtain ⟨_, _, h⟩ := h.exists_of_mem_left hv
  exact h.2

/-! ### the writers used by `ExecStmt` -/

theorem assignW_rel {v v' : Val N} (h : VR v v') : WRel (assignW v) (assignW v') :=
  fun _ _ _ => ⟨h, trivial⟩

theorem liftW_rel {f f' : Val N → VRes N (Val N)}
    (h : ∀ c c', VR c c' → VRel VR (f c) (f' c')) : WRel (liftW f) (liftW f') := by
  intro c c' hc
  have := h c c' hc
  unfold liftW Outcome.map
  exact this.bind fun a b hab => ⟨hab, trivial⟩

/-- `roll`'s closure -/
def popW : Writer N := fun v => (Val.pop v).bind fun (x, rest) => .ok (rest, some x)

theorem popW_rel : WRel (popW : Writer N) popW := by
  intro c c' hc
  have h := Val.pop_congr hc.1
  unfold popW
  cases h1 : Val.pop c <;> cases h2 : Val.pop c' <;> rw [h1, h2] at h <;>
    simp_all [VRel, Outcome.bind]
  rename_i p p'
  obtain ⟨x, rest⟩ := p
  obtain ⟨x', rest'⟩ := p'
  have w := Val.WF_pop hc.2 h1
  exact ⟨⟨h.2, w.2⟩, h.1, w.1⟩

theorem pushW_rel {vals vals' : List (Val N)} (h : All₂ VR vals vals') :
    WRel (liftW fun v => Val.push v vals) (liftW fun v => Val.push v vals') :=
  liftW_rel fun c c' hc =>
    VRel.with_wf (Val.push_congr hc.1 (all₂_vr_equiv h)) fun a ha => Val.WF_push hc.2 (all₂_vr_wf h) ha

theorem incW_rel (x : Int) : WRel (liftW fun v : Val N => Val.inc v x) (liftW fun v => Val.inc v x) :=
  liftW_rel fun c c' hc =>
    VRel.with_wf (Val.inc_congr x hc.1) fun a ha => Val.WF_of_not_arr (inc_scalar ha)

/-! ### ProduceVal -/

theorem mrel_evalIdent (i : Ident) : MRel (N := N) VR (evalIdent i) (evalIdent i) := by
  cases i
  · exact mrel_lookupVar _
  · exact mrel_lastAccess

theorem mrel_applyOp (op : BinOp) {a a' : Val N} (ha : VR a a') {b b' : M N (Val N)}
    (hb : MRel VR b b') : MRel VR (applyOp op a b) (applyOp op a' b') := by
  have htr := Val.isTruthy_congr ha.1
  cases op <;> simp only [applyOp]
  case plus =>
    refine hb.bind fun bv bv' hbv => mrel_get.bind fun env env' he => mrel_liftV ?_
    rw [he.2.2.2.2.2.2.2.2]
    exact vrel_of_eq_scalar (Val.plus_congr _ ha.1 hbv.1) fun _ h => plus_scalar h
  case minus =>
    exact hb.bind fun bv bv' hbv =>
      MRel.pure (vr_of_eq_scalar (Val.subtract_congr ha.1 hbv.1) (subtract_scalar _ _))
  case multiply =>
    refine hb.bind fun bv bv' hbv => mrel_get.bind fun env env' he => mrel_liftV ?_
    rw [he.2.2.2.2.2.2.2.2]
    exact vrel_of_eq_scalar (Val.multiply_congr _ ha.1 hbv.1) fun _ h => multiply_scalar h
  case divide =>
    exact hb.bind fun bv bv' hbv =>
      MRel.pure (vr_of_eq_scalar (Val.divide_congr ha.1 hbv.1) (divide_scalar _ _))
  case and =>
    rw [← htr]
    split
    · exact hb.bind fun bv bv' hbv =>
        MRel.pure (vr_of_eq_scalar (by rw [Val.isTruthy_congr hbv.1]) rfl)
    · exact MRel.pure (VR.scalar rfl)
  case or =>
    rw [← htr]
    split
    · exact MRel.pure (VR.scalar rfl)
    · exact hb.bind fun bv bv' hbv =>
        MRel.pure (vr_of_eq_scalar (by rw [Val.isTruthy_congr hbv.1]) rfl)
  case nor =>
    rw [← htr]
    split
    · exact MRel.pure (VR.scalar rfl)
    · exact hb.bind fun bv bv' hbv =>
        MRel.pure (vr_of_eq_scalar (by rw [Val.isTruthy_congr hbv.1]) rfl)
  case eq =>
    exact hb.bind fun bv bv' hbv =>
      MRel.pure (vr_of_eq_scalar (by rw [Val.equals_congr ha.1 hbv.1 hbv.2 (vr_wf' hbv)]) rfl)
  case notEq =>
    exact hb.bind fun bv bv' hbv =>
      MRel.pure (vr_of_eq_scalar (by rw [Val.equals_congr ha.1 hbv.1 hbv.2 (vr_wf' hbv)]) rfl)
  all_goals
    exact hb.bind fun bv bv' hbv => (mrel_liftV (Val.compare_congr ha.1 hbv.1)).bind
      fun r r' hr => MRel.pure (vr_of_eq_scalar (by rw [hr]) rfl)

theorem mrel_foldOp {rec : Rec N} (hrec : RecOK rec) (op : BinOp) (es : List (Expr N)) :
    ∀ {a a' : Val N}, VR a a' → MRel VR (foldOp rec op a es) (foldOp rec op a' es) := by
  induction es with
  | nil => intro a a' ha; exact MRel.pure ha
  | cons e es ih =>
    intro a a' ha
    simp only [foldOp]
    exact (mrel_applyOp op ha (hrec.evalExpr e)).bind fun x x' hx => ih hx

theorem mrel_evalArgs {rec : Rec N} (hrec : RecOK rec) (es : List (Expr N)) :
    MRel (All₂ VR) (evalArgs rec es) (evalArgs rec es) := by
  induction es with
  | nil => exact MRel.pure .nil
  | cons e es ih =>
    simp only [evalArgs]
    exact (hrec.evalExpr e).bind fun v v' hv => ih.bind fun vs vs' hvs => MRel.pure (.cons hv hvs)

theorem mrel_evalOpt {rec : Rec N} (hrec : RecOK rec) (e : Option (Expr N)) :
    MRel (OptRel VR) (evalOpt rec e) (evalOpt rec e) := by
  cases e with
  | none => exact MRel.pure trivial
  | some e => exact (hrec.evalExpr e).bind fun v v' hv => MRel.pure hv

theorem mrel_execStmts {rec : Rec N} (hrec : RecOK rec) (ss : List (Stmt N)) :
    ∀ {st st' : ExecSt N}, StRel st st' → MRel StRel (execStmts rec ss st) (execStmts rec ss st') := by
  induction ss with
  | nil => intro st st' h; exact MRel.pure h
  | cons s ss ih =>
    intro st st' h
    simp only [execStmts]
    refine (hrec.execStmt s st st' h).bind fun x x' hx => ?_
    rw [← hx.1]
    split
    · exact MRel.pure hx
    · exact ih hx

theorem zip_rel (ps : List VarName) : ∀ {vs vs' : List (Val N)}, All₂ VR vs vs' →
    All₂ (fun a b : VarName × Val N => a.1 = b.1 ∧ VR a.2 b.2) (ps.zip vs) (ps.zip vs') := by
  induction ps with
  | nil => intro vs vs' h; simp
  | cons p ps ih =>
    intro vs vs' h
    cases h with
    | nil => simp
    | cons hv h' => exact .cons ⟨rfl, hv⟩ (ih h')

theorem stRel_default : StRel ({} : ExecSt N) {} := ⟨rfl, trivial⟩

theorem mrel_callFunction {rec : Rec N} (hrec : RecOK rec) (name : VarName) (args : List (Expr N)) :
    MRel VR (callFunction rec name args) (callFunction rec name args) := by
  unfold callFunction
  refine mrel_get.bind fun env env' he => (mrel_liftE (lookupFuncIn_rel name he.1)).bind
    fun pb pb' hpb => ?_
  subst hpb
  obtain ⟨params, body⟩ := pb
  dsimp only
  split
  · exact mrel_fail_same _
  · refine (mrel_evalArgs hrec args).bind fun vals vals' hvals => mrel_tick.bind fun _ _ _ => ?_
    refine (mrel_pushFunctionScope (zip_rel params hvals)).bind fun _ _ _ => ?_
    refine (mrel_execStmts hrec body.stmts stRel_default).bind fun st st' hst => ?_
    refine mrel_popScope.bind fun _ _ _ => MRel.pure ?_
    have := hst.2
    cases h1 : st.ret <;> cases h2 : st'.ret <;> rw [h1, h2] at this <;> simp_all [OptRel]
    exact VR.scalar rfl

theorem mrel_evalPop {rec : Rec N} (hrec : RecOK rec) (arr : Primary N) :
    MRel VR (evalPop rec arr) (evalPop rec arr) := by
  unfold evalPop
  refine (hrec.writePrimary popW popW popW_rel arr).bind fun out out' hout => ?_
  obtain ⟨h1, h2⟩ := hout
  cases hr : out.res <;> cases hr' : out'.res <;> rw [hr, hr'] at h1 <;> simp only [ExRel] at h1
  · exact mrel_fail h1
  · cases hb : out.back <;> cases hb' : out'.back <;> rw [hb, hb'] at h2 <;> simp only [OptRel] at h2
    · exact mrel_crash _
    · exact MRel.pure h2

theorem mrel_index {a a' b b' : M N (Val N)} (ha : MRel VR a a') (hb : MRel VR b b') :
    MRel VR (do let x ← a; let y ← b; M.liftV (Val.index x y))
      (do let x ← a'; let y ← b'; M.liftV (Val.index x y)) :=
  ha.bind fun x x' hx => hb.bind fun y y' hy => mrel_liftV (index_rel hx hy)

theorem vr_evalLit (l : Lit N) : VR (evalLit l) (evalLit l) := VR.refl_of (Val.WF_evalLit l)

theorem mrel_evalPrimary {rec : Rec N} (hrec : RecOK rec) (p : Primary N) :
    MRel VR (Interp.evalPrimary rec p) (Interp.evalPrimary rec p) := by
  cases p with
  | lit l r => exact MRel.pure (vr_evalLit l)
  | ident i r => exact mrel_evalIdent i
  | sub arr idx => exact mrel_index (hrec.evalPrimary arr) (hrec.evalPrimary idx)
  | call name r args => exact mrel_callFunction hrec name args
  | pop arr => exact mrel_evalPop hrec arr

theorem mrel_evalExpr {rec : Rec N} (hrec : RecOK rec) (e : Expr N) :
    MRel VR (Interp.evalExpr rec e) (Interp.evalExpr rec e) := by
  cases e with
  | prim p => exact hrec.evalPrimary p
  | bin op l f r => exact (hrec.evalExpr l).bind fun lv lv' hl => mrel_foldOp hrec op (f :: r) hl
  | un op e =>
    refine (hrec.evalExpr e).bind fun v v' hv => ?_
    cases op
    · exact mrel_liftV (VRel.with_wf (Val.negate_congr hv.1) fun a ha => Val.WF_of_not_arr (negate_scalar ha))
    · exact MRel.pure (vr_of_eq_scalar (by rw [Val.isTruthy_congr hv.1]) rfl)

theorem mrel_evalLhs {rec : Rec N} (hrec : RecOK rec) (l : Lhs N) :
    MRel VR (evalLhs rec l) (evalLhs rec l) := by
  cases l with
  | ident i r => exact mrel_evalIdent i
  | sub arr idx => exact mrel_index (hrec.evalPrimary arr) (hrec.evalPrimary idx)

/-! ### WriteVal -/

theorem mrel_resolve (t : Target) :
    MRel (N := N) (fun p p' => p.1 = p'.1 ∧ VR p.2 p'.2) (resolve t) (resolve t) := by
  apply MRel.of_fields
  intro sc sc' last input handed rf out wb steps cap hs
  unfold resolve
  cases t with
  | var name =>
    have := lookupVarIn_rel name hs
    simp only
    cases h1 : lookupVarIn name sc <;> cases h2 : lookupVarIn name sc' <;>
      rw [h1, h2] at this <;> simp only [ExRel] at this
    · cases hs with
      | nil => exact ⟨rfl, envRel_mk .nil ..⟩
      | @cons s s' l l' hs1 hs' =>
        have hl := slookup_rel hs1 name.key
        simp only
        cases h3 : slookup name.key s <;> cases h4 : slookup name.key s' <;>
          rw [h3, h4] at hl <;> simp only [OptRel] at hl
        · exact ⟨⟨rfl, VR.scalar rfl⟩,
            envRel_mk (.cons (sset_rel hs1 _ (e := .var .undef) (e' := .var .undef) (VR.scalar rfl)) hs') ..⟩
        · exact ⟨by simp [ResRel, RtErr.Equiv], envRel_mk (.cons hs1 hs') ..⟩
    · exact ⟨⟨rfl, this⟩, envRel_mk hs ..⟩
  | pronoun =>
    cases last with
    | none => exact ⟨by simp [ResRel, RtErr.Equiv], envRel_mk hs ..⟩
    | some name =>
      have := lookupVarIn_rel name hs
      simp only
      cases h1 : lookupVarIn name sc <;> cases h2 : lookupVarIn name sc' <;>
        rw [h1, h2] at this <;> simp only [ExRel] at this
      · exact ⟨this, envRel_mk hs ..⟩
      · exact ⟨⟨rfl, this⟩, envRel_mk hs ..⟩

theorem wRel_writerRel {w w' : Writer N} (h : WRel w w') : Val.WriterRel (OptRel VR) w w' :=
  fun c c' hc wc => (h c c' ⟨hc, wc⟩).imp fun _ _ hp => ⟨hp.1.1, hp.2⟩

theorem wRel_wf {w w' : Writer N} (h : WRel w w') :
    ∀ c c' b, c.WF → w c = .ok (c', b) → c'.WF := by
  intro c c' b wc hw
  have := h c c ⟨Val.Equiv.refl c, wc⟩
  rw [hw] at this
  cases h2 : w' c <;> rw [h2] at this <;> simp only [VRel] at this
  exact this.1.2

theorem envRel_setScopes {e e' : Env N} (he : EnvRel e e') {sc sc' : List (Scope N)}
    (hs : All₂ ScopeRel sc sc') : EnvRel { e with scopes := sc } { e' with scopes := sc' } :=
  ⟨hs, he.2⟩

theorem mrel_writeCell {w w' : Writer N} (hw : WRel w w') (t : Target) {keys keys' : List (Val N)}
    (hk : All₂ VR keys keys') : MRel WOutRel (writeCell w t keys) (writeCell w' t keys') := by
  intro e e' he
  have hr := mrel_resolve t e e' he
  unfold writeCell
  rcases h1 : resolve t e with ⟨(⟨name, cur⟩ | x | s | _ | _), e1⟩ <;>
    rcases h2 : resolve t e' with ⟨(⟨name', cur'⟩ | x' | s' | _ | _), e1'⟩ <;>
    rw [h1, h2] at hr <;> obtain ⟨hres, henv⟩ := hr <;> simp only [ResRel] at hres
  · obtain ⟨hn, hcur⟩ := hres
    subst hn
    dsimp only at henv ⊢
    have hcap : e1.cap = e1'.cap := henv.2.2.2.2.2.2.2.2
    have hu : Val.UpdRel (OptRel VR) (Val.updateAt e1.cap w keys cur)
        (Val.updateAt e1'.cap w' keys' cur') := by
      rw [← hcap]
      exact Val.updateAt_congr e1.cap (wRel_writerRel hw) (all₂_vr_equiv hk) cur cur' hcur.1 hcur.2
    have hwf := Val.WF_updateAt e1.cap w (wRel_wf hw) keys cur hcur.2
    rcases hu1 : Val.updateAt e1.cap w keys cur with ⟨newVal, status⟩
    rcases hu2 : Val.updateAt e1'.cap w' keys' cur' with ⟨newVal', status'⟩
    rw [hu1, hu2] at hu
    rw [hu1] at hwf
    obtain ⟨hnv, hst⟩ := hu
    simp only at hnv hst hwf ⊢
    have henv' := envRel_setScopes henv (setVarIn_rel name ⟨hnv, hwf⟩ henv.1)
    cases status <;> cases status' <;> simp only [VRel] at hst
    · exact ⟨⟨trivial, hst⟩, henv'⟩
    · exact ⟨⟨RtErr.equiv_val.mpr hst, trivial⟩, henv'⟩
    · exact ⟨hst, henv'⟩
    · exact ⟨trivial, henv'⟩
    · exact ⟨trivial, henv'⟩
  · exact ⟨⟨hres, trivial⟩, henv⟩
  · exact ⟨hres, henv⟩
  · exact ⟨trivial, henv⟩
  · exact ⟨trivial, henv⟩

theorem wOutRel_notWritable : WOutRel (notWritable : WOut N) notWritable :=
  ⟨RtErr.Equiv.refl RtErr.notWritable, trivial⟩

theorem mrel_subscriptVal {rec : Rec N} (hrec : RecOK rec) (idx : Primary N) :
    MRel (ExRel VR) (subscriptVal rec idx) (subscriptVal rec idx) := by
  intro e e' he
  have h := hrec.evalPrimary idx e e' he
  unfold subscriptVal
  rcases h1 : rec.evalPrimary idx e with ⟨(a | x | s | _ | _), e1⟩ <;>
    rcases h2 : rec.evalPrimary idx e' with ⟨(a' | x' | s' | _ | _), e1'⟩ <;>
    rw [h1, h2] at h <;> obtain ⟨hres, henv⟩ := h <;> simp only [ResRel] at hres <;>
    exact ⟨hres, henv⟩

/-- the continuation after `subscript_val` shared by `writePrimary`, `writeSubscript`, `writeLhs` -/
theorem mrel_afterSubscript {rec : Rec N} (hrec : RecOK rec) (idx : Primary N)
    {next next' : Val N → M N (WOut N)} (hnext : ∀ v v', VR v v' → MRel WOutRel (next v) (next' v')) :
    MRel WOutRel
      (do match ← subscriptVal rec idx with
          | .error e => pure { res := .error e }
          | .ok kv => next kv)
      (do match ← subscriptVal rec idx with
          | .error e => pure { res := .error e }
          | .ok kv => next' kv) := by
  refine (mrel_subscriptVal hrec idx).bind fun r r' hr => ?_
  cases r <;> cases r' <;> simp only [ExRel] at hr
  · exact MRel.pure ⟨hr, trivial⟩
  · exact hnext _ _ hr

theorem mrel_writeSubscript {rec : Rec N} (hrec : RecOK rec) {w w' : Writer N} (hw : WRel w w')
    (p : Primary N) (keys : List (Val N)) : ∀ {keys' : List (Val N)}, All₂ VR keys keys' →
      MRel WOutRel (writeSubscript rec w p keys) (writeSubscript rec w' p keys') := by
  fun_induction writeSubscript rec w p keys with
  | case1 name r keys => intro keys' hk; simp only [writeSubscript]; exact mrel_writeCell hw _ hk
  | case2 r keys => intro keys' hk; simp only [writeSubscript]; exact mrel_writeCell hw _ hk
  | case3 arr idx keys ih =>
    intro keys' hk
    simp only [writeSubscript]
    exact mrel_afterSubscript hrec idx fun v v' hv => ih v (.cons hv hk)
  | case4 p keys h1 h2 h3 =>
    intro keys' hk
    rw [writeSubscript.eq_def]
    split
    · exact absurd rfl (h1 _ _)
    · exact absurd rfl (h2 _)
    · exact absurd rfl (h3 _ _)
    · exact MRel.pure wOutRel_notWritable

theorem mrel_writePrimary {rec : Rec N} (hrec : RecOK rec) {w w' : Writer N} (hw : WRel w w')
    (p : Primary N) : MRel WOutRel (Interp.writePrimary rec w p) (Interp.writePrimary rec w' p) := by
  cases p with
  | lit l r => exact MRel.pure wOutRel_notWritable
  | ident i r => cases i <;> simp only [Interp.writePrimary] <;> exact mrel_writeCell hw _ .nil
  | sub arr idx =>
    exact mrel_afterSubscript hrec idx fun v v' hv =>
      mrel_writeSubscript hrec hw arr [v] (.cons hv .nil)
  | call name r args => exact MRel.pure wOutRel_notWritable
  | pop arr => exact hrec.writePrimary w w' hw arr

theorem mrel_writeExpr {rec : Rec N} (hrec : RecOK rec) {w w' : Writer N} (hw : WRel w w')
    (e : Expr N) : MRel WOutRel (Interp.writeExpr rec w e) (Interp.writeExpr rec w' e) := by
  cases e with
  | prim p => exact hrec.writePrimary w w' hw p
  | bin op l f r => exact MRel.pure wOutRel_notWritable
  | un op e => exact MRel.pure wOutRel_notWritable

theorem mrel_writeIdent {w w' : Writer N} (hw : WRel w w') (i : Ident) :
    MRel WOutRel (writeIdent w i) (writeIdent w' i) := by
  cases i <;> simp only [writeIdent] <;> exact mrel_writeCell hw _ .nil

theorem mrel_writeLhs {rec : Rec N} (hrec : RecOK rec) {w w' : Writer N} (hw : WRel w w')
    (l : Lhs N) : MRel WOutRel (writeLhs rec w l) (writeLhs rec w' l) := by
  cases l with
  | ident i r => exact mrel_writeIdent hw i
  | sub arr idx =>
    exact mrel_afterSubscript hrec idx fun v v' hv =>
      mrel_writeSubscript hrec hw arr [v] (.cons hv .nil)

theorem mrel_fatal {o o' : M N (WOut N)} (h : MRel WOutRel o o') :
    MRel (fun _ _ => True) (fatal o) (fatal o') := by
  unfold fatal
  refine h.bind fun out out' hout => ?_
  obtain ⟨h1, -⟩ := hout
  cases hr : out.res <;> cases hr' : out'.res <;> rw [hr, hr'] at h1 <;> simp only [ExRel] at h1
  · exact mrel_fail h1
  · exact MRel.pure trivial

/-- `fatal (write …); pure st` -/
theorem mrel_writeThen {o o' : M N (WOut N)} (h : MRel WOutRel o o') {st st' : ExecSt N}
    (hst : StRel st st') :
    MRel StRel (do fatal o; pure st) (do fatal o'; pure st') :=
  (mrel_fatal h).bind fun _ _ _ => MRel.pure hst

/-! ### ExecStmt -/

theorem mrel_scoped {push push' : M N Unit} (hpush : MRel (fun _ _ => True) push push')
    {R : α → α' → Prop} {S : β → β' → Prop} {body : M N α} {body' : M N α'} (hbody : MRel R body body')
    {cont : α → M N β} {cont' : α' → M N β'} (hcont : ∀ a a', R a a' → MRel S (cont a) (cont' a')) :
    MRel S (push >>= fun _ => body >>= fun a => popScope >>= fun _ => cont a)
      (push' >>= fun _ => body' >>= fun a => popScope >>= fun _ => cont' a) :=
  hpush.bind fun _ _ _ => hbody.bind fun a a' ha => mrel_popScope.bind fun _ _ _ => hcont a a' ha

theorem mrel_loopGo {rec : Rec N} (hrec : RecOK rec) (invert : Bool) (cond : Expr N)
    (body : List (Stmt N)) (n : Nat) : ∀ {st st' : ExecSt N}, StRel st st' →
      MRel StRel (loopGo rec invert cond body n st) (loopGo rec invert cond body n st') := by
  induction n with
  | zero => intro st st' h; exact mrel_outOfResource
  | succ n ih =>
    intro st st' h
    simp only [loopGo]
    refine (hrec.evalExpr cond).bind fun c c' hc => ?_
    rw [← Val.isTruthy_congr hc.1]
    split
    · refine mrel_tick.bind fun _ _ _ => ?_
      refine mrel_scoped mrel_pushScope (mrel_execStmts hrec body h) fun x x' hx => ?_
      rw [← hx.1]
      split
      · exact ih hx
      · exact ih (And.intro rfl hx.2)
      · exact MRel.pure (R := StRel) (And.intro rfl hx.2)
      · exact MRel.pure hx
    · exact MRel.pure h

theorem mrel_execLoop {rec : Rec N} (hrec : RecOK rec) (invert : Bool) (cond : Expr N)
    (body : Block N) {st st' : ExecSt N} (h : StRel st st') :
    MRel StRel (execLoop rec invert cond body st) (execLoop rec invert cond body st') := by
  unfold execLoop
  refine mrel_get.bind fun env env' he => ?_
  rw [← he.2.2.2.2.2.2.2.1]
  exact mrel_loopGo hrec invert cond body.stmts _ h

theorem mrel_poetic (elems : List PoeticElem) {R : α → α' → Prop} {f : N → α} {f' : N → α'}
    (hf : ∀ n, R (f n) (f' n)) :
    MRel R
      (match (Poetic.computeValue elems : Outcome Unit N) with
        | .ok n => (pure (f n) : M N α)
        | .crash site => M.crash site
        | _ => M.crash .poeticLeadingSuffix)
      (match (Poetic.computeValue elems : Outcome Unit N) with
        | .ok n => (pure (f' n) : M N α')
        | .crash site => M.crash site
        | _ => M.crash .poeticLeadingSuffix) := by
  split
  · exact MRel.pure (hf _)
  · exact mrel_crash _
  · exact mrel_crash _

theorem mrel_execStmt {rec : Rec N} (hrec : RecOK rec) (s : Stmt N) {st st' : ExecSt N}
    (hst : StRel st st') : MRel StRel (Interp.execStmt rec s st) (Interp.execStmt rec s st') := by
  unfold Interp.execStmt
  refine mrel_tick.bind fun _ _ _ => ?_
  cases s with
  | assign dest op value =>
    dsimp only
    refine MRel.bind (R := VR) ?_ (fun nv nv' hnv =>
      mrel_writeThen (mrel_writeLhs hrec (assignW_rel hnv) dest) hst)
    cases op with
    | some o => exact (mrel_evalLhs hrec dest).bind fun l l' hl => mrel_foldOp hrec o _ hl
    | none =>
      dsimp only
      split
      · exact mrel_fail_same _
      · exact hrec.evalExpr _
  | poeticNum dest rhs =>
    dsimp only
    refine MRel.bind (R := VR) ?_ (fun nv nv' hnv =>
      mrel_writeThen (mrel_writeLhs hrec (assignW_rel hnv) dest) hst)
    cases rhs with
    | expr e => exact hrec.evalExpr e
    | lit elems => exact mrel_poetic elems fun n => VR.scalar rfl
  | poeticStr dest str =>
    exact mrel_writeThen (mrel_writeLhs hrec (assignW_rel (VR.scalar rfl)) dest) hst
  | ifS cond thenB elseB =>
    dsimp only
    refine (hrec.evalExpr cond).bind fun c c' hc => ?_
    rw [← Val.isTruthy_congr hc.1]
    refine mrel_scoped mrel_pushScope (R := StRel) ?_ (fun x x' hx => MRel.pure hx)
    split
    · exact mrel_execStmts hrec _ hst
    · split
      · exact mrel_execStmts hrec _ hst
      · exact MRel.pure hst
  | whileS cond body => exact mrel_execLoop hrec false cond body hst
  | untilS cond body => exact mrel_execLoop hrec true cond body hst
  | inc dest r amount => exact mrel_writeThen (mrel_writeIdent (incW_rel _) dest) hst
  | dec dest r amount => exact mrel_writeThen (mrel_writeIdent (incW_rel _) dest) hst
  | input dest loc =>
    dsimp only
    refine mrel_inputLine.bind fun line line' hline => ?_
    subst hline
    cases dest with
    | some d => exact mrel_writeThen (mrel_writeLhs hrec (assignW_rel (VR.scalar rfl)) d) hst
    | none => exact MRel.pure hst
  | output value =>
    dsimp only
    refine (hrec.evalExpr value).bind fun v v' hv => ?_
    rw [← Val.toOutput_congr hv.1]
    refine (mrel_liftV (R := Eq) (VRel.refl_of _ fun _ _ => rfl)).bind fun text text' ht => ?_
    subst ht
    exact (mrel_output text).bind fun _ _ _ => MRel.pure hst
  | mutation op operand dest param =>
    dsimp only
    refine (mrel_evalOpt hrec param).bind fun p p' hp => ?_
    cases dest with
    | some d =>
      dsimp only
      refine (hrec.evalPrimary operand).bind fun v v' hv => ?_
      refine (mrel_liftV (mutate_rel hv hp)).bind fun r r' hr => ?_
      exact mrel_writeThen (mrel_writeLhs hrec (assignW_rel hr) d) hst
    | none =>
      exact mrel_writeThen
        (hrec.writePrimary _ _ (liftW_rel fun c c' hc => mutate_rel hc hp) operand) hst
  | rounding dir operand =>
    exact mrel_writeThen
      (hrec.writeExpr _ _ (liftW_rel fun c c' hc => roundW_rel dir hc) operand) hst
  | continue_ r =>
    dsimp only
    rw [← hst.1]
    exact (mrel_assert _ _).bind fun _ _ _ => MRel.pure ⟨rfl, hst.2⟩
  | break_ r =>
    dsimp only
    rw [← hst.1]
    exact (mrel_assert _ _).bind fun _ _ _ => MRel.pure ⟨rfl, hst.2⟩
  | push arr value =>
    dsimp only
    refine MRel.bind (R := All₂ VR) ?_ (fun vals vals' hvals =>
      mrel_writeThen (hrec.writePrimary _ _ (pushW_rel hvals) arr) hst)
    cases value with
    | none => exact MRel.pure .nil
    | some rhs =>
      cases rhs with
      | list l => exact mrel_evalArgs hrec _
      | lit elems =>
        dsimp only
        exact mrel_poetic elems fun n => All₂.cons (VR.scalar rfl) All₂.nil
  | pop arr dest =>
    dsimp only
    refine (mrel_evalPop hrec arr).bind fun back back' hback => ?_
    cases dest with
    | some d => exact mrel_writeThen (mrel_writeLhs hrec (assignW_rel hback) d) hst
    | none => exact MRel.pure hst
  | ret value =>
    dsimp only
    have hret : st.ret.isNone = st'.ret.isNone := by
      have := hst.2
      cases h1 : st.ret <;> cases h2 : st'.ret <;> rw [h1, h2] at this <;> simp_all [OptRel]
    rw [← hret, ← hst.1]
    refine (mrel_assert _ _).bind fun _ _ _ => (hrec.evalExpr value).bind fun v v' hv => ?_
    exact (mrel_assert _ _).bind fun _ _ _ => MRel.pure ⟨rfl, hv⟩
  | func name r params body =>
    exact (mrel_createFunc name _ body).bind fun _ _ _ => MRel.pure hst
  | call name r args =>
    exact (mrel_callFunction hrec name args).bind fun _ _ _ => MRel.pure hst

/-! ### tying the knot -/

theorem recOK_bottom : RecOK (bottom : Rec N) where
  evalExpr _ := mrel_outOfFuel
  evalPrimary _ := mrel_outOfFuel
  writeExpr _ _ _ _ := mrel_outOfFuel
  writePrimary _ _ _ _ := mrel_outOfFuel
  execStmt _ _ _ _ := mrel_outOfFuel

theorem recOK_mkRec {rec : Rec N} (h : RecOK rec) : RecOK (mkRec rec) where
  evalExpr e := mrel_evalExpr h e
  evalPrimary p := mrel_evalPrimary h p
  writeExpr w w' hw e := mrel_writeExpr h hw e
  writePrimary w w' hw p := mrel_writePrimary h hw p
  execStmt s st st' hst := mrel_execStmt h s hst

theorem recOK_interp (n : Nat) : RecOK (interp n : Rec N) := by
  induction n with
  | zero => exact recOK_bottom
  | succ n ih => exact recOK_mkRec ih

theorem mrel_execBlocks {rec : Rec N} (hrec : RecOK rec) (bs : List (Block N)) :
    ∀ {st st' : ExecSt N}, StRel st st' → MRel StRel (execBlocks rec bs st) (execBlocks rec bs st') := by
  induction bs with
  | nil => intro st st' h; exact MRel.pure h
  | cons b bs ih =>
    intro st st' h
    simp only [execBlocks]
    refine (mrel_execStmts hrec b.stmts h).bind fun x x' hx => ?_
    rw [← hx.1]
    split
    · exact MRel.pure hx
    · exact ih hx

/-- The whole program: related environments give related outcomes and final environments. -/
theorem mrel_execProgram (fuel : Nat) (p : Program N) :
    MRel (fun _ _ => True) (execProgram fuel p) (execProgram fuel p) := by
  unfold execProgram
  exact (mrel_execBlocks (recOK_interp fuel) p.code stRel_default).bind fun _ _ _ => MRel.pure trivial

/-! ### what a run shows to the outside -/

/-- What the outside world sees of a run: the bytes written, and how it ended — success, the
    class name and message of the error, the crash site, or an exhausted model budget. -/
def observe (r : Outcome (RtErr N) Unit × Env N) : List UInt8 × Outcome (Str × Str) Unit :=
  (r.2.out,
   match r.1 with
   | .ok _ => .ok ()
   | .err x => .err (x.className, x.render)
   | .crash s => .crash s
   | .fuel => .fuel
   | .resource => .resource)

theorem observe_eq_of_orel {r r' : Outcome (RtErr N) Unit × Env N}
    (h : ORel (fun _ _ => True) r r') : observe r = observe r' := by
  obtain ⟨o, e⟩ := r
  obtain ⟨o', e'⟩ := r'
  obtain ⟨h1, h2⟩ := h
  have hout : e.out = e'.out := h2.2.2.2.2.2.1
  cases o <;> cases o' <;> simp only [ResRel] at h1 <;> simp only [observe, hout]
  · rw [RtErr.className_congr h1, RtErr.render_congr h1]
  · rw [h1]

/-- a well-formed environment: every scope has distinct keys, every variable holds a value with
    distinct keys in every dictionary -/
def EnvWF (e : Env N) : Prop :=
  ∀ s ∈ e.scopes, (s.map Prod.fst).Nodup ∧ ∀ b ∈ s, ∀ v, b.2 = Entry.var v → v.WF

theorem entryRel_refl_iff (x : Entry N) : EntryRel x x ↔ ∀ v, x = .var v → v.WF := by
  cases x with
  | var v => simp [EntryRel, VR, Val.Equiv.refl]
  | func ps b => simp [EntryRel]

/-- `EnvRel` is reflexive exactly on the well-formed environments -/
theorem envRel_refl_iff (e : Env N) : EnvRel e e ↔ EnvWF e := by
  constructor
  · intro h s hs
    obtain ⟨s', hs', hn, s'', hp, ha⟩ := h.1.exists_of_mem_left hs
    refine ⟨hn, fun b hb v hv => ?_⟩
    obtain ⟨b', _, hk, hr⟩ := ha.exists_of_mem_left hb
    rw [hv] at hr
    cases hb' : b'.2 <;> rw [hb'] at hr <;> simp only [EntryRel] at hr
    exact hr.2
  · intro h
    refine ⟨All₂.refl_of _ fun s hs => ⟨(h s hs).1, s, .refl _, All₂.refl_of _ fun b hb => ⟨rfl, ?_⟩⟩,
      rfl, rfl, rfl, rfl, rfl, rfl, rfl, rfl⟩
    exact (entryRel_refl_iff _).mpr ((h s hs).2 b hb)

/-! ### a concrete instance (for the non-vacuity examples of C10) -/

/-- `x = [|"a" = 1, "b" = 2]`, `y = 5`, listed in this order … -/
def exEnvA : Env Int :=
  { scopes := [[(.simple str% "x", .var (.arr [] [(.str str% "a", .num 1), (.str str% "b", .num 2)])),
                (.simple str% "y", .var (.num 5))]] }

/-- … and with the symbol table and the dictionary both listed the other way round -/
def exEnvB : Env Int :=
  { scopes := [[(.simple str% "y", .var (.num 5)),
                (.simple str% "x", .var (.arr [] [(.str str% "b", .num 2), (.str str% "a", .num 1)]))]] }

/-- `say X at "a"`, `say y`, `say X is X` -/
def exProg : Program Int :=
  ⟨[.mk ⟨1, 1⟩
      [.output (.prim (.sub (.ident (.var (.simple str% "X")) default) (.lit (.str str% "a") default))),
       .output (.prim (.ident (.var (.simple str% "y")) default)),
       .output (.bin .eq (.prim (.ident (.var (.simple str% "X")) default))
          (.prim (.ident (.var (.simple str% "x")) default)) [])]]⟩

theorem exEnv_rel : EnvRel exEnvA exEnvB := by
  refine ⟨.cons ⟨by decide, _, List.Perm.swap _ _ _, .cons ⟨rfl, ?_⟩ (.cons ⟨rfl, ?_⟩ .nil)⟩ .nil,
    rfl, rfl, rfl, rfl, rfl, rfl, rfl, rfl⟩
  · exact ⟨Val.equiv_of_perm (List.Perm.swap _ _ _), by simp [Val.WF, Val.WFList, Val.WFDict]⟩
  · exact VR.scalar rfl

end
end C10
end Rrss
