/-
  Rrss.Lemmas.LexerScan — one lemma per scanner of the lexer model: under the scanner context
  `Ctx` (source = consumed prefix ++ start char ++ unconsumed rest, line state belongs to the
  prefix, source shorter than 4 GiB) no scanner crashes, and its result satisfies `ResOK`
  (token and staged token are exact slices at the right place with the true positions, the
  returned line bookkeeping belongs to the consumed text).
-/
import Rrss.Lemmas.LexerBytes
namespace Rrss
namespace Lexer
open Spec

set_option linter.unusedSectionVars false

variable {N : Type}

section
variable [CharOps]

/-! ### predicates -/

/-- what the payload fields of a token are, depending on its kind; the first alternative covers
    kinds taken from the keyword table (which is a parameter and could contain any kind) -/
def PayloadOK [NumOps N] (kw : List (Str × TK)) (t : Tok N) : Prop :=
  (∃ w, (w, t.kind) ∈ kw) ∨
  ((t.kind = .newline → t.spelling = ['\n']) ∧
   (t.kind = .number → t.num = NumOps.parse t.spelling ∧ t.num.isSome = true) ∧
   (t.kind = .stringLit → t.spelling = '"' :: (t.text ++ ['"'])) ∧
   (t.kind = .comment → t.spelling = '(' :: (t.text ++ [')'])))

/-- the raw range the lexer computes for a one-line span -/
def rawRange (l ls lo len : Nat) : Range := ⟨⟨l, lo - ls⟩, ⟨l, lo + len - ls⟩⟩

/-- token `t` is the slice of the source right after the prefix `p`, with its true position -/
structure TokAt [NumOps N] (kw : List (Str × TK)) (p : Str) (t : Tok N) : Prop where
  start_eq : t.start = ulen p
  ne : t.spelling ≠ []
  range_eq : NlWs → t.range = ⟨locOf p,
    if t.spelling = ['\n'] then ⟨(locOf p).line, (locOf p).col + 1⟩ else locOf (p ++ t.spelling)⟩
  nl_kind : t.spelling = ['\n'] → t.kind = .newline
  payload : PayloadOK kw t

/-- scanner context: `st` is the state right after `find_word_start` consumed the start
    character `c`; `pre` is the source text before `c` -/
structure Ctx (st : LexState N) (pre : Str) (c : Char) : Prop where
  src_eq : st.src = pre ++ c :: st.rest
  pos_eq : st.pos = ulen pre + c.utf8Size
  line : LineOK st.line st.lineStart pre
  small : ulen st.src < 4294967296

/-- a scanner result is correct relative to the text `pre` before the token -/
def ResOK [NumOps N] (kw : List (Str × TK)) (st : LexState N) (pre : Str) (r : LexResult N) :
    Prop :=
  ∃ gap ssp post,
    st.src = pre ++ r.token.spelling ++ gap ++ ssp ++ post ∧
    r.stop = ulen pre + ulen r.token.spelling + ulen gap + ulen ssp ∧
    TokAt kw pre r.token ∧
    (∀ x ∈ gap, x = '\'') ∧
    LineOK (st.line + r.newlines) (r.newLineStart.getD st.lineStart)
      (pre ++ r.token.spelling ++ gap) ∧
    NoNl ssp ∧
    (match r.staged with
     | none => ssp = []
     | some s => s.spelling = ssp ∧ TokAt kw (pre ++ r.token.spelling ++ gap) s)

/-! ### basic building blocks -/

theorem sub_ok {st : LexState N} {pre mid post : Str} {lo hi : Nat}
    (h : st.src = pre ++ mid ++ post) (hlo : lo = ulen pre) (hhi : hi = ulen pre + ulen mid) :
    sub st lo hi = .ok mid := by
  simp [sub, substr_mid' h hlo hhi]

theorem rawRange_loc {l ls : Nat} {p sp : Str} (h : LineOK l ls p) (hn : NlWs) (hsp : NoNl sp) :
    rawRange l ls (ulen p) (ulen sp) = ⟨locOf p, locOf (p ++ sp)⟩ := by
  have h2 := (h.append hsp).loc hn
  have h1 := h.loc hn
  simp only [ulen_append] at h2
  simp [rawRange, h1, h2]

theorem makeRange_ok {st : LexState N} {pre mid post : Str} {lo hi : Nat}
    (h : st.src = pre ++ mid ++ post) (hlo : lo = ulen pre) (hhi : hi = ulen pre + ulen mid)
    (hl : st.lineStart ≤ ulen pre) (hsmall : ulen st.src < 4294967296) :
    makeRange st lo hi = .ok (rawRange st.line st.lineStart (ulen pre) (ulen mid)) := by
  have hlen : ulen st.src = ulen pre + ulen mid + ulen post := by rw [h]; simp [Nat.add_assoc]
  subst hlo hhi
  simp only [makeRange, substr_mid' h rfl rfl, makeLoc]
  rw [makeLocFrom_ok (by omega) hl, makeLocFrom_ok (by omega) (by omega)]
  simp only [Outcome.bind_ok, Loc.to, rawRange]
  rw [Range_new_same_line _ _ _ (by omega)]

theorem makeTokenFrom_ok {st : LexState N} {pre mid post : Str} {lo len : Nat}
    (kind : TK) (err : Option LexErr)
    (h : st.src = pre ++ mid ++ post) (hlo : lo = ulen pre) (hlen : len = ulen mid)
    (hl : st.lineStart ≤ ulen pre) (hsmall : ulen st.src < 4294967296) :
    makeTokenFrom st lo len kind err =
      .ok { kind := kind, spelling := mid, start := lo,
            range := rawRange st.line st.lineStart (ulen pre) (ulen mid), lexErr := err } := by
  simp only [makeTokenFrom]
  rw [sub_ok h hlo (by omega), makeRange_ok h hlo (by omega) hl hsmall]
  simp

theorem PayloadOK.plain [NumOps N] {kw : List (Str × TK)} {t : Tok N}
    (h1 : t.kind ≠ .newline) (h2 : t.kind ≠ .number) (h3 : t.kind ≠ .stringLit)
    (h4 : t.kind ≠ .comment) : PayloadOK kw t :=
  Or.inr ⟨fun h => absurd h h1, fun h => absurd h h2, fun h => absurd h h3, fun h => absurd h h4⟩

/-- a one-line token built with the raw range is `TokAt` -/
theorem TokAt.of_raw [NumOps N] {kw : List (Str × TK)} {l ls : Nat} {p : Str} {t : Tok N}
    (hl : LineOK l ls p) (hstart : t.start = ulen p) (hne : t.spelling ≠ [])
    (hnn : t.spelling ≠ ['\n']) (hno : NoNl t.spelling)
    (hr : t.range = rawRange l ls (ulen p) (ulen t.spelling)) (hp : PayloadOK kw t) :
    TokAt kw p t where
  start_eq := hstart
  ne := hne
  range_eq := fun hn => by rw [hr, rawRange_loc hl hn hno, if_neg hnn]
  nl_kind := fun h => absurd h hnn
  payload := hp

/-! ### scan_for_text, the apostrophe suffix -/

theorem scanForText_spec [NumOps N] (kw : List (Str × TK)) {st : LexState N} {p post text : Str}
    {start : Nat} (kind : TK)
    (h : st.src = p ++ post) (hstart : start = ulen p) (hl : LineOK st.line st.lineStart p)
    (hsmall : ulen st.src < 4294967296) (hne : text ≠ []) (hno : ∀ x ∈ text, x ≠ '\n')
    (hascii : ∀ x ∈ text, x.toNat < 128)
    (h1 : kind ≠ .newline) (h2 : kind ≠ .number) (h3 : kind ≠ .stringLit) (h4 : kind ≠ .comment) :
    scanForText st start text kind = .ok none ∨
    ∃ tok post', scanForText st start text kind =
        .ok (some { token := tok, stop := start + ulen text, newlines := 0, newLineStart := none }) ∧
      post = tok.spelling ++ post' ∧ ulen tok.spelling = ulen text ∧
      tok.spelling.map toAsciiLower = text.map toAsciiLower ∧
      (∀ x ∈ tok.spelling, x ≠ '\n') ∧ tok.kind = kind ∧ TokAt kw p tok := by
  have hsub : sub st start (ulen st.src) = .ok post :=
    sub_ok (pre := p) (mid := post) (post := []) (by simp [h]) hstart (by rw [h]; simp)
  simp only [scanForText, hsub, Outcome.bind_ok]
  cases hsp : startsWithIgnoreAsciiCase text post with
  | false => left; rfl
  | true =>
    right
    obtain ⟨sp, r, hpost, hu, hlen, hci⟩ := startsWithIgnoreAsciiCase_spec hsp hascii
    have hnosp := ne_nl_of_map_toAsciiLower_eq hci hno
    have hmk := makeTokenFrom_ok (st := st) (pre := p) (mid := sp) (post := r) kind none
      (by rw [h, hpost]; simp) hstart hu.symm hl.le hsmall
    simp only [hmk, Outcome.bind_ok]
    refine ⟨_, r, rfl, hpost, hu, hci, hnosp, rfl, ?_⟩
    have hne' : sp ≠ [] := by
      intro he; subst he
      cases text with
      | nil => exact hne rfl
      | cons d ds => simp at hlen
    have hnn : sp ≠ ['\n'] := fun he => hnosp '\n' (by simp [he]) rfl
    exact TokAt.of_raw hl hstart hne' hnn (NoNl_of_forall hnosp) (by simp)
      (PayloadOK.plain h1 h2 h3 h4)

theorem scanApostropheSuffix_spec [NumOps N] (kw : List (Str × TK)) {st : LexState N}
    {p post : Str} {start : Nat}
    (h : st.src = p ++ post) (hstart : start = ulen p) (hl : LineOK st.line st.lineStart p)
    (hsmall : ulen st.src < 4294967296) :
    scanApostropheSuffix st start = .ok none ∨
    ∃ tok post', scanApostropheSuffix st start =
        .ok (some { token := tok, stop := start + ulen tok.spelling, newlines := 0,
                    newLineStart := none }) ∧
      post = tok.spelling ++ post' ∧ (∀ x ∈ tok.spelling, x ≠ '\n') ∧ TokAt kw p tok := by
  unfold scanApostropheSuffix
  rcases scanForText_spec kw (text := str% "'s") .apostropheS h hstart hl hsmall (by simp)
      (by decide) (by decide) (by decide) (by decide) (by decide) (by decide) with
    h1 | ⟨tok, post', h1, h2, h3, _, h4, _, h5⟩
  · rw [h1]; simp only [Outcome.bind_ok]
    rcases scanForText_spec kw (text := str% "'re") .apostropheRE h hstart hl hsmall (by simp)
        (by decide) (by decide) (by decide) (by decide) (by decide) (by decide) with
      h1 | ⟨tok, post', h1, h2, h3, _, h4, _, h5⟩
    · left; exact h1
    · right; refine ⟨tok, post', ?_, h2, h4, h5⟩
      rw [h1, h3]
  · right; refine ⟨tok, post', ?_, h2, h4, h5⟩
    rw [h1, h3]; rfl

theorem maybeFollowed_spec [NumOps N] (kw : List (Str × TK)) {st : LexState N} {pre post : Str}
    {r : LexResult N}
    (h : st.src = pre ++ r.token.spelling ++ post)
    (hstop : r.stop = ulen pre + ulen r.token.spelling)
    (ht : TokAt kw pre r.token)
    (hl : LineOK (st.line + r.newlines) (r.newLineStart.getD st.lineStart)
      (pre ++ r.token.spelling))
    (hst : r.staged = none) (hsmall : ulen st.src < 4294967296) :
    ∃ r', maybeFollowedByApostropheSuffix st r = .ok r' ∧ ResOK kw st pre r' := by
  unfold maybeFollowedByApostropheSuffix
  rcases scanApostropheSuffix_spec kw
      (st := { st with line := st.line + r.newlines,
                       lineStart := r.newLineStart.getD st.lineStart })
      (p := pre ++ r.token.spelling) (post := post) (start := r.stop)
      h (by rw [hstop]; simp) hl hsmall with h1 | ⟨tok, post', h1, h2, h3, h4⟩
  · simp only [h1, Outcome.bind_ok]
    refine ⟨r, rfl, [], [], post, by simpa using h, by simpa using hstop, ht, by simp,
      by simpa using hl, NoNl_nil, ?_⟩
    rw [hst]
  · simp only [h1, Outcome.bind_ok]
    refine ⟨_, rfl, [], tok.spelling, post', ?_, ?_, ht, by simp, ?_, NoNl_of_forall h3, ?_⟩
    · simp [h, h2]
    · simp [hstop]
    · simpa using hl
    · exact ⟨rfl, by simpa using h4⟩

/-! ### char_token, two_char_token -/

theorem ResOK.simple [NumOps N] {kw : List (Str × TK)} {st : LexState N} {pre post : Str}
    {r : LexResult N}
    (h : st.src = pre ++ r.token.spelling ++ post)
    (hstop : r.stop = ulen pre + ulen r.token.spelling)
    (ht : TokAt kw pre r.token)
    (hl : LineOK (st.line + r.newlines) (r.newLineStart.getD st.lineStart)
      (pre ++ r.token.spelling))
    (hst : r.staged = none) : ResOK kw st pre r := by
  refine ⟨[], [], post, by simpa using h, by simpa using hstop, ht, by simp, by simpa using hl,
    NoNl_nil, ?_⟩
  rw [hst]

theorem charToken_spec [NumOps N] (kw : List (Str × TK)) {st : LexState N} {pre : Str} {c : Char}
    (kind : TK) (hc : Ctx st pre c) (hsz : c.utf8Size = 1) (hk : kind = .newline ↔ c = '\n')
    (h2 : kind ≠ .number) (h3 : kind ≠ .stringLit) (h4 : kind ≠ .comment) :
    ∃ r, charToken st kind (ulen pre) = .ok r ∧ ResOK kw st pre r := by
  have hsrc : st.src = pre ++ [c] ++ st.rest := by rw [hc.src_eq]; simp
  have hmk := makeTokenFrom_ok (st := st) (pre := pre) (mid := [c]) (post := st.rest) (lo := ulen pre) (len := 1) kind none
    hsrc rfl (by simp [hsz]) hc.line.le hc.small
  simp only [charToken, hmk, Outcome.bind_ok]
  by_cases hkn : kind = .newline
  · have hcn : c = '\n' := hk.mp hkn
    subst hcn
    rw [if_pos hkn]
    refine ⟨_, rfl, ResOK.simple (post := st.rest) hsrc (by simp [hsz]) ?_ ?_ rfl⟩
    · refine ⟨rfl, by simp, fun hn => ?_, fun _ => hkn, Or.inr ⟨fun _ => rfl, fun h => absurd h h2,
        fun h => absurd h h3, fun h => absurd h h4⟩⟩
      have h1 := hc.line.loc hn
      have hle := hc.line.le
      simp only [rawRange, if_true, ← h1, ulen_cons, ulen_nil, hsz]
      congr 2; omega
    · simpa using hc.line.newline
  · have hcn : c ≠ '\n' := fun h => hkn (hk.mpr h)
    rw [if_neg hkn]
    refine ⟨_, rfl, ResOK.simple (post := st.rest) hsrc (by simp [hsz]) ?_ ?_ rfl⟩
    · exact TokAt.of_raw hc.line rfl (by simp) (by simpa using hcn)
        (NoNl_of_forall (by simpa using hcn)) rfl (PayloadOK.plain hkn h2 h3 h4)
    · simpa using hc.line.append (NoNl_of_forall (q := [c]) (by simpa using hcn))

theorem twoCharToken_spec [NumOps N] (kw : List (Str × TK)) {st : LexState N} {pre : Str}
    {c : Char} (kind : TK) (hc : Ctx st pre c) (hsz : c.utf8Size = 1) (hcn : c ≠ '\n')
    (hnext : nextChar st = some '=')
    (h1 : kind ≠ .newline) (h2 : kind ≠ .number) (h3 : kind ≠ .stringLit) (h4 : kind ≠ .comment) :
    ∃ r, twoCharToken st kind (ulen pre) = .ok r ∧ ResOK kw st pre r := by
  obtain ⟨rest', hrest⟩ : ∃ rest', st.rest = '=' :: rest' := by
    unfold nextChar at hnext
    cases hr : st.rest with
    | nil => simp [hr] at hnext
    | cons d ds => simp [hr] at hnext; exact ⟨ds, by rw [hnext]⟩
  have hsrc : st.src = pre ++ [c, '='] ++ rest' := by rw [hc.src_eq, hrest]; simp
  have hsz2 : '='.utf8Size = 1 := by decide
  have hmk := makeTokenFrom_ok (st := st) (pre := pre) (mid := [c, '=']) (post := rest') (lo := ulen pre) (len := 2) kind none
    hsrc rfl (by simp [hsz, hsz2]) hc.line.le hc.small
  have hno : ∀ x ∈ [c, '='], x ≠ '\n' := by
    intro x hx; simp at hx; rcases hx with rfl | rfl
    · exact hcn
    · decide
  simp only [twoCharToken, hmk, Outcome.bind_ok]
  refine ⟨_, rfl, ResOK.simple (post := rest') hsrc (by simp [hsz, hsz2]) ?_ ?_ rfl⟩
  · exact TokAt.of_raw hc.line rfl (by simp) (by simp)
      (NoNl_of_forall hno) rfl (PayloadOK.plain h1 h2 h3 h4)
  · simpa using hc.line.append (NoNl_of_forall hno)

/-! ### word spans: make_error_token, scan_keyword, scan_number -/

theorem Ctx.ulen_src {st : LexState N} {pre : Str} {c : Char} (hc : Ctx st pre c) :
    ulen st.src = st.pos + ulen st.rest := by
  rw [hc.src_eq, hc.pos_eq]; simp [Nat.add_assoc]

/-- a `find_next_index` search from the scanner context -/
theorem Ctx.find {st : LexState N} {pre : Str} {c : Char} (hc : Ctx st pre c) (p : Char → Bool) :
    ∃ a b, st.rest = a ++ b ∧ (∀ x ∈ a, p x = false) ∧
      findNextIndex p (ulen st.src) st.rest st.pos = ulen pre + ulen (c :: a) ∧
      st.src = pre ++ (c :: a) ++ b := by
  obtain ⟨a, b, h1, h2, _, h4⟩ := findNextIndex_spec p (ulen st.src) st.rest st.pos hc.ulen_src
  refine ⟨a, b, h1, h2, ?_, ?_⟩
  · rw [h4, hc.pos_eq]; simp [Nat.add_assoc]
  · rw [hc.src_eq, h1]; simp

theorem NoNl_of_notWordEnd {a : Str} (h : ∀ x ∈ a, isWordEnd x = false) : NoNl a := by
  intro hn x hx hx'
  subst hx'
  have := h _ hx
  simp [isWordEnd, show CharOps.isWhitespace '\n' = true from hn] at this

theorem makeErrorToken_spec [NumOps N] (kw : List (Str × TK)) {st : LexState N} {pre : Str}
    {c : Char} (err : LexErr) (hc : Ctx st pre c) (hcn : c ≠ '\n') :
    ∃ r, makeErrorToken st (ulen pre) err = .ok r ∧ ResOK kw st pre r := by
  obtain ⟨a, b, _, ha, hstop, hsrc⟩ := hc.find isWordEnd
  have hno : NoNl (c :: a) := NoNl_cons hcn (NoNl_of_notWordEnd ha)
  unfold makeErrorToken findNextWordEnd
  simp only [hstop]
  rw [usub_ok (by omega)]
  have hmk := makeTokenFrom_ok (st := st) (pre := pre) (mid := c :: a) (post := b)
    (lo := ulen pre) (len := ulen pre + ulen (c :: a) - ulen pre) .error (some err)
    hsrc rfl (by omega) hc.line.le hc.small
  simp only [Outcome.bind_ok, hmk]
  refine ⟨_, rfl, ResOK.simple (post := b) hsrc rfl ?_ ?_ rfl⟩
  · exact TokAt.of_raw hc.line rfl (by simp) (by simp [hcn]) hno rfl
      (PayloadOK.plain (by simp) (by simp) (by simp) (by simp))
  · simpa using hc.line.append hno

theorem scanKeyword_spec [NumOps N] (kw : List (Str × TK)) {st : LexState N} {pre : Str}
    {c : Char} (hc : Ctx st pre c) (hcn : c ≠ '\n') :
    scanKeyword kw st (ulen pre) = .ok none ∨
    ∃ r, scanKeyword kw st (ulen pre) = .ok (some r) ∧ ResOK kw st pre r := by
  obtain ⟨a, b, _, ha, hstop, hsrc⟩ := hc.find isWordEnd
  have hno : NoNl (c :: a) := NoNl_cons hcn (NoNl_of_notWordEnd ha)
  unfold scanKeyword findNextWordEnd
  simp only [hstop]
  rw [sub_ok hsrc rfl rfl]
  simp only [Outcome.bind_ok]
  cases hk : matchKeyword kw (c :: a) with
  | none => left; rfl
  | some kind =>
    right
    rw [makeRange_ok hsrc rfl rfl hc.line.le hc.small]
    simp only [Outcome.bind_ok]
    refine ⟨_, rfl, ResOK.simple (post := b) hsrc rfl ?_ ?_ rfl⟩
    · exact TokAt.of_raw hc.line rfl (by simp [plainTok]) (by simp [plainTok, hcn])
        (by simpa [plainTok] using hno) rfl
        (Or.inl ⟨_, lookup_mem (show kw.lookup (CharOps.lower (c :: a)) = some kind from hk)⟩)
    · simpa [plainTok] using hc.line.append hno

theorem scanNumber_spec [NumOps N] (kw : List (Str × TK)) {st : LexState N} {pre : Str}
    {c : Char} (hc : Ctx st pre c) (hcn : c ≠ '\n') :
    scanNumber st (ulen pre) = .ok none ∨
    ∃ r, scanNumber st (ulen pre) = .ok (some r) ∧ ResOK kw st pre r := by
  obtain ⟨a, b, _, ha, hstop, hsrc⟩ := hc.find (fun c => !(isAsciiAlnum c || c == '.'))
  have hno : ∀ x ∈ c :: a, x ≠ '\n' := by
    intro x hx hx'
    rcases List.mem_cons.mp hx with rfl | hx
    · exact hcn hx'
    · subst hx'; have := ha _ hx; revert this; decide
  unfold scanNumber
  simp only [hstop]
  rw [sub_ok hsrc rfl rfl]
  simp only [Outcome.bind_ok]
  cases hp : (NumOps.parse (c :: a) : Option N) with
  | none => left; rfl
  | some n =>
    right
    rw [makeRange_ok hsrc rfl rfl hc.line.le hc.small]
    simp only [Outcome.bind_ok]
    obtain ⟨r', hr', hok⟩ := maybeFollowed_spec kw (st := st) (pre := pre) (post := b)
      (r := { token := { kind := .number, spelling := c :: a, start := ulen pre,
                         range := rawRange st.line st.lineStart (ulen pre) (ulen (c :: a)),
                         num := some n }
              stop := ulen pre + ulen (c :: a), newlines := 0, newLineStart := none })
      hsrc rfl
      (TokAt.of_raw hc.line rfl (by simp) (by simp [hcn]) (NoNl_of_forall hno) rfl
        (Or.inr ⟨by simp, fun _ => ⟨hp.symm, rfl⟩, by simp, by simp⟩))
      (by simpa using hc.line.append (NoNl_of_forall hno)) rfl hc.small
    rw [hr']
    exact ⟨r', rfl, hok⟩

/-! ### tokenize_word, scan_word -/

theorem findWordType_ok (kw : List (Str × TK)) {word : Str} (h : word ≠ []) :
    findWordType kw word = .ok ((matchKeyword kw word).getD .word) := by
  cases word with
  | nil => exact absurd rfl h
  | cons c cs => simp [findWordType]

theorem payload_wordType [NumOps N] {kw : List (Str × TK)} {t : Tok N} {w : Str}
    (h : t.kind = (matchKeyword kw w).getD .word) : PayloadOK kw t := by
  cases hk : matchKeyword kw w with
  | none =>
    rw [hk] at h
    exact PayloadOK.plain (by simp [h]) (by simp [h]) (by simp [h]) (by simp [h])
  | some k =>
    rw [hk] at h
    exact Or.inl ⟨_, lookup_mem (show kw.lookup (CharOps.lower w) = some t.kind by
      rw [h]; exact hk)⟩

theorem head_of_append {s t a : Str} {c : Char} (hs : s ≠ []) (h : s ++ t = c :: a) :
    ∃ s', s = c :: s' := by
  cases s with
  | nil => exact absurd rfl hs
  | cons d ds => simp at h; exact ⟨ds, by rw [h.1]⟩

theorem tokenizeWord_spec [NumOps N] (kw : List (Str × TK)) {st : LexState N} {pre b a : Str}
    {c : Char} {stop : Nat}
    (hsrc : st.src = pre ++ (c :: a) ++ b) (hcn : c ≠ '\n') (hca : c ≠ '\'')
    (hno : NoNl (c :: a)) (hl : LineOK st.line st.lineStart pre)
    (hsmall : ulen st.src < 4294967296) (hstop : stop = ulen pre + ulen (c :: a)) :
    ∃ r, tokenizeWord kw st (ulen pre) (c :: a) stop = .ok r ∧ ResOK kw st pre r := by
  rcases splitWordSuffix_spec (c :: a) with
    ⟨stripped, kind, suf, hsp, hw, hhead, hsufno, hkind⟩ | ⟨gap, hsp, hw, hgap⟩
  · -- a staged suffix
    have hlen : ulen (c :: a) = ulen stripped + ulen suf := by rw [hw]; simp
    have hne : stripped ≠ [] := by
      intro he; rw [he] at hw; simp at hw; rw [← hw] at hhead; simp at hhead; exact hca hhead
    obtain ⟨s', hs'⟩ := head_of_append hne hw.symm
    have hsufne : suf ≠ [] := by intro he; rw [he] at hhead; simp at hhead
    have hno1 : NoNl stripped := fun hn x hx => hno hn x (by rw [hw]; simp [hx])
    have hsrc1 : st.src = (pre ++ stripped) ++ suf ++ b := by rw [hsrc, hw]; simp
    have hsrc2 : st.src = pre ++ stripped ++ (suf ++ b) := by rw [hsrc, hw]; simp
    have hl1 : LineOK st.line st.lineStart (pre ++ stripped) := hl.append hno1
    have hmk1 := makeTokenFrom_ok (st := st) (pre := pre ++ stripped) (mid := suf) (post := b)
      (lo := stop - ulen suf) (len := ulen suf) kind none hsrc1
      (by simp; omega) rfl hl1.le hsmall
    have hmk2 := makeTokenFrom_ok (st := st) (pre := pre) (mid := stripped) (post := suf ++ b)
      (lo := ulen pre) (len := ulen stripped) ((matchKeyword kw stripped).getD .word) none hsrc2
      rfl rfl hl.le hsmall
    simp only [tokenizeWord, hsp]
    rw [usub_ok (by omega)]
    simp only [Outcome.bind_ok, hmk1, findWordType_ok kw hne, hmk2]
    refine ⟨_, rfl, [], suf, b, by simpa using hsrc2, by simp [hstop, hlen]; omega, ?_, by simp,
      ?_, NoNl_of_forall hsufno, rfl, ?_⟩
    · exact TokAt.of_raw hl rfl hne (by rw [hs']; simp [hcn]) hno1 rfl (payload_wordType rfl)
    · simpa using hl1
    · refine TokAt.of_raw
        (t := { kind := kind, spelling := suf, start := stop - ulen suf,
                range := rawRange st.line st.lineStart (ulen (pre ++ stripped)) (ulen suf) })
        (by simpa using hl1) (by simp; omega) hsufne ?_ (NoNl_of_forall hsufno) (by simp) ?_
      · intro he; exact hsufno '\n' (by rw [show suf = ['\n'] from he]; simp) rfl
      · rcases hkind with hk | hk <;> subst hk <;>
          exact PayloadOK.plain (by simp) (by simp) (by simp) (by simp)
  · -- no suffix: trailing apostrophes are trimmed from the token but consumed
    have hne : trimEndApostrophes (c :: a) ≠ [] := by
      intro he; rw [he] at hw; simp at hw
      exact hca (hgap c (by rw [← hw]; simp))
    obtain ⟨s', hs'⟩ := head_of_append hne hw.symm
    have hlen : ulen (c :: a) = ulen (trimEndApostrophes (c :: a)) + ulen gap := by
      rw [← ulen_append, ← hw]
    have hno1 : NoNl (trimEndApostrophes (c :: a)) :=
      fun hn x hx => hno hn x (by rw [hw]; exact List.mem_append_left _ hx)
    have hsrc2 : st.src = pre ++ trimEndApostrophes (c :: a) ++ (gap ++ b) := by
      rw [hsrc]; conv => lhs; rw [hw]
      simp
    have hmk2 := makeTokenFrom_ok (st := st) (pre := pre) (mid := trimEndApostrophes (c :: a))
      (post := gap ++ b) (lo := ulen pre) (len := ulen (trimEndApostrophes (c :: a)))
      ((matchKeyword kw (trimEndApostrophes (c :: a))).getD .word) none hsrc2
      rfl rfl hl.le hsmall
    simp only [tokenizeWord, hsp]
    simp only [Outcome.bind_ok, findWordType_ok kw hne, hmk2]
    refine ⟨_, rfl, gap, [], b, by simpa using hsrc2, by simp only [hstop, hlen]; simp; omega,
      ?_, hgap, ?_, NoNl_nil, rfl⟩
    · exact TokAt.of_raw hl rfl hne (by rw [hs']; simp [hcn]) hno1 rfl (payload_wordType rfl)
    · have := hl.append hno
      rw [hw] at this
      simpa using this

theorem scanWord_spec [NumOps N] (kw : List (Str × TK)) {st : LexState N} {pre : Str}
    {c : Char} (hc : Ctx st pre c) (hcn : c ≠ '\n') (hca : c ≠ '\'') :
    ∃ r, scanWord kw st (ulen pre) = .ok r ∧ ResOK kw st pre r := by
  obtain ⟨a, b, _, ha, hstop, hsrc⟩ := hc.find isWordEnd
  have hno : NoNl (c :: a) := NoNl_cons hcn (NoNl_of_notWordEnd ha)
  unfold scanWord findNextWordEnd
  simp only [hstop]
  rw [sub_ok hsrc rfl rfl]
  simp only [Outcome.bind_ok]
  split
  · exact tokenizeWord_spec kw hsrc hcn hca hno hc.line hc.small rfl
  · rw [usub_ok (by omega)]
    have hmk := makeTokenFrom_ok (st := st) (pre := pre) (mid := c :: a) (post := b)
      (lo := ulen pre) (len := ulen pre + ulen (c :: a) - ulen pre) .error (some .identNonAlpha)
      hsrc rfl (by omega) hc.line.le hc.small
    simp only [Outcome.bind_ok, hmk]
    refine ⟨_, rfl, ResOK.simple (post := b) hsrc rfl ?_ ?_ rfl⟩
    · exact TokAt.of_raw hc.line rfl (by simp) (by simp [hcn]) hno rfl
        (PayloadOK.plain (by simp) (by simp) (by simp) (by simp))
    · simpa using hc.line.append hno

end
end Lexer
end Rrss
