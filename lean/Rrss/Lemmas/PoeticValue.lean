/-
  Rrss.Lemmas.PoeticValue — helper lemmas for C11, parts 1 and 2: the model's poetic-literal
  iterator (`Poetic.items / lengths / dotPos`) against the independent grouping specification
  (Rrss/Spec/Poetic.lean), and exactness of `Poetic.computeValue` on integer numerals.
-/
import Rrss.Poetic
import Rrss.Spec.Poetic
namespace Rrss
namespace PoeticValue
open Poetic NumOps
open Spec.Poetic (letters leadingSuffixes groupsAux groups groupLen groupLengths digits pointPos
  decimalValue)

/-! ### 1. digit rule -/

theorem wordLen_eq_letters (s : Str) : wordLen s = letters s := by
  induction s with
  | nil => rfl
  | cons c cs ih =>
    unfold wordLen at ih ⊢
    by_cases h : c = '\''
    · simp [letters, h, ih]
    · simp [letters, h, ih]

/-- the iterator item a group / a period stands for -/
def itemOfGroup : Option (List Str) → Item
  | none => .dot
  | some g => .word (groupLen g)

theorem groupLen_cons (s : Str) (g : List Str) : groupLen (s :: g) = letters s + groupLen g := by
  simp [groupLen]

theorem groupLen_nil : groupLen [] = 0 := rfl

/-- the scan, started with or without an open word, in terms of the look-ahead grouping -/
theorem itemsGo_eq (elems : List PoeticElem) :
    itemsGo elems none = (groupsAux false elems).map itemOfGroup ∧
    ∀ n, itemsGo elems (some n) =
      .word (n + groupLen (leadingSuffixes elems)) :: (groupsAux true elems).map itemOfGroup := by
  induction elems with
  | nil => exact ⟨rfl, fun n => by simp [itemsGo, flush, leadingSuffixes, groupLen_nil, groupsAux]⟩
  | cons e rest ih =>
    obtain ⟨ih0, ih1⟩ := ih
    cases e with
    | dot =>
      refine ⟨?_, fun n => ?_⟩
      · simp [itemsGo, flush, groupsAux, itemOfGroup, ih0]
      · simp [itemsGo, flush, groupsAux, itemOfGroup, ih0, leadingSuffixes, groupLen_nil]
    | word s =>
      refine ⟨?_, fun n => ?_⟩
      · simp [itemsGo, flush, groupsAux, itemOfGroup, ih1, groupLen_cons, wordLen_eq_letters]
      · simp [itemsGo, flush, groupsAux, itemOfGroup, ih1, groupLen_cons, wordLen_eq_letters,
          leadingSuffixes, groupLen_nil]
    | suffix s =>
      refine ⟨?_, fun n => ?_⟩
      · simp [itemsGo, groupsAux, itemOfGroup, ih0, groupLen_cons, wordLen_eq_letters, groupLen_nil]
      · simp [itemsGo, groupsAux, ih1, groupLen_cons, wordLen_eq_letters, leadingSuffixes,
          Nat.add_assoc]

/-- **the iterator yields exactly the specified groups and periods** -/
theorem items_eq_groups (elems : List PoeticElem) : items elems = (groups elems).map itemOfGroup :=
  (itemsGo_eq elems).1

theorem lengths_map (gs : List (Option (List Str))) :
    lengths (gs.map itemOfGroup) = gs.filterMap fun g => g.map groupLen := by
  induction gs with
  | nil => rfl
  | cons g gs ih => cases g <;> simp [itemOfGroup, lengths, ih]

theorem dotPos_map (gs : List (Option (List Str))) :
    dotPos (gs.map itemOfGroup) = (gs.takeWhile Option.isSome).length := by
  induction gs with
  | nil => rfl
  | cons g gs ih => cases g <;> simp [itemOfGroup, dotPos, ih, List.takeWhile]

theorem lengths_items (elems : List PoeticElem) : lengths (items elems) = groupLengths elems := by
  rw [items_eq_groups, lengths_map]; rfl

theorem dotPos_items (elems : List PoeticElem) : dotPos (items elems) = pointPos elems := by
  rw [items_eq_groups, dotPos_map]; rfl

/-- the point position never exceeds the number of digits -/
theorem pointPos_le (elems : List PoeticElem) : pointPos elems ≤ (groupLengths elems).length := by
  unfold pointPos groupLengths
  generalize groups elems = gs
  induction gs with
  | nil => simp
  | cons g gs ih => cases g <;> simp [List.takeWhile, List.filterMap]; omega

/-- no period: every group lies in front of the (absent) point -/
theorem groupsAux_isSome_of_no_dot (elems : List PoeticElem) (h : PoeticElem.dot ∉ elems) (b : Bool) :
    ∀ g ∈ groupsAux b elems, g.isSome = true := by
  induction elems generalizing b with
  | nil => simp [groupsAux]
  | cons e rest ih =>
    have hr : PoeticElem.dot ∉ rest := fun hm => h (List.mem_cons_of_mem _ hm)
    cases e with
    | dot => exact absurd (List.mem_cons_self ..) h
    | word s =>
      intro g hg; simp only [groupsAux, List.mem_cons] at hg
      rcases hg with rfl | hg
      · rfl
      · exact ih hr true g hg
    | suffix s =>
      cases b with
      | true => intro g hg; simp only [groupsAux] at hg; exact ih hr true g hg
      | false =>
        intro g hg; simp only [groupsAux, List.mem_cons] at hg
        rcases hg with rfl | hg
        · rfl
        · exact ih hr false g hg

theorem pointPos_of_no_dot (elems : List PoeticElem) (h : PoeticElem.dot ∉ elems) :
    pointPos elems = (groupLengths elems).length := by
  have hs := groupsAux_isSome_of_no_dot elems h false
  unfold pointPos groupLengths groups
  generalize groupsAux false elems = gs at hs
  induction gs with
  | nil => rfl
  | cons g gs ih =>
    have hg := hs g (List.mem_cons_self ..)
    have ih' := ih (fun g' hg' => hs g' (List.mem_cons_of_mem _ hg'))
    cases g with
    | none => simp at hg
    | some p => simp [List.takeWhile, List.filterMap, ih']

/-- a non-empty literal without a period has at least one digit -/
theorem groupLengths_ne_nil_of_no_dot (elems : List PoeticElem) (hne : elems ≠ [])
    (h : PoeticElem.dot ∉ elems) : groupLengths elems ≠ [] := by
  cases elems with
  | nil => exact absurd rfl hne
  | cons e rest =>
    cases e with
    | dot => exact absurd (List.mem_cons_self ..) h
    | word s => simp [groupLengths, groups, groupsAux]
    | suffix s => simp [groupLengths, groups, groupsAux]

/-! ### 2. value -/

section
variable {N : Type} [NumOps N]

/-- `compute_value`, unfolded and expressed with the specified digits and point position
    (`sumDigits` reduces the lengths modulo 10 itself). -/
theorem computeValue_eq (elems : List PoeticElem) :
    (computeValue elems : Outcome Unit N) =
      .ok (sumDigits (Int.ofNat (pointPos elems) - 1) (groupLengths elems) 0 (neg (ofInt 0 : N))) := by
  unfold computeValue
  simp only [lengths_items, dotPos_items]

theorem sumDigits_mod (e : Int) (l : List Nat) (i : Nat) (acc : N) :
    sumDigits e (l.map (· % 10)) i acc = sumDigits e l i acc := by
  induction l generalizing i acc with
  | nil => rfl
  | cons d l ih => simp [sumDigits, digitTerm, ih]

theorem computeValue_eq_digits (elems : List PoeticElem) :
    (computeValue elems : Outcome Unit N) =
      .ok (sumDigits (Int.ofNat (pointPos elems) - 1) (digits elems) 0 (neg (ofInt 0 : N))) := by
  rw [computeValue_eq]; unfold digits; rw [sumDigits_mod]

/-- the running sum as a left fold over the indexed lengths: term `i` is `digitTerm e i lenᵢ`,
    added to the accumulator from the left -/
theorem sumDigits_eq_foldl (e : Int) (ls : List Nat) (idx : Nat) (acc : N) :
    sumDigits e ls idx acc =
      (ls.zipIdx idx).foldl (fun a p => add a (digitTerm e p.2 p.1)) acc := by
  induction ls generalizing idx acc with
  | nil => rfl
  | cons l ls ih => simp only [sumDigits, List.zipIdx_cons, List.foldl_cons, ih]

/-! #### exactness on integers -/

theorem pow_split_even (A q : Nat) : A ^ (2 * q) = (A * A) ^ q := by
  rw [Nat.pow_mul, Nat.pow_two]

theorem pow_split_odd (A q : Nat) : A ^ (2 * q + 1) = (A * A) ^ q * A := by
  rw [Nat.pow_succ, pow_split_even]

/-- The square-and-multiply loop of `powi` computes `R · A^n` exactly, as long as that number is
    at most `2^53`: every intermediate product (`r·a`, and the squares `a·a`, which are only
    formed while `2·(exponent of a) ≤ n`) is bounded by the final result. -/
theorem powiLoop_exact
    (mul_nat : ∀ a b : Nat, a ≤ 2 ^ 53 → b ≤ 2 ^ 53 → a * b ≤ 2 ^ 53 →
      mul (ofNat a : N) (ofNat b) = ofNat (a * b))
    (fuel n A R : Nat) (hA : 1 ≤ A) (hR : 1 ≤ R) (hf : n < fuel) (hb : R * A ^ n ≤ 2 ^ 53) :
    powiLoop fuel n (ofNat A : N) (ofNat R) = ofNat (R * A ^ n) := by
  induction fuel generalizing n A R with
  | zero => omega
  | succ f ih =>
    rcases Nat.mod_two_eq_zero_or_one n with hm | hm
    · -- even
      obtain ⟨q, rfl⟩ : ∃ q, n = 2 * q := ⟨n / 2, by omega⟩
      have hq : 2 * q / 2 = q := by omega
      by_cases hq0 : q = 0
      · subst hq0; simp [powiLoop]
      · have hAA : A * A ≤ 2 ^ 53 := by
          have h1 : A * A ≤ (A * A) ^ q := by
            have := Nat.pow_le_pow_right (n := A * A) (Nat.mul_pos hA hA) (show 1 ≤ q by omega)
            simpa using this
          have h2 : (A * A) ^ q ≤ R * (A * A) ^ q := Nat.le_mul_of_pos_left _ hR
          rw [pow_split_even] at hb
          omega
        have hA1 : A ≤ 2 ^ 53 := Nat.le_trans (Nat.le_mul_of_pos_left A hA) hAA
        have := ih q (A * A) R (Nat.mul_pos hA hA) hR (by omega) (by rw [← pow_split_even]; exact hb)
        simp only [powiLoop, hm, hq, hq0, if_false]
        rw [mul_nat A A hA1 hA1 hAA, show (1 : Nat) = 1 from rfl]
        simpa [pow_split_even] using this
    · -- odd
      obtain ⟨q, rfl⟩ : ∃ q, n = 2 * q + 1 := ⟨n / 2, by omega⟩
      have hq : (2 * q + 1) / 2 = q := by omega
      have hpos : 1 ≤ (A * A) ^ q := Nat.pow_pos (Nat.mul_pos hA hA)
      have hRA : R * A ≤ 2 ^ 53 := by
        rw [pow_split_odd] at hb
        have : R * A ≤ R * ((A * A) ^ q * A) :=
          Nat.mul_le_mul_left R (Nat.le_mul_of_pos_left A hpos)
        omega
      have hR1 : R ≤ 2 ^ 53 := Nat.le_trans (Nat.le_mul_of_pos_right R hA) hRA
      have hA1 : A ≤ 2 ^ 53 := Nat.le_trans (Nat.le_mul_of_pos_left A hR) hRA
      by_cases hq0 : q = 0
      · subst hq0
        simp [powiLoop, mul_nat R A hR1 hA1 hRA]
      · have hb' : R * A * (A * A) ^ q ≤ 2 ^ 53 := by
          rw [pow_split_odd] at hb
          have : R * A * (A * A) ^ q = R * ((A * A) ^ q * A) := by ac_rfl
          omega
        have hAA : A * A ≤ 2 ^ 53 := by
          have h1 : A * A ≤ (A * A) ^ q := by
            have := Nat.pow_le_pow_right (n := A * A) (Nat.mul_pos hA hA) (show 1 ≤ q by omega)
            simpa using this
          have h2 : (A * A) ^ q ≤ R * A * (A * A) ^ q :=
            Nat.le_mul_of_pos_left _ (Nat.mul_pos hR hA)
          omega
        have := ih q (A * A) (R * A) (Nat.mul_pos hA hA) (Nat.mul_pos hR hA) (by omega) hb'
        simp only [powiLoop, hm, hq, hq0, if_true, if_false]
        rw [mul_nat R A hR1 hA1 hRA, mul_nat A A hA1 hA1 hAA, this, pow_split_odd]
        congr 1; ac_rfl

/-- `10f64.powi(j)` is exactly `10^j` for `10^j ≤ 2^53` (so for `j ≤ 15`). -/
theorem powi_ten_exact
    (mul_nat : ∀ a b : Nat, a ≤ 2 ^ 53 → b ≤ 2 ^ 53 → a * b ≤ 2 ^ 53 →
      mul (ofNat a : N) (ofNat b) = ofNat (a * b))
    (j : Nat) (hj : 10 ^ j ≤ 2 ^ 53) :
    powi (ofInt 10 : N) (Int.ofNat j) = ofNat (10 ^ j) := by
  have h := powiLoop_exact mul_nat (j + 1) j 10 1 (by decide) (by decide) (by omega) (by simpa using hj)
  have hneg : ¬ (Int.ofNat j < 0) := by simp
  unfold powi
  simp only [Int.natAbs_ofNat', hneg, if_false]
  rw [Nat.one_mul] at h
  exact h

/-- one term of the sum is exact when its value fits: a zero digit gives `0` whatever its weight
    (repaired code); a nonzero digit `d` with `d·10^j ≤ 2^53` gives `d·10^j` (then also
    `10^j ≤ 2^53`, so `powi` is exact). -/
theorem digitTerm_exact
    (mul_nat : ∀ a b : Nat, a ≤ 2 ^ 53 → b ≤ 2 ^ 53 → a * b ≤ 2 ^ 53 →
      mul (ofNat a : N) (ofNat b) = ofNat (a * b))
    (e : Int) (idx len j : Nat) (hexp : e - Int.ofNat idx = Int.ofNat j)
    (hb : len % 10 * 10 ^ j ≤ 2 ^ 53) :
    (digitTerm e idx len : N) = ofNat (len % 10 * 10 ^ j) := by
  unfold digitTerm
  by_cases h0 : len % 10 = 0
  · simp [h0]
  · have hp : 10 ^ j ≤ 2 ^ 53 :=
      Nat.le_trans (Nat.le_mul_of_pos_left _ (Nat.pos_of_ne_zero h0)) hb
    have hd : len % 10 ≤ 2 ^ 53 := Nat.le_trans (show len % 10 ≤ 9 by omega) (by decide)
    rw [if_neg h0, hexp, powi_ten_exact mul_nat _ hp, mul_nat _ _ hd hp hb]

/-- The running sum of `compute_value`, started from an exact integer accumulator at index `idx`
    with the remaining word lengths `ls`, all remaining exponents non-negative: exact, as long as
    the final value is at most `2^53` — however many digits remain (zero digits cost nothing). -/
theorem sumDigits_exact
    (mul_nat : ∀ a b : Nat, a ≤ 2 ^ 53 → b ≤ 2 ^ 53 → a * b ≤ 2 ^ 53 →
      mul (ofNat a : N) (ofNat b) = ofNat (a * b))
    (add_nat : ∀ a b : Nat, a ≤ 2 ^ 53 → b ≤ 2 ^ 53 → a + b ≤ 2 ^ 53 →
      add (ofNat a : N) (ofNat b) = ofNat (a + b))
    (ls : List Nat) (idx A : Nat) (e : Int) (he : e = Int.ofNat idx + Int.ofNat ls.length - 1)
    (hb : A + decimalValue (ls.map (· % 10)) ≤ 2 ^ 53) :
    sumDigits e ls idx (ofNat A : N) = ofNat (A + decimalValue (ls.map (· % 10))) := by
  induction ls generalizing idx A with
  | nil => simp [sumDigits, decimalValue]
  | cons l ls ih =>
    simp only [List.map_cons, decimalValue, List.length_map] at hb ⊢
    simp only [List.length_cons] at he
    have hexp : e - Int.ofNat idx = Int.ofNat ls.length := by
      simp only [Int.ofNat_eq_natCast] at he ⊢; omega
    have hprod : l % 10 * 10 ^ ls.length ≤ 2 ^ 53 := by omega
    unfold sumDigits
    rw [digitTerm_exact mul_nat e idx l ls.length hexp hprod,
      add_nat _ _ (by omega) hprod (by omega)]
    rw [ih (idx + 1) (A + l % 10 * 10 ^ ls.length)
      (by simp only [Int.ofNat_eq_natCast] at he ⊢; omega) (by omega)]
    congr 1; omega

/-- **Exactness of `compute_value` on integer numerals.** If no digit stands behind the point,
    there is at least one digit, and the decimal value `D` of the digits is at most `2^53`, then
    `compute_value` returns exactly `D` — whatever the number of digits (leading zero digits
    contribute nothing). -/
theorem computeValue_exact
    (mul_nat : ∀ a b : Nat, a ≤ 2 ^ 53 → b ≤ 2 ^ 53 → a * b ≤ 2 ^ 53 →
      mul (ofNat a : N) (ofNat b) = ofNat (a * b))
    (add_nat : ∀ a b : Nat, a ≤ 2 ^ 53 → b ≤ 2 ^ 53 → a + b ≤ 2 ^ 53 →
      add (ofNat a : N) (ofNat b) = ofNat (a + b))
    (add_negzero : ∀ a : Nat, add (neg (ofInt 0 : N)) (ofNat a) = ofNat a)
    (elems : List PoeticElem)
    (hint : pointPos elems = (digits elems).length)
    (hne : digits elems ≠ [])
    (hD : decimalValue (digits elems) ≤ 2 ^ 53) :
    (computeValue elems : Outcome Unit N) = .ok (ofNat (decimalValue (digits elems))) := by
  rw [computeValue_eq, hint]
  unfold digits at hne hD ⊢
  generalize groupLengths elems = ls at hne hD ⊢
  cases ls with
  | nil => exact absurd rfl hne
  | cons l ls =>
    simp only [List.map_cons, decimalValue, List.length_map, List.length_cons] at hD ⊢
    have hprod : l % 10 * 10 ^ ls.length ≤ 2 ^ 53 := by omega
    have hexp : Int.ofNat (ls.length + 1) - 1 - Int.ofNat 0 = Int.ofNat ls.length := by
      simp only [Int.ofNat_eq_natCast]; omega
    unfold sumDigits
    rw [digitTerm_exact mul_nat _ 0 l ls.length hexp hprod, add_negzero]
    rw [sumDigits_exact mul_nat add_nat ls (0 + 1) (l % 10 * 10 ^ ls.length) _
      (by simp only [Int.ofNat_eq_natCast]; omega) hD]

end
end PoeticValue
end Rrss
