/-
  Rrss.Lemmas.IOTrace — helper lemmas about the I/O channels of the interpreter:
  the progress preorder `Env.Le` (output only grows, input only shrinks, the reader/writer
  fault configuration is carried along) and the fact that every interpreter function steps
  along it (`Steps`), by induction on fuel.
-/
import Rrss.Interp
import Rrss.Lemmas.C09Interp
namespace Rrss
open Env Interp

set_option linter.unusedSectionVars false
variable {N : Type}

/-! ### the progress preorder on environments -/

namespace Env

/-- the input left after `n` lines (each with its terminator) have been taken off the front -/
def dropLines : Nat → Str → Str
  | 0, s => s
  | n + 1, s => dropLines n (takeLine s).2

theorem dropLines_add (m n : Nat) (s : Str) : dropLines (m + n) s = dropLines n (dropLines m s) := by
  induction m generalizing s with
  | zero => simp [dropLines]
  | succ m ih => rw [Nat.succ_add]; exact ih _

/-- the error of the injected writer fault (`Env.output`) -/
abbrev writeFaultErr : RtErr N := .io (str% "verif write fault")
/-- the error of the injected reader fault (`Env.inputLine`) -/
abbrev readFaultErr : RtErr N := .io (str% "verif read fault")

/-- the bytes of a sequence of output lines -/
def linesBytes (texts : List Str) : List UInt8 := texts.flatMap fun t => utf8 t ++ [10]

/-- `e'` is reachable from `e` as far as the I/O channels are concerned: output was only
    appended, input only consumed from the front, the line counter only went up, the reader
    fault position is fixed, and the writer's budget accounts exactly for what was written
    (`out.length + budget` is constant; an unlimited writer stays unlimited). Exact accounting:
    against an unlimited writer what was appended is a sequence of whole lines; the input left
    is the input before minus exactly as many lines as the line counter went up. -/
structure Le (e e' : Env N) : Prop where
  out : e.out <+: e'.out
  handed : e.handed ≤ e'.handed
  input : e'.input <:+ e.input
  readFault : e'.readFault = e.readFault
  wnone : e.wbudget = none → e'.wbudget = none
  wsome : ∀ b, e.wbudget = some b → ∃ b', e'.wbudget = some b' ∧ e'.out.length + b' = e.out.length + b
  lines : e.wbudget = none → ∃ texts : List Str, e'.out = e.out ++ linesBytes texts
  consumed : e'.input = dropLines (e'.handed - e.handed) e.input

/-- the I/O channels are untouched (only scopes / pronoun / step budget may differ) -/
structure IOEq (e e' : Env N) : Prop where
  out : e'.out = e.out
  handed : e'.handed = e.handed
  input : e'.input = e.input
  readFault : e'.readFault = e.readFault
  wbudget : e'.wbudget = e.wbudget

theorem IOEq.le {e e' : Env N} (h : IOEq e e') : Le e e' where
  out := by rw [h.out]; exact List.prefix_refl _
  handed := by rw [h.handed]; exact Nat.le_refl _
  input := by rw [h.input]; exact List.suffix_refl _
  readFault := h.readFault
  wnone := fun hn => by rw [h.wbudget]; exact hn
  wsome := fun b hb => ⟨b, by rw [h.wbudget]; exact hb, by rw [h.out]⟩
  lines := fun _ => ⟨[], by rw [h.out]; simp [linesBytes]⟩
  consumed := by rw [h.handed, h.input, Nat.sub_self]; rfl

theorem IOEq.rfl' {e : Env N} : IOEq e e := ⟨rfl, rfl, rfl, rfl, rfl⟩

theorem Le.refl (e : Env N) : Le e e := IOEq.rfl'.le

theorem Le.trans {a b c : Env N} (h1 : Le a b) (h2 : Le b c) : Le a c where
  out := List.IsPrefix.trans h1.out h2.out
  handed := Nat.le_trans h1.handed h2.handed
  input := List.IsSuffix.trans h2.input h1.input
  readFault := h2.readFault.trans h1.readFault
  wnone := fun hn => h2.wnone (h1.wnone hn)
  wsome := fun b hb => by
    obtain ⟨b1, hb1, hl1⟩ := h1.wsome b hb
    obtain ⟨b2, hb2, hl2⟩ := h2.wsome b1 hb1
    exact ⟨b2, hb2, by omega⟩
  lines := fun hn => by
    obtain ⟨t1, ht1⟩ := h1.lines hn
    obtain ⟨t2, ht2⟩ := h2.lines (h1.wnone hn)
    exact ⟨t1 ++ t2, by rw [ht2, ht1]; simp [linesBytes]⟩
  consumed := by
    have ha := h1.handed
    have hb := h2.handed
    have : c.handed - a.handed = (b.handed - a.handed) + (c.handed - b.handed) := by omega
    rw [this, dropLines_add, ← h1.consumed, ← h2.consumed]

/-- a writer whose budget is exhausted writes nothing any more -/
theorem Le.dead {e e' : Env N} (h : Le e e') (h0 : e.wbudget = some 0) :
    e'.out = e.out ∧ e'.wbudget = some 0 := by
  obtain ⟨b', hb', hl⟩ := h.wsome 0 h0
  have hlen := h.out.length_le
  have hb0 : b' = 0 := by omega
  have hlen' : e.out.length = e'.out.length := by omega
  refine ⟨(List.IsPrefix.eq_of_length h.out hlen').symm, by rw [hb', hb0]⟩

end Env

/-! ### computations that step along `Le` -/

namespace M

/-- every run of `m` moves the environment along `Env.Le`, whatever the outcome -/
structure Steps {α : Type} (m : M N α) : Prop where
  le : ∀ e, Env.Le e (m e).2

/-- `m` leaves the I/O channels alone, whatever the outcome -/
structure Frame {α : Type} (m : M N α) : Prop where
  eq : ∀ e, Env.IOEq e (m e).2

theorem Frame.steps {α} {m : M N α} (h : Frame m) : Steps m := ⟨fun e => (h.eq e).le⟩

theorem Steps.pure {α} (a : α) : Steps (Pure.pure a : M N α) := ⟨fun e => Env.Le.refl e⟩

theorem Steps.bind {α β} {x : M N α} {f : α → M N β} (hx : Steps x) (hf : ∀ a, Steps (f a)) :
    Steps (x >>= f) := by
  constructor
  intro e
  show Env.Le e (M.bind x f e).2
  unfold M.bind
  have h1 := hx.le e
  split <;> rename_i heq <;> rw [heq] at h1 <;> try exact h1
  exact h1.trans ((hf _).le _)

theorem Steps.fail {α} (er : RtErr N) : Steps (M.fail er : M N α) := ⟨fun e => Env.Le.refl e⟩
theorem Steps.crash {α} (s : Site) : Steps (M.crash s : M N α) := ⟨fun e => Env.Le.refl e⟩
theorem Steps.outOfFuel {α} : Steps (M.outOfFuel : M N α) := ⟨fun e => Env.Le.refl e⟩
theorem Steps.outOfResource {α} : Steps (M.outOfResource : M N α) := ⟨fun e => Env.Le.refl e⟩
theorem Steps.get : Steps (M.get : M N (Env N)) := ⟨fun e => Env.Le.refl e⟩
theorem Steps.liftV {α} (r : VRes N α) : Steps (M.liftV r : M N α) := by
  constructor; intro e; unfold M.liftV; split <;> exact Env.Le.refl e
theorem Steps.liftE {α} (r : Except (RtErr N) α) : Steps (M.liftE r : M N α) := by
  constructor; intro e; unfold M.liftE; split <;> exact Env.Le.refl e
theorem Steps.assert (s : Site) (b : Bool) : Steps (M.assert s b : M N Unit) := by
  unfold M.assert; split
  · exact Steps.pure _
  · exact Steps.crash _

end M

/-- one step of the `msteps` automation (extended by `macro_rules` below) -/
syntax "msteps1" : tactic
macro_rules | `(tactic| msteps1) => `(tactic| with_reducible first
  | exact M.Steps.pure _ | exact M.Steps.fail _ | exact M.Steps.crash _
  | exact M.Steps.outOfFuel | exact M.Steps.outOfResource | exact M.Steps.get
  | exact M.Steps.liftV _ | exact M.Steps.liftE _ | exact M.Steps.assert _ _
  | assumption
  | apply M.Steps.bind
  | intro _
  | split
  | apply_assumption)
/-- prove `Steps m` for a `do` block made of known pieces -/
macro "msteps" : tactic => `(tactic| repeat' msteps1)

/-! ### the primitives of `Env` -/

section prims
variable [CharOps] [NumOps N]

namespace Env

theorem tick_frame : M.Frame (tick : M N Unit) := by
  constructor; intro e; unfold tick; split <;> exact ⟨rfl, rfl, rfl, rfl, rfl⟩
theorem pushScope_frame : M.Frame (pushScope : M N Unit) := ⟨fun _ => ⟨rfl, rfl, rfl, rfl, rfl⟩⟩
theorem popScope_frame : M.Frame (popScope : M N Unit) := by
  constructor; intro e; unfold popScope; split <;> exact ⟨rfl, rfl, rfl, rfl, rfl⟩
theorem lookupVar_frame (n : VarName) : M.Frame (lookupVar n : M N (Val N)) := by
  constructor; intro e; unfold lookupVar; dsimp only; split <;> exact ⟨rfl, rfl, rfl, rfl, rfl⟩
theorem lastAccess_frame : M.Frame (lastAccess : M N (Val N)) := by
  constructor; intro e; unfold lastAccess; split
  · exact ⟨rfl, rfl, rfl, rfl, rfl⟩
  · split <;> exact ⟨rfl, rfl, rfl, rfl, rfl⟩
theorem createFunc_frame (n : VarName) (ps : List VarName) (b : Block N) :
    M.Frame (createFunc n ps b : M N Unit) := by
  constructor; intro e; unfold createFunc; split
  · exact ⟨rfl, rfl, rfl, rfl, rfl⟩
  · split <;> exact ⟨rfl, rfl, rfl, rfl, rfl⟩
theorem pushFunctionScope_frame (args : List (VarName × Val N)) :
    M.Frame (pushFunctionScope args : M N Unit) := by
  constructor; intro e; unfold pushFunctionScope; split <;> exact ⟨rfl, rfl, rfl, rfl, rfl⟩

theorem output_steps (text : Str) : M.Steps (output text : M N Unit) := by
  constructor; intro e; unfold output; dsimp only
  split
  · rename_i hw
    exact ⟨List.prefix_append _ _, Nat.le_refl _, List.suffix_refl _, rfl, fun _ => hw,
      (fun b hb => by rw [hw] at hb; cases hb), fun _ => ⟨[text], by simp [linesBytes]⟩,
      by simp [dropLines]⟩
  · rename_i k hw
    split
    · rename_i hfit
      refine ⟨List.prefix_append _ _, Nat.le_refl _, List.suffix_refl _, rfl,
        (fun hn => by rw [hw] at hn; cases hn), fun b hb => ⟨_, rfl, ?_⟩,
        (fun hn => by rw [hw] at hn; cases hn), by simp [dropLines]⟩
      rw [hw] at hb; cases hb
      simp only [List.length_append] at hfit ⊢; omega
    · rename_i hfit
      refine ⟨List.prefix_append _ _, Nat.le_refl _, List.suffix_refl _, rfl,
        (fun hn => by rw [hw] at hn; cases hn), fun b hb => ⟨_, rfl, ?_⟩,
        (fun hn => by rw [hw] at hn; cases hn), by simp [dropLines]⟩
      rw [hw] at hb; cases hb
      simp only [List.length_append, List.length_take] at hfit ⊢; omega

private theorem takeLine_suffix (s : Str) : (takeLine s).2 <:+ s := by
  induction s with
  | nil => exact List.suffix_refl _
  | cons c cs ih =>
    unfold takeLine
    split
    · exact List.suffix_cons _ _
    · exact List.IsSuffix.trans ih (List.suffix_cons _ _)

theorem inputLine_steps : M.Steps (inputLine : M N Str) := by
  constructor; intro e; unfold inputLine
  split
  · exact Le.refl e
  · split
    · exact Le.refl e
    · exact ⟨List.prefix_refl _, Nat.le_succ _, takeLine_suffix _, rfl, id, fun b hb => ⟨b, hb, rfl⟩,
        fun _ => ⟨[], by simp [linesBytes]⟩, by simp [dropLines]⟩

end Env

macro_rules | `(tactic| msteps1) => `(tactic| with_reducible first
  | exact Env.tick_frame.steps | exact Env.pushScope_frame.steps | exact Env.popScope_frame.steps
  | exact (Env.lookupVar_frame _).steps | exact Env.lastAccess_frame.steps
  | exact (Env.createFunc_frame _ _ _).steps | exact (Env.pushFunctionScope_frame _).steps
  | exact Env.output_steps _ | exact Env.inputLine_steps)

/-! ### every interpreter function steps along `Le` -/

/-- the invariant on the interpreter one level down -/
structure RecSteps (rec : Rec N) : Prop where
  evalExpr : ∀ e, M.Steps (rec.evalExpr e)
  evalPrimary : ∀ p, M.Steps (rec.evalPrimary p)
  writeExpr : ∀ w e, M.Steps (rec.writeExpr w e)
  writePrimary : ∀ w p, M.Steps (rec.writePrimary w p)
  execStmt : ∀ s st, M.Steps (rec.execStmt s st)

macro_rules | `(tactic| msteps1) => `(tactic| with_reducible first
  | exact RecSteps.evalExpr (by assumption) _ | exact RecSteps.evalPrimary (by assumption) _
  | exact RecSteps.writeExpr (by assumption) _ _ | exact RecSteps.writePrimary (by assumption) _ _
  | exact RecSteps.execStmt (by assumption) _ _)

namespace Interp
variable {rec : Rec N}

theorem applyOp_steps (op : BinOp) (a : Val N) {b : M N (Val N)} (hb : M.Steps b) :
    M.Steps (applyOp op a b) := by
  unfold applyOp; msteps

theorem foldOp_steps (h : RecSteps rec) (op : BinOp) (a : Val N) (es : List (Expr N)) :
    M.Steps (foldOp rec op a es) := by
  induction es generalizing a with
  | nil => unfold foldOp; msteps
  | cons e es ih =>
    unfold foldOp
    apply M.Steps.bind (applyOp_steps op a (h.evalExpr e))
    intro a'; exact ih a'

theorem evalArgs_steps (h : RecSteps rec) (es : List (Expr N)) : M.Steps (evalArgs rec es) := by
  induction es with
  | nil => unfold evalArgs; msteps
  | cons e es ih => unfold evalArgs; msteps

theorem execStmts_steps (h : RecSteps rec) (ss : List (Stmt N)) (st : ExecSt N) :
    M.Steps (execStmts rec ss st) := by
  induction ss generalizing st with
  | nil => unfold execStmts; msteps
  | cons s ss ih =>
    unfold execStmts
    apply M.Steps.bind (h.execStmt s st)
    intro st'; split
    · msteps
    · exact ih st'

theorem evalIdent_steps (i : Ident) : M.Steps (evalIdent i : M N (Val N)) := by
  unfold evalIdent; msteps

end Interp

macro_rules | `(tactic| msteps1) => `(tactic| with_reducible first
  | exact Interp.foldOp_steps (by assumption) _ _ _ | exact Interp.evalArgs_steps (by assumption) _
  | exact Interp.execStmts_steps (by assumption) _ _ | exact Interp.evalIdent_steps _
  | (apply Interp.applyOp_steps))

namespace Interp
variable {rec : Rec N}

theorem callFunction_steps (h : RecSteps rec) (name : VarName) (args : List (Expr N)) :
    M.Steps (callFunction rec name args) := by
  unfold callFunction; msteps

theorem evalPop_steps (h : RecSteps rec) (arr : Primary N) : M.Steps (evalPop rec arr) := by
  unfold evalPop; msteps

end Interp

macro_rules | `(tactic| msteps1) => `(tactic| with_reducible first
  | exact Interp.callFunction_steps (by assumption) _ _ | exact Interp.evalPop_steps (by assumption) _)

namespace Interp
variable {rec : Rec N}

theorem evalPrimary_steps (h : RecSteps rec) (p : Primary N) : M.Steps (evalPrimary rec p) := by
  unfold evalPrimary; msteps

theorem evalExpr_steps (h : RecSteps rec) (e : Expr N) : M.Steps (evalExpr rec e) := by
  unfold evalExpr; msteps

theorem evalLhs_steps (h : RecSteps rec) (l : Lhs N) : M.Steps (evalLhs rec l) := by
  unfold evalLhs; msteps

theorem resolve_frame (t : Target) : M.Frame (resolve t : M N (VarName × Val N)) := by
  constructor; intro e; unfold resolve
  split
  · dsimp only
    split
    · exact ⟨rfl, rfl, rfl, rfl, rfl⟩
    · split
      · exact ⟨rfl, rfl, rfl, rfl, rfl⟩
      · split <;> exact ⟨rfl, rfl, rfl, rfl, rfl⟩
  · split
    · exact ⟨rfl, rfl, rfl, rfl, rfl⟩
    · split <;> exact ⟨rfl, rfl, rfl, rfl, rfl⟩

theorem writeCell_frame (w : Writer N) (t : Target) (keys : List (Val N)) :
    M.Frame (writeCell w t keys) := by
  constructor; intro e; unfold writeCell
  have hr := (resolve_frame (N := N) t).eq e
  split <;> rename_i heq <;> rw [heq] at hr <;> try exact hr
  dsimp only
  split <;> exact ⟨hr.out, hr.handed, hr.input, hr.readFault, hr.wbudget⟩

theorem subscriptVal_steps (h : RecSteps rec) (idx : Primary N) : M.Steps (subscriptVal rec idx) := by
  constructor; intro e; unfold subscriptVal
  have hr := (h.evalPrimary idx).le e
  split <;> rename_i heq <;> rw [heq] at hr <;> exact hr

theorem writeIdent_steps (w : Writer N) (i : Ident) : M.Steps (writeIdent w i) := by
  unfold writeIdent; split <;> exact (writeCell_frame _ _ _).steps

end Interp

macro_rules | `(tactic| msteps1) => `(tactic| with_reducible first
  | exact (Interp.writeCell_frame _ _ _).steps | exact Interp.subscriptVal_steps (by assumption) _
  | exact Interp.evalLhs_steps (by assumption) _ | exact Interp.writeIdent_steps _ _)

namespace Interp
variable {rec : Rec N}

theorem writeSubscript_steps (h : RecSteps rec) (w : Writer N) (p : Primary N) (keys : List (Val N)) :
    M.Steps (writeSubscript rec w p keys) := by
  fun_induction writeSubscript rec w p keys <;> msteps

theorem writePrimary_steps (h : RecSteps rec) (w : Writer N) (p : Primary N) :
    M.Steps (writePrimary rec w p) := by
  have := @writeSubscript_steps N _ _ rec h
  unfold writePrimary; msteps

theorem writeExpr_steps (h : RecSteps rec) (w : Writer N) (e : Expr N) :
    M.Steps (writeExpr rec w e) := by
  unfold writeExpr; msteps

theorem writeLhs_steps (h : RecSteps rec) (w : Writer N) (l : Lhs N) :
    M.Steps (writeLhs rec w l) := by
  have := @writeSubscript_steps N _ _ rec h
  unfold writeLhs; msteps

theorem fatal_steps {o : M N (WOut N)} (h : M.Steps o) : M.Steps (fatal o) := by
  unfold fatal; msteps

theorem loopGo_steps (h : RecSteps rec) (invert : Bool) (cond : Expr N) (body : List (Stmt N))
    (n : Nat) (st : ExecSt N) : M.Steps (loopGo rec invert cond body n st) := by
  induction n generalizing st with
  | zero => unfold loopGo; msteps
  | succ n ih => unfold loopGo; msteps

theorem execLoop_steps (h : RecSteps rec) (invert : Bool) (cond : Expr N) (body : Block N)
    (st : ExecSt N) : M.Steps (execLoop rec invert cond body st) := by
  have := @loopGo_steps N _ _ rec h
  unfold execLoop; msteps

theorem evalOpt_steps (h : RecSteps rec) (o : Option (Expr N)) : M.Steps (evalOpt rec o) := by
  unfold evalOpt; msteps

end Interp

macro_rules | `(tactic| msteps1) => `(tactic| with_reducible first
  | exact Interp.writeLhs_steps (by assumption) _ _ | exact Interp.execLoop_steps (by assumption) _ _ _ _
  | exact Interp.evalOpt_steps (by assumption) _
  | (apply Interp.fatal_steps))

namespace Interp
variable {rec : Rec N}

theorem execStmt_steps (h : RecSteps rec) (s : Stmt N) (st : ExecSt N) :
    M.Steps (execStmt rec s st) := by
  unfold execStmt; msteps

theorem bottom_steps : RecSteps (bottom : Rec N) :=
  ⟨fun _ => M.Steps.outOfFuel, fun _ => M.Steps.outOfFuel, fun _ _ => M.Steps.outOfFuel,
   fun _ _ => M.Steps.outOfFuel, fun _ _ => M.Steps.outOfFuel⟩

theorem mkRec_steps (h : RecSteps rec) : RecSteps (mkRec rec) :=
  ⟨evalExpr_steps h, evalPrimary_steps h, writeExpr_steps h, writePrimary_steps h, execStmt_steps h⟩

theorem interp_steps (n : Nat) : RecSteps (interp n : Rec N) := by
  induction n with
  | zero => exact bottom_steps
  | succ n ih => exact mkRec_steps ih

theorem execBlocks_steps (h : RecSteps rec) (bs : List (Block N)) (st : ExecSt N) :
    M.Steps (execBlocks rec bs st) := by
  induction bs generalizing st with
  | nil => unfold execBlocks; msteps
  | cons b bs ih => unfold execBlocks; msteps

theorem execProgram_steps (n : Nat) (p : Program N) : M.Steps (execProgram n p) := by
  have := @execBlocks_steps N _ _ _ (interp_steps (N := N) n)
  unfold execProgram; msteps

end Interp

/-! ### assigning to a variable stores the value (what `listen to x` ends with) -/

namespace Env

private theorem slookup_sset (k : VarName) (en : Entry N) (s : Scope N) : slookup k (sset k en s) = some en := by
  induction s with
  | nil => simp [sset, slookup]
  | cons p s ih =>
    obtain ⟨k', e'⟩ := p
    unfold sset
    by_cases h : k = k'
    · simp [h, slookup]
    · simp [h, slookup, ih]

private theorem lookupVarIn_setVarIn (x : VarName) (v cur : Val N) (scopes : List (Scope N))
    (h : lookupVarIn x scopes = .ok cur) : lookupVarIn x (setVarIn x v scopes) = .ok v := by
  induction scopes with
  | nil => simp [lookupVarIn] at h
  | cons s rest ih =>
    unfold lookupVarIn at h
    unfold setVarIn
    cases hs : slookup x.key s with
    | none =>
      simp only [hs] at h ⊢
      unfold lookupVarIn
      simp only [hs]
      exact ih h
    | some en =>
      simp only [hs] at h ⊢
      unfold lookupVarIn
      simp only [slookup_sset]

end Env

namespace Interp

private theorem writeCell_assign_var (v : Val N) (x : VarName) (env env' : Env N) (o : WOut N)
    (h : writeCell (assignW v) (.var x) [] env = (.ok o, env')) (ho : o.res = .ok ()) :
    lookupVarIn x env'.scopes = .ok v := by
  unfold writeCell resolve at h
  simp only at h
  cases hl : lookupVarIn x env.scopes with
  | ok cur =>
    simp only [hl, Val.updateAt, assignW] at h
    simp only [Prod.mk.injEq, Outcome.ok.injEq] at h
    rw [← h.2]
    exact lookupVarIn_setVarIn x v cur _ hl
  | error er =>
    simp only [hl] at h
    cases hsc : env.scopes with
    | nil => simp [hsc] at h
    | cons s rest =>
      simp only [hsc] at h
      cases hs : slookup x.key s with
      | some en =>
        simp only [hs] at h
        simp only [Prod.mk.injEq, Outcome.ok.injEq] at h
        rw [← h.1] at ho
        simp at ho
      | none =>
        simp only [hs, Val.updateAt, assignW] at h
        simp only [Prod.mk.injEq, Outcome.ok.injEq] at h
        rw [← h.2]
        simp only [setVarIn, slookup_sset, lookupVarIn]

theorem fatal_assign_var_ok {rec : Rec N} (v : Val N) (x : VarName) (r : Range) (env env' : Env N)
    (u : Unit) (h : fatal (writeLhs rec (assignW v) (.ident (.var x) r)) env = (.ok u, env')) :
    lookupVarIn x env'.scopes = .ok v := by
  unfold fatal writeLhs writeIdent at h
  simp only [bind, M.bind] at h
  rcases hw : writeCell (assignW v) (Target.var x) [] env with ⟨ro, e1⟩
  rw [hw] at h
  cases ro with
  | ok o =>
    simp only at h
    cases hres : o.res with
    | ok u' =>
      simp only [hres, pure, M.pure, Prod.mk.injEq] at h
      rw [← h.2]
      exact writeCell_assign_var v x env e1 o hw hres
    | error er => simp [hres, M.fail] at h
  | err er => simp at h
  | crash s => simp at h
  | fuel => simp at h
  | resource => simp at h

end Interp

end prims

end Rrss
