/-
  Rrss.Lemmas.Cast — helper lemmas for C07.3 / C07.4: `i64FromStrRadix` on digit strings,
  and "the transformations always return".
-/
import Rrss.Val
namespace Rrss

/-! ### digit strings -/

/-- the character `0-9a-z` spelling the digit value `d < 36` -/
def digitChar (d : Nat) : Char := Char.ofNat (if d < 10 then 48 + d else 87 + d)

/-- value of a list of digits in base `r`, most significant first -/
def digitsValue (r : Nat) (ds : List Nat) : Nat := ds.foldl (fun acc d => acc * r + d) 0

theorem digitChar_toNat : ∀ d, d < 36 → (digitChar d).toNat = if d < 10 then 48 + d else 87 + d := by
  decide

theorem digitChar_ne_sign : ∀ d, d < 36 → digitChar d ≠ '-' ∧ digitChar d ≠ '+' := by
  decide

theorem digitVal_digitChar (d r : Nat) (hd : d < r) (hr : r ≤ 36) :
    digitVal (digitChar d) r = some d := by
  have h36 : d < 36 := by omega
  have ht := digitChar_toNat d h36
  unfold digitVal
  simp only [ht]
  by_cases h10 : d < 10
  · simp only [if_pos h10]
    rw [if_pos (by omega)]
    simp only []
    rw [if_pos (by omega)]
    congr 1; omega
  · simp only [if_neg h10]
    rw [if_neg (by omega), if_pos (by omega)]
    simp only []
    rw [if_pos (by omega)]
    congr 1; omega

theorem digitsVal_digits (r : Nat) (hr : r ≤ 36) (ds : List Nat) (hds : ∀ d ∈ ds, d < r)
    (acc : Nat) :
    digitsVal r (ds.map digitChar) acc = some (ds.foldl (fun a d => a * r + d) acc) := by
  induction ds generalizing acc with
  | nil => rfl
  | cons d ds ih =>
    simp only [List.map_cons, digitsVal, List.foldl_cons]
    rw [digitVal_digitChar d r (hds d (by simp)) hr]
    exact ih (fun d' hd' => hds d' (by simp [hd'])) _

theorem i64FromStrRadix_cons_of_ne_minus (c : Char) (cs : Str) (r : Nat) (h : c ≠ '-') :
    i64FromStrRadix (c :: cs) r =
      (if (if c = '+' then cs else c :: cs).isEmpty then none else
       match digitsVal r (if c = '+' then cs else c :: cs) 0 with
       | some v => if v < 2^63 then some (Int.ofNat v) else none
       | none => none) := by
  unfold i64FromStrRadix
  split
  · next heq => cases heq
  · next heq => cases heq; exact absurd rfl h
  · next heq => cases heq; rfl

theorem i64FromStrRadix_minus (cs : Str) (r : Nat) :
    i64FromStrRadix ('-' :: cs) r =
      (if cs.isEmpty then none else
       match digitsVal r cs 0 with
       | some v => if v ≤ 2^63 then some (-(Int.ofNat v)) else none
       | none => none) := by
  unfold i64FromStrRadix
  split
  · next heq => cases heq
  · next heq => cases heq; rfl
  · next c cs' hne heq => cases heq; exact absurd rfl hne

theorem i64FromStrRadix_digits_aux (r : Nat) (hr : 2 ≤ r ∧ r ≤ 36) (ds : List Nat) (hne : ds ≠ [])
    (hds : ∀ d ∈ ds, d < r) :
    i64FromStrRadix (ds.map digitChar) r =
      (if digitsValue r ds < 2 ^ 63 then some (Int.ofNat (digitsValue r ds)) else none) ∧
    i64FromStrRadix ('+' :: ds.map digitChar) r =
      (if digitsValue r ds < 2 ^ 63 then some (Int.ofNat (digitsValue r ds)) else none) ∧
    i64FromStrRadix ('-' :: ds.map digitChar) r =
      (if digitsValue r ds ≤ 2 ^ 63 then some (-(Int.ofNat (digitsValue r ds))) else none) := by
  have hdv := digitsVal_digits r hr.2 ds hds 0
  have hmne : (ds.map digitChar).isEmpty = false := by cases ds <;> simp_all
  refine ⟨?_, ?_, ?_⟩
  · cases ds with
    | nil => exact absurd rfl hne
    | cons d ds' =>
      have hd : d < 36 := by have := hds d (by simp); omega
      have hsign := digitChar_ne_sign d hd
      simp only [List.map_cons] at hdv ⊢
      rw [i64FromStrRadix_cons_of_ne_minus _ _ _ hsign.1]
      simp only [if_neg hsign.2, List.isEmpty_cons]
      rw [hdv]
      rfl
  · rw [i64FromStrRadix_cons_of_ne_minus _ _ _ (by decide)]
    simp only [if_true, hmne]
    rw [hdv]
    rfl
  · rw [i64FromStrRadix_minus, hmne, hdv]
    rfl

/-! ### the standard digit strings `Nat.toDigits` (radix ≤ 16, the range of `Nat.digitChar`) -/

theorem natDigitChar_eq : ∀ d, d < 16 → Nat.digitChar d = digitChar d := by decide

theorem digitsValue_append_singleton (r : Nat) (ds : List Nat) (d : Nat) :
    digitsValue r (ds ++ [d]) = digitsValue r ds * r + d := by
  simp [digitsValue, List.foldl_append]

theorem toDigits_eq_map (r : Nat) (hr : 2 ≤ r ∧ r ≤ 16) (n : Nat) :
    ∃ ds : List Nat, ds ≠ [] ∧ (∀ d ∈ ds, d < r) ∧ Nat.toDigits r n = ds.map digitChar ∧
      digitsValue r ds = n := by
  induction n using Nat.strongRecOn with
  | _ n ih =>
    rw [Nat.toDigits_eq_if (by omega : 1 < r)]
    by_cases h : n < r
    · refine ⟨[n], by simp, by simpa using h, ?_, by simp [digitsValue]⟩
      rw [if_pos h, natDigitChar_eq n (by omega)]; rfl
    · have hlt : n / r < n := Nat.div_lt_self (by omega) (by omega)
      obtain ⟨ds, hne, hds, hmap, hval⟩ := ih (n / r) hlt
      have hmod : n % r < r := Nat.mod_lt _ (by omega)
      refine ⟨ds ++ [n % r], by simp, ?_, ?_, ?_⟩
      · intro d hd
        rcases List.mem_append.mp hd with hd | hd
        · exact hds d hd
        · have : d = n % r := by simpa using hd
          omega
      · rw [if_neg h, hmap, natDigitChar_eq (n % r) (by omega)]; simp
      · rw [digitsValue_append_singleton, hval]
        exact Nat.div_add_mod' n r

namespace Val
variable {N : Type} [NumOps N]

/-! ### the transformations always return -/

theorem cast_returns (v : Val N) (p : Option (Val N)) : (Val.cast v p).returns = true := by
  unfold Val.cast
  repeat' split
  all_goals rfl

omit [NumOps N] in
theorem split_returns (v : Val N) (p : Option (Val N)) : (Val.split v p).returns = true := by
  unfold Val.split
  repeat' split
  all_goals rfl

omit [NumOps N] in
theorem join_returns (v : Val N) (p : Option (Val N)) : (Val.join v p).returns = true := by
  unfold Val.join
  repeat' split
  all_goals rfl

theorem roundUp_returns (v : Val N) : (Val.roundUp v).returns = true := by
  cases v <;> rfl
theorem roundDown_returns (v : Val N) : (Val.roundDown v).returns = true := by
  cases v <;> rfl
theorem roundNearest_returns (v : Val N) : (Val.roundNearest v).returns = true := by
  cases v <;> rfl

end Val
end Rrss
