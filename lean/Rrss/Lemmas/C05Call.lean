/-
  Rrss.Lemmas.C05Call — resolution of reads and writes, the pronoun, and the inversion lemmas
  for blocks (`visit_block`), `if`, loop rounds and function calls (C05).
-/
import Rrss.Lemmas.C05Interp
import Rrss.Spec.Call
set_option linter.unusedSectionVars false
set_option linter.unusedVariables false
namespace Rrss
namespace C05
variable [CharOps] {N : Type} [NumOps N] {α β : Type}
open Env Interp Spec
open C09 (StPre)

/-! ### reads -/

theorem lookupVarIn_notFound_iff (name : VarName) (scopes : List (Scope N)) :
    lookupVarIn name scopes = .error (.nameNotFound name) ↔ ∀ d ∈ scopes.map keys, name.key ∉ d := by
  rw [lookupVarIn_eq]
  have hiff : firstBinding name.key scopes = none ↔ ∀ d ∈ scopes.map keys, name.key ∉ d := by
    rw [firstBinding_eq_none_iff]; simp
  cases h : firstBinding name.key scopes with
  | none => exact ⟨fun _ => hiff.mp h, fun _ => rfl⟩
  | some e => rw [← hiff, h]; cases e <;> simp

/-- `last_access()` with a referent: reads that name, leaves the environment alone -/
theorem lastAccess_of_some {env : Env N} {name : VarName} (h : env.last = some name) :
    lastAccess env =
      (match lookupVarIn name env.scopes with
       | .ok v => .ok v
       | .error e => .err e, env) := by
  unfold lastAccess; rw [h]; dsimp only; split <;> simp_all

theorem lastAccess_of_none {env : Env N} (h : env.last = none) :
    lastAccess env = (.err .missingPronoun, env) := by
  unfold lastAccess; rw [h]

/-! ### `resolve` and the pronoun -/

theorem resolve_var_last (name : VarName) (env : Env N) :
    (resolve (.var name) env).2.last = some name := by
  unfold resolve; dsimp only
  split
  · rfl
  · split
    · rfl
    · split <;> rfl

theorem resolve_pronoun_env (env : Env N) : (resolve .pronoun env).2 = env := by
  unfold resolve; dsimp only
  split
  · rfl
  · split <;> rfl

theorem resolve_pronoun_of_some {env : Env N} {name : VarName} (h : env.last = some name) :
    resolve .pronoun env =
      (match lookupVarIn name env.scopes with
       | .ok v => .ok (name, v)
       | .error e => .err e, env) := by
  unfold resolve; dsimp only; rw [h]; dsimp only; split <;> simp_all

theorem resolve_pronoun_of_none {env : Env N} (h : env.last = none) :
    resolve .pronoun env = (.err .missingPronoun, env) := by
  unfold resolve; dsimp only; rw [h]

/-- `writeCell` changes the environment only in `scopes` and `last`; `last` is what `resolve`
    left -/
theorem writeCell_last (w : Writer N) (t : Target) (keys : List (Val N)) (env : Env N) :
    (writeCell w t keys env).2.last = (resolve t env).2.last := by
  unfold writeCell
  rcases hres : resolve t env with ⟨(⟨name, cur⟩ | e | s | _ | _), env1⟩ <;> dsimp only
  rcases hu : Val.updateAt env1.cap w keys cur with ⟨newVal, status⟩
  cases status <;> rfl

theorem writeCell_var_last (w : Writer N) (name : VarName) (keys : List (Val N)) (env : Env N) :
    (writeCell w (.var name) keys env).2.last = some name := by
  rw [writeCell_last, resolve_var_last]

theorem writeCell_pronoun_last (w : Writer N) (keys : List (Val N)) (env : Env N) :
    (writeCell w .pronoun keys env).2.last = env.last := by
  rw [writeCell_last, resolve_pronoun_env]

/-! ### writes -/

theorem resolve_var_of_bound {env : Env N} {x : VarName} {old : Val N}
    (h : lookupVarIn x env.scopes = .ok old) :
    resolve (.var x) env = (.ok (x, old), { env with last := some x }) := by
  unfold resolve; dsimp only; rw [h]

/-- a write through a visible variable: the cell is rewritten in place by `setVarIn`, whatever
    the closure answers -/
theorem writeCell_var_of_bound (w : Writer N) (keys : List (Val N)) {env : Env N} {x : VarName}
    {old : Val N} (h : lookupVarIn x env.scopes = .ok old) :
    (writeCell w (.var x) keys env).2 =
      { env with last := some x,
                 scopes := setVarIn x (Val.updateAt env.cap w keys old).1 env.scopes } := by
  unfold writeCell
  rw [resolve_var_of_bound h]; dsimp only
  rcases hu : Val.updateAt env.cap w keys old with ⟨newVal, status⟩
  cases status <;> rfl

theorem updateAt_assignW (cap : Nat) (v cur : Val N) :
    Val.updateAt cap (assignW v) [] cur = (v, .ok none) := by
  simp [Val.updateAt, assignW]

/-- plain assignment to a visible variable -/
theorem writeCell_assign_of_bound {env : Env N} {x : VarName} {old : Val N} (v : Val N)
    (h : lookupVarIn x env.scopes = .ok old) :
    writeCell (assignW v) (.var x) [] env =
      (.ok { res := .ok (), back := none },
       { env with last := some x, scopes := setVarIn x v env.scopes }) := by
  unfold writeCell
  rw [resolve_var_of_bound h]; dsimp only
  rw [updateAt_assignW]

theorem sset_append_self {k : VarName} {s : Scope N} (e e0 : Entry N) (h : slookup k s = none) :
    sset k e (s ++ [(k, e0)]) = s ++ [(k, e)] := by
  induction s with
  | nil => simp [sset]
  | cons p s ih =>
    obtain ⟨k', e'⟩ := p
    unfold slookup at h
    by_cases hk : k = k'
    · simp [hk] at h
    · simp only [hk, ↓reduceIte] at h
      simp [sset, hk, ih h]

/-- `create_var`: the name is not visible as a variable and the innermost scope does not bind
    its key -/
theorem resolve_var_create {env : Env N} {x : VarName} {s : Scope N} {rest : List (Scope N)}
    {err : RtErr N} (h : lookupVarIn x env.scopes = .error err) (hs : env.scopes = s :: rest)
    (hn : slookup x.key s = none) :
    resolve (.var x) env =
      (.ok (x, .undef),
       { env with last := some x, scopes := (s ++ [(x.key, .var .undef)]) :: rest }) := by
  unfold resolve; dsimp only; rw [h]; dsimp only; rw [hs]; dsimp only; rw [hn]; dsimp only
  rw [sset_of_none _ hn]

/-- plain assignment to a name that is not visible as a variable and whose key the innermost
    scope does not bind: the variable is created at the end of the innermost scope -/
theorem writeCell_assign_create {env : Env N} {x : VarName} {s : Scope N}
    {rest : List (Scope N)} {err : RtErr N} (v : Val N)
    (h : lookupVarIn x env.scopes = .error err) (hs : env.scopes = s :: rest)
    (hn : slookup x.key s = none) :
    writeCell (assignW v) (.var x) [] env =
      (.ok { res := .ok (), back := none },
       { env with last := some x, scopes := (s ++ [(x.key, .var v)]) :: rest }) := by
  unfold writeCell
  rw [resolve_var_create h hs hn]; dsimp only
  rw [updateAt_assignW]; dsimp only
  have : slookup x.key (s ++ [(x.key, Entry.var (Val.undef : Val N))]) = some (.var .undef) := by
    rw [← sset_of_none _ hn]; exact slookup_sset_self _ _ _
  simp only [setVarIn, this, sset_append_self _ _ hn]

/-- the innermost scope binds the key to a function: `DuplicateSymbol`, captured -/
theorem writeCell_var_dup (w : Writer N) (keys : List (Val N)) {env : Env N} {x : VarName}
    {s : Scope N} {rest : List (Scope N)} {ps : List VarName} {b : Block N}
    (hs : env.scopes = s :: rest) (hf : slookup x.key s = some (.func ps b)) :
    writeCell w (.var x) keys env =
      (.ok { res := .error (.duplicateSymbol x) }, { env with last := some x }) := by
  have hl : lookupVarIn x env.scopes = .error (.expectedVarFoundFunc x) := by
    rw [hs]; simp [lookupVarIn, hf]
  unfold writeCell resolve; dsimp only; rw [hl]; dsimp only; rw [hs]; dsimp only; rw [hf]

/-! ### `visit_block` -/

theorem execStmts_nil (rec : Rec N) (st : ExecSt N) (env : Env N) :
    execStmts rec [] st env = (.ok st, env) := rfl

theorem execStmts_cons_ok {rec : Rec N} {s : Stmt N} {ss : List (Stmt N)} {st st' : ExecSt N}
    {env env' : Env N} :
    execStmts rec (s :: ss) st env = (.ok st', env') ↔
      ∃ st1 env1, rec.execStmt s st env = (.ok st1, env1) ∧
        if st1.flag.skipRest then st' = st1 ∧ env' = env1
        else execStmts rec ss st1 env1 = (.ok st', env') := by
  simp only [execStmts, bind_ok]
  constructor
  · rintro ⟨st1, env1, h1, h2⟩
    refine ⟨st1, env1, h1, ?_⟩
    split at h2 <;> rename_i hsk <;> simp only [hsk, ↓reduceIte]
    · obtain ⟨rfl, rfl⟩ := pure_ok.mp h2; exact ⟨rfl, rfl⟩
    · exact h2
  · rintro ⟨st1, env1, h1, h2⟩
    refine ⟨st1, env1, h1, ?_⟩
    split at h2 <;> rename_i hsk <;> simp only [hsk, ↓reduceIte]
    · obtain ⟨rfl, rfl⟩ := h2; rfl
    · exact h2

theorem skipRest_eq_false_iff (f : Flag) : f.skipRest = false ↔ f = .normal := by
  cases f <;> simp [Flag.skipRest]

/-- a block stops at the first statement that leaves a pending flag: what follows is not run -/
theorem execStmts_stop {rec : Rec N} {pre : List (Stmt N)} {s : Stmt N} {st st1 st2 : ExecSt N}
    {env env1 env2 : Env N} (hpre : execStmts rec pre st env = (.ok st1, env1))
    (hn : st1.flag = .normal) (hs : rec.execStmt s st1 env1 = (.ok st2, env2))
    (hf : st2.flag ≠ .normal) (post : List (Stmt N)) :
    execStmts rec (pre ++ s :: post) st env = (.ok st2, env2) := by
  induction pre generalizing st env with
  | nil =>
    obtain ⟨rfl, rfl⟩ := pure_ok.mp hpre
    rw [List.nil_append, execStmts_cons_ok]
    refine ⟨st2, env2, hs, ?_⟩
    have : st2.flag.skipRest = true := by
      cases h : st2.flag <;> simp_all [Flag.skipRest]
    simp [this]
  | cons s0 pre ih =>
    obtain ⟨st0, env0, h0, hrest⟩ := execStmts_cons_ok.mp hpre
    rw [List.cons_append, execStmts_cons_ok]
    refine ⟨st0, env0, h0, ?_⟩
    split at hrest <;> rename_i hsk
    · obtain ⟨rfl, rfl⟩ := hrest
      rw [hn] at hsk; simp [Flag.skipRest] at hsk
    · simp only [hsk]; exact ih hrest

/-- a block that ends with a pending flag, started without one: some statement of the block set
    the flag, everything before it ran to completion with flag `Normal`, and the final state
    and environment are exactly those that statement left -/
theorem execStmts_flag_inv {rec : Rec N} {ss : List (Stmt N)} {st st' : ExecSt N}
    {env env' : Env N} (h : execStmts rec ss st env = (.ok st', env')) (hst : st.flag = .normal)
    (hf : st'.flag ≠ .normal) :
    ∃ pre s post st1 env1, ss = pre ++ s :: post ∧ execStmts rec pre st env = (.ok st1, env1)
      ∧ st1.flag = .normal ∧ rec.execStmt s st1 env1 = (.ok st', env') := by
  induction ss generalizing st env with
  | nil =>
    obtain ⟨rfl, rfl⟩ := pure_ok.mp h
    exact absurd hst hf
  | cons s0 ss ih =>
    obtain ⟨st0, env0, h0, hrest⟩ := execStmts_cons_ok.mp h
    split at hrest <;> rename_i hsk
    · obtain ⟨rfl, rfl⟩ := hrest
      exact ⟨[], s0, ss, st, env, rfl, rfl, hst, h0⟩
    · have hn0 : st0.flag = .normal := (skipRest_eq_false_iff _).mp (by simpa using hsk)
      obtain ⟨pre, s, post, st1, env1, rfl, hpre, hn1, hs⟩ := ih hrest hn0
      refine ⟨s0 :: pre, s, post, st1, env1, rfl, ?_, hn1, hs⟩
      rw [execStmts_cons_ok]
      exact ⟨st0, env0, h0, by simp only [hsk]; exact hpre⟩

/-- a block that ends with flag `Normal`, started with flag `Normal`: all of it ran -/
theorem execStmts_append_normal {rec : Rec N} {pre post : List (Stmt N)} {st st1 : ExecSt N}
    {env env1 : Env N} (hpre : execStmts rec pre st env = (.ok st1, env1))
    (hn : st1.flag = .normal) :
    execStmts rec (pre ++ post) st env = execStmts rec post st1 env1 := by
  induction pre generalizing st env with
  | nil => obtain ⟨rfl, rfl⟩ := pure_ok.mp hpre; rfl
  | cons s0 pre ih =>
    obtain ⟨st0, env0, h0, hrest⟩ := execStmts_cons_ok.mp hpre
    split at hrest <;> rename_i hsk
    · obtain ⟨rfl, rfl⟩ := hrest
      rw [hn] at hsk; simp [Flag.skipRest] at hsk
    · rw [List.cons_append]
      show M.bind (rec.execStmt s0 st) _ env = _
      unfold M.bind; rw [h0]; dsimp only
      simp only [hsk]
      exact ih hrest

/-! ### statements -/

/-- `give back e` -/
theorem execStmt_ret_ok {rec : Rec N} {e : Expr N} {st st' : ExecSt N} {env env' : Env N} :
    execStmt rec (.ret e) st env = (.ok st', env') ↔
      ∃ env0 v, tick env = (.ok (), env0) ∧ st.ret = none ∧ st.flag = .normal
        ∧ rec.evalExpr e env0 = (.ok v, env') ∧ st' = { flag := .returning, ret := some v } := by
  simp only [execStmt, bind_ok, pure_ok, assert_ok]
  constructor
  · rintro ⟨_, env0, h0, _, e0, ⟨hr, he0⟩, v, env1, hv, _, e1, ⟨hf, he1⟩, hst, he'⟩
    subst he0; subst he1; subst he'
    exact ⟨_, v, h0, by simpa using hr, by simpa using hf, hv, hst.symm⟩
  · rintro ⟨env0, v, h0, hr, hf, hv, rfl⟩
    exact ⟨(), env0, h0, (), env0, ⟨by simp [hr], rfl⟩, v, env', hv, (), env',
      ⟨by simp [hf], rfl⟩, rfl, rfl⟩

/-- `if`: tick, condition, push, branch, pop -/
theorem execStmt_if_ok {rec : Rec N} {c : Expr N} {t : Block N} {e : Option (Block N)}
    {st st' : ExecSt N} {env env' : Env N} :
    execStmt rec (.ifS c t e) st env = (.ok st', env') ↔
      ∃ env0 cv env1 env2, tick env = (.ok (), env0) ∧ rec.evalExpr c env0 = (.ok cv, env1)
        ∧ execStmts rec (ifBranch cv t e) st { env1 with scopes := [] :: env1.scopes }
            = (.ok st', env2)
        ∧ popScope env2 = (.ok (), env') := by
  have hbr : ∀ cv : Val N, (match e with
      | some b => if cv.isTruthy = true then execStmts rec t.stmts st else execStmts rec b.stmts st
      | none => if cv.isTruthy = true then execStmts rec t.stmts st else pure st)
      = execStmts rec (ifBranch cv t e) st := by
    intro cv; unfold ifBranch
    cases e <;> dsimp only <;> split <;> rfl
  constructor
  · intro h
    cases e <;> simp only [execStmt, bind_ok, pure_ok, pushScope_ok] at h <;>
      obtain ⟨_, env0, h0, cv, env1, hc, _, _, rfl, st1, env2, hb, _, env3, hp, rfl, rfl⟩ := h <;>
      refine ⟨env0, cv, env1, env2, h0, hc, ?_, hp⟩ <;> rw [← hbr] <;> exact hb
  · rintro ⟨env0, cv, env1, env2, h0, hc, hb, hp⟩
    rw [← hbr] at hb
    cases e <;> simp only [execStmt, bind_ok, pure_ok, pushScope_ok] <;>
      exact ⟨(), env0, h0, cv, env1, hc, (), _, rfl, st', env2, hb, (), env', hp, rfl, rfl⟩

/-- one round of a loop: condition; if it says "go on": tick, push, body, pop, and then — by
    the flag the body left — the next round, or out -/
theorem loopGo_succ_ok {rec : Rec N} {invert : Bool} {cond : Expr N} {body : List (Stmt N)}
    {n : Nat} {st st' : ExecSt N} {env env' : Env N} :
    loopGo rec invert cond body (n + 1) st env = (.ok st', env') ↔
      ∃ cv env1, rec.evalExpr cond env = (.ok cv, env1) ∧
        (((invert != cv.isTruthy) = false ∧ st' = st ∧ env' = env1) ∨
         ((invert != cv.isTruthy) = true ∧ ∃ env2 st1 env3 env4,
            tick env1 = (.ok (), env2)
            ∧ execStmts rec body st { env2 with scopes := [] :: env2.scopes } = (.ok st1, env3)
            ∧ popScope env3 = (.ok (), env4)
            ∧ afterRound rec invert cond body n st1 env4 = (.ok st', env'))) := by
  simp only [loopGo, bind_ok]
  constructor
  · rintro ⟨cv, env1, hc, h⟩
    refine ⟨cv, env1, hc, ?_⟩
    split at h <;> rename_i hgo
    · obtain ⟨_, env2, ht, h⟩ := bind_ok.mp h
      obtain ⟨_, env2', hpush, h⟩ := bind_ok.mp h
      obtain ⟨st1, env3, hb, h⟩ := bind_ok.mp h
      obtain ⟨_, env4, hp, h⟩ := bind_ok.mp h
      rw [pushScope_ok.mp hpush] at hb
      exact .inr ⟨hgo, env2, st1, env3, env4, ht, hb, hp, h⟩
    · obtain ⟨rfl, rfl⟩ := pure_ok.mp h
      exact .inl ⟨by simpa using hgo, rfl, rfl⟩
  · rintro ⟨cv, env1, hc, h⟩
    refine ⟨cv, env1, hc, ?_⟩
    rcases h with ⟨hgo, rfl, rfl⟩ | ⟨hgo, env2, st1, env3, env4, ht, hb, hp, h⟩
    · simp only [hgo]; rfl
    · simp only [hgo, ↓reduceIte]
      exact bind_ok.mpr ⟨(), env2, ht, bind_ok.mpr ⟨(), _, pushScope_ok.mpr rfl,
        bind_ok.mpr ⟨st1, env3, hb, bind_ok.mpr ⟨(), env4, hp, h⟩⟩⟩⟩

/-- `while` / `until` statements run `loopGo` with as many rounds as the step budget allows -/
theorem execStmt_loop_ok {rec : Rec N} (invert : Bool) {cond : Expr N} {body : Block N}
    {st st' : ExecSt N} {env env' : Env N} :
    execLoop rec invert cond body st env = (.ok st', env') ↔
      loopGo rec invert cond body.stmts (env.steps + 1) st env = (.ok st', env') := by
  simp only [execLoop, bind_ok, get_ok]
  constructor
  · rintro ⟨_, _, ⟨rfl, rfl⟩, h⟩; exact h
  · intro h; exact ⟨_, _, ⟨rfl, rfl⟩, h⟩

/-! ### calls -/

theorem evalArgs_ok_iff {rec : Rec N} {es : List (Expr N)} {env env' : Env N} {vs : List (Val N)} :
    evalArgs rec es env = (.ok vs, env') ↔ EvalSeq rec es env vs env' := by
  induction es generalizing env vs with
  | nil =>
    simp only [evalArgs, pure_ok]
    constructor
    · rintro ⟨rfl, rfl⟩; exact .nil _
    · intro h; cases h; exact ⟨rfl, rfl⟩
  | cons e es ih =>
    simp only [evalArgs, bind_ok, pure_ok]
    constructor
    · rintro ⟨v, env1, hv, vs', env2, hvs, rfl, rfl⟩
      exact .cons hv (ih.mp hvs)
    · intro h
      cases h with
      | cons hv hvs => exact ⟨_, _, hv, _, _, ih.mpr hvs, rfl, rfl⟩

/-- the first argument that fails ends the evaluation: the failure and the environment are its -/
theorem evalArgs_fail {rec : Rec N} {pre : List (Expr N)} {e : Expr N} {env env1 env2 : Env N}
    {vs : List (Val N)} {o : Outcome (RtErr N) (Val N)} (hpre : EvalSeq rec pre env vs env1)
    (he : rec.evalExpr e env1 = (o, env2)) (hfail : ∀ v, o ≠ .ok v) (post : List (Expr N)) :
    evalArgs rec (pre ++ e :: post) env = (o.bind fun _ => .ok [], env2) := by
  induction hpre with
  | nil env =>
    show M.bind (rec.evalExpr e) _ env = _
    unfold M.bind; rw [he]
    cases o <;> simp_all
  | cons hv hvs ih =>
    rw [List.cons_append]
    show M.bind (rec.evalExpr _) _ _ = _
    unfold M.bind; rw [hv]; dsimp only
    show M.bind (evalArgs rec _) _ _ = _
    unfold M.bind; rw [ih he]
    cases o <;> simp_all

theorem evalSeq_length {rec : Rec N} {es : List (Expr N)} {env env' : Env N} {vs : List (Val N)}
    (h : EvalSeq rec es env vs env') : vs.length = es.length := by
  induction h with
  | nil => rfl
  | cons _ _ ih => simp [ih]

/-- `visit_function_call`, success: look up, check the arity, evaluate the arguments in the
    caller's environment, tick, push the function scope, run the body from a fresh `ExecStmt`,
    pop, answer the return value or mysterious -/
theorem callFunction_ok_iff {rec : Rec N} {name : VarName} {args : List (Expr N)} {v : Val N}
    {env env' : Env N} :
    callFunction rec name args env = (.ok v, env') ↔
      ∃ params body vals env1 env2 sc st env3,
        lookupFuncIn name env.scopes = .ok (params, body) ∧ params.length = args.length
        ∧ evalArgs rec args env = (.ok vals, env1) ∧ tick env1 = (.ok (), env2)
        ∧ functionScope (params.zip vals) [] = .ok sc
        ∧ execStmts rec body.stmts {} { env2 with scopes := sc :: env2.scopes } = (.ok st, env3)
        ∧ popScope env3 = (.ok (), env') ∧ v = st.ret.getD .undef := by
  simp only [callFunction, bind_ok, get_ok, liftE_ok]
  constructor
  · rintro ⟨_, _, ⟨rfl, rfl⟩, ⟨params, body⟩, _, ⟨hl, rfl⟩, h⟩
    dsimp only at h
    split at h <;> rename_i hlen
    · exact (fail_ok.mp h).elim
    · obtain ⟨vals, env1, hv, h⟩ := bind_ok.mp h
      obtain ⟨_, env2, ht, h⟩ := bind_ok.mp h
      obtain ⟨_, env2', hpush, h⟩ := bind_ok.mp h
      obtain ⟨st, env3, hb, h⟩ := bind_ok.mp h
      obtain ⟨_, env4, hp, h⟩ := bind_ok.mp h
      obtain ⟨rfl, rfl⟩ := pure_ok.mp h
      obtain ⟨sc, hsc, rfl⟩ := pushFunctionScope_ok.mp hpush
      exact ⟨params, body, vals, env1, env2, sc, st, env3, hl, by simpa using hlen, hv, ht, hsc, hb,
        hp, rfl⟩
  · rintro ⟨params, body, vals, env1, env2, sc, st, env3, hl, hlen, hv, ht, hsc, hb, hp, rfl⟩
    refine ⟨env, env, ⟨rfl, rfl⟩, (params, body), env, ⟨hl, rfl⟩, ?_⟩
    dsimp only
    have : (params.length != args.length) = false := by simpa using hlen
    simp only [this, Bool.false_eq_true, ↓reduceIte]
    exact bind_ok.mpr ⟨vals, env1, hv, bind_ok.mpr ⟨(), env2, ht, bind_ok.mpr ⟨(), _,
      pushFunctionScope_ok.mpr ⟨sc, hsc, rfl⟩, bind_ok.mpr ⟨st, env3, hb,
        bind_ok.mpr ⟨(), env', hp, pure_ok.mpr ⟨rfl, rfl⟩⟩⟩⟩⟩⟩

/-- the name does not denote a function: the lookup error, nothing evaluated, nothing changed -/
theorem callFunction_lookup_error {rec : Rec N} {name : VarName} {args : List (Expr N)}
    {env : Env N} {e : RtErr N} (h : lookupFuncIn name env.scopes = .error e) :
    callFunction rec name args env = (.err e, env) := by
  unfold callFunction
  show M.bind M.get _ env = _
  unfold M.bind M.get; dsimp only
  show M.bind (M.liftE _) _ env = _
  unfold M.bind; rw [h]; rfl

/-- wrong number of arguments: the error comes before any argument is evaluated -/
theorem callFunction_wrong_arity {rec : Rec N} {name : VarName} {args : List (Expr N)}
    {env : Env N} {params : List VarName} {body : Block N}
    (h : lookupFuncIn name env.scopes = .ok (params, body)) (hlen : params.length ≠ args.length) :
    callFunction rec name args env = (.err (.wrongArgCount params.length args.length), env) := by
  unfold callFunction
  show M.bind M.get _ env = _
  unfold M.bind M.get; dsimp only
  show M.bind (M.liftE _) _ env = _
  unfold M.bind; rw [h]; dsimp only [M.liftE]
  have : (params.length != args.length) = true := by simpa using hlen
  simp only [this, ↓reduceIte]; rfl

/-- the arguments are evaluated before anything else happens: if one fails, that is the call's
    outcome, in the environment the failed evaluation left (no scope was pushed) -/
theorem callFunction_args_fail {rec : Rec N} {name : VarName} {args : List (Expr N)}
    {env env1 : Env N} {params : List VarName} {body : Block N}
    {o : Outcome (RtErr N) (List (Val N))}
    (h : lookupFuncIn name env.scopes = .ok (params, body)) (hlen : params.length = args.length)
    (hargs : evalArgs rec args env = (o, env1)) (hfail : ∀ vs, o ≠ .ok vs) :
    callFunction rec name args env = (o.bind fun _ => .ok .undef, env1) := by
  unfold callFunction
  show M.bind M.get _ env = _
  unfold M.bind M.get; dsimp only
  show M.bind (M.liftE _) _ env = _
  unfold M.bind; rw [h]; dsimp only [M.liftE]
  have : (params.length != args.length) = false := by simpa using hlen
  simp only [this, Bool.false_eq_true, ↓reduceIte]
  show M.bind (evalArgs rec args) _ env = _
  unfold M.bind; rw [hargs]
  cases o <;> simp_all

/-- duplicate parameter keys: `DuplicateArgName` after the arguments were evaluated -/
theorem callFunction_dup_params {rec : Rec N} {name : VarName} {args : List (Expr N)}
    {env env1 env2 : Env N} {params : List VarName} {body : Block N} {vals : List (Val N)}
    {n : VarName}
    (h : lookupFuncIn name env.scopes = .ok (params, body)) (hlen : params.length = args.length)
    (hargs : evalArgs rec args env = (.ok vals, env1)) (ht : tick env1 = (.ok (), env2))
    (hdup : functionScope (params.zip vals) [] = .error (.duplicateArgName n)) :
    callFunction rec name args env = (.err (.duplicateArgName n), env2) := by
  unfold callFunction
  show M.bind M.get _ env = _
  unfold M.bind M.get; dsimp only
  show M.bind (M.liftE _) _ env = _
  unfold M.bind; rw [h]; dsimp only [M.liftE]
  have : (params.length != args.length) = false := by simpa using hlen
  simp only [this, Bool.false_eq_true, ↓reduceIte]
  show M.bind (evalArgs rec args) _ env = _
  unfold M.bind; rw [hargs]; dsimp only
  show M.bind tick _ env1 = _
  unfold M.bind; rw [ht]; dsimp only
  show M.bind (pushFunctionScope _) _ env2 = _
  unfold M.bind pushFunctionScope; rw [hdup]

/-! ### blocks in a scope of their own -/

/-- a block ran in a pushed scope and the scope was popped: the remaining scopes have exactly
    the signatures they had when the scope was pushed, and the pronoun refers to nothing -/
theorem scoped_exact {σ : List (Scope N)} {sc : Scope N} {env3 env' : Env N} {u : Unit}
    (hstep : Step (sc :: σ) env3.scopes) (hpop : popScope env3 = (.ok u, env')) :
    env'.scopes.map sig = σ.map sig ∧ env'.last = none ∧ Step σ env'.scopes := by
  obtain ⟨s, s2, rest, hs, rfl⟩ := popScope_ok.mp hpop
  obtain ⟨sc', σ', he, hst⟩ := hstep.tail sc σ rfl
  have hext := hstep.scExt
  rw [hs] at he hext
  simp only [List.cons.injEq] at he
  obtain ⟨rfl, rfl⟩ := he
  exact ⟨hext.popped, rfl, hst⟩

theorem ScExt.grow {a b : List (Scope N)} (h : ScExt a b) :
    Grow (a.map keys) (b.map keys) ∧ Grow (a.map sig) (b.map sig) :=
  ⟨⟨by simpa using h.length, h.doms.1, h.doms.2⟩, ⟨by simpa using h.length, h.sigs.1, h.sigs.2⟩⟩

theorem Step.discipline {env env' : Env N} (h : Step env.scopes env'.scopes) :
    Discipline env env' := ⟨h.scExt.length, h.scExt.grow⟩

theorem doms_eq_of_sigs_eq {env env' : Env N} (h : sigs env' = sigs env) : doms env' = doms env := by
  have hk : (keys : Scope N → List VarName) = List.map (·.1) ∘ sig := by
    funext s; simp [keys, sig]
  unfold doms; unfold sigs at h
  rw [hk, ← List.map_map, ← List.map_map, h]

/-- a name that is unbound stays unbound when the domains are the same -/
theorem notFound_of_doms_eq {env env' : Env N} (h : doms env' = doms env) (x : VarName)
    (hx : lookupVarIn x env.scopes = .error (.nameNotFound x)) :
    lookupVarIn x env'.scopes = .error (.nameNotFound x) := by
  rw [lookupVarIn_notFound_iff] at hx ⊢
  have : env'.scopes.map keys = env.scopes.map keys := h
  rw [this]; exact hx

/-- a block that runs in a pushed scope `sc` and whose scope is then popped (the pattern of `if`,
    of every loop round and of every call): afterwards the signatures of all scopes are exactly
    those from before the push, the pronoun refers to nothing, what happened to the scopes is a
    `Step`, and no binding of a key of `sc` in any scope below changed -/
theorem block_exact {rec : Rec N} (hrec : RecSc rec) {ss : List (Stmt N)} {st st1 : ExecSt N}
    {env env3 env4 : Env N} {sc : Scope N} {u : Unit}
    (hb : execStmts rec ss st { env with scopes := sc :: env.scopes } = (.ok st1, env3))
    (hp : popScope env3 = (.ok u, env4)) :
    sigs env4 = sigs env ∧ env4.last = none ∧ Step env.scopes env4.scopes
      ∧ (∀ k ∈ keys sc, env4.scopes.map (slookup k) = env.scopes.map (slookup k))
      ∧ FinIf st st1 := by
  obtain ⟨hstep, hfin⟩ := pres_execStmts hrec ss st _ _ _ hb
  dsimp only at hstep
  obtain ⟨h1, h2, h3⟩ := scoped_exact hstep hp
  refine ⟨h1, h2, h3, ?_, hfin⟩
  obtain ⟨s, s2, rest, hs, rfl⟩ := popScope_ok.mp hp
  have hsh := hstep.shielded
  rw [hs] at hsh
  exact hsh.1

/-- `if`, with the invariant of the interpreter record -/
theorem if_exact {rec : Rec N} (hrec : RecSc rec) {c : Expr N} {t : Block N}
    {e : Option (Block N)} {st st' : ExecSt N} {env env' : Env N}
    (h : execStmt rec (.ifS c t e) st env = (.ok st', env')) :
    ∃ env0 cv env1 env2, tick env = (.ok (), env0) ∧ rec.evalExpr c env0 = (.ok cv, env1)
      ∧ execStmts rec (ifBranch cv t e) st { env1 with scopes := [] :: env1.scopes }
          = (.ok st', env2)
      ∧ popScope env2 = (.ok (), env')
      ∧ sigs env' = sigs env1 ∧ env'.last = none := by
  obtain ⟨env0, cv, env1, env2, h0, hc, hb, hp⟩ := execStmt_if_ok.mp h
  obtain ⟨h1, h2, _⟩ := block_exact hrec hb hp
  exact ⟨env0, cv, env1, env2, h0, hc, hb, hp, h1, h2⟩

theorem tick_sigs {env env' : Env N} {u : Unit} (h : tick env = (.ok u, env')) :
    env'.scopes = env.scopes ∧ env'.last = env.last := by
  obtain ⟨n, _, rfl⟩ := tick_ok.mp h; exact ⟨rfl, rfl⟩

/-- a successful call, with the invariant of the interpreter record -/
theorem call_exact {rec : Rec N} (hrec : RecSc rec) {name : VarName} {args : List (Expr N)}
    {v : Val N} {env env' : Env N} (h : callFunction rec name args env = (.ok v, env')) :
    ∃ params body vals env1 env2 st env3,
      lookupFuncIn name env.scopes = .ok (params, body) ∧ params.length = args.length
      ∧ EvalSeq rec args env vals env1 ∧ tick env1 = (.ok (), env2)
      ∧ (params.map VarName.key).Nodup
      ∧ execStmts rec body.stmts {}
          { env2 with scopes := ((params.zip vals).map fun a => (a.1.key, Entry.var a.2))
                                  :: env2.scopes } = (.ok st, env3)
      ∧ popScope env3 = (.ok (), env')
      ∧ ((st.flag = .returning ∧ st.ret = some v) ∨ (st.flag ≠ .returning ∧ v = .undef))
      ∧ sigs env' = sigs env1 ∧ env'.last = none
      ∧ (∀ p ∈ params, env'.scopes.map (slookup p.key) = env1.scopes.map (slookup p.key)) := by
  obtain ⟨params, body, vals, env1, env2, sc, st, env3, hl, hlen, hv, ht, hsc, hb, hp, rfl⟩ :=
    callFunction_ok_iff.mp h
  have hseq := evalArgs_ok_iff.mp hv
  have hvl : vals.length = params.length := by rw [evalSeq_length hseq, hlen]
  have hzip : (params.zip vals).map (·.1.key) = params.map VarName.key := by
    rw [show (fun x : VarName × Val N => x.1.key) = VarName.key ∘ Prod.fst from rfl,
      ← List.map_map, List.map_fst_zip (by omega)]
  have hnd : (params.map VarName.key).Nodup := by
    rw [← hzip]
    by_cases hnd : ((params.zip vals).map (·.1.key)).Nodup
    · exact hnd
    · obtain ⟨n, _, hdup⟩ := functionScope_dup _ hnd
      rw [hdup] at hsc; cases hsc
  have hsc' := functionScope_ok (params.zip vals) (by rw [hzip]; exact hnd)
  rw [hsc] at hsc'
  simp only [Except.ok.injEq] at hsc'
  subst hsc'
  obtain ⟨h1, h2, h3, h4, hfin⟩ := block_exact hrec hb hp
  obtain ⟨hs2, _⟩ := tick_sigs ht
  have hfin := hfin ⟨rfl, rfl⟩
  refine ⟨params, body, vals, env1, env2, st, env3, hl, hlen, hseq, ht, hnd, hb, hp, ?_, ?_, h2, ?_⟩
  · by_cases hf : st.flag = .returning
    · have := hfin.1 hf
      cases hr : st.ret with
      | none => simp [hr] at this
      | some v => exact .inl ⟨hf, by simp⟩
    · exact .inr ⟨hf, by simp [hfin.2 hf]⟩
  · rw [h1]; unfold sigs; rw [hs2]
  · intro p hp'
    have hk : p.key ∈ keys ((params.zip vals).map fun a => (a.1.key, Entry.var a.2)) := by
      have : keys ((params.zip vals).map fun a => (a.1.key, Entry.var a.2))
          = params.map VarName.key := by
        rw [← hzip]; simp [keys]
      rw [this]; exact List.mem_map_of_mem hp'
    have := h4 p.key hk
    rw [this, hs2]

/-- a loop round, with the invariant of the interpreter record -/
theorem round_exact {rec : Rec N} (hrec : RecSc rec) {body : List (Stmt N)} {st st1 : ExecSt N}
    {env1 env2 env3 env4 : Env N} (ht : tick env1 = (.ok (), env2))
    (hb : execStmts rec body st { env2 with scopes := [] :: env2.scopes } = (.ok st1, env3))
    (hp : popScope env3 = (.ok (), env4)) :
    sigs env4 = sigs env1 ∧ env4.last = none := by
  obtain ⟨h1, h2, _⟩ := block_exact hrec hb hp
  refine ⟨?_, h2⟩
  rw [h1]; unfold sigs; rw [(tick_sigs ht).1]

/-! ### `put e into x` -/

theorem bind_of_ok {m : M N α} {f : α → M N β} {env env' : Env N} {a : α}
    (h : m env = (.ok a, env')) : (m >>= f) env = f a env' := by
  show M.bind m f env = _
  unfold M.bind; rw [h]

/-- `put e into x` (also `let x be e`, `x is …`): tick, evaluate, write through `x`; a captured
    write error is fatal -/
theorem execStmt_assign_var {rec : Rec N} {x : VarName} {r : Range} {e : Expr N} {st : ExecSt N}
    {env env0 env1 env2 : Env N} {v : Val N} {out : WOut N}
    (h0 : tick env = (.ok (), env0)) (hv : rec.evalExpr e env0 = (.ok v, env1))
    (hw : writeCell (assignW v) (.var x) [] env1 = (.ok out, env2)) :
    execStmt rec (.assign (.ident (.var x) r) none ⟨e, []⟩) st env =
      match out.res with
      | .ok () => (.ok st, env2)
      | .error err => (.err err, env2) := by
  simp only [execStmt, List.isEmpty_nil, Bool.not_true, Bool.false_eq_true, ↓reduceIte]
  rw [bind_of_ok h0, bind_of_ok hv]
  simp only [writeLhs, writeIdent, fatal]
  show M.bind (M.bind (writeCell _ _ _) _) _ env1 = _
  unfold M.bind; rw [hw]; dsimp only
  cases hres : out.res <;> rfl

/-! ### writes, against the decomposition of the stack -/

theorem mem_keys_of_binding {k : VarName} {s : Scope N} {e : Entry N} (h : binding k s = some e) :
    k ∈ keys s := mem_keys_of_slookup (by rw [slookup_eq_binding]; exact h)

/-- the innermost scope binding the key binds it to a variable: that is what a read sees -/
theorem lookupVarIn_of_decomp {x : VarName} {pre post : List (Scope N)} {s : Scope N}
    {old : Val N} (hpre : ∀ t ∈ pre, x.key ∉ keys t) (hs : binding x.key s = some (.var old)) :
    lookupVarIn x (pre ++ s :: post) = .ok old :=
  (lookupVarIn_ok_iff _ _ _).mpr
    ((firstBinding_eq_some_iff _ _ _).mpr ⟨pre, s, post, rfl, hpre, mem_keys_of_binding hs, hs⟩)

/-- a write (any closure, any subscripts) through a name whose innermost binding is a variable
    rewrites the entry of exactly that scope; the scopes above and below are untouched -/
theorem writeCell_var_decomp (w : Writer N) (ks : List (Val N)) {env : Env N} {x : VarName}
    {pre post : List (Scope N)} {s : Scope N} {old : Val N} (henv : env.scopes = pre ++ s :: post)
    (hpre : ∀ t ∈ pre, x.key ∉ keys t) (hs : binding x.key s = some (.var old)) :
    (writeCell w (.var x) ks env).2 =
      { env with last := some x,
                 scopes := pre ++ sset x.key (.var (Val.updateAt env.cap w ks old).1) s :: post } := by
  have hl : lookupVarIn x env.scopes = .ok old := by rw [henv]; exact lookupVarIn_of_decomp hpre hs
  rw [writeCell_var_of_bound w ks hl, henv, setVarIn_eq _ _ _ _ _ hpre (mem_keys_of_binding hs)]

theorem binding_sset (k' k : VarName) (e : Entry N) (s : Scope N) :
    binding k' (sset k e s) = if k' = k then some e else binding k' s := by
  rw [← slookup_eq_binding, ← slookup_eq_binding]; exact slookup_sset k' k e s

theorem afterRound_returning {rec : Rec N} {invert : Bool} {cond : Expr N} {body : List (Stmt N)}
    {n : Nat} {st1 : ExecSt N} (h : st1.flag = .returning) (env : Env N) :
    afterRound rec invert cond body n st1 env = (.ok st1, env) := by
  unfold afterRound; rw [h]; rfl

theorem afterRound_breaking {rec : Rec N} {invert : Bool} {cond : Expr N} {body : List (Stmt N)}
    {n : Nat} {st1 : ExecSt N} (h : st1.flag = .breaking) (env : Env N) :
    afterRound rec invert cond body n st1 env = (.ok { st1 with flag := .normal }, env) := by
  unfold afterRound; rw [h]; rfl

theorem blockLeft_of {env1 env' : Env N} (h1 : sigs env' = sigs env1) (h2 : env'.last = none) :
    BlockLeft env1 env' :=
  ⟨h1, doms_eq_of_sigs_eq h1, notFound_of_doms_eq (doms_eq_of_sigs_eq h1), h2,
    lastAccess_of_none h2⟩

theorem Pres.disc {p : α → Prop} {m : M N α} (h : Pres p m) {env env' : Env N} {a : α}
    (hm : m env = (.ok a, env')) : Step env.scopes env'.scopes ∧ Discipline env env' :=
  ⟨(h env a env' hm).1, (h env a env' hm).1.discipline⟩

theorem PresW.disc {m : M N (WOut N)} (h : PresW m) {env env' : Env N} {out : WOut N}
    (hm : m env = (.ok out, env')) (hres : out.res = .ok ()) :
    Step env.scopes env'.scopes ∧ Discipline env env' :=
  ⟨h env out env' hm hres, (h env out env' hm hres).discipline⟩

/-- `while` / `until`: tick, then `loopGo` with the step budget as bound on the rounds -/
theorem execStmt_while_ok {rec : Rec N} {cond : Expr N} {body : Block N} {st st' : ExecSt N}
    {env env' : Env N} :
    execStmt rec (.whileS cond body) st env = (.ok st', env') ↔
      ∃ env0, tick env = (.ok (), env0)
        ∧ loopGo rec false cond body.stmts (env0.steps + 1) st env0 = (.ok st', env') := by
  simp only [execStmt, bind_ok, execStmt_loop_ok]
  constructor
  · rintro ⟨_, env0, h0, h⟩; exact ⟨env0, h0, h⟩
  · rintro ⟨env0, h0, h⟩; exact ⟨(), env0, h0, h⟩

theorem execStmt_until_ok {rec : Rec N} {cond : Expr N} {body : Block N} {st st' : ExecSt N}
    {env env' : Env N} :
    execStmt rec (.untilS cond body) st env = (.ok st', env') ↔
      ∃ env0, tick env = (.ok (), env0)
        ∧ loopGo rec true cond body.stmts (env0.steps + 1) st env0 = (.ok st', env') := by
  simp only [execStmt, bind_ok, execStmt_loop_ok]
  constructor
  · rintro ⟨_, env0, h0, h⟩; exact ⟨env0, h0, h⟩
  · rintro ⟨env0, h0, h⟩; exact ⟨(), env0, h0, h⟩

end C05
end Rrss
